import PetgraphModel.Proofs.Traversal
import PetgraphModel.Proofs.C08W2Topo
import PetgraphModel.Proofs.C08W2Dfsv
import PetgraphModel.Proofs.C08W2Edges
import PetgraphModel.Proofs.C08W2Nest
import PetgraphModel.Proofs.C08W2Reach
import PetgraphModel.Proofs.C08W2Fuel
import PetgraphModel.Proofs.C08W3Total
import PetgraphModel.Proofs.C08W3Driver
import PetgraphModel.Proofs.C08W3Clauses
import PetgraphModel.Proofs.C08W3MoveTo
import PetgraphModel.Proofs.C08W4Clauses
import PetgraphModel.Proofs.C08W4Script
import PetgraphModel.Proofs.C08W4Prefix
import PetgraphModel.Proofs.C08W4Checks
import PetgraphModel.Proofs.C08W4SetJudges
import PetgraphModel.Proofs.C08W6VisitMap
/-
C08 — `Dfs`, `Bfs`, `DfsPostOrder`, `Topo`, `depth_first_search` visit what graph theory says.
Theorems over the mirror models of `Model/Traversal.lean` (tied to /repo by the exact
correspondence of `./check C08` on every storage type and on the adaptors `Reversed`, `EdgeFiltered`,
`NodeFiltered`, `Frozen`), soundness of every run-time judge of `Driver/C08.lean` (wave 4), and the
run-time checks of the hypotheses (last section).
-/
namespace PetgraphModel.C08T
open PetgraphModel PetgraphModel.Trav PetgraphModel.MGraph PetgraphModel.TravProofs

/-- `Dfs`: created (or `move_to`-ed) at `s` on a walker whose discovered set is `D` (any earlier
use), iterated to exhaustion, emits each node reachable from `s` through undiscovered nodes exactly
once and nothing else — the documented `move_to` behaviour; `D = []` is the fresh walker. -/
theorem C08_dfs_moveTo (v : View) (hv : ViewOk v) (s : Nat) (D : List Nat) (inner outer : Nat)
    (out : List Nat) (d' : Dfs)
    (h : dfsAll v inner outer { stack := [s], disc := D } [] = some (out, d')) :
    out.Nodup ∧ (∀ x, x ∈ out ↔ ReachAvoid v.g D s x) ∧ (∀ x, x ∈ d'.disc ↔ x ∈ D ∨ x ∈ out) :=
  TravProofs.dfs_moveTo v hv s D inner outer out d' h

/-- fresh `Dfs`: exactly the reachable set, each once. -/
theorem C08_dfs (v : View) (hv : ViewOk v) (s : Nat) (inner outer : Nat) (out : List Nat) (d' : Dfs)
    (h : dfsAll v inner outer { stack := [s], disc := [] } [] = some (out, d')) :
    out.Nodup ∧ ∀ x, x ∈ out ↔ Reach v.g s x :=
  TravProofs.dfs_fresh v hv s inner outer out d' h

/-- `Bfs` emits exactly the reachable set, each node once, in non-decreasing hop distance. -/
theorem C08_bfs (v : View) (hv : ViewOk v) (s : Nat) (fuel : Nat) (out : List Nat)
    (h : bfsAll v fuel (Bfs.new s) [] = some out) :
    out.Nodup ∧ (∀ x, x ∈ out ↔ Reach v.g s x) ∧
    ∀ i j (hi : i < out.length) (hj : j < out.length), i ≤ j →
      ∀ di dj, IsDist v.g s out[i] di → IsDist v.g s out[j] dj → di ≤ dj :=
  TravProofs.bfs_spec v hv s fuel out h

/-- `DfsPostOrder` (fresh, to exhaustion): exactly the reachable set, each once. -/
theorem C08_postorder_set (v : View) (hv : ViewOk v) (s : Nat) (inner outer : Nat) (out : List Nat)
    (d' : Post) (h : postAll v inner outer { stack := [s] } [] = some (out, d')) :
    out.Nodup ∧ ∀ x, x ∈ out ↔ Reach v.g s x :=
  TravProofs.post_set v hv s inner outer out d' h

/-- `DfsPostOrder`: a node is emitted only after each of its successors that cannot reach it back. -/
theorem C08_postorder_order (v : View) (hv : ViewOk v) (s : Nat) (inner outer : Nat) (out : List Nat)
    (d' : Post) (h : postAll v inner outer { stack := [s] } [] = some (out, d'))
    (x y : Nat) (hx : x ∈ out) (hxy : v.g.Adj x y) (hback : ¬ Reach v.g y x) :
    out.idxOf y < out.idxOf x :=
  TravProofs.post_order v hv s inner outer out d' h x y hx hxy hback

/-- `Topo`: no node twice, and every emitted node comes after all its predecessors (so all of them
were emitted). -/
theorem C08_topo_order (v : View) (hv : ViewOk v) (hp : PredOk v) (inner outer : Nat) (out : List Nat)
    (h : topoAll v inner outer (Topo.new v) [] = some out) :
    out.Nodup ∧ ∀ x ∈ out, ∀ p, v.g.Adj p x → p ∈ out ∧ out.idxOf p < out.idxOf x :=
  TravProofs.topo_order v hv hp inner outer out h

/-- `Topo` never emits a node that lies on a cycle or downstream of one. -/
theorem C08_topo_no_cyclic (v : View) (hv : ViewOk v) (hp : PredOk v) (inner outer : Nat) (out : List Nat)
    (h : topoAll v inner outer (Topo.new v) [] = some out) (c x : Nat)
    (hc : Reach1 v.g c c) (hcx : Reach v.g c x) : x ∉ out :=
  TravProofs.topo_no_cyclic v hv hp inner outer out h c x hc hcx

/-- `Topo` emits every node of a well-formed view that is neither on nor downstream of a cycle. -/
def C08_topo_complete_statement : Prop :=
  ∀ (v : View), ViewOk v → PredOk v → v.g.WellFormed → ∀ (inner outer : Nat) (out : List Nat),
    topoAll v inner outer (Topo.new v) [] = some out →
    ∀ x ∈ v.g.nodes, (∀ c, Reach1 v.g c c → ¬ Reach v.g c x) → x ∈ out

/-- `depth_first_search`: event times are 0,1,2,… in order of the Discover/Finish events. -/
theorem C08_dfsv_times (v : View) (script : List Ctl) (fuel : Nat) (starts : List Nat) (s' : VS) (r : Res)
    (h : dfsSearch v script fuel starts {} = (s', r)) :
    (s'.evs.reverse.filterMap fun e => match e with
      | .discover _ t => some t | .finish _ t => some t | _ => none) = List.range s'.time :=
  TravProofs.dfsv_times v script fuel starts s' r h


/-! ### wave 2: `Topo` completeness -/

/-- `Topo` emits every node of a well-formed view that is neither on nor downstream of a cycle
(the hypothesis `topoAll … = some out` already says the run terminated within its fuel). -/
theorem C08_topo_complete : C08_topo_complete_statement :=
  fun v hv hp hwf inner outer out h x hx hno =>
    TravProofs.topo_complete v hv hp hwf inner outer out h x hx hno

/-- `Topo` on a well-formed view emits exactly the nodes that are neither on nor downstream of a cycle. -/
theorem C08_topo_exact (v : View) (hv : ViewOk v) (hp : PredOk v) (hwf : v.g.WellFormed)
    (inner outer : Nat) (out : List Nat) (h : topoAll v inner outer (Topo.new v) [] = some out)
    (x : Nat) (hx : x ∈ v.g.nodes) :
    x ∈ out ↔ ∀ c, Reach1 v.g c c → ¬ Reach v.g c x :=
  ⟨fun hxo c hc hcx => C08_topo_no_cyclic v hv hp inner outer out h c x hc hcx hxo,
   fun hno => C08_topo_complete v hv hp hwf inner outer out h x hx hno⟩

/-! ### wave 2: `depth_first_search` event stream

Vocabulary (all in `Proofs/C08W2Events.lean`, plain functions of a *forward* event list `L`):
`discOf L` / `finOf L` = the nodes with a `Discover` / `Finish` event in `L`;
`openOf L` = the stack of open calls after `L` (`Discover n` pushes `n`, `Finish` pops), innermost
first; `nestRun [] L` = strict bracket matching (`Finish n` must close the innermost open `n`);
`edgeOf e` = the `(source, target)` of an edge event; `fromNode u e` = "`e` is an edge out of `u` or
`Finish(u)`".  The event with 0-based index `k` is answered `ctlAt script k`; in
`L = pre ++ e :: post` the event `e` has index `pre.length` and `pre` is the history at that moment.

All of them are corollaries of one simulation theorem (`TravProofs.dfsSearch_post`): the history of
every run of the model is accepted by the deterministic reference machine `TravProofs.step`, whose
state carries the recursion stack (each open call with the neighbours it still has to examine). -/

/-- No node is discovered twice or finished twice, only discovered nodes are finished, and the final
`discovered` / `finished` maps are exactly the nodes with a Discover / Finish event. -/
theorem C08_dfsv_once (v : View) (script : List Ctl) (fuel : Nat) (starts : List Nat) (s' : VS) (r : Res)
    (h : dfsSearch v script fuel starts {} = (s', r)) :
    (discOf s'.evs.reverse).Nodup ∧ (finOf s'.evs.reverse).Nodup ∧
    (∀ n, n ∈ finOf s'.evs.reverse → n ∈ discOf s'.evs.reverse) ∧
    s'.disc = (discOf s'.evs.reverse).reverse ∧ s'.fin = (finOf s'.evs.reverse).reverse :=
  TravProofs.dfsv_once h

/-- Well-nestedness: the Discover/Finish events form a well-parenthesised word (every `Finish n`
closes the innermost open `Discover n`); the calls still open at the end are `openOf`; when the
result is `Continue` none is open, so — with `C08_dfsv_once` — every Discover has exactly one
matching later Finish. -/
theorem C08_dfsv_nested (v : View) (script : List Ctl) (fuel : Nat) (starts : List Nat) (s' : VS) (r : Res)
    (h : dfsSearch v script fuel starts {} = (s', r)) :
    nestRun [] s'.evs.reverse = some (openOf s'.evs.reverse) ∧
    (r = .cont → openOf s'.evs.reverse = []) ∧
    (r = .cont → ∀ n, n ∈ discOf s'.evs.reverse → n ∈ finOf s'.evs.reverse) :=
  TravProofs.dfsv_nested h

/-- `Discover(n)`: `n` was undiscovered; it is a root (no call open, `n` one of the start nodes) or
it immediately follows `TreeEdge(u, n)` answered `Continue`. -/
theorem C08_dfsv_discover (v : View) (script : List Ctl) (fuel : Nat) (starts : List Nat) (s' : VS) (r : Res)
    (h : dfsSearch v script fuel starts {} = (s', r)) (pre post : List Ev) (n t : Nat)
    (hL : s'.evs.reverse = pre ++ .discover n t :: post) :
    n ∉ discOf pre ∧
    ((openOf pre = [] ∧ n ∈ starts) ∨
     (∃ u pre', pre = pre' ++ [.tree u n] ∧ ctlAt script pre'.length = .cont)) :=
  TravProofs.dfsv_discover h hL

/-- `Finish(n)` closes the innermost open call, which is `n` (discovered, not yet finished). -/
theorem C08_dfsv_finish (v : View) (script : List Ctl) (fuel : Nat) (starts : List Nat) (s' : VS) (r : Res)
    (h : dfsSearch v script fuel starts {} = (s', r)) (pre post : List Ev) (n t : Nat)
    (hL : s'.evs.reverse = pre ++ .finish n t :: post) :
    (∃ rest, openOf pre = n :: rest) ∧ n ∈ discOf pre ∧ n ∉ finOf pre :=
  TravProofs.dfsv_finish h hL

/-- `TreeEdge(u, w)`: `u` is the innermost open call, `w` is a successor of `u` and undiscovered at
that moment; if the visitor answers `Continue`, `Discover(w)` follows immediately (the stream can
end right there only when the model ran out of fuel). -/
theorem C08_dfsv_tree (v : View) (script : List Ctl) (fuel : Nat) (starts : List Nat) (s' : VS) (r : Res)
    (h : dfsSearch v script fuel starts {} = (s', r)) (pre post : List Ev) (u w : Nat)
    (hL : s'.evs.reverse = pre ++ .tree u w :: post) :
    w ∉ discOf pre ∧ (∃ rest, openOf pre = u :: rest) ∧ w ∈ v.succ u ∧
    (ctlAt script pre.length = .cont →
      (∃ t post', post = .discover w t :: post') ∨ (post = [] ∧ r = .fuel)) :=
  TravProofs.dfsv_tree h hL

/-- `BackEdge(u, w)`: `w` is discovered and not finished, and it is on the recursion stack: `u` is
the innermost open call and `w` is `u` itself (self-loop) or one of the calls enclosing it. -/
theorem C08_dfsv_back (v : View) (script : List Ctl) (fuel : Nat) (starts : List Nat) (s' : VS) (r : Res)
    (h : dfsSearch v script fuel starts {} = (s', r)) (pre post : List Ev) (u w : Nat)
    (hL : s'.evs.reverse = pre ++ .back u w :: post) :
    w ∈ discOf pre ∧ w ∉ finOf pre ∧ (∃ rest, openOf pre = u :: rest ∧ w ∈ u :: rest) ∧
    w ∈ v.succ u :=
  TravProofs.dfsv_back h hL

/-- `CrossForwardEdge(u, w)`: `w` is finished (so not on the recursion stack). -/
theorem C08_dfsv_cross (v : View) (script : List Ctl) (fuel : Nat) (starts : List Nat) (s' : VS) (r : Res)
    (h : dfsSearch v script fuel starts {} = (s', r)) (pre post : List Ev) (u w : Nat)
    (hL : s'.evs.reverse = pre ++ .cross u w :: post) :
    w ∈ finOf pre ∧ (∃ rest, openOf pre = u :: rest ∧ w ∉ u :: rest) ∧ w ∈ v.succ u :=
  TravProofs.dfsv_cross h hL

/-- "exactly when": the class of an edge event is a function of the state of its target at that
moment — tree iff undiscovered, back iff discovered and unfinished, cross/forward iff finished. -/
theorem C08_dfsv_classify (v : View) (script : List Ctl) (fuel : Nat) (starts : List Nat) (s' : VS) (r : Res)
    (h : dfsSearch v script fuel starts {} = (s', r)) (pre post : List Ev) (e : Ev) (u w : Nat)
    (hL : s'.evs.reverse = pre ++ e :: post) (he : edgeOf e = some (u, w)) :
    e = if w ∉ discOf pre then .tree u w else if w ∉ finOf pre then .back u w else .cross u w :=
  TravProofs.dfsv_classify h hL he

/-- `Break` stops immediately: no event after the one answered `Break`, and the result is `Break`. -/
theorem C08_dfsv_break (v : View) (script : List Ctl) (fuel : Nat) (starts : List Nat) (s' : VS) (r : Res)
    (h : dfsSearch v script fuel starts {} = (s', r)) (pre post : List Ev) (e : Ev)
    (hL : s'.evs.reverse = pre ++ e :: post) (hc : ctlAt script pre.length = .brk) :
    post = [] ∧ r = .brk :=
  TravProofs.dfsv_break h hL hc

/-- the result is `Break` exactly when the visitor answered `Break` to the last event. -/
theorem C08_dfsv_result_break (v : View) (script : List Ctl) (fuel : Nat) (starts : List Nat) (s' : VS) (r : Res)
    (h : dfsSearch v script fuel starts {} = (s', r)) :
    r = .brk ↔ ∃ pre e, s'.evs.reverse = pre ++ [e] ∧ ctlAt script pre.length = .brk :=
  TravProofs.dfsv_result_brk h

/-- `Prune` on `Discover(u)` goes straight to `Finish(u)` (no edge of `u` is examined). -/
theorem C08_dfsv_prune_discover (v : View) (script : List Ctl) (fuel : Nat) (starts : List Nat) (s' : VS) (r : Res)
    (h : dfsSearch v script fuel starts {} = (s', r)) (pre post : List Ev) (u t : Nat)
    (hL : s'.evs.reverse = pre ++ .discover u t :: post) (hc : ctlAt script pre.length = .prune) :
    ∃ post', post = .finish u (t + 1) :: post' :=
  TravProofs.dfsv_prune_discover h hL hc

/-- `Prune` on `TreeEdge(u, w)` skips the subtree: `w` is not entered; the next event (there is one
unless the model ran out of fuel) is the next edge out of `u` or `Finish(u)`. -/
theorem C08_dfsv_prune_tree (v : View) (script : List Ctl) (fuel : Nat) (starts : List Nat) (s' : VS) (r : Res)
    (h : dfsSearch v script fuel starts {} = (s', r)) (pre post : List Ev) (u w : Nat)
    (hL : s'.evs.reverse = pre ++ .tree u w :: post) (hc : ctlAt script pre.length = .prune) :
    (post = [] ∧ r = .fuel) ∨ ∃ e post', post = e :: post' ∧ fromNode u e :=
  TravProofs.dfsv_prune_tree h hL hc

/-- on back and cross/forward edges `Prune` is the same as `Continue`: the loop over the neighbours
of `u` goes on. -/
theorem C08_dfsv_nontree_next (v : View) (script : List Ctl) (fuel : Nat) (starts : List Nat) (s' : VS) (r : Res)
    (h : dfsSearch v script fuel starts {} = (s', r)) (pre post : List Ev) (e : Ev) (u w : Nat)
    (hL : s'.evs.reverse = pre ++ e :: post) (he : e = .back u w ∨ e = .cross u w)
    (hc : ctlAt script pre.length ≠ .brk) :
    (post = [] ∧ r = .fuel) ∨ ∃ e' post', post = e' :: post' ∧ fromNode u e' :=
  TravProofs.dfsv_nontree_next h hL he hc

/-- `Prune` on a `Finish` event is the documented panic: nothing follows and the result says so;
conversely that result only arises this way. -/
theorem C08_dfsv_prune_finish (v : View) (script : List Ctl) (fuel : Nat) (starts : List Nat) (s' : VS) (r : Res)
    (h : dfsSearch v script fuel starts {} = (s', r)) :
    (∀ pre post n t, s'.evs.reverse = pre ++ .finish n t :: post → ctlAt script pre.length = .prune →
      post = [] ∧ r = .panicPruneFinish) ∧
    (r = .panicPruneFinish ↔
      ∃ pre n t, s'.evs.reverse = pre ++ [.finish n t] ∧ ctlAt script pre.length = .prune) :=
  ⟨fun _ _ _ _ hL hc => TravProofs.dfsv_prune_finish h hL hc, TravProofs.dfsv_result_panic h⟩


/-- The simulation all the clauses above are read off: the forward event list of every run is
accepted by the deterministic reference machine (`TravProofs.step`: recursion stack with the
neighbours still to examine, discovered / finished sets, clock, and the obligation created by the
last control value), the final machine state carries the model's visit maps and clock, and its mode
matches the result (`ResMode`: `Continue` ⇒ idle with an empty stack, `Break` ⇒ dead, panic ⇒ panic,
out of fuel ⇒ still running). -/
theorem C08_dfsv_simulation (v : View) (script : List Ctl) (fuel : Nat) (starts : List Nat) (s' : VS) (r : Res)
    (h : dfsSearch v script fuel starts {} = (s', r)) :
    ∃ m, run v starts script MS.init 0 s'.evs.reverse = some m ∧
      m.disc = s'.disc ∧ m.fin = s'.fin ∧ m.time = s'.time ∧ ResMode r m :=
  TravProofs.dfsv_final h

/-- On `Continue` the whole event stream is a well-parenthesised word in the textbook sense
(`Balanced`: `ε` | neutral edge event · balanced | `Discover n` · balanced · `Finish n` · balanced);
`TravProofs.balanced_iff_nest` shows the grammar and the bracket-matching run `nestRun` agree. -/
theorem C08_dfsv_balanced (v : View) (script : List Ctl) (fuel : Nat) (starts : List Nat) (s' : VS)
    (h : dfsSearch v script fuel starts {} = (s', .cont)) : Balanced s'.evs.reverse :=
  TravProofs.dfsv_balanced h

/-- Every edge of a node that was not pruned is reported exactly once, in neighbour order: between
`Discover(u)` (not answered `Prune`) and `Finish(u)` the targets of the edge events with source `u`
(`uEdges u`) are exactly `v.succ u`.  (With `C08_dfsv_classify` this fixes every edge event.) -/
theorem C08_dfsv_edges_complete (v : View) (script : List Ctl) (fuel : Nat) (starts : List Nat) (s' : VS) (r : Res)
    (h : dfsSearch v script fuel starts {} = (s', r)) (pre mid post : List Ev) (u t t' : Nat)
    (hL : s'.evs.reverse = pre ++ .discover u t :: (mid ++ .finish u t' :: post))
    (hc : ctlAt script pre.length ≠ .prune) : uEdges u mid = v.succ u :=
  TravProofs.dfsv_edges_complete h hL hc

/-- Every discovered node is reachable from one of the start nodes (any script, any result). -/
theorem C08_dfsv_reach_sound (v : View) (hv : ViewOk v) (script : List Ctl) (fuel : Nat) (starts : List Nat)
    (s' : VS) (r : Res) (h : dfsSearch v script fuel starts {} = (s', r))
    (x : Nat) (hx : x ∈ discOf s'.evs.reverse) : ∃ s, s ∈ starts ∧ Reach v.g s x :=
  TravProofs.dfsv_reach_sound hv h x hx

/-- With a visitor that always answers `Continue` (and result `Continue`), a Discover/Finish pair is
reported for exactly the nodes reachable from the start nodes. -/
theorem C08_dfsv_reach_exact (v : View) (hv : ViewOk v) (script : List Ctl) (fuel : Nat) (starts : List Nat)
    (s' : VS) (h : dfsSearch v script fuel starts {} = (s', .cont))
    (hall : ∀ k, k < s'.evs.length → ctlAt script k = .cont) (x : Nat) :
    (x ∈ discOf s'.evs.reverse ↔ ∃ s, s ∈ starts ∧ Reach v.g s x) ∧
    (x ∈ finOf s'.evs.reverse ↔ ∃ s, s ∈ starts ∧ Reach v.g s x) := by
  have h1 := TravProofs.dfsv_reach_exact hv h hall x
  refine ⟨h1, ⟨fun hf => h1.mp ((TravProofs.dfsv_once h).2.2.1 x hf),
    fun hr => (TravProofs.dfsv_nested h).2.2 rfl x (h1.mpr hr)⟩⟩

/-- Fuel sufficiency: on a consistent view of a well-formed graph, with start nodes among the
graph's nodes and at least `dfsFuel v = 1 + Σ_{u ∈ nodes} (|succ u| + 1)` fuel, the model never
reports `Res.fuel` — so the `r = .fuel` alternatives above do not occur. -/
theorem C08_dfsv_fuel (v : View) (hv : ViewOk v) (hwf : v.g.WellFormed) (script : List Ctl) (fuel : Nat)
    (starts : List Nat) (hst : ∀ x, x ∈ starts → x ∈ v.g.nodes) (hf : dfsFuel v ≤ fuel) :
    (dfsSearch v script fuel starts {}).2 ≠ .fuel :=
  TravProofs.dfsv_fuel hv hwf hst hf

/-! ### wave 3: totality of the walker models

All walker theorems above are conditional on `dfsAll / bfsAll / postAll / topoAll … = some out`
(`none` = the model ran out of fuel).  `ViewOk` alone does not exclude that: it fixes the *set* of
neighbours a view enumerates, not how often (`C08_total_needs_bound_witness`).  The theorems below
give an explicit fuel, in terms of the neighbour lists of the view, that always suffices:

  inner fuel (loop iterations of one `next` call)  `walkFuel v = Σ_{u ∈ nodes} (|v.succ u| + 2) + 2`
  outer fuel (number of `next` calls)              `|nodes| + 1`

and `C08_driver_fuel_suffices` shows the fuel of `Driver/C08.lean` is at least that for every view
the driver accepts (there `|v.succ u| = |g.succ u|`, so `walkFuel v ≤ 2|E| + 2|V| + 2`). -/

/-- the inner fuel that suffices for every walker: `Σ_{u ∈ nodes} (|v.succ u| + 2) + 2` -/
abbrev walkFuel (v : View) : Nat := TravProofs.walkFuel v

theorem C08_walkFuel_eq (v : View) :
    walkFuel v = (v.g.nodes.map fun a => (v.succ a).length + 1).sum + v.g.nodes.length + 2 := by
  simp only [walkFuel, TravProofs.walkFuel, TravProofs.wsum_nil_eq]

/-- under the neighbour-list length bound (the hypothesis of `C16_simple_fast`; true of every view a
driver accepts) `walkFuel v ≤ 2|E| + 2|V| + 2` -/
theorem C08_walkFuel_le (v : View) (hwf : v.g.WellFormed)
    (hb : ∀ a, a ∈ v.g.nodes → (v.succ a).length ≤ (v.g.succ a).length) :
    walkFuel v ≤ 2 * v.g.edges.length + 2 * v.g.nodes.length + 2 :=
  TravProofs.walkFuel_le_of_succLe v hwf hb

/-- **`Dfs` is total**: created at (or `move_to`-ed to) a node `s`, whatever the discovered set `D`
left by earlier use, the run to exhaustion returns within `walkFuel v` inner and `|nodes| + 1` outer
fuel. -/
theorem C08_dfs_total (v : View) (hv : ViewOk v) (hwf : v.g.WellFormed) (s : Nat) (hs : s ∈ v.g.nodes)
    (D : List Nat) (inner outer : Nat) (hi : walkFuel v ≤ inner) (ho : v.g.nodes.length + 1 ≤ outer) :
    ∃ out d', dfsAll v inner outer { stack := [s], disc := D } [] = some (out, d') :=
  TravProofs.dfs_total v (TravProofs.closed_of_wf hv hwf) s hs D inner outer hi ho []

/-- **`Bfs` is total** within `|nodes| + 1` calls (there is no inner loop, and no bound on the
neighbour lists is needed). -/
theorem C08_bfs_total (v : View) (hv : ViewOk v) (hwf : v.g.WellFormed) (s : Nat) (hs : s ∈ v.g.nodes)
    (fuel : Nat) (ho : v.g.nodes.length + 1 ≤ fuel) : ∃ out, bfsAll v fuel (Bfs.new s) [] = some out :=
  TravProofs.bfs_total v (TravProofs.closed_of_wf hv hwf) s hs fuel ho

/-- **`DfsPostOrder` is total**: created at (or `move_to`-ed to) a node `s`, whatever the discovered
and finished sets left by earlier use. -/
theorem C08_postorder_total (v : View) (hv : ViewOk v) (hwf : v.g.WellFormed) (s : Nat) (hs : s ∈ v.g.nodes)
    (D F : List Nat) (inner outer : Nat) (hi : walkFuel v ≤ inner) (ho : v.g.nodes.length + 1 ≤ outer) :
    ∃ out d', postAll v inner outer { stack := [s], disc := D, fin := F } [] = some (out, d') :=
  TravProofs.post_total v (TravProofs.closed_of_wf hv hwf) s hs D F inner outer hi ho []

/-- **`Topo` is total** (from `Topo::new`). -/
theorem C08_topo_total (v : View) (hv : ViewOk v) (hwf : v.g.WellFormed)
    (inner outer : Nat) (hi : walkFuel v ≤ inner) (ho : v.g.nodes.length + 1 ≤ outer) :
    ∃ out, topoAll v inner outer (Topo.new v) [] = some out :=
  TravProofs.topo_total v (TravProofs.closed_of_wf hv hwf) inner outer hi ho

/-- **`Topo::with_initials` is total**: for a duplicate-free list of nodes within the same fuel, for
an arbitrary list of nodes with `|l|` more inner fuel (the initial stack can be that long). -/
theorem C08_topo_withInitials_total (v : View) (hv : ViewOk v) (hwf : v.g.WellFormed) (l : List Nat)
    (hl : ∀ x, x ∈ l → x ∈ v.g.nodes) (inner outer : Nat) (ho : v.g.nodes.length + 1 ≤ outer)
    (hi : (l.Nodup ∧ walkFuel v ≤ inner) ∨ walkFuel v + l.length ≤ inner) :
    ∃ out, topoAll v inner outer (Topo.withInitials v l) [] = some out := by
  rcases hi with ⟨hnd, hi⟩ | hi
  · exact TravProofs.topo_withInitials_total_nodup v (TravProofs.closed_of_wf hv hwf) l hnd hl inner outer hi ho
  · exact TravProofs.topo_withInitials_total v (TravProofs.closed_of_wf hv hwf) l hl inner outer hi ho

/-- **the driver's fuel suffices**: for every view `Driver/C08.lean` accepts (`viewOkB`: the neighbour
lists of every node are permutations of the abstract graph's) over a well-formed graph, each fuel the
driver uses is at least the bound of the totality theorem of the model it runs —
`runDfs` / `topoAll` inner `bigFuel`, `runPost` inner `2·bigFuel`, `runDfs` / `runPost` outer
`inner + 4`, `bfsAll` / `topoAll` outer `|nodes| + 2`, `dfsv` `4·bigFuel ≥ dfsFuel` (`C08_dfsv_fuel`). -/
theorem C08_driver_fuel_suffices (v : View) (h : C08.viewOkB v = true) (hwf : v.g.WellFormed) :
    walkFuel v ≤ C08.bigFuel v ∧ walkFuel v ≤ 2 * C08.bigFuel v ∧
    v.g.nodes.length + 1 ≤ C08.bigFuel v + 4 ∧ v.g.nodes.length + 1 ≤ 2 * C08.bigFuel v + 4 ∧
    v.g.nodes.length + 1 ≤ v.g.nodes.length + 2 ∧ dfsFuel v ≤ 4 * C08.bigFuel v :=
  TravProofs.driver_fuel v h hwf

/-- what `viewOkB` checks, as propositions: on every node the successor / predecessor iteration of
the view is a permutation of the abstract graph's (so `ViewOk` / `PredOk` restricted to the nodes,
and the length bound); a view that moreover enumerates nothing for a non-node satisfies `ViewOk` and
`PredOk` in full (over a well-formed graph). -/
theorem C08_driver_view_check (v : View) (h : C08.viewOkB v = true) :
    (∀ a, a ∈ v.g.nodes → (v.succ a).Perm (v.g.succ a) ∧ (v.pred a).Perm (v.g.pred a) ∧
      (∀ b, b ∈ v.succ a ↔ v.g.Adj a b) ∧ (∀ b, b ∈ v.pred a ↔ v.g.Adj b a)) ∧
    (v.g.WellFormed → (∀ a, a ∉ v.g.nodes → v.succ a = [] ∧ v.pred a = []) → ViewOk v ∧ PredOk v) :=
  ⟨fun a ha => ⟨(TravProofs.viewOkB_perm v h a ha).1, (TravProofs.viewOkB_perm v h a ha).2,
     TravProofs.viewOkB_succ_iff v h a ha, TravProofs.viewOkB_pred_iff v h a ha⟩,
   fun hwf hout => TravProofs.viewOkB_viewOk v h hwf hout⟩

/-- **no model run of the driver ends by lack of fuel**: on every accepted view of a well-formed
graph, with the driver's fuel, `Dfs` / `DfsPostOrder` (from any node, after any earlier use), `Bfs`,
`Topo` (all, or from any duplicate-free list of initial nodes) run to exhaustion and
`depth_first_search` never reports `Res.fuel`; the driver's own loops `C08.bfsAll` / `C08.topoAll`
return exactly the exhaustive runs the theorems speak about. -/
theorem C08_driver_runs_total (v : View) (h : C08.viewOkB v = true) (hwf : v.g.WellFormed) :
    (∀ s, s ∈ v.g.nodes → ∀ D, ∃ out d',
      dfsAll v (C08.bigFuel v) (C08.bigFuel v + 4) { stack := [s], disc := D } [] = some (out, d')) ∧
    (∀ s, s ∈ v.g.nodes → ∀ D F, ∃ out d',
      postAll v (2 * C08.bigFuel v) (2 * C08.bigFuel v + 4) { stack := [s], disc := D, fin := F } [] = some (out, d')) ∧
    (∀ s, s ∈ v.g.nodes → ∃ out, bfsAll v (v.g.nodes.length + 2) (Bfs.new s) [] = some out ∧
      C08.bfsAll v (v.g.nodes.length + 2) (Bfs.new s) [] = out) ∧
    (∃ out, topoAll v (C08.bigFuel v) (v.g.nodes.length + 2) (Topo.new v) [] = some out ∧
      C08.topoAll v (C08.bigFuel v) (v.g.nodes.length + 2) (Topo.new v) [] = out) ∧
    (∀ l : List Nat, l.Nodup → (∀ x, x ∈ l → x ∈ v.g.nodes) →
      ∃ out, topoAll v (C08.bigFuel v) (v.g.nodes.length + 2) (Topo.withInitials v l) [] = some out ∧
        C08.topoAll v (C08.bigFuel v) (v.g.nodes.length + 2) (Topo.withInitials v l) [] = out) ∧
    (∀ script starts, (∀ x, x ∈ starts → x ∈ v.g.nodes) →
      (dfsSearch v script (4 * C08.bigFuel v) starts {}).2 ≠ .fuel) := by
  obtain ⟨f1, f2, f3, f4, f5, f6⟩ := TravProofs.driver_fuel v h hwf
  have hcl := TravProofs.viewOkB_closed v h hwf
  refine ⟨?_, ?_, ?_, ?_, ?_, ?_⟩
  · intro s hs D; exact TravProofs.dfs_total v hcl s hs D _ _ f1 f3 []
  · intro s hs D F; exact TravProofs.post_total v hcl s hs D F _ _ f2 f4 []
  · intro s hs
    obtain ⟨out, ho⟩ := TravProofs.bfs_total v hcl s hs _ f5
    exact ⟨out, ho, TravProofs.driver_bfsAll_eq v _ _ _ _ ho⟩
  · obtain ⟨out, ho⟩ := TravProofs.topo_total v hcl _ _ f1 f5
    exact ⟨out, ho, TravProofs.driver_topoAll_eq v _ _ _ _ _ ho⟩
  · intro l hnd hl
    obtain ⟨out, ho⟩ := TravProofs.topo_withInitials_total_nodup v hcl l hnd hl _ _ f1 f5
    exact ⟨out, ho, TravProofs.driver_topoAll_eq v _ _ _ _ _ ho⟩
  · intro script starts hst
    exact TravProofs.dfsSearch_no_fuel v script _ hcl starts {} hst f6

/-- **the driver's scripted walker runs never report `FUEL`**: on every accepted view of a well-formed
graph, for every `walk dfs` / `walk post` script (any sequence of `move_to`, `reset`, "take k", "take
all") whose `move_to` targets are nodes, the model answer `runDfs` / `runPost` consists only of node
ids and `x` (`showTok`), i.e. neither `dfsNext` / `postNext` nor the outer `takeN` loop ever ran out
of the driver's fuel. -/
theorem C08_driver_walk_no_fuel (v : View) (h : C08.viewOkB v = true) (hwf : v.g.WellFormed)
    (cmds : List C08.Cmd) (hc : ∀ s, C08.Cmd.new s ∈ cmds → s ∈ v.g.nodes) :
    (∃ toks : List (Option Nat), C08.runDfs v cmds = toks.map C08.showTok) ∧
    (∃ toks : List (Option Nat), C08.runPost v cmds = toks.map C08.showTok) := by
  obtain ⟨f1, f2, _⟩ := TravProofs.driver_fuel v h hwf
  have hcl := TravProofs.viewOkB_closed v h hwf
  exact ⟨TravProofs.runDfs_no_fuel v hcl f1 cmds hc, TravProofs.runPost_no_fuel v hcl f2 cmds hc⟩

/-- `ViewOk` alone is not enough (the auditor's witness): the graph `0 → 1` seen through a view that
lists the neighbour `1` of `0` sixty times satisfies `ViewOk` over a well-formed graph, yet with the
driver's fuel (`bigFuel = 24`) the `Dfs` model gives up (`none`): after emitting `0` and `1` it has
59 stale copies of `1` to pop in one `next` call.  `viewOkB` rejects this view, and
`walkFuel v = 65 > 24`. -/
theorem C08_total_needs_bound_witness :
    ∃ v : View, ViewOk v ∧ v.g.WellFormed ∧ C08.viewOkB v = false ∧ 0 ∈ v.g.nodes ∧
      dfsAll v (C08.bigFuel v) (C08.bigFuel v + 4) { stack := [0], disc := [] } [] = none := by
  let g : MGraph := ⟨true, [0, 1], [⟨0, 0, 1, 1⟩]⟩
  let v : View := ⟨g, 2, [(0, 0), (1, 1)], [(0, List.replicate 60 (1, 0))], []⟩
  have hv : ViewOk v := by
    intro a b
    by_cases ha : a = 0
    · subst ha
      simp only [View.succ, View.outOf, v, g, MGraph.Adj]
      simp [List.lookup]
      constructor
      · rintro rfl; rfl
      · intro e; exact e.symm
    · have e0 : (a == 0) = false := by simpa using ha
      simp only [View.succ, View.outOf, v, g, MGraph.Adj]
      simp [List.lookup, e0]
      intro e; exact (ha e.symm).elim
  refine ⟨v, hv, ?_, by decide, by simp [v, g], by decide⟩
  refine ⟨by simp [v, g], ?_⟩
  intro e he
  simp only [v, g, List.mem_singleton] at he
  subst he
  simp [v, g]

/-! ### wave 3: corollaries with the run hypothesis discharged -/

/-- fresh `Dfs`, unconditionally: within the stated fuel the run returns, and it lists exactly the
reachable set, each node once. -/
theorem C08_dfs_exact (v : View) (hv : ViewOk v) (hwf : v.g.WellFormed) (s : Nat) (hs : s ∈ v.g.nodes)
    (inner outer : Nat) (hi : walkFuel v ≤ inner) (ho : v.g.nodes.length + 1 ≤ outer) :
    ∃ out d', dfsAll v inner outer { stack := [s], disc := [] } [] = some (out, d') ∧
      out.Nodup ∧ ∀ x, x ∈ out ↔ Reach v.g s x := by
  obtain ⟨out, d', h⟩ := C08_dfs_total v hv hwf s hs [] inner outer hi ho
  exact ⟨out, d', h, C08_dfs v hv s inner outer out d' h⟩

/-- `Bfs`, unconditionally. -/
theorem C08_bfs_exact (v : View) (hv : ViewOk v) (hwf : v.g.WellFormed) (s : Nat) (hs : s ∈ v.g.nodes)
    (fuel : Nat) (ho : v.g.nodes.length + 1 ≤ fuel) :
    ∃ out, bfsAll v fuel (Bfs.new s) [] = some out ∧ out.Nodup ∧ (∀ x, x ∈ out ↔ Reach v.g s x) ∧
      ∀ i j (hi : i < out.length) (hj : j < out.length), i ≤ j →
        ∀ di dj, IsDist v.g s out[i] di → IsDist v.g s out[j] dj → di ≤ dj := by
  obtain ⟨out, h⟩ := C08_bfs_total v hv hwf s hs fuel ho
  exact ⟨out, h, C08_bfs v hv s fuel out h⟩

/-- fresh `DfsPostOrder`, unconditionally: exactly the reachable set, each once, every node after
each of its successors that cannot reach it back. -/
theorem C08_postorder_exact (v : View) (hv : ViewOk v) (hwf : v.g.WellFormed) (s : Nat) (hs : s ∈ v.g.nodes)
    (inner outer : Nat) (hi : walkFuel v ≤ inner) (ho : v.g.nodes.length + 1 ≤ outer) :
    ∃ out d', postAll v inner outer { stack := [s] } [] = some (out, d') ∧
      out.Nodup ∧ (∀ x, x ∈ out ↔ Reach v.g s x) ∧
      ∀ x y, x ∈ out → v.g.Adj x y → ¬ Reach v.g y x → out.idxOf y < out.idxOf x := by
  obtain ⟨out, d', h⟩ := C08_postorder_total v hv hwf s hs [] [] inner outer hi ho
  exact ⟨out, d', h, (C08_postorder_set v hv s inner outer out d' h).1,
    (C08_postorder_set v hv s inner outer out d' h).2,
    fun x y hx hxy hb => C08_postorder_order v hv s inner outer out d' h x y hx hxy hb⟩

/-- `Topo`, unconditionally: it emits exactly the nodes neither on nor downstream of a cycle, each
once, each after all its predecessors. -/
theorem C08_topo_exact_total (v : View) (hv : ViewOk v) (hp : PredOk v) (hwf : v.g.WellFormed)
    (inner outer : Nat) (hi : walkFuel v ≤ inner) (ho : v.g.nodes.length + 1 ≤ outer) :
    ∃ out, topoAll v inner outer (Topo.new v) [] = some out ∧ out.Nodup ∧
      (∀ x ∈ out, ∀ p, v.g.Adj p x → p ∈ out ∧ out.idxOf p < out.idxOf x) ∧
      ∀ x, x ∈ v.g.nodes → (x ∈ out ↔ ∀ c, Reach1 v.g c c → ¬ Reach v.g c x) := by
  obtain ⟨out, h⟩ := C08_topo_total v hv hwf inner outer hi ho
  exact ⟨out, h, (C08_topo_order v hv hp inner outer out h).1, (C08_topo_order v hv hp inner outer out h).2,
    fun x hx => C08_topo_exact v hv hp hwf inner outer out h x hx⟩

/-! ### wave 3: clauses not covered before -/

/-- **reverse post-order of a DAG is a topological order**: on a graph without cycles the reverse
of the `DfsPostOrder` output lists exactly the nodes reachable from the start, each once, and every
edge out of a listed node points forward in it. -/
theorem C08_postorder_reverse_topo (v : View) (hv : ViewOk v) (s : Nat) (inner outer : Nat) (out : List Nat)
    (d' : Post) (h : postAll v inner outer { stack := [s] } [] = some (out, d'))
    (hdag : ∀ c, ¬ Reach1 v.g c c) :
    out.reverse.Nodup ∧ (∀ x, x ∈ out.reverse ↔ Reach v.g s x) ∧
    ∀ x y, x ∈ out.reverse → v.g.Adj x y →
      y ∈ out.reverse ∧ out.reverse.idxOf x < out.reverse.idxOf y :=
  TravProofs.post_reverse_topo v hv s inner outer out d' h hdag

/-- **`Topo` emits every node exactly when the graph is acyclic** (a self-loop is a cycle). -/
theorem C08_topo_all_iff_acyclic (v : View) (hv : ViewOk v) (hp : PredOk v) (hwf : v.g.WellFormed)
    (inner outer : Nat) (out : List Nat) (h : topoAll v inner outer (Topo.new v) [] = some out) :
    (∀ x, x ∈ v.g.nodes → x ∈ out) ↔ ∀ c, ¬ Reach1 v.g c c :=
  TravProofs.topo_all_iff_acyclic v hv hp hwf inner outer out h

/-- **`DfsPostOrder::move_to` on a used walker** (the shape of `C08_dfs_moveTo`): `move_to(s)` clears
the stack and keeps the `discovered` / `finished` maps `D`, `F` of the earlier use (`F ⊆ D`: only
discovered nodes are ever finished).  Iterated to exhaustion from there the walker emits, each once,
exactly the nodes reachable from `s` through nodes outside `D` — plus `s` itself when the earlier run
had discovered but not yet finished it (`s ∈ D`, `s ∉ F`: an abandoned run; then `s` is popped as
"discovered, unfinished" and emitted alone) — and the maps grow by exactly the emitted nodes.
`D = F = []` is the fresh walker of `C08_postorder_set`; after a run to exhaustion `D = F`. -/
theorem C08_postorder_moveTo (v : View) (hv : ViewOk v) (s : Nat) (D F : List Nat)
    (hFD : ∀ x, x ∈ F → x ∈ D) (inner outer : Nat) (out : List Nat) (d' : Post)
    (h : postAll v inner outer { stack := [s], disc := D, fin := F } [] = some (out, d')) :
    out.Nodup ∧
    (∀ x, x ∈ out ↔ ReachAvoid v.g D s x ∨ (x = s ∧ s ∈ D ∧ s ∉ F)) ∧
    (∀ x, x ∈ d'.disc ↔ x ∈ D ∨ ReachAvoid v.g D s x) ∧
    (∀ x, x ∈ d'.fin ↔ x ∈ F ∨ x ∈ out) :=
  TravProofs.post_moveTo v hv s D F hFD inner outer out d' h

/-- **`Topo::with_initials(l)`**, any list `l`: no node twice; every emitted node comes after all its
predecessors, all of which were emitted (so nothing on or downstream of a cycle is emitted); and
every emitted node is reachable from a node of `l` that has no predecessor. -/
theorem C08_topo_withInitials (v : View) (hv : ViewOk v) (hp : PredOk v) (l : List Nat) (inner outer : Nat)
    (out : List Nat) (h : topoAll v inner outer (Topo.withInitials v l) [] = some out) :
    out.Nodup ∧ (∀ x ∈ out, ∀ p, v.g.Adj p x → p ∈ out ∧ out.idxOf p < out.idxOf x) ∧
    (∀ c x, Reach1 v.g c c → Reach v.g c x → x ∉ out) ∧
    ∀ x, x ∈ out → ∃ i, i ∈ l ∧ (∀ p, ¬ v.g.Adj p i) ∧ Reach v.g i x := by
  refine ⟨(TravProofs.topo_withInitials_order v hp l inner outer out h).1,
    (TravProofs.topo_withInitials_order v hp l inner outer out h).2,
    fun c x hc hcx => TravProofs.topo_withInitials_no_cyclic v hp l inner outer out h c x hc hcx, ?_⟩
  intro x hx
  obtain ⟨i, hi, hi0, hix⟩ := TravProofs.topo_withInitials_sound v hv l inner outer (Topo.withInitials v l) [] out
    (by
      intro y hy
      simp only [Topo.withInitials, Topo.initials, List.mem_reverse, List.mem_filter, List.isEmpty_iff] at hy
      exact ⟨y, hy.1, hy.2, Reach.refl y⟩)
    (by intro y hy; cases hy) h x hx
  refine ⟨i, hi, ?_, hix⟩
  intro p hpi
  have := (hp i p).mpr hpi
  rw [hi0] at this
  cases this


/-! ### wave 4, goal 1: the run-time event-replay checker `C08.judgeEvents` is sound

Vocabulary: `TravProofs.Accepts v starts script L r` — the reference machine of `C08_dfsv_simulation`
accepts the forward event list `L` on the view `v` and ends in a state matching the result `r`;
`TravProofs.EventClauses g starts script L r` — the bundle of all clauses of the property about
`depth_first_search` (times, nesting, classification, control), stated against the ABSTRACT graph;
`TravProofs.resStr r` — the word the harness prints for `r`. -/

/-- **`judgeEvents` is sound**: an accepted answer `evs | res` is a run of the reference machine on some
neighbour order of the abstract graph (every neighbour list a permutation of `g.succ`, so the view is
`ViewOk`), ending as the implementation said; after a complete traversal every start node was
discovered.  No hypothesis about `g`, the start nodes or the script. -/
theorem C08_judgeEvents_sound (g : MGraph) (starts : List Nat) (script : List Ctl) (evs : List Ev) (res : String)
    (h : C08.judgeEvents g starts script evs res = none) :
    ∃ v r, v.g = g ∧ (∀ a, (v.succ a).Perm (g.succ a)) ∧ ViewOk v ∧ Accepts v starts script evs r ∧
      r ≠ .fuel ∧ res = resStr r ∧ (r = .cont → ∀ x, x ∈ starts → x ∈ discOf evs) :=
  TravProofs.judgeEvents_sound g starts script evs res h

/-- every accepted stream — of the model (`accepts_of_dfsSearch`) or of the implementation
(`C08_judgeEvents_sound`) — satisfies all clauses of the property w.r.t. the abstract graph. -/
theorem C08_accepted_clauses (v : View) (hp : ∀ a, (v.succ a).Perm (v.g.succ a)) (starts : List Nat)
    (script : List Ctl) (L : List Ev) (r : Res) (h : Accepts v starts script L r) (hr : r ≠ .fuel) :
    EventClauses v.g starts script L r :=
  TravProofs.clauses_of_accepts hp h hr

/-- **what the driver's `ok` on a `dfsv` line guarantees** (as far as the specification goes): the
implementation's event stream satisfies the nesting / classification / time-stamp / control clauses
w.r.t. the abstract graph and the control script, its result word is the one the clauses determine, and
after a complete traversal the discovered nodes are exactly those reachable from the start nodes
respecting the prunes (`C08_dfsv_reach_prune`). -/
theorem C08_judgeEvents_clauses (g : MGraph) (starts : List Nat) (script : List Ctl) (evs : List Ev) (res : String)
    (h : C08.judgeEvents g starts script evs res = none) :
    ∃ r, r ≠ .fuel ∧ res = resStr r ∧ EventClauses g starts script evs r ∧
      (r = .cont → (∀ x, x ∈ starts → x ∈ discOf evs) ∧
        ∀ x, x ∈ discOf evs ↔ ∃ s, s ∈ starts ∧ PReach g script evs s x) :=
  TravProofs.judgeEvents_clauses g starts script evs res h

/-- non-vacuity: the judge accepts a stream with a pruned tree edge (`0 → 1` pruned, `2` entered), and
rejects the same stream when `Discover(2)` lacks its tree edge. -/
example : C08.judgeEvents ⟨true, [0, 1, 2], [⟨0, 0, 1, 1⟩, ⟨1, 0, 2, 1⟩, ⟨2, 1, 2, 1⟩]⟩ [0] [.cont, .prune]
    [.discover 0 0, .tree 0 1, .tree 0 2, .discover 2 1, .finish 2 2, .finish 0 3] "cont" = none := by decide
example : C08.judgeEvents ⟨true, [0, 1, 2], [⟨0, 0, 1, 1⟩, ⟨1, 0, 2, 1⟩, ⟨2, 1, 2, 1⟩]⟩ [0] [.cont, .prune]
    [.discover 0 0, .tree 0 1, .discover 2 1, .finish 2 2, .finish 0 3] "cont" ≠ none := by decide

/-! ### wave 4, goal 2: `DfsPostOrder` order clause for a used walker; the script judges are sound -/

/-- **order clause after `move_to` on a used walker** whose earlier segments were all run to exhaustion
(or that was reset): `discovered` and `finished` are the same set (`D`, `F`).  Every node `x` emitted
after `move_to(s)` comes after each successor `y` that cannot reach it back through nodes outside `D` —
a fortiori after each successor that cannot reach it back at all: `y` was finished before the `move_to`,
or it is emitted earlier in this segment.  Afterwards `discovered = finished` again, so the theorem
applies to the next `move_to`. -/
theorem C08_postorder_moveTo_order (v : View) (hv : ViewOk v) (s : Nat) (D F : List Nat)
    (hFD : ∀ x, x ∈ F → x ∈ D) (hDF : ∀ x, x ∈ D → x ∈ F) (inner outer : Nat) (out : List Nat) (d' : Post)
    (h : postAll v inner outer { stack := [s], disc := D, fin := F } [] = some (out, d')) :
    (∀ x y, x ∈ out → v.g.Adj x y → ¬ ReachAvoid v.g D y x → y ∈ F ∨ (y ∈ out ∧ out.idxOf y < out.idxOf x)) ∧
    (∀ x y, x ∈ out → v.g.Adj x y → ¬ Reach v.g y x → y ∈ F ∨ (y ∈ out ∧ out.idxOf y < out.idxOf x)) ∧
    (∀ x, x ∈ d'.disc ↔ x ∈ d'.fin) := by
  have key := fun x y hx hxy hb => TravProofs.post_moveTo_order v hv s D F hFD hDF inner outer out d' h x y hx hxy hb
  refine ⟨key, fun x y hx hxy hb => key x y hx hxy (fun hra => hb (TravProofs.reachAvoid_reach' hra)), ?_⟩
  obtain ⟨_, h2, h3, h4⟩ := TravProofs.post_moveTo v hv s D F hFD inner outer out d' h
  intro x
  rw [h3 x, h4 x, h2 x]
  constructor
  · rintro (h5 | h5)
    · exact Or.inl (hDF x h5)
    · exact Or.inr (Or.inl h5)
  · rintro (h5 | h5 | ⟨_, h6, h7⟩)
    · exact Or.inl (hFD x h5)
    · exact Or.inr h5
    · exact absurd (hDF s h6) h7

/-- non-vacuity: on `0 → 1`, `0 → 2`, `1 → 2`, a walker that has emitted `2, 1` and is moved to `0` emits `0`. -/
example : (postAll ⟨⟨true, [0, 1, 2], [⟨0, 0, 1, 1⟩, ⟨1, 0, 2, 1⟩, ⟨2, 1, 2, 1⟩]⟩, 3, [],
      [(0, [(1, 0), (2, 1)]), (1, [(2, 2)])], []⟩ 10 10 { stack := [0], disc := [1, 2], fin := [1, 2] } []).map (·.1) =
    some [0] := by decide

/-- **`DfsPostOrder` used for several start nodes** (a fresh or reset walker, `move_to` each start of
`ss` in turn and iterate to exhaustion — `TravProofs.postSegs`): everything emitted, in order, lists
exactly the nodes reachable from the start nodes, each once, and every node after each of its
successors that cannot reach it back — the order clause of the property for the used walker. -/
theorem C08_postorder_segments (v : View) (hv : ViewOk v) (inner outer : Nat) (ss : List Nat)
    (segs : List (List Nat)) (d' : Post) (h : postSegs v inner outer ss {} = some (segs, d')) :
    segs.flatten.Nodup ∧ (∀ x, x ∈ segs.flatten ↔ ∃ s, s ∈ ss ∧ Reach v.g s x) ∧
    ∀ x, x ∈ segs.flatten → ∀ y, v.g.Adj x y → ¬ Reach v.g y x →
      segs.flatten.idxOf y < segs.flatten.idxOf x :=
  TravProofs.post_segs v hv inner outer ss segs d' h

/-- **the `walk dfs` script judge is sound**: an accepted answer decodes into segments (one per
`move_to`; `C08_script_decode`) each of which satisfies `SegSetOk` w.r.t. the nodes emitted earlier
since the last reset (`base`): nothing emitted twice, only nodes reachable from the segment's start
through nodes outside `base`, and all of them once the walker returned `None` — what `C08_dfs_moveTo`
proves of the model. -/
theorem C08_judgeDfs_sound (g : MGraph) (cmds : List C08.Cmd) (toks : List (Option Nat))
    (h : C08.judgeDfs g cmds toks = none) :
    ∃ segs, C08.decodeScript cmds toks = .ok segs ∧ ∀ sg, sg ∈ segs →
      (sg.start = none → sg.out = []) ∧ ∀ s, sg.start = some s → SegSetOk g sg s :=
  TravProofs.judgeDfs_sound g cmds toks h

/-- **the `walk post` script judge (`judgePostScript`) is sound**: every segment of an accepted answer
that follows only exhausted segments (`dirty = false`) satisfies the set clauses `SegSetOk` and, once
the walker returned `None`, the order clause `SegOrderOk` (each emitted node after every successor that
cannot reach it back: emitted in an earlier segment or earlier in this one) — what
`C08_postorder_moveTo` / `C08_postorder_moveTo_order` prove of the model; after an abandoned segment
only "nothing is emitted twice since the last reset" is judged. -/
theorem C08_judgePostScript_sound (g : MGraph) (cmds : List C08.Cmd) (toks : List (Option Nat))
    (h : C08.judgePostScript g cmds toks = none) :
    ∃ segs, C08.decodeScript cmds toks = .ok segs ∧ ∀ sg, sg ∈ segs →
      (sg.dirty = true → sg.out.Nodup ∧ ∀ x, x ∈ sg.out → x ∉ sg.base) ∧
      (sg.dirty = false → (sg.start = none → sg.out = []) ∧
        ∀ s, sg.start = some s → SegSetOk g sg s ∧ (sg.exhausted = true → SegOrderOk g sg)) :=
  TravProofs.judgePostScript_sound g cmds toks h

/-- the decoding of an answer into segments loses nothing: the segments carry the emitted nodes in
order, the first one is the walker as created, and each later one follows its predecessor as
`SegNext` says (`reset`: nothing remembered; `move_to`: base = everything emitted since the last reset). -/
theorem C08_script_decode (cmds : List C08.Cmd) (toks : List (Option Nat)) (segs : List C08.Seg)
    (h : C08.decodeScript cmds toks = .ok segs) :
    ∃ first tail, segs = first :: tail ∧ first.base = [] ∧ first.start = none ∧ first.dirty = false ∧
      SegChain first tail ∧ (segs.map C08.Seg.out).flatten = toks.filterMap id :=
  TravProofs.decodeScript_spec cmds toks segs h

/-- the model's segments pass the segment judge's specification: a `DfsPostOrder` whose maps both equal
`base` (as sets), moved to `s` and run to exhaustion, emits a segment satisfying `SegSetOk` and
`SegOrderOk`. -/
theorem C08_postorder_segment_ok (v : View) (hv : ViewOk v) (s : Nat) (D F base : List Nat)
    (hD : ∀ x, x ∈ D ↔ x ∈ base) (hF : ∀ x, x ∈ F ↔ x ∈ base) (inner outer : Nat) (out : List Nat) (d' : Post)
    (h : postAll v inner outer { stack := [s], disc := D, fin := F } [] = some (out, d')) :
    SegSetOk v.g { base := base, start := some s, out := out, exhausted := true } s ∧
    SegOrderOk v.g { base := base, start := some s, out := out, exhausted := true } := by
  have hFD : ∀ x, x ∈ F → x ∈ D := fun x hx => (hD x).mpr ((hF x).mp hx)
  have hDF : ∀ x, x ∈ D → x ∈ F := fun x hx => (hF x).mpr ((hD x).mp hx)
  obtain ⟨h1, h2, _, _⟩ := TravProofs.post_moveTo v hv s D F hFD inner outer out d' h
  have hra : ∀ x, ReachAvoid v.g D s x ↔ ReachAvoid v.g base s x := by
    intro x
    constructor <;> intro hr
    · induction hr with
      | refl h0 => exact ReachAvoid.refl (fun hb => h0 ((hD _).mpr hb))
      | step _ hadj hc ih => exact ReachAvoid.step ih hadj (fun hb => hc ((hD _).mpr hb))
    · induction hr with
      | refl h0 => exact ReachAvoid.refl (fun hb => h0 ((hD _).mp hb))
      | step _ hadj hc ih => exact ReachAvoid.step ih hadj (fun hb => hc ((hD _).mp hb))
  have hout : ∀ x, x ∈ out ↔ ReachAvoid v.g base s x := by
    intro x
    rw [h2 x, ← hra x]
    exact ⟨fun h => h.elim id (fun ⟨_, h6, h7⟩ => absurd (hDF s h6) h7), Or.inl⟩
  refine ⟨⟨h1, fun x hx hb => ((hout x).mp hx).not_mem hb, fun x hx => (hout x).mp hx,
    fun _ x hx => (hout x).mpr hx⟩, ?_⟩
  intro x hx y hxy hback
  rcases (C08_postorder_moveTo_order v hv s D F hFD hDF inner outer out d' h).2.1 x y hx hxy hback with h3 | h3
  · exact Or.inl ((hF y).mp h3)
  · exact Or.inr h3

/-- non-vacuity of the script judges: accepted and rejected answers on `0 → 1`, `0 → 2`, `1 → 2`. -/
example : C08.judgePostScript ⟨true, [0, 1, 2], [⟨0, 0, 1, 1⟩, ⟨1, 0, 2, 1⟩, ⟨2, 1, 2, 1⟩]⟩
    [.new 1, .all, .new 0, .all] [some 2, some 1, none, some 0, none] = none := by decide
example : C08.judgePostScript ⟨true, [0, 1, 2], [⟨0, 0, 1, 1⟩, ⟨1, 0, 2, 1⟩, ⟨2, 1, 2, 1⟩]⟩
    [.new 2, .all, .new 0, .all] [some 2, none, some 0, some 1, none] ≠ none := by decide
example : C08.judgeDfs ⟨true, [0, 1, 2], [⟨0, 0, 1, 1⟩, ⟨1, 0, 2, 1⟩, ⟨2, 1, 2, 1⟩]⟩
    [.new 1, .take 1, .new 0, .all] [some 1, some 0, some 2, none] = none := by decide

/-! ### wave 4, goal 3: `depth_first_search` — the discovered set under `Prune`, and `Break` -/

/-- **the discovered set with a pruning visitor** (result `Continue`, any script): a Discover/Finish pair
is reported for exactly the nodes reachable from a start node along edges `u → w` such that
`Discover(u)` was not answered `Prune` (`PrunedAt`) and the edge was not pruned away (`Blocked`: a
`TreeEdge(u, w)` answered `Prune`, none answered `Continue`).  Nodes reachable only through pruned nodes
or pruned tree edges are NOT discovered. -/
theorem C08_dfsv_reach_prune (v : View) (hv : ViewOk v) (script : List Ctl) (fuel : Nat) (starts : List Nat)
    (s' : VS) (h : dfsSearch v script fuel starts {} = (s', .cont)) (x : Nat) :
    (x ∈ discOf s'.evs.reverse ↔ ∃ s, s ∈ starts ∧ PReach v.g script s'.evs.reverse s x) ∧
    (x ∈ finOf s'.evs.reverse ↔ ∃ s, s ∈ starts ∧ PReach v.g script s'.evs.reverse s x) := by
  have hst : ∀ s, s ∈ starts → s ∈ discOf s'.evs.reverse := by
    intro s hs
    have := (TravProofs.dfsSearch_starts v script fuel starts {} (by rw [h])).2 s hs
    rw [h] at this
    rw [(TravProofs.dfsv_once h).2.2.2.1] at this
    simpa using this
  have h1 := TravProofs.acc_reach_prune hv (TravProofs.accepts_of_dfsSearch h) hst x
  exact ⟨h1, ⟨fun hf => h1.mp ((TravProofs.dfsv_once h).2.2.1 x hf),
    fun hr => (TravProofs.dfsv_nested h).2.2 rfl x (h1.mpr hr)⟩⟩

/-- without any `Prune` answer the pruned reachability is plain reachability, so
`C08_dfsv_reach_exact` is the special case. -/
theorem C08_dfsv_preach_of_reach (g : MGraph) (script : List Ctl) (L : List Ev)
    (hall : ∀ k, k < L.length → ctlAt script k ≠ .prune) (a b : Nat) (h : Reach g a b) :
    PReach g script L a b :=
  TravProofs.preach_of_reach hall h

/-- non-vacuity and sharpness: on `0 → 1 → 2` with `Discover(1)` answered `Prune`, node `2` is reachable
but not discovered, the run ends with `Continue`. -/
example : (dfsSearch ⟨⟨true, [0, 1, 2], [⟨0, 0, 1, 1⟩, ⟨1, 1, 2, 1⟩]⟩, 3, [], [(0, [(1, 0)]), (1, [(2, 1)])], []⟩
      [.cont, .cont, .prune] 20 [0] {}).2 = .cont ∧
    discOf (dfsSearch ⟨⟨true, [0, 1, 2], [⟨0, 0, 1, 1⟩, ⟨1, 1, 2, 1⟩]⟩, 3, [], [(0, [(1, 0)]), (1, [(2, 1)])], []⟩
      [.cont, .cont, .prune] 20 [0] {}).1.evs.reverse = [0, 1] := by decide

/-- **prefix property**: the event with index `k` depends only on the visitor's answers to the events
`0 … k-1`.  Two visitors agreeing on their first `K` answers see the same first `K + 1` events, and if
one run has at most `K` events the two runs are identical. -/
theorem C08_dfsv_prefix (v : View) (K : Nat) (sc1 sc2 : List Ctl)
    (hagree : ∀ i, i < K → ctlAt sc1 i = ctlAt sc2 i) (fuel : Nat) (starts : List Nat) :
    (dfsSearch v sc1 fuel starts {}).1.evs.reverse.take (K + 1) =
      (dfsSearch v sc2 fuel starts {}).1.evs.reverse.take (K + 1) ∧
    ((dfsSearch v sc1 fuel starts {}).1.evs.length ≤ K →
      dfsSearch v sc1 fuel starts {} = dfsSearch v sc2 fuel starts {}) :=
  TravProofs.dfsSearch_prefix v hagree fuel starts

/-- **`Break` only cuts the traversal short**: a run ending with `Break` consists of exactly the first
events of the run in which the visitor answers `Continue` from the breaking event on (the script
truncated just before the `Break`); in particular it discovers exactly what that prefix discovers. -/
theorem C08_dfsv_break_prefix (v : View) (script : List Ctl) (fuel : Nat) (starts : List Nat) (s1 : VS)
    (h1 : dfsSearch v script fuel starts {} = (s1, .brk)) :
    s1.evs.reverse =
      (dfsSearch v (script.take (s1.evs.length - 1)) fuel starts {}).1.evs.reverse.take s1.evs.length :=
  TravProofs.dfsSearch_break_prefix v script fuel starts s1 h1

/-! ### wave 4: the remaining run-time judges are sound as well -/

/-- **`judgeBfs` is sound**: an accepted `Bfs` answer lists exactly the nodes reachable from the start,
each once, in non-decreasing hop distance — the conclusion of `C08_bfs`, now of the implementation's
answer.  (The distances come from an unverified layered search and are certified: `distCertBad`.) -/
theorem C08_judgeBfs_sound (g : MGraph) (s : Nat) (out : List Nat) (h : C08.judgeBfs g s out = none) :
    out.Nodup ∧ (∀ x, x ∈ out ↔ Reach g s x) ∧
    ∀ i j (hi : i < out.length) (hj : j < out.length), i ≤ j →
      ∀ di dj, IsDist g s out[i] di → IsDist g s out[j] dj → di ≤ dj :=
  TravProofs.judgeBfs_sound g s out h

/-- **`judgeTopoAll` is sound** (graph well-formed — checked per case by `wfB`): an accepted `Topo`
answer lists exactly the nodes neither on nor downstream of a cycle, each once, each after all its
predecessors — the conclusions of `C08_topo_order` and `C08_topo_exact`. -/
theorem C08_judgeTopoAll_sound (g : MGraph) (hwf : g.WellFormed) (out : List Nat)
    (h : C08.judgeTopoAll g out = none) :
    out.Nodup ∧ (∀ x, x ∈ out ↔ x ∈ g.nodes ∧ ∀ c, Reach1 g c c → ¬ Reach g c x) ∧
    ∀ x, x ∈ out → ∀ p, g.Adj p x → p ∈ out ∧ out.idxOf p < out.idxOf x :=
  TravProofs.judgeTopoAll_sound g hwf out h

/-- **`judgeTopoInit` is sound**: an accepted `Topo::with_initials` answer emits nothing twice and every
node after all its predecessors, all of which were emitted (hence nothing on or downstream of a cycle) —
the first two conclusions of `C08_topo_withInitials`. -/
theorem C08_judgeTopoInit_sound (g : MGraph) (out : List Nat) (h : C08.judgeTopoInit g out = none) :
    out.Nodup ∧ ∀ x, x ∈ out → ∀ p, g.Adj p x → p ∈ out ∧ out.idxOf p < out.idxOf x :=
  TravProofs.judgeTopoInit_sound g out h

/-- non-vacuity: on `0 → 1`, `0 → 2`, `1 → 2`, `2 → 3`, `3 → 2` the judges accept the right answers and
reject a Bfs answer out of distance order and a Topo answer containing a node of the cycle. -/
example : C08.judgeBfs ⟨true, [0, 1, 2, 3], [⟨0, 0, 1, 1⟩, ⟨1, 0, 2, 1⟩, ⟨2, 1, 2, 1⟩, ⟨3, 2, 3, 1⟩, ⟨4, 3, 2, 1⟩]⟩ 0 [0, 2, 1, 3] = none ∧
    C08.judgeBfs ⟨true, [0, 1, 2, 3], [⟨0, 0, 1, 1⟩, ⟨1, 0, 2, 1⟩, ⟨2, 1, 2, 1⟩, ⟨3, 2, 3, 1⟩, ⟨4, 3, 2, 1⟩]⟩ 0 [0, 2, 3, 1] ≠ none ∧
    C08.judgeTopoAll ⟨true, [0, 1, 2, 3], [⟨0, 0, 1, 1⟩, ⟨1, 0, 2, 1⟩, ⟨2, 1, 2, 1⟩, ⟨3, 2, 3, 1⟩, ⟨4, 3, 2, 1⟩]⟩ [0, 1] = none ∧
    C08.judgeTopoAll ⟨true, [0, 1, 2, 3], [⟨0, 0, 1, 1⟩, ⟨1, 0, 2, 1⟩, ⟨2, 1, 2, 1⟩, ⟨3, 2, 3, 1⟩, ⟨4, 3, 2, 1⟩]⟩ [0, 1, 2] ≠ none ∧
    C08.judgeTopoInit ⟨true, [0, 1, 2, 3], [⟨0, 0, 1, 1⟩, ⟨1, 0, 2, 1⟩, ⟨2, 1, 2, 1⟩, ⟨3, 2, 3, 1⟩, ⟨4, 3, 2, 1⟩]⟩ [0, 1] = none := by
  decide

/-! ### wave 4: run-time checks of the hypotheses

Every hypothesis of the theorems above that concerns the concrete case is evaluated by
`Driver/C08.lean` on every case it judges; a failing check is answered `SPECFAIL side condition …`
(the `graph` line: something the encoding must guarantee) or `SPECFAIL generator left the proved
range: …` (start nodes: something the generator must respect).

| hypothesis | Boolean | where |
|---|---|---|
| `ViewOk v`, `PredOk v` | `viewOkB v && wfB v.g && closedB v` | `graph` line |
| `v.g.WellFormed` | `wfB v.g` | `graph` line |
| `s ∈ v.g.nodes` (start / `move_to` target / start list / initials) | `nodesB v …` | every request |
| inner / outer fuel bounds | none needed: `C08_driver_fuel_suffices` from `viewOkB`, `wfB` | |
| `Topo::with_initials`: `l.Nodup ∨ walkFuel + |l| ≤ inner` | `initsOkB l` | `topo init` |
| run `= some …` / result `≠ fuel` | none needed: `C08_driver_runs_total`, `C08_driver_walk_no_fuel` | | -/

/-- `wfB` decides what `MGraph.WellFormed` needs. -/
theorem C08_wellFormed_check (g : MGraph) (h : C08.wfB g = true) : g.WellFormed :=
  TravProofs.wfB_sound h

/-- `closedB`: the view lists nothing for an id that is not a node. -/
theorem C08_viewClosed_check (v : View) (h : C08.closedB v = true) :
    ∀ a, a ∉ v.g.nodes → v.succ a = [] ∧ v.pred a = [] :=
  TravProofs.closedB_sound h

/-- the three checks of the `graph` line put the case inside the scope of every theorem above:
`ViewOk`, `PredOk`, `WellFormed`, and the neighbour lists stay inside the node list. -/
theorem C08_viewOk_check (v : View) (h1 : C08.viewOkB v = true) (h2 : C08.wfB v.g = true)
    (h3 : C08.closedB v = true) : ViewOk v ∧ PredOk v ∧ v.g.WellFormed ∧ TravProofs.Closed v :=
  TravProofs.graph_check h1 h2 h3

/-- `nodesB`: the start nodes of a request are nodes of the view; for a script, its `move_to` targets. -/
theorem C08_starts_check (v : View) (l : List Nat) (h : C08.nodesB v l = true) : ∀ x, x ∈ l → x ∈ v.g.nodes :=
  TravProofs.nodesB_sound h

theorem C08_script_starts_check (v : View) (cmds : List C08.Cmd) (h : C08.nodesB v (C08.cmdStarts cmds) = true) :
    ∀ s, C08.Cmd.new s ∈ cmds → s ∈ v.g.nodes :=
  fun s hs => TravProofs.nodesB_sound h s (TravProofs.mem_cmdStarts.mpr hs)

/-- `initsOkB`: the list handed to `Topo::with_initials` is duplicate-free or has at most 14 entries —
either way within the driver's fuel (next theorem). -/
theorem C08_inits_check (l : List Nat) (h : C08.initsOkB l = true) : l.Nodup ∨ l.length ≤ 14 :=
  TravProofs.initsOkB_sound h

/-- **`Topo::with_initials` never runs out of the driver's fuel** for any list of nodes `initsOkB`
accepts, repetitions included (`C08_driver_runs_total` covers duplicate-free lists only). -/
theorem C08_driver_topo_init_total (v : View) (h : C08.viewOkB v = true) (hwf : v.g.WellFormed) (l : List Nat)
    (hl : ∀ x, x ∈ l → x ∈ v.g.nodes) (hok : C08.initsOkB l = true) :
    ∃ out, topoAll v (C08.bigFuel v) (v.g.nodes.length + 2) (Topo.withInitials v l) [] = some out ∧
      C08.topoAll v (C08.bigFuel v) (v.g.nodes.length + 2) (Topo.withInitials v l) [] = out := by
  have hcl := TravProofs.viewOkB_closed v h hwf
  obtain ⟨f1, _, _, _, f5, _⟩ := TravProofs.driver_fuel v h hwf
  have f14 := TravProofs.driver_fuel_inits v h hwf
  rcases TravProofs.initsOkB_sound hok with hnd | hlen
  · obtain ⟨out, ho⟩ := TravProofs.topo_withInitials_total_nodup v hcl l hnd hl _ _ f1 f5
    exact ⟨out, ho, TravProofs.driver_topoAll_eq v _ _ _ _ _ ho⟩
  · obtain ⟨out, ho⟩ := TravProofs.topo_withInitials_total v hcl l hl (C08.bigFuel v) _
      (by have : TravProofs.walkFuel v + l.length ≤ C08.bigFuel v := by omega
          exact this) f5
    exact ⟨out, ho, TravProofs.driver_topoAll_eq v _ _ _ _ _ ho⟩

/-- non-vacuity of the checks: a view that passes all three, and one with a repeated node id that `wfB` rejects. -/
example : C08.viewOkB ⟨⟨true, [0, 1], [⟨0, 0, 1, 1⟩]⟩, 2, [], [(0, [(1, 0)])], [(1, [(0, 0)])]⟩ = true ∧
    C08.wfB ⟨true, [0, 1], [⟨0, 0, 1, 1⟩]⟩ = true ∧
    C08.closedB ⟨⟨true, [0, 1], [⟨0, 0, 1, 1⟩]⟩, 2, [], [(0, [(1, 0)])], [(1, [(0, 0)])]⟩ = true ∧
    C08.wfB ⟨true, [0, 0], []⟩ = false := by decide

/-! ### wave 6: the corners — `VisitMap` / `reset_map`, visitor return types, API routes

`harness/src/c08/corners.rs` reaches every public way of creating, re-using and copying a walker
(`new`, `empty`, `Default` + `reset`, a walker around a visit map made for a graph of another size +
`reset`, `from_parts`, `clone`, `clone_from`, `Walker::walk_next`, `WalkerIter`), every visitor return
type of `depth_first_search` and the visit maps themselves, on every adaptor over every base type.
The API routes are judged through the CANONICAL script with the same documented meaning (mirror model +
the proved judges above); the two genuinely new pieces of semantics are proved here. -/

/-- **`VisitMap` + `Visitable::reset_map`**: the list model the walkers' maps are mirrored by answers
every sequence of `visit` / `is_visited` / `unvisit` / `reset_map`, started on a fresh or reset map,
exactly as a SET of nodes does (`VMap.specStep`: `visit` returns "first visit", `unvisit` returns "was
visited", `reset_map` forgets everything). -/
theorem C08_visitmap_refines (ops : List VMap.Op) :
    VMap.run [] ops = VMap.specRun (fun _ => false) ops :=
  TravProofs.vrun_refines ops [] _ TravProofs.vrel_nil

/-- the same from any state: a map that holds exactly the nodes of `s`. -/
theorem C08_visitmap_refines_from (m : List Nat) (s : Nat → Bool) (h : ∀ x, x ∈ m ↔ s x = true)
    (ops : List VMap.Op) : VMap.run m ops = VMap.specRun s ops :=
  TravProofs.vrun_refines ops m s h

/-- the documented clauses, on the model: `visit a` answers "`a` was not visited" and marks it. -/
theorem C08_visitmap_visit (m : List Nat) (a : Nat) :
    (VMap.step m (.visit a)).2 = some (!m.contains a) ∧
    ∀ x, x ∈ (VMap.step m (.visit a)).1 ↔ x = a ∨ x ∈ m := by
  by_cases h : a ∈ m
  · refine ⟨by simp [VMap.step, h], fun x => ?_⟩
    simp only [VMap.step, List.contains_eq_mem, h, decide_true, if_true]
    exact ⟨Or.inr, fun hx => hx.elim (fun e => e ▸ h) id⟩
  · refine ⟨by simp [VMap.step, h], fun x => ?_⟩
    simp [VMap.step, h]

/-- `unvisit a` answers "`a` was visited" and unmarks `a` and nothing else. -/
theorem C08_visitmap_unvisit (m : List Nat) (a : Nat) :
    (VMap.step m (.unvisit a)).2 = some (m.contains a) ∧
    ∀ x, x ∈ (VMap.step m (.unvisit a)).1 ↔ x ≠ a ∧ x ∈ m := by
  by_cases h : a ∈ m
  · refine ⟨by simp [VMap.step, h], fun x => ?_⟩
    simp only [VMap.step, List.contains_eq_mem, h, decide_true, if_true, List.mem_filter, bne_iff_ne, ne_eq]
    exact ⟨fun ⟨a, b⟩ => ⟨b, a⟩, fun ⟨a, b⟩ => ⟨b, a⟩⟩
  · refine ⟨by simp [VMap.step, h], fun x => ?_⟩
    simp only [VMap.step, List.contains_eq_mem, h, decide_false, Bool.false_eq_true, if_false]
    exact ⟨fun hx => ⟨fun e => h (e ▸ hx), hx⟩, fun hx => hx.2⟩

/-- `reset_map`: afterwards no node is visited (and, in the model, every node can be visited again:
`C08_visitmap_visit` has no precondition). -/
theorem C08_visitmap_reset (m : List Nat) : (VMap.step m .reset).1 = [] := rfl

/-- the model never holds a node twice. -/
theorem C08_visitmap_nodup (m : List Nat) (h : m.Nodup) (op : VMap.Op) : (VMap.step m op).1.Nodup :=
  TravProofs.vstep_nodup m h op

/-- what the driver expects for a `vmap` request is the answer of the set specification. -/
theorem C08_vmap_judge (ops : List VMap.Op) :
    C08.vmapAnswer ops = C08.joinToks ((VMap.specRun (fun _ => false) ops).map VMap.showAns) := by
  unfold C08.vmapAnswer
  rw [C08_visitmap_refines]

/-- **visitor return types** (`dfsvx`): a script accepted for its return type (`kindOkB`) is interpreted
character by character — the control for the `k`-th event is the `k`-th character (`e` = `Err(_)` breaks,
as `ControlFlow for Result` documents), nothing is skipped. -/
theorem C08_dfsvx_script_check (kind script : String) (h : C08.kindOkB kind script = true) :
    (C08.parseCtlX script).length = script.toList.length :=
  TravProofs.parseCtlX_length kind script h

/-- the result part of a `dfsvx` answer is handed to `judgeEvents` as `break` only if the traversal
returned exactly the value the visitor produced at the last event (`Break(k)` / `Err(k)` with `k` the
index of that event) and the script breaks there; `cont` and `panic` pass unchanged.  So the clauses of
`C08_judgeEvents_sound` / `C08_judgeEvents_clauses` hold of every accepted `dfsvx` answer, for all four
return types. -/
theorem C08_dfsvx_result_check (script : String) (ctl : List Ctl) (n : Nat) (ri res : String)
    (h : C08.normResult script ctl n ri = some res) :
    (res = ri ∧ (ri = "cont" ∨ ri = "panic")) ∨
    (res = "break" ∧ 0 < n ∧ ri = C08.breakTok script (n - 1) ∧ ctlAt ctl (n - 1) = .brk) :=
  TravProofs.normResult_cases script ctl n ri res h

/-- non-vacuity: a script with all four answers is accepted for `Result<Control<B>, E>`, rejected for
`Result<(), E>`; `Err` at event 3 is reported as `err@3`, and a wrong payload is not accepted. -/
example : C08.kindOkB "resctl" "cpbe" = true ∧ C08.kindOkB "resunit" "cpbe" = false ∧
    C08.normResult "ccce" (C08.parseCtlX "ccce") 4 "err@3" = some "break" ∧
    C08.normResult "ccce" (C08.parseCtlX "ccce") 4 "err@2" = none ∧
    C08.normResult "ccce" (C08.parseCtlX "ccce") 4 "break@3" = none := by decide

/-- **API routes**: `X::new(g, s)`, `Default::default()` + `reset(g)` + `move_to(s)`, `X::empty(g)` +
`move_to(s)` and a walker around any foreign map + `reset(g)` + `move_to(s)` all denote the fresh walker at
`s` — in the model `reset` forgets the state it is applied to. -/
theorem C08_walker_new_canonical (d : Dfs) (p : Post) (s : Nat) :
    d.reset.moveTo s = { stack := [s], disc := [] } ∧
    (({} : Post).moveTo s = { stack := [s], disc := [], fin := [] }) ∧
    (p.moveTo s).disc = p.disc ∧ (p.moveTo s).fin = p.fin := ⟨rfl, rfl, rfl, rfl⟩

/-- a `reset` right after the creation of the walker changes nothing (canonical scripts of the routes
`R`, `E`, `S<i>` at the start). -/
theorem C08_script_leading_reset (v : View) (cmds : List C08.Cmd) :
    C08.runDfs v (.reset :: cmds) = C08.runDfs v cmds ∧ C08.runPost v (.reset :: cmds) = C08.runPost v cmds :=
  ⟨rfl, rfl⟩

/-- non-vacuity of the `VisitMap` model: visit, visit again, unvisit, unvisit again, visit, reset, query. -/
example : VMap.run [] [.visit 3, .visit 3, .unvisit 3, .unvisit 3, .visit 3, .isVisited 3, .reset, .isVisited 3] =
    [some true, some false, some true, some false, some true, some true, none, some false] := by decide

/-- the keys of a `vmap` request are nodes of the view (`nodesB`, checked on every request). -/
theorem C08_vmap_keys_check (v : View) (ops : List VMap.Op) (h : C08.nodesB v (VMap.opIds ops) = true) :
    ∀ x, x ∈ VMap.opIds ops → x ∈ v.g.nodes :=
  TravProofs.nodesB_sound h

end PetgraphModel.C08T
