import PetgraphModel.Proofs.Traversal
import PetgraphModel.Proofs.C08W2Topo
import PetgraphModel.Proofs.C08W2Dfsv
import PetgraphModel.Proofs.C08W2Edges
import PetgraphModel.Proofs.C08W2Nest
import PetgraphModel.Proofs.C08W2Reach
import PetgraphModel.Proofs.C08W2Fuel
import PetgraphModel.Proofs.C08W3Total
import PetgraphModel.Proofs.C08W3Driver
import PetgraphModel.Proofs.C08W3Clauses
import PetgraphModel.Proofs.C08W3MoveTo
/-
C08 — `Dfs`, `Bfs`, `DfsPostOrder`, `Topo`, `depth_first_search` visit what graph theory says.
Theorems over the mirror models of `Model/Traversal.lean` (tied to /repo by the exact
correspondence of `./check C08` on every storage type and on `Reversed`).
-/
namespace PetgraphModel.C08T
open PetgraphModel PetgraphModel.Trav PetgraphModel.MGraph PetgraphModel.TravProofs

/-- `Dfs`: created (or `move_to`-ed) at `s` on a walker whose discovered set is `D` (any earlier
use), iterated to exhaustion, emits each node reachable from `s` through undiscovered nodes exactly
once and nothing else — the documented `move_to` behaviour; `D = []` is the fresh walker. -/
theorem C08_dfs_moveTo (v : View) (hv : ViewOk v) (s : Nat) (D : List Nat) (inner outer : Nat)
    (out : List Nat) (d' : Dfs)
    (h : dfsAll v inner outer { stack := [s], disc := D } [] = some (out, d')) :
    out.Nodup ∧ (∀ x, x ∈ out ↔ ReachAvoid v.g D s x) ∧ (∀ x, x ∈ d'.disc ↔ x ∈ D ∨ x ∈ out) :=
  TravProofs.dfs_moveTo v hv s D inner outer out d' h

/-- fresh `Dfs`: exactly the reachable set, each once. -/
theorem C08_dfs (v : View) (hv : ViewOk v) (s : Nat) (inner outer : Nat) (out : List Nat) (d' : Dfs)
    (h : dfsAll v inner outer { stack := [s], disc := [] } [] = some (out, d')) :
    out.Nodup ∧ ∀ x, x ∈ out ↔ Reach v.g s x :=
  TravProofs.dfs_fresh v hv s inner outer out d' h

/-- `Bfs` emits exactly the reachable set, each node once, in non-decreasing hop distance. -/
theorem C08_bfs (v : View) (hv : ViewOk v) (s : Nat) (fuel : Nat) (out : List Nat)
    (h : bfsAll v fuel (Bfs.new s) [] = some out) :
    out.Nodup ∧ (∀ x, x ∈ out ↔ Reach v.g s x) ∧
    ∀ i j (hi : i < out.length) (hj : j < out.length), i ≤ j →
      ∀ di dj, IsDist v.g s out[i] di → IsDist v.g s out[j] dj → di ≤ dj :=
  TravProofs.bfs_spec v hv s fuel out h

/-- `DfsPostOrder` (fresh, to exhaustion): exactly the reachable set, each once. -/
theorem C08_postorder_set (v : View) (hv : ViewOk v) (s : Nat) (inner outer : Nat) (out : List Nat)
    (d' : Post) (h : postAll v inner outer { stack := [s] } [] = some (out, d')) :
    out.Nodup ∧ ∀ x, x ∈ out ↔ Reach v.g s x :=
  TravProofs.post_set v hv s inner outer out d' h

/-- `DfsPostOrder`: a node is emitted only after each of its successors that cannot reach it back. -/
theorem C08_postorder_order (v : View) (hv : ViewOk v) (s : Nat) (inner outer : Nat) (out : List Nat)
    (d' : Post) (h : postAll v inner outer { stack := [s] } [] = some (out, d'))
    (x y : Nat) (hx : x ∈ out) (hxy : v.g.Adj x y) (hback : ¬ Reach v.g y x) :
    out.idxOf y < out.idxOf x :=
  TravProofs.post_order v hv s inner outer out d' h x y hx hxy hback

/-- `Topo`: no node twice, and every emitted node comes after all its predecessors (so all of them
were emitted). -/
theorem C08_topo_order (v : View) (hv : ViewOk v) (hp : PredOk v) (inner outer : Nat) (out : List Nat)
    (h : topoAll v inner outer (Topo.new v) [] = some out) :
    out.Nodup ∧ ∀ x ∈ out, ∀ p, v.g.Adj p x → p ∈ out ∧ out.idxOf p < out.idxOf x :=
  TravProofs.topo_order v hv hp inner outer out h

/-- `Topo` never emits a node that lies on a cycle or downstream of one. -/
theorem C08_topo_no_cyclic (v : View) (hv : ViewOk v) (hp : PredOk v) (inner outer : Nat) (out : List Nat)
    (h : topoAll v inner outer (Topo.new v) [] = some out) (c x : Nat)
    (hc : Reach1 v.g c c) (hcx : Reach v.g c x) : x ∉ out :=
  TravProofs.topo_no_cyclic v hv hp inner outer out h c x hc hcx

/-- `Topo` emits every node of a well-formed view that is neither on nor downstream of a cycle. -/
def C08_topo_complete_statement : Prop :=
  ∀ (v : View), ViewOk v → PredOk v → v.g.WellFormed → ∀ (inner outer : Nat) (out : List Nat),
    topoAll v inner outer (Topo.new v) [] = some out →
    ∀ x ∈ v.g.nodes, (∀ c, Reach1 v.g c c → ¬ Reach v.g c x) → x ∈ out

/-- `depth_first_search`: event times are 0,1,2,… in order of the Discover/Finish events. -/
theorem C08_dfsv_times (v : View) (script : List Ctl) (fuel : Nat) (starts : List Nat) (s' : VS) (r : Res)
    (h : dfsSearch v script fuel starts {} = (s', r)) :
    (s'.evs.reverse.filterMap fun e => match e with
      | .discover _ t => some t | .finish _ t => some t | _ => none) = List.range s'.time :=
  TravProofs.dfsv_times v script fuel starts s' r h


/-! ### wave 2: `Topo` completeness -/

/-- `Topo` emits every node of a well-formed view that is neither on nor downstream of a cycle
(the hypothesis `topoAll … = some out` already says the run terminated within its fuel). -/
theorem C08_topo_complete : C08_topo_complete_statement :=
  fun v hv hp hwf inner outer out h x hx hno =>
    TravProofs.topo_complete v hv hp hwf inner outer out h x hx hno

/-- `Topo` on a well-formed view emits exactly the nodes that are neither on nor downstream of a cycle. -/
theorem C08_topo_exact (v : View) (hv : ViewOk v) (hp : PredOk v) (hwf : v.g.WellFormed)
    (inner outer : Nat) (out : List Nat) (h : topoAll v inner outer (Topo.new v) [] = some out)
    (x : Nat) (hx : x ∈ v.g.nodes) :
    x ∈ out ↔ ∀ c, Reach1 v.g c c → ¬ Reach v.g c x :=
  ⟨fun hxo c hc hcx => C08_topo_no_cyclic v hv hp inner outer out h c x hc hcx hxo,
   fun hno => C08_topo_complete v hv hp hwf inner outer out h x hx hno⟩

/-! ### wave 2: `depth_first_search` event stream

Vocabulary (all in `Proofs/C08W2Events.lean`, plain functions of a *forward* event list `L`):
`discOf L` / `finOf L` = the nodes with a `Discover` / `Finish` event in `L`;
`openOf L` = the stack of open calls after `L` (`Discover n` pushes `n`, `Finish` pops), innermost
first; `nestRun [] L` = strict bracket matching (`Finish n` must close the innermost open `n`);
`edgeOf e` = the `(source, target)` of an edge event; `fromNode u e` = "`e` is an edge out of `u` or
`Finish(u)`".  The event with 0-based index `k` is answered `ctlAt script k`; in
`L = pre ++ e :: post` the event `e` has index `pre.length` and `pre` is the history at that moment.

All of them are corollaries of one simulation theorem (`TravProofs.dfsSearch_post`): the history of
every run of the model is accepted by the deterministic reference machine `TravProofs.step`, whose
state carries the recursion stack (each open call with the neighbours it still has to examine). -/

/-- No node is discovered twice or finished twice, only discovered nodes are finished, and the final
`discovered` / `finished` maps are exactly the nodes with a Discover / Finish event. -/
theorem C08_dfsv_once (v : View) (script : List Ctl) (fuel : Nat) (starts : List Nat) (s' : VS) (r : Res)
    (h : dfsSearch v script fuel starts {} = (s', r)) :
    (discOf s'.evs.reverse).Nodup ∧ (finOf s'.evs.reverse).Nodup ∧
    (∀ n, n ∈ finOf s'.evs.reverse → n ∈ discOf s'.evs.reverse) ∧
    s'.disc = (discOf s'.evs.reverse).reverse ∧ s'.fin = (finOf s'.evs.reverse).reverse :=
  TravProofs.dfsv_once h

/-- Well-nestedness: the Discover/Finish events form a well-parenthesised word (every `Finish n`
closes the innermost open `Discover n`); the calls still open at the end are `openOf`; when the
result is `Continue` none is open, so — with `C08_dfsv_once` — every Discover has exactly one
matching later Finish. -/
theorem C08_dfsv_nested (v : View) (script : List Ctl) (fuel : Nat) (starts : List Nat) (s' : VS) (r : Res)
    (h : dfsSearch v script fuel starts {} = (s', r)) :
    nestRun [] s'.evs.reverse = some (openOf s'.evs.reverse) ∧
    (r = .cont → openOf s'.evs.reverse = []) ∧
    (r = .cont → ∀ n, n ∈ discOf s'.evs.reverse → n ∈ finOf s'.evs.reverse) :=
  TravProofs.dfsv_nested h

/-- `Discover(n)`: `n` was undiscovered; it is a root (no call open, `n` one of the start nodes) or
it immediately follows `TreeEdge(u, n)` answered `Continue`. -/
theorem C08_dfsv_discover (v : View) (script : List Ctl) (fuel : Nat) (starts : List Nat) (s' : VS) (r : Res)
    (h : dfsSearch v script fuel starts {} = (s', r)) (pre post : List Ev) (n t : Nat)
    (hL : s'.evs.reverse = pre ++ .discover n t :: post) :
    n ∉ discOf pre ∧
    ((openOf pre = [] ∧ n ∈ starts) ∨
     (∃ u pre', pre = pre' ++ [.tree u n] ∧ ctlAt script pre'.length = .cont)) :=
  TravProofs.dfsv_discover h hL

/-- `Finish(n)` closes the innermost open call, which is `n` (discovered, not yet finished). -/
theorem C08_dfsv_finish (v : View) (script : List Ctl) (fuel : Nat) (starts : List Nat) (s' : VS) (r : Res)
    (h : dfsSearch v script fuel starts {} = (s', r)) (pre post : List Ev) (n t : Nat)
    (hL : s'.evs.reverse = pre ++ .finish n t :: post) :
    (∃ rest, openOf pre = n :: rest) ∧ n ∈ discOf pre ∧ n ∉ finOf pre :=
  TravProofs.dfsv_finish h hL

/-- `TreeEdge(u, w)`: `u` is the innermost open call, `w` is a successor of `u` and undiscovered at
that moment; if the visitor answers `Continue`, `Discover(w)` follows immediately (the stream can
end right there only when the model ran out of fuel). -/
theorem C08_dfsv_tree (v : View) (script : List Ctl) (fuel : Nat) (starts : List Nat) (s' : VS) (r : Res)
    (h : dfsSearch v script fuel starts {} = (s', r)) (pre post : List Ev) (u w : Nat)
    (hL : s'.evs.reverse = pre ++ .tree u w :: post) :
    w ∉ discOf pre ∧ (∃ rest, openOf pre = u :: rest) ∧ w ∈ v.succ u ∧
    (ctlAt script pre.length = .cont →
      (∃ t post', post = .discover w t :: post') ∨ (post = [] ∧ r = .fuel)) :=
  TravProofs.dfsv_tree h hL

/-- `BackEdge(u, w)`: `w` is discovered and not finished, and it is on the recursion stack: `u` is
the innermost open call and `w` is `u` itself (self-loop) or one of the calls enclosing it. -/
theorem C08_dfsv_back (v : View) (script : List Ctl) (fuel : Nat) (starts : List Nat) (s' : VS) (r : Res)
    (h : dfsSearch v script fuel starts {} = (s', r)) (pre post : List Ev) (u w : Nat)
    (hL : s'.evs.reverse = pre ++ .back u w :: post) :
    w ∈ discOf pre ∧ w ∉ finOf pre ∧ (∃ rest, openOf pre = u :: rest ∧ w ∈ u :: rest) ∧
    w ∈ v.succ u :=
  TravProofs.dfsv_back h hL

/-- `CrossForwardEdge(u, w)`: `w` is finished (so not on the recursion stack). -/
theorem C08_dfsv_cross (v : View) (script : List Ctl) (fuel : Nat) (starts : List Nat) (s' : VS) (r : Res)
    (h : dfsSearch v script fuel starts {} = (s', r)) (pre post : List Ev) (u w : Nat)
    (hL : s'.evs.reverse = pre ++ .cross u w :: post) :
    w ∈ finOf pre ∧ (∃ rest, openOf pre = u :: rest ∧ w ∉ u :: rest) ∧ w ∈ v.succ u :=
  TravProofs.dfsv_cross h hL

/-- "exactly when": the class of an edge event is a function of the state of its target at that
moment — tree iff undiscovered, back iff discovered and unfinished, cross/forward iff finished. -/
theorem C08_dfsv_classify (v : View) (script : List Ctl) (fuel : Nat) (starts : List Nat) (s' : VS) (r : Res)
    (h : dfsSearch v script fuel starts {} = (s', r)) (pre post : List Ev) (e : Ev) (u w : Nat)
    (hL : s'.evs.reverse = pre ++ e :: post) (he : edgeOf e = some (u, w)) :
    e = if w ∉ discOf pre then .tree u w else if w ∉ finOf pre then .back u w else .cross u w :=
  TravProofs.dfsv_classify h hL he

/-- `Break` stops immediately: no event after the one answered `Break`, and the result is `Break`. -/
theorem C08_dfsv_break (v : View) (script : List Ctl) (fuel : Nat) (starts : List Nat) (s' : VS) (r : Res)
    (h : dfsSearch v script fuel starts {} = (s', r)) (pre post : List Ev) (e : Ev)
    (hL : s'.evs.reverse = pre ++ e :: post) (hc : ctlAt script pre.length = .brk) :
    post = [] ∧ r = .brk :=
  TravProofs.dfsv_break h hL hc

/-- the result is `Break` exactly when the visitor answered `Break` to the last event. -/
theorem C08_dfsv_result_break (v : View) (script : List Ctl) (fuel : Nat) (starts : List Nat) (s' : VS) (r : Res)
    (h : dfsSearch v script fuel starts {} = (s', r)) :
    r = .brk ↔ ∃ pre e, s'.evs.reverse = pre ++ [e] ∧ ctlAt script pre.length = .brk :=
  TravProofs.dfsv_result_brk h

/-- `Prune` on `Discover(u)` goes straight to `Finish(u)` (no edge of `u` is examined). -/
theorem C08_dfsv_prune_discover (v : View) (script : List Ctl) (fuel : Nat) (starts : List Nat) (s' : VS) (r : Res)
    (h : dfsSearch v script fuel starts {} = (s', r)) (pre post : List Ev) (u t : Nat)
    (hL : s'.evs.reverse = pre ++ .discover u t :: post) (hc : ctlAt script pre.length = .prune) :
    ∃ post', post = .finish u (t + 1) :: post' :=
  TravProofs.dfsv_prune_discover h hL hc

/-- `Prune` on `TreeEdge(u, w)` skips the subtree: `w` is not entered; the next event (there is one
unless the model ran out of fuel) is the next edge out of `u` or `Finish(u)`. -/
theorem C08_dfsv_prune_tree (v : View) (script : List Ctl) (fuel : Nat) (starts : List Nat) (s' : VS) (r : Res)
    (h : dfsSearch v script fuel starts {} = (s', r)) (pre post : List Ev) (u w : Nat)
    (hL : s'.evs.reverse = pre ++ .tree u w :: post) (hc : ctlAt script pre.length = .prune) :
    (post = [] ∧ r = .fuel) ∨ ∃ e post', post = e :: post' ∧ fromNode u e :=
  TravProofs.dfsv_prune_tree h hL hc

/-- on back and cross/forward edges `Prune` is the same as `Continue`: the loop over the neighbours
of `u` goes on. -/
theorem C08_dfsv_nontree_next (v : View) (script : List Ctl) (fuel : Nat) (starts : List Nat) (s' : VS) (r : Res)
    (h : dfsSearch v script fuel starts {} = (s', r)) (pre post : List Ev) (e : Ev) (u w : Nat)
    (hL : s'.evs.reverse = pre ++ e :: post) (he : e = .back u w ∨ e = .cross u w)
    (hc : ctlAt script pre.length ≠ .brk) :
    (post = [] ∧ r = .fuel) ∨ ∃ e' post', post = e' :: post' ∧ fromNode u e' :=
  TravProofs.dfsv_nontree_next h hL he hc

/-- `Prune` on a `Finish` event is the documented panic: nothing follows and the result says so;
conversely that result only arises this way. -/
theorem C08_dfsv_prune_finish (v : View) (script : List Ctl) (fuel : Nat) (starts : List Nat) (s' : VS) (r : Res)
    (h : dfsSearch v script fuel starts {} = (s', r)) :
    (∀ pre post n t, s'.evs.reverse = pre ++ .finish n t :: post → ctlAt script pre.length = .prune →
      post = [] ∧ r = .panicPruneFinish) ∧
    (r = .panicPruneFinish ↔
      ∃ pre n t, s'.evs.reverse = pre ++ [.finish n t] ∧ ctlAt script pre.length = .prune) :=
  ⟨fun _ _ _ _ hL hc => TravProofs.dfsv_prune_finish h hL hc, TravProofs.dfsv_result_panic h⟩


/-- The simulation all the clauses above are read off: the forward event list of every run is
accepted by the deterministic reference machine (`TravProofs.step`: recursion stack with the
neighbours still to examine, discovered / finished sets, clock, and the obligation created by the
last control value), the final machine state carries the model's visit maps and clock, and its mode
matches the result (`ResMode`: `Continue` ⇒ idle with an empty stack, `Break` ⇒ dead, panic ⇒ panic,
out of fuel ⇒ still running). -/
theorem C08_dfsv_simulation (v : View) (script : List Ctl) (fuel : Nat) (starts : List Nat) (s' : VS) (r : Res)
    (h : dfsSearch v script fuel starts {} = (s', r)) :
    ∃ m, run v starts script MS.init 0 s'.evs.reverse = some m ∧
      m.disc = s'.disc ∧ m.fin = s'.fin ∧ m.time = s'.time ∧ ResMode r m :=
  TravProofs.dfsv_final h

/-- On `Continue` the whole event stream is a well-parenthesised word in the textbook sense
(`Balanced`: `ε` | neutral edge event · balanced | `Discover n` · balanced · `Finish n` · balanced);
`TravProofs.balanced_iff_nest` shows the grammar and the bracket-matching run `nestRun` agree. -/
theorem C08_dfsv_balanced (v : View) (script : List Ctl) (fuel : Nat) (starts : List Nat) (s' : VS)
    (h : dfsSearch v script fuel starts {} = (s', .cont)) : Balanced s'.evs.reverse :=
  TravProofs.dfsv_balanced h

/-- Every edge of a node that was not pruned is reported exactly once, in neighbour order: between
`Discover(u)` (not answered `Prune`) and `Finish(u)` the targets of the edge events with source `u`
(`uEdges u`) are exactly `v.succ u`.  (With `C08_dfsv_classify` this fixes every edge event.) -/
theorem C08_dfsv_edges_complete (v : View) (script : List Ctl) (fuel : Nat) (starts : List Nat) (s' : VS) (r : Res)
    (h : dfsSearch v script fuel starts {} = (s', r)) (pre mid post : List Ev) (u t t' : Nat)
    (hL : s'.evs.reverse = pre ++ .discover u t :: (mid ++ .finish u t' :: post))
    (hc : ctlAt script pre.length ≠ .prune) : uEdges u mid = v.succ u :=
  TravProofs.dfsv_edges_complete h hL hc

/-- Every discovered node is reachable from one of the start nodes (any script, any result). -/
theorem C08_dfsv_reach_sound (v : View) (hv : ViewOk v) (script : List Ctl) (fuel : Nat) (starts : List Nat)
    (s' : VS) (r : Res) (h : dfsSearch v script fuel starts {} = (s', r))
    (x : Nat) (hx : x ∈ discOf s'.evs.reverse) : ∃ s, s ∈ starts ∧ Reach v.g s x :=
  TravProofs.dfsv_reach_sound hv h x hx

/-- With a visitor that always answers `Continue` (and result `Continue`), a Discover/Finish pair is
reported for exactly the nodes reachable from the start nodes. -/
theorem C08_dfsv_reach_exact (v : View) (hv : ViewOk v) (script : List Ctl) (fuel : Nat) (starts : List Nat)
    (s' : VS) (h : dfsSearch v script fuel starts {} = (s', .cont))
    (hall : ∀ k, k < s'.evs.length → ctlAt script k = .cont) (x : Nat) :
    (x ∈ discOf s'.evs.reverse ↔ ∃ s, s ∈ starts ∧ Reach v.g s x) ∧
    (x ∈ finOf s'.evs.reverse ↔ ∃ s, s ∈ starts ∧ Reach v.g s x) := by
  have h1 := TravProofs.dfsv_reach_exact hv h hall x
  refine ⟨h1, ⟨fun hf => h1.mp ((TravProofs.dfsv_once h).2.2.1 x hf),
    fun hr => (TravProofs.dfsv_nested h).2.2 rfl x (h1.mpr hr)⟩⟩

/-- Fuel sufficiency: on a consistent view of a well-formed graph, with start nodes among the
graph's nodes and at least `dfsFuel v = 1 + Σ_{u ∈ nodes} (|succ u| + 1)` fuel, the model never
reports `Res.fuel` — so the `r = .fuel` alternatives above do not occur. -/
theorem C08_dfsv_fuel (v : View) (hv : ViewOk v) (hwf : v.g.WellFormed) (script : List Ctl) (fuel : Nat)
    (starts : List Nat) (hst : ∀ x, x ∈ starts → x ∈ v.g.nodes) (hf : dfsFuel v ≤ fuel) :
    (dfsSearch v script fuel starts {}).2 ≠ .fuel :=
  TravProofs.dfsv_fuel hv hwf hst hf

/-! ### wave 3: totality of the walker models

All walker theorems above are conditional on `dfsAll / bfsAll / postAll / topoAll … = some out`
(`none` = the model ran out of fuel).  `ViewOk` alone does not exclude that: it fixes the *set* of
neighbours a view enumerates, not how often (`C08_total_needs_bound_witness`).  The theorems below
give an explicit fuel, in terms of the neighbour lists of the view, that always suffices:

  inner fuel (loop iterations of one `next` call)  `walkFuel v = Σ_{u ∈ nodes} (|v.succ u| + 2) + 2`
  outer fuel (number of `next` calls)              `|nodes| + 1`

and `C08_driver_fuel_suffices` shows the fuel of `Driver/C08.lean` is at least that for every view
the driver accepts (there `|v.succ u| = |g.succ u|`, so `walkFuel v ≤ 2|E| + 2|V| + 2`). -/

/-- the inner fuel that suffices for every walker: `Σ_{u ∈ nodes} (|v.succ u| + 2) + 2` -/
abbrev walkFuel (v : View) : Nat := TravProofs.walkFuel v

theorem C08_walkFuel_eq (v : View) :
    walkFuel v = (v.g.nodes.map fun a => (v.succ a).length + 1).sum + v.g.nodes.length + 2 := by
  simp only [walkFuel, TravProofs.walkFuel, TravProofs.wsum_nil_eq]

/-- under the neighbour-list length bound (the hypothesis of `C16_simple_fast`; true of every view a
driver accepts) `walkFuel v ≤ 2|E| + 2|V| + 2` -/
theorem C08_walkFuel_le (v : View) (hwf : v.g.WellFormed)
    (hb : ∀ a, a ∈ v.g.nodes → (v.succ a).length ≤ (v.g.succ a).length) :
    walkFuel v ≤ 2 * v.g.edges.length + 2 * v.g.nodes.length + 2 :=
  TravProofs.walkFuel_le_of_succLe v hwf hb

/-- **`Dfs` is total**: created at (or `move_to`-ed to) a node `s`, whatever the discovered set `D`
left by earlier use, the run to exhaustion returns within `walkFuel v` inner and `|nodes| + 1` outer
fuel. -/
theorem C08_dfs_total (v : View) (hv : ViewOk v) (hwf : v.g.WellFormed) (s : Nat) (hs : s ∈ v.g.nodes)
    (D : List Nat) (inner outer : Nat) (hi : walkFuel v ≤ inner) (ho : v.g.nodes.length + 1 ≤ outer) :
    ∃ out d', dfsAll v inner outer { stack := [s], disc := D } [] = some (out, d') :=
  TravProofs.dfs_total v (TravProofs.closed_of_wf hv hwf) s hs D inner outer hi ho []

/-- **`Bfs` is total** within `|nodes| + 1` calls (there is no inner loop, and no bound on the
neighbour lists is needed). -/
theorem C08_bfs_total (v : View) (hv : ViewOk v) (hwf : v.g.WellFormed) (s : Nat) (hs : s ∈ v.g.nodes)
    (fuel : Nat) (ho : v.g.nodes.length + 1 ≤ fuel) : ∃ out, bfsAll v fuel (Bfs.new s) [] = some out :=
  TravProofs.bfs_total v (TravProofs.closed_of_wf hv hwf) s hs fuel ho

/-- **`DfsPostOrder` is total**: created at (or `move_to`-ed to) a node `s`, whatever the discovered
and finished sets left by earlier use. -/
theorem C08_postorder_total (v : View) (hv : ViewOk v) (hwf : v.g.WellFormed) (s : Nat) (hs : s ∈ v.g.nodes)
    (D F : List Nat) (inner outer : Nat) (hi : walkFuel v ≤ inner) (ho : v.g.nodes.length + 1 ≤ outer) :
    ∃ out d', postAll v inner outer { stack := [s], disc := D, fin := F } [] = some (out, d') :=
  TravProofs.post_total v (TravProofs.closed_of_wf hv hwf) s hs D F inner outer hi ho []

/-- **`Topo` is total** (from `Topo::new`). -/
theorem C08_topo_total (v : View) (hv : ViewOk v) (hwf : v.g.WellFormed)
    (inner outer : Nat) (hi : walkFuel v ≤ inner) (ho : v.g.nodes.length + 1 ≤ outer) :
    ∃ out, topoAll v inner outer (Topo.new v) [] = some out :=
  TravProofs.topo_total v (TravProofs.closed_of_wf hv hwf) inner outer hi ho

/-- **`Topo::with_initials` is total**: for a duplicate-free list of nodes within the same fuel, for
an arbitrary list of nodes with `|l|` more inner fuel (the initial stack can be that long). -/
theorem C08_topo_withInitials_total (v : View) (hv : ViewOk v) (hwf : v.g.WellFormed) (l : List Nat)
    (hl : ∀ x, x ∈ l → x ∈ v.g.nodes) (inner outer : Nat) (ho : v.g.nodes.length + 1 ≤ outer)
    (hi : (l.Nodup ∧ walkFuel v ≤ inner) ∨ walkFuel v + l.length ≤ inner) :
    ∃ out, topoAll v inner outer (Topo.withInitials v l) [] = some out := by
  rcases hi with ⟨hnd, hi⟩ | hi
  · exact TravProofs.topo_withInitials_total_nodup v (TravProofs.closed_of_wf hv hwf) l hnd hl inner outer hi ho
  · exact TravProofs.topo_withInitials_total v (TravProofs.closed_of_wf hv hwf) l hl inner outer hi ho

/-- **the driver's fuel suffices**: for every view `Driver/C08.lean` accepts (`viewOkB`: the neighbour
lists of every node are permutations of the abstract graph's) over a well-formed graph, each fuel the
driver uses is at least the bound of the totality theorem of the model it runs —
`runDfs` / `topoAll` inner `bigFuel`, `runPost` inner `2·bigFuel`, `runDfs` / `runPost` outer
`inner + 4`, `bfsAll` / `topoAll` outer `|nodes| + 2`, `dfsv` `4·bigFuel ≥ dfsFuel` (`C08_dfsv_fuel`). -/
theorem C08_driver_fuel_suffices (v : View) (h : C08.viewOkB v = true) (hwf : v.g.WellFormed) :
    walkFuel v ≤ C08.bigFuel v ∧ walkFuel v ≤ 2 * C08.bigFuel v ∧
    v.g.nodes.length + 1 ≤ C08.bigFuel v + 4 ∧ v.g.nodes.length + 1 ≤ 2 * C08.bigFuel v + 4 ∧
    v.g.nodes.length + 1 ≤ v.g.nodes.length + 2 ∧ dfsFuel v ≤ 4 * C08.bigFuel v :=
  TravProofs.driver_fuel v h hwf

/-- what `viewOkB` checks, as propositions: on every node the successor / predecessor iteration of
the view is a permutation of the abstract graph's (so `ViewOk` / `PredOk` restricted to the nodes,
and the length bound); a view that moreover enumerates nothing for a non-node satisfies `ViewOk` and
`PredOk` in full (over a well-formed graph). -/
theorem C08_driver_view_check (v : View) (h : C08.viewOkB v = true) :
    (∀ a, a ∈ v.g.nodes → (v.succ a).Perm (v.g.succ a) ∧ (v.pred a).Perm (v.g.pred a) ∧
      (∀ b, b ∈ v.succ a ↔ v.g.Adj a b) ∧ (∀ b, b ∈ v.pred a ↔ v.g.Adj b a)) ∧
    (v.g.WellFormed → (∀ a, a ∉ v.g.nodes → v.succ a = [] ∧ v.pred a = []) → ViewOk v ∧ PredOk v) :=
  ⟨fun a ha => ⟨(TravProofs.viewOkB_perm v h a ha).1, (TravProofs.viewOkB_perm v h a ha).2,
     TravProofs.viewOkB_succ_iff v h a ha, TravProofs.viewOkB_pred_iff v h a ha⟩,
   fun hwf hout => TravProofs.viewOkB_viewOk v h hwf hout⟩

/-- **no model run of the driver ends by lack of fuel**: on every accepted view of a well-formed
graph, with the driver's fuel, `Dfs` / `DfsPostOrder` (from any node, after any earlier use), `Bfs`,
`Topo` (all, or from any duplicate-free list of initial nodes) run to exhaustion and
`depth_first_search` never reports `Res.fuel`; the driver's own loops `C08.bfsAll` / `C08.topoAll`
return exactly the exhaustive runs the theorems speak about. -/
theorem C08_driver_runs_total (v : View) (h : C08.viewOkB v = true) (hwf : v.g.WellFormed) :
    (∀ s, s ∈ v.g.nodes → ∀ D, ∃ out d',
      dfsAll v (C08.bigFuel v) (C08.bigFuel v + 4) { stack := [s], disc := D } [] = some (out, d')) ∧
    (∀ s, s ∈ v.g.nodes → ∀ D F, ∃ out d',
      postAll v (2 * C08.bigFuel v) (2 * C08.bigFuel v + 4) { stack := [s], disc := D, fin := F } [] = some (out, d')) ∧
    (∀ s, s ∈ v.g.nodes → ∃ out, bfsAll v (v.g.nodes.length + 2) (Bfs.new s) [] = some out ∧
      C08.bfsAll v (v.g.nodes.length + 2) (Bfs.new s) [] = out) ∧
    (∃ out, topoAll v (C08.bigFuel v) (v.g.nodes.length + 2) (Topo.new v) [] = some out ∧
      C08.topoAll v (C08.bigFuel v) (v.g.nodes.length + 2) (Topo.new v) [] = out) ∧
    (∀ l : List Nat, l.Nodup → (∀ x, x ∈ l → x ∈ v.g.nodes) →
      ∃ out, topoAll v (C08.bigFuel v) (v.g.nodes.length + 2) (Topo.withInitials v l) [] = some out ∧
        C08.topoAll v (C08.bigFuel v) (v.g.nodes.length + 2) (Topo.withInitials v l) [] = out) ∧
    (∀ script starts, (∀ x, x ∈ starts → x ∈ v.g.nodes) →
      (dfsSearch v script (4 * C08.bigFuel v) starts {}).2 ≠ .fuel) := by
  obtain ⟨f1, f2, f3, f4, f5, f6⟩ := TravProofs.driver_fuel v h hwf
  have hcl := TravProofs.viewOkB_closed v h hwf
  refine ⟨?_, ?_, ?_, ?_, ?_, ?_⟩
  · intro s hs D; exact TravProofs.dfs_total v hcl s hs D _ _ f1 f3 []
  · intro s hs D F; exact TravProofs.post_total v hcl s hs D F _ _ f2 f4 []
  · intro s hs
    obtain ⟨out, ho⟩ := TravProofs.bfs_total v hcl s hs _ f5
    exact ⟨out, ho, TravProofs.driver_bfsAll_eq v _ _ _ _ ho⟩
  · obtain ⟨out, ho⟩ := TravProofs.topo_total v hcl _ _ f1 f5
    exact ⟨out, ho, TravProofs.driver_topoAll_eq v _ _ _ _ _ ho⟩
  · intro l hnd hl
    obtain ⟨out, ho⟩ := TravProofs.topo_withInitials_total_nodup v hcl l hnd hl _ _ f1 f5
    exact ⟨out, ho, TravProofs.driver_topoAll_eq v _ _ _ _ _ ho⟩
  · intro script starts hst
    exact TravProofs.dfsSearch_no_fuel v script _ hcl starts {} hst f6

/-- **the driver's scripted walker runs never report `FUEL`**: on every accepted view of a well-formed
graph, for every `walk dfs` / `walk post` script (any sequence of `move_to`, `reset`, "take k", "take
all") whose `move_to` targets are nodes, the model answer `runDfs` / `runPost` consists only of node
ids and `x` (`showTok`), i.e. neither `dfsNext` / `postNext` nor the outer `takeN` loop ever ran out
of the driver's fuel. -/
theorem C08_driver_walk_no_fuel (v : View) (h : C08.viewOkB v = true) (hwf : v.g.WellFormed)
    (cmds : List C08.Cmd) (hc : ∀ s, C08.Cmd.new s ∈ cmds → s ∈ v.g.nodes) :
    (∃ toks : List (Option Nat), C08.runDfs v cmds = toks.map C08.showTok) ∧
    (∃ toks : List (Option Nat), C08.runPost v cmds = toks.map C08.showTok) := by
  obtain ⟨f1, f2, _⟩ := TravProofs.driver_fuel v h hwf
  have hcl := TravProofs.viewOkB_closed v h hwf
  exact ⟨TravProofs.runDfs_no_fuel v hcl f1 cmds hc, TravProofs.runPost_no_fuel v hcl f2 cmds hc⟩

/-- `ViewOk` alone is not enough (the auditor's witness): the graph `0 → 1` seen through a view that
lists the neighbour `1` of `0` sixty times satisfies `ViewOk` over a well-formed graph, yet with the
driver's fuel (`bigFuel = 24`) the `Dfs` model gives up (`none`): after emitting `0` and `1` it has
59 stale copies of `1` to pop in one `next` call.  `viewOkB` rejects this view, and
`walkFuel v = 65 > 24`. -/
theorem C08_total_needs_bound_witness :
    ∃ v : View, ViewOk v ∧ v.g.WellFormed ∧ C08.viewOkB v = false ∧ 0 ∈ v.g.nodes ∧
      dfsAll v (C08.bigFuel v) (C08.bigFuel v + 4) { stack := [0], disc := [] } [] = none := by
  let g : MGraph := ⟨true, [0, 1], [⟨0, 0, 1, 1⟩]⟩
  let v : View := ⟨g, 2, [(0, 0), (1, 1)], [(0, List.replicate 60 (1, 0))], []⟩
  have hv : ViewOk v := by
    intro a b
    by_cases ha : a = 0
    · subst ha
      simp only [View.succ, View.outOf, v, g, MGraph.Adj]
      simp [List.lookup]
      constructor
      · rintro rfl; rfl
      · intro e; exact e.symm
    · have e0 : (a == 0) = false := by simpa using ha
      simp only [View.succ, View.outOf, v, g, MGraph.Adj]
      simp [List.lookup, e0]
      intro e; exact (ha e.symm).elim
  refine ⟨v, hv, ?_, by decide, by simp [v, g], by decide⟩
  refine ⟨by simp [v, g], ?_⟩
  intro e he
  simp only [v, g, List.mem_singleton] at he
  subst he
  simp [v, g]

/-! ### wave 3: corollaries with the run hypothesis discharged -/

/-- fresh `Dfs`, unconditionally: within the stated fuel the run returns, and it lists exactly the
reachable set, each node once. -/
theorem C08_dfs_exact (v : View) (hv : ViewOk v) (hwf : v.g.WellFormed) (s : Nat) (hs : s ∈ v.g.nodes)
    (inner outer : Nat) (hi : walkFuel v ≤ inner) (ho : v.g.nodes.length + 1 ≤ outer) :
    ∃ out d', dfsAll v inner outer { stack := [s], disc := [] } [] = some (out, d') ∧
      out.Nodup ∧ ∀ x, x ∈ out ↔ Reach v.g s x := by
  obtain ⟨out, d', h⟩ := C08_dfs_total v hv hwf s hs [] inner outer hi ho
  exact ⟨out, d', h, C08_dfs v hv s inner outer out d' h⟩

/-- `Bfs`, unconditionally. -/
theorem C08_bfs_exact (v : View) (hv : ViewOk v) (hwf : v.g.WellFormed) (s : Nat) (hs : s ∈ v.g.nodes)
    (fuel : Nat) (ho : v.g.nodes.length + 1 ≤ fuel) :
    ∃ out, bfsAll v fuel (Bfs.new s) [] = some out ∧ out.Nodup ∧ (∀ x, x ∈ out ↔ Reach v.g s x) ∧
      ∀ i j (hi : i < out.length) (hj : j < out.length), i ≤ j →
        ∀ di dj, IsDist v.g s out[i] di → IsDist v.g s out[j] dj → di ≤ dj := by
  obtain ⟨out, h⟩ := C08_bfs_total v hv hwf s hs fuel ho
  exact ⟨out, h, C08_bfs v hv s fuel out h⟩

/-- fresh `DfsPostOrder`, unconditionally: exactly the reachable set, each once, every node after
each of its successors that cannot reach it back. -/
theorem C08_postorder_exact (v : View) (hv : ViewOk v) (hwf : v.g.WellFormed) (s : Nat) (hs : s ∈ v.g.nodes)
    (inner outer : Nat) (hi : walkFuel v ≤ inner) (ho : v.g.nodes.length + 1 ≤ outer) :
    ∃ out d', postAll v inner outer { stack := [s] } [] = some (out, d') ∧
      out.Nodup ∧ (∀ x, x ∈ out ↔ Reach v.g s x) ∧
      ∀ x y, x ∈ out → v.g.Adj x y → ¬ Reach v.g y x → out.idxOf y < out.idxOf x := by
  obtain ⟨out, d', h⟩ := C08_postorder_total v hv hwf s hs [] [] inner outer hi ho
  exact ⟨out, d', h, (C08_postorder_set v hv s inner outer out d' h).1,
    (C08_postorder_set v hv s inner outer out d' h).2,
    fun x y hx hxy hb => C08_postorder_order v hv s inner outer out d' h x y hx hxy hb⟩

/-- `Topo`, unconditionally: it emits exactly the nodes neither on nor downstream of a cycle, each
once, each after all its predecessors. -/
theorem C08_topo_exact_total (v : View) (hv : ViewOk v) (hp : PredOk v) (hwf : v.g.WellFormed)
    (inner outer : Nat) (hi : walkFuel v ≤ inner) (ho : v.g.nodes.length + 1 ≤ outer) :
    ∃ out, topoAll v inner outer (Topo.new v) [] = some out ∧ out.Nodup ∧
      (∀ x ∈ out, ∀ p, v.g.Adj p x → p ∈ out ∧ out.idxOf p < out.idxOf x) ∧
      ∀ x, x ∈ v.g.nodes → (x ∈ out ↔ ∀ c, Reach1 v.g c c → ¬ Reach v.g c x) := by
  obtain ⟨out, h⟩ := C08_topo_total v hv hwf inner outer hi ho
  exact ⟨out, h, (C08_topo_order v hv hp inner outer out h).1, (C08_topo_order v hv hp inner outer out h).2,
    fun x hx => C08_topo_exact v hv hp hwf inner outer out h x hx⟩

/-! ### wave 3: clauses not covered before -/

/-- **reverse post-order of a DAG is a topological order**: on a graph without cycles the reverse
of the `DfsPostOrder` output lists exactly the nodes reachable from the start, each once, and every
edge out of a listed node points forward in it. -/
theorem C08_postorder_reverse_topo (v : View) (hv : ViewOk v) (s : Nat) (inner outer : Nat) (out : List Nat)
    (d' : Post) (h : postAll v inner outer { stack := [s] } [] = some (out, d'))
    (hdag : ∀ c, ¬ Reach1 v.g c c) :
    out.reverse.Nodup ∧ (∀ x, x ∈ out.reverse ↔ Reach v.g s x) ∧
    ∀ x y, x ∈ out.reverse → v.g.Adj x y →
      y ∈ out.reverse ∧ out.reverse.idxOf x < out.reverse.idxOf y :=
  TravProofs.post_reverse_topo v hv s inner outer out d' h hdag

/-- **`Topo` emits every node exactly when the graph is acyclic** (a self-loop is a cycle). -/
theorem C08_topo_all_iff_acyclic (v : View) (hv : ViewOk v) (hp : PredOk v) (hwf : v.g.WellFormed)
    (inner outer : Nat) (out : List Nat) (h : topoAll v inner outer (Topo.new v) [] = some out) :
    (∀ x, x ∈ v.g.nodes → x ∈ out) ↔ ∀ c, ¬ Reach1 v.g c c :=
  TravProofs.topo_all_iff_acyclic v hv hp hwf inner outer out h

/-- **`DfsPostOrder::move_to` on a used walker** (the shape of `C08_dfs_moveTo`): `move_to(s)` clears
the stack and keeps the `discovered` / `finished` maps `D`, `F` of the earlier use (`F ⊆ D`: only
discovered nodes are ever finished).  Iterated to exhaustion from there the walker emits, each once,
exactly the nodes reachable from `s` through nodes outside `D` — plus `s` itself when the earlier run
had discovered but not yet finished it (`s ∈ D`, `s ∉ F`: an abandoned run; then `s` is popped as
"discovered, unfinished" and emitted alone) — and the maps grow by exactly the emitted nodes.
`D = F = []` is the fresh walker of `C08_postorder_set`; after a run to exhaustion `D = F`. -/
theorem C08_postorder_moveTo (v : View) (hv : ViewOk v) (s : Nat) (D F : List Nat)
    (hFD : ∀ x, x ∈ F → x ∈ D) (inner outer : Nat) (out : List Nat) (d' : Post)
    (h : postAll v inner outer { stack := [s], disc := D, fin := F } [] = some (out, d')) :
    out.Nodup ∧
    (∀ x, x ∈ out ↔ ReachAvoid v.g D s x ∨ (x = s ∧ s ∈ D ∧ s ∉ F)) ∧
    (∀ x, x ∈ d'.disc ↔ x ∈ D ∨ ReachAvoid v.g D s x) ∧
    (∀ x, x ∈ d'.fin ↔ x ∈ F ∨ x ∈ out) :=
  TravProofs.post_moveTo v hv s D F hFD inner outer out d' h

/-- **`Topo::with_initials(l)`**, any list `l`: no node twice; every emitted node comes after all its
predecessors, all of which were emitted (so nothing on or downstream of a cycle is emitted); and
every emitted node is reachable from a node of `l` that has no predecessor. -/
theorem C08_topo_withInitials (v : View) (hv : ViewOk v) (hp : PredOk v) (l : List Nat) (inner outer : Nat)
    (out : List Nat) (h : topoAll v inner outer (Topo.withInitials v l) [] = some out) :
    out.Nodup ∧ (∀ x ∈ out, ∀ p, v.g.Adj p x → p ∈ out ∧ out.idxOf p < out.idxOf x) ∧
    (∀ c x, Reach1 v.g c c → Reach v.g c x → x ∉ out) ∧
    ∀ x, x ∈ out → ∃ i, i ∈ l ∧ (∀ p, ¬ v.g.Adj p i) ∧ Reach v.g i x := by
  refine ⟨(TravProofs.topo_withInitials_order v hp l inner outer out h).1,
    (TravProofs.topo_withInitials_order v hp l inner outer out h).2,
    fun c x hc hcx => TravProofs.topo_withInitials_no_cyclic v hp l inner outer out h c x hc hcx, ?_⟩
  intro x hx
  obtain ⟨i, hi, hi0, hix⟩ := TravProofs.topo_withInitials_sound v hv l inner outer (Topo.withInitials v l) [] out
    (by
      intro y hy
      simp only [Topo.withInitials, Topo.initials, List.mem_reverse, List.mem_filter, List.isEmpty_iff] at hy
      exact ⟨y, hy.1, hy.2, Reach.refl y⟩)
    (by intro y hy; cases hy) h x hx
  refine ⟨i, hi, ?_, hix⟩
  intro p hpi
  have := (hp i p).mpr hpi
  rw [hi0] at this
  cases this

end PetgraphModel.C08T
