import PetgraphModel.Proofs.Traversal
/-
C08 — `Dfs`, `Bfs`, `DfsPostOrder`, `Topo`, `depth_first_search` visit what graph theory says.
Theorems over the mirror models of `Model/Traversal.lean` (tied to /repo by the exact
correspondence of `./check C08` on every storage type and on `Reversed`).
-/
namespace PetgraphModel.C08T
open PetgraphModel PetgraphModel.Trav PetgraphModel.MGraph PetgraphModel.TravProofs

/-- `Dfs`: created (or `move_to`-ed) at `s` on a walker whose discovered set is `D` (any earlier
use), iterated to exhaustion, emits each node reachable from `s` through undiscovered nodes exactly
once and nothing else — the documented `move_to` behaviour; `D = []` is the fresh walker. -/
theorem C08_dfs_moveTo (v : View) (hv : ViewOk v) (s : Nat) (D : List Nat) (inner outer : Nat)
    (out : List Nat) (d' : Dfs)
    (h : dfsAll v inner outer { stack := [s], disc := D } [] = some (out, d')) :
    out.Nodup ∧ (∀ x, x ∈ out ↔ ReachAvoid v.g D s x) ∧ (∀ x, x ∈ d'.disc ↔ x ∈ D ∨ x ∈ out) :=
  TravProofs.dfs_moveTo v hv s D inner outer out d' h

/-- fresh `Dfs`: exactly the reachable set, each once. -/
theorem C08_dfs (v : View) (hv : ViewOk v) (s : Nat) (inner outer : Nat) (out : List Nat) (d' : Dfs)
    (h : dfsAll v inner outer { stack := [s], disc := [] } [] = some (out, d')) :
    out.Nodup ∧ ∀ x, x ∈ out ↔ Reach v.g s x :=
  TravProofs.dfs_fresh v hv s inner outer out d' h

/-- `Bfs` emits exactly the reachable set, each node once, in non-decreasing hop distance. -/
theorem C08_bfs (v : View) (hv : ViewOk v) (s : Nat) (fuel : Nat) (out : List Nat)
    (h : bfsAll v fuel (Bfs.new s) [] = some out) :
    out.Nodup ∧ (∀ x, x ∈ out ↔ Reach v.g s x) ∧
    ∀ i j (hi : i < out.length) (hj : j < out.length), i ≤ j →
      ∀ di dj, IsDist v.g s out[i] di → IsDist v.g s out[j] dj → di ≤ dj :=
  TravProofs.bfs_spec v hv s fuel out h

/-- `DfsPostOrder` (fresh, to exhaustion): exactly the reachable set, each once. -/
theorem C08_postorder_set (v : View) (hv : ViewOk v) (s : Nat) (inner outer : Nat) (out : List Nat)
    (d' : Post) (h : postAll v inner outer { stack := [s] } [] = some (out, d')) :
    out.Nodup ∧ ∀ x, x ∈ out ↔ Reach v.g s x :=
  TravProofs.post_set v hv s inner outer out d' h

/-- `DfsPostOrder`: a node is emitted only after each of its successors that cannot reach it back. -/
theorem C08_postorder_order (v : View) (hv : ViewOk v) (s : Nat) (inner outer : Nat) (out : List Nat)
    (d' : Post) (h : postAll v inner outer { stack := [s] } [] = some (out, d'))
    (x y : Nat) (hx : x ∈ out) (hxy : v.g.Adj x y) (hback : ¬ Reach v.g y x) :
    out.idxOf y < out.idxOf x :=
  TravProofs.post_order v hv s inner outer out d' h x y hx hxy hback

/-- `Topo`: no node twice, and every emitted node comes after all its predecessors (so all of them
were emitted). -/
theorem C08_topo_order (v : View) (hv : ViewOk v) (hp : PredOk v) (inner outer : Nat) (out : List Nat)
    (h : topoAll v inner outer (Topo.new v) [] = some out) :
    out.Nodup ∧ ∀ x ∈ out, ∀ p, v.g.Adj p x → p ∈ out ∧ out.idxOf p < out.idxOf x :=
  TravProofs.topo_order v hv hp inner outer out h

/-- `Topo` never emits a node that lies on a cycle or downstream of one. -/
theorem C08_topo_no_cyclic (v : View) (hv : ViewOk v) (hp : PredOk v) (inner outer : Nat) (out : List Nat)
    (h : topoAll v inner outer (Topo.new v) [] = some out) (c x : Nat)
    (hc : Reach1 v.g c c) (hcx : Reach v.g c x) : x ∉ out :=
  TravProofs.topo_no_cyclic v hv hp inner outer out h c x hc hcx

/-- `Topo` emits every node of a well-formed view that is neither on nor downstream of a cycle. -/
def C08_topo_complete_statement : Prop :=
  ∀ (v : View), ViewOk v → PredOk v → v.g.WellFormed → ∀ (inner outer : Nat) (out : List Nat),
    topoAll v inner outer (Topo.new v) [] = some out →
    ∀ x ∈ v.g.nodes, (∀ c, Reach1 v.g c c → ¬ Reach v.g c x) → x ∈ out

/-- `depth_first_search`: event times are 0,1,2,… in order of the Discover/Finish events. -/
theorem C08_dfsv_times (v : View) (script : List Ctl) (fuel : Nat) (starts : List Nat) (s' : VS) (r : Res)
    (h : dfsSearch v script fuel starts {} = (s', r)) :
    (s'.evs.reverse.filterMap fun e => match e with
      | .discover _ t => some t | .finish _ t => some t | _ => none) = List.range s'.time :=
  TravProofs.dfsv_times v script fuel starts s' r h

end PetgraphModel.C08T
