import PetgraphModel.Proofs.Traversal
import PetgraphModel.Proofs.C08W2Topo
import PetgraphModel.Proofs.C08W2Dfsv
import PetgraphModel.Proofs.C08W2Edges
import PetgraphModel.Proofs.C08W2Nest
import PetgraphModel.Proofs.C08W2Reach
import PetgraphModel.Proofs.C08W2Fuel
/-
C08 — `Dfs`, `Bfs`, `DfsPostOrder`, `Topo`, `depth_first_search` visit what graph theory says.
Theorems over the mirror models of `Model/Traversal.lean` (tied to /repo by the exact
correspondence of `./check C08` on every storage type and on `Reversed`).
-/
namespace PetgraphModel.C08T
open PetgraphModel PetgraphModel.Trav PetgraphModel.MGraph PetgraphModel.TravProofs

/-- `Dfs`: created (or `move_to`-ed) at `s` on a walker whose discovered set is `D` (any earlier
use), iterated to exhaustion, emits each node reachable from `s` through undiscovered nodes exactly
once and nothing else — the documented `move_to` behaviour; `D = []` is the fresh walker. -/
theorem C08_dfs_moveTo (v : View) (hv : ViewOk v) (s : Nat) (D : List Nat) (inner outer : Nat)
    (out : List Nat) (d' : Dfs)
    (h : dfsAll v inner outer { stack := [s], disc := D } [] = some (out, d')) :
    out.Nodup ∧ (∀ x, x ∈ out ↔ ReachAvoid v.g D s x) ∧ (∀ x, x ∈ d'.disc ↔ x ∈ D ∨ x ∈ out) :=
  TravProofs.dfs_moveTo v hv s D inner outer out d' h

/-- fresh `Dfs`: exactly the reachable set, each once. -/
theorem C08_dfs (v : View) (hv : ViewOk v) (s : Nat) (inner outer : Nat) (out : List Nat) (d' : Dfs)
    (h : dfsAll v inner outer { stack := [s], disc := [] } [] = some (out, d')) :
    out.Nodup ∧ ∀ x, x ∈ out ↔ Reach v.g s x :=
  TravProofs.dfs_fresh v hv s inner outer out d' h

/-- `Bfs` emits exactly the reachable set, each node once, in non-decreasing hop distance. -/
theorem C08_bfs (v : View) (hv : ViewOk v) (s : Nat) (fuel : Nat) (out : List Nat)
    (h : bfsAll v fuel (Bfs.new s) [] = some out) :
    out.Nodup ∧ (∀ x, x ∈ out ↔ Reach v.g s x) ∧
    ∀ i j (hi : i < out.length) (hj : j < out.length), i ≤ j →
      ∀ di dj, IsDist v.g s out[i] di → IsDist v.g s out[j] dj → di ≤ dj :=
  TravProofs.bfs_spec v hv s fuel out h

/-- `DfsPostOrder` (fresh, to exhaustion): exactly the reachable set, each once. -/
theorem C08_postorder_set (v : View) (hv : ViewOk v) (s : Nat) (inner outer : Nat) (out : List Nat)
    (d' : Post) (h : postAll v inner outer { stack := [s] } [] = some (out, d')) :
    out.Nodup ∧ ∀ x, x ∈ out ↔ Reach v.g s x :=
  TravProofs.post_set v hv s inner outer out d' h

/-- `DfsPostOrder`: a node is emitted only after each of its successors that cannot reach it back. -/
theorem C08_postorder_order (v : View) (hv : ViewOk v) (s : Nat) (inner outer : Nat) (out : List Nat)
    (d' : Post) (h : postAll v inner outer { stack := [s] } [] = some (out, d'))
    (x y : Nat) (hx : x ∈ out) (hxy : v.g.Adj x y) (hback : ¬ Reach v.g y x) :
    out.idxOf y < out.idxOf x :=
  TravProofs.post_order v hv s inner outer out d' h x y hx hxy hback

/-- `Topo`: no node twice, and every emitted node comes after all its predecessors (so all of them
were emitted). -/
theorem C08_topo_order (v : View) (hv : ViewOk v) (hp : PredOk v) (inner outer : Nat) (out : List Nat)
    (h : topoAll v inner outer (Topo.new v) [] = some out) :
    out.Nodup ∧ ∀ x ∈ out, ∀ p, v.g.Adj p x → p ∈ out ∧ out.idxOf p < out.idxOf x :=
  TravProofs.topo_order v hv hp inner outer out h

/-- `Topo` never emits a node that lies on a cycle or downstream of one. -/
theorem C08_topo_no_cyclic (v : View) (hv : ViewOk v) (hp : PredOk v) (inner outer : Nat) (out : List Nat)
    (h : topoAll v inner outer (Topo.new v) [] = some out) (c x : Nat)
    (hc : Reach1 v.g c c) (hcx : Reach v.g c x) : x ∉ out :=
  TravProofs.topo_no_cyclic v hv hp inner outer out h c x hc hcx

/-- `Topo` emits every node of a well-formed view that is neither on nor downstream of a cycle. -/
def C08_topo_complete_statement : Prop :=
  ∀ (v : View), ViewOk v → PredOk v → v.g.WellFormed → ∀ (inner outer : Nat) (out : List Nat),
    topoAll v inner outer (Topo.new v) [] = some out →
    ∀ x ∈ v.g.nodes, (∀ c, Reach1 v.g c c → ¬ Reach v.g c x) → x ∈ out

/-- `depth_first_search`: event times are 0,1,2,… in order of the Discover/Finish events. -/
theorem C08_dfsv_times (v : View) (script : List Ctl) (fuel : Nat) (starts : List Nat) (s' : VS) (r : Res)
    (h : dfsSearch v script fuel starts {} = (s', r)) :
    (s'.evs.reverse.filterMap fun e => match e with
      | .discover _ t => some t | .finish _ t => some t | _ => none) = List.range s'.time :=
  TravProofs.dfsv_times v script fuel starts s' r h


/-! ### wave 2: `Topo` completeness -/

/-- `Topo` emits every node of a well-formed view that is neither on nor downstream of a cycle
(the hypothesis `topoAll … = some out` already says the run terminated within its fuel). -/
theorem C08_topo_complete : C08_topo_complete_statement :=
  fun v hv hp hwf inner outer out h x hx hno =>
    TravProofs.topo_complete v hv hp hwf inner outer out h x hx hno

/-- `Topo` on a well-formed view emits exactly the nodes that are neither on nor downstream of a cycle. -/
theorem C08_topo_exact (v : View) (hv : ViewOk v) (hp : PredOk v) (hwf : v.g.WellFormed)
    (inner outer : Nat) (out : List Nat) (h : topoAll v inner outer (Topo.new v) [] = some out)
    (x : Nat) (hx : x ∈ v.g.nodes) :
    x ∈ out ↔ ∀ c, Reach1 v.g c c → ¬ Reach v.g c x :=
  ⟨fun hxo c hc hcx => C08_topo_no_cyclic v hv hp inner outer out h c x hc hcx hxo,
   fun hno => C08_topo_complete v hv hp hwf inner outer out h x hx hno⟩

/-! ### wave 2: `depth_first_search` event stream

Vocabulary (all in `Proofs/C08W2Events.lean`, plain functions of a *forward* event list `L`):
`discOf L` / `finOf L` = the nodes with a `Discover` / `Finish` event in `L`;
`openOf L` = the stack of open calls after `L` (`Discover n` pushes `n`, `Finish` pops), innermost
first; `nestRun [] L` = strict bracket matching (`Finish n` must close the innermost open `n`);
`edgeOf e` = the `(source, target)` of an edge event; `fromNode u e` = "`e` is an edge out of `u` or
`Finish(u)`".  The event with 0-based index `k` is answered `ctlAt script k`; in
`L = pre ++ e :: post` the event `e` has index `pre.length` and `pre` is the history at that moment.

All of them are corollaries of one simulation theorem (`TravProofs.dfsSearch_post`): the history of
every run of the model is accepted by the deterministic reference machine `TravProofs.step`, whose
state carries the recursion stack (each open call with the neighbours it still has to examine). -/

/-- No node is discovered twice or finished twice, only discovered nodes are finished, and the final
`discovered` / `finished` maps are exactly the nodes with a Discover / Finish event. -/
theorem C08_dfsv_once (v : View) (script : List Ctl) (fuel : Nat) (starts : List Nat) (s' : VS) (r : Res)
    (h : dfsSearch v script fuel starts {} = (s', r)) :
    (discOf s'.evs.reverse).Nodup ∧ (finOf s'.evs.reverse).Nodup ∧
    (∀ n, n ∈ finOf s'.evs.reverse → n ∈ discOf s'.evs.reverse) ∧
    s'.disc = (discOf s'.evs.reverse).reverse ∧ s'.fin = (finOf s'.evs.reverse).reverse :=
  TravProofs.dfsv_once h

/-- Well-nestedness: the Discover/Finish events form a well-parenthesised word (every `Finish n`
closes the innermost open `Discover n`); the calls still open at the end are `openOf`; when the
result is `Continue` none is open, so — with `C08_dfsv_once` — every Discover has exactly one
matching later Finish. -/
theorem C08_dfsv_nested (v : View) (script : List Ctl) (fuel : Nat) (starts : List Nat) (s' : VS) (r : Res)
    (h : dfsSearch v script fuel starts {} = (s', r)) :
    nestRun [] s'.evs.reverse = some (openOf s'.evs.reverse) ∧
    (r = .cont → openOf s'.evs.reverse = []) ∧
    (r = .cont → ∀ n, n ∈ discOf s'.evs.reverse → n ∈ finOf s'.evs.reverse) :=
  TravProofs.dfsv_nested h

/-- `Discover(n)`: `n` was undiscovered; it is a root (no call open, `n` one of the start nodes) or
it immediately follows `TreeEdge(u, n)` answered `Continue`. -/
theorem C08_dfsv_discover (v : View) (script : List Ctl) (fuel : Nat) (starts : List Nat) (s' : VS) (r : Res)
    (h : dfsSearch v script fuel starts {} = (s', r)) (pre post : List Ev) (n t : Nat)
    (hL : s'.evs.reverse = pre ++ .discover n t :: post) :
    n ∉ discOf pre ∧
    ((openOf pre = [] ∧ n ∈ starts) ∨
     (∃ u pre', pre = pre' ++ [.tree u n] ∧ ctlAt script pre'.length = .cont)) :=
  TravProofs.dfsv_discover h hL

/-- `Finish(n)` closes the innermost open call, which is `n` (discovered, not yet finished). -/
theorem C08_dfsv_finish (v : View) (script : List Ctl) (fuel : Nat) (starts : List Nat) (s' : VS) (r : Res)
    (h : dfsSearch v script fuel starts {} = (s', r)) (pre post : List Ev) (n t : Nat)
    (hL : s'.evs.reverse = pre ++ .finish n t :: post) :
    (∃ rest, openOf pre = n :: rest) ∧ n ∈ discOf pre ∧ n ∉ finOf pre :=
  TravProofs.dfsv_finish h hL

/-- `TreeEdge(u, w)`: `u` is the innermost open call, `w` is a successor of `u` and undiscovered at
that moment; if the visitor answers `Continue`, `Discover(w)` follows immediately (the stream can
end right there only when the model ran out of fuel). -/
theorem C08_dfsv_tree (v : View) (script : List Ctl) (fuel : Nat) (starts : List Nat) (s' : VS) (r : Res)
    (h : dfsSearch v script fuel starts {} = (s', r)) (pre post : List Ev) (u w : Nat)
    (hL : s'.evs.reverse = pre ++ .tree u w :: post) :
    w ∉ discOf pre ∧ (∃ rest, openOf pre = u :: rest) ∧ w ∈ v.succ u ∧
    (ctlAt script pre.length = .cont →
      (∃ t post', post = .discover w t :: post') ∨ (post = [] ∧ r = .fuel)) :=
  TravProofs.dfsv_tree h hL

/-- `BackEdge(u, w)`: `w` is discovered and not finished, and it is on the recursion stack: `u` is
the innermost open call and `w` is `u` itself (self-loop) or one of the calls enclosing it. -/
theorem C08_dfsv_back (v : View) (script : List Ctl) (fuel : Nat) (starts : List Nat) (s' : VS) (r : Res)
    (h : dfsSearch v script fuel starts {} = (s', r)) (pre post : List Ev) (u w : Nat)
    (hL : s'.evs.reverse = pre ++ .back u w :: post) :
    w ∈ discOf pre ∧ w ∉ finOf pre ∧ (∃ rest, openOf pre = u :: rest ∧ w ∈ u :: rest) ∧
    w ∈ v.succ u :=
  TravProofs.dfsv_back h hL

/-- `CrossForwardEdge(u, w)`: `w` is finished (so not on the recursion stack). -/
theorem C08_dfsv_cross (v : View) (script : List Ctl) (fuel : Nat) (starts : List Nat) (s' : VS) (r : Res)
    (h : dfsSearch v script fuel starts {} = (s', r)) (pre post : List Ev) (u w : Nat)
    (hL : s'.evs.reverse = pre ++ .cross u w :: post) :
    w ∈ finOf pre ∧ (∃ rest, openOf pre = u :: rest ∧ w ∉ u :: rest) ∧ w ∈ v.succ u :=
  TravProofs.dfsv_cross h hL

/-- "exactly when": the class of an edge event is a function of the state of its target at that
moment — tree iff undiscovered, back iff discovered and unfinished, cross/forward iff finished. -/
theorem C08_dfsv_classify (v : View) (script : List Ctl) (fuel : Nat) (starts : List Nat) (s' : VS) (r : Res)
    (h : dfsSearch v script fuel starts {} = (s', r)) (pre post : List Ev) (e : Ev) (u w : Nat)
    (hL : s'.evs.reverse = pre ++ e :: post) (he : edgeOf e = some (u, w)) :
    e = if w ∉ discOf pre then .tree u w else if w ∉ finOf pre then .back u w else .cross u w :=
  TravProofs.dfsv_classify h hL he

/-- `Break` stops immediately: no event after the one answered `Break`, and the result is `Break`. -/
theorem C08_dfsv_break (v : View) (script : List Ctl) (fuel : Nat) (starts : List Nat) (s' : VS) (r : Res)
    (h : dfsSearch v script fuel starts {} = (s', r)) (pre post : List Ev) (e : Ev)
    (hL : s'.evs.reverse = pre ++ e :: post) (hc : ctlAt script pre.length = .brk) :
    post = [] ∧ r = .brk :=
  TravProofs.dfsv_break h hL hc

/-- the result is `Break` exactly when the visitor answered `Break` to the last event. -/
theorem C08_dfsv_result_break (v : View) (script : List Ctl) (fuel : Nat) (starts : List Nat) (s' : VS) (r : Res)
    (h : dfsSearch v script fuel starts {} = (s', r)) :
    r = .brk ↔ ∃ pre e, s'.evs.reverse = pre ++ [e] ∧ ctlAt script pre.length = .brk :=
  TravProofs.dfsv_result_brk h

/-- `Prune` on `Discover(u)` goes straight to `Finish(u)` (no edge of `u` is examined). -/
theorem C08_dfsv_prune_discover (v : View) (script : List Ctl) (fuel : Nat) (starts : List Nat) (s' : VS) (r : Res)
    (h : dfsSearch v script fuel starts {} = (s', r)) (pre post : List Ev) (u t : Nat)
    (hL : s'.evs.reverse = pre ++ .discover u t :: post) (hc : ctlAt script pre.length = .prune) :
    ∃ post', post = .finish u (t + 1) :: post' :=
  TravProofs.dfsv_prune_discover h hL hc

/-- `Prune` on `TreeEdge(u, w)` skips the subtree: `w` is not entered; the next event (there is one
unless the model ran out of fuel) is the next edge out of `u` or `Finish(u)`. -/
theorem C08_dfsv_prune_tree (v : View) (script : List Ctl) (fuel : Nat) (starts : List Nat) (s' : VS) (r : Res)
    (h : dfsSearch v script fuel starts {} = (s', r)) (pre post : List Ev) (u w : Nat)
    (hL : s'.evs.reverse = pre ++ .tree u w :: post) (hc : ctlAt script pre.length = .prune) :
    (post = [] ∧ r = .fuel) ∨ ∃ e post', post = e :: post' ∧ fromNode u e :=
  TravProofs.dfsv_prune_tree h hL hc

/-- on back and cross/forward edges `Prune` is the same as `Continue`: the loop over the neighbours
of `u` goes on. -/
theorem C08_dfsv_nontree_next (v : View) (script : List Ctl) (fuel : Nat) (starts : List Nat) (s' : VS) (r : Res)
    (h : dfsSearch v script fuel starts {} = (s', r)) (pre post : List Ev) (e : Ev) (u w : Nat)
    (hL : s'.evs.reverse = pre ++ e :: post) (he : e = .back u w ∨ e = .cross u w)
    (hc : ctlAt script pre.length ≠ .brk) :
    (post = [] ∧ r = .fuel) ∨ ∃ e' post', post = e' :: post' ∧ fromNode u e' :=
  TravProofs.dfsv_nontree_next h hL he hc

/-- `Prune` on a `Finish` event is the documented panic: nothing follows and the result says so;
conversely that result only arises this way. -/
theorem C08_dfsv_prune_finish (v : View) (script : List Ctl) (fuel : Nat) (starts : List Nat) (s' : VS) (r : Res)
    (h : dfsSearch v script fuel starts {} = (s', r)) :
    (∀ pre post n t, s'.evs.reverse = pre ++ .finish n t :: post → ctlAt script pre.length = .prune →
      post = [] ∧ r = .panicPruneFinish) ∧
    (r = .panicPruneFinish ↔
      ∃ pre n t, s'.evs.reverse = pre ++ [.finish n t] ∧ ctlAt script pre.length = .prune) :=
  ⟨fun _ _ _ _ hL hc => TravProofs.dfsv_prune_finish h hL hc, TravProofs.dfsv_result_panic h⟩


/-- The simulation all the clauses above are read off: the forward event list of every run is
accepted by the deterministic reference machine (`TravProofs.step`: recursion stack with the
neighbours still to examine, discovered / finished sets, clock, and the obligation created by the
last control value), the final machine state carries the model's visit maps and clock, and its mode
matches the result (`ResMode`: `Continue` ⇒ idle with an empty stack, `Break` ⇒ dead, panic ⇒ panic,
out of fuel ⇒ still running). -/
theorem C08_dfsv_simulation (v : View) (script : List Ctl) (fuel : Nat) (starts : List Nat) (s' : VS) (r : Res)
    (h : dfsSearch v script fuel starts {} = (s', r)) :
    ∃ m, run v starts script MS.init 0 s'.evs.reverse = some m ∧
      m.disc = s'.disc ∧ m.fin = s'.fin ∧ m.time = s'.time ∧ ResMode r m :=
  TravProofs.dfsv_final h

/-- On `Continue` the whole event stream is a well-parenthesised word in the textbook sense
(`Balanced`: `ε` | neutral edge event · balanced | `Discover n` · balanced · `Finish n` · balanced);
`TravProofs.balanced_iff_nest` shows the grammar and the bracket-matching run `nestRun` agree. -/
theorem C08_dfsv_balanced (v : View) (script : List Ctl) (fuel : Nat) (starts : List Nat) (s' : VS)
    (h : dfsSearch v script fuel starts {} = (s', .cont)) : Balanced s'.evs.reverse :=
  TravProofs.dfsv_balanced h

/-- Every edge of a node that was not pruned is reported exactly once, in neighbour order: between
`Discover(u)` (not answered `Prune`) and `Finish(u)` the targets of the edge events with source `u`
(`uEdges u`) are exactly `v.succ u`.  (With `C08_dfsv_classify` this fixes every edge event.) -/
theorem C08_dfsv_edges_complete (v : View) (script : List Ctl) (fuel : Nat) (starts : List Nat) (s' : VS) (r : Res)
    (h : dfsSearch v script fuel starts {} = (s', r)) (pre mid post : List Ev) (u t t' : Nat)
    (hL : s'.evs.reverse = pre ++ .discover u t :: (mid ++ .finish u t' :: post))
    (hc : ctlAt script pre.length ≠ .prune) : uEdges u mid = v.succ u :=
  TravProofs.dfsv_edges_complete h hL hc

/-- Every discovered node is reachable from one of the start nodes (any script, any result). -/
theorem C08_dfsv_reach_sound (v : View) (hv : ViewOk v) (script : List Ctl) (fuel : Nat) (starts : List Nat)
    (s' : VS) (r : Res) (h : dfsSearch v script fuel starts {} = (s', r))
    (x : Nat) (hx : x ∈ discOf s'.evs.reverse) : ∃ s, s ∈ starts ∧ Reach v.g s x :=
  TravProofs.dfsv_reach_sound hv h x hx

/-- With a visitor that always answers `Continue` (and result `Continue`), a Discover/Finish pair is
reported for exactly the nodes reachable from the start nodes. -/
theorem C08_dfsv_reach_exact (v : View) (hv : ViewOk v) (script : List Ctl) (fuel : Nat) (starts : List Nat)
    (s' : VS) (h : dfsSearch v script fuel starts {} = (s', .cont))
    (hall : ∀ k, k < s'.evs.length → ctlAt script k = .cont) (x : Nat) :
    (x ∈ discOf s'.evs.reverse ↔ ∃ s, s ∈ starts ∧ Reach v.g s x) ∧
    (x ∈ finOf s'.evs.reverse ↔ ∃ s, s ∈ starts ∧ Reach v.g s x) := by
  have h1 := TravProofs.dfsv_reach_exact hv h hall x
  refine ⟨h1, ⟨fun hf => h1.mp ((TravProofs.dfsv_once h).2.2.1 x hf),
    fun hr => (TravProofs.dfsv_nested h).2.2 rfl x (h1.mpr hr)⟩⟩

/-- Fuel sufficiency: on a consistent view of a well-formed graph, with start nodes among the
graph's nodes and at least `dfsFuel v = 1 + Σ_{u ∈ nodes} (|succ u| + 1)` fuel, the model never
reports `Res.fuel` — so the `r = .fuel` alternatives above do not occur. -/
theorem C08_dfsv_fuel (v : View) (hv : ViewOk v) (hwf : v.g.WellFormed) (script : List Ctl) (fuel : Nat)
    (starts : List Nat) (hst : ∀ x, x ∈ starts → x ∈ v.g.nodes) (hf : dfsFuel v ≤ fuel) :
    (dfsSearch v script fuel starts {}).2 ≠ .fuel :=
  TravProofs.dfsv_fuel hv hwf hst hf

end PetgraphModel.C08T
