import PetgraphModel.Model.Serde
import PetgraphModel.Proofs.SerdeDe
import PetgraphModel.Proofs.SerdeTrip
import PetgraphModel.Proofs.SerdeExec
import PetgraphModel.Proofs.C17W2Map
import PetgraphModel.Proofs.C17W2MapC03
import PetgraphModel.Proofs.C17W3Stable
import PetgraphModel.Proofs.C17W3Obs
import PetgraphModel.Proofs.C17W3Graph
import PetgraphModel.Proofs.C17W3GraphObs
import PetgraphModel.Proofs.C17W3Map
import PetgraphModel.Proofs.C17W4Text
import PetgraphModel.Proofs.C17W4Bin
import PetgraphModel.Proofs.C17W4Check
import PetgraphModel.Proofs.C17W4Judge
import PetgraphModel.Proofs.C17W4Wire
import PetgraphModel.Proofs.C17W4MapWire
import PetgraphModel.Proofs.C17W4Preserved
import PetgraphModel.Proofs.C17W4Iter
import PetgraphModel.Proofs.C17W4Next
import PetgraphModel.Proofs.C17W4Complete
import PetgraphModel.Proofs.C17W6
import PetgraphModel.Theorems.C01
import PetgraphModel.Theorems.C02
import PetgraphModel.Theorems.C03
/-
C17 — serde round-trips graphs exactly and never yields a corrupt graph from bad input.

Only property theorems live here; helper lemmas are in `Proofs/Serde*.lean`.  Every theorem is about the mirror model
`Model/Serde.lean` (tied to `/repo/src/graph_impl/serialization.rs`, `stable_graph/serialization.rs`,
`stable_graph/mod.rs::link_edges`, `graph_impl/mod.rs::link_edges`, `serde_utils.rs`, `graphmap.rs` by the exact
correspondence run of `./check C17`).  `END` is `Ix::max()` (`u8`: 255), `order` the order in which the fields arrive.
-/
namespace PetgraphModel.C17T
open PetgraphModel PetgraphModel.Serde PetgraphModel.SerdeProofs

/-- the consistency guarantees of a `StableGraph`: every live edge joins live nodes; each live node's outgoing /
incoming list is a finite `next` chain of exactly its incident live edges, without repetition; the free edge list is
exactly the vacant edge slots; the free node list is a well-formed doubly linked list of exactly the vacant node
slots; `node_count`/`edge_count` are the numbers of live slots; lengths within the index type -/
abbrev StableInv := SerdeProofs.StableInv
/-- the same for `Graph` (no vacancies) -/
abbrev GraphInv := SerdeProofs.GraphInv

/-- **`de` is total**: for every wire value, every field order, every index width and both targets (and `GraphMap`),
deserialization never reaches a panicking index expression, an arithmetic underflow or a debug assertion
(D19 was such a panic; the repaired code has none). -/
theorem C17_de_no_panic (END : Nat) (directed : Bool) (order : List Field) (w : Wire) :
    deGraph END directed order w ≠ .error .panic ∧
    deStable END directed order w ≠ .error .panic ∧
    deMap directed order w ≠ .error .panic :=
  ⟨deGraph_no_panic END directed order w, deStable_no_panic END directed order w, deMap_no_panic directed order w⟩

/-- **`de w = ok g → Inv g`, `StableGraph`**, for EVERY wire value: whatever is accepted is a consistent
`StableGraph` of the requested index type and edge type (D18: an edge attached to a declared hole is therefore never
accepted). -/
theorem C17_de_inv_stable (END : Nat) (directed : Bool) (order : List Field) (w : Wire) (s : Stable)
    (h : deStable END directed order w = .ok s) :
    StableInv s ∧ s.g.END = END ∧ s.g.directed = directed ∧
      s.g.nodes.length < END ∧ s.g.edges.length < END :=
  let D := deStable_de h
  ⟨D.inv, D.hEND, D.hdir, D.lenN, D.lenE⟩

/-- **`de w = ok g → Inv g`, `Graph`**, for every wire value. -/
theorem C17_de_inv_graph (END : Nat) (directed : Bool) (order : List Field) (w : Wire) (g : Raw)
    (h : deGraph END directed order w = .ok g) :
    GraphInv g ∧ g.END = END ∧ g.directed = directed ∧ g.nodes.length < END ∧ g.edges.length < END :=
  let D := deGraph_de h
  ⟨D.inv, D.hEND, D.hdir, D.lenN, D.lenE⟩

/-- what `link_edges` builds, exactly: every adjacency list and both free lists are in descending index order
("most recent first"), so the first vacant index handed out after loading is the largest one. -/
theorem C17_de_lists_exact (END : Nat) (directed : Bool) (order : List Field) (w : Wire) (s : Stable)
    (h : deStable END directed order w = .ok s) :
    (∀ (i : Nat) (nd : NodeSlot), s.g.nodes[i]? = some nd → nd.w.isSome = true →
      Chain s.g.edges END 0 nd.n0 (incident s.g.edges 0 i) ∧ Chain s.g.edges END 1 nd.n1 (incident s.g.edges 1 i)) ∧
    Chain s.g.edges END 0 s.freeEdge (vacantE s.g.edges) ∧
    DChain s.g.nodes END END s.freeNode (vacantN s.g.nodes) :=
  let D := deStable_de h
  ⟨D.linked.heads, D.freeEdges, D.freeNodes⟩

/-- every loaded `StableGraph` passes the debug-build self check `check_free_lists` (run by `retain_nodes`,
`retain_edges`, …): free lists well formed, back pointers exact, cached counts equal to the slots not on a free list. -/
theorem C17_loaded_self_check (END : Nat) (directed : Bool) (order : List Field) (w : Wire) (s : Stable)
    (h : deStable END directed order w = .ok s) : s.checkFreeLists = .ok () :=
  (deStable_de h).checkFreeLists_ok

/-- every loaded graph can be observed: the `Edges` / `Neighbors` iterators of every live node terminate, never
meet a vacant slot (the debug assertions in the `StableGraph` iterators) and never run out of the arrays. -/
theorem C17_loaded_observable (END : Nat) (directed : Bool) (order : List Field) (w : Wire) :
    (∀ s, deStable END directed order w = .ok s → ∃ o, s.obs = .ok o) ∧
    (∀ g, deGraph END directed order w = .ok g → ∃ o, g.obs = .ok o) := by
  constructor
  · intro s h
    have D := deStable_de h
    obtain ⟨a, ha⟩ := D.linked.obs_ok D.hEND (by have := D.lenE; omega)
    refine ⟨{ nc := s.nodeCount, ec := s.edgeCount, nb := s.nodeBound, eb := s.edgeBound,
              nodes := liveNodes s.g, edges := liveEdges s.g, adj := a }, ?_⟩
    simp only [Stable.obs, ha]
  · intro g h
    have D := deGraph_de h
    obtain ⟨a, ha⟩ := D.linked.obs_ok D.hEND (by have := D.lenE; omega)
    refine ⟨{ nc := g.nodes.length, ec := g.edges.length, nb := g.nodes.length, eb := g.edges.length,
              nodes := liveNodes g, edges := liveEdges g, adj := a }, ?_⟩
    simp only [Raw.obs, ha]

/-! ### round trips

`SameObs g g'` = identical observables that do not depend on list order: the live nodes with their indices and
weights (`liveNodes`), the live edges with their indices, endpoints and weights (`liveEdges`), `node_bound`,
`edge_bound` and the numbers of live nodes and edges.  Together with the invariant of the loaded graph (each node's
edge lists are exactly its incident live edges) this determines every answer of the public API up to the order inside
an adjacency list.  `FullOrder order` = all four fields arrive, in any order.

The capacity caveat (D20, open): the code refuses `count >= Ix::max()` although a graph may hold `Ix::max()` nodes or
edges; the round-trip theorems therefore carry the hypothesis `bound < END`.  `C17_roundtrip_capacity_counterexample`
shows that the hypothesis cannot be dropped for the code as it is. -/

abbrev SameObs := SerdeProofs.SameObs
abbrev FullOrder := SerdeProofs.FullOrder

/-- serialization of a consistent `StableGraph` never trips the `collect_seq_with_length` debug assertion, and the
stream is the `Somes`/`Holes` of the node slots below `node_bound` plus the edge slots below `edge_bound`. -/
theorem C17_ser_total (s : Stable) (hI : StableInv s) :
    serStable s = some
      { nodes := somesW ((s.g.nodes.take s.nodeBound).map (fun (n : NodeSlot) => n.w)),
        holes := holesW 0 ((s.g.nodes.take s.nodeBound).map (fun (n : NodeSlot) => n.w)),
        prop := some s.g.directed,
        edges := (s.g.edges.take s.edgeBound).map liveSkel } :=
  serStable_eq s hI.nodeCount

/-- **round trip, `StableGraph`**: for every consistent `StableGraph` (any vacancies, also trailing ones) below the
capacity of its index type and every field order, `de (ser g) = ok g'` where `g'` is consistent, has the same index
type and edge type, the same live node and edge indices with the same weights and endpoints, the same vacancies up
to the same bounds, and the same counts.

What is NOT preserved: the ORDER of the two free lists (and the order inside each adjacency list).  `link_edges` rebuilds
both free lists — like every adjacency list — in descending index order (`C17_de_lists_exact`), whatever order the
original's removal history had left them in.  The free lists are LIFO stacks, so when the original holds two or more node
(edge) vacancies, the index handed out by the next `add_node` (`add_edge`) after the round trip — always the LARGEST
vacant index — may differ from the one the original would have handed out (`C17_roundtrip_free_list_order_witness`), and
trailing vacancies (slots at or above `node_bound` / `edge_bound`) are dropped.  The identity stated here is therefore an
identity of the CURRENT observables (`SameObs`: which indices are live, their weights and endpoints, bounds, counts), not
of the future allocation order; C02's specification leaves that order open (`add_node` may return any vacant index),
so the loaded graph is again a correct `StableGraph` under every further history
(`C17_loaded_stable_all_histories`). -/
theorem C17_roundtrip_stable (s : Stable) (hI : StableInv s) (order : List Field) (ho : FullOrder order)
    (hcapN : s.nodeBound < s.g.END) (hcapE : s.edgeBound < s.g.END) :
    ∃ w s', serStable s = some w ∧ deStable s.g.END s.g.directed order w = .ok s' ∧
      StableInv s' ∧ s'.g.END = s.g.END ∧ s'.g.directed = s.g.directed ∧ SameObs s.g s'.g ∧
      s'.nodeBound = s.nodeBound ∧ s'.edgeBound = s.edgeBound ∧
      s'.nodeCount = s.nodeCount ∧ s'.edgeCount = s.edgeCount := by
  obtain ⟨w, s', h1, h2, D, O, h3, h4⟩ := roundtrip_stable_stable s hI order ho hcapN hcapE
  exact ⟨w, s', h1, h2, D.inv, D.hEND, D.hdir, O, O.nodeBound, O.edgeBound, h3, h4⟩

/-- **round trip, `Graph`**: same indices, weights, endpoints, direction.  (A `Graph` has no vacancies and no free
lists; what is not preserved is the order inside each adjacency list: `link_edges` rebuilds every list in descending
edge-index order, which is also the order `add_edge` alone produces, but not necessarily the order left behind by a
history with `remove_edge` / `remove_node`, whose `swap_remove` renumbers edges.  Observational identity is for the
current order-independent observables `SameObs`.) -/
theorem C17_roundtrip_graph (g : Raw) (hI : GraphInv g) (order : List Field)
    (ho : Field.n ∈ order ∧ Field.p ∈ order ∧ Field.e ∈ order)
    (hcapN : g.nodes.length < g.END) (hcapE : g.edges.length < g.END) :
    ∃ g', deGraph g.END g.directed order (serGraph g) = .ok g' ∧
      GraphInv g' ∧ g'.END = g.END ∧ g'.directed = g.directed ∧ SameObs g g' := by
  obtain ⟨g', h1, D, O⟩ := roundtrip_graph_graph g hI order ho hcapN hcapE
  exact ⟨g', h1, D.inv, D.hEND, D.hdir, O⟩

/-- **cross-loading, any `Graph` stream as a `StableGraph`**, with the same indices (order inside adjacency lists: see
`C17_roundtrip_graph`; both free lists of the result are empty). -/
theorem C17_crossload_graph_to_stable (g : Raw) (hI : GraphInv g) (order : List Field) (ho : FullOrder order)
    (hcapN : g.nodes.length < g.END) (hcapE : g.edges.length < g.END) :
    ∃ s', deStable g.END g.directed order (serGraph g) = .ok s' ∧
      StableInv s' ∧ s'.g.END = g.END ∧ s'.g.directed = g.directed ∧ SameObs g s'.g := by
  obtain ⟨s', h1, D, O⟩ := roundtrip_graph_stable g hI order ho hcapN hcapE
  exact ⟨s', h1, D.inv, D.hEND, D.hdir, O⟩

/-- **cross-loading, a vacancy-free `StableGraph` stream as a `Graph`**, with the same indices (vacancy-free = no
vacant node below `node_bound`, no vacant edge below `edge_bound`; trailing vacancies do not count — they are on the
original's free lists and are dropped, see the caveat at `C17_roundtrip_stable`). -/
theorem C17_crossload_stable_to_graph (s : Stable) (hI : StableInv s) (order : List Field)
    (ho : Field.n ∈ order ∧ Field.p ∈ order ∧ Field.e ∈ order)
    (hvN : ∀ n, n ∈ s.g.nodes.take s.nodeBound → n.w.isSome = true)
    (hvE : ∀ e, e ∈ s.g.edges.take s.edgeBound → e.w.isSome = true)
    (hcapN : s.nodeBound < s.g.END) (hcapE : s.edgeBound < s.g.END) :
    ∃ w g', serStable s = some w ∧ deGraph s.g.END s.g.directed order w = .ok g' ∧
      GraphInv g' ∧ g'.END = s.g.END ∧ g'.directed = s.g.directed ∧ SameObs s.g g' := by
  obtain ⟨w, g', h1, h2, D, O⟩ := roundtrip_stable_graph s hI order ho hvN hvE hcapN hcapE
  exact ⟨w, g', h1, h2, D.inv, D.hEND, D.hdir, O⟩

/-- a stream that declares a node hole or carries a vacant edge is never loaded as a `Graph` (it is an error,
whatever else the stream contains). -/
theorem C17_graph_rejects_vacancies (END : Nat) (directed : Bool) (order : List Field) (w : Wire)
    (h : (w.holes ≠ [] ∧ Field.h ∈ order) ∨ (none ∈ w.edges ∧ Field.e ∈ order)) :
    ∃ e, deGraph END directed order w = .error e :=
  deGraph_rejects_vacancies END directed order w h

/-- **completeness of `de`, `StableGraph`** (wire level): any stream that lists the `Somes` and `Holes` of a node
sequence `ws` shorter than `END`, has fewer than `END` edge entries and only edges between present nodes, with the
right `edge_property` and all fields in any order, is accepted, and the loaded graph has exactly those node slots
and edge slots. -/
theorem C17_de_complete_stable (END : Nat) (directed : Bool) (order : List Field) (ws : List (Option Int))
    (es : List (Option (Nat × Nat × Int))) (ho : FullOrder order) (hn : ws.length < END) (he : es.length < END)
    (hend : ∀ a b x, some (a, b, x) ∈ es → (∃ wa, ws[a]? = some (some wa)) ∧ (∃ wb, ws[b]? = some (some wb))) :
    ∃ s', deStable END directed order
        { nodes := somesW ws, holes := holesW 0 ws, prop := some directed, edges := es } = .ok s' ∧
      s'.g.nodes.map (fun (n : NodeSlot) => n.w) = ws ∧ s'.g.edges.map liveSkel = es :=
  deStable_complete END directed order ws es ho hn he hend

/-- **completeness of `de`, `Graph`** (wire level). -/
theorem C17_de_complete_graph (END : Nat) (directed : Bool) (order : List Field) (ns : List Int)
    (es : List (Nat × Nat × Int)) (ho : Field.n ∈ order ∧ Field.p ∈ order ∧ Field.e ∈ order)
    (hn : ns.length < END) (he : es.length < END)
    (hend : ∀ a b x, (a, b, x) ∈ es → a < ns.length ∧ b < ns.length) :
    ∃ g', deGraph END directed order { nodes := ns, holes := [], prop := some directed, edges := es.map some } = .ok g' ∧
      g'.nodes.map (fun (n : NodeSlot) => n.w) = ns.map some ∧ g'.edges.map liveSkel = es.map some :=
  deGraph_complete END directed order ns es ho hn he hend

/-- the round trip at full strength: up to the capacity of the index type (`END` nodes / edges, indices `0..END-1`).
False of the code as it is (D20). -/
def C17_roundtrip_capacity_statement : Prop :=
  ∀ (g : Raw), GraphInv g → g.nodes.length ≤ g.END → g.edges.length ≤ g.END →
    ∃ g', deGraph g.END g.directed [.n, .h, .p, .e] (serGraph g) = .ok g'

/-- D20 in the model: a `Graph` holding exactly `Ix::max()` nodes is refused with the invalid-length error, for
every index type. -/
theorem C17_roundtrip_capacity_partial (END : Nat) (directed : Bool) (w : Wire)
    (hp : w.prop = some directed) (hn : w.nodes.length = END) :
    fromDeserializedGraph END directed w = .error (.lenNode END END) := by
  unfold fromDeserializedGraph
  rw [if_neg (by simp [hp]), if_pos (by omega), hn]

/-- the witness: a (hypothetical 2-bit index type, `END = 3`) graph with three isolated nodes is a valid graph at
capacity, yet its own stream is refused — so `C17_roundtrip_capacity_statement` is false for the code as it is. -/
theorem C17_roundtrip_capacity_counterexample : ¬ C17_roundtrip_capacity_statement := by
  intro h
  let g : Raw := { END := 3, directed := true,
                   nodes := [⟨some 1, 3, 3⟩, ⟨some 2, 3, 3⟩, ⟨some 3, 3, 3⟩], edges := [] }
  have hI : GraphInv g := by
    refine { lenN := by decide, lenE := by decide, endpoints := ?_, out := ?_, inn := ?_, allNodes := ?_, allEdges := ?_ }
    · intro e s hs; simp [g] at hs
    · intro i nd hi _
      have hn0 : nd.n0 = 3 := by
        have : i < 3 := (List.getElem?_eq_some_iff.1 hi).1
        match i, this with
        | 0, _ => simp [g] at hi; subst hi; rfl
        | 1, _ => simp [g] at hi; subst hi; rfl
        | 2, _ => simp [g] at hi; subst hi; rfl
      refine ⟨[], hn0 ▸ .nil, List.nodup_nil, ?_⟩
      intro e; simp [g]
    · intro i nd hi _
      have hn1 : nd.n1 = 3 := by
        have : i < 3 := (List.getElem?_eq_some_iff.1 hi).1
        match i, this with
        | 0, _ => simp [g] at hi; subst hi; rfl
        | 1, _ => simp [g] at hi; subst hi; rfl
        | 2, _ => simp [g] at hi; subst hi; rfl
      refine ⟨[], hn1 ▸ .nil, List.nodup_nil, ?_⟩
      intro e; simp [g]
    · intro i nd hi
      have : i < 3 := (List.getElem?_eq_some_iff.1 hi).1
      match i, this with
      | 0, _ => simp [g] at hi; subst hi; rfl
      | 1, _ => simp [g] at hi; subst hi; rfl
      | 2, _ => simp [g] at hi; subst hi; rfl
    · intro e s hs; simp [g] at hs
  obtain ⟨g', hg'⟩ := h g hI (by decide) (by decide)
  have : (match deGraph g.END g.directed [.n, .h, .p, .e] (serGraph g) with | .ok _ => true | .error _ => false) = false := by decide
  rw [hg'] at this
  simp at this

/-- `GraphMap`: its serde impls go through `Graph<_,_,_,u32>` (`into_graph` / `from_graph`).  Full statement of the
round trip; open: it needs the `GraphMap` invariant of C03 (`into_graph` yields distinct node weights and no parallel
edges, `from_graph` of such a graph rebuilds the same map up to adjacency order). -/
def C17_roundtrip_map_statement : Prop :=
  ∀ (m : GMap), (∀ a b w, ((a, b), w) ∈ m.edges → (m.nodes.map (·.1)).contains a ∧ (m.nodes.map (·.1)).contains b) →
    (m.nodes.map (·.1)).Nodup → (m.edges.map (·.1)).Nodup →
    ∃ w m', serMap m = some w ∧ deMap m.directed [.n, .h, .p, .e] w = .ok m' ∧
      m'.nodes.map (·.1) = m.nodes.map (·.1) ∧ m'.edges = m.edges

/-- proved part: the stream of a `GraphMap` is the stream of its `into_graph`, and loading any stream as a
`GraphMap` is loading it as a `Graph<u32>` followed by `from_graph`, which never panics. -/
theorem C17_roundtrip_map_partial (m : GMap) (directed : Bool) (order : List Field) (w : Wire) :
    (∀ w', serMap m = some w' → ∃ g, m.intoGraph 4294967295 = some g ∧ w' = serGraph g) ∧
    (∀ m', deMap directed order w = .ok m' →
      ∃ g, deGraph 4294967295 directed order w = .ok g ∧ GraphInv g ∧ GMap.fromGraph g = some m') := by
  constructor
  · intro w' h
    unfold serMap at h
    cases hg : m.intoGraph 4294967295 with
    | none => simp [hg] at h
    | some g => simp [hg] at h; exact ⟨g, rfl, h.symm⟩
  · intro m' h
    unfold deMap at h
    cases hg : deGraph 4294967295 directed order w with
    | error e => simp [hg] at h
    | ok g =>
      simp only [hg] at h
      cases hm : GMap.fromGraph g with
      | none => simp [hm] at h
      | some m'' =>
        simp only [hm, Except.ok.injEq] at h
        subst h
        exact ⟨g, rfl, (deGraph_de hg).inv, hm⟩

/-! ### the `GraphMap` round trip (wave 2)

`C17_roundtrip_map_statement` is false as written, for two reasons that have nothing to do with the code:
it lets in maps no `GraphMap` can be (an undirected map whose edge key is not the canonical `edge_key`, `a ≤ b`), and it
has no capacity bound (D20 reaches `GraphMap` through `Graph<_,_,_,u32>`).  `C17_roundtrip_map` is the repaired
statement: the two missing hypotheses added, every field order, and the loaded map determined completely. -/

/-- the adjacency vector `from_graph` builds for node `k` out of an edge map: its incident edges in edge-map order,
`(b, Outgoing)` for an edge `(k, b)`, `(a, Incoming)` for an edge `(a, k)` with `a ≠ k` (a self-loop is listed once) -/
abbrev adjFrom := SerdeProofs.adjFrom
/-- a `GraphMap` state of the C03 model (`GM.State`: node values and weights `Nat`) as a `GraphMap` of the serde model -/
abbrev ofGM := SerdeProofs.ofGM

/-- `C17_roundtrip_map_statement` is false as written: an "undirected map" with the non-canonical key `(2, 1)`
satisfies its hypotheses, and is loaded back with the key `(1, 2)`.  (No `GraphMap` holds such a key: C03's invariant.) -/
theorem C17_roundtrip_map_statement_false_witness : ¬ C17_roundtrip_map_statement := by
  intro h
  obtain ⟨w, m', h1, h2, _, h4⟩ := h { directed := false, nodes := [(1, []), (2, [])], edges := [((2, 1), 5)] }
    (by intro a b w hm; simp at hm; obtain ⟨⟨rfl, rfl⟩, rfl⟩ := hm; decide) (by decide) (by decide)
  have e1 : serMap { directed := false, nodes := [(1, []), (2, [])], edges := [((2, 1), 5)] } =
      some { nodes := [1, 2], holes := [], prop := some false, edges := [some (1, 0, 5)] } := by decide
  rw [e1] at h1
  cases h1
  have e2 : (match deMap false [.n, .h, .p, .e]
      { nodes := [1, 2], holes := [], prop := some false, edges := [some (1, 0, 5)] } with
    | .ok m' => decide (m'.edges = [((1, 2), 5)])
    | .error _ => false) = true := by decide
  have h2' : deMap false [.n, .h, .p, .e]
      { nodes := [1, 2], holes := [], prop := some false, edges := [some (1, 0, 5)] } = .ok m' := h2
  rw [h2'] at e2
  simp only [decide_eq_true_eq] at e2
  rw [e2] at h4
  exact absurd h4 (by decide)

/-- **round trip, `GraphMap`** (the repaired `C17_roundtrip_map_statement`): for every map with duplicate-free node
keys, duplicate-free canonical edge keys (`a ≤ b` when undirected) whose edges join present nodes — what C03 proves of
every reachable `GraphMap` — below the capacity of `u32`, and every field order, `de (ser m) = ok m'` where `m'` has the
same edge type, the same nodes in the same order (the same `to_index`), the same edge map in the same order with the
same weights, and each adjacency vector is `adjFrom`: the node's incident edges in edge-map order. -/
theorem C17_roundtrip_map (m : GMap) (order : List Field)
    (ho : Field.n ∈ order ∧ Field.p ∈ order ∧ Field.e ∈ order)
    (hends : ∀ a b w, ((a, b), w) ∈ m.edges → (m.nodes.map (·.1)).contains a ∧ (m.nodes.map (·.1)).contains b)
    (hn : (m.nodes.map (·.1)).Nodup) (he : (m.edges.map (·.1)).Nodup)
    (hcanon : ∀ a b w, ((a, b), w) ∈ m.edges → m.directed = true ∨ a ≤ b)
    (hcapN : m.nodes.length < 4294967295) (hcapE : m.edges.length < 4294967295) :
    ∃ w m', serMap m = some w ∧ deMap m.directed order w = .ok m' ∧
      m'.directed = m.directed ∧ m'.nodes.map (·.1) = m.nodes.map (·.1) ∧ m'.edges = m.edges ∧
      m'.nodes = (m.nodes.map (·.1)).map (fun k => (k, adjFrom m.edges k)) := by
  obtain ⟨w, h1, h2⟩ := roundtrip_map m order ho
    (fun a b w hm => by simpa using hends a b w hm) hn he hcanon hcapN hcapE
  exact ⟨w, _, h1, h2, rfl, rebuildMap_keys m, rfl, rfl⟩

/-- the original statement with exactly the two missing hypotheses -/
theorem C17_roundtrip_map_repaired (m : GMap)
    (hends : ∀ a b w, ((a, b), w) ∈ m.edges → (m.nodes.map (·.1)).contains a ∧ (m.nodes.map (·.1)).contains b)
    (hn : (m.nodes.map (·.1)).Nodup) (he : (m.edges.map (·.1)).Nodup)
    (hcanon : ∀ a b w, ((a, b), w) ∈ m.edges → m.directed = true ∨ a ≤ b)
    (hcapN : m.nodes.length < 4294967295) (hcapE : m.edges.length < 4294967295) :
    ∃ w m', serMap m = some w ∧ deMap m.directed [.n, .h, .p, .e] w = .ok m' ∧
      m'.nodes.map (·.1) = m.nodes.map (·.1) ∧ m'.edges = m.edges := by
  obtain ⟨w, m', h1, h2, _, h4, h5, _⟩ := C17_roundtrip_map m [.n, .h, .p, .e] (by decide) hends hn he hcanon hcapN hcapE
  exact ⟨w, m', h1, h2, h4, h5⟩

/-- a loaded map is a fixed point: serializing what was loaded and loading it again gives the very same map, adjacency
vectors included (so one round trip normalises the adjacency order and every further one is the identity). -/
theorem C17_roundtrip_map_fixed_point (m : GMap) (order order' : List Field)
    (ho : Field.n ∈ order ∧ Field.p ∈ order ∧ Field.e ∈ order)
    (ho' : Field.n ∈ order' ∧ Field.p ∈ order' ∧ Field.e ∈ order')
    (hends : ∀ a b w, ((a, b), w) ∈ m.edges → (m.nodes.map (·.1)).contains a ∧ (m.nodes.map (·.1)).contains b)
    (hn : (m.nodes.map (·.1)).Nodup) (he : (m.edges.map (·.1)).Nodup)
    (hcanon : ∀ a b w, ((a, b), w) ∈ m.edges → m.directed = true ∨ a ≤ b)
    (hcapN : m.nodes.length < 4294967295) (hcapE : m.edges.length < 4294967295) :
    ∃ w m' w', serMap m = some w ∧ deMap m.directed order w = .ok m' ∧
      serMap m' = some w' ∧ deMap m'.directed order' w' = .ok m' := by
  have hends' : ∀ a b w, ((a, b), w) ∈ m.edges → a ∈ m.nodes.map (·.1) ∧ b ∈ m.nodes.map (·.1) :=
    fun a b w hm => by simpa using hends a b w hm
  obtain ⟨w, h1, h2⟩ := roundtrip_map m order ho hends' hn he hcanon hcapN hcapE
  have hk := rebuildMap_keys m
  obtain ⟨w', h3, h4⟩ := roundtrip_map (rebuildMap m) order' ho'
    (by rw [hk]; exact hends') (by rw [hk]; exact hn) he hcanon
    (by have := congrArg List.length hk; simp only [List.length_map] at this; omega) hcapE
  rw [rebuildMap_idem] at h4
  exact ⟨w, _, w', h1, h2, h3, h4⟩

/-- **round trip, `GraphMap`, for every state C03 reaches**: a `GraphMap` satisfying the C03 invariant (`C03T.Inv` =
`GMProofs.Inv`; by `C03_all_histories` every state reachable by a call history does), below the capacity of `u32`,
serializes, and its stream is loaded — in every field order — as exactly the map that `GraphMap::from_graph(m.into_graph())`
builds in the C03 model; that map satisfies the C03 invariant again and denotes the same abstract simple graph (same
nodes, same edges, same weights: `C03_into_from_graph`), with the same node and edge order. -/
theorem C17_roundtrip_map_c03 (s : GM.State) (hI : GMProofs.Inv s) (order : List Field)
    (ho : Field.n ∈ order ∧ Field.p ∈ order ∧ Field.e ∈ order)
    (hcapN : s.nodes.length < 4294967295) (hcapE : s.edges.length < 4294967295) :
    ∃ w s', serMap (ofGM s) = some w ∧ deMap s.directed order w = .ok (ofGM s') ∧
      GM.roundTrip s = some s' ∧ GMProofs.Inv s' ∧ GMProofs.abs s' = GMProofs.abs s ∧
      GM.nodesOf s' = GM.nodesOf s ∧ s'.edges = s.edges := by
  obtain ⟨hn, he, hgood⟩ := ofGM_wf s hI
  obtain ⟨w, h1, h2⟩ := roundtrip_map (ofGM s) order ho
    (fun a b w hm => ⟨(hgood a b w hm).1, (hgood a b w hm).2.1⟩) hn he
    (fun a b w hm => (hgood a b w hm).2.2)
    (by simpa [SerdeProofs.ofGM] using hcapN) (by simpa [SerdeProofs.ofGM] using hcapE)
  obtain ⟨s', h3, h4⟩ := rebuild_ofGM s hI
  obtain ⟨s'', h5, h6, h7⟩ := GMProofs.roundTrip_spec s hI
  rw [h3] at h5
  cases h5
  rw [h4] at h2
  have hk : (SerdeProofs.ofGM s').nodes.map (·.1) = (SerdeProofs.ofGM s).nodes.map (·.1) := by
    rw [← h4]; exact rebuildMap_keys _
  have hE : (SerdeProofs.ofGM s').edges = (SerdeProofs.ofGM s).edges := by rw [← h4]; rfl
  refine ⟨w, s', h1, h2, h3, h6, h7, ?_, ?_⟩
  · exact ofGM_nodesOf_inj hk
  · exact ofGM_edges_inj hE

/-- the same for every history: after any sequence of public `GraphMap` calls on a fresh map (C03's `run`), the state
round-trips through serde as above. -/
theorem C17_roundtrip_map_all_histories (directed : Bool) (ops : List GM.Op) (order : List Field)
    (ho : Field.n ∈ order ∧ Field.p ∈ order ∧ Field.e ∈ order) :
    let s := (GM.run (GM.State.empty directed) ops).1
    s.nodes.length < 4294967295 → s.edges.length < 4294967295 →
    ∃ w s', serMap (ofGM s) = some w ∧ deMap s.directed order w = .ok (ofGM s') ∧
      GM.roundTrip s = some s' ∧ GMProofs.Inv s' ∧ GMProofs.abs s' = GMProofs.abs s ∧
      GM.nodesOf s' = GM.nodesOf s ∧ s'.edges = s.edges := by
  intro s hcapN hcapE
  exact C17_roundtrip_map_c03 s (GMProofs.run_spec _ ops (GMProofs.inv_empty directed)).1 order ho hcapN hcapE

/-- D20 reaches `GraphMap`: a map holding exactly `u32::MAX` nodes serializes without panic, and its own stream is
refused, in every field order — so the capacity hypothesis of `C17_roundtrip_map` cannot be dropped for the code as
it is (`into_graph::<u32>()` allows `u32::MAX` nodes, `from_deserialized` refuses `>= u32::MAX`). -/
theorem C17_roundtrip_map_capacity (m : GMap) (order : List Field)
    (hends : ∀ a b w, ((a, b), w) ∈ m.edges → (m.nodes.map (·.1)).contains a ∧ (m.nodes.map (·.1)).contains b)
    (hN : m.nodes.length = 4294967295) (hE : m.edges.length ≤ 4294967295) :
    ∃ w, serMap m = some w ∧ ∃ e, deMap m.directed order w = .error e :=
  deMap_refuses_full m order (fun a b w hm => by simpa using hends a b w hm) hN hE

/-- non-vacuity: a directed map with reciprocal edges, a self-loop and a negative node value, adjacency vectors out of
canonical order, satisfies the hypotheses of `C17_roundtrip_map`; it is loaded with the adjacency vectors normalised. -/
example : (match (serMap { directed := true, nodes := [(1, [(2, false), (2, true)]), (2, [(1, true), (-3, true), (1, false)]),
                                                        (-3, [(2, false), (-3, true)])],
                           edges := [((2, 1), 5), ((1, 2), 6), ((-3, -3), 7), ((2, -3), 0)] }).map
            (deMap true [.e, .p, .n]) with
    | some (.ok m') => decide (m' = ⟨true,
        [(1, [(2, false), (2, true)]), (2, [(1, true), (1, false), (-3, true)]), (-3, [(-3, true), (2, false)])],
        [((2, 1), 5), ((1, 2), 6), ((-3, -3), 7), ((2, -3), 0)]⟩)
    | _ => false) = true := by decide

/-- a stream whose edge names a declared hole (the D18 witness) is refused -/
example : (match deStable 255 true [.n, .h, .p, .e]
    { nodes := [7], holes := [1], prop := some true, edges := [some (0, 1, 5)] } with
    | .error (.node 1 2) => true | _ => false) = true := by decide

/-- a hole beyond the available nodes (the D19 witness) is refused, not a panic -/
example : (match deStable 255 false [.n, .h, .p, .e]
    { nodes := [7], holes := [2, 1], prop := some false, edges := [] } with
    | .error (.hole 2) => true | _ => false) = true := by decide

/-- the hypotheses are satisfiable by a non-trivial stream: node vacancy, edge vacancy, self loop, parallel edges -/
example : (match deStable 255 true [.p, .e, .h, .n]
    { nodes := [1, 2, 3], holes := [1], prop := some true,
      edges := [some (0, 2, 5), none, some (2, 2, 6), some (0, 2, 7)] } with
    | .ok s => s.freeNode == 1 && s.freeEdge == 1 && s.nodeCount == 3 && s.edgeCount == 3 && s.g.nodes.length == 4
    | _ => false) = true := by decide

/-! ### wave 3: the loaded graph UNDER FURTHER USE — the bridge to C02, C01 and C03

`StableInv` / `GraphInv` above are invariants local to `Model/Serde.lean`.  The "all histories" theorems of
`StableGraph` (C02), `Graph` (C01) and `GraphMap` (C03) are proved about other models of the same data structures
(`SG.State`, `G.State`, `GM.State`) and their invariants (`C02T.Inv`, `C01T.Inv` / `C01T.RInv`, `C03T.Inv`).  This section
connects them.  `embedStable` / `embedGraph` copy the arrays, pointers, free-list heads and counts field by field into
the C02 / C01 state (`unembedStable` / `unembedGraph` are the inverse copies); the invariants correspond in both
directions; so every loaded graph is a C02 / C01 / C03 state satisfying that property's invariant, every further history
of calls on it is covered by `C02_inv_step` / `C02_history_refines`, `C01_refines`, `C03_all_histories`' step theorems,
and conversely every state those histories reach round-trips. -/

/-- a serde-model `StableGraph` as a C02 state (`noLimit`: index type `usize`; `debug`: debug assertions compiled in):
`fin := END`, `nodes`/`edges` copied slot by slot (`weight`, `next[0]`, `next[1]`, `node[0]`, `node[1]`), counts and
free-list heads copied -/
abbrev embedStable := SerdeProofs.embedStable
/-- the inverse copy (forgets `noLimit` and `debug`) -/
abbrev unembedStable := SerdeProofs.unembedStable
/-- a serde-model `Graph` as a C01 state; the C01 model stores weights as `Nat`, they are translated by the bijection
`SerdeProofs.encW` (zig-zag code of `Int`), which no C01 invariant or operation inspects -/
abbrev embedGraph := SerdeProofs.embedGraph
abbrev unembedGraph := SerdeProofs.unembedGraph
/-- vacant edge slots carry `end()` in both endpoint fields — a clause of the C02 invariant that `StableInv` does not
record -/
abbrev VacEnd := SerdeProofs.VacEnd
/-- the embedding `ofGM` of a C03 state composed with the order isomorphism `n ↦ n - c` of node values and weights
(C03's values are `Nat`, the wire's are `i64`); `ofGMS 0 = ofGM` -/
abbrev ofGMS := SerdeProofs.ofGMS

/-- the two copies are mutually inverse. -/
theorem C17_embed_stable_inverse (noLimit debug : Bool) (s : Stable) (t : SG.State) :
    unembedStable (embedStable noLimit debug s) = s ∧ embedStable t.noLimit t.debug (unembedStable t) = t :=
  ⟨SerdeProofs.unembed_embedStable noLimit debug s, SerdeProofs.embed_unembedStable t⟩

/-- for `Graph` likewise (on graphs, i.e. all weights present). -/
theorem C17_embed_graph_inverse (g : Raw) (hI : GraphInv g) (t : G.State) :
    unembedGraph (embedGraph g) = g ∧ embedGraph (unembedGraph t) = t :=
  ⟨SerdeProofs.unembed_embedGraph g hI, SerdeProofs.embed_unembedGraph t⟩

/-- **bridge, `StableGraph`, serde ⇒ C02**: `StableInv` plus `VacEnd` is the C02 invariant of the embedded state, for
every index width, in debug and release. -/
theorem C17_bridge_stable (noLimit debug : Bool) (s : Stable) (hI : StableInv s) (hv : VacEnd s) :
    C02T.Inv (embedStable noLimit debug s) :=
  SerdeProofs.inv_embedStable noLimit debug s hI hv

/-- the bridge as first asked for — `StableInv s → C02T.Inv (embedStable s)` — is false: `StableInv` says nothing about
the endpoint fields of vacant edge slots, the C02 invariant fixes them to `end()`.  Witness: one vacant edge slot,
correctly on the free list, with endpoint fields `0`.  (`C17_bridge_stable` is the repaired statement;
`C17_de_inv_stable_c02` shows every LOADED graph has the extra clause.) -/
theorem C17_bridge_stable_needs_vacEnd :
    ∃ s : Stable, StableInv s ∧ ∀ noLimit debug, ¬ C02T.Inv (embedStable noLimit debug s) :=
  ⟨SerdeProofs.badVac, SerdeProofs.badVac_inv, SerdeProofs.badVac_not_c02⟩

/-- **bridge, `StableGraph`, C02 ⇒ serde**: a C02 state satisfying the C02 invariant (by `C02_all_histories`: every
state reachable by a call history) is, copied into the serde model, a `StableGraph` satisfying `StableInv` (and
`VacEnd`). -/
theorem C17_bridge_stable_converse (t : SG.State) (hI : C02T.Inv t) :
    StableInv (unembedStable t) ∧ VacEnd (unembedStable t) :=
  SerdeProofs.stableInv_unembed t hI

/-- **`de w = ok g → Inv g`, `StableGraph`, with the invariant of C02**: whatever is accepted, for EVERY wire value,
satisfies the representation invariant for which C02 proves "all histories". -/
theorem C17_de_inv_stable_c02 (END : Nat) (directed : Bool) (order : List Field) (w : Wire) (s : Stable)
    (h : deStable END directed order w = .ok s) (noLimit debug : Bool) :
    C02T.Inv (embedStable noLimit debug s) ∧ VacEnd s ∧
      (embedStable noLimit debug s).fin = END ∧ (embedStable noLimit debug s).directed = directed :=
  ⟨SerdeProofs.deStable_inv_c02 noLimit debug h, SerdeProofs.deStable_vacEnd h, (deStable_de h).hEND, (deStable_de h).hdir⟩

/-- C02's "all histories", from ANY state satisfying the C02 invariant (not only from `new()`): no call of any history
faults, the invariant holds at the end, and answers and final state are a run of the reference multigraph machine.
(`C02_all_histories` is stated from `empty`; this is the same induction over `C02_inv_step`, combined with
`C02_history_refines`, which already allows any start state.) -/
theorem C17_c02_all_histories_from (t : SG.State) (hI : C02T.Inv t) (ops : List SG.Op) :
    ∃ t' outs, SG.run t ops = .ok (t', outs) ∧ C02T.Inv t' ∧ outs.length = ops.length ∧
      SGProofs.SpecRun t.fin (C02T.abs t) ops outs (C02T.abs t') := by
  have hrun : ∀ (ops : List SG.Op) (s : SG.State), C02T.Inv s →
      ∃ s' outs, SG.run s ops = .ok (s', outs) ∧ outs.length = ops.length := by
    intro ops
    induction ops with
    | nil => intro s _; exact ⟨s, [], rfl, rfl⟩
    | cons op ops ih =>
      intro s hinv
      obtain ⟨s1, o, h1, hinv1⟩ := C02T.C02_inv_step s op hinv
      obtain ⟨s2, os, h2, hlen⟩ := ih s1 hinv1
      exact ⟨s2, o :: os, by simp [SG.run, h1, h2], by simp [hlen]⟩
  obtain ⟨t', outs, h1, h2⟩ := hrun ops t hI
  obtain ⟨h3, h4⟩ := C02T.C02_history_refines ops t t' outs hI h1
  exact ⟨t', outs, h1, h4, h2, h3⟩

/-- **the loaded `StableGraph` under further use**: for every wire value that loads, every index width, debug and
release, EVERY further history of C02 calls (`try_add_node`, `try_add_edge`, `try_update_edge`, `remove_node`,
`remove_edge`, weight updates, `reverse`, `clear`, `clear_edges`, `retain_*`, `map`, `filter_map`, `extend_with_edges`,
the round trip through `Graph`, `clone`; arbitrary arguments) on the loaded graph returns normally at every call (no
out-of-bounds index, no non-terminating list walk, no failing `debug_assert!` / `check_free_lists`, no counter
underflow), keeps the C02 invariant, and its answers and final state are a run of the reference multigraph machine
started from the multigraph the loaded graph denotes. -/
theorem C17_loaded_stable_all_histories (END : Nat) (directed : Bool) (order : List Field) (w : Wire) (s : Stable)
    (h : deStable END directed order w = .ok s) (noLimit debug : Bool) (ops : List SG.Op) :
    ∃ t outs, SG.run (embedStable noLimit debug s) ops = .ok (t, outs) ∧ C02T.Inv t ∧ outs.length = ops.length ∧
      SGProofs.SpecRun END (C02T.abs (embedStable noLimit debug s)) ops outs (C02T.abs t) := by
  obtain ⟨t, outs, h1, h2, h3, h4⟩ :=
    C17_c02_all_histories_from (embedStable noLimit debug s) (SerdeProofs.deStable_inv_c02 noLimit debug h) ops
  have hfin : (embedStable noLimit debug s).fin = END := (deStable_de h).hEND
  rw [hfin] at h4
  exact ⟨t, outs, h1, h2, h3, h4⟩

/-- identical order-independent observables (`SameObs`) of two serde-model `StableGraph`s = their embeddings denote
the same reference multigraph of C02 (the same partial maps index ↦ node weight, index ↦ (source, target, weight)). -/
theorem C17_sameObs_is_c02_equiv (nl dbg nl' dbg' : Bool) (s s' : Stable) (hd : s'.g.directed = s.g.directed)
    (O : SameObs s.g s'.g) :
    (C02T.abs (embedStable nl' dbg' s')).equiv (C02T.abs (embedStable nl dbg s)) :=
  SerdeProofs.sameObs_equiv nl dbg nl' dbg' s s' hd O

/-- **round trip, `StableGraph`, for every C02 state satisfying the C02 invariant**: below the capacity of the index
type (D20) and for every field order, the state serializes and its stream is loaded as a graph that satisfies the C02
invariant again (so `C17_c02_all_histories_from` applies to it) and denotes the SAME reference multigraph — every live
node and edge index with its weight and endpoints — with the same bounds and counts.  Free-list order is not preserved
(see `C17_roundtrip_stable`): C02's reference machine lets `add_node` / `add_edge` return any vacant index. -/
theorem C17_roundtrip_stable_c02 (t : SG.State) (hI : C02T.Inv t) (order : List Field) (ho : FullOrder order)
    (hcapN : SG.nodeBound t < t.fin) (hcapE : SG.edgeBound t < t.fin) (noLimit debug : Bool) :
    ∃ w s', serStable (unembedStable t) = some w ∧ deStable t.fin t.directed order w = .ok s' ∧
      StableInv s' ∧ C02T.Inv (embedStable noLimit debug s') ∧
      (C02T.abs (embedStable noLimit debug s')).equiv (C02T.abs t) ∧
      SG.nodeBound (embedStable noLimit debug s') = SG.nodeBound t ∧
      SG.edgeBound (embedStable noLimit debug s') = SG.edgeBound t ∧
      (embedStable noLimit debug s').nodeCount = t.nodeCount ∧ (embedStable noLimit debug s').edgeCount = t.edgeCount := by
  obtain ⟨hS, _⟩ := SerdeProofs.stableInv_unembed t hI
  obtain ⟨w, s', h1, h2, D, O, h3, h4⟩ := roundtrip_stable_stable (unembedStable t) hS order ho
    (by rw [SerdeProofs.nodeBound_unembed]; exact hcapN) (by rw [SerdeProofs.edgeBound_unembed]; exact hcapE)
  have hequiv := SerdeProofs.sameObs_equiv t.noLimit t.debug noLimit debug (unembedStable t) s' D.hdir O
  rw [SerdeProofs.embed_unembedStable] at hequiv
  refine ⟨w, s', h1, h2, D.inv, SerdeProofs.deStable_inv_c02 noLimit debug h2, hequiv, ?_, ?_, h3, h4⟩
  · rw [SerdeProofs.nodeBound_embed, ← SerdeProofs.nodeBound_unembed]; exact O.nodeBound
  · rw [SerdeProofs.edgeBound_embed, ← SerdeProofs.edgeBound_unembed]; exact O.edgeBound

/-- **round trip, `StableGraph`, for every history**: after ANY sequence of C02 calls on a fresh `StableGraph` (which
never faults: `C02_all_histories`), the state reached — whatever vacancies, free-list orders and trailing vacant slots
its history left — round-trips through serde as in `C17_roundtrip_stable_c02`, in every field order, provided it is
below the capacity of its index type (D20). -/
theorem C17_roundtrip_stable_all_histories (directed : Bool) (fin : Nat) (noLimit debug : Bool) (ops : List SG.Op)
    (order : List Field) (ho : FullOrder order) :
    ∃ t outs, SG.run (SG.empty directed fin noLimit debug) ops = .ok (t, outs) ∧ t.fin = fin ∧
      (SG.nodeBound t < t.fin → SG.edgeBound t < t.fin →
        ∃ w s', serStable (unembedStable t) = some w ∧ deStable t.fin t.directed order w = .ok s' ∧
          StableInv s' ∧ C02T.Inv (embedStable noLimit debug s') ∧
          (C02T.abs (embedStable noLimit debug s')).equiv (C02T.abs t) ∧
          SG.nodeBound (embedStable noLimit debug s') = SG.nodeBound t ∧
          SG.edgeBound (embedStable noLimit debug s') = SG.edgeBound t ∧
          (embedStable noLimit debug s').nodeCount = t.nodeCount ∧
          (embedStable noLimit debug s').edgeCount = t.edgeCount) := by
  obtain ⟨t, outs, h1, hI, _⟩ := C02T.C02_all_histories directed fin noLimit debug ops
  exact ⟨t, outs, h1, SerdeProofs.run_fin ops (C02T.C02_inv_init directed fin noLimit debug) h1,
    fun hcapN hcapE => C17_roundtrip_stable_c02 t hI order ho hcapN hcapE noLimit debug⟩

/-- the free-list caveat is real: a `StableGraph` with two node vacancies (`add_node` ×3, `remove_node(1)`,
`remove_node(0)`) hands out index `0` next; its round trip — same live nodes, same bounds and counts — hands out index
`1`. -/
theorem C17_roundtrip_free_list_order_witness :
    let s : Stable :=
      { g := { END := 255, directed := true,
               nodes := [⟨none, 1, 255⟩, ⟨none, 255, 0⟩, ⟨some 12, 255, 255⟩], edges := [] },
        nodeCount := 1, edgeCount := 0, freeNode := 0, freeEdge := 255 }
    s.checkFreeLists = .ok () ∧
    (match s.tryAddNode 7 with | .ok (_, .ok i) => i | _ => 99) = 0 ∧
    (match (serStable s).map (deStable 255 true [.n, .h, .p, .e]) with
      | some (.ok s') => (match s'.tryAddNode 7 with | .ok (_, .ok i) => i | _ => 99)
      | _ => 99) = 1 := by
  decide

/-! #### `Graph` / C01 -/

/-- **bridge, `Graph`, serde ⇒ C01**: `GraphInv` is the C01 representation invariant of the embedded state. -/
theorem C17_bridge_graph (g : Raw) (hI : GraphInv g) : C01T.Inv (embedGraph g) :=
  SerdeProofs.inv_embedGraph g hI

/-- **bridge, `Graph`, C01 ⇒ serde**: a C01 state satisfying the C01 invariant (by `C01_inv_all_histories`: every state
reachable by a call history) is, copied into the serde model, a `Graph` satisfying `GraphInv`. -/
theorem C17_bridge_graph_converse (t : G.State) (hI : C01T.Inv t) : GraphInv (unembedGraph t) :=
  SerdeProofs.graphInv_unembed t hI

/-- C01's refinement invariant `RInv` (there is a stamp function decreasing along every stored link — what makes
"most recently added first" meaningful) does NOT follow from `GraphInv` alone: two parallel edges listed in opposite
orders at their two endpoints satisfy `GraphInv` and have no such stamps.  No call history and no `link_edges` produces
such a state; for LOADED graphs `C17_de_inv_graph_c01` proves `RInv` from the descending order `link_edges` builds. -/
theorem C17_bridge_graph_rinv_needs_order :
    ∃ g : Raw, GraphInv g ∧ ∀ st ck, ¬ C01T.RInv (embedGraph g) st ck :=
  ⟨SerdeProofs.crossed, SerdeProofs.crossed_inv, SerdeProofs.crossed_no_rinv⟩

/-- **`de w = ok g → Inv g`, `Graph`, with the invariants of C01**: whatever is accepted, for EVERY wire value,
satisfies the C01 representation invariant, has all its lists in descending index order (`Inv1`, the state of a graph
built by additions only) and hence the refinement invariant `RInv` with "stamp = index". -/
theorem C17_de_inv_graph_c01 (END : Nat) (directed : Bool) (order : List Field) (w : Wire) (g : Raw)
    (h : deGraph END directed order w = .ok g) :
    C01T.Inv (embedGraph g) ∧ C01T.Inv1 (embedGraph g) ∧ C01T.RInv (embedGraph g) id (embedGraph g).edges.length ∧
      (embedGraph g).endv = END ∧ (embedGraph g).directed = directed :=
  ⟨(SerdeProofs.deGraph_inv1 h).1, SerdeProofs.deGraph_inv1 h, SerdeProofs.deGraph_rinv h,
   (deGraph_de h).hEND, (deGraph_de h).hdir⟩

/-- **the loaded `Graph` under further use**: for every wire value that loads, EVERY further history of C01 calls on
the loaded graph (adds, `update_edge`, weight mutation, `remove_node`, `remove_edge`, `retain_*`, `reverse`, `clear*`,
`map`, `filter_map`, conversions, walkers, all queries; arbitrary arguments) keeps the C01 invariants, never answers with
a fault (out-of-bounds index, non-terminating walk, failing `debug_assert!`), and the whole sequence of answers is a run
of the plain-multigraph specification started from the multigraph the loaded graph denotes. -/
theorem C17_loaded_graph_all_histories (END : Nat) (directed : Bool) (order : List Field) (w : Wire) (g : Raw)
    (h : deGraph END directed order w = .ok g) (ops : List G.Op) :
    C01T.Inv (G.run (embedGraph g) ops).1 ∧
    (∃ st ck, C01T.RInv (G.run (embedGraph g) ops).1 st ck ∧
      C01T.SpecRun2 (C01T.abs (embedGraph g)) ops (G.run (embedGraph g) ops).2
        (C01T.absG (G.run (embedGraph g) ops).1 st ck)) ∧
    (∀ o, o ∈ (G.run (embedGraph g) ops).2 → ∀ f, o ≠ .fault f) := by
  obtain ⟨st, ck, hrun, hr⟩ := GProofs.refines_run2 ops (embedGraph g) id _ (SerdeProofs.deGraph_rinv h)
  exact ⟨hr.inv, ⟨st, ck, hr, hrun⟩, SerdeProofs.specRun2_no_fault hrun⟩

/-- **round trip, `Graph`, for every C01 state satisfying the C01 invariant**: below the capacity of the index type
(D20) and for every field order, the state serializes and its stream is loaded as a graph with the same index type and
edge type, the same node weights at the same indices and the same `(source, target, weight)` at every edge index, which
satisfies the C01 invariants again (so `C01_refines` / `C01_no_fault` apply to it under every further history).
Adjacency-list order is not preserved (see `C17_roundtrip_graph`). -/
theorem C17_roundtrip_graph_c01 (t : G.State) (hI : C01T.Inv t) (order : List Field)
    (ho : Field.n ∈ order ∧ Field.p ∈ order ∧ Field.e ∈ order)
    (hcapN : t.nodes.length < t.endv) (hcapE : t.edges.length < t.endv) :
    ∃ g', deGraph t.endv t.directed order (serGraph (unembedGraph t)) = .ok g' ∧ GraphInv g' ∧
      (embedGraph g').endv = t.endv ∧ (embedGraph g').directed = t.directed ∧
      (embedGraph g').nodes.map (·.weight) = t.nodes.map (·.weight) ∧
      (embedGraph g').edges.map C01T.edgeEnds = t.edges.map C01T.edgeEnds ∧
      C01T.RInv (embedGraph g') id (embedGraph g').edges.length := by
  have hG := SerdeProofs.graphInv_unembed t hI
  obtain ⟨g', h1, D, O⟩ := roundtrip_graph_graph (unembedGraph t) hG order ho
    (by simpa [SerdeProofs.unembedGraph] using hcapN) (by simpa [SerdeProofs.unembedGraph] using hcapE)
  obtain ⟨h2, h3⟩ := SerdeProofs.sameObs_c01 (unembedGraph t) g' hG D.inv O
  rw [SerdeProofs.embed_unembedGraph] at h2 h3
  exact ⟨g', h1, D.inv, D.hEND, D.hdir, h2, h3, SerdeProofs.deGraph_rinv h1⟩

/-- **round trip, `Graph`, for every history**: after ANY sequence of C01 calls on a fresh `Graph`, the state reached —
whatever `swap_remove` renumberings and list orders its history left — round-trips through serde as in
`C17_roundtrip_graph_c01`, in every field order, provided it is below the capacity of its index type (D20). -/
theorem C17_roundtrip_graph_all_histories (endv : Nat) (directed : Bool) (ops : List G.Op) (order : List Field)
    (ho : Field.n ∈ order ∧ Field.p ∈ order ∧ Field.e ∈ order) :
    let t := (G.run (G.empty endv directed) ops).1
    t.nodes.length < t.endv → t.edges.length < t.endv →
    ∃ g', deGraph t.endv t.directed order (serGraph (unembedGraph t)) = .ok g' ∧ GraphInv g' ∧
      (embedGraph g').endv = t.endv ∧ (embedGraph g').directed = t.directed ∧
      (embedGraph g').nodes.map (·.weight) = t.nodes.map (·.weight) ∧
      (embedGraph g').edges.map C01T.edgeEnds = t.edges.map C01T.edgeEnds ∧
      C01T.RInv (embedGraph g') id (embedGraph g').edges.length := by
  intro t hcapN hcapE
  exact C17_roundtrip_graph_c01 t (C01T.C01_inv_all_histories endv directed ops) order ho hcapN hcapE

/-! #### `GraphMap` / C03 -/

/-- the never-corrupt statement for `GraphMap` as first asked for: whatever `de` accepts is the embedding `ofGM` of a
C03 state satisfying the C03 invariant.  False as written, for a reason that has nothing to do with the code: C03's
model has node values in `Nat`, the wire carries `i64`. -/
def C17_de_map_inv_statement : Prop :=
  ∀ (directed : Bool) (order : List Field) (w : Wire) (m : GMap), deMap directed order w = .ok m →
    ∃ s, m = ofGM s ∧ C03T.Inv s

/-- witness: the one-node map with node value `-1` loads, and is no `ofGM s`. -/
theorem C17_de_map_inv_statement_false_witness : ¬ C17_de_map_inv_statement := by
  intro h
  have e : deMap true [.n, .h, .p, .e] { nodes := [-1], holes := [], prop := some true, edges := [] } =
      .ok ⟨true, [(-1, [])], []⟩ := by decide
  obtain ⟨s, hs, _⟩ := h _ _ _ _ e
  have := congrArg GMap.nodes hs
  simp only [SerdeProofs.ofGM] at this
  cases hn : s.nodes with
  | nil => rw [hn] at this; simp at this
  | cons p t =>
    rw [hn] at this
    simp only [List.map_cons, List.cons.injEq, SerdeProofs.ofNode, Prod.mk.injEq] at this
    omega

theorem C17_ofGMS_zero (s : GM.State) : ofGMS 0 s = ofGM s := SerdeProofs.ofGMS_zero s

/-- **`de w = ok m → Inv m`, `GraphMap`** (the repaired statement), for EVERY wire value, every field order, both edge
types: whatever is accepted is — up to the order-preserving renaming `n ↦ n - c` of node values and weights, for a
suitable `c` — a C03 `GraphMap` state satisfying the C03 invariant (duplicate-free node keys and edge keys, canonical
edge keys, edges join present nodes, adjacency vectors mirror the edge map).  `from_graph` is a fold of `add_node` /
`add_edge` from the empty map; both commute with the embedding and C03 (`C03_inv_step`) proves they keep the invariant. -/
theorem C17_de_map_inv (directed : Bool) (order : List Field) (w : Wire) (m : GMap)
    (h : deMap directed order w = .ok m) : ∃ c s, m = ofGMS c s ∧ C03T.Inv s := by
  obtain ⟨c, s, h1, h2⟩ := SerdeProofs.deMap_isGM h
  exact ⟨c, s, h1, h2⟩

/-- the statement as first asked for, with the one hypothesis it needs: for a stream without negative node values and
weights no renaming is needed (`c = 0`). -/
theorem C17_de_map_inv_nonneg (directed : Bool) (order : List Field) (w : Wire) (m : GMap)
    (h : deMap directed order w = .ok m) (hn : ∀ x, x ∈ w.nodes → 0 ≤ x)
    (he : ∀ a b x, some (a, b, x) ∈ w.edges → 0 ≤ x) : ∃ s, m = ofGM s ∧ C03T.Inv s :=
  SerdeProofs.deMap_isGM_nonneg h hn he

/-- **the loaded `GraphMap` under further use**: every further history of C03 calls on (the C03 state of) a loaded map
keeps the C03 invariant, denotes the abstract simple graph the specification machine reaches, and every answer is the
prescribed one (`C03_all_histories`, from the loaded state instead of `new()`). -/
theorem C17_loaded_map_all_histories (directed : Bool) (order : List Field) (w : Wire) (m : GMap)
    (h : deMap directed order w = .ok m) :
    ∃ c s, m = ofGMS c s ∧ ∀ ops : List GM.Op,
      C03T.Inv (GM.run s ops).1 ∧ C03T.abs (GM.run s ops).1 = SimpleGraphSpec.specRun (C03T.abs s) ops ∧
      C03T.OutsOk (C03T.abs s) ops (GM.run s ops).2 := by
  obtain ⟨c, s, h1, h2⟩ := SerdeProofs.deMap_isGM h
  exact ⟨c, s, h1, fun ops => GMProofs.run_spec s ops h2⟩

/-- every loaded `GraphMap` has the well-formedness `C17_roundtrip_map` asks of its argument (duplicate-free node keys,
duplicate-free canonical edge keys, edges join present nodes): a loaded map round-trips again. -/
theorem C17_loaded_map_wf (directed : Bool) (order : List Field) (w : Wire) (m : GMap)
    (h : deMap directed order w = .ok m) :
    (m.nodes.map (·.1)).Nodup ∧ (m.edges.map (·.1)).Nodup ∧
    (∀ a b x, ((a, b), x) ∈ m.edges →
      (m.nodes.map (·.1)).contains a ∧ (m.nodes.map (·.1)).contains b ∧ (m.directed = true ∨ a ≤ b)) := by
  obtain ⟨c, s, rfl, hI⟩ := SerdeProofs.deMap_isGM h
  obtain ⟨h1, h2, h3⟩ := SerdeProofs.ofGMS_wf c s hI
  exact ⟨h1, h2, fun a b x hx => by simpa using h3 a b x hx⟩

/-- non-vacuity of the bridge: a stream with a node vacancy, an edge vacancy, a self loop and parallel edges loads, and
a further history with removals, re-use of both vacancies and `retain_nodes` runs on the embedded state without fault. -/
example : (match deStable 255 true [.p, .e, .h, .n]
    { nodes := [1, 2, 3], holes := [1], prop := some true,
      edges := [some (0, 2, 5), none, some (2, 2, 6), some (0, 2, 7)] } with
    | .ok s => (match SG.run (SerdeProofs.embedStable false true s)
                  [.addNode 9, .addEdge 1 0 4, .removeNode 2, .addEdge 0 1 8, .retainNodes [0], .addNode 5] with
                | .ok (t, _) => t.nodeCount == 3 && t.edgeCount == 0 && SG.nodeIndices t == [0, 1, 3]
                | .error _ => false)
    | _ => false) = true := by decide

/-! ### wave 4 (a): the transports, down to characters and bytes

Until here everything between the bytes and the wire value was trusted.  `Spec/SerdeText.lean` models the JSON text
`serde_json::to_string` emits for the wire struct (`printWire`) with a reader of that grammar (`parseWire`), and
bincode's fixed-width little-endian layout (`binWire` / `parseBin`).  The driver compares the implementation's ACTUAL
text and bytes with the printers' output for the mirror model's wire value (`ser … js`, `ser … bin`), reads the
implementation's text / bytes with the modelled readers before judging them, and checks every bincode stream and every
canonical JSON text it feeds to a deserializer against the wire value the harness states for it. -/

open PetgraphModel.SerdeText PetgraphModel.SerdeSpec PetgraphModel.SerdeCheck

/-- **JSON text round trip**: the reader inverts the printer, for EVERY wire value (any numbers, any length, unknown
`edge_property` tags included). -/
theorem C17_json_roundtrip (w : Wire) : parseWire (printWire w) = some w := parseWire_printWire w

/-- hence two different wire values never share a JSON text: comparing texts is comparing wire values. -/
theorem C17_json_print_injective (w w' : Wire) (h : printWire w = printWire w') : w = w' := printWire_injective w w' h

example : printWire { nodes := [1, -2, 30], holes := [1], prop := some true, edges := [some (0, 2, 5), none] } =
    "{\"nodes\":[1,-2,30],\"node_holes\":[1],\"edge_property\":\"directed\",\"edges\":[[0,2,5],null]}".toList := by decide

/-- **bincode round trip**: for an index type of `iw` bytes the byte reader inverts the byte printer on every wire
value whose numbers fit their fields (`binFits`: weights in `i32`, indices below `256^iw`, lengths below `2^64`; checked
by the driver at run time on every stream it compares); trailing bytes are left untouched. -/
theorem C17_bincode_roundtrip (iw : Nat) (w : Wire) (hf : binFits iw w = true) (rest : List Nat) :
    parseBin iw (binWire iw w ++ rest) = some (w, rest) := parseBin_binWire iw w hf rest

theorem C17_bincode_injective (iw : Nat) (w w' : Wire) (hf : binFits iw w = true) (hf' : binFits iw w' = true)
    (h : binWire iw w = binWire iw w') : w = w' := binWire_injective iw w w' hf hf' h

/-- non-vacuity: a stream with a negative weight, a hole and a vacant edge fits `u8` indices; its bytes -/
example : binFits 1 { nodes := [1, -2], holes := [1], prop := some false, edges := [some (0, 2, -6), none] } = true ∧
    binWire 1 { nodes := [1, -2], holes := [1], prop := some false, edges := [some (0, 2, -6), none] } =
      [2, 0, 0, 0, 0, 0, 0, 0, 1, 0, 0, 0, 254, 255, 255, 255, 1, 0, 0, 0, 0, 0, 0, 0, 1, 0, 0, 0, 0,
       2, 0, 0, 0, 0, 0, 0, 0, 1, 0, 2, 250, 255, 255, 255, 0] := by decide

/-- the range hypothesis cannot be dropped: index `256` does not fit one byte, and is read back as `0` -/
theorem C17_bincode_needs_fit :
    parseBin 1 (binWire 1 { nodes := [], holes := [256], prop := some true, edges := [] }) =
      some ({ nodes := [], holes := [0], prop := some true, edges := [] }, []) := by decide

/-! ### wave 4 (b): soundness of the spec-level judges

`Spec/Serde.lean` / `Spec/SerdeCheck.lean` are executable: `wireValid` ("this is the stream of a valid graph"),
`absWire` (the graph a stream denotes), `obsConsistent` (the consistency guarantees visible in an observation),
`obsMatches` / `judgeObs` (the observation shows exactly this abstract graph), `judgeSer`, `judgeRoundTrip`.  Each is
proved sound w.r.t. a declarative statement: `WireOK`, `ObsOK`, `MapObsOK`, `List.Perm` (equality of multisets). -/

/-- well-formed stream of a graph of the kind, declaratively: the stream lists the `Somes` and `Holes` of a sequence of
node slots within the index type, every edge joins present slots, the edge property is the target's, all required
fields arrive; for `Graph` / `GraphMap` no vacancy at all -/
abbrev WireOK := SerdeProofs.WireOK
/-- the consistency guarantees of `Graph` / `StableGraph` visible in an observation, declaratively -/
abbrev ObsOK := SerdeProofs.ObsOK
abbrev MapObsOK := SerdeProofs.MapObsOK

/-- the multiset comparison all judges are built from is equality up to order -/
theorem C17_sameMultiset_iff_perm {α} [BEq α] [LawfulBEq α] (a b : List α) : sameMultiset a b = true ↔ a.Perm b :=
  SerdeProofs.sameMultiset_iff_perm a b

/-- **`wireValid` is sound**. -/
theorem C17_wireValid_sound (kind : Kind) (END : Nat) (directed : Bool) (order : List Field) (w : Wire)
    (h : wireValid kind END directed order w = true) : WireOK kind END directed order w :=
  SerdeProofs.wireValid_sound kind END directed order w h

/-- **`wireValid` and `absWire` are sound against the mirror model, `StableGraph`**: a stream the judge calls valid,
below the capacity of the index type (`wireCapB`), IS loaded — as a consistent graph whose live nodes and live edges,
with indices, weights and endpoints, are exactly the abstract graph `absWire` assigns to the stream.  So the verdict
"a valid stream was refused" is never raised against an implementation that agrees with the mirror model (at capacity
`count = END` the code refuses: open finding D20). -/
theorem C17_wireValid_loads_stable (END : Nat) (directed : Bool) (order : List Field) (w : Wire)
    (hv : wireValid .stable END directed order w = true) (hcap : wireCapB END order w = true) :
    ∃ s, deStable END directed order w = .ok s ∧ StableInv s ∧
      liveNodes s.g = (absWire .stable END directed order w).nodes ∧
      liveEdges s.g = (absWire .stable END directed order w).edges := by
  simp only [wireCapB, Bool.and_eq_true, decide_eq_true_eq] at hcap
  exact SerdeProofs.wireValid_loads_stable END directed order w hv hcap.1 hcap.2

/-- the same for `Graph`. -/
theorem C17_wireValid_loads_graph (END : Nat) (directed : Bool) (order : List Field) (w : Wire)
    (hv : wireValid .graph END directed order w = true) (hcap : wireCapB END order w = true) :
    ∃ g, deGraph END directed order w = .ok g ∧ GraphInv g ∧
      liveNodes g = (absWire .graph END directed order w).nodes ∧
      liveEdges g = (absWire .graph END directed order w).edges := by
  simp only [wireCapB, Bool.and_eq_true, decide_eq_true_eq] at hcap
  exact SerdeProofs.wireValid_loads_graph END directed order w hv (by omega) hcap.2

/-- the same for `GraphMap` (through `Graph<_,_,_,u32>` and `from_graph`): the loaded map has exactly the node values —
in first-occurrence order — and the edge map — one entry per canonical key in first-occurrence order, with the LAST
weight — that `absWire` assigns to the stream (`mapOfGraph`). -/
theorem C17_wireValid_loads_map (directed : Bool) (order : List Field) (w : Wire)
    (hv : wireValid .map 4294967295 directed order w = true) (hcap : wireCapB 4294967295 order w = true) :
    ∃ m, deMap directed order w = .ok m ∧ m.directed = directed ∧
      m.nodes.map (·.1) = (absWire .map 4294967295 directed order w).mnodes ∧
      m.edges = (absWire .map 4294967295 directed order w).medges := by
  simp only [wireCapB, Bool.and_eq_true, decide_eq_true_eq] at hcap
  exact SerdeProofs.wireValid_loads_map directed order w hv (by omega) hcap.2

/-- non-vacuity, `GraphMap`: duplicate node values and parallel edges in the stream are merged -/
example : wireValid .map 4294967295 false [.n, .p, .e]
      { nodes := [7, 3, 7], holes := [], prop := some false, edges := [some (0, 1, 5), some (1, 2, 6)] } = true ∧
    (absWire .map 4294967295 false [.n, .p, .e]
      { nodes := [7, 3, 7], holes := [], prop := some false, edges := [some (0, 1, 5), some (1, 2, 6)] }).medges =
      [((3, 7), 6)] := by decide

/-- non-vacuity: a stream with a hole, a vacant edge, a self loop and parallel edges, fields out of order -/
example : wireValid .stable 255 true [.p, .e, .h, .n]
      { nodes := [1, 2, 3], holes := [1], prop := some true, edges := [some (0, 2, 5), none, some (2, 2, 6), some (0, 2, 7)] } = true ∧
    wireCapB 255 [.p, .e, .h, .n]
      { nodes := [1, 2, 3], holes := [1], prop := some true, edges := [some (0, 2, 5), none, some (2, 2, 6), some (0, 2, 7)] } = true := by
  decide

/-- **`obsConsistent` is sound**: an observation it accepts satisfies every consistency guarantee of the type. -/
theorem C17_obsConsistent_sound (kind : Kind) (END : Nat) (directed : Bool) (o : Obs)
    (h : obsConsistent kind END directed o = none) : ObsOK kind END directed o :=
  SerdeProofs.obsConsistent_sound kind END directed o h

/-- **the observation judge is sound**: what it accepts is consistent and shows exactly the abstract graph — the same
(index, weight) nodes and (index, source, target, weight) edges (only (source, target, weight) where the documentation
of `Graph::remove_node` leaves the edge ids open). -/
theorem C17_judgeObs_sound (a a' : AGraph) (o : Obs) (h : judgeObs a o = .ok a') :
    ObsOK a.kind a.END a.directed o ∧ o.nodes.Perm a.nodes ∧
    (a.looseEdgeIds = false → o.edges.Perm a.edges) ∧
    (a.looseEdgeIds = true →
      (o.edges.map fun (_, s, t, w) => (s, t, w)).Perm (a.edges.map fun (_, s, t, w) => (s, t, w))) ∧
    a' = { a with edges := o.edges, looseEdgeIds := false } :=
  SerdeProofs.judgeObs_sound a a' o h

/-- non-vacuity: the observation of an undirected `StableGraph` with a vacancy, a self loop and parallel edges is
accepted against the abstract graph it shows; one with a wrong `node_bound` is not -/
example :
    let a : AGraph := { kind := .stable, END := 255, directed := false, nodes := [(0, 5), (2, 7)],
                        edges := [(0, 0, 2, 1), (1, 2, 0, 1), (3, 2, 2, 4)] }
    let o : Obs := { nc := 2, ec := 3, nb := 3, eb := 4, nodes := [(0, 5), (2, 7)],
                     edges := [(0, 0, 2, 1), (1, 2, 0, 1), (3, 2, 2, 4)],
                     adj := [(0, [(1, 0, 2), (0, 0, 2)], [(0, 2, 0), (1, 2, 0)], [2, 2]),
                             (2, [(3, 2, 2), (1, 2, 0), (0, 2, 0)], [(0, 0, 2), (3, 2, 2), (1, 0, 2)], [2, 0, 0])] }
    (match judgeObs a o with | .ok _ => true | .error _ => false) = true ∧
    (match judgeObs a { o with nb := 2 } with | .ok _ => true | .error _ => false) = false := by decide

theorem C17_mapObsConsistent_sound (directed : Bool) (o : MapObs) (h : mapObsConsistent directed o = none) :
    MapObsOK directed o := SerdeProofs.mapObsConsistent_sound directed o h

theorem C17_judgeMapObs_sound (a a' : AGraph) (o : MapObs) (h : judgeMapObs a o = .ok a') :
    MapObsOK a.directed o ∧ o.nodes.Perm a.mnodes ∧ o.edges.Perm a.medges ∧ a' = a :=
  SerdeProofs.judgeMapObs_sound a a' o h

/-- **the round-trip judge decides exactly the property's clause**: "same node and edge indices, weights, direction". -/
theorem C17_judgeRoundTrip_sound (src a' : AGraph) (directed : Bool) :
    judgeRoundTrip src a' directed = true ↔
      (src.nodes.Perm a'.nodes ∧ src.edges.Perm a'.edges ∧ src.directed = directed) :=
  ⟨SerdeProofs.judgeRoundTrip_sound src a' directed, SerdeProofs.judgeRoundTrip_complete src a' directed⟩

/-- **the serialization judge is sound**: a stream it accepts is a well-formed stream of the graph's own type and
denotes exactly the abstract graph. -/
theorem C17_judgeSer_sound (spec : AGraph) (w : Wire) (h : judgeSer spec w = none) :
    WireOK (if spec.kind == .map then Kind.graph else spec.kind) spec.END spec.directed [.n, .h, .p, .e] w ∧
    (spec.kind ≠ .map → (wireNodes w).Perm spec.nodes ∧ (wireEdges w).Perm spec.edges) ∧
    (spec.kind = .map →
      (mapOfGraph spec.directed (wireNodes w) (wireEdges w)).1.Perm spec.mnodes ∧
      (mapOfGraph spec.directed (wireNodes w) (wireEdges w)).2.Perm spec.medges) :=
  SerdeProofs.judgeSer_sound spec w h

/-- **end to end**: when the driver accepts the observation of a `StableGraph` loaded from a valid stream below
capacity, the observation is consistent and shows — index for index — the live nodes and edges of the graph the mirror
model loads from that stream (which satisfies `StableInv`). -/
theorem C17_accepted_load_is_the_model_graph (END : Nat) (directed : Bool) (order : List Field) (w : Wire)
    (hv : wireValid .stable END directed order w = true) (hcap : wireCapB END order w = true)
    (o : Obs) (a' : AGraph) (hj : judgeObs (absWire .stable END directed order w) o = .ok a') :
    ∃ s, deStable END directed order w = .ok s ∧ StableInv s ∧ ObsOK .stable END directed o ∧
      o.nodes.Perm (liveNodes s.g) ∧ o.edges.Perm (liveEdges s.g) := by
  obtain ⟨s, h1, h2, h3, h4⟩ := C17_wireValid_loads_stable END directed order w hv hcap
  obtain ⟨k1, k2, k3, _, _⟩ := C17_judgeObs_sound _ _ _ hj
  exact ⟨s, h1, h2, k1, by rw [h3]; exact k2, by rw [h4]; exact k3 rfl⟩

/-- **the observation judge raises no false alarm**: the observation of EVERY mirror-model `StableGraph` that satisfies
`StableInv` — in particular of every loaded one and of everything a further call history makes of it — is accepted by the
judge against the abstract graph the state denotes (`absOfRaw`: its live nodes and edges).  So a SPECFAIL of the
observation judge can only come from an implementation answer that differs from the mirror model's. -/
theorem C17_judgeObs_no_false_alarm_stable (s : Stable) (hI : StableInv s) (o : Obs) (h : s.obs = .ok o) :
    ∃ a', judgeObs (SerdeProofs.absOfRaw .stable s.g) o = .ok a' :=
  SerdeProofs.judgeObs_of_stableInv s hI o h

/-- the same for `Graph` (compact indices included). -/
theorem C17_judgeObs_no_false_alarm_graph (g : Raw) (hI : GraphInv g) (o : Obs) (h : g.obs = .ok o) :
    ∃ a', judgeObs (SerdeProofs.absOfRaw .graph g) o = .ok a' :=
  SerdeProofs.judgeObs_of_graphInv g hI o h

/-- on a consistent structure the iterators of a live node return, up to order, exactly the incident edges and
neighbours the judge expects (`expectedOut` / `expectedIn` / `expectedNbrs` of the live edge list), directed and
undirected, self loops and parallel edges included. -/
theorem C17_node_iterators_expected (g : Raw) (hI : SerdeProofs.RawInv g) (i : Nat) (nd : NodeSlot)
    (hi : g.nodes[i]? = some nd) (hl : nd.w.isSome = true) :
    ∃ o n u, g.edgesDirected i true = .ok o ∧ g.edgesDirected i false = .ok n ∧ g.neighborsUndirected i = .ok u ∧
      o.Perm (expectedOut g.directed (liveEdges g) i) ∧ n.Perm (expectedIn g.directed (liveEdges g) i) ∧
      u.Perm (expectedNbrs (liveEdges g) i) :=
  SerdeProofs.node_iterators_expected g hI i nd hi hl

/-- every loaded `StableGraph` can be observed and its observation is accepted (for EVERY wire value that loads) -/
theorem C17_loaded_observation_accepted (END : Nat) (directed : Bool) (order : List Field) (w : Wire) (s : Stable)
    (h : deStable END directed order w = .ok s) :
    ∃ o a', s.obs = .ok o ∧ judgeObs (SerdeProofs.absOfRaw .stable s.g) o = .ok a' := by
  obtain ⟨o, ho⟩ := (C17_loaded_observable END directed order w).1 s h
  obtain ⟨a', ha'⟩ := C17_judgeObs_no_false_alarm_stable s (C17_de_inv_stable END directed order w s h).1 o ho
  exact ⟨o, a', ho, ha'⟩

/-! ### wave 4 (c): run-time checks of the hypotheses

Every hypothesis of the round-trip / loading theorems that concerns the concrete case has an executable Boolean in
`Spec/SerdeCheck.lean`; the driver evaluates it on every line the theorem is used for (`ser`: the invariant of the
state being serialized; `de`: `wireValid`, `wireCapB`, for a round trip `fullOrderB`; `ser … bin`: `binFits`), and these
theorems turn `true` into the hypothesis. -/

theorem C17_stableInv_check (s : Stable) (h : stableInvB s = true) : StableInv s := SerdeProofs.stableInvB_sound s h

theorem C17_graphInv_check (g : Raw) (h : graphInvB g = true) : GraphInv g := SerdeProofs.graphInvB_sound g h

/-- the hypotheses of `C17_roundtrip_map` -/
theorem C17_mapWf_check (m : GMap) (h : mapWfB m = true) :
    (∀ a b w, ((a, b), w) ∈ m.edges → (m.nodes.map (·.1)).contains a ∧ (m.nodes.map (·.1)).contains b) ∧
    (m.nodes.map (·.1)).Nodup ∧ (m.edges.map (·.1)).Nodup ∧
    (∀ a b w, ((a, b), w) ∈ m.edges → m.directed = true ∨ a ≤ b) := SerdeProofs.mapWfB_sound m h

theorem C17_fullOrder_check (order : List Field) (h : fullOrderB order = true) : FullOrder order :=
  SerdeProofs.fullOrderB_sound order h

theorem C17_graphOrder_check (order : List Field) (h : graphOrderB order = true) :
    Field.n ∈ order ∧ Field.p ∈ order ∧ Field.e ∈ order := SerdeProofs.graphOrderB_sound order h

theorem C17_stableCap_check (s : Stable) (h : stableCapB s = true) : s.nodeBound < s.g.END ∧ s.edgeBound < s.g.END := by
  simpa [stableCapB] using h

theorem C17_graphCap_check (g : Raw) (h : graphCapB g = true) : g.nodes.length < g.END ∧ g.edges.length < g.END := by
  simpa [graphCapB] using h

theorem C17_mapCap_check (m : GMap) (h : mapCapB m = true) :
    m.nodes.length < 4294967295 ∧ m.edges.length < 4294967295 := by
  simpa [mapCapB] using h

theorem C17_wireCap_check (END : Nat) (order : List Field) (w : Wire) (h : wireCapB END order w = true) :
    w.nodes.length + (effWire order w).holes.length < END ∧ w.edges.length < END := by
  simpa [wireCapB] using h

/-- the hypotheses `hvN`, `hvE` of `C17_crossload_stable_to_graph` -/
theorem C17_noVacancy_check (s : Stable) (h : noVacancyB s = true) :
    (∀ n, n ∈ s.g.nodes.take s.nodeBound → n.w.isSome = true) ∧
    (∀ e, e ∈ s.g.edges.take s.edgeBound → e.w.isSome = true) := by
  simpa [noVacancyB] using h

/-- non-vacuity of the checks: the state with two node vacancies of `C17_roundtrip_free_list_order_witness` passes -/
example : stableInvB { g := { END := 255, directed := true,
                              nodes := [⟨none, 1, 255⟩, ⟨none, 255, 0⟩, ⟨some 12, 255, 255⟩], edges := [] },
                       nodeCount := 1, edgeCount := 0, freeNode := 0, freeEdge := 255 } = true := by decide

/-- … and the checks can fail: a back pointer of the free node list is wrong -/
example : stableInvB { g := { END := 255, directed := true,
                              nodes := [⟨none, 1, 255⟩, ⟨none, 255, 7⟩, ⟨some 12, 255, 255⟩], edges := [] },
                       nodeCount := 1, edgeCount := 0, freeNode := 0, freeEdge := 255 } = false := by decide

/-! ### wave 4 (d): WHAT a round trip preserves — exactly the abstract indexed graph

`viewRaw g : IView` = edge type, the live node indices with weights, the live edge indices with source, target and
weight, `node_bound`, `edge_bound`.  For a `GraphMap`, `viewMap m : MView` = edge type, the node keys IN ORDER, the edge
map IN ORDER with weights.  For each of the three types:

* *preserved*: the loaded value has the same view (and index type, and counts); it has no slot beyond the bounds; it
  serializes to the very same stream; it is a fixed point — loading its stream in any field order returns the very same
  value, pointer for pointer;
* *nothing else*: the stream is a function of the view, so two values with the same view have the identical stream and
  the identical loaded value.  Whatever distinguishes two values with the same view — adjacency-list order, free-list
  order (hence which index the next `add_node` / `add_edge` hands out), vacancies beyond the bounds, the order inside a
  `GraphMap` adjacency vector — is NOT preserved (witnesses below), it is replaced by the canonical choice that
  `C17_de_lists_exact` / `adjFrom` describe. -/

abbrev IView := SerdeProofs.IView
abbrev viewRaw := SerdeProofs.viewRaw
abbrev MView := SerdeProofs.MView
abbrev viewMap := SerdeProofs.viewMap

theorem C17_roundtrip_preserved_stable (s : Stable) (hI : StableInv s) (order : List Field) (ho : FullOrder order)
    (hcapN : s.nodeBound < s.g.END) (hcapE : s.edgeBound < s.g.END) :
    ∃ w s', serStable s = some w ∧ deStable s.g.END s.g.directed order w = .ok s' ∧
      StableInv s' ∧ viewRaw s'.g = viewRaw s.g ∧ s'.g.END = s.g.END ∧
      s'.nodeCount = s.nodeCount ∧ s'.edgeCount = s.edgeCount ∧
      s'.g.nodes.length = s.nodeBound ∧ s'.g.edges.length = s.edgeBound ∧
      serStable s' = some w ∧
      (∀ order', FullOrder order' → deStable s'.g.END s'.g.directed order' w = .ok s') :=
  SerdeProofs.roundtrip_stable_preserved s hI order ho hcapN hcapE

/-- non-vacuity: the `StableGraph` with two node vacancies of `C17_roundtrip_free_list_order_witness` satisfies the
hypotheses (as the driver evaluates them) -/
example :
    let s : Stable := { g := { END := 255, directed := true,
                               nodes := [⟨none, 1, 255⟩, ⟨none, 255, 0⟩, ⟨some 12, 255, 255⟩], edges := [] },
                        nodeCount := 1, edgeCount := 0, freeNode := 0, freeEdge := 255 }
    stableInvB s = true ∧ stableCapB s = true ∧ fullOrderB [.p, .e, .h, .n] = true := by decide

theorem C17_roundtrip_only_view_stable (s1 s2 : Stable) (h1 : StableInv s1) (h2 : StableInv s2)
    (hE : s1.g.END = s2.g.END) (h : viewRaw s1.g = viewRaw s2.g) (order : List Field) :
    serStable s1 = serStable s2 ∧
    (serStable s1).map (deStable s1.g.END s1.g.directed order) = (serStable s2).map (deStable s2.g.END s2.g.directed order) :=
  SerdeProofs.roundtrip_stable_only_view s1 s2 h1 h2 hE h order

theorem C17_roundtrip_preserved_graph (g : Raw) (hI : GraphInv g) (order : List Field)
    (ho : Field.n ∈ order ∧ Field.p ∈ order ∧ Field.e ∈ order)
    (hcapN : g.nodes.length < g.END) (hcapE : g.edges.length < g.END) :
    ∃ g', deGraph g.END g.directed order (serGraph g) = .ok g' ∧
      GraphInv g' ∧ viewRaw g' = viewRaw g ∧ g'.END = g.END ∧
      serGraph g' = serGraph g ∧
      (∀ order', (Field.n ∈ order' ∧ Field.p ∈ order' ∧ Field.e ∈ order') →
        deGraph g'.END g'.directed order' (serGraph g') = .ok g') :=
  SerdeProofs.roundtrip_graph_preserved g hI order ho hcapN hcapE

theorem C17_roundtrip_only_view_graph (g1 g2 : Raw) (h1 : GraphInv g1) (h2 : GraphInv g2) (hE : g1.END = g2.END)
    (h : viewRaw g1 = viewRaw g2) (order : List Field) :
    serGraph g1 = serGraph g2 ∧
    deGraph g1.END g1.directed order (serGraph g1) = deGraph g2.END g2.directed order (serGraph g2) :=
  SerdeProofs.roundtrip_graph_only_view g1 g2 h1 h2 hE h order

theorem C17_roundtrip_preserved_map (m : GMap) (order : List Field)
    (ho : Field.n ∈ order ∧ Field.p ∈ order ∧ Field.e ∈ order)
    (hends : ∀ a b w, ((a, b), w) ∈ m.edges → (m.nodes.map (·.1)).contains a ∧ (m.nodes.map (·.1)).contains b)
    (hn : (m.nodes.map (·.1)).Nodup) (he : (m.edges.map (·.1)).Nodup)
    (hcanon : ∀ a b w, ((a, b), w) ∈ m.edges → m.directed = true ∨ a ≤ b)
    (hcapN : m.nodes.length < 4294967295) (hcapE : m.edges.length < 4294967295) :
    ∃ w m', serMap m = some w ∧ deMap m.directed order w = .ok m' ∧
      viewMap m' = viewMap m ∧ m'.nodes = (m.nodes.map (·.1)).map (fun k => (k, adjFrom m.edges k)) ∧
      serMap m' = some w ∧
      (∀ order', (Field.n ∈ order' ∧ Field.p ∈ order' ∧ Field.e ∈ order') → deMap m'.directed order' w = .ok m') := by
  obtain ⟨w, m', h1, h2, h3, h4, h5, h6⟩ := SerdeProofs.roundtrip_map_preserved m order ho
    (fun a b w hm => by simpa using hends a b w hm) hn he hcanon hcapN hcapE
  exact ⟨w, m', h1, h2, h3, by rw [h4]; rfl, h5, h6⟩

theorem C17_roundtrip_only_view_map (m1 m2 : GMap) (h : viewMap m1 = viewMap m2)
    (hends : ∀ a b w, ((a, b), w) ∈ m1.edges → (m1.nodes.map (·.1)).contains a ∧ (m1.nodes.map (·.1)).contains b)
    (hcapN : m1.nodes.length ≤ 4294967295) (hcapE : m1.edges.length ≤ 4294967295) (order : List Field) :
    serMap m1 = serMap m2 ∧
    (serMap m1).map (deMap m1.directed order) = (serMap m2).map (deMap m2.directed order) :=
  SerdeProofs.roundtrip_map_only_view m1 m2 h (fun a b w hm => by simpa using hends a b w hm) hcapN hcapE order

/-- **what a round trip preserves, as one statement**: for `StableGraph` (with any vacancies), `Graph` and `GraphMap`,
below the capacity of the index type, the round trip is the identity on the view, and is a function of the view. -/
theorem C17_roundtrip_preserves_exactly_the_view :
    (∀ (s : Stable), StableInv s → ∀ order, FullOrder order → s.nodeBound < s.g.END → s.edgeBound < s.g.END →
      ∃ w s', serStable s = some w ∧ deStable s.g.END s.g.directed order w = .ok s' ∧ viewRaw s'.g = viewRaw s.g ∧
        serStable s' = some w ∧
        ∀ s2, StableInv s2 → s2.g.END = s.g.END → viewRaw s2.g = viewRaw s.g → serStable s2 = some w) ∧
    (∀ (g : Raw), GraphInv g → ∀ order, (Field.n ∈ order ∧ Field.p ∈ order ∧ Field.e ∈ order) →
      g.nodes.length < g.END → g.edges.length < g.END →
      ∃ g', deGraph g.END g.directed order (serGraph g) = .ok g' ∧ viewRaw g' = viewRaw g ∧
        serGraph g' = serGraph g ∧
        ∀ g2, GraphInv g2 → viewRaw g2 = viewRaw g → serGraph g2 = serGraph g) ∧
    (∀ (m : GMap) order, (Field.n ∈ order ∧ Field.p ∈ order ∧ Field.e ∈ order) →
      (∀ a b w, ((a, b), w) ∈ m.edges → (m.nodes.map (·.1)).contains a ∧ (m.nodes.map (·.1)).contains b) →
      (m.nodes.map (·.1)).Nodup → (m.edges.map (·.1)).Nodup →
      (∀ a b w, ((a, b), w) ∈ m.edges → m.directed = true ∨ a ≤ b) →
      m.nodes.length < 4294967295 → m.edges.length < 4294967295 →
      ∃ w m', serMap m = some w ∧ deMap m.directed order w = .ok m' ∧ viewMap m' = viewMap m ∧
        serMap m' = some w ∧
        ∀ m2, viewMap m2 = viewMap m → serMap m2 = some w) := by
  refine ⟨?_, ?_, ?_⟩
  · intro s hI order ho hcN hcE
    obtain ⟨w, s', h1, h2, _, h4, _, _, _, _, _, h10, _⟩ := C17_roundtrip_preserved_stable s hI order ho hcN hcE
    exact ⟨w, s', h1, h2, h4, h10, fun s2 hI2 _ hv => by
      rw [SerdeProofs.serStable_of_view s2 s hI2 hI hv]; exact h1⟩
  · intro g hI order ho hcN hcE
    obtain ⟨g', h1, _, h3, _, h5, _⟩ := C17_roundtrip_preserved_graph g hI order ho hcN hcE
    exact ⟨g', h1, h3, h5, fun g2 hI2 hv => SerdeProofs.serGraph_of_view g2 g hI2 hI hv⟩
  · intro m order ho hends hn he hcanon hcN hcE
    obtain ⟨w, m', h1, h2, h3, _, h5, _⟩ := C17_roundtrip_preserved_map m order ho hends hn he hcanon hcN hcE
    refine ⟨w, m', h1, h2, h3, h5, fun m2 hv => ?_⟩
    rw [← h1]
    exact (SerdeProofs.serMap_of_view m m2 hv.symm (fun a b w hm => by simpa using hends a b w hm)
      (by omega) (by omega)).symm

/-- **per node, the same incident edges up to order**: two consistent graphs with the same order-independent
observables (`SameObs`: a graph and its round trip, by `C17_roundtrip_stable` / `C17_roundtrip_graph`) answer
`edges_directed(i, Outgoing)`, `edges_directed(i, Incoming)` and `neighbors_undirected(i)` of every live node `i`
with lists that are permutations of each other. -/
theorem C17_sameObs_iterators_perm (g g' : Raw) (hI : SerdeProofs.RawInv g) (hI' : SerdeProofs.RawInv g')
    (hEND : g'.END = g.END) (hd : g'.directed = g.directed) (O : SameObs g g') (i : Nat) (nd : NodeSlot)
    (hi : g.nodes[i]? = some nd) (hl : nd.w.isSome = true) :
    ∃ o n u o' n' u', g.edgesDirected i true = .ok o ∧ g.edgesDirected i false = .ok n ∧
      g.neighborsUndirected i = .ok u ∧ g'.edgesDirected i true = .ok o' ∧ g'.edgesDirected i false = .ok n' ∧
      g'.neighborsUndirected i = .ok u' ∧ o'.Perm o ∧ n'.Perm n ∧ u'.Perm u :=
  SerdeProofs.sameObs_iterators_perm g g' hI hI' hEND hd O i nd hi hl

/-- the `StableGraph` round trip, per node -/
theorem C17_roundtrip_iterators_perm (s : Stable) (hI : StableInv s) (order : List Field) (ho : FullOrder order)
    (hcapN : s.nodeBound < s.g.END) (hcapE : s.edgeBound < s.g.END) :
    ∃ w s', serStable s = some w ∧ deStable s.g.END s.g.directed order w = .ok s' ∧
      ∀ (i : Nat) (nd : NodeSlot), s.g.nodes[i]? = some nd → nd.w.isSome = true →
        ∃ o n u o' n' u', s.g.edgesDirected i true = .ok o ∧ s.g.edgesDirected i false = .ok n ∧
          s.g.neighborsUndirected i = .ok u ∧ s'.g.edgesDirected i true = .ok o' ∧
          s'.g.edgesDirected i false = .ok n' ∧ s'.g.neighborsUndirected i = .ok u' ∧
          o'.Perm o ∧ n'.Perm n ∧ u'.Perm u := by
  obtain ⟨w, s', h1, h2, D, O, _, _⟩ := roundtrip_stable_stable s hI order ho hcapN hcapE
  exact ⟨w, s', h1, h2, fun i nd hi hl =>
    SerdeProofs.sameObs_iterators_perm s.g s'.g hI.toRawInv D.inv.toRawInv D.hEND D.hdir O i nd hi hl⟩

/-- the ORDER inside an adjacency list is not preserved: `add_edge(0,1)` ×3 then `remove_edge(0)` (the last edge takes
index 0) leaves node 0 with the outgoing list `[0, 1]`; after the round trip it is `[1, 0]` (descending). -/
theorem C17_roundtrip_adjacency_order_witness :
    let g : Raw := { END := 255, directed := true,
                     nodes := [⟨some 10, 0, 255⟩, ⟨some 11, 255, 0⟩],
                     edges := [⟨some 7, 1, 1, 0, 1⟩, ⟨some 6, 255, 255, 0, 1⟩] }
    graphInvB g = true ∧
    g.edgesDirected 0 true = .ok [(0, 0, 1), (1, 0, 1)] ∧
    (match deGraph 255 true [.n, .h, .p, .e] (serGraph g) with
      | .ok g' => g'.edgesDirected 0 true
      | .error _ => .error .oob) = .ok [(1, 0, 1), (0, 0, 1)] := by
  decide

/-- neither is the order inside a `GraphMap` adjacency vector: after `add_edge(5,6)`, `add_edge(2,3)`, `add_edge(2,4)`,
`remove_edge(5,6)` the neighbours of `2` are `[3, 4]`; after the round trip `[4, 3]` (edge-map order). -/
theorem C17_roundtrip_map_neighbor_order_witness :
    let m : GMap := { directed := true,
                      nodes := [(5, []), (6, []), (2, [(3, true), (4, true)]), (3, [(2, false)]), (4, [(2, false)])],
                      edges := [((2, 4), 3), ((2, 3), 2)] }
    mapWfB m = true ∧ m.neighborsDirected 2 true = [3, 4] ∧
    (match (serMap m).map (deMap true [.n, .h, .p, .e]) with
      | some (.ok m') => m'.neighborsDirected 2 true
      | _ => []) = [4, 3] := by
  decide

/-- **which index a loaded `StableGraph` hands out next**: both free lists start at the LARGEST vacant index (`END`
when there is no vacancy). -/
theorem C17_loaded_free_heads (END : Nat) (directed : Bool) (order : List Field) (w : Wire) (s : Stable)
    (h : deStable END directed order w = .ok s) :
    s.freeNode = (vacantN s.g.nodes).head?.getD END ∧ s.freeEdge = (vacantE s.g.edges).head?.getD END ∧
    (∀ (j : Nat) (nd : NodeSlot), s.g.nodes[j]? = some nd → nd.w = none →
      ∃ m, (vacantN s.g.nodes).head? = some m ∧ j ≤ m) ∧
    (∀ (j : Nat) (e : EdgeSlot), s.g.edges[j]? = some e → e.w = none →
      ∃ m, (vacantE s.g.edges).head? = some m ∧ j ≤ m) :=
  SerdeProofs.loaded_free_heads h

/-- the next `add_node` on a loaded `StableGraph` returns the largest vacant node index; without a vacancy it appends
(and cannot fail: a loaded graph is below the capacity of its index type). -/
theorem C17_loaded_next_node_index (END : Nat) (directed : Bool) (order : List Field) (w : Wire) (s s1 : Stable)
    (r : Except OpErr Nat) (h : deStable END directed order w = .ok s) (x : Int) (hr : s.tryAddNode x = .ok (s1, r)) :
    (∃ i nd, r = .ok i ∧ s.g.nodes[i]? = some nd ∧ nd.w = none ∧
      ∀ (j : Nat) (nd' : NodeSlot), s.g.nodes[j]? = some nd' → nd'.w = none → j ≤ i) ∨
    ((∀ (j : Nat) (nd' : NodeSlot), s.g.nodes[j]? = some nd' → nd'.w ≠ none) ∧ r = .ok s.g.nodes.length) :=
  SerdeProofs.loaded_next_node_index h x hr

/-! ### wave 6: the rarely used whole-graph operations, on loaded graphs too

`reverse`, `clear_edges` and `clear` (run by the correspondence inside the histories before a serialization and on
every kind of graph that came out of a deserializer: "reverse then remove", "clear then reuse") keep the structural
invariant and change the abstract indexed graph exactly as documented; so every theorem above whose hypothesis is the
invariant — the round trips, the bridges to C01/C02 and the all-histories theorems behind them — applies after them. -/

theorem C17_reverse_involutive_stable (s : Stable) : s.reverse.reverse = s := SerdeProofs.stable_reverse_reverse s

theorem C17_reverse_involutive_graph (g : Raw) : g.reverse.reverse = g := SerdeProofs.raw_reverse_reverse g

/-- `StableGraph::reverse` (vacant slots skipped) keeps the full invariant, free lists included (cf. the fixed D3) -/
theorem C17_reverse_inv_stable (s : Stable) (h : StableInv s) : StableInv s.reverse := SerdeProofs.stableInv_reverse s h

theorem C17_reverse_inv_graph (g : Raw) (h : GraphInv g) : GraphInv g.reverse := SerdeProofs.graphInv_reverse g h

/-- … and the graph afterwards is the same indexed graph with the endpoints of every live edge exchanged: same node
indices and weights, same edge indices and weights, same vacancies and bounds. -/
theorem C17_reverse_view_stable (s : Stable) : viewRaw s.reverse.g = (viewRaw s.g).rev := SerdeProofs.viewRaw_stable_reverse s

theorem C17_reverse_view_graph (g : Raw) : viewRaw g.reverse = (viewRaw g).rev := SerdeProofs.viewRaw_raw_reverse g

/-- `StableGraph::clear_edges` ("without touching the free list") keeps the invariant -/
theorem C17_clear_edges_inv_stable (s : Stable) (h : StableInv s) : StableInv s.clearEdges :=
  SerdeProofs.stableInv_clearEdges s h

theorem C17_clear_edges_inv_graph (g : Raw) (h : GraphInv g) : GraphInv g.clearEdges := SerdeProofs.graphInv_clearEdges g h

/-- … every node index, weight and node vacancy stays, no edge and no edge vacancy is left -/
theorem C17_clear_edges_view_stable (s : Stable) :
    viewRaw s.clearEdges.g = { viewRaw s.g with edges := [], edgeBound := 0 } := SerdeProofs.viewRaw_stable_clearEdges s

theorem C17_clear_edges_view_graph (g : Raw) :
    viewRaw g.clearEdges = { viewRaw g with edges := [], edgeBound := 0 } := SerdeProofs.viewRaw_raw_clearEdges g

/-- `clear` leaves exactly the empty graph of the same index type and edge type, which satisfies the invariant:
"clear then reuse" is "use a new graph". -/
theorem C17_clear_is_empty (s : Stable) (g : Raw) :
    s.clear = Stable.empty s.g.END s.g.directed ∧ StableInv s.clear ∧
    g.clear = Raw.empty g.END g.directed ∧ GraphInv g.clear :=
  ⟨rfl, SerdeProofs.stableInv_empty _ _, rfl, SerdeProofs.graphInv_empty _ _⟩

/-- **a loaded `StableGraph`, reversed, serialized and loaded again** is the loaded graph with every edge reversed:
for EVERY wire value that loads, at every index width. -/
theorem C17_loaded_reverse_roundtrip (END : Nat) (directed : Bool) (order0 : List Field) (w0 : Wire) (s : Stable)
    (h : deStable END directed order0 w0 = .ok s) (order : List Field) (ho : FullOrder order) :
    ∃ w s', serStable s.reverse = some w ∧ deStable END directed order w = .ok s' ∧ StableInv s' ∧
      viewRaw s'.g = (viewRaw s.g).rev := by
  obtain ⟨hI, hE, hd, hn, he⟩ := C17_de_inv_stable END directed order0 w0 s h
  have hI' := SerdeProofs.stableInv_reverse s hI
  have hv := SerdeProofs.viewRaw_stable_reverse s
  have hnb : s.reverse.nodeBound = s.nodeBound := congrArg SerdeProofs.IView.nodeBound hv
  have heb : s.reverse.edgeBound = s.edgeBound := congrArg SerdeProofs.IView.edgeBound hv
  have hcn : s.reverse.nodeBound < s.reverse.g.END := by
    rw [hnb]; show s.nodeBound < s.g.END
    have := SerdeProofs.boundOf_le (fun (n : NodeSlot) => n.w.isSome) s.g.nodes
    unfold Stable.nodeBound; omega
  have hce : s.reverse.edgeBound < s.reverse.g.END := by
    rw [heb]; show s.edgeBound < s.g.END
    have := SerdeProofs.boundOf_le (fun (e : EdgeSlot) => e.w.isSome) s.g.edges
    unfold Stable.edgeBound; omega
  obtain ⟨w, s', h1, h2, h3, _, _⟩ := C17_roundtrip_preserves_exactly_the_view.1 s.reverse hI' order ho hcn hce
  have hE' : s.reverse.g.END = END := hE
  have hd' : s.reverse.g.directed = directed := hd
  rw [hE', hd'] at h2
  exact ⟨w, s', h1, h2, (C17_de_inv_stable END directed order w s' h2).1, h3.trans hv⟩

/-- the same after `clear_edges`: the nodes and node vacancies of the loaded graph, no edges -/
theorem C17_loaded_clear_edges_roundtrip (END : Nat) (directed : Bool) (order0 : List Field) (w0 : Wire) (s : Stable)
    (h : deStable END directed order0 w0 = .ok s) (order : List Field) (ho : FullOrder order) :
    ∃ w s', serStable s.clearEdges = some w ∧ deStable END directed order w = .ok s' ∧ StableInv s' ∧
      viewRaw s'.g = { viewRaw s.g with edges := [], edgeBound := 0 } := by
  obtain ⟨hI, hE, hd, hn, he⟩ := C17_de_inv_stable END directed order0 w0 s h
  have hI' := SerdeProofs.stableInv_clearEdges s hI
  have hv := SerdeProofs.viewRaw_stable_clearEdges s
  have hnb : s.clearEdges.nodeBound = s.nodeBound := congrArg SerdeProofs.IView.nodeBound hv
  have heb : s.clearEdges.edgeBound = 0 := congrArg SerdeProofs.IView.edgeBound hv
  have hcn : s.clearEdges.nodeBound < s.clearEdges.g.END := by
    rw [hnb]; show s.nodeBound < s.g.END
    have := SerdeProofs.boundOf_le (fun (n : NodeSlot) => n.w.isSome) s.g.nodes
    unfold Stable.nodeBound; omega
  have hce : s.clearEdges.edgeBound < s.clearEdges.g.END := by
    rw [heb]; show 0 < s.g.END; omega
  obtain ⟨w, s', h1, h2, h3, _, _⟩ := C17_roundtrip_preserves_exactly_the_view.1 s.clearEdges hI' order ho hcn hce
  have hE' : s.clearEdges.g.END = END := hE
  have hd' : s.clearEdges.g.directed = directed := hd
  rw [hE', hd'] at h2
  exact ⟨w, s', h1, h2, (C17_de_inv_stable END directed order w s' h2).1, h3.trans hv⟩

/-- a `StableGraph` with a node vacancy and an edge vacancy, built by the modelled calls -/
def w6Witness : Except Fault Stable := do
  let (s1, _) ← (Stable.empty 255 true).tryAddNode 5
  let (s2, _) ← s1.tryAddNode 6
  let (s3, _) ← s2.tryAddNode 7
  let (s4, _) ← s3.tryAddEdge 0 2 1
  let (s5, _) ← s4.tryAddEdge 2 2 3
  let (s6, _) ← s5.tryAddEdge 2 0 4
  let (s7, _) ← s6.removeNode 1
  let (s, _) ← s7.removeEdge 0
  pure s

/-- non-vacuity: that state satisfies the invariant, its reversal and its `clear_edges` do, the free lists are where
they were, the reversed graph's stream lists the live edges with their endpoints exchanged, and the cleared one keeps
the node vacancy. -/
example :
    (match w6Witness with
     | .ok s =>
       stableInvB s && stableInvB s.reverse && stableInvB s.clearEdges &&
       (s.freeNode == 1) && (s.reverse.freeNode == 1) && (s.freeEdge == 0) && (s.reverse.freeEdge == 0) &&
       ((serStable s).map Wire.edges == some [none, some (2, 2, 3), some (2, 0, 4)]) &&
       ((serStable s.reverse).map Wire.edges == some [none, some (2, 2, 3), some (0, 2, 4)]) &&
       ((serStable s.clearEdges).map (fun (w : Wire) => (w.nodes, w.holes, w.edges)) == some ([5, 7], [1], []))
     | .error _ => false) = true := by
  decide

end PetgraphModel.C17T
