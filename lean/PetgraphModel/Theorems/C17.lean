import PetgraphModel.Model.Serde
import PetgraphModel.Proofs.SerdeDe
import PetgraphModel.Proofs.SerdeTrip
import PetgraphModel.Proofs.SerdeExec
import PetgraphModel.Proofs.C17W2Map
import PetgraphModel.Proofs.C17W2MapC03
/-
C17 — serde round-trips graphs exactly and never yields a corrupt graph from bad input.

Only property theorems live here; helper lemmas are in `Proofs/Serde*.lean`.  Every theorem is about the mirror model
`Model/Serde.lean` (tied to `/repo/src/graph_impl/serialization.rs`, `stable_graph/serialization.rs`,
`stable_graph/mod.rs::link_edges`, `graph_impl/mod.rs::link_edges`, `serde_utils.rs`, `graphmap.rs` by the exact
correspondence run of `./check C17`).  `END` is `Ix::max()` (`u8`: 255), `order` the order in which the fields arrive.
-/
namespace PetgraphModel.C17T
open PetgraphModel PetgraphModel.Serde PetgraphModel.SerdeProofs

/-- the consistency guarantees of a `StableGraph`: every live edge joins live nodes; each live node's outgoing /
incoming list is a finite `next` chain of exactly its incident live edges, without repetition; the free edge list is
exactly the vacant edge slots; the free node list is a well-formed doubly linked list of exactly the vacant node
slots; `node_count`/`edge_count` are the numbers of live slots; lengths within the index type -/
abbrev StableInv := SerdeProofs.StableInv
/-- the same for `Graph` (no vacancies) -/
abbrev GraphInv := SerdeProofs.GraphInv

/-- **`de` is total**: for every wire value, every field order, every index width and both targets (and `GraphMap`),
deserialization never reaches a panicking index expression, an arithmetic underflow or a debug assertion
(D19 was such a panic; the repaired code has none). -/
theorem C17_de_no_panic (END : Nat) (directed : Bool) (order : List Field) (w : Wire) :
    deGraph END directed order w ≠ .error .panic ∧
    deStable END directed order w ≠ .error .panic ∧
    deMap directed order w ≠ .error .panic :=
  ⟨deGraph_no_panic END directed order w, deStable_no_panic END directed order w, deMap_no_panic directed order w⟩

/-- **`de w = ok g → Inv g`, `StableGraph`**, for EVERY wire value: whatever is accepted is a consistent
`StableGraph` of the requested index type and edge type (D18: an edge attached to a declared hole is therefore never
accepted). -/
theorem C17_de_inv_stable (END : Nat) (directed : Bool) (order : List Field) (w : Wire) (s : Stable)
    (h : deStable END directed order w = .ok s) :
    StableInv s ∧ s.g.END = END ∧ s.g.directed = directed ∧
      s.g.nodes.length < END ∧ s.g.edges.length < END :=
  let D := deStable_de h
  ⟨D.inv, D.hEND, D.hdir, D.lenN, D.lenE⟩

/-- **`de w = ok g → Inv g`, `Graph`**, for every wire value. -/
theorem C17_de_inv_graph (END : Nat) (directed : Bool) (order : List Field) (w : Wire) (g : Raw)
    (h : deGraph END directed order w = .ok g) :
    GraphInv g ∧ g.END = END ∧ g.directed = directed ∧ g.nodes.length < END ∧ g.edges.length < END :=
  let D := deGraph_de h
  ⟨D.inv, D.hEND, D.hdir, D.lenN, D.lenE⟩

/-- what `link_edges` builds, exactly: every adjacency list and both free lists are in descending index order
("most recent first"), so the first vacant index handed out after loading is the largest one. -/
theorem C17_de_lists_exact (END : Nat) (directed : Bool) (order : List Field) (w : Wire) (s : Stable)
    (h : deStable END directed order w = .ok s) :
    (∀ (i : Nat) (nd : NodeSlot), s.g.nodes[i]? = some nd → nd.w.isSome = true →
      Chain s.g.edges END 0 nd.n0 (incident s.g.edges 0 i) ∧ Chain s.g.edges END 1 nd.n1 (incident s.g.edges 1 i)) ∧
    Chain s.g.edges END 0 s.freeEdge (vacantE s.g.edges) ∧
    DChain s.g.nodes END END s.freeNode (vacantN s.g.nodes) :=
  let D := deStable_de h
  ⟨D.linked.heads, D.freeEdges, D.freeNodes⟩

/-- every loaded `StableGraph` passes the debug-build self check `check_free_lists` (run by `retain_nodes`,
`retain_edges`, …): free lists well formed, back pointers exact, cached counts equal to the slots not on a free list. -/
theorem C17_loaded_self_check (END : Nat) (directed : Bool) (order : List Field) (w : Wire) (s : Stable)
    (h : deStable END directed order w = .ok s) : s.checkFreeLists = .ok () :=
  (deStable_de h).checkFreeLists_ok

/-- every loaded graph can be observed: the `Edges` / `Neighbors` iterators of every live node terminate, never
meet a vacant slot (the debug assertions in the `StableGraph` iterators) and never run out of the arrays. -/
theorem C17_loaded_observable (END : Nat) (directed : Bool) (order : List Field) (w : Wire) :
    (∀ s, deStable END directed order w = .ok s → ∃ o, s.obs = .ok o) ∧
    (∀ g, deGraph END directed order w = .ok g → ∃ o, g.obs = .ok o) := by
  constructor
  · intro s h
    have D := deStable_de h
    obtain ⟨a, ha⟩ := D.linked.obs_ok D.hEND (by have := D.lenE; omega)
    refine ⟨{ nc := s.nodeCount, ec := s.edgeCount, nb := s.nodeBound, eb := s.edgeBound,
              nodes := liveNodes s.g, edges := liveEdges s.g, adj := a }, ?_⟩
    simp only [Stable.obs, ha]
  · intro g h
    have D := deGraph_de h
    obtain ⟨a, ha⟩ := D.linked.obs_ok D.hEND (by have := D.lenE; omega)
    refine ⟨{ nc := g.nodes.length, ec := g.edges.length, nb := g.nodes.length, eb := g.edges.length,
              nodes := liveNodes g, edges := liveEdges g, adj := a }, ?_⟩
    simp only [Raw.obs, ha]

/-! ### round trips

`SameObs g g'` = identical observables that do not depend on list order: the live nodes with their indices and
weights (`liveNodes`), the live edges with their indices, endpoints and weights (`liveEdges`), `node_bound`,
`edge_bound` and the numbers of live nodes and edges.  Together with the invariant of the loaded graph (each node's
edge lists are exactly its incident live edges) this determines every answer of the public API up to the order inside
an adjacency list.  `FullOrder order` = all four fields arrive, in any order.

The capacity caveat (D20, open): the code refuses `count >= Ix::max()` although a graph may hold `Ix::max()` nodes or
edges; the round-trip theorems therefore carry the hypothesis `bound < END`.  `C17_roundtrip_capacity_counterexample`
shows that the hypothesis cannot be dropped for the code as it is. -/

abbrev SameObs := SerdeProofs.SameObs
abbrev FullOrder := SerdeProofs.FullOrder

/-- serialization of a consistent `StableGraph` never trips the `collect_seq_with_length` debug assertion, and the
stream is the `Somes`/`Holes` of the node slots below `node_bound` plus the edge slots below `edge_bound`. -/
theorem C17_ser_total (s : Stable) (hI : StableInv s) :
    serStable s = some
      { nodes := somesW ((s.g.nodes.take s.nodeBound).map (fun (n : NodeSlot) => n.w)),
        holes := holesW 0 ((s.g.nodes.take s.nodeBound).map (fun (n : NodeSlot) => n.w)),
        prop := some s.g.directed,
        edges := (s.g.edges.take s.edgeBound).map liveSkel } :=
  serStable_eq s hI.nodeCount

/-- **round trip, `StableGraph`**: for every consistent `StableGraph` (any vacancies, also trailing ones) below the
capacity of its index type and every field order, `de (ser g) = ok g'` where `g'` is consistent, has the same index
type and edge type, the same live node and edge indices with the same weights and endpoints, the same vacancies up
to the same bounds, and the same counts. -/
theorem C17_roundtrip_stable (s : Stable) (hI : StableInv s) (order : List Field) (ho : FullOrder order)
    (hcapN : s.nodeBound < s.g.END) (hcapE : s.edgeBound < s.g.END) :
    ∃ w s', serStable s = some w ∧ deStable s.g.END s.g.directed order w = .ok s' ∧
      StableInv s' ∧ s'.g.END = s.g.END ∧ s'.g.directed = s.g.directed ∧ SameObs s.g s'.g ∧
      s'.nodeBound = s.nodeBound ∧ s'.edgeBound = s.edgeBound ∧
      s'.nodeCount = s.nodeCount ∧ s'.edgeCount = s.edgeCount := by
  obtain ⟨w, s', h1, h2, D, O, h3, h4⟩ := roundtrip_stable_stable s hI order ho hcapN hcapE
  exact ⟨w, s', h1, h2, D.inv, D.hEND, D.hdir, O, O.nodeBound, O.edgeBound, h3, h4⟩

/-- **round trip, `Graph`**: same indices, weights, endpoints, direction. -/
theorem C17_roundtrip_graph (g : Raw) (hI : GraphInv g) (order : List Field)
    (ho : Field.n ∈ order ∧ Field.p ∈ order ∧ Field.e ∈ order)
    (hcapN : g.nodes.length < g.END) (hcapE : g.edges.length < g.END) :
    ∃ g', deGraph g.END g.directed order (serGraph g) = .ok g' ∧
      GraphInv g' ∧ g'.END = g.END ∧ g'.directed = g.directed ∧ SameObs g g' := by
  obtain ⟨g', h1, D, O⟩ := roundtrip_graph_graph g hI order ho hcapN hcapE
  exact ⟨g', h1, D.inv, D.hEND, D.hdir, O⟩

/-- **cross-loading, any `Graph` stream as a `StableGraph`**, with the same indices. -/
theorem C17_crossload_graph_to_stable (g : Raw) (hI : GraphInv g) (order : List Field) (ho : FullOrder order)
    (hcapN : g.nodes.length < g.END) (hcapE : g.edges.length < g.END) :
    ∃ s', deStable g.END g.directed order (serGraph g) = .ok s' ∧
      StableInv s' ∧ s'.g.END = g.END ∧ s'.g.directed = g.directed ∧ SameObs g s'.g := by
  obtain ⟨s', h1, D, O⟩ := roundtrip_graph_stable g hI order ho hcapN hcapE
  exact ⟨s', h1, D.inv, D.hEND, D.hdir, O⟩

/-- **cross-loading, a vacancy-free `StableGraph` stream as a `Graph`**, with the same indices (vacancy-free = no
vacant node below `node_bound`, no vacant edge below `edge_bound`; trailing vacancies do not count). -/
theorem C17_crossload_stable_to_graph (s : Stable) (hI : StableInv s) (order : List Field)
    (ho : Field.n ∈ order ∧ Field.p ∈ order ∧ Field.e ∈ order)
    (hvN : ∀ n, n ∈ s.g.nodes.take s.nodeBound → n.w.isSome = true)
    (hvE : ∀ e, e ∈ s.g.edges.take s.edgeBound → e.w.isSome = true)
    (hcapN : s.nodeBound < s.g.END) (hcapE : s.edgeBound < s.g.END) :
    ∃ w g', serStable s = some w ∧ deGraph s.g.END s.g.directed order w = .ok g' ∧
      GraphInv g' ∧ g'.END = s.g.END ∧ g'.directed = s.g.directed ∧ SameObs s.g g' := by
  obtain ⟨w, g', h1, h2, D, O⟩ := roundtrip_stable_graph s hI order ho hvN hvE hcapN hcapE
  exact ⟨w, g', h1, h2, D.inv, D.hEND, D.hdir, O⟩

/-- a stream that declares a node hole or carries a vacant edge is never loaded as a `Graph` (it is an error,
whatever else the stream contains). -/
theorem C17_graph_rejects_vacancies (END : Nat) (directed : Bool) (order : List Field) (w : Wire)
    (h : (w.holes ≠ [] ∧ Field.h ∈ order) ∨ (none ∈ w.edges ∧ Field.e ∈ order)) :
    ∃ e, deGraph END directed order w = .error e :=
  deGraph_rejects_vacancies END directed order w h

/-- **completeness of `de`, `StableGraph`** (wire level): any stream that lists the `Somes` and `Holes` of a node
sequence `ws` shorter than `END`, has fewer than `END` edge entries and only edges between present nodes, with the
right `edge_property` and all fields in any order, is accepted, and the loaded graph has exactly those node slots
and edge slots. -/
theorem C17_de_complete_stable (END : Nat) (directed : Bool) (order : List Field) (ws : List (Option Int))
    (es : List (Option (Nat × Nat × Int))) (ho : FullOrder order) (hn : ws.length < END) (he : es.length < END)
    (hend : ∀ a b x, some (a, b, x) ∈ es → (∃ wa, ws[a]? = some (some wa)) ∧ (∃ wb, ws[b]? = some (some wb))) :
    ∃ s', deStable END directed order
        { nodes := somesW ws, holes := holesW 0 ws, prop := some directed, edges := es } = .ok s' ∧
      s'.g.nodes.map (fun (n : NodeSlot) => n.w) = ws ∧ s'.g.edges.map liveSkel = es :=
  deStable_complete END directed order ws es ho hn he hend

/-- **completeness of `de`, `Graph`** (wire level). -/
theorem C17_de_complete_graph (END : Nat) (directed : Bool) (order : List Field) (ns : List Int)
    (es : List (Nat × Nat × Int)) (ho : Field.n ∈ order ∧ Field.p ∈ order ∧ Field.e ∈ order)
    (hn : ns.length < END) (he : es.length < END)
    (hend : ∀ a b x, (a, b, x) ∈ es → a < ns.length ∧ b < ns.length) :
    ∃ g', deGraph END directed order { nodes := ns, holes := [], prop := some directed, edges := es.map some } = .ok g' ∧
      g'.nodes.map (fun (n : NodeSlot) => n.w) = ns.map some ∧ g'.edges.map liveSkel = es.map some :=
  deGraph_complete END directed order ns es ho hn he hend

/-- the round trip at full strength: up to the capacity of the index type (`END` nodes / edges, indices `0..END-1`).
False of the code as it is (D20). -/
def C17_roundtrip_capacity_statement : Prop :=
  ∀ (g : Raw), GraphInv g → g.nodes.length ≤ g.END → g.edges.length ≤ g.END →
    ∃ g', deGraph g.END g.directed [.n, .h, .p, .e] (serGraph g) = .ok g'

/-- D20 in the model: a `Graph` holding exactly `Ix::max()` nodes is refused with the invalid-length error, for
every index type. -/
theorem C17_roundtrip_capacity_partial (END : Nat) (directed : Bool) (w : Wire)
    (hp : w.prop = some directed) (hn : w.nodes.length = END) :
    fromDeserializedGraph END directed w = .error (.lenNode END END) := by
  unfold fromDeserializedGraph
  rw [if_neg (by simp [hp]), if_pos (by omega), hn]

/-- the witness: a (hypothetical 2-bit index type, `END = 3`) graph with three isolated nodes is a valid graph at
capacity, yet its own stream is refused — so `C17_roundtrip_capacity_statement` is false for the code as it is. -/
theorem C17_roundtrip_capacity_counterexample : ¬ C17_roundtrip_capacity_statement := by
  intro h
  let g : Raw := { END := 3, directed := true,
                   nodes := [⟨some 1, 3, 3⟩, ⟨some 2, 3, 3⟩, ⟨some 3, 3, 3⟩], edges := [] }
  have hI : GraphInv g := by
    refine { lenN := by decide, lenE := by decide, endpoints := ?_, out := ?_, inn := ?_, allNodes := ?_, allEdges := ?_ }
    · intro e s hs; simp [g] at hs
    · intro i nd hi _
      have hn0 : nd.n0 = 3 := by
        have : i < 3 := (List.getElem?_eq_some_iff.1 hi).1
        match i, this with
        | 0, _ => simp [g] at hi; subst hi; rfl
        | 1, _ => simp [g] at hi; subst hi; rfl
        | 2, _ => simp [g] at hi; subst hi; rfl
      refine ⟨[], hn0 ▸ .nil, List.nodup_nil, ?_⟩
      intro e; simp [g]
    · intro i nd hi _
      have hn1 : nd.n1 = 3 := by
        have : i < 3 := (List.getElem?_eq_some_iff.1 hi).1
        match i, this with
        | 0, _ => simp [g] at hi; subst hi; rfl
        | 1, _ => simp [g] at hi; subst hi; rfl
        | 2, _ => simp [g] at hi; subst hi; rfl
      refine ⟨[], hn1 ▸ .nil, List.nodup_nil, ?_⟩
      intro e; simp [g]
    · intro i nd hi
      have : i < 3 := (List.getElem?_eq_some_iff.1 hi).1
      match i, this with
      | 0, _ => simp [g] at hi; subst hi; rfl
      | 1, _ => simp [g] at hi; subst hi; rfl
      | 2, _ => simp [g] at hi; subst hi; rfl
    · intro e s hs; simp [g] at hs
  obtain ⟨g', hg'⟩ := h g hI (by decide) (by decide)
  have : (match deGraph g.END g.directed [.n, .h, .p, .e] (serGraph g) with | .ok _ => true | .error _ => false) = false := by decide
  rw [hg'] at this
  simp at this

/-- `GraphMap`: its serde impls go through `Graph<_,_,_,u32>` (`into_graph` / `from_graph`).  Full statement of the
round trip; open: it needs the `GraphMap` invariant of C03 (`into_graph` yields distinct node weights and no parallel
edges, `from_graph` of such a graph rebuilds the same map up to adjacency order). -/
def C17_roundtrip_map_statement : Prop :=
  ∀ (m : GMap), (∀ a b w, ((a, b), w) ∈ m.edges → (m.nodes.map (·.1)).contains a ∧ (m.nodes.map (·.1)).contains b) →
    (m.nodes.map (·.1)).Nodup → (m.edges.map (·.1)).Nodup →
    ∃ w m', serMap m = some w ∧ deMap m.directed [.n, .h, .p, .e] w = .ok m' ∧
      m'.nodes.map (·.1) = m.nodes.map (·.1) ∧ m'.edges = m.edges

/-- proved part: the stream of a `GraphMap` is the stream of its `into_graph`, and loading any stream as a
`GraphMap` is loading it as a `Graph<u32>` followed by `from_graph`, which never panics. -/
theorem C17_roundtrip_map_partial (m : GMap) (directed : Bool) (order : List Field) (w : Wire) :
    (∀ w', serMap m = some w' → ∃ g, m.intoGraph 4294967295 = some g ∧ w' = serGraph g) ∧
    (∀ m', deMap directed order w = .ok m' →
      ∃ g, deGraph 4294967295 directed order w = .ok g ∧ GraphInv g ∧ GMap.fromGraph g = some m') := by
  constructor
  · intro w' h
    unfold serMap at h
    cases hg : m.intoGraph 4294967295 with
    | none => simp [hg] at h
    | some g => simp [hg] at h; exact ⟨g, rfl, h.symm⟩
  · intro m' h
    unfold deMap at h
    cases hg : deGraph 4294967295 directed order w with
    | error e => simp [hg] at h
    | ok g =>
      simp only [hg] at h
      cases hm : GMap.fromGraph g with
      | none => simp [hm] at h
      | some m'' =>
        simp only [hm, Except.ok.injEq] at h
        subst h
        exact ⟨g, rfl, (deGraph_de hg).inv, hm⟩

/-! ### the `GraphMap` round trip (wave 2)

`C17_roundtrip_map_statement` is false as written, for two reasons that have nothing to do with the code:
it lets in maps no `GraphMap` can be (an undirected map whose edge key is not the canonical `edge_key`, `a ≤ b`), and it
has no capacity bound (D20 reaches `GraphMap` through `Graph<_,_,_,u32>`).  `C17_roundtrip_map` is the repaired
statement: the two missing hypotheses added, every field order, and the loaded map determined completely. -/

/-- the adjacency vector `from_graph` builds for node `k` out of an edge map: its incident edges in edge-map order,
`(b, Outgoing)` for an edge `(k, b)`, `(a, Incoming)` for an edge `(a, k)` with `a ≠ k` (a self-loop is listed once) -/
abbrev adjFrom := SerdeProofs.adjFrom
/-- a `GraphMap` state of the C03 model (`GM.State`: node values and weights `Nat`) as a `GraphMap` of the serde model -/
abbrev ofGM := SerdeProofs.ofGM

/-- `C17_roundtrip_map_statement` is false as written: an "undirected map" with the non-canonical key `(2, 1)`
satisfies its hypotheses, and is loaded back with the key `(1, 2)`.  (No `GraphMap` holds such a key: C03's invariant.) -/
theorem C17_roundtrip_map_statement_false_witness : ¬ C17_roundtrip_map_statement := by
  intro h
  obtain ⟨w, m', h1, h2, _, h4⟩ := h { directed := false, nodes := [(1, []), (2, [])], edges := [((2, 1), 5)] }
    (by intro a b w hm; simp at hm; obtain ⟨⟨rfl, rfl⟩, rfl⟩ := hm; decide) (by decide) (by decide)
  have e1 : serMap { directed := false, nodes := [(1, []), (2, [])], edges := [((2, 1), 5)] } =
      some { nodes := [1, 2], holes := [], prop := some false, edges := [some (1, 0, 5)] } := by decide
  rw [e1] at h1
  cases h1
  have e2 : (match deMap false [.n, .h, .p, .e]
      { nodes := [1, 2], holes := [], prop := some false, edges := [some (1, 0, 5)] } with
    | .ok m' => decide (m'.edges = [((1, 2), 5)])
    | .error _ => false) = true := by decide
  have h2' : deMap false [.n, .h, .p, .e]
      { nodes := [1, 2], holes := [], prop := some false, edges := [some (1, 0, 5)] } = .ok m' := h2
  rw [h2'] at e2
  simp only [decide_eq_true_eq] at e2
  rw [e2] at h4
  exact absurd h4 (by decide)

/-- **round trip, `GraphMap`** (the repaired `C17_roundtrip_map_statement`): for every map with duplicate-free node
keys, duplicate-free canonical edge keys (`a ≤ b` when undirected) whose edges join present nodes — what C03 proves of
every reachable `GraphMap` — below the capacity of `u32`, and every field order, `de (ser m) = ok m'` where `m'` has the
same edge type, the same nodes in the same order (the same `to_index`), the same edge map in the same order with the
same weights, and each adjacency vector is `adjFrom`: the node's incident edges in edge-map order. -/
theorem C17_roundtrip_map (m : GMap) (order : List Field)
    (ho : Field.n ∈ order ∧ Field.p ∈ order ∧ Field.e ∈ order)
    (hends : ∀ a b w, ((a, b), w) ∈ m.edges → (m.nodes.map (·.1)).contains a ∧ (m.nodes.map (·.1)).contains b)
    (hn : (m.nodes.map (·.1)).Nodup) (he : (m.edges.map (·.1)).Nodup)
    (hcanon : ∀ a b w, ((a, b), w) ∈ m.edges → m.directed = true ∨ a ≤ b)
    (hcapN : m.nodes.length < 4294967295) (hcapE : m.edges.length < 4294967295) :
    ∃ w m', serMap m = some w ∧ deMap m.directed order w = .ok m' ∧
      m'.directed = m.directed ∧ m'.nodes.map (·.1) = m.nodes.map (·.1) ∧ m'.edges = m.edges ∧
      m'.nodes = (m.nodes.map (·.1)).map (fun k => (k, adjFrom m.edges k)) := by
  obtain ⟨w, h1, h2⟩ := roundtrip_map m order ho
    (fun a b w hm => by simpa using hends a b w hm) hn he hcanon hcapN hcapE
  exact ⟨w, _, h1, h2, rfl, rebuildMap_keys m, rfl, rfl⟩

/-- the original statement with exactly the two missing hypotheses -/
theorem C17_roundtrip_map_repaired (m : GMap)
    (hends : ∀ a b w, ((a, b), w) ∈ m.edges → (m.nodes.map (·.1)).contains a ∧ (m.nodes.map (·.1)).contains b)
    (hn : (m.nodes.map (·.1)).Nodup) (he : (m.edges.map (·.1)).Nodup)
    (hcanon : ∀ a b w, ((a, b), w) ∈ m.edges → m.directed = true ∨ a ≤ b)
    (hcapN : m.nodes.length < 4294967295) (hcapE : m.edges.length < 4294967295) :
    ∃ w m', serMap m = some w ∧ deMap m.directed [.n, .h, .p, .e] w = .ok m' ∧
      m'.nodes.map (·.1) = m.nodes.map (·.1) ∧ m'.edges = m.edges := by
  obtain ⟨w, m', h1, h2, _, h4, h5, _⟩ := C17_roundtrip_map m [.n, .h, .p, .e] (by decide) hends hn he hcanon hcapN hcapE
  exact ⟨w, m', h1, h2, h4, h5⟩

/-- a loaded map is a fixed point: serializing what was loaded and loading it again gives the very same map, adjacency
vectors included (so one round trip normalises the adjacency order and every further one is the identity). -/
theorem C17_roundtrip_map_fixed_point (m : GMap) (order order' : List Field)
    (ho : Field.n ∈ order ∧ Field.p ∈ order ∧ Field.e ∈ order)
    (ho' : Field.n ∈ order' ∧ Field.p ∈ order' ∧ Field.e ∈ order')
    (hends : ∀ a b w, ((a, b), w) ∈ m.edges → (m.nodes.map (·.1)).contains a ∧ (m.nodes.map (·.1)).contains b)
    (hn : (m.nodes.map (·.1)).Nodup) (he : (m.edges.map (·.1)).Nodup)
    (hcanon : ∀ a b w, ((a, b), w) ∈ m.edges → m.directed = true ∨ a ≤ b)
    (hcapN : m.nodes.length < 4294967295) (hcapE : m.edges.length < 4294967295) :
    ∃ w m' w', serMap m = some w ∧ deMap m.directed order w = .ok m' ∧
      serMap m' = some w' ∧ deMap m'.directed order' w' = .ok m' := by
  have hends' : ∀ a b w, ((a, b), w) ∈ m.edges → a ∈ m.nodes.map (·.1) ∧ b ∈ m.nodes.map (·.1) :=
    fun a b w hm => by simpa using hends a b w hm
  obtain ⟨w, h1, h2⟩ := roundtrip_map m order ho hends' hn he hcanon hcapN hcapE
  have hk := rebuildMap_keys m
  obtain ⟨w', h3, h4⟩ := roundtrip_map (rebuildMap m) order' ho'
    (by rw [hk]; exact hends') (by rw [hk]; exact hn) he hcanon
    (by have := congrArg List.length hk; simp only [List.length_map] at this; omega) hcapE
  rw [rebuildMap_idem] at h4
  exact ⟨w, _, w', h1, h2, h3, h4⟩

/-- **round trip, `GraphMap`, for every state C03 reaches**: a `GraphMap` satisfying the C03 invariant (`C03T.Inv` =
`GMProofs.Inv`; by `C03_all_histories` every state reachable by a call history does), below the capacity of `u32`,
serializes, and its stream is loaded — in every field order — as exactly the map that `GraphMap::from_graph(m.into_graph())`
builds in the C03 model; that map satisfies the C03 invariant again and denotes the same abstract simple graph (same
nodes, same edges, same weights: `C03_into_from_graph`), with the same node and edge order. -/
theorem C17_roundtrip_map_c03 (s : GM.State) (hI : GMProofs.Inv s) (order : List Field)
    (ho : Field.n ∈ order ∧ Field.p ∈ order ∧ Field.e ∈ order)
    (hcapN : s.nodes.length < 4294967295) (hcapE : s.edges.length < 4294967295) :
    ∃ w s', serMap (ofGM s) = some w ∧ deMap s.directed order w = .ok (ofGM s') ∧
      GM.roundTrip s = some s' ∧ GMProofs.Inv s' ∧ GMProofs.abs s' = GMProofs.abs s ∧
      GM.nodesOf s' = GM.nodesOf s ∧ s'.edges = s.edges := by
  obtain ⟨hn, he, hgood⟩ := ofGM_wf s hI
  obtain ⟨w, h1, h2⟩ := roundtrip_map (ofGM s) order ho
    (fun a b w hm => ⟨(hgood a b w hm).1, (hgood a b w hm).2.1⟩) hn he
    (fun a b w hm => (hgood a b w hm).2.2)
    (by simpa [SerdeProofs.ofGM] using hcapN) (by simpa [SerdeProofs.ofGM] using hcapE)
  obtain ⟨s', h3, h4⟩ := rebuild_ofGM s hI
  obtain ⟨s'', h5, h6, h7⟩ := GMProofs.roundTrip_spec s hI
  rw [h3] at h5
  cases h5
  rw [h4] at h2
  have hk : (SerdeProofs.ofGM s').nodes.map (·.1) = (SerdeProofs.ofGM s).nodes.map (·.1) := by
    rw [← h4]; exact rebuildMap_keys _
  have hE : (SerdeProofs.ofGM s').edges = (SerdeProofs.ofGM s).edges := by rw [← h4]; rfl
  refine ⟨w, s', h1, h2, h3, h6, h7, ?_, ?_⟩
  · exact ofGM_nodesOf_inj hk
  · exact ofGM_edges_inj hE

/-- the same for every history: after any sequence of public `GraphMap` calls on a fresh map (C03's `run`), the state
round-trips through serde as above. -/
theorem C17_roundtrip_map_all_histories (directed : Bool) (ops : List GM.Op) (order : List Field)
    (ho : Field.n ∈ order ∧ Field.p ∈ order ∧ Field.e ∈ order) :
    let s := (GM.run (GM.State.empty directed) ops).1
    s.nodes.length < 4294967295 → s.edges.length < 4294967295 →
    ∃ w s', serMap (ofGM s) = some w ∧ deMap s.directed order w = .ok (ofGM s') ∧
      GM.roundTrip s = some s' ∧ GMProofs.Inv s' ∧ GMProofs.abs s' = GMProofs.abs s ∧
      GM.nodesOf s' = GM.nodesOf s ∧ s'.edges = s.edges := by
  intro s hcapN hcapE
  exact C17_roundtrip_map_c03 s (GMProofs.run_spec _ ops (GMProofs.inv_empty directed)).1 order ho hcapN hcapE

/-- D20 reaches `GraphMap`: a map holding exactly `u32::MAX` nodes serializes without panic, and its own stream is
refused, in every field order — so the capacity hypothesis of `C17_roundtrip_map` cannot be dropped for the code as
it is (`into_graph::<u32>()` allows `u32::MAX` nodes, `from_deserialized` refuses `>= u32::MAX`). -/
theorem C17_roundtrip_map_capacity (m : GMap) (order : List Field)
    (hends : ∀ a b w, ((a, b), w) ∈ m.edges → (m.nodes.map (·.1)).contains a ∧ (m.nodes.map (·.1)).contains b)
    (hN : m.nodes.length = 4294967295) (hE : m.edges.length ≤ 4294967295) :
    ∃ w, serMap m = some w ∧ ∃ e, deMap m.directed order w = .error e :=
  deMap_refuses_full m order (fun a b w hm => by simpa using hends a b w hm) hN hE

/-- non-vacuity: a directed map with reciprocal edges, a self-loop and a negative node value, adjacency vectors out of
canonical order, satisfies the hypotheses of `C17_roundtrip_map`; it is loaded with the adjacency vectors normalised. -/
example : (match (serMap { directed := true, nodes := [(1, [(2, false), (2, true)]), (2, [(1, true), (-3, true), (1, false)]),
                                                        (-3, [(2, false), (-3, true)])],
                           edges := [((2, 1), 5), ((1, 2), 6), ((-3, -3), 7), ((2, -3), 0)] }).map
            (deMap true [.e, .p, .n]) with
    | some (.ok m') => decide (m' = ⟨true,
        [(1, [(2, false), (2, true)]), (2, [(1, true), (1, false), (-3, true)]), (-3, [(-3, true), (2, false)])],
        [((2, 1), 5), ((1, 2), 6), ((-3, -3), 7), ((2, -3), 0)]⟩)
    | _ => false) = true := by decide

/-- a stream whose edge names a declared hole (the D18 witness) is refused -/
example : (match deStable 255 true [.n, .h, .p, .e]
    { nodes := [7], holes := [1], prop := some true, edges := [some (0, 1, 5)] } with
    | .error (.node 1 2) => true | _ => false) = true := by decide

/-- a hole beyond the available nodes (the D19 witness) is refused, not a panic -/
example : (match deStable 255 false [.n, .h, .p, .e]
    { nodes := [7], holes := [2, 1], prop := some false, edges := [] } with
    | .error (.hole 2) => true | _ => false) = true := by decide

/-- the hypotheses are satisfiable by a non-trivial stream: node vacancy, edge vacancy, self loop, parallel edges -/
example : (match deStable 255 true [.p, .e, .h, .n]
    { nodes := [1, 2, 3], holes := [1], prop := some true,
      edges := [some (0, 2, 5), none, some (2, 2, 6), some (0, 2, 7)] } with
    | .ok s => s.freeNode == 1 && s.freeEdge == 1 && s.nodeCount == 3 && s.edgeCount == 3 && s.g.nodes.length == 4
    | _ => false) = true := by decide

end PetgraphModel.C17T
