import PetgraphModel.Proofs.C16Judge
import PetgraphModel.Proofs.C16Accessors
import PetgraphModel.Proofs.C16Chk
import PetgraphModel.Proofs.C16PostOrder
import PetgraphModel.Proofs.C16Artic
import PetgraphModel.Proofs.C16Cut
import PetgraphModel.Driver.C16
import PetgraphModel.Proofs.C16W2Sf
import PetgraphModel.Proofs.C16W2Acc
import PetgraphModel.Proofs.C16W2Driver
import PetgraphModel.Proofs.C16W2ApMain
import PetgraphModel.Proofs.C16W4Checks
import PetgraphModel.Proofs.C16W4Judge
import PetgraphModel.Proofs.C16W4Model
import PetgraphModel.Proofs.C16W6
/-
C16 — dominators and articulation points match their path-based definitions.

Specification: `Spec/C16.lean` (`Walk`, `Dominates`, `IsIdom`, `numComponents`, `CutVertex`).

Part A (verified checkers): the per-run judges of `Driver/C16.lean` / `Oracle/C16.lean` accept an
implementation answer only if it satisfies the clause of the property it judges — for ALL graphs
and ALL answers; they are also complete (no false alarm), for every accessor, and conclusive: the
reachability oracle always returns with the fuel it is given (`C16_oracle_returns`), so the two judges
the driver runs accept an answer **iff** it is correct (`C16_judge_sf_iff`, `C16_judge_ap_iff`).
Part B: facts about the specification (dominance is decided by node removal, is antisymmetric; the
immediate dominator is unique and nothing lies between it and the node; the counting definition of
a cut vertex is the textbook "separates two other nodes").
Part C: the accessors of the model of `struct Dominators` are the closure / inverse of the idom map.
Part D: the mirror model of `simple_fast`: soundness half of the Cooper–Harvey–Kennedy fixed point
(`C16_simple_fast_partial`) and **full correctness** (`C16_simple_fast`: termination within the
model's fuel without panic, soundness and completeness; `C16_simple_fast_accessors`); the mirror
model of `articulation_points`: structural facts, no fault, and the full statement.
The two `…_statement` definitions kept from the first wave are false as written (they lack the
hypothesis `SuccBounded` — the view may not repeat a neighbour more often than the abstract graph has
edges —, `…_statement_false_witness`); the theorems prove the statements repaired by exactly that
hypothesis.
Part E (wave 4): run-time checks of the hypotheses — the Boolean checks the driver evaluates on every
`graph`, `sf` and `ap` line imply every hypothesis of the Part D theorems (`C16_*_check`), so the
full-correctness theorems hold for every case the driver judges (`C16_simple_fast_checked`,
`C16_articulation_checked`), and on such a case the judge accepts the model's own answer
(`C16_model_sf_accepted`, `C16_model_ap_accepted`).
Part F (wave 6, the corners): the lazy iterators `DominatorsIter` / `DominatedByIter` as state machines
(`Model/C16Iter.lean`) yield step by step exactly the collected lists of Part C, are fused, and the
overridden `size_hint` of `DominatedByIter` brackets what is still to come; ids that are not nodes
(beyond the bound, vacant, filtered out) have no entry and dominate nothing; dominators and cut vertices
depend on the node set and the adjacency relation only (so the abstract graphs the harness assigns to the
adaptors — every edge / self-loop met twice by `UndirectedAdaptor` — have the same answers); the witness of
open finding D23 as seen by `articulation_points`.
-/
namespace PetgraphModel.C16T
open PetgraphModel MGraph Oracle C16S C16O C16M C16P

/-! ## Part A — the judges are sound (and complete) -/

/-- the table the judge builds decides dominance and immediate dominance exactly -/
theorem C16_dom_table_decides (g : MGraph) (r : Nat) (T : DomTable) (h : domTable g r = some T) (a b : Nat) :
    (T.dom a b = true ↔ Reach g r b ∧ Dominates g r a b) ∧ (T.idom a b = true ↔ IsIdom g r a b) :=
  ⟨dom_iff (domTable_ok h) a b, idom_iff (domTable_ok h) a b⟩

/-- an accepted `dominators(b) = Some(o)`: `b` is reachable, `o` has no duplicates and is exactly
the set of nodes through which every walk from the root to `b` passes -/
theorem C16_judge_dominators_sound (g : MGraph) (r : Nat) (T : DomTable) (h : domTable g r = some T)
    (b : Nat) (o : List Nat) (hc : T.checkDominators b (some o) = true) :
    Reach g r b ∧ o.Nodup ∧ ∀ a, a ∈ o ↔ Dominates g r a b :=
  checkDominators_some (domTable_ok h) b o hc

/-- an accepted `dominators(b) = None`: `b` is not reachable from the root -/
theorem C16_judge_dominators_none_sound (g : MGraph) (r : Nat) (T : DomTable) (h : domTable g r = some T)
    (b : Nat) (hc : T.checkDominators b none = true) : ¬ Reach g r b :=
  checkDominators_none (domTable_ok h) b hc

theorem C16_judge_strict_sound (g : MGraph) (r : Nat) (T : DomTable) (h : domTable g r = some T)
    (b : Nat) (o : List Nat) (hc : T.checkStrict b (some o) = true) :
    Reach g r b ∧ o.Nodup ∧ ∀ a, a ∈ o ↔ StrictlyDominates g r a b :=
  checkStrict_some (domTable_ok h) b o hc

theorem C16_judge_strict_none_sound (g : MGraph) (r : Nat) (T : DomTable) (h : domTable g r = some T)
    (b : Nat) (hc : T.checkStrict b none = true) : ¬ Reach g r b :=
  checkStrict_none (domTable_ok h) b hc

/-- an accepted `immediate_dominator(b) = Some(a)`: `a` is the strict dominator closest to `b` -/
theorem C16_judge_idom_sound (g : MGraph) (r : Nat) (T : DomTable) (h : domTable g r = some T)
    (b a : Nat) (hc : T.checkIdom b (some a) = true) : IsIdom g r a b :=
  checkIdom_some (domTable_ok h) b a hc

/-- an accepted `immediate_dominator(b) = None`: `b` is the root or unreachable -/
theorem C16_judge_idom_none_sound (g : MGraph) (r : Nat) (T : DomTable) (h : domTable g r = some T)
    (b : Nat) (hc : T.checkIdom b none = true) : b = r ∨ ¬ Reach g r b :=
  checkIdom_none (domTable_ok h) b hc

/-- an accepted `immediately_dominated_by(a) = o`: exactly the nodes whose immediate dominator is `a` -/
theorem C16_judge_idb_sound (g : MGraph) (r : Nat) (T : DomTable) (h : domTable g r = some T)
    (a : Nat) (o : List Nat) (hc : T.checkIdb a o = true) : o.Nodup ∧ ∀ m, m ∈ o ↔ IsIdom g r a m :=
  checkIdb_sound (domTable_ok h) a o hc

/-- **the judge the driver runs on a `simple_fast` answer**: if it accepts, `root()` is the root
given and every record satisfies every clause of the property -/
theorem C16_judge_sf_sound (g : MGraph) (r ir : Nat) (recs : List C16.Rec)
    (h : C16.judgeSf g r ir recs = none) :
    ir = r ∧ ∀ rc ∈ recs,
      (match rc.doms with
        | some o => Reach g r rc.b ∧ o.Nodup ∧ ∀ a, a ∈ o ↔ Dominates g r a rc.b
        | none => ¬ Reach g r rc.b) ∧
      (match rc.strict with
        | some o => Reach g r rc.b ∧ o.Nodup ∧ ∀ a, a ∈ o ↔ StrictlyDominates g r a rc.b
        | none => ¬ Reach g r rc.b) ∧
      (match rc.idom with
        | some a => IsIdom g r a rc.b
        | none => rc.b = r ∨ ¬ Reach g r rc.b) ∧
      (rc.idb.Nodup ∧ ∀ m, m ∈ rc.idb ↔ IsIdom g r rc.b m) := by
  obtain ⟨h1, _, h3⟩ := (W4.judgeSf_none_iff g r ir recs).mp h
  exact ⟨h1, h3⟩

/-- the component counter computes the number of connected components -/
theorem C16_component_count (g : MGraph) (c : Nat) (h : compCount g = some c) : c = numComponents g :=
  compCount_spec g c h

/-- **an accepted `articulation_points` answer is exactly the set of cut vertices**: the nodes whose
removal increases the number of connected components -/
theorem C16_judge_articulation_sound (g : MGraph) (o : List Nat) (h : checkAP g o = true) :
    o.Nodup ∧ ∀ x, x ∈ o ↔ CutVertex g x :=
  checkAP_sound g o h

/-- the same for the judge the driver runs -/
theorem C16_judge_ap_sound (g : MGraph) (o : List Nat) (h : C16.judgeAp g o = none) :
    o.Nodup ∧ ∀ x, x ∈ o ↔ CutVertex g x := by
  unfold C16.judgeAp at h
  split at h
  · rename_i hc; exact checkAP_sound g o hc
  · split at h <;> cases h

/-- no false alarm: a correct `dominators(b)` answer is accepted -/
theorem C16_judge_dominators_complete (g : MGraph) (r : Nat) (T : DomTable) (h : domTable g r = some T)
    (b : Nat) (o : List Nat) (hb : Reach g r b) (hn : o.Nodup) (ho : ∀ a, a ∈ o ↔ Dominates g r a b) :
    T.checkDominators b (some o) = true :=
  checkDominators_complete (domTable_ok h) b o hb hn ho

theorem C16_judge_idom_complete (g : MGraph) (r : Nat) (T : DomTable) (h : domTable g r = some T)
    (b a : Nat) (hi : IsIdom g r a b) : T.checkIdom b (some a) = true :=
  checkIdom_complete (domTable_ok h) b a hi

theorem C16_judge_articulation_complete (g : MGraph) (o l : List Nat) (hl : cutSet g = some l)
    (hn : o.Nodup) (ho : ∀ x, x ∈ o ↔ CutVertex g x) : checkAP g o = true :=
  checkAP_complete g o l hl hn ho

/-- no false alarm for `strict_dominators(b) = Some(o)` -/
theorem C16_judge_strict_complete (g : MGraph) (r : Nat) (T : DomTable) (h : domTable g r = some T)
    (b : Nat) (o : List Nat) (hb : Reach g r b) (hn : o.Nodup) (ho : ∀ a, a ∈ o ↔ StrictlyDominates g r a b) :
    T.checkStrict b (some o) = true :=
  W4.checkStrict_complete (domTable_ok h) b o hb hn ho

/-- no false alarm for the `None` answers: `dominators(b)` / `strict_dominators(b)` of an unreachable
node, `immediate_dominator(b)` of the root or an unreachable node -/
theorem C16_judge_none_complete (g : MGraph) (r : Nat) (T : DomTable) (h : domTable g r = some T) (b : Nat) :
    (¬ Reach g r b → T.checkDominators b none = true ∧ T.checkStrict b none = true) ∧
    (b = r ∨ ¬ Reach g r b → T.checkIdom b none = true) :=
  ⟨fun hb => ⟨W4.checkDominators_none_complete (domTable_ok h) b hb,
      W4.checkStrict_none_complete (domTable_ok h) b hb⟩,
   fun hb => W4.checkIdom_none_complete (domTable_ok h) b hb⟩

/-- no false alarm for `immediately_dominated_by(a) = o` -/
theorem C16_judge_idb_complete (g : MGraph) (r : Nat) (T : DomTable) (h : domTable g r = some T)
    (a : Nat) (o : List Nat) (hn : o.Nodup) (ho : ∀ m, m ∈ o ↔ IsIdom g r a m) : T.checkIdb a o = true :=
  W4.checkIdb_complete (domTable_ok h) a o hn ho

/-- **the oracles always return**: with the fuel they are given (`Oracle.fuelFor`, the fuel the driver
uses) the reachability oracle, and hence the dominator table, the component counter and the cut-vertex
enumerator, never answer `none` — for every graph, well-formed or not.  The hypotheses
`domTable g r = some T`, `compCount g = some c`, `cutSet g = some l` of the theorems above are always
satisfiable. -/
theorem C16_oracle_returns (g : MGraph) (r : Nat) :
    (∃ R, reachFrom g r = some R) ∧ (∃ T, domTable g r = some T) ∧ (∃ c, compCount g = some c) ∧
    (∃ l, cutSet g = some l) :=
  ⟨reachFrom_total g r, W4.domTable_total g r, W4.compCount_total g, W4.cutSet_total g⟩

/-- the `ORACLE-FUEL` branch of the `simple_fast` judge (driver verdict `JUDGE-ERROR`) is unreachable:
the judge always evaluates the checks on the dominator table -/
theorem C16_judge_sf_conclusive (g : MGraph) (r ir : Nat) (recs : List C16.Rec) :
    ∃ T, domTable g r = some T ∧ C16.judgeSf g r ir recs = C16.judgeSfT T g r ir recs :=
  W4.judgeSf_conclusive g r ir recs

/-- **the judge the driver runs on a `simple_fast` answer accepts it iff it is correct** (no
hypothesis on the oracle): `root()` is the root given, the records list every node once, and every
record — `immediate_dominator`, `dominators`, `strict_dominators`, `immediately_dominated_by` of
one node, reachable or not, the root included — satisfies its clause of the property
(`W4.RecCorrect`, the conjunction spelt out in `C16_judge_sf_sound`). -/
theorem C16_judge_sf_iff (g : MGraph) (r ir : Nat) (recs : List C16.Rec) :
    C16.judgeSf g r ir recs = none ↔
      ir = r ∧ sameSet (recs.map (·.b)) g.nodes = true ∧ ∀ rc ∈ recs, W4.RecCorrect g r rc :=
  W4.judgeSf_none_iff g r ir recs

/-- the `ORACLE-FUEL` branch of the `articulation_points` judge is unreachable -/
theorem C16_judge_ap_conclusive (g : MGraph) (o : List Nat) :
    ∃ l, cutSet g = some l ∧
      C16.judgeAp g o = if checkAP g o = true then none else some (C16.apWhy o l) :=
  W4.judgeAp_conclusive g o

/-- **the judge the driver runs on an `articulation_points` answer accepts it iff it lists, without
repetition, exactly the cut vertices** (no hypothesis on the oracle) -/
theorem C16_judge_ap_iff (g : MGraph) (o : List Nat) :
    C16.judgeAp g o = none ↔ o.Nodup ∧ ∀ x, x ∈ o ↔ CutVertex g x :=
  W4.judgeAp_none_iff g o

/-! ## Part B — the specification -/

/-- "every path from the root to `b` passes through `a`" is decided by removing `a` -/
theorem C16_dominates_iff_cut (g : MGraph) (r a b : Nat) (hab : a ≠ b) :
    Dominates g r a b ↔ ¬ Reach (g.removeNode a) r b :=
  dominates_iff_removeNode hab

theorem C16_dominance_antisymm (g : MGraph) (r a c : Nat) (hr : Reach g r a)
    (h1 : Dominates g r a c) (h2 : Dominates g r c a) : a = c :=
  dominates_antisymm hr h1 h2

/-- "the unique strict dominator closest to `b`" -/
theorem C16_idom_unique (g : MGraph) (r a a' b : Nat) (h : IsIdom g r a b) (h' : IsIdom g r a' b) : a = a' :=
  isIdom_unique h h'

/-- the module documentation's definition follows: no node strictly between `idom(b)` and `b` -/
theorem C16_idom_nothing_between (g : MGraph) (r a b : Nat) (h : IsIdom g r a b) :
    ¬ ∃ c, StrictlyDominates g r a c ∧ StrictlyDominates g r c b :=
  isIdom_nothing_between h

theorem C16_root_has_no_idom (g : MGraph) (r a : Nat) : ¬ IsIdom g r a r := root_no_idom

/-- the component-counting definition of a cut vertex is the textbook one (and so does not depend on
the order of the node list): on an undirected graph `x` is a cut vertex iff two other nodes that are
connected in `g` are disconnected in `g − x` -/
theorem C16_cut_vertex_iff_separates (g : MGraph) (hu : g.directed = false) (hn : g.nodes.Nodup) (x : Nat) :
    CutVertex g x ↔ x ∈ g.nodes ∧ ∃ u v, u ∈ g.nodes ∧ v ∈ g.nodes ∧ u ≠ x ∧ v ≠ x ∧
      Reach g u v ∧ ¬ Reach (g.removeNode x) u v :=
  cutVertex_iff_separates g hu hn x

/-! ## Part C — the accessors of `Dominators` -/

/-- `dominators(n)` is `n` followed by `strict_dominators(n)`, and both are `None` exactly for the
nodes without an entry -/
theorem C16_accessors_dominators (d : Doms) (n : Nat) :
    d.dominators n = (d.strictDominators n).map (n :: ·) ∧
    (d.dominators n = none ↔ d.map.lookup n = none) ∧
    (d.strictDominators n = none ↔ d.map.lookup n = none) :=
  ⟨dominators_eq_cons d n, dominators_none_iff d n, strict_none_iff d n⟩

/-- `strict_dominators(n)` is the chain `idom n, idom (idom n), …` up to the node without immediate
dominator, i.e. the transitive closure of `immediate_dominator` (for every answer not cut off by the
model's iteration bound `|map| + 1`, which a cycle-free map never reaches) -/
theorem C16_accessors_strict_closure (d : Doms) (n : Nat) (l : List Nat)
    (h : d.strictDominators n = some l) (hlen : l.length < d.chainFuel) :
    IdomChain d n l ∧ ∀ a, a ∈ l ↔ IdomPlus d n a :=
  strict_closure d n l h hlen

/-- `immediately_dominated_by` is the inverse of `immediate_dominator` -/
theorem C16_accessors_idb_inverse (d : Doms) (hd : DomsWF d) (n m : Nat) :
    m ∈ d.immediatelyDominatedBy n ↔ d.immediateDominator m = some n :=
  idb_inverse d hd n m

/-! ## Part D — the mirrored algorithms -/

/-- `intersect` returns a common ancestor of its two fingers in the `doms` forest -/
theorem C16_intersect_common_ancestor (doms : List (Option Nat)) (f a b x : Nat)
    (h : intersect doms f a b = some x) : Anc doms a x ∧ Anc doms b x :=
  intersect_anc doms f a b x h

/-- **full correctness of the mirrored `simple_fast`** (statement): on every view it terminates
without panic and reports, for every node, exactly the path-based dominators. -/
def C16_simple_fast_statement : Prop :=
  ∀ (v : View) (root : Nat), ViewOk v → root ∈ v.g.nodes → v.g.WellFormed →
    ∃ d, simpleFast v root = .ok d ∧ d.root = root ∧
      (∀ b, d.dominators b = none ↔ ¬ Reach v.g root b) ∧
      ∀ b l, d.dominators b = some l → l.Nodup ∧ ∀ a, a ∈ l ↔ Dominates v.g root a b

/-- every view accepted by the driver (`viewOkB`: neighbour lists are permutations of the abstract
graph's) satisfies the extra hypothesis of `C16_simple_fast` / `C16_articulation` -/
theorem C16_driver_views_bounded (v : View) (h : C16.viewOkB v = true) :
    ∀ a, a ∈ v.g.nodes → (v.succ a).length ≤ (v.g.succ a).length :=
  fun a ha => Nat.le_of_eq (viewOkB_succ_length v h a ha)

/-- `C16_simple_fast_statement` is **false as written**: `ViewOk` fixes only the *set* of neighbours
the encoding enumerates, while the fuel of the model (`postFuel`) is computed from the number of
nodes and edges of the abstract graph.  Witness: the graph `0 → 1` (one edge) seen through a view
whose neighbour list of `0` repeats the target 49 times — the `DfsPostOrder` model has to pop 49
stack entries in one call and reports `FUEL`.  (No view built by the driver is of this kind:
`Driver/C16.lean` `viewOkB` requires the neighbour lists to be permutations of `MGraph.succ`.)
The repaired statement `C16_simple_fast` below adds the length half of that (`SuccBounded`). -/
theorem C16_simple_fast_statement_false_witness : ¬ C16_simple_fast_statement := by
  intro h
  let g : MGraph := ⟨true, [0, 1], [⟨0, 0, 1, 1⟩]⟩
  let v : View := ⟨g, 2, [(0, 0), (1, 1)], [(0, List.replicate 49 (1, 0))], []⟩
  have hv : ViewOk v := by
    intro a b
    by_cases ha : a = 0
    · subst ha
      simp only [View.succ, View.outOf, v, g, MGraph.Adj]
      simp [List.lookup]
      constructor
      · rintro rfl; rfl
      · intro e; exact e.symm
    · have e0 : (a == 0) = false := by simpa using ha
      simp only [View.succ, View.outOf, v, g, MGraph.Adj]
      simp [List.lookup, e0]
      intro e; exact (ha e.symm).elim
  obtain ⟨d, hd, _⟩ := h v 0 hv (by simp [v, g]) (by
    refine ⟨by simp [v, g], ?_⟩
    intro e he
    simp only [v, g, List.mem_singleton] at he
    subst he
    simp [v, g])
  have : (match simpleFast v 0 with | .fuel => true | _ => false) = true := by decide
  rw [hd] at this
  cases this

/-- **full correctness of the mirrored `simple_fast`** (the repaired `C16_simple_fast_statement`:
the only addition is `hb`: for no node does the encoding enumerate more neighbours than the abstract
graph has incident edges — `C16_driver_views_bounded`: true of every view the driver accepts): on every such view and every root the model terminates without panic
within its fuel, `root()` is the root given, exactly the nodes reachable from the root have an
entry, and for every such node `dominators(b)` lists — without repetition — exactly the nodes that
lie on every walk from the root to `b` (soundness *and* completeness of the
Cooper–Harvey–Kennedy fixed point). -/
theorem C16_simple_fast (v : View) (root : Nat) (hv : ViewOk v)
    (hb : ∀ a, a ∈ v.g.nodes → (v.succ a).length ≤ (v.g.succ a).length)
    (hroot : root ∈ v.g.nodes) (hwf : v.g.WellFormed) :
    ∃ d, simpleFast v root = .ok d ∧ d.root = root ∧
      (∀ b, d.dominators b = none ↔ ¬ Reach v.g root b) ∧
      ∀ b l, d.dominators b = some l → l.Nodup ∧ ∀ a, a ∈ l ↔ Dominates v.g root a b :=
  W2Chk.simpleFast_total v root hv (postOrder_total v root hv (succBounded_of_nodes v hv hwf hb) hwf hroot)

/-- **the other accessors on the result of the mirrored `simple_fast`** (consequences of
`C16_simple_fast`): `immediate_dominator(b)` is `Some(a)` exactly when `a` is the strict dominator of
`b` closest to `b` (`IsIdom`) and `None` exactly for the root and the unreachable nodes;
`strict_dominators(b)` is `None` exactly for the unreachable nodes and otherwise lists, without
repetition, exactly the strict dominators; `immediately_dominated_by(n)` is exactly the set of nodes
whose immediate dominator is `n`. -/
theorem C16_simple_fast_accessors (v : View) (root : Nat) (hv : ViewOk v)
    (hb : ∀ a, a ∈ v.g.nodes → (v.succ a).length ≤ (v.g.succ a).length)
    (hroot : root ∈ v.g.nodes) (hwf : v.g.WellFormed) :
    ∃ d, simpleFast v root = .ok d ∧
      (∀ b a, d.immediateDominator b = some a ↔ IsIdom v.g root a b) ∧
      (∀ b, d.immediateDominator b = none ↔ b = root ∨ ¬ Reach v.g root b) ∧
      (∀ b, d.strictDominators b = none ↔ ¬ Reach v.g root b) ∧
      (∀ b l, d.strictDominators b = some l → l.Nodup ∧ ∀ a, a ∈ l ↔ StrictlyDominates v.g root a b) ∧
      (∀ n m, m ∈ d.immediatelyDominatedBy n ↔ IsIdom v.g root n m) := by
  obtain ⟨d, hd, h1, h2, h3⟩ := C16_simple_fast v root hv hb hroot hwf
  have hex : W2Acc.Exact v.g root d := ⟨h1, h2, h3⟩
  have hwfd := (simpleFast_sound v root d hv (postOrderSpec_of_viewOk v hv root) hd).2.2.2
  exact ⟨d, hd, W2Acc.idom_iff hex, W2Acc.idom_none_iff hex, W2Acc.strict_none hex,
    W2Acc.strict_some hex, W2Acc.idb_iff hex hwfd⟩

/-- what `simple_fast` relies on from `DfsPostOrder` (the walker model `Trav.postNext` of C08), proved
here for every consistent view: run to exhaustion from the root it emits exactly the nodes reachable
from the root, each once -/
theorem C16_postorder_for_simple_fast (v : View) (hv : ViewOk v) (root : Nat) (post : List Nat)
    (h : postOrderFrom v (postFuel v) (postFuel v + 4) { stack := [root] } [] = some post) :
    post.Nodup ∧ ∀ x, x ∈ post ↔ Reach v.g root x :=
  postOrderSpec_of_viewOk v hv root post h

/-- proved part, for every consistent view and every root: whenever the model returns a result,
`root()` is the root, **exactly the nodes reachable from the root have an entry** (`dominators(b)` is
`None` iff `b` is unreachable), **every node it reports as a dominator of `b` really lies on
every walk from the root to `b`** (soundness of the Cooper–Harvey–Kennedy fixed point), and the
map is well-formed (`DomsWF`: one entry per node, only the root is mapped to itself).

Missing for the full statement: (1) completeness — every true dominator is on the reported chain
(a fixed point of the equations alone does not give it: smaller fixed points exist; it needs the
monotonicity argument of the iteration from the all-undefined table); (2) termination without
panic within the model's fuel (needs: every non-root node has a predecessor later in post-order). -/
theorem C16_simple_fast_partial (v : View) (root : Nat) (d : Doms) (hv : ViewOk v)
    (h : simpleFast v root = .ok d) :
    d.root = root ∧
    (∀ b, d.dominators b = none ↔ ¬ Reach v.g root b) ∧
    (∀ b l, d.dominators b = some l → ∀ a ∈ l, Dominates v.g root a b) ∧
    DomsWF d :=
  simpleFast_sound v root d hv (postOrderSpec_of_viewOk v hv root) h

/-- consequently, on every result of the mirrored `simple_fast`, `immediately_dominated_by` is the
inverse of `immediate_dominator` -/
theorem C16_simple_fast_idb_inverse (v : View) (root : Nat) (d : Doms) (hv : ViewOk v)
    (h : simpleFast v root = .ok d) (n m : Nat) :
    m ∈ d.immediatelyDominatedBy n ↔ d.immediateDominator m = some n :=
  idb_inverse d (simpleFast_sound v root d hv (postOrderSpec_of_viewOk v hv root) h).2.2.2 n m

/-- every immediate dominator the mirrored `simple_fast` reports strictly dominates its node -/
theorem C16_simple_fast_idom_sound (v : View) (root : Nat) (d : Doms) (hv : ViewOk v)
    (h : simpleFast v root = .ok d) (b a : Nat) (hi : d.immediateDominator b = some a) :
    StrictlyDominates v.g root a b := by
  obtain ⟨_, _, hs, hwf⟩ := simpleFast_sound v root d hv (postOrderSpec_of_viewOk v hv root) h
  have hlk : b ≠ d.root ∧ d.map.lookup b = some a := by
    unfold Doms.immediateDominator at hi
    split at hi
    · cases hi
    · rename_i hne; exact ⟨hne, hi⟩
  have hmem := (lookup_iff_mem d.map hwf.keys b a).mp hlk.2
  refine ⟨fun hab => hlk.1 ((hwf.rootSelf b a hmem).mp hab), ?_⟩
  apply hs b (d.chain (d.chainFuel + 1) (some b))
  · unfold Doms.dominators; simp [hlk.2]
  · simp [Doms.chain, Doms.chainFuel, hi]

/-- **full correctness of the mirrored `articulation_points`** (statement): on every undirected view
with usable indices it terminates without panic and returns exactly the cut vertices. -/
def C16_articulation_statement : Prop :=
  ∀ (v : View), ViewOk v → v.g.directed = false → v.g.WellFormed → IndexOk v →
    ∃ l, articulationPoints v = .ok l ∧ l.Nodup ∧ ∀ x, x ∈ l ↔ CutVertex v.g x

/-- `C16_articulation_statement` is **false as written**, for the same reason as
`C16_simple_fast_statement`: `ViewOk` fixes only the set of neighbours, the fuel `apFuel` is computed
from the abstract graph.  Witness: the undirected graph `0 – 1` (one edge) seen through a view whose
neighbour list of `0` repeats `1` 22 times: the model reports `FUEL`. -/
theorem C16_articulation_statement_false_witness : ¬ C16_articulation_statement := by
  intro h
  let g : MGraph := ⟨false, [0, 1], [⟨0, 0, 1, 1⟩]⟩
  let v : View := ⟨g, 2, [(0, 0), (1, 1)], [(0, List.replicate 22 (1, 0)), (1, [(0, 0)])], []⟩
  have hsucc0 : ∀ b, b ∈ v.succ 0 ↔ b = 1 := by
    intro b; simp [View.succ, View.outOf, v, List.lookup]
  have hsucc1 : ∀ b, b ∈ v.succ 1 ↔ b = 0 := by
    intro b; simp [View.succ, View.outOf, v, List.lookup]
  have hsucc : ∀ a, a ≠ 0 → a ≠ 1 → v.succ a = [] := by
    intro a h0 h1
    have e0 : (a == 0) = false := by simpa using h0
    have e1 : (a == 1) = false := by simpa using h1
    simp [View.succ, View.outOf, v, List.lookup, e0, e1]
  have hadj : ∀ a b, v.g.Adj a b ↔ (a = 0 ∧ b = 1) ∨ (a = 1 ∧ b = 0) := by
    intro a b
    simp only [v, g, MGraph.Adj]
    simp
    omega
  have hv : ViewOk v := by
    intro a b
    rw [hadj]
    by_cases ha : a = 0
    · subst ha; rw [hsucc0]; omega
    · by_cases ha1 : a = 1
      · subst ha1; rw [hsucc1]; omega
      · rw [hsucc a ha ha1]
        simp only [List.not_mem_nil, false_iff]
        omega
  have hnodes : ∀ a, a ∈ v.g.nodes ↔ a = 0 ∨ a = 1 := by intro a; simp [v, g]
  have hi : IndexOk v := by
    refine ⟨rfl, ?_, ?_, ?_⟩
    · intro a ha
      rcases (hnodes a).mp ha with rfl | rfl <;> decide
    · intro a ha t ht
      rcases (hnodes a).mp ha with rfl | rfl
      · exact (hnodes t).mpr (Or.inr ((hsucc0 t).mp ht))
      · exact (hnodes t).mpr (Or.inl ((hsucc1 t).mp ht))
    · intro a b ha hb
      rcases (hnodes a).mp ha with rfl | rfl <;> rcases (hnodes b).mp hb with rfl | rfl <;> decide
  obtain ⟨l, hl, _⟩ := h v hv rfl (by
    refine ⟨by simp [v, g], ?_⟩
    intro e he
    simp only [v, g, List.mem_singleton] at he
    subst he
    simp [v, g]) hi
  have : (match articulationPoints v with | .error _ => true | _ => false) = true := by decide
  rw [hl] at this
  cases this

/-- **full correctness of the mirrored `articulation_points`** (the repaired
`C16_articulation_statement`; the only addition is `hb`: for no node does the encoding enumerate more
neighbours than the abstract graph has incident edges — `C16_driver_views_bounded`): on every
undirected view with usable indices the iterative Tarjan low-link search terminates within the
model's fuel without panic and returns, without repetition, exactly the cut vertices — the nodes
whose removal increases the number of connected components (multigraphs with parallel edges and
self-loops, any number of components, any neighbour order, any injective `to_index` below
`node_bound()`). -/
theorem C16_articulation (v : View) (hv : ViewOk v)
    (hb : ∀ a, a ∈ v.g.nodes → (v.succ a).length ≤ (v.g.succ a).length)
    (hu : v.g.directed = false) (hwf : v.g.WellFormed) (hi : IndexOk v) :
    ∃ l, articulationPoints v = .ok l ∧ l.Nodup ∧ ∀ x, x ∈ l ↔ CutVertex v.g x :=
  articulationPoints_correct v hv (succBounded_of_nodes v hv hwf hb) hu hwf hi

/-- proved part: the search never inserts a node twice into its result set, and every index it
reports carries a discovery time, i.e. was visited by the search.

Missing for the full statement: the low-link invariant of Tarjan's search (for a finished child `c`
of `u`: `low[c] ≥ disc[u]` iff no node of `c`'s subtree has an edge to a proper ancestor of `u`),
its consequence that the two insertion rules fire exactly at the cut vertices, and termination
within the model's fuel. -/
theorem C16_articulation_partial (v : View) (st : AP) (h : outer v v.g.nodes (AP.new v.nb) = .ok st) :
    st.aps.Nodup ∧ ∀ i ∈ st.aps, i ∈ st.visited :=
  outer_aps v st h

/-- **no fault is reachable in `articulation_points`**: on every view whose indices are usable
(`IndexOk`: `to_index` of every node is below `node_bound()`, neighbours are nodes) no table access of
the mirrored search is out of bounds and `from_index` is only applied to indices of nodes — the
property the D11 repair (tables sized by `node_bound()`) established.  (`FUEL` is the model's own
step bound, not a behaviour of the code.) -/
theorem C16_articulation_no_panic (v : View) (hi : IndexOk v) :
    (∃ l, articulationPoints v = .ok l) ∨ articulationPoints v = .error "FUEL" :=
  articulationPoints_no_fault v hi

/-- `immediately_dominated_by` never repeats a node (well-formed map: unique keys) -/
theorem C16_accessors_idb_nodup (d : Doms) (hd : DomsWF d) (n : Nat) : (d.immediatelyDominatedBy n).Nodup :=
  W4.idb_nodup d hd n

/-! ## Part E — run-time checks of the hypotheses

`Driver/C16.lean` evaluates `graphScopeB` on every `graph` line, `sfScopeB` on every `sf` line and
`apScopeB` on every `ap` line, and judges a call only if the check holds (otherwise it answers
`SPECFAIL side condition … does not hold` / `SPECFAIL generator left the proved range`).  Every
hypothesis of `C16_simple_fast`, `C16_simple_fast_accessors` and `C16_articulation` follows. -/

/-- `wfB` ⇒ `WellFormed` (and conversely: the check rejects nothing that is well-formed) -/
theorem C16_wellformed_check (g : MGraph) : C16.wfB g = true ↔ g.WellFormed :=
  ⟨W4.wfB_sound g, W4.wfB_complete g⟩

/-- the three checks of the `graph` line ⇒ `ViewOk` (for every `a`, node or not: `b ∈ v.succ a ↔ Adj a b`) -/
theorem C16_viewok_check (v : View) (h1 : C16.wfB v.g = true) (h2 : C16.viewOkB v = true)
    (h3 : C16.rowsOkB v = true) : ViewOk v :=
  W4.viewOk_of_checks v h1 h2 h3

/-- `viewOkB` ⇒ the neighbour-list length bound `hb` (this is `C16_driver_views_bounded`) -/
theorem C16_bounded_check (v : View) (h : C16.viewOkB v = true) :
    ∀ a, a ∈ v.g.nodes → (v.succ a).length ≤ (v.g.succ a).length :=
  C16_driver_views_bounded v h

theorem C16_root_check (v : View) (r : Nat) : C16.rootOkB v r = true ↔ r ∈ v.g.nodes := by
  simp [C16.rootOkB]

/-- `indexOkB` ⇔ `IndexOk` -/
theorem C16_index_check (v : View) : C16.indexOkB v = true ↔ IndexOk v :=
  ⟨W4.indexOkB_sound v, W4.indexOkB_complete v⟩

/-- the check of an `sf r` line gives every hypothesis of `C16_simple_fast` -/
theorem C16_sf_scope_check (v : View) (r : Nat) (h : C16.sfScopeB v r = true) :
    ViewOk v ∧ (∀ a, a ∈ v.g.nodes → (v.succ a).length ≤ (v.g.succ a).length) ∧
    r ∈ v.g.nodes ∧ v.g.WellFormed :=
  let ⟨hg, hr⟩ := W4.sfScopeB_sound v r h
  ⟨hg.view, hg.bounded, hr, hg.wf⟩

/-- the check of an `ap` line gives every hypothesis of `C16_articulation` -/
theorem C16_ap_scope_check (v : View) (h : C16.apScopeB v = true) :
    ViewOk v ∧ (∀ a, a ∈ v.g.nodes → (v.succ a).length ≤ (v.g.succ a).length) ∧
    v.g.directed = false ∧ v.g.WellFormed ∧ IndexOk v :=
  let ⟨hg, hu, hi⟩ := W4.apScopeB_sound v h
  ⟨hg.view, hg.bounded, hu, hg.wf, hi⟩

/-- the driver judges an `sf` / `ap` line only inside the scope: when the check fails its answer is the
scope-failure `SPECFAIL`, whatever the implementation answered -/
theorem C16_driver_guards (v : View) (r : Nat) (impl : String) :
    (C16.sfScopeB v r = false → C16.stepSf v r impl = C16.sfScopeFail v r) ∧
    (C16.apScopeB v = false → C16.stepAp v impl = C16.apScopeFail v) := by
  constructor
  · intro h; simp [C16.stepSf, h]
  · intro h; simp [C16.stepAp, h]

/-- **full correctness of the mirrored `simple_fast` on every case the driver judges**: the only
hypothesis is the Boolean the driver evaluated.  The model terminates within its fuel without panic;
`root()` is the root; an entry exists exactly for the reachable nodes; `dominators`, `strict_dominators`
list without repetition exactly the (strict) dominators; `immediate_dominator` is the closest strict
dominator (`None` exactly for the root and the unreachable nodes); `immediately_dominated_by` lists
without repetition exactly the nodes whose immediate dominator it is. -/
theorem C16_simple_fast_checked (v : View) (root : Nat) (h : C16.sfScopeB v root = true) :
    ∃ d, simpleFast v root = .ok d ∧ d.root = root ∧
      (∀ b, d.dominators b = none ↔ ¬ Reach v.g root b) ∧
      (∀ b l, d.dominators b = some l → l.Nodup ∧ ∀ a, a ∈ l ↔ Dominates v.g root a b) ∧
      (∀ b a, d.immediateDominator b = some a ↔ IsIdom v.g root a b) ∧
      (∀ b, d.immediateDominator b = none ↔ b = root ∨ ¬ Reach v.g root b) ∧
      (∀ b, d.strictDominators b = none ↔ ¬ Reach v.g root b) ∧
      (∀ b l, d.strictDominators b = some l → l.Nodup ∧ ∀ a, a ∈ l ↔ StrictlyDominates v.g root a b) ∧
      (∀ n, (d.immediatelyDominatedBy n).Nodup ∧ ∀ m, m ∈ d.immediatelyDominatedBy n ↔ IsIdom v.g root n m) := by
  obtain ⟨hv, hb, hroot, hwf⟩ := C16_sf_scope_check v root h
  obtain ⟨d, hd, h1, h2, h3⟩ := C16_simple_fast v root hv hb hroot hwf
  obtain ⟨d', hd', a1, a2, a3, a4, a5⟩ := C16_simple_fast_accessors v root hv hb hroot hwf
  have hdd : d' = d := by rw [hd] at hd'; cases hd'; rfl
  subst hdd
  have hwfd := (simpleFast_sound v root d' hv (postOrderSpec_of_viewOk v hv root) hd).2.2.2
  exact ⟨d', hd, h1, h2, h3, a1, a2, a3, a4, fun n => ⟨W4.idb_nodup d' hwfd n, a5 n⟩⟩

/-- on every case the driver judges the accessor model's own iteration bound (`chainFuel`, a guard
against a cyclic map) is never reached: the hypothesis `hlen` of `C16_accessors_strict_closure` holds,
so `strict_dominators(b)` is the `immediate_dominator` chain of `b` -/
theorem C16_simple_fast_chain_fuel (v : View) (root : Nat) (h : C16.sfScopeB v root = true) :
    ∃ d, simpleFast v root = .ok d ∧ ∀ b l, d.strictDominators b = some l →
      l.length < d.chainFuel ∧ IdomChain d b l := by
  obtain ⟨d, hd, _, h2, _, _, _, h6, h7, _⟩ := C16_simple_fast_checked v root h
  refine ⟨d, hd, fun b l hl => ?_⟩
  have hlen := W4.strict_length_lt_chainFuel v.g root d h2 h6 h7 b l hl
  exact ⟨hlen, (C16_accessors_strict_closure d b l hl hlen).1⟩

/-- **full correctness of the mirrored `articulation_points` on every case the driver judges** -/
theorem C16_articulation_checked (v : View) (h : C16.apScopeB v = true) :
    ∃ l, articulationPoints v = .ok l ∧ l.Nodup ∧ ∀ x, x ∈ l ↔ CutVertex v.g x := by
  obtain ⟨hv, hb, hu, hwf, hi⟩ := C16_ap_scope_check v h
  exact C16_articulation v hv hb hu hwf hi

/-- on every case the driver judges, the judge accepts the model's own answer (the records the driver
prints for the model, `C16.recsOf (sortNats nodes) d`): an implementation answer that equals the model's
(verdict `ok`) is never a `SPECFAIL`, and a `SPECFAIL` always comes with a difference to the model -/
theorem C16_model_sf_accepted (v : View) (root : Nat) (h : C16.sfScopeB v root = true) :
    ∃ d, simpleFast v root = .ok d ∧
      C16.judgeSf v.g root d.root (C16.recsOf (sortNats v.g.nodes) d) = none := by
  obtain ⟨d, hd, h1, h2, h3, h4, h5, h6, h7, h8⟩ := C16_simple_fast_checked v root h
  refine ⟨d, hd, (C16_judge_sf_iff _ _ _ _).mpr ⟨h1, W4.recsOf_nodes _ d, ?_⟩⟩
  exact W4.recsOf_correct v.g root d _ h2 h3 h4 h5 h6 h7 h8

theorem C16_model_ap_accepted (v : View) (h : C16.apScopeB v = true) :
    ∃ l, articulationPoints v = .ok l ∧ C16.judgeAp v.g (sortNats l) = none := by
  obtain ⟨l, hl, hn, hx⟩ := C16_articulation_checked v h
  refine ⟨l, hl, (C16_judge_ap_iff _ _).mpr ⟨?_, fun x => ?_⟩⟩
  · exact (W4.sortNats_perm l).nodup_iff.mpr hn
  · exact ((W4.sortNats_perm l).mem_iff).trans (hx x)

/-! ## Part F — the corners (wave 6) -/

/-- **`DominatorsIter` is lazy and yields the dominator chain**: `k` calls of `next` on the iterator
`dominators(n)` / `strict_dominators(n)` returns yield the first `k` items of the collected list of Part C
(`Doms.chain`), for every `k` — in particular the full lists with the accessor model's own bound -/
theorem C16_dominators_iter_steps (d : Doms) (k : Nat) (node : Option Nat) :
    (DomIter.mk d node).take k = d.chain k node :=
  W6.domIter_take d k node

theorem C16_dominators_iter_collect (d : Doms) (n : Nat) :
    d.dominators n = (d.dominatorsIter n).map (·.take (d.chainFuel + 1)) ∧
    d.strictDominators n = (d.strictDominatorsIter n).map (·.take d.chainFuel) := by
  unfold Doms.dominators Doms.strictDominators Doms.dominatorsIter Doms.strictDominatorsIter
  constructor <;> split <;> simp [W6.domIter_take]

/-- `DominatorsIter` is fused: once `next` has answered `None` the state does not change and every later
call answers `None` -/
theorem C16_dominators_iter_fused (it it' : DomIter) (h : it.next = (none, it')) :
    it' = it ∧ it'.next = (none, it') :=
  W6.domIter_fused it it' h

/-- **`DominatedByIter`, one step**: a `next` that yields `x` removes exactly `x` from the front of what the
iterator will still yield and shrinks the underlying map iterator; a `next` that yields `None` means nothing
was left, exhausts the map iterator and is final (fused) -/
theorem C16_dominated_by_iter_next (it it' : IdbIter) :
    (∀ x, it.next = (some x, it') → it.toList = x :: it'.toList ∧ it'.rest.length < it.rest.length) ∧
    (it.next = (none, it') → it.toList = [] ∧ it'.rest = [] ∧ it'.next = (none, it')) :=
  ⟨fun x h => ⟨(W6.idbIter_next_some it it' x h).1, (W6.idbIter_next_some it it' x h).2.1⟩,
   W6.idbIter_next_none it it'⟩

/-- **`DominatedByIter` is lazy and yields `immediately_dominated_by`**: the iterator returned for `n`
will yield exactly the collected list of Part C, and `k` calls of `next` yield its first `k` items -/
theorem C16_dominated_by_iter_collect (d : Doms) (n k : Nat) :
    (d.immediatelyDominatedByIter n).toList = d.immediatelyDominatedBy n ∧
    (d.immediatelyDominatedByIter n).take k = (d.immediatelyDominatedBy n).take k := by
  have h : (d.immediatelyDominatedByIter n).toList = d.immediatelyDominatedBy n := rfl
  exact ⟨h, by rw [W6.idbIter_take, h]⟩

/-- **the overridden `size_hint` of `DominatedByIter` is correct in every state**: lower bound 0, upper
bound = entries of the map not yet looked at ≥ the number of items still to come -/
theorem C16_dominated_by_iter_size_hint (it : IdbIter) :
    it.sizeHint.1 ≤ it.toList.length ∧ ∃ u, it.sizeHint.2 = some u ∧ it.toList.length ≤ u :=
  ⟨Nat.zero_le _, it.rest.length, rfl, W6.idbIter_toList_le it⟩

/-- **ids that are not nodes** (an index beyond the bound, a vacant `StableGraph` slot, a removed
`MatrixGraph` id, a node a filter excludes, `NodeIndex::end()`): on every case the driver judges, the
mirrored `simple_fast` has no entry for them — `immediate_dominator`, `dominators`, `strict_dominators`
are `None` — and they dominate nothing (`immediately_dominated_by` is empty); what the harness checks
against the implementation as `law absent` -/
theorem C16_absent_id_no_entry (v : View) (root : Nat) (h : C16.sfScopeB v root = true) (b : Nat)
    (hb : b ∉ v.g.nodes) :
    ∃ d, simpleFast v root = .ok d ∧ d.immediateDominator b = none ∧ d.dominators b = none ∧
      d.strictDominators b = none ∧ d.immediatelyDominatedBy b = [] := by
  obtain ⟨_, _, hroot, hwf⟩ := C16_sf_scope_check v root h
  obtain ⟨d, hd, _, h2, _, _, h5, h6, _, h8⟩ := C16_simple_fast_checked v root h
  have hnr : ¬ Reach v.g root b := W6.not_reach_of_not_node hwf hroot hb
  refine ⟨d, hd, (h5 b).mpr (Or.inr hnr), (h2 b).mpr hnr, (h6 b).mpr hnr, ?_⟩
  apply List.eq_nil_iff_forall_not_mem.mpr
  intro m hm
  have hi := ((h8 b).2 m).mp hm
  exact hb (W6.dominator_mem_nodes hwf hroot hi.1 hi.2.1.2)

/-- the same at the level of the specification: a node that dominates a reachable node is a node of the
graph, and nothing outside the graph is reachable from a root inside it -/
theorem C16_dominators_are_nodes (g : MGraph) (hwf : g.WellFormed) (r a b : Nat) (hr : r ∈ g.nodes)
    (hb : Reach g r b) (hd : Dominates g r a b) : a ∈ g.nodes ∧ b ∈ g.nodes :=
  ⟨W6.dominator_mem_nodes hwf hr hb hd, W2Post.reach_mem_nodes hwf hr hb⟩

/-- **the answers depend on the node set and the adjacency relation only**: two multigraphs with the same
nodes in which the same pairs are adjacent have the same reachability, the same dominators and immediate
dominators for every root, and the same cut vertices — whatever their edge multiplicities, edge ids,
weights or stored orientations of undirected edges -/
theorem C16_answers_depend_on_adjacency (g g' : MGraph) (hn : g.nodes = g'.nodes)
    (ha : ∀ a b, g.Adj a b ↔ g'.Adj a b) :
    (∀ a b, Reach g a b ↔ Reach g' a b) ∧
    (∀ r a b, Dominates g r a b ↔ Dominates g' r a b) ∧
    (∀ r a b, IsIdom g r a b ↔ IsIdom g' r a b) ∧
    (∀ x, CutVertex g x ↔ CutVertex g' x) :=
  ⟨W6.reach_iff ha, W6.dominates_iff ha, W6.isIdom_iff ha, W6.cutVertex_iff hn ha⟩

/-- consequently adding parallel copies of existing edges — `UndirectedAdaptor` meets every self-loop of a
directed base and every edge of an undirected base twice — changes neither dominators nor cut vertices:
the abstract graph the harness assigns to that adaptor has the answers of the underlying undirected graph -/
theorem C16_parallel_copies_irrelevant (g : MGraph) (extra : List Edge)
    (h : ∀ e ∈ extra, ∃ e' ∈ g.edges, e'.src = e.src ∧ e'.tgt = e.tgt) :
    (∀ r a b, Dominates { g with edges := g.edges ++ extra } r a b ↔ Dominates g r a b) ∧
    (∀ r a b, IsIdom { g with edges := g.edges ++ extra } r a b ↔ IsIdom g r a b) ∧
    (∀ x, CutVertex { g with edges := g.edges ++ extra } x ↔ CutVertex g x) :=
  let ha := W6.adj_addParallel g extra h
  ⟨W6.dominates_iff ha, W6.isIdom_iff ha, W6.cutVertex_iff rfl ha⟩

/-- the underlying undirected graph of `b → a`, `b → c` and a self-loop at `a` (ids 1 → 0, 1 → 2, 0 → 0) as
`UndirectedAdaptor` presents it: the loop twice -/
def exD23G : MGraph := ⟨false, [0, 1, 2], [⟨0, 1, 0, 1⟩, ⟨1, 1, 2, 1⟩, ⟨2, 0, 0, 1⟩, ⟨3, 0, 0, 1⟩]⟩

/-- what `UndirectedAdaptor::edges(_).target()` enumerates for it (open finding D23): the incoming edge
`1 → 0` is reported at `0` with target `0`, the incoming edge `1 → 2` at `2` with target `2` -/
def exD23V : View :=
  ⟨exD23G, 3, [(0, 0), (1, 1), (2, 2)], [(0, [(0, 2), (0, 999999), (0, 3)]), (1, [(2, 1), (0, 0)]), (2, [(2, 999999)])], derivedIn exD23G⟩

/-- **witness of open finding D23 at `articulation_points`**: node 1 is the one cut vertex of the path
`0 – 1 – 2`; the view is rejected by the driver's `viewOkB`, has exactly the D23 shape, and the mirror model
of `articulation_points` run on it returns the empty set — what the implementation answers for
`articulation_points(UndirectedAdaptor(&g))` -/
theorem C16_D23_witness :
    checkAP exD23G [1] = true ∧ checkAP exD23G [] = false ∧
    C16.viewOkB exD23V = false ∧ C16.d23ViewB exD23V = true ∧
    articulationPoints exD23V = .ok [] := by
  refine ⟨by decide, by decide, by decide, by decide, by rfl⟩

/-! ## the hypotheses are satisfiable: concrete non-trivial instances -/

/-- the irreducible flow graph of Cooper–Harvey–Kennedy, figure 2: 5→4, 5→3, 4→1, 3→2, 1⇄2 -/
def exG : MGraph :=
  ⟨true, [1, 2, 3, 4, 5], [⟨0, 5, 4, 1⟩, ⟨1, 5, 3, 1⟩, ⟨2, 4, 1, 1⟩, ⟨3, 3, 2, 1⟩, ⟨4, 1, 2, 1⟩, ⟨5, 2, 1, 1⟩]⟩

def exV : View :=
  ⟨exG, 6, [(1, 1), (2, 2), (3, 3), (4, 4), (5, 5)],
   [(5, [(4, 0), (3, 1)]), (4, [(1, 2)]), (3, [(2, 3)]), (1, [(2, 4)]), (2, [(1, 5)])], []⟩

example : (domTable exG 5).isSome = true := rfl
example : ((domTable exG 5).map fun T => T.checkIdom 1 (some 5)) = some true := rfl
example : ((domTable exG 5).map fun T => T.checkIdom 1 (some 4)) = some false := rfl
example : ((domTable exG 5).map fun T => T.checkDominators 2 (some [2, 5])) = some true := rfl

/-- the model of `simple_fast` on that graph: everything is immediately dominated by 5 (two sweeps
change the table, a third confirms the fixed point) -/
example : (match simpleFast exV 5 with | .ok d => some d | _ => none) =
    some { root := 5, map := [(1, 5), (2, 5), (3, 5), (4, 5), (5, 5)] } := rfl

example : ViewOk exV := by
  intro a b
  rw [← MGraph.mem_succ]
  by_cases h5 : a = 5
  · subst h5; simp [View.succ, View.outOf, exV, exG, MGraph.succ]
  by_cases h4 : a = 4
  · subst h4; simp [View.succ, View.outOf, exV, exG, MGraph.succ, List.lookup]
  by_cases h3 : a = 3
  · subst h3; simp [View.succ, View.outOf, exV, exG, MGraph.succ, List.lookup]
  by_cases h1 : a = 1
  · subst h1; simp [View.succ, View.outOf, exV, exG, MGraph.succ, List.lookup]
  by_cases h2 : a = 2
  · subst h2; simp [View.succ, View.outOf, exV, exG, MGraph.succ, List.lookup]
  have e5 : (a == 5) = false := by simpa using h5
  have e4 : (a == 4) = false := by simpa using h4
  have e3 : (a == 3) = false := by simpa using h3
  have e1 : (a == 1) = false := by simpa using h1
  have e2 : (a == 2) = false := by simpa using h2
  simp [View.succ, View.outOf, exV, exG, MGraph.succ, List.lookup, e1, e2, e3, e4, e5]
  omega

/-- a path 0 – 1 – 2 with a pendant triangle at 2: cut vertices 1 and 2 -/
def exU : MGraph :=
  ⟨false, [0, 1, 2, 3, 4], [⟨0, 0, 1, 1⟩, ⟨1, 1, 2, 1⟩, ⟨2, 2, 3, 1⟩, ⟨3, 3, 4, 1⟩, ⟨4, 4, 2, 1⟩]⟩

def exUV : View :=
  ⟨exU, 5, [(0, 0), (1, 1), (2, 2), (3, 3), (4, 4)],
   [(0, [(1, 0)]), (1, [(0, 0), (2, 1)]), (2, [(1, 1), (3, 2), (4, 4)]), (3, [(2, 2), (4, 3)]), (4, [(3, 3), (2, 4)])], []⟩

example : IndexOk exUV := by
  refine ⟨rfl, ?_, ?_, ?_⟩
  · intro a ha
    simp only [exUV, exU, List.mem_cons, List.not_mem_nil, or_false] at ha
    rcases ha with rfl | rfl | rfl | rfl | rfl <;> decide
  · intro a ha t ht
    simp only [exUV, exU, List.mem_cons, List.not_mem_nil, or_false] at ha
    rcases ha with rfl | rfl | rfl | rfl | rfl <;>
      simp [View.succ, View.outOf, exUV, List.lookup] at ht <;>
      simp [exUV, exU] <;> omega
  · intro a b ha hb
    simp only [exUV, exU, List.mem_cons, List.not_mem_nil, or_false] at ha hb
    rcases ha with rfl | rfl | rfl | rfl | rfl <;> rcases hb with rfl | rfl | rfl | rfl | rfl <;> decide

example : checkAP exU [2, 1] = true := rfl
example : checkAP exU [2] = false := rfl
example : articulationPoints exUV = .ok [2, 1] := rfl

/-- the run-time checks hold on the two example views (the `_checked` theorems are not vacuous) … -/
def exV' : View := { exV with inn := derivedIn exG }
def exUV' : View := { exUV with inn := derivedIn exU }
example : C16.sfScopeB exV' 5 = true := by decide
example : C16.apScopeB exUV' = true := by decide
/-- … and each of them can fail: a root that is not a node, a repeated node id, an edge to a non-node,
a neighbour list that is not a permutation, a row for a non-node, a `to_index` that is not injective
or not below `node_bound()` -/
example : C16.sfScopeB exV' 7 = false := by decide
example : C16.wfB ⟨true, [0, 1, 1], []⟩ = false := by decide
example : C16.wfB ⟨true, [0, 1], [⟨0, 0, 2, 1⟩]⟩ = false := by decide
example : C16.viewOkB { exV' with out := [(5, [(4, 0)])] } = false := by decide
example : C16.rowsOkB { exV' with out := (9, [(1, 0)]) :: exV.out } = false := by decide
example : C16.indexOkB { exUV' with ix := [(0, 0), (1, 1), (2, 2), (3, 3), (4, 3)] } = false := by decide
example : C16.indexOkB { exUV' with nb := 4 } = false := by decide
/-- the judges accept the correct answers on the examples and reject a wrong `strict_dominators(root)` -/
example : C16.judgeSf exG 5 5 (C16.recsOf [1, 2, 3, 4, 5] ⟨5, [(1, 5), (2, 5), (3, 5), (4, 5), (5, 5)]⟩) = none := by
  decide
example : (C16.judgeSf exG 5 5 ((C16.recsOf [1, 2, 3, 4, 5] ⟨5, [(1, 5), (2, 5), (3, 5), (4, 5), (5, 5)]⟩).map
    fun rc => if rc.b = 5 then { rc with strict := some [5] } else rc)).isSome = true := by decide
example : C16.judgeAp exU [1, 2] = none := by decide

-- wave 6: the lazy iterators on the Cooper–Harvey–Kennedy example (`exV`, root 5)
example : (DomIter.mk ⟨5, [(1, 5), (2, 5), (3, 5), (4, 5), (5, 5)]⟩ (some 1)).take 4 = [1, 5] := rfl
example : ((Doms.mk 5 [(1, 5), (2, 5), (3, 5), (4, 5), (5, 5)]).immediatelyDominatedByIter 5).take 2 = [1, 2] := rfl
example : ((Doms.mk 5 [(1, 5), (2, 5), (3, 5), (4, 5), (5, 5)]).immediatelyDominatedByIter 5).next.2.sizeHint = (0, some 4) := rfl
-- an id that is not a node: the hypotheses of `C16_absent_id_no_entry` are satisfiable
example : C16.sfScopeB exV' 5 = true ∧ 7 ∉ exV'.g.nodes := by decide
-- `C16_dominators_are_nodes` / `C16_answers_depend_on_adjacency`: well-formed graph, root a node, a reachable node; two
-- different graphs with the same nodes and adjacency (an extra parallel copy of 5 → 4)
example : exG.WellFormed ∧ 5 ∈ exG.nodes ∧ Reach exG 5 4 :=
  ⟨(C16_wellformed_check exG).mp (by decide), by decide, Reach.step (Reach.refl 5) ⟨⟨0, 5, 4, 1⟩, by decide, Or.inl ⟨rfl, rfl⟩⟩⟩
example : ({ exG with edges := exG.edges ++ [⟨9, 5, 4, 1⟩] } : MGraph).nodes = exG.nodes ∧
    ∀ a b, ({ exG with edges := exG.edges ++ [⟨9, 5, 4, 1⟩] } : MGraph).Adj a b ↔ exG.Adj a b :=
  ⟨rfl, W6.adj_addParallel exG [⟨9, 5, 4, 1⟩] (by decide)⟩
-- `C16_parallel_copies_irrelevant`: a non-empty `extra`
example : ∀ e ∈ [(⟨9, 5, 4, 1⟩ : Edge)], ∃ e' ∈ exG.edges, e'.src = e.src ∧ e'.tgt = e.tgt := by decide
-- the D23 classifier does not accept a view that merely drops a neighbour, nor a correct view
example : C16.d23ViewB { exD23V with out := [(0, [(0, 2), (0, 3)]), (1, [(2, 1), (0, 0)]), (2, [(1, 1)])] } = false := by decide
example : C16.graphScopeB { exD23V with out := [(0, [(1, 0), (0, 2), (0, 3)]), (1, [(2, 1), (0, 0)]), (2, [(1, 1)])] } = true := by decide

end PetgraphModel.C16T
