import PetgraphModel.Proofs.C16Judge
import PetgraphModel.Proofs.C16Accessors
import PetgraphModel.Proofs.C16Chk
import PetgraphModel.Proofs.C16PostOrder
import PetgraphModel.Proofs.C16Artic
import PetgraphModel.Proofs.C16Cut
import PetgraphModel.Driver.C16
import PetgraphModel.Proofs.C16W2Sf
import PetgraphModel.Proofs.C16W2Acc
import PetgraphModel.Proofs.C16W2Driver
import PetgraphModel.Proofs.C16W2ApMain
/-
C16 — dominators and articulation points match their path-based definitions.

Specification: `Spec/C16.lean` (`Walk`, `Dominates`, `IsIdom`, `numComponents`, `CutVertex`).

Part A (verified checkers): the per-run judges of `Driver/C16.lean` / `Oracle/C16.lean` accept an
implementation answer only if it satisfies the clause of the property it judges — for ALL graphs
and ALL answers; they are also complete (no false alarm) whenever the reachability oracle does not
run out of fuel.
Part B: facts about the specification (dominance is decided by node removal, is antisymmetric; the
immediate dominator is unique and nothing lies between it and the node; the counting definition of
a cut vertex is the textbook "separates two other nodes").
Part C: the accessors of the model of `struct Dominators` are the closure / inverse of the idom map.
Part D: the mirror model of `simple_fast`: soundness half of the Cooper–Harvey–Kennedy fixed point
(`C16_simple_fast_partial`) and **full correctness** (`C16_simple_fast`: termination within the
model's fuel without panic, soundness and completeness; `C16_simple_fast_accessors`); the mirror
model of `articulation_points`: structural facts, no fault, and the full statement.
The two `…_statement` definitions kept from the first wave are false as written (they lack the
hypothesis `SuccBounded` — the view may not repeat a neighbour more often than the abstract graph has
edges —, `…_statement_false_witness`); the theorems prove the statements repaired by exactly that
hypothesis.
-/
namespace PetgraphModel.C16T
open PetgraphModel MGraph Oracle C16S C16O C16M C16P

/-! ## Part A — the judges are sound (and complete) -/

/-- the table the judge builds decides dominance and immediate dominance exactly -/
theorem C16_dom_table_decides (g : MGraph) (r : Nat) (T : DomTable) (h : domTable g r = some T) (a b : Nat) :
    (T.dom a b = true ↔ Reach g r b ∧ Dominates g r a b) ∧ (T.idom a b = true ↔ IsIdom g r a b) :=
  ⟨dom_iff (domTable_ok h) a b, idom_iff (domTable_ok h) a b⟩

/-- an accepted `dominators(b) = Some(o)`: `b` is reachable, `o` has no duplicates and is exactly
the set of nodes through which every walk from the root to `b` passes -/
theorem C16_judge_dominators_sound (g : MGraph) (r : Nat) (T : DomTable) (h : domTable g r = some T)
    (b : Nat) (o : List Nat) (hc : T.checkDominators b (some o) = true) :
    Reach g r b ∧ o.Nodup ∧ ∀ a, a ∈ o ↔ Dominates g r a b :=
  checkDominators_some (domTable_ok h) b o hc

/-- an accepted `dominators(b) = None`: `b` is not reachable from the root -/
theorem C16_judge_dominators_none_sound (g : MGraph) (r : Nat) (T : DomTable) (h : domTable g r = some T)
    (b : Nat) (hc : T.checkDominators b none = true) : ¬ Reach g r b :=
  checkDominators_none (domTable_ok h) b hc

theorem C16_judge_strict_sound (g : MGraph) (r : Nat) (T : DomTable) (h : domTable g r = some T)
    (b : Nat) (o : List Nat) (hc : T.checkStrict b (some o) = true) :
    Reach g r b ∧ o.Nodup ∧ ∀ a, a ∈ o ↔ StrictlyDominates g r a b :=
  checkStrict_some (domTable_ok h) b o hc

theorem C16_judge_strict_none_sound (g : MGraph) (r : Nat) (T : DomTable) (h : domTable g r = some T)
    (b : Nat) (hc : T.checkStrict b none = true) : ¬ Reach g r b :=
  checkStrict_none (domTable_ok h) b hc

/-- an accepted `immediate_dominator(b) = Some(a)`: `a` is the strict dominator closest to `b` -/
theorem C16_judge_idom_sound (g : MGraph) (r : Nat) (T : DomTable) (h : domTable g r = some T)
    (b a : Nat) (hc : T.checkIdom b (some a) = true) : IsIdom g r a b :=
  checkIdom_some (domTable_ok h) b a hc

/-- an accepted `immediate_dominator(b) = None`: `b` is the root or unreachable -/
theorem C16_judge_idom_none_sound (g : MGraph) (r : Nat) (T : DomTable) (h : domTable g r = some T)
    (b : Nat) (hc : T.checkIdom b none = true) : b = r ∨ ¬ Reach g r b :=
  checkIdom_none (domTable_ok h) b hc

/-- an accepted `immediately_dominated_by(a) = o`: exactly the nodes whose immediate dominator is `a` -/
theorem C16_judge_idb_sound (g : MGraph) (r : Nat) (T : DomTable) (h : domTable g r = some T)
    (a : Nat) (o : List Nat) (hc : T.checkIdb a o = true) : o.Nodup ∧ ∀ m, m ∈ o ↔ IsIdom g r a m :=
  checkIdb_sound (domTable_ok h) a o hc

/-- **the judge the driver runs on a `simple_fast` answer**: if it accepts, `root()` is the root
given and every record satisfies every clause of the property -/
theorem C16_judge_sf_sound (g : MGraph) (r ir : Nat) (recs : List C16.Rec)
    (h : C16.judgeSf g r ir recs = none) :
    ir = r ∧ ∀ rc ∈ recs,
      (match rc.doms with
        | some o => Reach g r rc.b ∧ o.Nodup ∧ ∀ a, a ∈ o ↔ Dominates g r a rc.b
        | none => ¬ Reach g r rc.b) ∧
      (match rc.strict with
        | some o => Reach g r rc.b ∧ o.Nodup ∧ ∀ a, a ∈ o ↔ StrictlyDominates g r a rc.b
        | none => ¬ Reach g r rc.b) ∧
      (match rc.idom with
        | some a => IsIdom g r a rc.b
        | none => rc.b = r ∨ ¬ Reach g r rc.b) ∧
      (rc.idb.Nodup ∧ ∀ m, m ∈ rc.idb ↔ IsIdom g r rc.b m) := by
  unfold C16.judgeSf at h
  split at h
  · cases h
  · rename_i T hT
    have hok := domTable_ok hT
    split at h
    · cases h
    · rename_i hroot
      split at h
      · cases h
      · refine ⟨by simpa using hroot, fun rc hrc => ?_⟩
        have hrc' := List.findSome?_eq_none_iff.mp h rc hrc
        split at hrc'
        · cases hrc'
        · rename_i h1
          split at hrc'
          · cases hrc'
          · rename_i h2
            split at hrc'
            · cases hrc'
            · rename_i h3
              split at hrc'
              · cases hrc'
              · rename_i h4
                simp only [Bool.not_eq_true, Bool.not_eq_false'] at h1 h2 h3 h4
                refine ⟨?_, ?_, ?_, checkIdb_sound hok rc.b rc.idb h4⟩
                · cases hd : rc.doms with
                  | none => rw [hd] at h1; exact checkDominators_none hok rc.b h1
                  | some o => rw [hd] at h1; exact checkDominators_some hok rc.b o h1
                · cases hd : rc.strict with
                  | none => rw [hd] at h2; exact checkStrict_none hok rc.b h2
                  | some o => rw [hd] at h2; exact checkStrict_some hok rc.b o h2
                · cases hd : rc.idom with
                  | none => rw [hd] at h3; exact checkIdom_none hok rc.b h3
                  | some a => rw [hd] at h3; exact checkIdom_some hok rc.b a h3

/-- the component counter computes the number of connected components -/
theorem C16_component_count (g : MGraph) (c : Nat) (h : compCount g = some c) : c = numComponents g :=
  compCount_spec g c h

/-- **an accepted `articulation_points` answer is exactly the set of cut vertices**: the nodes whose
removal increases the number of connected components -/
theorem C16_judge_articulation_sound (g : MGraph) (o : List Nat) (h : checkAP g o = true) :
    o.Nodup ∧ ∀ x, x ∈ o ↔ CutVertex g x :=
  checkAP_sound g o h

/-- the same for the judge the driver runs -/
theorem C16_judge_ap_sound (g : MGraph) (o : List Nat) (h : C16.judgeAp g o = none) :
    o.Nodup ∧ ∀ x, x ∈ o ↔ CutVertex g x := by
  unfold C16.judgeAp at h
  split at h
  · rename_i hc; exact checkAP_sound g o hc
  · split at h <;> cases h

/-- no false alarm: a correct `dominators(b)` answer is accepted -/
theorem C16_judge_dominators_complete (g : MGraph) (r : Nat) (T : DomTable) (h : domTable g r = some T)
    (b : Nat) (o : List Nat) (hb : Reach g r b) (hn : o.Nodup) (ho : ∀ a, a ∈ o ↔ Dominates g r a b) :
    T.checkDominators b (some o) = true :=
  checkDominators_complete (domTable_ok h) b o hb hn ho

theorem C16_judge_idom_complete (g : MGraph) (r : Nat) (T : DomTable) (h : domTable g r = some T)
    (b a : Nat) (hi : IsIdom g r a b) : T.checkIdom b (some a) = true :=
  checkIdom_complete (domTable_ok h) b a hi

theorem C16_judge_articulation_complete (g : MGraph) (o l : List Nat) (hl : cutSet g = some l)
    (hn : o.Nodup) (ho : ∀ x, x ∈ o ↔ CutVertex g x) : checkAP g o = true :=
  checkAP_complete g o l hl hn ho

/-! ## Part B — the specification -/

/-- "every path from the root to `b` passes through `a`" is decided by removing `a` -/
theorem C16_dominates_iff_cut (g : MGraph) (r a b : Nat) (hab : a ≠ b) :
    Dominates g r a b ↔ ¬ Reach (g.removeNode a) r b :=
  dominates_iff_removeNode hab

theorem C16_dominance_antisymm (g : MGraph) (r a c : Nat) (hr : Reach g r a)
    (h1 : Dominates g r a c) (h2 : Dominates g r c a) : a = c :=
  dominates_antisymm hr h1 h2

/-- "the unique strict dominator closest to `b`" -/
theorem C16_idom_unique (g : MGraph) (r a a' b : Nat) (h : IsIdom g r a b) (h' : IsIdom g r a' b) : a = a' :=
  isIdom_unique h h'

/-- the module documentation's definition follows: no node strictly between `idom(b)` and `b` -/
theorem C16_idom_nothing_between (g : MGraph) (r a b : Nat) (h : IsIdom g r a b) :
    ¬ ∃ c, StrictlyDominates g r a c ∧ StrictlyDominates g r c b :=
  isIdom_nothing_between h

theorem C16_root_has_no_idom (g : MGraph) (r a : Nat) : ¬ IsIdom g r a r := root_no_idom

/-- the component-counting definition of a cut vertex is the textbook one (and so does not depend on
the order of the node list): on an undirected graph `x` is a cut vertex iff two other nodes that are
connected in `g` are disconnected in `g − x` -/
theorem C16_cut_vertex_iff_separates (g : MGraph) (hu : g.directed = false) (hn : g.nodes.Nodup) (x : Nat) :
    CutVertex g x ↔ x ∈ g.nodes ∧ ∃ u v, u ∈ g.nodes ∧ v ∈ g.nodes ∧ u ≠ x ∧ v ≠ x ∧
      Reach g u v ∧ ¬ Reach (g.removeNode x) u v :=
  cutVertex_iff_separates g hu hn x

/-! ## Part C — the accessors of `Dominators` -/

/-- `dominators(n)` is `n` followed by `strict_dominators(n)`, and both are `None` exactly for the
nodes without an entry -/
theorem C16_accessors_dominators (d : Doms) (n : Nat) :
    d.dominators n = (d.strictDominators n).map (n :: ·) ∧
    (d.dominators n = none ↔ d.map.lookup n = none) ∧
    (d.strictDominators n = none ↔ d.map.lookup n = none) :=
  ⟨dominators_eq_cons d n, dominators_none_iff d n, strict_none_iff d n⟩

/-- `strict_dominators(n)` is the chain `idom n, idom (idom n), …` up to the node without immediate
dominator, i.e. the transitive closure of `immediate_dominator` (for every answer not cut off by the
model's iteration bound `|map| + 1`, which a cycle-free map never reaches) -/
theorem C16_accessors_strict_closure (d : Doms) (n : Nat) (l : List Nat)
    (h : d.strictDominators n = some l) (hlen : l.length < d.chainFuel) :
    IdomChain d n l ∧ ∀ a, a ∈ l ↔ IdomPlus d n a :=
  strict_closure d n l h hlen

/-- `immediately_dominated_by` is the inverse of `immediate_dominator` -/
theorem C16_accessors_idb_inverse (d : Doms) (hd : DomsWF d) (n m : Nat) :
    m ∈ d.immediatelyDominatedBy n ↔ d.immediateDominator m = some n :=
  idb_inverse d hd n m

/-! ## Part D — the mirrored algorithms -/

/-- `intersect` returns a common ancestor of its two fingers in the `doms` forest -/
theorem C16_intersect_common_ancestor (doms : List (Option Nat)) (f a b x : Nat)
    (h : intersect doms f a b = some x) : Anc doms a x ∧ Anc doms b x :=
  intersect_anc doms f a b x h

/-- **full correctness of the mirrored `simple_fast`** (statement): on every view it terminates
without panic and reports, for every node, exactly the path-based dominators. -/
def C16_simple_fast_statement : Prop :=
  ∀ (v : View) (root : Nat), ViewOk v → root ∈ v.g.nodes → v.g.WellFormed →
    ∃ d, simpleFast v root = .ok d ∧ d.root = root ∧
      (∀ b, d.dominators b = none ↔ ¬ Reach v.g root b) ∧
      ∀ b l, d.dominators b = some l → l.Nodup ∧ ∀ a, a ∈ l ↔ Dominates v.g root a b

/-- every view accepted by the driver (`viewOkB`: neighbour lists are permutations of the abstract
graph's) satisfies the extra hypothesis of `C16_simple_fast` / `C16_articulation` -/
theorem C16_driver_views_bounded (v : View) (h : C16.viewOkB v = true) :
    ∀ a, a ∈ v.g.nodes → (v.succ a).length ≤ (v.g.succ a).length :=
  fun a ha => Nat.le_of_eq (viewOkB_succ_length v h a ha)

/-- `C16_simple_fast_statement` is **false as written**: `ViewOk` fixes only the *set* of neighbours
the encoding enumerates, while the fuel of the model (`postFuel`) is computed from the number of
nodes and edges of the abstract graph.  Witness: the graph `0 → 1` (one edge) seen through a view
whose neighbour list of `0` repeats the target 49 times — the `DfsPostOrder` model has to pop 49
stack entries in one call and reports `FUEL`.  (No view built by the driver is of this kind:
`Driver/C16.lean` `viewOkB` requires the neighbour lists to be permutations of `MGraph.succ`.)
The repaired statement `C16_simple_fast` below adds the length half of that (`SuccBounded`). -/
theorem C16_simple_fast_statement_false_witness : ¬ C16_simple_fast_statement := by
  intro h
  let g : MGraph := ⟨true, [0, 1], [⟨0, 0, 1, 1⟩]⟩
  let v : View := ⟨g, 2, [(0, 0), (1, 1)], [(0, List.replicate 49 (1, 0))], []⟩
  have hv : ViewOk v := by
    intro a b
    by_cases ha : a = 0
    · subst ha
      simp only [View.succ, View.outOf, v, g, MGraph.Adj]
      simp [List.lookup]
      constructor
      · rintro rfl; rfl
      · intro e; exact e.symm
    · have e0 : (a == 0) = false := by simpa using ha
      simp only [View.succ, View.outOf, v, g, MGraph.Adj]
      simp [List.lookup, e0]
      intro e; exact (ha e.symm).elim
  obtain ⟨d, hd, _⟩ := h v 0 hv (by simp [v, g]) (by
    refine ⟨by simp [v, g], ?_⟩
    intro e he
    simp only [v, g, List.mem_singleton] at he
    subst he
    simp [v, g])
  have : (match simpleFast v 0 with | .fuel => true | _ => false) = true := by decide
  rw [hd] at this
  cases this

/-- **full correctness of the mirrored `simple_fast`** (the repaired `C16_simple_fast_statement`:
the only addition is `hb`: for no node does the encoding enumerate more neighbours than the abstract
graph has incident edges — `C16_driver_views_bounded`: true of every view the driver accepts): on every such view and every root the model terminates without panic
within its fuel, `root()` is the root given, exactly the nodes reachable from the root have an
entry, and for every such node `dominators(b)` lists — without repetition — exactly the nodes that
lie on every walk from the root to `b` (soundness *and* completeness of the
Cooper–Harvey–Kennedy fixed point). -/
theorem C16_simple_fast (v : View) (root : Nat) (hv : ViewOk v)
    (hb : ∀ a, a ∈ v.g.nodes → (v.succ a).length ≤ (v.g.succ a).length)
    (hroot : root ∈ v.g.nodes) (hwf : v.g.WellFormed) :
    ∃ d, simpleFast v root = .ok d ∧ d.root = root ∧
      (∀ b, d.dominators b = none ↔ ¬ Reach v.g root b) ∧
      ∀ b l, d.dominators b = some l → l.Nodup ∧ ∀ a, a ∈ l ↔ Dominates v.g root a b :=
  W2Chk.simpleFast_total v root hv (postOrder_total v root hv (succBounded_of_nodes v hv hwf hb) hwf hroot)

/-- **the other accessors on the result of the mirrored `simple_fast`** (consequences of
`C16_simple_fast`): `immediate_dominator(b)` is `Some(a)` exactly when `a` is the strict dominator of
`b` closest to `b` (`IsIdom`) and `None` exactly for the root and the unreachable nodes;
`strict_dominators(b)` is `None` exactly for the unreachable nodes and otherwise lists, without
repetition, exactly the strict dominators; `immediately_dominated_by(n)` is exactly the set of nodes
whose immediate dominator is `n`. -/
theorem C16_simple_fast_accessors (v : View) (root : Nat) (hv : ViewOk v)
    (hb : ∀ a, a ∈ v.g.nodes → (v.succ a).length ≤ (v.g.succ a).length)
    (hroot : root ∈ v.g.nodes) (hwf : v.g.WellFormed) :
    ∃ d, simpleFast v root = .ok d ∧
      (∀ b a, d.immediateDominator b = some a ↔ IsIdom v.g root a b) ∧
      (∀ b, d.immediateDominator b = none ↔ b = root ∨ ¬ Reach v.g root b) ∧
      (∀ b, d.strictDominators b = none ↔ ¬ Reach v.g root b) ∧
      (∀ b l, d.strictDominators b = some l → l.Nodup ∧ ∀ a, a ∈ l ↔ StrictlyDominates v.g root a b) ∧
      (∀ n m, m ∈ d.immediatelyDominatedBy n ↔ IsIdom v.g root n m) := by
  obtain ⟨d, hd, h1, h2, h3⟩ := C16_simple_fast v root hv hb hroot hwf
  have hex : W2Acc.Exact v.g root d := ⟨h1, h2, h3⟩
  have hwfd := (simpleFast_sound v root d hv (postOrderSpec_of_viewOk v hv root) hd).2.2.2
  exact ⟨d, hd, W2Acc.idom_iff hex, W2Acc.idom_none_iff hex, W2Acc.strict_none hex,
    W2Acc.strict_some hex, W2Acc.idb_iff hex hwfd⟩

/-- what `simple_fast` relies on from `DfsPostOrder` (the walker model `Trav.postNext` of C08), proved
here for every consistent view: run to exhaustion from the root it emits exactly the nodes reachable
from the root, each once -/
theorem C16_postorder_for_simple_fast (v : View) (hv : ViewOk v) (root : Nat) (post : List Nat)
    (h : postOrderFrom v (postFuel v) (postFuel v + 4) { stack := [root] } [] = some post) :
    post.Nodup ∧ ∀ x, x ∈ post ↔ Reach v.g root x :=
  postOrderSpec_of_viewOk v hv root post h

/-- proved part, for every consistent view and every root: whenever the model returns a result,
`root()` is the root, **exactly the nodes reachable from the root have an entry** (`dominators(b)` is
`None` iff `b` is unreachable), **every node it reports as a dominator of `b` really lies on
every walk from the root to `b`** (soundness of the Cooper–Harvey–Kennedy fixed point), and the
map is well-formed (`DomsWF`: one entry per node, only the root is mapped to itself).

Missing for the full statement: (1) completeness — every true dominator is on the reported chain
(a fixed point of the equations alone does not give it: smaller fixed points exist; it needs the
monotonicity argument of the iteration from the all-undefined table); (2) termination without
panic within the model's fuel (needs: every non-root node has a predecessor later in post-order). -/
theorem C16_simple_fast_partial (v : View) (root : Nat) (d : Doms) (hv : ViewOk v)
    (h : simpleFast v root = .ok d) :
    d.root = root ∧
    (∀ b, d.dominators b = none ↔ ¬ Reach v.g root b) ∧
    (∀ b l, d.dominators b = some l → ∀ a ∈ l, Dominates v.g root a b) ∧
    DomsWF d :=
  simpleFast_sound v root d hv (postOrderSpec_of_viewOk v hv root) h

/-- consequently, on every result of the mirrored `simple_fast`, `immediately_dominated_by` is the
inverse of `immediate_dominator` -/
theorem C16_simple_fast_idb_inverse (v : View) (root : Nat) (d : Doms) (hv : ViewOk v)
    (h : simpleFast v root = .ok d) (n m : Nat) :
    m ∈ d.immediatelyDominatedBy n ↔ d.immediateDominator m = some n :=
  idb_inverse d (simpleFast_sound v root d hv (postOrderSpec_of_viewOk v hv root) h).2.2.2 n m

/-- every immediate dominator the mirrored `simple_fast` reports strictly dominates its node -/
theorem C16_simple_fast_idom_sound (v : View) (root : Nat) (d : Doms) (hv : ViewOk v)
    (h : simpleFast v root = .ok d) (b a : Nat) (hi : d.immediateDominator b = some a) :
    StrictlyDominates v.g root a b := by
  obtain ⟨_, _, hs, hwf⟩ := simpleFast_sound v root d hv (postOrderSpec_of_viewOk v hv root) h
  have hlk : b ≠ d.root ∧ d.map.lookup b = some a := by
    unfold Doms.immediateDominator at hi
    split at hi
    · cases hi
    · rename_i hne; exact ⟨hne, hi⟩
  have hmem := (lookup_iff_mem d.map hwf.keys b a).mp hlk.2
  refine ⟨fun hab => hlk.1 ((hwf.rootSelf b a hmem).mp hab), ?_⟩
  apply hs b (d.chain (d.chainFuel + 1) (some b))
  · unfold Doms.dominators; simp [hlk.2]
  · simp [Doms.chain, Doms.chainFuel, hi]

/-- **full correctness of the mirrored `articulation_points`** (statement): on every undirected view
with usable indices it terminates without panic and returns exactly the cut vertices. -/
def C16_articulation_statement : Prop :=
  ∀ (v : View), ViewOk v → v.g.directed = false → v.g.WellFormed → IndexOk v →
    ∃ l, articulationPoints v = .ok l ∧ l.Nodup ∧ ∀ x, x ∈ l ↔ CutVertex v.g x

/-- `C16_articulation_statement` is **false as written**, for the same reason as
`C16_simple_fast_statement`: `ViewOk` fixes only the set of neighbours, the fuel `apFuel` is computed
from the abstract graph.  Witness: the undirected graph `0 – 1` (one edge) seen through a view whose
neighbour list of `0` repeats `1` 22 times: the model reports `FUEL`. -/
theorem C16_articulation_statement_false_witness : ¬ C16_articulation_statement := by
  intro h
  let g : MGraph := ⟨false, [0, 1], [⟨0, 0, 1, 1⟩]⟩
  let v : View := ⟨g, 2, [(0, 0), (1, 1)], [(0, List.replicate 22 (1, 0)), (1, [(0, 0)])], []⟩
  have hsucc0 : ∀ b, b ∈ v.succ 0 ↔ b = 1 := by
    intro b; simp [View.succ, View.outOf, v, List.lookup]
  have hsucc1 : ∀ b, b ∈ v.succ 1 ↔ b = 0 := by
    intro b; simp [View.succ, View.outOf, v, List.lookup]
  have hsucc : ∀ a, a ≠ 0 → a ≠ 1 → v.succ a = [] := by
    intro a h0 h1
    have e0 : (a == 0) = false := by simpa using h0
    have e1 : (a == 1) = false := by simpa using h1
    simp [View.succ, View.outOf, v, List.lookup, e0, e1]
  have hadj : ∀ a b, v.g.Adj a b ↔ (a = 0 ∧ b = 1) ∨ (a = 1 ∧ b = 0) := by
    intro a b
    simp only [v, g, MGraph.Adj]
    simp
    omega
  have hv : ViewOk v := by
    intro a b
    rw [hadj]
    by_cases ha : a = 0
    · subst ha; rw [hsucc0]; omega
    · by_cases ha1 : a = 1
      · subst ha1; rw [hsucc1]; omega
      · rw [hsucc a ha ha1]
        simp only [List.not_mem_nil, false_iff]
        omega
  have hnodes : ∀ a, a ∈ v.g.nodes ↔ a = 0 ∨ a = 1 := by intro a; simp [v, g]
  have hi : IndexOk v := by
    refine ⟨rfl, ?_, ?_, ?_⟩
    · intro a ha
      rcases (hnodes a).mp ha with rfl | rfl <;> decide
    · intro a ha t ht
      rcases (hnodes a).mp ha with rfl | rfl
      · exact (hnodes t).mpr (Or.inr ((hsucc0 t).mp ht))
      · exact (hnodes t).mpr (Or.inl ((hsucc1 t).mp ht))
    · intro a b ha hb
      rcases (hnodes a).mp ha with rfl | rfl <;> rcases (hnodes b).mp hb with rfl | rfl <;> decide
  obtain ⟨l, hl, _⟩ := h v hv rfl (by
    refine ⟨by simp [v, g], ?_⟩
    intro e he
    simp only [v, g, List.mem_singleton] at he
    subst he
    simp [v, g]) hi
  have : (match articulationPoints v with | .error _ => true | _ => false) = true := by decide
  rw [hl] at this
  cases this

/-- **full correctness of the mirrored `articulation_points`** (the repaired
`C16_articulation_statement`; the only addition is `hb`: for no node does the encoding enumerate more
neighbours than the abstract graph has incident edges — `C16_driver_views_bounded`): on every
undirected view with usable indices the iterative Tarjan low-link search terminates within the
model's fuel without panic and returns, without repetition, exactly the cut vertices — the nodes
whose removal increases the number of connected components (multigraphs with parallel edges and
self-loops, any number of components, any neighbour order, any injective `to_index` below
`node_bound()`). -/
theorem C16_articulation (v : View) (hv : ViewOk v)
    (hb : ∀ a, a ∈ v.g.nodes → (v.succ a).length ≤ (v.g.succ a).length)
    (hu : v.g.directed = false) (hwf : v.g.WellFormed) (hi : IndexOk v) :
    ∃ l, articulationPoints v = .ok l ∧ l.Nodup ∧ ∀ x, x ∈ l ↔ CutVertex v.g x :=
  articulationPoints_correct v hv (succBounded_of_nodes v hv hwf hb) hu hwf hi

/-- proved part: the search never inserts a node twice into its result set, and every index it
reports carries a discovery time, i.e. was visited by the search.

Missing for the full statement: the low-link invariant of Tarjan's search (for a finished child `c`
of `u`: `low[c] ≥ disc[u]` iff no node of `c`'s subtree has an edge to a proper ancestor of `u`),
its consequence that the two insertion rules fire exactly at the cut vertices, and termination
within the model's fuel. -/
theorem C16_articulation_partial (v : View) (st : AP) (h : outer v v.g.nodes (AP.new v.nb) = .ok st) :
    st.aps.Nodup ∧ ∀ i ∈ st.aps, i ∈ st.visited :=
  outer_aps v st h

/-- **no fault is reachable in `articulation_points`**: on every view whose indices are usable
(`IndexOk`: `to_index` of every node is below `node_bound()`, neighbours are nodes) no table access of
the mirrored search is out of bounds and `from_index` is only applied to indices of nodes — the
property the D11 repair (tables sized by `node_bound()`) established.  (`FUEL` is the model's own
step bound, not a behaviour of the code.) -/
theorem C16_articulation_no_panic (v : View) (hi : IndexOk v) :
    (∃ l, articulationPoints v = .ok l) ∨ articulationPoints v = .error "FUEL" :=
  articulationPoints_no_fault v hi

/-! ## the hypotheses are satisfiable: concrete non-trivial instances -/

/-- the irreducible flow graph of Cooper–Harvey–Kennedy, figure 2: 5→4, 5→3, 4→1, 3→2, 1⇄2 -/
def exG : MGraph :=
  ⟨true, [1, 2, 3, 4, 5], [⟨0, 5, 4, 1⟩, ⟨1, 5, 3, 1⟩, ⟨2, 4, 1, 1⟩, ⟨3, 3, 2, 1⟩, ⟨4, 1, 2, 1⟩, ⟨5, 2, 1, 1⟩]⟩

def exV : View :=
  ⟨exG, 6, [(1, 1), (2, 2), (3, 3), (4, 4), (5, 5)],
   [(5, [(4, 0), (3, 1)]), (4, [(1, 2)]), (3, [(2, 3)]), (1, [(2, 4)]), (2, [(1, 5)])], []⟩

example : (domTable exG 5).isSome = true := rfl
example : ((domTable exG 5).map fun T => T.checkIdom 1 (some 5)) = some true := rfl
example : ((domTable exG 5).map fun T => T.checkIdom 1 (some 4)) = some false := rfl
example : ((domTable exG 5).map fun T => T.checkDominators 2 (some [2, 5])) = some true := rfl

/-- the model of `simple_fast` on that graph: everything is immediately dominated by 5 (two sweeps
change the table, a third confirms the fixed point) -/
example : (match simpleFast exV 5 with | .ok d => some d | _ => none) =
    some { root := 5, map := [(1, 5), (2, 5), (3, 5), (4, 5), (5, 5)] } := rfl

example : ViewOk exV := by
  intro a b
  rw [← MGraph.mem_succ]
  by_cases h5 : a = 5
  · subst h5; simp [View.succ, View.outOf, exV, exG, MGraph.succ]
  by_cases h4 : a = 4
  · subst h4; simp [View.succ, View.outOf, exV, exG, MGraph.succ, List.lookup]
  by_cases h3 : a = 3
  · subst h3; simp [View.succ, View.outOf, exV, exG, MGraph.succ, List.lookup]
  by_cases h1 : a = 1
  · subst h1; simp [View.succ, View.outOf, exV, exG, MGraph.succ, List.lookup]
  by_cases h2 : a = 2
  · subst h2; simp [View.succ, View.outOf, exV, exG, MGraph.succ, List.lookup]
  have e5 : (a == 5) = false := by simpa using h5
  have e4 : (a == 4) = false := by simpa using h4
  have e3 : (a == 3) = false := by simpa using h3
  have e1 : (a == 1) = false := by simpa using h1
  have e2 : (a == 2) = false := by simpa using h2
  simp [View.succ, View.outOf, exV, exG, MGraph.succ, List.lookup, e1, e2, e3, e4, e5]
  omega

/-- a path 0 – 1 – 2 with a pendant triangle at 2: cut vertices 1 and 2 -/
def exU : MGraph :=
  ⟨false, [0, 1, 2, 3, 4], [⟨0, 0, 1, 1⟩, ⟨1, 1, 2, 1⟩, ⟨2, 2, 3, 1⟩, ⟨3, 3, 4, 1⟩, ⟨4, 4, 2, 1⟩]⟩

def exUV : View :=
  ⟨exU, 5, [(0, 0), (1, 1), (2, 2), (3, 3), (4, 4)],
   [(0, [(1, 0)]), (1, [(0, 0), (2, 1)]), (2, [(1, 1), (3, 2), (4, 4)]), (3, [(2, 2), (4, 3)]), (4, [(3, 3), (2, 4)])], []⟩

example : IndexOk exUV := by
  refine ⟨rfl, ?_, ?_, ?_⟩
  · intro a ha
    simp only [exUV, exU, List.mem_cons, List.not_mem_nil, or_false] at ha
    rcases ha with rfl | rfl | rfl | rfl | rfl <;> decide
  · intro a ha t ht
    simp only [exUV, exU, List.mem_cons, List.not_mem_nil, or_false] at ha
    rcases ha with rfl | rfl | rfl | rfl | rfl <;>
      simp [View.succ, View.outOf, exUV, List.lookup] at ht <;>
      simp [exUV, exU] <;> omega
  · intro a b ha hb
    simp only [exUV, exU, List.mem_cons, List.not_mem_nil, or_false] at ha hb
    rcases ha with rfl | rfl | rfl | rfl | rfl <;> rcases hb with rfl | rfl | rfl | rfl | rfl <;> decide

example : checkAP exU [2, 1] = true := rfl
example : checkAP exU [2] = false := rfl
example : articulationPoints exUV = .ok [2, 1] := rfl

end PetgraphModel.C16T
