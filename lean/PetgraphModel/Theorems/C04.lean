import PetgraphModel.Model.Matrix
import PetgraphModel.Spec.MatrixSimpleGraph
import PetgraphModel.Proofs.Matrix
import PetgraphModel.Proofs.MatrixGraph
import PetgraphModel.Extracted.Matrix
/-
C04 — `MatrixGraph` stays a faithful simple graph across growth, removal and id reuse.

Only property theorems live here; the lemmas are in `Proofs/Matrix.lean` (arithmetic, relocation
loop) and `Proofs/MatrixGraph.lean` (`IdStorage`, invariant, refinement).  Every theorem is about the
mirror model `Matrix` (tied to `/repo/src/matrix_graph.rs` by the exact correspondence run of
`./check C04`) and the abstract simple graph `MatrixSpec.G`.

Reading guide (clauses of the property → theorems)
* "growing the matrix past any capacity boundary never loses, moves or invents an edge":
  `C04_extend_flat` (the in-place relocation, every `old < new`), `C04_swap_ranges_disjoint`,
  `C04_extend_lin` (both layouts, in terms of pairs), `C04_growth_invisible` (every observation);
* the index arithmetic: `C04_extracted_agrees` (the formulas are the source's), `C04_flat_lt/_inj`, `C04_tri_lt/_inj/_symm`, `C04_grow_rule`;
* "a node id is stable until that node is removed, a reused id starts with no incident edges":
  `C04_ids_add`, `C04_ids_remove`, `C04_ids_iter`, `C04_reused_id_isolated`;
* "all describe one simple graph: exactly the edges added and not since removed, with their latest
  weights": `C04_init`, `C04_refines_step`, `C04_all_histories`, `C04_observers`, `C04_edge_count`;
* "an undirected edge is visible from both endpoints": `C04_undirected_symmetric`;
* the documented panics / errors: `C04_notzero_rejects_zero`, `C04_add_node_limit`,
  `C04_try_update_between_live`, `C04_no_fault`.
-/
namespace PetgraphModel.C04T
open PetgraphModel PetgraphModel.Matrix PetgraphModel.MatrixSpec PetgraphModel.MatrixProofs

/-- representation invariant of the matrix graph: `IdStorage` consistent, the vector has exactly the
length of the layout (`cap²` / `cap(cap+1)/2`) — the precondition of every index —, no zero stored
in a `NotZero` matrix, ids fit the index type -/
abbrev Inv := MatrixProofs.Inv
/-- abstraction relation to the simple graph (same node weights; same edge weight for *every* pair
of ids; `edge_count` = number of edges; `node_count` = number of nodes) -/
abbrev R := MatrixProofs.R
/-- what the property says a call does to the simple graph and what it answers -/
abbrev specStep := MatrixProofs.specStep
/-- the property's quantifier: edge-writing calls are between existing nodes -/
abbrev Valid := MatrixProofs.Valid
abbrev ValidHist := MatrixProofs.ValidHist
abbrev absRun := MatrixProofs.absRun
abbrev absOuts := MatrixProofs.absOuts
abbrev idOf := MatrixProofs.idOf

/-! ## position formulas and growth rule -/

/-- **tie to the source by regeneration**: the definitions `tools/extract_matrix.py` generates from
`/repo/src/matrix_graph.rs` (`MIN_CAPACITY`, the bodies of the two position functions, the growth
rule) are the model's, so every theorem below about `flatPos`/`triPos`/`growCap` is a theorem about
the formulas in the source as it is now; a changed formula breaks this proof. -/
theorem C04_extracted_agrees :
    Extracted.Matrix.minCapacity = minCapacity ∧
    (∀ r c w, Extracted.Matrix.flatPos r c w = flatPos r c w) ∧
    (∀ r c, Extracted.Matrix.triPos r c = triPos r c) ∧
    (∀ n, Extracted.Matrix.grow nextPow2 n = growCap n) := by
  -- the generated definitions are in the extractor's canonical form (sorted sum of products, `max`/`min` for the
  -- swap of the triangular layout), whatever the spelling in the source: the proof goes through that form once
  refine ⟨rfl, fun r c w => ?_, fun r c => ?_, fun _ => rfl⟩
  · simp only [Extracted.Matrix.flatPos, flatPos]; omega
  · simp only [Extracted.Matrix.triPos, triPos]
    by_cases h : r > c
    · have h1 : max c r = r := by omega
      have h2 : min c r = c := by omega
      simp only [h, if_true, h1, h2, Nat.mul_add, Nat.mul_one]
      omega
    · have h1 : max c r = c := by omega
      have h2 : min c r = r := by omega
      simp only [h, if_false, h1, h2, Nat.mul_add, Nat.mul_one]
      omega

/-- `to_flat_square_matrix_position` stays below the allocated length `width²`. -/
theorem C04_flat_lt {r c w : Nat} (hr : r < w) (hc : c < w) : flatPos r c w < w * w :=
  flatPos_lt hr hc

/-- … and is injective on columns below the width. -/
theorem C04_flat_inj {r c r' c' w : Nat} (hc : c < w) (hc' : c' < w)
    (e : flatPos r c w = flatPos r' c' w) : r = r' ∧ c = c' :=
  flatPos_inj hc hc' e

/-- `to_lower_triangular_matrix_position` stays below the length `extend_lower_triangular_matrix`
allocates for capacity `n` (`to_lower_triangular_matrix_position(n-1, n-1) + 1`). -/
theorem C04_tri_lt {r c n : Nat} (hr : r < n) (hc : c < n) :
    triPos r c < triPos (n - 1) (n - 1) + 1 := by
  have h := triPos_lt hr hc
  have hd := triPos_diag (n - 1)
  rw [show n - 1 + 1 = n by omega] at hd
  omega

/-- … it identifies exactly the two orientations of a pair … -/
theorem C04_tri_inj {r c r' c' : Nat} (e : triPos r c = triPos r' c') :
    (r = r' ∧ c = c') ∨ (r = c' ∧ c = r') :=
  triPos_inj e

/-- … and does not depend on the orientation. -/
theorem C04_tri_symm (r c : Nat) : triPos r c = triPos c r := triPos_comm r c

/-- the growth rule `max(next_power_of_two(want), MIN_CAPACITY)`: covers what is wanted, is at
least `MIN_CAPACITY = 4`, `next_power_of_two` yields a power of two. -/
theorem C04_grow_rule (want : Nat) :
    want ≤ growCap want ∧ 4 ≤ growCap want ∧ want ≤ nextPow2 want ∧ ∃ k, nextPow2 want = 2 ^ k :=
  ⟨(le_growCap want).1, (le_growCap want).2, le_nextPow2 want, isPow2_nextPow2 want⟩

/-! ## growth -/

/-- **`extend_flat_square_matrix`, for ALL `old < new`** (not only the 4/8/16/32/64 steps, and
including the exact non-power-of-two capacities of `with_capacity`): on a vector of length `old²`,
resized to `new²` with the null element `d`, the in-place relocation loop terminates without any
index out of range / violated SAFETY precondition / failing `debug_assert!`; the result has length
`new²`; cell `(i, j)` of the new layout holds cell `(i, j)` of the old one for `i, j < old`; every
other cell is null. -/
theorem C04_extend_flat {α : Type} (d : α) (old new : Nat) (h : old < new)
    (v : Array α) (hv : v.size = old * old) :
    ∃ r, relocRows old new old (resizeWith v (new * new) d) = .ok r ∧ r.size = new * new ∧
      (∀ i j, i < old → j < old → r[i * new + j]? = v[i * old + j]?) ∧
      (∀ p, p < new * new → (p / new ≥ old ∨ p % new ≥ old) → r[p]? = some d) :=
  relocate_spec d v old new h hv

/-- the same for the function as called (`exact` = `with_capacity`, otherwise the growth rule). -/
theorem C04_extend_flat_call {α : Type} (d : α) (v : Array α) (old want : Nat) (exact : Bool)
    (h : old < want) (hv : v.size = old * old) :
    let new := if exact then want else growCap want
    ∃ r, extendFlat d v old want exact = .ok (r, new) ∧ old < new ∧ want ≤ new ∧ r.size = new * new ∧
      (∀ i j, i < old → j < old → r[i * new + j]? = v[i * old + j]?) ∧
      (∀ p, p < new * new → (p / new ≥ old ∨ p % new ≥ old) → r[p]? = some d) :=
  extendFlat_spec d v old want exact h hv

/-- SAFETY of the `unsafe` block: whenever the loop body takes the `swap_nonoverlapping` branch
(`pos + old <= new_pos`), the two ranges `[pos, pos+old)` and `[new_pos, new_pos+old)` are disjoint
and inside the vector of length `new²`, and both `debug_assert!`s (strict `<`) hold; in the other
branch every swapped index is in range as well. -/
theorem C04_swap_ranges_disjoint {old new c : Nat} (hon : old < new) (hc : c < old) :
    let pos := c * old
    let newPos := c * new
    (pos + old ≤ newPos → (∀ i j, i < old → j < old → pos + i ≠ newPos + j) ∧
      pos + old < new * new ∧ newPos + old < new * new) ∧
    (∀ i, i < old → pos + i < new * new ∧ newPos + i < new * new) := by
  intro pos newPos
  obtain ⟨n1, n2, _, n4, _⟩ := row_arith hon hc
  refine ⟨fun hb => ⟨fun i j hi hj => ?_, ?_, ?_⟩, fun i hi => ⟨?_, ?_⟩⟩ <;>
    simp only [pos, newPos] at * <;> omega

/-- **both layouts, in terms of pairs**: after `extend_linearized_matrix` to a larger capacity the
cell of every pair below the new capacity is the old cell of that pair if the pair was below the old
capacity, and null otherwise. -/
theorem C04_extend_lin (dir : Bool) (a : Array Cell) (old want : Nat) (exact : Bool)
    (hsz : a.size = adjSize dir old) (hw : old < want) :
    ∃ g new, extendLin dir none a old want exact = .ok (g, new) ∧ want ≤ new ∧ g.size = adjSize dir new ∧
      (∀ x y, max x y < new →
        g[linPos dir x y new]?.join = if max x y < old then a[linPos dir x y old]?.join else none) :=
  extendLin_spec dir a old want exact hsz hw

/-- **growth is invisible**: `extend_capacity_for_edge` never faults, makes room for the pair, and
changes no observation at all — no edge is lost, moved or invented, for any pair of ids. -/
theorem C04_growth_invisible {s : State} (h : Inv s) (a b : Nat) :
    ∃ s1, extendForEdge s a b = .ok s1 ∧ Inv s1 ∧ max a b < s1.cap ∧ s.cap ≤ s1.cap ∧
      (∀ x y, getEdgeWeight s1 x y = getEdgeWeight s x y) ∧
      s1.nodes = s.nodes ∧ s1.nbEdges = s.nbEdges ∧ s1.dir = s.dir ∧ s1.nz = s.nz ∧ s1.ixMax = s.ixMax :=
  extendForEdge_spec h a b

/-! ## `IdStorage` refines "set of live ids" -/

/-- `add`: never faults; the id handed out is **not live**; afterwards it is live with the given
weight and nothing else changed; `len` grows by one; `upper_bound` exceeds the id. -/
theorem C04_ids_add {s : IdStorage} (h : Ids.Inv s) (w : Int) :
    ∃ s' id, s.add w = .ok (s', id) ∧ Ids.Inv s' ∧ s.get id = none ∧ s'.get id = some w ∧
      (∀ j, j ≠ id → s'.get j = s.get j) ∧ s'.len = s.len + 1 ∧ id < s'.upperBound := by
  obtain ⟨s', id, e, hi, h1, h2, h3, h4, h5, _⟩ := Ids.add_spec h w
  exact ⟨s', id, e, hi, h1, h2, h3, h4, h5⟩

/-- `remove` frees exactly that id (and is the documented panic, changing nothing, on an id that is
not live). -/
theorem C04_ids_remove {s : IdStorage} (h : Ids.Inv s) (id : Nat) :
    (∀ w, s.get id = some w → ∃ s', s.remove id = .ok (some (s', w)) ∧ Ids.Inv s' ∧ s'.get id = none ∧
      (∀ j, j ≠ id → s'.get j = s.get j) ∧ s'.len + 1 = s.len) ∧
    (s.get id = none → s.remove id = .ok none) := by
  refine ⟨fun w hw => ?_, Ids.remove_dead id⟩
  obtain ⟨s', e, hi, h1, h2, h3, _⟩ := Ids.remove_spec h id w hw
  exact ⟨s', e, hi, h1, h2, h3⟩

/-- `iter_ids` = the live ids, ascending, without repetition; `len` = their number;
`upper_bound` (= `node_bound`) exceeds every live id. -/
theorem C04_ids_iter {s : IdStorage} (h : Ids.Inv s) :
    (∀ i, i ∈ s.ids ↔ (s.get i).isSome = true) ∧ s.ids.Pairwise (· < ·) ∧ s.ids.Nodup ∧
    s.len = s.ids.length ∧ ∀ i, (s.get i).isSome = true → i < s.upperBound :=
  ⟨Ids.mem_ids_iff_live h, Ids.ids_sorted s, Ids.ids_nodup s, Ids.len_eq_length_ids h,
    fun i hi => ((h.live i).1 hi).1⟩

/-! ## refinement to the simple graph -/

/-- every constructor (`with_capacity(k)` for every `k`, `default`, `new`, `new_undirected` are
`k = 0`) yields the empty simple graph, with room for `k` nodes. -/
theorem C04_init (dir nz : Bool) (ixMax k : Nat) :
    ∃ s, withCapacity dir nz ixMax k = .ok s ∧ Inv s ∧ R s (G.empty dir) ∧ s.dir = dir ∧ s.nz = nz ∧
      s.ixMax = ixMax ∧ k ≤ s.cap :=
  withCapacity_spec dir nz ixMax k

/-- **every call refines the simple graph**: under invariant and abstraction relation, a call
inside the property's quantifier (any arguments for removals/queries/node calls; live endpoints for
edge-writing calls) answers exactly what the abstract machine answers — including `Ok` for
`try_update_edge` between live nodes, the documented panics, `None`/`Err` — never faults, and
re-establishes invariant and relation.  The id of a new node is not a live id. -/
theorem C04_refines_step {s : State} {g : G} (h : Inv s) (r : R s g) (op : Op) (hv : Valid s.nz g op) :
    let id := idOf (step s op).2
    (step s op).2 = (specStep s.nz s.ixMax g op id).2 ∧
    Inv (step s op).1 ∧ R (step s op).1 (specStep s.nz s.ixMax g op id).1 ∧
    (∀ w, (op = .addNode w ∨ op = .tryAddNode w) → g.nodeCount ≠ s.ixMax → g.live id = false) :=
  step_refines h r op hv

/-- **all histories**: from any constructor, after any finite call sequence inside the property's
quantifier, the invariant holds, the state is related to the abstract simple graph the sequence
describes, and every answer was the abstract machine's. -/
theorem C04_all_histories (dir nz : Bool) (ixMax k : Nat) (ops : List Op) :
    ∃ s0, withCapacity dir nz ixMax k = .ok s0 ∧
      (ValidHist s0 (G.empty dir) ops →
        Inv (run s0 ops).1 ∧ R (run s0 ops).1 (absRun s0 (G.empty dir) ops) ∧
        (run s0 ops).2 = absOuts s0 (G.empty dir) ops) := by
  obtain ⟨s0, e, hi, hr, _⟩ := withCapacity_spec dir nz ixMax k
  exact ⟨s0, e, fun hv => run_refines ops s0 _ hi hr hv⟩

/-- no must-not-fail index, SAFETY precondition, `debug_assert!` or `usize` subtraction fails:
no call inside the quantifier answers `fault`. -/
theorem C04_no_fault {s : State} {g : G} (h : Inv s) (r : R s g) (op : Op) (hv : Valid s.nz g op)
    (f : Fault) : (step s op).2 ≠ .fault f := by
  rw [(step_refines h r op hv).1]
  exact specStep_no_fault _ _ _ _ _ f

/-- `edge_count()` is the number of edges and `node_count()` the number of nodes of the simple
graph (this is the clause defect D4 violated). -/
theorem C04_edge_count {s : State} {g : G} (r : R s g) :
    s.nbEdges = g.edgeCount ∧ s.nodes.len = g.nodeCount :=
  ⟨r.count.symm, r.ncount.symm⟩

/-- **all observers describe the one simple graph** `g`: `has_edge`, `get_edge_weight`,
`edge_weight` (panic iff no edge), `get_node_weight`, `node_identifiers`, and — as sets, the
property fixes no order — `edges(a)`, `neighbors(a)`, `edges_directed(a, Incoming)` (its pairs are
`(a, source)`: finding D6 of C06), `edge_references` (each undirected edge once). -/
theorem C04_observers {s : State} {g : G} (h : Inv s) (r : R s g) :
    (∀ a b, hasEdge s a b = g.hasEdge a b) ∧
    (∀ a b, getEdgeWeight s a b = g.weight a b) ∧
    (∀ a b, edgeWeight s a b = .ok (g.weight a b)) ∧
    (∀ a, s.nodes.get a = g.nodeWeight a) ∧
    (∀ a, a ∈ s.nodes.ids ↔ g.live a = true) ∧
    (∀ a t, t ∈ edgesOut s a ↔ t.1 = a ∧ g.weight a t.2.1 = some t.2.2) ∧
    (∀ a x, x ∈ neighborsOut s a ↔ g.hasEdge a x = true) ∧
    (∀ a t, t ∈ edgesIn s a ↔ t.1 = a ∧ g.weight t.2.1 a = some t.2.2) ∧
    (∀ a x, x ∈ neighborsIn s a ↔ g.hasEdge x a = true) ∧
    (∀ t, t ∈ edgeRefs s ↔ (s.dir = true ∨ t.2.1 ≤ t.1) ∧ g.weight t.1 t.2.1 = some t.2.2) := by
  refine ⟨?_, fun a b => (r.edges a b).symm, ?_, fun a => (r.nodes a).symm, ?_, ?_, ?_, ?_, ?_, ?_⟩
  · intro a b; rw [hasEdge_eq, ← r.edges]; rfl
  · intro a b
    unfold edgeWeight edgePos
    by_cases hm : max a b ≥ s.cap
    · rw [if_pos hm, r.edges, getEdgeWeight_def, if_pos hm]
    · rw [if_neg hm]
      obtain ⟨c, hcell, hcw⟩ := cell_in_bounds h (by omega : max a b < s.cap)
      simp only [hcell]; rw [r.edges, hcw]
  · intro a; rw [Ids.mem_ids_iff_live h.ids, live_eq r]
  · intro a t; rw [mem_edgesOut, r.edges]
  · intro a x
    unfold neighborsOut
    rw [List.mem_map]
    constructor
    · rintro ⟨t, ht, rfl⟩
      have := (mem_edgesOut s a t).1 ht
      unfold G.hasEdge; rw [r.edges, this.2]; rfl
    · intro hx
      unfold G.hasEdge at hx
      rw [r.edges] at hx
      cases hw : getEdgeWeight s a x with
      | none => rw [hw] at hx; cases hx
      | some w => exact ⟨(a, x, w), (mem_edgesOut s a _).2 ⟨rfl, hw⟩, rfl⟩
  · intro a t; rw [mem_edgesIn, r.edges]
  · intro a x
    unfold neighborsIn
    rw [List.mem_map]
    constructor
    · rintro ⟨t, ht, rfl⟩
      have := (mem_edgesIn s a t).1 ht
      unfold G.hasEdge; rw [r.edges, this.2]; rfl
    · intro hx
      unfold G.hasEdge at hx
      rw [r.edges] at hx
      cases hw : getEdgeWeight s x a with
      | none => rw [hw] at hx; cases hx
      | some w => exact ⟨(a, x, w), (mem_edgesIn s a _).2 ⟨rfl, hw⟩, rfl⟩
  · intro t; rw [mem_edgeRefs, r.edges]

/-- **a new node — fresh or reused id — starts with no incident edges**, whatever was ever attached
to that id before: no weight in either direction, empty `neighbors`/`edges` in both directions. -/
theorem C04_reused_id_isolated {s : State} {g : G} (h : Inv s) (r : R s g) (w : Int)
    (hroom : g.nodeCount ≠ s.ixMax) :
    ∃ s' id, addNode s w = (s', .id id) ∧ g.live id = false ∧ Inv s' ∧ R s' (g.addNode id w) ∧
      (∀ x, getEdgeWeight s' id x = none ∧ getEdgeWeight s' x id = none) ∧
      edgesOut s' id = [] ∧ edgesIn s' id = [] ∧ neighborsOut s' id = [] ∧ neighborsIn s' id = [] := by
  obtain ⟨s', id, e, hd, hi, hr⟩ := (addNode_spec h r w).2 hroom
  have hiso := fresh_id_isolated r.wf hd hr
  have ho : edgesOut s' id = [] := by
    apply List.eq_nil_iff_forall_not_mem.2
    intro t ht
    have := ((mem_edgesOut s' id t).1 ht).2
    rw [(hiso _).1] at this; cases this
  have hin : edgesIn s' id = [] := by
    apply List.eq_nil_iff_forall_not_mem.2
    intro t ht
    have := ((mem_edgesIn s' id t).1 ht).2
    rw [(hiso _).2] at this; cases this
  exact ⟨s', id, e, hd, hi, hr, hiso, ho, hin, by unfold neighborsOut; rw [ho]; rfl,
    by unfold neighborsIn; rw [hin]; rfl⟩

/-- the id reused is really a *re*used one when there is a vacancy: `add` pops `removed_ids`
(most recently removed first), so ids are stable and recycled, never renumbered. -/
theorem C04_ids_reuse_order (s : IdStorage) (id : Nat) (rest : List Nat) (w : Int)
    (hr : s.removed = id :: rest) (hlt : id < s.elements.size) :
    ∃ s', s.add w = .ok (s', id) ∧ s'.removed = rest ∧ s'.upperBound = s.upperBound := by
  unfold IdStorage.add
  rw [hr]
  simp only [hlt, if_true]
  exact ⟨_, rfl, rfl, rfl⟩

/-- **an undirected edge is the same edge from both endpoints** (every observer goes through
`getEdgeWeight`'s position, which is symmetric). -/
theorem C04_undirected_symmetric {s : State} (hd : s.dir = false) (a b : Nat) :
    getEdgeWeight s a b = getEdgeWeight s b a ∧ hasEdge s a b = hasEdge s b a := by
  have := getEdgeWeight_symm hd a b
  exact ⟨this, by rw [hasEdge_eq, hasEdge_eq, this]⟩

/-- `NotZero`: a zero weight is rejected by the assertion of `NotZero::new` in every edge-writing
call between live nodes, and the graph is unchanged (the matrix may have grown, invisibly). -/
theorem C04_notzero_rejects_zero {s : State} {g : G} (h : Inv s) (r : R s g) {a b : Nat}
    (ha : g.live a = true) (hb : g.live b = true) (hnz : s.nz = true) :
    (∃ s1, updateEdge s a b 0 = (s1, .panic) ∧ Inv s1 ∧ R s1 g) ∧
    (∃ s1, addEdge s a b 0 = (s1, .panic) ∧ Inv s1 ∧ R s1 g) ∧
    (∃ s1, tryUpdateEdge s a b 0 = (s1, .panic) ∧ Inv s1 ∧ R s1 g) ∧
    (∃ s1, addOrUpdateEdge s a b 0 = (s1, .panic) ∧ Inv s1 ∧ R s1 g) :=
  ⟨(updateEdge_spec h r ha hb 0).1 ⟨hnz, rfl⟩, (addEdge_spec h r ha hb 0).1 ⟨hnz, rfl⟩,
   (tryUpdateEdge_spec h r ha hb 0).1 ⟨hnz, rfl⟩, (addOrUpdateEdge_spec h r ha hb 0).1 ⟨hnz, rfl⟩⟩

/-- `add_node` panics / `try_add_node` returns `NodeIxLimit` exactly at the maximum number of nodes
of the index type (`ixMax` = 255 for `u8`), leaving the graph unchanged (the clause defect D5
violated); below it neither ever fails. -/
theorem C04_add_node_limit {s : State} {g : G} (h : Inv s) (r : R s g) (w : Int) :
    (g.nodeCount = s.ixMax → addNode s w = (s, .panic) ∧ tryAddNode s w = (s, .resErr .nodeIxLimit)) ∧
    (g.nodeCount ≠ s.ixMax → (∃ s' id, addNode s w = (s', .id id)) ∧ (∃ s' id, tryAddNode s w = (s', .resIdOk id))) := by
  refine ⟨fun hl => ⟨(addNode_spec h r w).1 hl, (tryAddNode_spec h r w).1 hl⟩, fun hl => ⟨?_, ?_⟩⟩
  · obtain ⟨s', id, e, _⟩ := (addNode_spec h r w).2 hl; exact ⟨s', id, e⟩
  · obtain ⟨s', id, e, _⟩ := (tryAddNode_spec h r w).2 hl; exact ⟨s', id, e⟩

/-- `try_update_edge` between existing nodes never reports `NodeMissed`, whatever the capacity
(the clause defect D28 violated). -/
theorem C04_try_update_between_live {s : State} {g : G} (h : Inv s) (r : R s g) {a b : Nat}
    (ha : g.live a = true) (hb : g.live b = true) (w : Int) (hw : ¬ (s.nz = true ∧ w = 0)) :
    ∃ s', tryUpdateEdge s a b w = (s', .resOk (g.weight a b)) ∧ Inv s' ∧ R s' (g.setEdge a b w) :=
  (tryUpdateEdge_spec h r ha hb w).2 hw

/-- **`edge_references()` yields exactly `edge_count()` items**: it lists the edges of the simple
graph, each exactly once (an undirected edge in the orientation `source ≥ target` only); and
`neighbors(a)` / `neighbors_directed(a, Incoming)` never repeat a node (a simple graph). -/
theorem C04_edge_references_count {s : State} {g : G} (_h : Inv s) (r : R s g) :
    (edgeRefs s).length = s.nbEdges ∧
    ((edgeRefs s).map fun t => (key s.dir t.1 t.2.1, t.2.2)).Perm g.edges ∧
    (∀ a, (neighborsOut s a).Nodup ∧ (neighborsIn s a).Nodup) :=
  ⟨edgeRefs_length r, edgeRefs_perm r, fun a => ⟨neighborsOut_nodup s a, neighborsIn_nodup s a⟩⟩

/-! ## non-vacuity: the hypotheses are met by concrete, non-trivial histories -/

/-- a directed `u8` history: three nodes, two edges, the middle node removed and its id reused -/
def exampleOps : List Op :=
  [.addNode 10, .addNode 11, .addNode 12, .addEdge 0 1 5, .updateEdge 1 2 7, .removeNode 1, .addNode 13,
   .tryUpdateEdge 2 1 3]

instance (nz : Bool) (g : G) (op : Op) : Decidable (MatrixProofs.Valid nz g op) := by
  cases op <;> unfold MatrixProofs.Valid <;> infer_instance

instance : ∀ (ops : List Op) (s : State) (g : G), Decidable (MatrixProofs.ValidHist s g ops)
  | [], _, _ => isTrue trivial
  | op :: ops, s, g =>
    have := instDecidableValidHist ops (step s op).1
      (MatrixProofs.specStep s.nz s.ixMax g op (MatrixProofs.idOf (step s op).2)).1
    inferInstanceAs (Decidable (MatrixProofs.Valid s.nz g op ∧ _))

/-- the state `with_capacity(3)` of a directed `Option` graph with `u8` indices -/
def exampleInit : State := { dir := true, nz := false, ixMax := 255, adj := Array.replicate 9 none, cap := 3 }

example : withCapacity true false 255 3 = .ok exampleInit := by decide
example : ValidHist exampleInit (G.empty true) exampleOps := by decide
example : (run exampleInit exampleOps).2 =
    [.id 0, .id 1, .id 2, .unit, .optW none, .w 11, .id 1, .resOk none] := by decide

end PetgraphModel.C04T
