import PetgraphModel.Model.Matrix
import PetgraphModel.Spec.MatrixSimpleGraph
import PetgraphModel.Proofs.Matrix
import PetgraphModel.Proofs.MatrixGraph
import PetgraphModel.Extracted.Matrix
import PetgraphModel.Proofs.C04W5Order
import PetgraphModel.Proofs.C04W5Extend
import PetgraphModel.Proofs.C04W5Zero
import PetgraphModel.Proofs.C04W5Probe
/-
C04 — `MatrixGraph` stays a faithful simple graph across growth, removal and id reuse.

Only property theorems live here; the lemmas are in `Proofs/Matrix.lean` (arithmetic, relocation
loop) and `Proofs/MatrixGraph.lean` (`IdStorage`, invariant, refinement).  Every theorem is about the
mirror model `Matrix` (tied to `/repo/src/matrix_graph.rs` by the exact correspondence run of
`./check C04`) and the abstract simple graph `MatrixSpec.G`.

Reading guide (clauses of the property → theorems)
* "growing the matrix past any capacity boundary never loses, moves or invents an edge":
  `C04_extend_flat` (the in-place relocation, every `old < new`), `C04_swap_ranges_disjoint`,
  `C04_extend_lin` (both layouts, in terms of pairs), `C04_growth_invisible` (every observation);
* the index arithmetic: `C04_extracted_agrees` (the formulas are the source's), `C04_flat_lt/_inj`, `C04_tri_lt/_inj/_symm`, `C04_grow_rule`;
* "a node id is stable until that node is removed, a reused id starts with no incident edges":
  `C04_ids_add`, `C04_ids_remove`, `C04_ids_iter`, `C04_reused_id_isolated`;
* "all describe one simple graph: exactly the edges added and not since removed, with their latest
  weights": `C04_init`, `C04_refines_step`, `C04_all_histories`, `C04_observers`, `C04_edge_count`;
* "an undirected edge is visible from both endpoints": `C04_undirected_symmetric`;
* the documented panics / errors: `C04_notzero_rejects_zero`, `C04_add_node_limit`,
  `C04_try_update_between_live`, `C04_no_fault`.

Wave 5:
* iteration ORDER of every observer (ascending ids, row-major edges): `C04_order_spec` (what the ordered
  observers of the simple graph are), `C04_iteration_order`, `C04_iteration_order_all_histories`;
* growth policy and exact capacities: `C04_next_power_of_two`, `C04_with_capacity_exact`,
  `C04_capacity_policy`, `C04_capacity_after_call`; `extend_with_edges` / `from_edges`:
  `C04_extend_fuel_suffices`, `C04_extend_with_edges`, `C04_from_edges`,
  `C04_extend_with_edges_vacancy_false_witness`, `C04_extend_with_edges_contig_false_witness`,
  `C04_histories_from_any_state`;
* outside the quantifier, what the model (= the code) does: `C04_zero_through_mut` (the sentinel written
  through `edge_weight_mut` of a `NotZero` graph), `C04_probe_undone` (the harness' probe lines);
* run-time checks of the hypotheses (section at the end): `C04_valid_check`, `C04_valid_hist_check`,
  `C04_noVacancy_check`, `C04_contig_check`, `C04_notEdge_check`, `C04_zeroMut_check`.
-/
namespace PetgraphModel.C04T
open PetgraphModel PetgraphModel.Matrix PetgraphModel.MatrixSpec PetgraphModel.MatrixProofs

/-- representation invariant of the matrix graph: `IdStorage` consistent, the vector has exactly the
length of the layout (`cap²` / `cap(cap+1)/2`) — the precondition of every index —, no zero stored
in a `NotZero` matrix, ids fit the index type -/
abbrev Inv := MatrixProofs.Inv
/-- abstraction relation to the simple graph (same node weights; same edge weight for *every* pair
of ids; `edge_count` = number of edges; `node_count` = number of nodes) -/
abbrev R := MatrixProofs.R
/-- what the property says a call does to the simple graph and what it answers -/
abbrev specStep := MatrixProofs.specStep
/-- the property's quantifier: edge-writing calls are between existing nodes -/
abbrev Valid := MatrixProofs.Valid
abbrev ValidHist := MatrixProofs.ValidHist
abbrev absRun := MatrixProofs.absRun
abbrev absOuts := MatrixProofs.absOuts
abbrev idOf := MatrixProofs.idOf

/-! ## position formulas and growth rule -/

/-- **tie to the source by regeneration**: the definitions `tools/extract_matrix.py` generates from
`/repo/src/matrix_graph.rs` (`MIN_CAPACITY`, the bodies of the two position functions, the growth
rule) are the model's, so every theorem below about `flatPos`/`triPos`/`growCap` is a theorem about
the formulas in the source as it is now; a changed formula breaks this proof. -/
theorem C04_extracted_agrees :
    Extracted.Matrix.minCapacity = minCapacity ∧
    (∀ r c w, Extracted.Matrix.flatPos r c w = flatPos r c w) ∧
    (∀ r c, Extracted.Matrix.triPos r c = triPos r c) ∧
    (∀ n, Extracted.Matrix.grow nextPow2 n = growCap n) := by
  -- the generated definitions are in the extractor's canonical form (sorted sum of products, `max`/`min` for the
  -- swap of the triangular layout), whatever the spelling in the source: the proof goes through that form once
  refine ⟨rfl, fun r c w => ?_, fun r c => ?_, fun _ => rfl⟩
  · simp only [Extracted.Matrix.flatPos, flatPos]; omega
  · simp only [Extracted.Matrix.triPos, triPos]
    by_cases h : r > c
    · have h1 : max c r = r := by omega
      have h2 : min c r = c := by omega
      simp only [h, if_true, h1, h2, Nat.mul_add, Nat.mul_one]
      omega
    · have h1 : max c r = c := by omega
      have h2 : min c r = r := by omega
      simp only [h, if_false, h1, h2, Nat.mul_add, Nat.mul_one]
      omega

/-- `to_flat_square_matrix_position` stays below the allocated length `width²`. -/
theorem C04_flat_lt {r c w : Nat} (hr : r < w) (hc : c < w) : flatPos r c w < w * w :=
  flatPos_lt hr hc

/-- … and is injective on columns below the width. -/
theorem C04_flat_inj {r c r' c' w : Nat} (hc : c < w) (hc' : c' < w)
    (e : flatPos r c w = flatPos r' c' w) : r = r' ∧ c = c' :=
  flatPos_inj hc hc' e

/-- `to_lower_triangular_matrix_position` stays below the length `extend_lower_triangular_matrix`
allocates for capacity `n` (`to_lower_triangular_matrix_position(n-1, n-1) + 1`). -/
theorem C04_tri_lt {r c n : Nat} (hr : r < n) (hc : c < n) :
    triPos r c < triPos (n - 1) (n - 1) + 1 := by
  have h := triPos_lt hr hc
  have hd := triPos_diag (n - 1)
  rw [show n - 1 + 1 = n by omega] at hd
  omega

/-- … it identifies exactly the two orientations of a pair … -/
theorem C04_tri_inj {r c r' c' : Nat} (e : triPos r c = triPos r' c') :
    (r = r' ∧ c = c') ∨ (r = c' ∧ c = r') :=
  triPos_inj e

/-- … and does not depend on the orientation. -/
theorem C04_tri_symm (r c : Nat) : triPos r c = triPos c r := triPos_comm r c

/-- the growth rule `max(next_power_of_two(want), MIN_CAPACITY)`: covers what is wanted, is at
least `MIN_CAPACITY = 4`, `next_power_of_two` yields a power of two. -/
theorem C04_grow_rule (want : Nat) :
    want ≤ growCap want ∧ 4 ≤ growCap want ∧ want ≤ nextPow2 want ∧ ∃ k, nextPow2 want = 2 ^ k :=
  ⟨(le_growCap want).1, (le_growCap want).2, le_nextPow2 want, isPow2_nextPow2 want⟩

/-! ## growth -/

/-- **`extend_flat_square_matrix`, for ALL `old < new`** (not only the 4/8/16/32/64 steps, and
including the exact non-power-of-two capacities of `with_capacity`): on a vector of length `old²`,
resized to `new²` with the null element `d`, the in-place relocation loop terminates without any
index out of range / violated SAFETY precondition / failing `debug_assert!`; the result has length
`new²`; cell `(i, j)` of the new layout holds cell `(i, j)` of the old one for `i, j < old`; every
other cell is null. -/
theorem C04_extend_flat {α : Type} (d : α) (old new : Nat) (h : old < new)
    (v : Array α) (hv : v.size = old * old) :
    ∃ r, relocRows old new old (resizeWith v (new * new) d) = .ok r ∧ r.size = new * new ∧
      (∀ i j, i < old → j < old → r[i * new + j]? = v[i * old + j]?) ∧
      (∀ p, p < new * new → (p / new ≥ old ∨ p % new ≥ old) → r[p]? = some d) :=
  relocate_spec d v old new h hv

/-- the same for the function as called (`exact` = `with_capacity`, otherwise the growth rule). -/
theorem C04_extend_flat_call {α : Type} (d : α) (v : Array α) (old want : Nat) (exact : Bool)
    (h : old < want) (hv : v.size = old * old) :
    let new := if exact then want else growCap want
    ∃ r, extendFlat d v old want exact = .ok (r, new) ∧ old < new ∧ want ≤ new ∧ r.size = new * new ∧
      (∀ i j, i < old → j < old → r[i * new + j]? = v[i * old + j]?) ∧
      (∀ p, p < new * new → (p / new ≥ old ∨ p % new ≥ old) → r[p]? = some d) :=
  extendFlat_spec d v old want exact h hv

/-- SAFETY of the `unsafe` block: whenever the loop body takes the `swap_nonoverlapping` branch
(`pos + old <= new_pos`), the two ranges `[pos, pos+old)` and `[new_pos, new_pos+old)` are disjoint
and inside the vector of length `new²`, and both `debug_assert!`s (strict `<`) hold; in the other
branch every swapped index is in range as well. -/
theorem C04_swap_ranges_disjoint {old new c : Nat} (hon : old < new) (hc : c < old) :
    let pos := c * old
    let newPos := c * new
    (pos + old ≤ newPos → (∀ i j, i < old → j < old → pos + i ≠ newPos + j) ∧
      pos + old < new * new ∧ newPos + old < new * new) ∧
    (∀ i, i < old → pos + i < new * new ∧ newPos + i < new * new) := by
  intro pos newPos
  obtain ⟨n1, n2, _, n4, _⟩ := row_arith hon hc
  refine ⟨fun hb => ⟨fun i j hi hj => ?_, ?_, ?_⟩, fun i hi => ⟨?_, ?_⟩⟩ <;>
    simp only [pos, newPos] at * <;> omega

/-- **both layouts, in terms of pairs**: after `extend_linearized_matrix` to a larger capacity the
cell of every pair below the new capacity is the old cell of that pair if the pair was below the old
capacity, and null otherwise. -/
theorem C04_extend_lin (dir : Bool) (a : Array Cell) (old want : Nat) (exact : Bool)
    (hsz : a.size = adjSize dir old) (hw : old < want) :
    ∃ g new, extendLin dir none a old want exact = .ok (g, new) ∧ want ≤ new ∧ g.size = adjSize dir new ∧
      (∀ x y, max x y < new →
        g[linPos dir x y new]?.join = if max x y < old then a[linPos dir x y old]?.join else none) :=
  extendLin_spec dir a old want exact hsz hw

/-- **growth is invisible**: `extend_capacity_for_edge` never faults, makes room for the pair, and
changes no observation at all — no edge is lost, moved or invented, for any pair of ids. -/
theorem C04_growth_invisible {s : State} (h : Inv s) (a b : Nat) :
    ∃ s1, extendForEdge s a b = .ok s1 ∧ Inv s1 ∧ max a b < s1.cap ∧ s.cap ≤ s1.cap ∧
      (∀ x y, getEdgeWeight s1 x y = getEdgeWeight s x y) ∧
      s1.nodes = s.nodes ∧ s1.nbEdges = s.nbEdges ∧ s1.dir = s.dir ∧ s1.nz = s.nz ∧ s1.ixMax = s.ixMax :=
  extendForEdge_spec h a b

/-! ## `IdStorage` refines "set of live ids" -/

/-- `add`: never faults; the id handed out is **not live**; afterwards it is live with the given
weight and nothing else changed; `len` grows by one; `upper_bound` exceeds the id. -/
theorem C04_ids_add {s : IdStorage} (h : Ids.Inv s) (w : Int) :
    ∃ s' id, s.add w = .ok (s', id) ∧ Ids.Inv s' ∧ s.get id = none ∧ s'.get id = some w ∧
      (∀ j, j ≠ id → s'.get j = s.get j) ∧ s'.len = s.len + 1 ∧ id < s'.upperBound := by
  obtain ⟨s', id, e, hi, h1, h2, h3, h4, h5, _⟩ := Ids.add_spec h w
  exact ⟨s', id, e, hi, h1, h2, h3, h4, h5⟩

/-- `remove` frees exactly that id (and is the documented panic, changing nothing, on an id that is
not live). -/
theorem C04_ids_remove {s : IdStorage} (h : Ids.Inv s) (id : Nat) :
    (∀ w, s.get id = some w → ∃ s', s.remove id = .ok (some (s', w)) ∧ Ids.Inv s' ∧ s'.get id = none ∧
      (∀ j, j ≠ id → s'.get j = s.get j) ∧ s'.len + 1 = s.len) ∧
    (s.get id = none → s.remove id = .ok none) := by
  refine ⟨fun w hw => ?_, Ids.remove_dead id⟩
  obtain ⟨s', e, hi, h1, h2, h3, _⟩ := Ids.remove_spec h id w hw
  exact ⟨s', e, hi, h1, h2, h3⟩

/-- `iter_ids` = the live ids, ascending, without repetition; `len` = their number;
`upper_bound` (= `node_bound`) exceeds every live id. -/
theorem C04_ids_iter {s : IdStorage} (h : Ids.Inv s) :
    (∀ i, i ∈ s.ids ↔ (s.get i).isSome = true) ∧ s.ids.Pairwise (· < ·) ∧ s.ids.Nodup ∧
    s.len = s.ids.length ∧ ∀ i, (s.get i).isSome = true → i < s.upperBound :=
  ⟨Ids.mem_ids_iff_live h, Ids.ids_sorted s, Ids.ids_nodup s, Ids.len_eq_length_ids h,
    fun i hi => ((h.live i).1 hi).1⟩

/-! ## refinement to the simple graph -/

/-- every constructor (`with_capacity(k)` for every `k`, `default`, `new`, `new_undirected` are
`k = 0`) yields the empty simple graph, with room for `k` nodes. -/
theorem C04_init (dir nz : Bool) (ixMax k : Nat) :
    ∃ s, withCapacity dir nz ixMax k = .ok s ∧ Inv s ∧ R s (G.empty dir) ∧ s.dir = dir ∧ s.nz = nz ∧
      s.ixMax = ixMax ∧ k ≤ s.cap :=
  withCapacity_spec dir nz ixMax k

/-- **every call refines the simple graph**: under invariant and abstraction relation, a call
inside the property's quantifier (any arguments for removals/queries/node calls; live endpoints for
edge-writing calls) answers exactly what the abstract machine answers — including `Ok` for
`try_update_edge` between live nodes, the documented panics, `None`/`Err` — never faults, and
re-establishes invariant and relation.  The id of a new node is not a live id. -/
theorem C04_refines_step {s : State} {g : G} (h : Inv s) (r : R s g) (op : Op) (hv : Valid s.nz g op) :
    let id := idOf (step s op).2
    (step s op).2 = (specStep s.nz s.ixMax g op id).2 ∧
    Inv (step s op).1 ∧ R (step s op).1 (specStep s.nz s.ixMax g op id).1 ∧
    (∀ w, (op = .addNode w ∨ op = .tryAddNode w) → g.nodeCount ≠ s.ixMax → g.live id = false) :=
  step_refines h r op hv

/-- **all histories**: from any constructor, after any finite call sequence inside the property's
quantifier, the invariant holds, the state is related to the abstract simple graph the sequence
describes, and every answer was the abstract machine's. -/
theorem C04_all_histories (dir nz : Bool) (ixMax k : Nat) (ops : List Op) :
    ∃ s0, withCapacity dir nz ixMax k = .ok s0 ∧
      (ValidHist s0 (G.empty dir) ops →
        Inv (run s0 ops).1 ∧ R (run s0 ops).1 (absRun s0 (G.empty dir) ops) ∧
        (run s0 ops).2 = absOuts s0 (G.empty dir) ops) := by
  obtain ⟨s0, e, hi, hr, _⟩ := withCapacity_spec dir nz ixMax k
  exact ⟨s0, e, fun hv => run_refines ops s0 _ hi hr hv⟩

/-- no must-not-fail index, SAFETY precondition, `debug_assert!` or `usize` subtraction fails:
no call inside the quantifier answers `fault`. -/
theorem C04_no_fault {s : State} {g : G} (h : Inv s) (r : R s g) (op : Op) (hv : Valid s.nz g op)
    (f : Fault) : (step s op).2 ≠ .fault f := by
  rw [(step_refines h r op hv).1]
  exact specStep_no_fault _ _ _ _ _ f

/-- `edge_count()` is the number of edges and `node_count()` the number of nodes of the simple
graph (this is the clause defect D4 violated). -/
theorem C04_edge_count {s : State} {g : G} (r : R s g) :
    s.nbEdges = g.edgeCount ∧ s.nodes.len = g.nodeCount :=
  ⟨r.count.symm, r.ncount.symm⟩

/-- **all observers describe the one simple graph** `g`: `has_edge`, `get_edge_weight`,
`edge_weight` (panic iff no edge), `get_node_weight`, `node_identifiers`, and — as sets, the
property fixes no order — `edges(a)`, `neighbors(a)`, `edges_directed(a, Incoming)` (its pairs are
`(a, source)`: finding D6 of C06), `edge_references` (each undirected edge once). -/
theorem C04_observers {s : State} {g : G} (h : Inv s) (r : R s g) :
    (∀ a b, hasEdge s a b = g.hasEdge a b) ∧
    (∀ a b, getEdgeWeight s a b = g.weight a b) ∧
    (∀ a b, edgeWeight s a b = .ok (g.weight a b)) ∧
    (∀ a, s.nodes.get a = g.nodeWeight a) ∧
    (∀ a, a ∈ s.nodes.ids ↔ g.live a = true) ∧
    (∀ a t, t ∈ edgesOut s a ↔ t.1 = a ∧ g.weight a t.2.1 = some t.2.2) ∧
    (∀ a x, x ∈ neighborsOut s a ↔ g.hasEdge a x = true) ∧
    (∀ a t, t ∈ edgesIn s a ↔ t.1 = a ∧ g.weight t.2.1 a = some t.2.2) ∧
    (∀ a x, x ∈ neighborsIn s a ↔ g.hasEdge x a = true) ∧
    (∀ t, t ∈ edgeRefs s ↔ (s.dir = true ∨ t.2.1 ≤ t.1) ∧ g.weight t.1 t.2.1 = some t.2.2) := by
  refine ⟨?_, fun a b => (r.edges a b).symm, ?_, fun a => (r.nodes a).symm, ?_, ?_, ?_, ?_, ?_, ?_⟩
  · intro a b; rw [hasEdge_eq, ← r.edges]; rfl
  · intro a b
    unfold edgeWeight edgePos
    by_cases hm : max a b ≥ s.cap
    · rw [if_pos hm, r.edges, getEdgeWeight_def, if_pos hm]
    · rw [if_neg hm]
      obtain ⟨c, hcell, hcw⟩ := cell_in_bounds h (by omega : max a b < s.cap)
      simp only [hcell]; rw [r.edges, hcw]
  · intro a; rw [Ids.mem_ids_iff_live h.ids, live_eq r]
  · intro a t; rw [mem_edgesOut, r.edges]
  · intro a x
    unfold neighborsOut
    rw [List.mem_map]
    constructor
    · rintro ⟨t, ht, rfl⟩
      have := (mem_edgesOut s a t).1 ht
      unfold G.hasEdge; rw [r.edges, this.2]; rfl
    · intro hx
      unfold G.hasEdge at hx
      rw [r.edges] at hx
      cases hw : getEdgeWeight s a x with
      | none => rw [hw] at hx; cases hx
      | some w => exact ⟨(a, x, w), (mem_edgesOut s a _).2 ⟨rfl, hw⟩, rfl⟩
  · intro a t; rw [mem_edgesIn, r.edges]
  · intro a x
    unfold neighborsIn
    rw [List.mem_map]
    constructor
    · rintro ⟨t, ht, rfl⟩
      have := (mem_edgesIn s a t).1 ht
      unfold G.hasEdge; rw [r.edges, this.2]; rfl
    · intro hx
      unfold G.hasEdge at hx
      rw [r.edges] at hx
      cases hw : getEdgeWeight s x a with
      | none => rw [hw] at hx; cases hx
      | some w => exact ⟨(a, x, w), (mem_edgesIn s a _).2 ⟨rfl, hw⟩, rfl⟩
  · intro t; rw [mem_edgeRefs, r.edges]

/-- **a new node — fresh or reused id — starts with no incident edges**, whatever was ever attached
to that id before: no weight in either direction, empty `neighbors`/`edges` in both directions. -/
theorem C04_reused_id_isolated {s : State} {g : G} (h : Inv s) (r : R s g) (w : Int)
    (hroom : g.nodeCount ≠ s.ixMax) :
    ∃ s' id, addNode s w = (s', .id id) ∧ g.live id = false ∧ Inv s' ∧ R s' (g.addNode id w) ∧
      (∀ x, getEdgeWeight s' id x = none ∧ getEdgeWeight s' x id = none) ∧
      edgesOut s' id = [] ∧ edgesIn s' id = [] ∧ neighborsOut s' id = [] ∧ neighborsIn s' id = [] := by
  obtain ⟨s', id, e, hd, hi, hr⟩ := (addNode_spec h r w).2 hroom
  have hiso := fresh_id_isolated r.wf hd hr
  have ho : edgesOut s' id = [] := by
    apply List.eq_nil_iff_forall_not_mem.2
    intro t ht
    have := ((mem_edgesOut s' id t).1 ht).2
    rw [(hiso _).1] at this; cases this
  have hin : edgesIn s' id = [] := by
    apply List.eq_nil_iff_forall_not_mem.2
    intro t ht
    have := ((mem_edgesIn s' id t).1 ht).2
    rw [(hiso _).2] at this; cases this
  exact ⟨s', id, e, hd, hi, hr, hiso, ho, hin, by unfold neighborsOut; rw [ho]; rfl,
    by unfold neighborsIn; rw [hin]; rfl⟩

/-- the id reused is really a *re*used one when there is a vacancy: `add` pops `removed_ids`
(most recently removed first), so ids are stable and recycled, never renumbered. -/
theorem C04_ids_reuse_order (s : IdStorage) (id : Nat) (rest : List Nat) (w : Int)
    (hr : s.removed = id :: rest) (hlt : id < s.elements.size) :
    ∃ s', s.add w = .ok (s', id) ∧ s'.removed = rest ∧ s'.upperBound = s.upperBound := by
  unfold IdStorage.add
  rw [hr]
  simp only [hlt, if_true]
  exact ⟨_, rfl, rfl, rfl⟩

/-- **an undirected edge is the same edge from both endpoints** (every observer goes through
`getEdgeWeight`'s position, which is symmetric). -/
theorem C04_undirected_symmetric {s : State} (hd : s.dir = false) (a b : Nat) :
    getEdgeWeight s a b = getEdgeWeight s b a ∧ hasEdge s a b = hasEdge s b a := by
  have := getEdgeWeight_symm hd a b
  exact ⟨this, by rw [hasEdge_eq, hasEdge_eq, this]⟩

/-- `NotZero`: a zero weight is rejected by the assertion of `NotZero::new` in every edge-writing
call between live nodes, and the graph is unchanged (the matrix may have grown, invisibly). -/
theorem C04_notzero_rejects_zero {s : State} {g : G} (h : Inv s) (r : R s g) {a b : Nat}
    (ha : g.live a = true) (hb : g.live b = true) (hnz : s.nz = true) :
    (∃ s1, updateEdge s a b 0 = (s1, .panic) ∧ Inv s1 ∧ R s1 g) ∧
    (∃ s1, addEdge s a b 0 = (s1, .panic) ∧ Inv s1 ∧ R s1 g) ∧
    (∃ s1, tryUpdateEdge s a b 0 = (s1, .panic) ∧ Inv s1 ∧ R s1 g) ∧
    (∃ s1, addOrUpdateEdge s a b 0 = (s1, .panic) ∧ Inv s1 ∧ R s1 g) :=
  ⟨(updateEdge_spec h r ha hb 0).1 ⟨hnz, rfl⟩, (addEdge_spec h r ha hb 0).1 ⟨hnz, rfl⟩,
   (tryUpdateEdge_spec h r ha hb 0).1 ⟨hnz, rfl⟩, (addOrUpdateEdge_spec h r ha hb 0).1 ⟨hnz, rfl⟩⟩

/-- `add_node` panics / `try_add_node` returns `NodeIxLimit` exactly at the maximum number of nodes
of the index type (`ixMax` = 255 for `u8`), leaving the graph unchanged (the clause defect D5
violated); below it neither ever fails. -/
theorem C04_add_node_limit {s : State} {g : G} (h : Inv s) (r : R s g) (w : Int) :
    (g.nodeCount = s.ixMax → addNode s w = (s, .panic) ∧ tryAddNode s w = (s, .resErr .nodeIxLimit)) ∧
    (g.nodeCount ≠ s.ixMax → (∃ s' id, addNode s w = (s', .id id)) ∧ (∃ s' id, tryAddNode s w = (s', .resIdOk id))) := by
  refine ⟨fun hl => ⟨(addNode_spec h r w).1 hl, (tryAddNode_spec h r w).1 hl⟩, fun hl => ⟨?_, ?_⟩⟩
  · obtain ⟨s', id, e, _⟩ := (addNode_spec h r w).2 hl; exact ⟨s', id, e⟩
  · obtain ⟨s', id, e, _⟩ := (tryAddNode_spec h r w).2 hl; exact ⟨s', id, e⟩

/-- `try_update_edge` between existing nodes never reports `NodeMissed`, whatever the capacity
(the clause defect D28 violated). -/
theorem C04_try_update_between_live {s : State} {g : G} (h : Inv s) (r : R s g) {a b : Nat}
    (ha : g.live a = true) (hb : g.live b = true) (w : Int) (hw : ¬ (s.nz = true ∧ w = 0)) :
    ∃ s', tryUpdateEdge s a b w = (s', .resOk (g.weight a b)) ∧ Inv s' ∧ R s' (g.setEdge a b w) :=
  (tryUpdateEdge_spec h r ha hb w).2 hw

/-- **`edge_references()` yields exactly `edge_count()` items**: it lists the edges of the simple
graph, each exactly once (an undirected edge in the orientation `source ≥ target` only); and
`neighbors(a)` / `neighbors_directed(a, Incoming)` never repeat a node (a simple graph). -/
theorem C04_edge_references_count {s : State} {g : G} (_h : Inv s) (r : R s g) :
    (edgeRefs s).length = s.nbEdges ∧
    ((edgeRefs s).map fun t => (key s.dir t.1 t.2.1, t.2.2)).Perm g.edges ∧
    (∀ a, (neighborsOut s a).Nodup ∧ (neighborsIn s a).Nodup) :=
  ⟨edgeRefs_length r, edgeRefs_perm r, fun a => ⟨neighborsOut_nodup s a, neighborsIn_nodup s a⟩⟩

/-! ## non-vacuity: the hypotheses are met by concrete, non-trivial histories -/

/-- a directed `u8` history: three nodes, two edges, the middle node removed and its id reused -/
def exampleOps : List Op :=
  [.addNode 10, .addNode 11, .addNode 12, .addEdge 0 1 5, .updateEdge 1 2 7, .removeNode 1, .addNode 13,
   .tryUpdateEdge 2 1 3]

instance : ∀ (ops : List Op) (s : State) (g : G), Decidable (MatrixProofs.ValidHist s g ops)
  | [], _, _ => isTrue trivial
  | op :: ops, s, g =>
    have := instDecidableValidHist ops (step s op).1
      (MatrixProofs.specStep s.nz s.ixMax g op (MatrixProofs.idOf (step s op).2)).1
    inferInstanceAs (Decidable (MatrixProofs.Valid s.nz g op ∧ _))

/-- the state `with_capacity(3)` of a directed `Option` graph with `u8` indices -/
def exampleInit : State := { dir := true, nz := false, ixMax := 255, adj := Array.replicate 9 none, cap := 3 }

example : withCapacity true false 255 3 = .ok exampleInit := by decide
example : ValidHist exampleInit (G.empty true) exampleOps := by decide
example : (run exampleInit exampleOps).2 =
    [.id 0, .id 1, .id 2, .unit, .optW none, .w 11, .id 1, .resOk none] := by decide

/-! ## wave 5 — iteration order -/

/-- **what the ordered observers of the simple graph are** (`Spec/MatrixMachine.lean`; no matrix, no
capacity): `idsAsc` = the live ids, strictly ascending; `nodesAsc` = the (id, weight) pairs of the nodes;
`succAsc a` / `predAsc a` = the (other endpoint, weight) pairs of the edges from / to `a`, strictly
ascending in the other endpoint; `edgeRefsAsc` = the edges, each once under its normalised key, strictly
ascending in `(source, target)` (row-major). -/
theorem C04_order_spec {g : G} (hwf : g.WF) :
    (g.idsAsc.Pairwise (· < ·) ∧ ∀ x, x ∈ g.idsAsc ↔ g.live x = true) ∧
    (g.nodesAsc.map (·.1) = g.idsAsc ∧ ∀ p, p ∈ g.nodesAsc ↔ g.nodeWeight p.1 = some p.2) ∧
    (∀ a, (g.succAsc a).Pairwise (fun p q => p.1 < q.1) ∧ ∀ p, p ∈ g.succAsc a ↔ g.weight a p.1 = some p.2) ∧
    (∀ a, (g.predAsc a).Pairwise (fun p q => p.1 < q.1) ∧ ∀ p, p ∈ g.predAsc a ↔ g.weight p.1 a = some p.2) ∧
    ((g.edgeRefsAsc.map fun t => ((t.1, t.2.1), t.2.2)).Perm g.edges ∧
      g.edgeRefsAsc.Pairwise (fun t t' => t.1 < t'.1 ∨ (t.1 = t'.1 ∧ t.2.1 < t'.2.1))) := by
  refine ⟨⟨idsAsc_sorted hwf, mem_idsAsc g⟩, ⟨?_, mem_nodesAsc g⟩,
    fun a => ⟨succAsc_sorted hwf a, mem_succAsc hwf a⟩, fun a => ⟨predAsc_sorted hwf a, mem_predAsc hwf a⟩,
    edgeRefsAsc_spec hwf⟩
  -- every live id has a weight, so `nodesAsc` keeps every id
  unfold G.nodesAsc
  have : ∀ l : List Nat, (∀ i ∈ l, g.live i = true) →
      (l.filterMap fun i => (g.nodeWeight i).map fun w => (i, w)).map (·.1) = l := by
    intro l
    induction l with
    | nil => intro _; rfl
    | cons i l ih =>
      intro hl
      have hi := hl i List.mem_cons_self
      rw [Spec.live_iff] at hi
      cases hw : g.nodeWeight i with
      | none => rw [hw] at hi; cases hi
      | some w =>
        rw [List.filterMap_cons, hw]
        simp only [Option.map_some, List.map_cons]
        rw [ih (fun j hj => hl j (List.mem_cons_of_mem _ hj))]
  exact this _ (fun i hi => (mem_idsAsc g i).1 hi)

/-- **every observer iterates in the determined order**: in every state that satisfies the invariant and
describes the simple graph `g`, the mirror's `iter_ids` / `node_references` / `neighbors` / `edges` /
`edges_directed` / `neighbors_directed` / `edge_references` are — as LISTS — the ordered observers of `g`.
(`edges_directed(a, Incoming)` yields `(a, source, w)`: the orientation is finding D6 of C06; the order
of the sources is the ascending one.) -/
theorem C04_iteration_order {s : State} {g : G} (h : Inv s) (r : R s g) :
    s.nodes.ids = g.idsAsc ∧ nodeRefs s = g.nodesAsc ∧
    (∀ a, neighborsOut s a = (g.succAsc a).map (·.1)) ∧
    (∀ a, edgesOut s a = (g.succAsc a).map fun p => (a, p.1, p.2)) ∧
    (∀ a, neighborsIn s a = (g.predAsc a).map (·.1)) ∧
    (∀ a, edgesIn s a = (g.predAsc a).map fun p => (a, p.1, p.2)) ∧
    edgeRefs s = g.edgeRefsAsc :=
  ⟨ids_eq_idsAsc h r, nodeRefs_eq_nodesAsc h r, neighborsOut_eq_succAsc h r, edgesOut_eq_succAsc h r,
    neighborsIn_eq_predAsc h r, edgesIn_eq_predAsc h r, edgeRefs_eq_edgeRefsAsc r⟩

/-- … **for all histories**: from any constructor, after any finite call sequence inside the quantifier,
every iterator of the final state is the ordered observer of the simple graph the sequence describes. -/
theorem C04_iteration_order_all_histories (dir nz : Bool) (ixMax k : Nat) (ops : List Op) :
    ∃ s0, withCapacity dir nz ixMax k = .ok s0 ∧
      (ValidHist s0 (G.empty dir) ops →
        let s := (run s0 ops).1
        let g := absRun s0 (G.empty dir) ops
        s.nodes.ids = g.idsAsc ∧ nodeRefs s = g.nodesAsc ∧
        (∀ a, neighborsOut s a = (g.succAsc a).map (·.1)) ∧
        (∀ a, edgesOut s a = (g.succAsc a).map fun p => (a, p.1, p.2)) ∧
        (∀ a, neighborsIn s a = (g.predAsc a).map (·.1)) ∧
        (∀ a, edgesIn s a = (g.predAsc a).map fun p => (a, p.1, p.2)) ∧
        edgeRefs s = g.edgeRefsAsc) := by
  obtain ⟨s0, e, hi, hr, _⟩ := withCapacity_spec dir nz ixMax k
  refine ⟨s0, e, fun hv => ?_⟩
  obtain ⟨h1, r1, _⟩ := run_refines ops s0 _ hi hr hv
  exact C04_iteration_order h1 r1

/-- edges added in an order that is not the iteration order -/
def exampleOrderOps : List Op :=
  [.addNode 10, .addNode 11, .addNode 12, .addEdge 2 1 7, .addEdge 2 0 8, .addEdge 0 2 5, .addEdge 0 1 6]

example : ValidHist exampleInit (G.empty true) exampleOrderOps := by decide
example : edgeRefs (run exampleInit exampleOrderOps).1 = [(0, 1, 6), (0, 2, 5), (2, 0, 8), (2, 1, 7)] := by decide
example : (absRun exampleInit (G.empty true) exampleOrderOps).edges =
    [((0, 1), 6), ((0, 2), 5), ((2, 0), 8), ((2, 1), 7)] := by decide

/-! ## wave 5 — growth policy, exact capacities, `extend_with_edges`, `from_edges` -/

/-- `usize::next_power_of_two` (the model's `nextPow2`, the parameter of the extracted growth rule): a
power of two, not smaller than `n`, and the LEAST such (for `n = 0` it is `1`). -/
theorem C04_next_power_of_two (n : Nat) :
    (∃ k, nextPow2 n = 2 ^ k) ∧ n ≤ nextPow2 n ∧ (∀ m, n ≤ 2 ^ m → nextPow2 n ≤ 2 ^ m) ∧ nextPow2 0 = 1 :=
  ⟨isPow2_nextPow2 n, le_nextPow2 n, nextPow2_min n, rfl⟩

/-- **`with_capacity(k)` is exact** in both layouts (`exact = true`: no growth rule): capacity `k`, vector
of `k²` (directed) / `k(k+1)/2` (undirected) null cells. -/
theorem C04_with_capacity_exact (dir nz : Bool) (ixMax k : Nat) :
    ∃ s, withCapacity dir nz ixMax k = .ok s ∧ s.cap = k ∧ s.adj.size = adjSize dir k :=
  withCapacity_cap dir nz ixMax k

/-- **the growth policy** (`extend_capacity_for_edge` → `extend_capacity_for_node(max(a, b), false)`):
nothing happens while both ids are below the capacity; otherwise a directed matrix grows to the EXTRACTED
rule `max((max(a, b) + 1).next_power_of_two(), MIN_CAPACITY)` and an undirected one to exactly
`max(a, b) + 1`; the capacity never shrinks. -/
theorem C04_capacity_policy {s : State} (h : Inv s) (a b : Nat) :
    ∃ s1, extendForEdge s a b = .ok s1 ∧
      s1.cap = (if max a b < s.cap then s.cap
                else if s.dir then Extracted.Matrix.grow nextPow2 (max a b + 1) else max a b + 1) ∧
      s.cap ≤ s1.cap ∧ max a b < s1.cap := by
  obtain ⟨s1, e, hc⟩ := extendForEdge_cap h a b
  obtain ⟨s1', e', _, hlt, _⟩ := extendForEdge_spec h a b
  rw [e] at e'
  injection e' with e'
  subst e'
  exact ⟨s1, e, hc, by rw [hc]; exact cap_le_capFor _ _ _ _, hlt⟩

/-- **exact capacity after every call** of a valid history: the six edge-writing calls make room for
their pair by the policy above (whether or not they then panic on a rejected zero / an existing edge),
every other call — removals, `clear`, node calls — leaves the capacity alone. -/
theorem C04_capacity_after_call {s : State} {g : G} (h : Inv s) (r : R s g) (op : Op) (hv : Valid s.nz g op) :
    (step s op).1.cap = capAfter s.dir s.cap op ∧ s.cap ≤ (step s op).1.cap := by
  have := step_cap h r op hv
  refine ⟨this, ?_⟩
  rw [this]
  cases op <;> first | exact Nat.le_refl _ | exact cap_le_capFor _ _ _ _

example : capAfter true 3 (.addEdge 0 5 1) = 8 ∧ capAfter false 3 (.addEdge 0 5 1) = 6 ∧
    capAfter true 3 (.addEdge 0 2 1) = 3 ∧ capAfter true 0 (.addEdge 0 0 1) = 4 ∧
    capAfter true 9 (.removeNode 2) = 9 := by decide

/-- **the fuel of the model's `while nx >= node_count() { add_node(default) }` loop suffices**, in every
state (vacancies or not): when the loop ends normally within `nx + 1 - node_count` rounds the condition of
the real `while` is false. -/
theorem C04_extend_fuel_suffices {s s' : State} (h : Inv s) (nx : Nat)
    (e : addNodesUpTo nx (nx + 1 - s.nodes.len) s = (s', .unit)) : nx < s'.nodes.len :=
  addNodesUpTo_fuel nx _ s s' h.ids e (Nat.le_refl _)

/-- **`extend_with_edges` on a graph without vacancy** (`node_bound() = node_count()`: the live ids are
`0..n`), for EVERY list of elements: it answers as `specExtend` (per element: the nodes
`n, …, max(a, b)` are added with the default weight, then `add_edge`; `panic` at the node limit, on a
rejected zero, on an existing edge), never faults, re-establishes invariant and relation and leaves no
vacancy. -/
theorem C04_extend_with_edges {s : State} {g : G} (h : Inv s) (r : R s g) (hrem : s.nodes.removed = [])
    (es : List (Nat × Nat × Int)) :
    ∃ s', extendWithEdges s es = (s', (specExtend s.nz s.ixMax g es).2) ∧
      Inv s' ∧ R s' (specExtend s.nz s.ixMax g es).1 ∧ s'.nodes.removed = [] := by
  obtain ⟨s', g', e1, e2, h1, r1, hrem1, _⟩ := extendWithEdges_spec es s g h r hrem
  exact ⟨s', e1, h1, by rw [e2]; exact r1, hrem1⟩

/-- **`from_edges`** (`default()` then `extend_with_edges`), for every list of elements and every
configuration. -/
theorem C04_from_edges (dir nz : Bool) (ixMax : Nat) (es : List (Nat × Nat × Int)) :
    ∃ s', fromEdges dir nz ixMax es = (s', (specExtend nz ixMax (G.empty dir) es).2) ∧
      Inv s' ∧ R s' (specExtend nz ixMax (G.empty dir) es).1 ∧ s'.nodes.removed = [] := by
  obtain ⟨s', e, h, r, hrem, _⟩ := fromEdges_spec dir nz ixMax es
  exact ⟨s', e, h, r, hrem⟩

example : (fromEdges false true 255 [(0, 1, 2), (1, 0, 3)]).2 = .panic ∧
    (fromEdges true true 255 [(0, 1, 2)]).2 = .unit ∧
    (specExtend true 255 (G.empty false) [(0, 3, 2), (5, 1, 7)]).1.nodeCount = 6 := by
  decide

/-- the hypothesis "no vacancy" cannot be dropped: **with a vacancy the statement is false**.  Three
nodes, node 0 removed; `extend_with_edges([(0, 1, 5)])` adds no node (`node_count() = 2 > 1`) and
`add_edge(0, 1)` writes an edge at the vacant id 0: `edge_count() = 1`, `has_edge(0, 1)`, but node 0 does
not exist — the state describes no simple graph.  (`update_edge`/`add_edge` are documented to panic "if
any of the nodes don't exist" and do not; reported, outside this property's quantifier.) -/
theorem C04_extend_with_edges_vacancy_false_witness :
    Inv vacancyState ∧ (∃ g, R vacancyState g) ∧
    (extendWithEdges vacancyState [(0, 1, 5)]).2 = .unit ∧
    (extendWithEdges vacancyState [(0, 1, 5)]).1.nodes.get 0 = none ∧
    hasEdge (extendWithEdges vacancyState [(0, 1, 5)]).1 0 1 = true ∧
    (extendWithEdges vacancyState [(0, 1, 5)]).1.nbEdges = 1 ∧
    ∀ g, ¬ R (extendWithEdges vacancyState [(0, 1, 5)]).1 g := by
  obtain ⟨h1, h2, h3, h4, h5⟩ := extend_with_vacancy_witness
  have hv : ValidHist { dir := true, nz := false, ixMax := 255 } (G.empty true)
      [.addNode 0, .addNode 0, .addNode 0, .removeNode 0] := by decide
  obtain ⟨s0, e0, hi0, hr0, _⟩ := withCapacity_spec true false 255 0
  have hs0 : s0 = { dir := true, nz := false, ixMax := 255 } := by
    have : withCapacity true false 255 0 = .ok { dir := true, nz := false, ixMax := 255 } := by decide
    rw [this] at e0; injection e0 with e0; exact e0.symm
  subst hs0
  obtain ⟨hi, hr, _⟩ := run_refines _ _ _ hi0 hr0 hv
  exact ⟨hi, ⟨_, hr⟩, h1, h2, by rw [hasEdge_eq, h3]; rfl, h4, h5⟩

/-- five nodes, then nodes 1, 2, 4, 3 removed: the live ids are `0..1` again, but `removed_ids` still holds
1 and 2 (`node_bound() = 3 ≠ 1 = node_count()`) -/
def junkHist : List Op :=
  [.addNode 0, .addNode 0, .addNode 0, .addNode 0, .addNode 0, .removeNode 1, .removeNode 2, .removeNode 4,
   .removeNode 3]
/-- the state that history reaches (`junk_reached`) -/
def junkState : State :=
  { dir := true, nz := false, ixMax := 255,
    nodes := { elements := #[some 0, none, none, none, none], upperBound := 3, removed := [2, 1] } }

theorem junk_reached : (run { dir := true, nz := false, ixMax := 255 } junkHist).1 = junkState := by decide

/-- … and "the live ids are `0..n`" is not enough either: **"no vacancy" must be `node_bound() =
node_count()`**.  Here the ids are `0..1`, `extend_with_edges([(0, 1, 5)])` adds ONE node — `add_node` pops
the most recently vacated id, 2 — and writes the edge `(0, 1)` although node 1 does not exist.  (This is
why the driver checks `noVacancyB` on the mirror and `node_count = node_bound` of the implementation, not
only `contigB`.) -/
theorem C04_extend_with_edges_contig_false_witness :
    (run { dir := true, nz := false, ixMax := 255 } junkHist).1 = junkState ∧
    contigB (absRun { dir := true, nz := false, ixMax := 255 } (G.empty true) junkHist) = true ∧
    noVacancyB junkState = false ∧
    (extendWithEdges junkState [(0, 1, 5)]).2 = .unit ∧
    (extendWithEdges junkState [(0, 1, 5)]).1.nodes.ids = [0, 2] ∧
    hasEdge (extendWithEdges junkState [(0, 1, 5)]).1 0 1 = true := by
  refine ⟨junk_reached, ?_, by decide, by decide, by decide, by decide⟩
  unfold contigB G.idsAsc
  have h1 : (absRun { dir := true, nz := false, ixMax := 255 } (G.empty true) junkHist).ids = [0] := by decide
  have h2 : (absRun { dir := true, nz := false, ixMax := 255 } (G.empty true) junkHist).nodeCount = 1 := by
    decide
  rw [h1, h2, List.mergeSort_singleton]
  rfl

/-- **histories compose**: from ANY state inside the invariant that describes a simple graph (after a
constructor, after `from_edges`, after an `extend_with_edges`, after a probe), every further call
sequence inside the quantifier keeps invariant and relation and answers as the abstract machine. -/
theorem C04_histories_from_any_state {s : State} {g : G} (h : Inv s) (r : R s g) (ops : List Op)
    (hv : ValidHist s g ops) :
    Inv (run s ops).1 ∧ R (run s ops).1 (absRun s g ops) ∧ (run s ops).2 = absOuts s g ops :=
  run_refines ops s g h r hv

/-! ## wave 5 — outside the quantifier: what the model (= the code) does -/

/-- **a zero written through `edge_weight_mut` / `IndexMut` of a `NotZero` graph** (outside the documented
use of `NotZero`, excluded by `Valid`): `NotZero(0)` is the null element, so the edge is erased — every edge
observer afterwards describes `g.removeEdge a b` and the representation invariant still holds — but
`nb_edges` is not told: `edge_count()` still counts the erased edge, one more than `edge_references()`
yields, and the state describes no simple graph any more.  (Observed on the real code by the `zprobe`
lines of the harness, which compare exactly these four observations.) -/
theorem C04_zero_through_mut {s : State} {g : G} (h : Inv s) (r : R s g) (hnz : s.nz = true) {a b : Nat}
    {v : Int} (he : g.weight a b = some v) :
    ∃ s', setEdgeWeight s a b 0 = (s', .unit) ∧ Inv s' ∧
      (∀ x y, getEdgeWeight s' x y = (g.removeEdge a b).weight x y) ∧
      s'.nodes = s.nodes ∧ s'.cap = s.cap ∧
      s'.nbEdges = g.edgeCount ∧ (g.removeEdge a b).edgeCount + 1 = g.edgeCount ∧
      (edgeRefs s').length + 1 = s'.nbEdges ∧ (∀ g', ¬ R s' g') :=
  zero_through_mut h r hnz he

/-- a `NotZero` state with one edge: `add_node(1)`, `add_node(2)`, `add_edge(0, 1, 5)` -/
def exampleNz : State :=
  { dir := true, nz := true, ixMax := 255, cap := 4, nbEdges := 1,
    adj := #[none, some 5, none, none, none, none, none, none, none, none, none, none, none, none, none, none],
    nodes := { elements := #[some 1, some 2], upperBound := 2 } }

example : (run { dir := true, nz := true, ixMax := 255 } [.addNode 1, .addNode 2, .addEdge 0 1 5]).1 = exampleNz := by
  decide

example : (setEdgeWeight exampleNz 0 1 0).2 = .unit ∧ hasEdge (setEdgeWeight exampleNz 0 1 0).1 0 1 = false ∧
    (setEdgeWeight exampleNz 0 1 0).1.nbEdges = 1 ∧ (edgeRefs (setEdgeWeight exampleNz 0 1 0).1).length = 0 := by
  decide

/-- **the harness' probe lines are undone**: each of the six edge-writing calls on a pair that is not an
edge — in particular with an endpoint that is not a live node, outside the quantifier — followed by
`try_remove_edge` of the same pair leaves a state inside the invariant that describes the SAME simple
graph (the matrix may have grown, invisibly), so the judged history goes on inside the scope of
`C04_histories_from_any_state`. -/
theorem C04_probe_undone {s : State} {g : G} (h : Inv s) (r : R s g) (a b : Nat) (w : Int)
    (hno : g.weight a b = none) (op : Op)
    (hop : op = .addEdge a b w ∨ op = .updateEdge a b w ∨ op = .tryUpdateEdge a b w ∨
      op = .addOrUpdateEdge a b w ∨ op = .buildAddEdge a b w ∨ op = .buildUpdateEdge a b w) :
    Inv (probeState s op a b) ∧ R (probeState s op a b) g :=
  probe_undone h r a b w hno op hop

example : (probeState exampleInit (.updateEdge 7 1 4) 7 1).cap = 8 ∧
    (probeState exampleInit (.updateEdge 7 1 4) 7 1).nbEdges = 0 := by decide

/-! ## run-time checks of the hypotheses

The hypotheses of the theorems above that concern the concrete case are
* `Valid s.nz g op` per call / `ValidHist` per history (`C04_refines_step`, `C04_all_histories`,
  `C04_no_fault`, `C04_capacity_after_call`, `C04_iteration_order_all_histories`),
* `s.nodes.removed = []` (`C04_extend_with_edges`),
* `g.weight a b = none` (`C04_probe_undone`),
* `s.nz = true` and `g.weight a b = some v` (`C04_zero_through_mut`).
`Inv s` and `R s g` are CONSEQUENCES along the judged history (`C04_all_histories`, `C04_from_edges`,
`C04_extend_with_edges`, `C04_probe_undone`, `C04_histories_from_any_state`), liveness of the endpoints
(`C04_notzero_rejects_zero`, `C04_try_update_between_live`) is part of `Valid`, `g.nodeCount = ixMax` or
not (`C04_add_node_limit`, `C04_reused_id_isolated`) is a case split the driver makes with `specStep`, and
the arithmetic hypotheses (`r, c < w`, `old < new`, …) quantify over the model's internals, not over the
case.  The driver evaluates the Booleans below (`Spec/MatrixMachine.lean`) before it judges the call; they
restrict the generated input only, so a failure is answered `SPECFAIL generator left the proved range`. -/

theorem C04_valid_check (nz : Bool) (g : G) (op : Op) (h : validB nz g op = true) : Valid nz g op :=
  of_decide_eq_true h

/-- … and the check rejects nothing that is inside the quantifier -/
theorem C04_valid_complete (nz : Bool) (g : G) (op : Op) (h : Valid nz g op) : validB nz g op = true :=
  decide_eq_true h

/-- the per-call checks along a history are exactly `ValidHist` -/
theorem C04_valid_hist_check : ∀ (ops : List Op) (s : State) (g : G),
    validHistB s g ops = true ↔ ValidHist s g ops
  | [], _, _ => ⟨fun _ => trivial, fun _ => rfl⟩
  | op :: ops, s, g => by
    have ih := C04_valid_hist_check ops (step s op).1 (specStep s.nz s.ixMax g op (idOf (step s op).2)).1
    simp only [validHistB, MatrixProofs.ValidHist, Bool.and_eq_true]
    exact ⟨fun ⟨h1, h2⟩ => ⟨C04_valid_check _ _ _ h1, ih.1 h2⟩,
      fun ⟨h1, h2⟩ => ⟨C04_valid_complete _ _ _ h1, ih.2 h2⟩⟩

theorem C04_noVacancy_check (s : State) (h : noVacancyB s = true) : s.nodes.removed = [] := by
  unfold noVacancyB at h
  exact List.isEmpty_iff.1 h

/-- the spec-level side of "no vacancy": the live ids are `0..node_count` -/
theorem C04_contig_check (g : G) (h : contigB g = true) (x : Nat) : g.live x = true ↔ x < g.nodeCount := by
  unfold contigB at h
  have := eq_of_beq h
  rw [← mem_idsAsc, this, List.mem_range]

theorem C04_notEdge_check (g : G) (a b : Nat) (h : notEdgeB g a b = true) : g.weight a b = none := by
  unfold notEdgeB at h
  exact Option.isNone_iff_eq_none.1 h

theorem C04_zeroMut_check (nz : Bool) (g : G) (a b : Nat) (h : zeroMutB nz g a b = true) :
    nz = true ∧ ∃ v, g.weight a b = some v := by
  unfold zeroMutB at h
  rw [Bool.and_eq_true] at h
  exact ⟨h.1, Option.isSome_iff_exists.1 h.2⟩

example : validHistB exampleInit (G.empty true) exampleOps = true := by decide
example : validB false (G.empty true) (.addEdge 0 1 5) = false := by decide

end PetgraphModel.C04T
