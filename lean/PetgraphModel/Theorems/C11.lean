import PetgraphModel.Proofs.C11
import PetgraphModel.Proofs.C11Models
import PetgraphModel.Proofs.C11W2
import PetgraphModel.Proofs.C11W3Floyd
import PetgraphModel.Proofs.C11W3Fnc
import PetgraphModel.Proofs.C11W3Spfa
import PetgraphModel.Proofs.C11W4
import PetgraphModel.Proofs.C11W4Complete
import PetgraphModel.Proofs.C11W4Driver
import PetgraphModel.Proofs.C11W6
/-
C11 — `bellman_ford`, `spfa`, `floyd_warshall(_path)`, `find_negative_cycle` are exact with
negative costs.

Part 1 (judge soundness, for ALL graphs and ALL answers): the per-run judges of
`Oracle/C11Judge.lean` accept an implementation answer only if the clause of the property it is
judged against really holds of the abstract graph — exact shortest-walk costs (`IsShortest`),
`∞`/`max()` exactly for the unreachable nodes, predecessor entries that spell out a shortest walk
from the source (`TreeWalk`), `Err` only with a reachable closed walk of negative cost and `Ok`
only without one.  The judges use an untrusted reference search, but every acceptance is backed by
a certificate checked by the proved checkers `checkDist` / `checkNegClosedWalk` / `reachFrom`.

Part 2 (mirror models, for ALL views): theorems about `Model/C11Paths.lean`, which `./check C11`
ties to /repo by exact differential execution.
-/
namespace PetgraphModel.C11T
open PetgraphModel PetgraphModel.MGraph PetgraphModel.Oracle PetgraphModel.C11J PetgraphModel.C11P
open PetgraphModel.C11M PetgraphModel.C11MP PetgraphModel.C11W2 PetgraphModel.C11W3 PetgraphModel.C11W4

/-! ## Part 1 — the judges -/

/-- `Ok(paths)` of `bellman_ford` / `spfa` is accepted only if: every finite distance is the exact
shortest-walk cost, a node has no distance iff no walk reaches it, no negative cycle is reachable
from the source (so `Ok` was the right answer), exactly the source and the unreachable nodes have
no predecessor, and the predecessor entries lead from the source to every reachable node along
arcs of the graph at exactly its distance (a shortest-path tree rooted at the source). -/
theorem C11_judge_ok_sound (g : MGraph) (s : Nat) (d : List (Nat × Int)) (pred : Nat → Option Nat)
    (h : judgeOk g s d pred = none) :
    (∀ v y, labelOf d v = some y → IsShortest g s v y) ∧
    (∀ v, labelOf d v = none ↔ ¬ ∃ c, WalkCost g s v c) ∧
    ¬ NegCycleReachable g s ∧
    (∀ v ∈ g.nodes, (pred v = none ↔ (v = s ∨ labelOf d v = none))) ∧
    (∀ v ∈ g.nodes, ∀ y, labelOf d v = some y → TreeWalk g pred s v y) :=
  let r := judgeOk_sound g s d pred h
  ⟨r.exact, r.infinite, r.noNegCycle, r.predNone, r.predTree⟩

/-- the predecessor walk is a walk of the graph -/
theorem C11_tree_walk_is_walk (g : MGraph) (pred : Nat → Option Nat) (s v : Nat) (c : Int)
    (h : TreeWalk g pred s v c) : WalkCost g s v c := h.walk

/-- `Err(NegativeCycle)` of `bellman_ford` / `spfa` is accepted only if a closed walk of negative
cost passes through a node that a walk from the source reaches -/
theorem C11_judge_err_sound (g : MGraph) (s : Nat) (h : judgeErr g s = none) : NegCycleReachable g s :=
  judgeErr_sound g s h

/-- the two verdicts exclude each other: on no input does the judge accept both `Ok` and `Err` -/
theorem C11_judge_ok_err_exclusive (g : MGraph) (s : Nat) (d : List (Nat × Int)) (pred : Nat → Option Nat)
    (h1 : judgeOk g s d pred = none) (h2 : judgeErr g s = none) : False :=
  (judgeOk_sound g s d pred h1).noNegCycle (judgeErr_sound g s h2)

/-- `find_negative_cycle = Some(seq)` is accepted only if `bellman_ford` errs on the same input, a
negative cycle is reachable from the source, and `seq` contains a node with a closed walk of
negative cost (the walk `checkNegClosedWalk` checked: consecutive nodes of `seq`, cyclically,
joined by arcs) -/
theorem C11_judge_fnc_some_sound (g : MGraph) (s : Nat) (seq : List Nat) (bfErr : Bool)
    (h : judgeFnc g s (some seq) bfErr = .ok) :
    bfErr = true ∧ NegCycleReachable g s ∧ checkNegClosedWalk g seq = true ∧
    ∃ v c, v ∈ seq ∧ WalkCost g v v c ∧ c < 0 := by
  obtain ⟨h1, h2, h3⟩ := judgeFnc_some g s seq bfErr h
  refine ⟨h1, h2, ?_, h3⟩
  unfold judgeFnc at h
  split at h
  · simp at h
  · simp only at h
    split at h
    · simp at h
    · split at h
      · simp at h
      · split at h
        · rename_i hc; exact hc
        · simp at h

/-- `find_negative_cycle = None` is accepted only if `bellman_ford` answers `Ok` and no negative
cycle is reachable from the source -/
theorem C11_judge_fnc_none_sound (g : MGraph) (s : Nat) (bfErr : Bool)
    (h : judgeFnc g s none bfErr = .ok) : bfErr = false ∧ ¬ NegCycleReachable g s :=
  judgeFnc_none g s bfErr h

/-- **no `KNOWN D15` classifier any more** (D15 is repaired in /repo): a returned sequence that is
not a closed walk of negative cost along existing arcs is never accepted, whatever it is — the former
special case `Some([source])` included; the only verdicts are `ok` and `fail` -/
theorem C11_judge_fnc_rejects_non_walk (g : MGraph) (s : Nat) (seq : List Nat) (bfErr : Bool)
    (hc : checkNegClosedWalk g seq = false) : judgeFnc g s (some seq) bfErr ≠ .ok :=
  judgeFnc_rejects g s seq bfErr hc

/-- e.g. the former D15 answer `Some([1])` on the D15 witness graph (1→0 cost 4, 0→0 cost −1; source 1) -/
example : judgeFnc { directed := true, nodes := [0, 1], edges := [⟨0, 1, 0, 4⟩, ⟨1, 0, 0, -1⟩] } 1 (some [1]) true ≠ .ok :=
  C11_judge_fnc_rejects_non_walk _ _ _ _ (by decide)

/-- `Ok(matrix)` of `floyd_warshall` is accepted only if every entry is the exact shortest-walk
cost, `max()` (no entry) stands exactly for the unreachable ordered pairs, and no node lies on a
closed walk of negative cost -/
theorem C11_judge_floyd_ok_sound (g : MGraph) (entry : Nat → Nat → Option Int)
    (h : judgeFwOk g entry = none) :
    (∀ u ∈ g.nodes, ∀ v ∈ g.nodes, ∀ y, entry u v = some y → IsShortest g u v y) ∧
    (∀ u ∈ g.nodes, ∀ v ∈ g.nodes, (entry u v = none ↔ ¬ ∃ c, WalkCost g u v c)) ∧
    (∀ u ∈ g.nodes, ∀ c, WalkCost g u u c → 0 ≤ c) :=
  let r := judgeFwOk_sound g entry h
  ⟨r.exact, r.infinite, r.noNegCycle⟩

/-- `prev` of `floyd_warshall_path` is accepted only if, for every ordered pair `u ≠ v`, there is
no entry exactly when `v` is unreachable from `u`, and otherwise the entries of row `u` lead from
`u` to `v` along arcs of the graph at exactly the (shortest) distance -/
theorem C11_judge_floyd_prev_sound (g : MGraph) (entry : Nat → Nat → Option Int)
    (prev : Nat → Nat → Option Nat)
    (h1 : judgeFwOk g entry = none) (h2 : judgeFwPrev g entry prev = none) :
    ∀ u ∈ g.nodes, ∀ v ∈ g.nodes, v ≠ u →
      (prev u v = none ↔ entry u v = none) ∧
      (∀ y, entry u v = some y → TreeWalk g (fun x => if x == u then none else prev u x) u v y) :=
  judgeFwPrev_sound g entry prev h1 h2

/-- `Err(NegativeCycle)` of `floyd_warshall` is accepted only if the graph has a closed walk of
negative cost -/
theorem C11_judge_floyd_err_sound (g : MGraph) (h : judgeFwErr g = none) : NegCycle g :=
  judgeFwErr_sound g h

/-! ## Part 2 — the mirror models -/

/-- the per-case check `viewArcsB` of the driver establishes the hypothesis `ViewArcs` -/
theorem C11_view_check_sound (v : View) (h : viewArcsB v = true) : ViewArcs v :=
  viewArcsB_sound v h

/-- the per-case check `wfB` of the driver establishes `WellFormed` -/
theorem C11_wf_check_sound (g : MGraph) (h : wfB g = true) : g.WellFormed := wfB_sound g h

/-- **bellman_ford, `Ok` half** (all views, all sources): the distances the model returns are the
exact shortest-walk costs, `∞` exactly for the unreachable nodes, no negative cycle is reachable
(so it never answers `Ok` when it should have erred), exactly the source and the unreachable nodes
have no predecessor, and every predecessor entry is the tail of an arc that ends a shortest walk. -/
theorem C11_bellman_ford_ok (v : View) (hv : ViewArcs v) (s : Nat) (st : BF)
    (h : bellmanFord v s = some st) :
    (∀ x y, tget st.d x = some y → IsShortest v.g s x y) ∧
    (∀ x, tget st.d x = none ↔ ¬ ∃ c, WalkCost v.g s x c) ∧
    ¬ NegCycleReachable v.g s ∧
    (∀ x, tget st.p x = none ↔ (x = s ∨ tget st.d x = none)) ∧
    (∀ x p, tget st.p x = some p →
      ∃ a b w, tget st.d p = some a ∧ tget st.d x = some b ∧ (p, x, w) ∈ v.g.arcs ∧ b = a + w) :=
  bellmanFord_ok v hv s st h

/-- consequence: a reachable negative cycle always makes the model of `bellman_ford` err -/
theorem C11_bellman_ford_detects (v : View) (hv : ViewArcs v) (s : Nat)
    (hneg : NegCycleReachable v.g s) : bellmanFord v s = none := by
  cases h : bellmanFord v s with
  | none => rfl
  | some st => exact absurd hneg (bellmanFord_ok v hv s st h).2.2.1

/-- the model of `find_negative_cycle` answers `None` exactly when the model of `bellman_ford`
answers `Ok` -/
theorem C11_find_negative_cycle_iff (v : View) (s : Nat) :
    findNegativeCycle v s = .none ↔ (bellmanFord v s).isSome = true :=
  fnc_none_iff v s

/-- **spfa, `Ok` half** (all views, all sources, every cost type): as for `bellman_ford`, provided
no relaxation out of a final label overflows the cost type (a condition on the result; it holds
whenever the costs are small against `max()`). -/
theorem C11_spfa_ok (B : Meas) (hB : 0 < B.max) (v : View) (hv : ViewArcs v) (s : Nat) (st : SP)
    (h : spfa B v s = some (some st))
    (hfit : ∀ a b w, (a, b, w) ∈ v.g.arcs → ∀ x, tget st.d a = some x → B.min ≤ x + w ∧ x + w < B.max) :
    (∀ x y, tget st.d x = some y → IsShortest v.g s x y ∧ y < B.max) ∧
    (∀ x, tget st.d x = none ↔ ¬ ∃ c, WalkCost v.g s x c) ∧
    ¬ NegCycleReachable v.g s ∧
    (∀ x, tget st.p x = none ↔ (x = s ∨ tget st.d x = none)) ∧
    (∀ x p, tget st.p x = some p →
      ∃ a b w, tget st.d p = some a ∧ tget st.d x = some b ∧ (p, x, w) ∈ v.g.arcs ∧ b = a + w) :=
  spfa_ok B hB v hv s st h hfit

/-- **floyd_warshall, realizability**: every entry the model stores is the cost of a real walk -/
theorem C11_floyd_entries_are_walks (B : Meas) (v : View) (st : FW) (h : floydWarshall B v = some st) :
    ∀ i j y, tget st.d (i, j) = some y → WalkCost v.g i j y :=
  floydWarshall_real B v st h

/-- **floyd_warshall, `Err` half**: the model never reports `NegativeCycle` for a graph without a
closed walk of negative cost (every cost type, every view, overflow or not) -/
theorem C11_floyd_err_sound (B : Meas) (hB : 0 ≤ B.max) (v : View) (h : floydWarshall B v = none) :
    NegCycle v.g :=
  floydWarshall_err B hB v h

/-- **bellman_ford, `Err` half** (all well-formed views, all sources): the model never reports
`NegativeCycle` unless a closed walk of negative cost is reachable from the source (pass-count
argument: after `k` passes every walk of at most `k` arcs is accounted for; without a reachable
negative cycle every walk can be made simple, hence has at most `|V|-1` arcs). -/
theorem C11_bellman_ford_err (v : View) (hv : ViewArcs v) (hwf : v.g.WellFormed) (s : Nat)
    (hs : s ∈ v.g.nodes) (h : bellmanFord v s = none) : NegCycleReachable v.g s :=
  bellmanFord_err v hv hwf s hs h

/-- **bellman_ford errs exactly when a negative cycle is reachable from the source** -/
theorem C11_bellman_ford_err_iff (v : View) (hv : ViewArcs v) (hwf : v.g.WellFormed) (s : Nat)
    (hs : s ∈ v.g.nodes) : bellmanFord v s = none ↔ NegCycleReachable v.g s :=
  ⟨bellmanFord_err v hv hwf s hs, C11_bellman_ford_detects v hv s⟩

/-- **bellman_ford, the predecessor tree**: in an `Ok` result the predecessor entries lead from the
source to every reachable node along arcs of the graph at exactly its (shortest) distance -/
theorem C11_bellman_ford_tree (v : View) (hv : ViewArcs v) (s : Nat) (st : BF)
    (h : bellmanFord v s = some st) :
    ∀ x y, tget st.d x = some y → TreeWalk v.g (tget st.p) s x y :=
  bellmanFord_tree v hv s st h

/-- **find_negative_cycle answers `Some` exactly when a negative cycle is reachable** (model; that
the returned sequence is a closed walk of negative cost — the former finding D15, repaired in /repo —
is `C11_find_negative_cycle_closed_walk` below) -/
theorem C11_find_negative_cycle_some_iff (v : View) (hv : ViewArcs v) (hwf : v.g.WellFormed) (s : Nat)
    (hs : s ∈ v.g.nodes) : findNegativeCycle v s ≠ .none ↔ NegCycleReachable v.g s := by
  rw [← C11_bellman_ford_err_iff v hv hwf s hs]
  constructor
  · intro h
    cases hb : bellmanFord v s with
    | none => rfl
    | some st => exact absurd ((fnc_none_iff v s).2 (by simp [hb])) h
  · intro hb h
    have := (fnc_none_iff v s).1 h
    simp [hb] at this

/-- **spfa, the predecessor tree** (under the hypotheses of `C11_spfa_ok`) -/
theorem C11_spfa_tree (B : Meas) (hB : 0 < B.max) (v : View) (hv : ViewArcs v) (s : Nat) (st : SP)
    (h : spfa B v s = some (some st))
    (hfit : ∀ a b w, (a, b, w) ∈ v.g.arcs → ∀ x, tget st.d a = some x → B.min ≤ x + w ∧ x + w < B.max) :
    ∀ x y, tget st.d x = some y → TreeWalk v.g (tget st.p) s x y :=
  spfa_tree B hB v hv s st h hfit

/-- **spfa, `Err` half** (all well-formed views with `|V| ≤ node_bound`, all sources, every cost
type into which the walks of at most `|V|` arcs fit): the model — FIFO work list, per-vertex visit
counter against `node_bound` — never reports `NegativeCycle` unless a closed walk of negative cost
is reachable from the source.  (This is the clause the LIFO work list of D26 violated.)  Proof: the
queue always is "rest of pass `k`" ++ "pass `k+1` so far"; at the start of pass `k` every walk of at
most `k` arcs is accounted for; a node is popped at most once per pass; without a negative cycle no
label can change from pass `|V|-1` on, so the counter of a popped node is below `|V| ≤ node_bound`. -/
theorem C11_spfa_err (B : Meas) (v : View) (hv : ViewArcs v) (hwf : v.g.WellFormed) (s : Nat)
    (hs : s ∈ v.g.nodes) (hnb : v.g.nodes.length ≤ v.nb)
    (hfit : ∀ x c j, j ≤ v.g.nodes.length → WalkN v.g s x c j → B.min ≤ c ∧ c < B.max)
    (h : spfa B v s = some none) : NegCycleReachable v.g s :=
  spfa_err B v hv hwf s hs hnb hfit h

/-- **floyd_warshall, `Ok` half** (superseded by `C11_floyd_ok_linear` below, which needs only
`2·|V|·Wm < max()`; kept because wave-2 proofs build on its invariant) (all well-formed views, every
cost type that is wide against `2^|V| · max |cost|`, written `dbl |V| Wm`): if the model answers `Ok`, then for every node `i` the
stored entries of row `i` are the exact shortest-walk costs, "no entry" (`max()`) stands exactly
for the pairs without a walk, and no negative cycle is reachable from `i`.  Proof: entries are
costs of real walks; once `k` has been the intermediate node, every row is a feasible potential
for the arcs leaving `k` (rows/columns `k` are stable during pass `k` because the diagonal is `0`,
a negative diagonal entry is absorbing and makes the result `Err`); a feasible potential that is
attained is exact. -/
theorem C11_floyd_ok (B : Meas) (v : View) (hwf : v.g.WellFormed) (Wm : Int) (hWm : 0 ≤ Wm)
    (hW : ∀ e ∈ v.g.edges, -Wm ≤ e.w ∧ e.w ≤ Wm)
    (hfit : dbl v.g.nodes.length Wm + Wm < B.max ∧ B.min ≤ -(dbl v.g.nodes.length Wm))
    (st : FW) (h : floydWarshall B v = some st) :
    ∀ i ∈ v.g.nodes,
      (∀ j y, tget st.d (i, j) = some y → IsShortest v.g i j y) ∧
      (∀ j, tget st.d (i, j) = none ↔ ¬ ∃ c, WalkCost v.g i j c) ∧
      ¬ NegCycleReachable v.g i :=
  floydWarshall_ok B v hwf Wm hWm hW hfit st h

/-- **floyd_warshall errs exactly when the graph contains a negative cycle** (a negative self-loop
included: D13), under the width hypothesis of `C11_floyd_ok` -/
theorem C11_floyd_err_iff (B : Meas) (v : View) (hwf : v.g.WellFormed) (Wm : Int) (hWm : 0 ≤ Wm)
    (hW : ∀ e ∈ v.g.edges, -Wm ≤ e.w ∧ e.w ≤ Wm)
    (hfit : dbl v.g.nodes.length Wm + Wm < B.max ∧ B.min ≤ -(dbl v.g.nodes.length Wm)) :
    floydWarshall B v = none ↔ NegCycle v.g := by
  constructor
  · intro h
    have hmax : 0 ≤ B.max := by have := le_dbl v.g.nodes.length Wm hWm; omega
    exact floydWarshall_err B hmax v h
  · exact floydWarshall_detects B v hwf Wm hWm hW hfit

/-- the width hypothesis is met by `i32` for, e.g., 11 nodes and costs of magnitude at most 64
(the thorough tier of the harness) -/
example : dbl 11 64 + 64 < Meas.i32.max ∧ Meas.i32.min ≤ -(dbl 11 64) := by decide

/-- the fuel of the two fuelled loops of the models suffices (the models never answer "fuel
exhausted" on a well-formed view): the work-list loop of `spfa` — every pop uses up one unit of
`Σ_x (node_bound − visits[x])` — and the predecessor walk of `find_negative_cycle` -/
theorem C11_spfa_fuel (B : Meas) (v : View) (hv : ViewArcs v) (hwf : v.g.WellFormed) (s : Nat)
    (hs : s ∈ v.g.nodes) : spfa B v s ≠ none :=
  spfa_fuel B v hv hwf s hs

theorem C11_find_negative_cycle_fuel (v : View) (hv : ViewArcs v) (hwf : v.g.WellFormed) (s : Nat) :
    findNegativeCycle v s ≠ .fuel :=
  findNegativeCycle_fuel v hv hwf s

/-! ### statement kept for the part of the models that is not proved (judged per run instead) -/

/-- `floyd_warshall_path`: the `prev` entries of an `Ok` result spell out shortest paths
(`prev[i][j] = q` is the tail of an arc `q → j` that ends a shortest walk from `i`, none exactly
for the unreachable pairs, and following the entries leads back to `i`).  Not proved for the model;
per run it is exactly what the proved judge `judgeFwPrev` decides, and the model's `prev` is
compared token by token with the implementation's. -/
def C11_floyd_prev_statement : Prop :=
  ∀ (B : Meas) (v : View) (st : FW), v.g.WellFormed → floydWarshall B v = some st →
    ∀ i ∈ v.g.nodes, ∀ j ∈ v.g.nodes, i ≠ j → ∀ y, tget st.d (i, j) = some y →
      TreeWalk v.g (fun x => if x == i then none else tget st.p (i, x)) i j y

/-- proved part of the above: the distances the `prev` entries refer to are exact (this is
`C11_floyd_ok`); missing: the invariant tying `prev[i][j]` to a tight arc and its acyclicity -/
theorem C11_floyd_prev_partial (B : Meas) (v : View) (hwf : v.g.WellFormed) (Wm : Int) (hWm : 0 ≤ Wm)
    (hW : ∀ e ∈ v.g.edges, -Wm ≤ e.w ∧ e.w ≤ Wm)
    (hfit : dbl v.g.nodes.length Wm + Wm < B.max ∧ B.min ≤ -(dbl v.g.nodes.length Wm))
    (st : FW) (h : floydWarshall B v = some st) :
    ∀ i ∈ v.g.nodes, ∀ j y, tget st.d (i, j) = some y → IsShortest v.g i j y :=
  fun i hi => (floydWarshall_ok B v hwf Wm hWm hW hfit st h i hi).1

/-- **floyd_warshall_path, the predecessor matrix** (wave 2; `C11_floyd_prev_statement` with the
width hypothesis of `C11_floyd_ok` added — without it the statement is false, see
`C11_floyd_prev_statement_false_witness`).  In an `Ok` result the entries `prev[i][·]` lead from `i`
to every `j` with a finite `dist[i][j]` along arcs of the graph at exactly that (shortest)
distance; in particular the predecessor graph of every row is acyclic.  Proof
(`Proofs/C11W2.lean`): at the pass boundaries every finite entry of every row hangs in the tree
of its row along good arcs (`dist[i][q] + w ≤ dist[i][j]`) with tail in `{i} ∪ K`; a pass through `k`
grafts pieces of row `k` onto row `i`, and because row `k` is a feasible potential for the arcs with
tail in `K`, an entry that is not replaced has no replaced ancestor. -/
theorem C11_floyd_prev (B : Meas) (v : View) (hwf : v.g.WellFormed) (Wm : Int) (hWm : 0 ≤ Wm)
    (hW : ∀ e ∈ v.g.edges, -Wm ≤ e.w ∧ e.w ≤ Wm)
    (hfit : dbl v.g.nodes.length Wm + Wm < B.max ∧ B.min ≤ -(dbl v.g.nodes.length Wm))
    (st : FW) (h : floydWarshall B v = some st) :
    ∀ i ∈ v.g.nodes, ∀ j ∈ v.g.nodes, i ≠ j → ∀ y, tget st.d (i, j) = some y →
      TreeWalk v.g (fun x => if x == i then none else tget st.p (i, x)) i j y :=
  fun i hi j _ _ y hy => floydWarshall_prev B v hwf Wm hWm hW hfit st h i hi j y hy

/-- the same for every `j` (the diagonal and ids outside the graph included) -/
theorem C11_floyd_prev_all (B : Meas) (v : View) (hwf : v.g.WellFormed) (Wm : Int) (hWm : 0 ≤ Wm)
    (hW : ∀ e ∈ v.g.edges, -Wm ≤ e.w ∧ e.w ≤ Wm)
    (hfit : dbl v.g.nodes.length Wm + Wm < B.max ∧ B.min ≤ -(dbl v.g.nodes.length Wm))
    (st : FW) (h : floydWarshall B v = some st) :
    ∀ i ∈ v.g.nodes, ∀ j y, tget st.d (i, j) = some y →
      TreeWalk v.g (fun x => if x == i then none else tget st.p (i, x)) i j y :=
  floydWarshall_prev B v hwf Wm hWm hW hfit st h

/-- **`prev[i][j]` is the penultimate node of a shortest walk from `i` to `j`**: off the diagonal
there is no entry exactly for the pairs without a walk, and an entry `q` is the tail of an arc
`q → j` of cost `w` with `dist[i][j] = dist[i][q] + w`, both distances exact. -/
theorem C11_floyd_prev_penultimate (B : Meas) (v : View) (hwf : v.g.WellFormed) (Wm : Int) (hWm : 0 ≤ Wm)
    (hW : ∀ e ∈ v.g.edges, -Wm ≤ e.w ∧ e.w ≤ Wm)
    (hfit : dbl v.g.nodes.length Wm + Wm < B.max ∧ B.min ≤ -(dbl v.g.nodes.length Wm))
    (st : FW) (h : floydWarshall B v = some st) :
    ∀ i ∈ v.g.nodes, ∀ j, j ≠ i →
      (tget st.p (i, j) = none ↔ ¬ ∃ c, WalkCost v.g i j c) ∧
      (∀ q, tget st.p (i, j) = some q →
        ∃ a w, IsShortest v.g i q a ∧ tget st.d (i, q) = some a ∧ (q, j, w) ∈ v.g.arcs ∧
          tget st.d (i, j) = some (a + w) ∧ IsShortest v.g i j (a + w)) :=
  floydWarshall_prev_arc B v hwf Wm hWm hW hfit st h

/-- witness against `C11_floyd_prev_statement` as written (no width hypothesis): arcs `0→1` (−3),
`1→2` (−4), `0→3` (−2), `3→1` (−2) over a cost type with `max() = 7`, `min() = −7`.  Pass `1` sets
`dist[0][2] = −7`, `prev[0][2] = 1`; pass `3` improves `dist[0][1]` to `−4`, but the matching
improvement `dist[0][2] = −8` overflows and is skipped, so the chain `0 → 3 → 1 → 2` of `prev[0][·]`
costs `−8 ≠ dist[0][2]`.  (The same happens for `i32` with these costs scaled by `2^28` and
`1→2` one less: `overflowing_add` reports the overflow and petgraph skips the relaxation.) -/
def prevCexView : View :=
  { g := { directed := true, nodes := [0, 1, 2, 3],
           edges := [⟨0, 0, 1, -3⟩, ⟨1, 1, 2, -4⟩, ⟨2, 0, 3, -2⟩, ⟨3, 3, 1, -2⟩] },
    nb := 4, ix := [(0, 0), (1, 1), (2, 2), (3, 3)], out := [], inn := [] }

theorem treeWalk_inv {g : MGraph} {pred : Nat → Option Nat} {s v : Nat} {c : Int}
    (h : TreeWalk g pred s v c) :
    (v = s ∧ c = 0) ∨ ∃ u c' w, pred v = some u ∧ TreeWalk g pred s u c' ∧ (u, v, w) ∈ g.arcs ∧ c = c' + w := by
  cases h with
  | root => exact Or.inl ⟨rfl, rfl⟩
  | step h1 hp harc => exact Or.inr ⟨_, _, _, hp, h1, harc, rfl⟩

set_option maxRecDepth 8000 in
theorem C11_floyd_prev_statement_false_witness : ¬ C11_floyd_prev_statement := by
  intro hS
  have harcs : prevCexView.g.arcs = [(0, 1, -3), (1, 2, -4), (0, 3, -2), (3, 1, -2)] := by decide
  have hwf : prevCexView.g.WellFormed := wfB_sound _ (by decide)
  have facts : (match floydWarshall ⟨7, -7⟩ prevCexView with
      | some st => (tget st.d (0, 2), tget st.p (0, 2), tget st.p (0, 1), tget st.p (0, 3))
      | none => (none, none, none, none)) = (some (-7), some 1, some 3, some 0) := by decide
  cases hfw : floydWarshall ⟨7, -7⟩ prevCexView with
  | none => rw [hfw] at facts; simp at facts
  | some st =>
    rw [hfw] at facts
    simp only [Prod.mk.injEq] at facts
    obtain ⟨hd, hp2, hp1, hp3⟩ := facts
    have htw := hS ⟨7, -7⟩ prevCexView st hwf hfw 0 (by decide) 2 (by decide) (by decide) (-7) hd
    rcases treeWalk_inv htw with ⟨h, _⟩ | ⟨u2, c2, w2, hq2, ht2, ha2, he2⟩
    · omega
    · simp only [show ((2 : Nat) == 0) = false by decide, hp2] at hq2
      cases hq2
      rcases treeWalk_inv ht2 with ⟨h, _⟩ | ⟨u1, c1, w1, hq1, ht1, ha1, he1⟩
      · omega
      · simp only [show ((1 : Nat) == 0) = false by decide, hp1] at hq1
        cases hq1
        rcases treeWalk_inv ht1 with ⟨h, _⟩ | ⟨u3, c3, w3, hq3, ht3, ha3, he3⟩
        · omega
        · simp only [show ((3 : Nat) == 0) = false by decide, hp3] at hq3
          cases hq3
          rcases treeWalk_inv ht3 with ⟨_, h0⟩ | ⟨u0, c0, w0, hq0, _, _, _⟩
          · rw [harcs] at ha2 ha1 ha3
            simp at ha2 ha1 ha3
            omega
          · simp at hq0

/- the `i32` instance of the witness (outside the width hypothesis of `C11_floyd_prev`): the model
answers `dist[0][2] = −1879048193` with `prev[0][2] = 1`, although `dist[0][1] + cost(1→2) =
−1073741824 − 1073741825 = −2^31 − 1` (the relaxation through `3` that would have stored it overflowed) -/
set_option maxRecDepth 8000 in
example :
    (match floydWarshall Meas.i32
        { prevCexView with g := { prevCexView.g with edges :=
          [⟨0, 0, 1, -805306368⟩, ⟨1, 1, 2, -1073741825⟩, ⟨2, 0, 3, -536870912⟩, ⟨3, 3, 1, -536870912⟩] } } with
      | some st => (tget st.d (0, 2), tget st.p (0, 2), tget st.d (0, 1))
      | none => (none, none, none)) = (some (-1879048193), some 1, some (-1073741824)) := by
  decide

/-! ### the hypotheses are satisfiable, and the D15 witness -/

/-- the D15 witness of DESIGN §5: nodes 0,1; edges 1→0 (4), 0→0 (−1); source 1 -/
def d15View : View :=
  { g := { directed := true, nodes := [0, 1], edges := [⟨0, 1, 0, 4⟩, ⟨1, 0, 0, -1⟩] },
    nb := 2, ix := [(0, 0), (1, 1)],
    out := [(0, [(0, 1)]), (1, [(0, 0)])], inn := [(0, [(0, 1), (1, 0)]), (1, [])] }

example : viewArcsB d15View = true := by decide
example : wfB d15View.g = true := by decide

/-- a view without negative cycle but with negative arcs and an unreachable node: the hypotheses
`ViewArcs` / `WellFormed` of the model theorems hold (checked by the proved checkers), and the
models answer `Ok` -/
def okView : View :=
  { g := { directed := true, nodes := [0, 1, 2, 3],
           edges := [⟨0, 0, 1, 2⟩, ⟨1, 1, 2, -1⟩, ⟨2, 0, 2, 3⟩, ⟨3, 2, 1, 1⟩] },
    nb := 5, ix := [(0, 0), (1, 1), (2, 3), (3, 4)],
    out := [(0, [(2, 2), (1, 0)]), (1, [(2, 1)]), (2, [(1, 3)]), (3, [])],
    inn := [(0, []), (1, [(0, 0), (2, 3)]), (2, [(1, 1), (0, 2)]), (3, [])] }

example : viewArcsB okView = true ∧ wfB okView.g = true := by decide
example : (bellmanFord okView 0).isSome = true := by decide
example : (match spfa Meas.i32 okView 0 with | some (some st) => tget st.d 2 | _ => none) = some 1 := by decide
set_option maxRecDepth 8000 in
example : (match floydWarshall Meas.i64 okView with | some st => tget st.d (0, 2) | none => none) = some 1 := by decide

/-- D15 is repaired in /repo (the detected relaxation is carried out before the predecessor walk) and
the model follows: on the former D15 witness the answer is now a negative closed walk (it used to be
`Some([1])`, which is not a walk at all). -/
theorem C11_find_negative_cycle_d15_witness_repaired :
    (match findNegativeCycle d15View 1 with | .some seq => checkNegClosedWalk d15View.g seq | _ => false) = true ∧
    bellmanFord d15View 1 = none := by
  decide

/-! ## wave 3 — `floyd_warshall` under a LINEAR width hypothesis; `find_negative_cycle` returns a
negative closed walk (repaired code); one iff for `spfa` -/

/-- **floyd_warshall(_path), `Ok` half under a linear width hypothesis** (replaces the exponential
`dbl |V| Wm` of `C11_floyd_ok` / `C11_floyd_prev*`): all costs within `[−Wm, Wm]`,
`2·|V|·Wm < max()` and `min() ≤ −2·|V|·Wm`.  If the model answers `Ok`, the graph has no negative
cycle and, for every row `i`: the stored entries are the exact shortest-walk costs, no entry (`max()`)
stands exactly for the pairs without a walk, the entries `prev[i][·]` lead from `i` to every `j` with a
finite distance along arcs of the graph at exactly that distance, and off the diagonal `prev[i][j]` is
absent exactly for the unreachable pairs and otherwise the penultimate node of a shortest walk.
Proof (`Proofs/C11W3Floyd.lean`): at the pass boundaries, in the branch without a negative diagonal
entry, every stored entry is the cost of a walk with interior in `K` (the intermediate nodes used so
far) and is at most the cost of every simple path with interior in `K`; hence closed walks through
`K` are non-negative, every stored entry is the cost of a *simple* path and so at most `(|V|−1)·Wm` in
absolute value — the bound does not double, no sum of the next pass overflows. -/
theorem C11_floyd_ok_linear (B : Meas) (v : View) (hwf : v.g.WellFormed) (Wm : Int) (hWm : 0 ≤ Wm)
    (hW : ∀ e ∈ v.g.edges, -Wm ≤ e.w ∧ e.w ≤ Wm)
    (hfit : 2 * ((v.g.nodes.length : Int) * Wm) < B.max ∧ B.min ≤ -(2 * ((v.g.nodes.length : Int) * Wm)))
    (st : FW) (h : floydWarshall B v = some st) :
    ¬ NegCycle v.g ∧
    ∀ i ∈ v.g.nodes,
      (∀ j y, tget st.d (i, j) = some y → IsShortest v.g i j y) ∧
      (∀ j, tget st.d (i, j) = none ↔ ¬ ∃ c, WalkCost v.g i j c) ∧
      (∀ j y, tget st.d (i, j) = some y →
        TreeWalk v.g (fun x => if x == i then none else tget st.p (i, x)) i j y) ∧
      (∀ j, j ≠ i →
        (tget st.p (i, j) = none ↔ ¬ ∃ c, WalkCost v.g i j c) ∧
        (∀ q, tget st.p (i, j) = some q →
          ∃ a w, IsShortest v.g i q a ∧ tget st.d (i, q) = some a ∧ (q, j, w) ∈ v.g.arcs ∧
            tget st.d (i, j) = some (a + w) ∧ IsShortest v.g i j (a + w))) := by
  obtain ⟨hrows, hno⟩ := floydWarshall_ok_lin B v hwf Wm hWm hW hfit st h
  refine ⟨hno, fun i hi => ⟨(hrows i hi).1, (hrows i hi).2, ?_, ?_⟩⟩
  · exact floydWarshall_prev_lin B v hwf Wm hWm hW hfit st h i hi
  · exact floydWarshall_prev_arc_lin B v hwf Wm hWm hW hfit st h i hi

/-- **floyd_warshall, `Err` half under the linear width hypothesis**: a negative cycle anywhere (a
negative self-loop included) makes the model answer `Err(NegativeCycle)` — a negative diagonal entry
is absorbing, and until one appears the entries obey the linear bound, so the relaxation that
produces it is never skipped as overflowing -/
theorem C11_floyd_err_linear (B : Meas) (v : View) (hwf : v.g.WellFormed) (Wm : Int) (hWm : 0 ≤ Wm)
    (hW : ∀ e ∈ v.g.edges, -Wm ≤ e.w ∧ e.w ≤ Wm)
    (hfit : 2 * ((v.g.nodes.length : Int) * Wm) < B.max ∧ B.min ≤ -(2 * ((v.g.nodes.length : Int) * Wm)))
    (hneg : NegCycle v.g) : floydWarshall B v = none :=
  floydWarshall_detects_lin B v hwf Wm hWm hW hfit hneg

/-- **floyd_warshall errs exactly when the graph contains a negative cycle**, linear width hypothesis -/
theorem C11_floyd_err_iff_linear (B : Meas) (v : View) (hwf : v.g.WellFormed) (Wm : Int) (hWm : 0 ≤ Wm)
    (hW : ∀ e ∈ v.g.edges, -Wm ≤ e.w ∧ e.w ≤ Wm)
    (hfit : 2 * ((v.g.nodes.length : Int) * Wm) < B.max ∧ B.min ≤ -(2 * ((v.g.nodes.length : Int) * Wm))) :
    floydWarshall B v = none ↔ NegCycle v.g := by
  constructor
  · intro h
    have hM : 0 ≤ (v.g.nodes.length : Int) * Wm := Int.mul_nonneg (Int.natCast_nonneg _) hWm
    exact floydWarshall_err B (by have := hfit.1; omega) v h
  · exact floydWarshall_detects_lin B v hwf Wm hWm hW hfit

/-- the form "no negative cycle ∧ linear bound ⇒ `Ok` with exact distances, `max()` exactly for the
unreachable pairs, and `prev` spelling out shortest paths" -/
theorem C11_floyd_exact_linear (B : Meas) (v : View) (hwf : v.g.WellFormed) (Wm : Int) (hWm : 0 ≤ Wm)
    (hW : ∀ e ∈ v.g.edges, -Wm ≤ e.w ∧ e.w ≤ Wm)
    (hfit : 2 * ((v.g.nodes.length : Int) * Wm) < B.max ∧ B.min ≤ -(2 * ((v.g.nodes.length : Int) * Wm)))
    (hno : ¬ NegCycle v.g) :
    ∃ st, floydWarshall B v = some st ∧
      ∀ i ∈ v.g.nodes,
        (∀ j y, tget st.d (i, j) = some y → IsShortest v.g i j y) ∧
        (∀ j, tget st.d (i, j) = none ↔ ¬ ∃ c, WalkCost v.g i j c) ∧
        (∀ j y, tget st.d (i, j) = some y →
          TreeWalk v.g (fun x => if x == i then none else tget st.p (i, x)) i j y) := by
  cases h : floydWarshall B v with
  | none => exact absurd ((C11_floyd_err_iff_linear B v hwf Wm hWm hW hfit).1 h) hno
  | some st =>
    obtain ⟨_, hrows⟩ := C11_floyd_ok_linear B v hwf Wm hWm hW hfit st h
    exact ⟨st, rfl, fun i hi => ⟨(hrows i hi).1, (hrows i hi).2.1, (hrows i hi).2.2.1⟩⟩

/-- the linear width hypothesis is met by `i32` for, e.g., 1000 nodes and costs of magnitude at
most `10^6` (the exponential one of `C11_floyd_ok` allowed at most 24–30 nodes) -/
example : 2 * (((1000 : Nat) : Int) * 1000000) < Meas.i32.max ∧
    Meas.i32.min ≤ -(2 * (((1000 : Nat) : Int) * 1000000)) := by decide

/-- **reading of the checker of the judge**: `checkNegClosedWalk g seq = true` exactly when the
consecutive nodes of `seq`, read cyclically (`v0 → v1 → … → vk-1 → v0`; a single node needs a
self-loop), are joined by arcs of negative total cost — `ClosedWalkCost` is the inductive
spec-level notion (`Proofs/C11W3Fnc.lean`) -/
theorem C11_checkNegClosedWalk_reading (g : MGraph) (seq : List Nat) (h : checkNegClosedWalk g seq = true) :
    ∃ c, c < 0 ∧ ClosedWalkCost g seq c :=
  checkNegClosedWalk_reading g seq h

theorem C11_checkNegClosedWalk_iff (g : MGraph) (seq : List Nat) :
    checkNegClosedWalk g seq = true ↔ ∃ c, c < 0 ∧ ClosedWalkCost g seq c :=
  ⟨checkNegClosedWalk_reading g seq, fun ⟨c, hc, hw⟩ => checkNegClosedWalk_complete g seq c hc hw⟩

/-- a `ClosedWalkCost` is a closed walk of the graph through the first node of the sequence -/
theorem C11_closed_walk_is_walk (g : MGraph) (seq : List Nat) (c : Int) (h : ClosedWalkCost g seq c) :
    ∃ v0 rest, seq = v0 :: rest ∧ WalkCost g v0 v0 c :=
  h.walk

/-- **find_negative_cycle = `Some(seq)`: `seq` is a closed walk along existing arcs with negative
total cost** (all views with `ViewArcs`, well-formed graph, all sources; model of the repaired code,
in which the detected relaxation `pred[j] := i` is carried out before the predecessor walk).  The
former finding D15 is thereby closed for the model: the clause that had only a counterexample is now a
theorem.  Proof (`Proofs/C11W3Fnc.lean`): every cycle of the predecessor graph has negative cost (the
arc that closed it was strictly improving); the predecessor walk from `j` cannot end in a node without
predecessor — that node would be the source, still at distance `0`, and `s ⇝ i → j` would be a walk of
at most `|V|−1` arcs cheaper than `d[j]`, impossible after `|V|−1` passes — so it closes a cycle. -/
theorem C11_find_negative_cycle_closed_walk (v : View) (hv : ViewArcs v) (hwf : v.g.WellFormed) (s : Nat)
    (seq : List Nat) (h : findNegativeCycle v s = .some seq) :
    checkNegClosedWalk v.g seq = true ∧ ∃ c, c < 0 ∧ ClosedWalkCost v.g seq c :=
  ⟨findNegativeCycle_check v hv hwf s seq h, findNegativeCycle_closed v hv hwf s seq h⟩

/-- **spfa errs exactly when a negative cycle is reachable from the source — one iff from one
input-side bound.**  `M` bounds the length of the out-lists, `L = |V|·node_bound·M + |V|`
(`spfaLen v M`); all costs within `[−Wm, Wm]`, `L·Wm < max()` and `min() ≤ −L·Wm`.  The bound is not
linear in `|V|`, and cannot be (next theorem).  Proof (`Proofs/C11W3Spfa.lean`): every label ever
stored is the cost of a walk from the source with at most `|V|·node_bound·M` arcs (at most
`|V|·node_bound` pops, each relaxing at most `M` arcs), so nothing overflows: `C11_spfa_ok` and
`C11_spfa_err` both apply. -/
theorem C11_spfa_iff (B : Meas) (v : View) (hv : ViewArcs v) (hwf : v.g.WellFormed) (s : Nat)
    (hs : s ∈ v.g.nodes) (hnb : v.g.nodes.length ≤ v.nb) (M : Nat) (hM : ∀ a, (v.outOf a).length ≤ M)
    (Wm : Int) (hWm : 0 ≤ Wm) (hW : ∀ e ∈ v.g.edges, -Wm ≤ e.w ∧ e.w ≤ Wm)
    (hfit : ((v.g.nodes.length * v.nb * M + v.g.nodes.length : Nat) : Int) * Wm < B.max ∧
      B.min ≤ -(((v.g.nodes.length * v.nb * M + v.g.nodes.length : Nat) : Int) * Wm)) :
    spfa B v s = some none ↔ NegCycleReachable v.g s :=
  spfa_iff_wm B v hv hwf s hs hnb M hM Wm hWm hW hfit

/-- the same from the hypothesis that the walks from the source with at most `L` arcs fit -/
theorem C11_spfa_iff_walks (B : Meas) (v : View) (hv : ViewArcs v) (hwf : v.g.WellFormed) (s : Nat)
    (hs : s ∈ v.g.nodes) (hnb : v.g.nodes.length ≤ v.nb) (M : Nat) (hM : ∀ a, (v.outOf a).length ≤ M)
    (hfit : ∀ x c j, j ≤ v.g.nodes.length * v.nb * M + v.g.nodes.length → WalkN v.g s x c j →
      B.min ≤ c ∧ c < B.max) :
    spfa B v s = some none ↔ NegCycleReachable v.g s :=
  spfa_iff B v hv hwf s hs hnb M hM hfit

/-- a directed ring of three arcs of cost `−1` -/
def ringView : View :=
  { g := { directed := true, nodes := [0, 1, 2], edges := [⟨0, 0, 1, -1⟩, ⟨1, 1, 2, -1⟩, ⟨2, 2, 0, -1⟩] },
    nb := 3, ix := [(0, 0), (1, 1), (2, 2)],
    out := [(0, [(1, 0)]), (1, [(2, 1)]), (2, [(0, 2)])],
    inn := [(0, [(2, 2)]), (1, [(0, 0)]), (2, [(1, 1)])] }

/-- **a bound linear in `|V|` is NOT enough for the `spfa` iff**: on the ring (`|V| = node_bound = 3`,
`Wm = 1`) over a cost type with `max() = 7`, `min() = −7` — so `2·|V|·Wm = 6 < max()` and
`min() ≤ −6` — a negative cycle passes through the source, but the model answers `Ok`: the labels
sink to `−7`, the next relaxation overflows and is skipped, and the work list runs empty before any
visit counter exceeds `node_bound` (which needs the labels to reach `−|V|·node_bound·Wm = −9`; with
`min() ≤ −9` the model errs). -/
theorem C11_spfa_iff_linear_bound_false_witness :
    viewArcsB ringView = true ∧ wfB ringView.g = true ∧ ringView.g.nodes.length ≤ ringView.nb ∧
    (2 * ((ringView.g.nodes.length : Int) * 1) < 7 ∧ (-7 : Int) ≤ -(2 * ((ringView.g.nodes.length : Int) * 1))) ∧
    (match spfa ⟨7, -7⟩ ringView 0 with | some (some _) => true | _ => false) = true ∧
    (match spfa ⟨7, -9⟩ ringView 0 with | some none => true | _ => false) = true ∧
    NegCycleReachable ringView.g 0 := by
  refine ⟨by decide, by decide, by decide, by decide, by decide, by decide, ?_⟩
  have h01 : (0, 1, (-1 : Int)) ∈ ringView.g.arcs := by decide
  have h12 : (1, 2, (-1 : Int)) ∈ ringView.g.arcs := by decide
  have h20 : (2, 0, (-1 : Int)) ∈ ringView.g.arcs := by decide
  exact ⟨0, 0, 0 + -1 + -1 + -1, WalkCost.nil 0,
    WalkCost.snoc (WalkCost.snoc (WalkCost.snoc (WalkCost.nil 0) h01) h12) h20, by decide⟩

/-! ## wave 4 — run-time checks of the hypotheses

Every hypothesis of the Part-2 theorems that concerns the concrete case is evaluated by the driver
(`Driver/C11.lean`) as a Boolean of `Model/C11Paths.lean` / `Model/C11Checks.lean` on every case it
judges: `viewArcsB`, `wfB` on the `graph` line (`C11_view_check_sound`, `C11_wf_check_sound` above),
and per request `srcB` (bf, fnc, spfa), `nbB` and `fitSpfaB` (spfa), `fitFloydB` (fw, fwp), `fitBfB`
(bf, fnc: `f64` used as an integer type), with `M = maxOutLen v` and `Wm = maxAbsW v.g` computed
from the case.  The theorems of this section turn each `… = true` into the hypothesis it stands for;
the `…_checked` theorems restate the model theorems with Boolean hypotheses only, so every judged
case is provably inside their scope. -/

/-- `srcB`: the source is a node of the graph -/
theorem C11_src_check (v : View) (s : Nat) (h : srcB v s = true) : s ∈ v.g.nodes := srcB_sound h

/-- `nbB`: `node_count() ≤ node_bound()` -/
theorem C11_nb_check (v : View) (h : nbB v = true) : v.g.nodes.length ≤ v.nb := nbB_sound h

/-- the computed `M = maxOutLen v` bounds the length of every out-list (hypothesis `hM` of
`C11_spfa_iff`; holds by construction, nothing to check) -/
theorem C11_outlen_check (v : View) : ∀ a, (v.outOf a).length ≤ maxOutLen v := outOf_length_le v

/-- the computed `Wm = maxAbsW g` is non-negative and bounds the magnitude of every cost
(hypotheses `hWm`, `hW` of the floyd / spfa theorems; by construction) -/
theorem C11_cost_bound_check (g : MGraph) :
    (0 : Int) ≤ ((maxAbsW g : Nat) : Int) ∧
    ∀ e ∈ g.edges, -((maxAbsW g : Nat) : Int) ≤ e.w ∧ e.w ≤ ((maxAbsW g : Nat) : Int) :=
  ⟨Int.natCast_nonneg _, cost_bound g⟩

/-- `fitFloydB`: the linear width hypothesis of `C11_floyd_ok_linear` / `C11_floyd_err_iff_linear`
for `Wm = maxAbsW` -/
theorem C11_floyd_fit_check (B : Meas) (v : View) (h : fitFloydB B v = true) :
    2 * ((v.g.nodes.length : Int) * ((maxAbsW v.g : Nat) : Int)) < B.max ∧
    B.min ≤ -(2 * ((v.g.nodes.length : Int) * ((maxAbsW v.g : Nat) : Int))) :=
  fitFloydB_sound h

/-- `fitSpfaB`: the width hypothesis of `C11_spfa_iff` for `M = maxOutLen`, `Wm = maxAbsW` -/
theorem C11_spfa_fit_check (B : Meas) (v : View) (h : fitSpfaB B v = true) :
    ((v.g.nodes.length * v.nb * maxOutLen v + v.g.nodes.length : Nat) : Int) * ((maxAbsW v.g : Nat) : Int) < B.max ∧
    B.min ≤ -(((v.g.nodes.length * v.nb * maxOutLen v + v.g.nodes.length : Nat) : Int) * ((maxAbsW v.g : Nat) : Int)) :=
  fitSpfaB_sound h

set_option exponentiation.threshold 1100 in
/-- a check passed for the range `±2^53` of exactly represented integers also holds for `f64` itself
(the driver evaluates the `f64` requests against both) -/
theorem C11_fit_exact_f64_check (L Wm : Nat) (h : fitsB Meas.exactF64 L Wm = true) : fitsB Meas.f64 L Wm = true :=
  fitsB_mono (by decide) (by decide) h

/-- **bellman_ford, all clauses, Boolean hypotheses only** (`graph`-line checks + `srcB`): `Err`
exactly when a negative cycle is reachable from the source; otherwise every finite distance is the
exact shortest-walk cost and the predecessor entries lead from the source to the node along arcs at
exactly that cost (shortest-path tree), a node has no distance iff it is unreachable, and a node has
no predecessor iff it is the source or unreachable. -/
theorem C11_bellman_ford_checked (v : View) (s : Nat)
    (hv : viewArcsB v = true) (hwf : wfB v.g = true) (hs : srcB v s = true) :
    (bellmanFord v s = none ↔ NegCycleReachable v.g s) ∧
    ∀ st, bellmanFord v s = some st →
      (∀ x y, tget st.d x = some y → IsShortest v.g s x y ∧ TreeWalk v.g (tget st.p) s x y) ∧
      (∀ x, tget st.d x = none ↔ ¬ ∃ c, WalkCost v.g s x c) ∧
      (∀ x, tget st.p x = none ↔ (x = s ∨ ¬ ∃ c, WalkCost v.g s x c)) := by
  have hv' := viewArcsB_sound v hv
  refine ⟨C11_bellman_ford_err_iff v hv' (wfB_sound _ hwf) s (srcB_sound hs), fun st h => ?_⟩
  obtain ⟨h1, h2, _, h4, _⟩ := bellmanFord_ok v hv' s st h
  refine ⟨fun x y hx => ⟨h1 x y hx, bellmanFord_tree v hv' s st h x y hx⟩, h2, fun x => ?_⟩
  rw [h4 x, h2 x]

/-- **find_negative_cycle, all clauses, Boolean hypotheses only**: `None` exactly when
`bellman_ford` answers `Ok`, exactly when no negative cycle is reachable; a returned sequence is a
closed walk along existing arcs of negative total cost; the predecessor walk ends within its fuel. -/
theorem C11_find_negative_cycle_checked (v : View) (s : Nat)
    (hv : viewArcsB v = true) (hwf : wfB v.g = true) (hs : srcB v s = true) :
    (findNegativeCycle v s = .none ↔ (bellmanFord v s).isSome = true) ∧
    (findNegativeCycle v s = .none ↔ ¬ NegCycleReachable v.g s) ∧
    findNegativeCycle v s ≠ .fuel ∧
    ∀ seq, findNegativeCycle v s = .some seq →
      checkNegClosedWalk v.g seq = true ∧ ∃ c, c < 0 ∧ ClosedWalkCost v.g seq c := by
  have hv' := viewArcsB_sound v hv
  have hwf' := wfB_sound _ hwf
  refine ⟨fnc_none_iff v s, ?_, findNegativeCycle_fuel v hv' hwf' s,
    fun seq h => C11_find_negative_cycle_closed_walk v hv' hwf' s seq h⟩
  have := C11_find_negative_cycle_some_iff v hv' hwf' s (srcB_sound hs)
  constructor
  · intro h hneg; exact (this.2 hneg) h
  · intro hno
    cases hf : findNegativeCycle v s with
    | none => rfl
    | some seq => exact absurd (this.1 (by rw [hf]; simp)) hno
    | fuel => exact absurd (this.1 (by rw [hf]; simp)) hno

/-- **spfa, `Ok` half from the INPUT-side bound** (wave 3 had `C11_spfa_ok` / `C11_spfa_tree` from a
condition on the result): under the hypotheses of `C11_spfa_iff`, an `Ok` result holds the exact
shortest-walk costs, no entry exactly for the unreachable nodes, and predecessors that form a
shortest-path tree (none exactly for the source and the unreachable nodes). -/
theorem C11_spfa_ok_input_bound (B : Meas) (v : View) (hv : ViewArcs v) (hwf : v.g.WellFormed) (s : Nat)
    (hs : s ∈ v.g.nodes) (M : Nat) (hM : ∀ a, (v.outOf a).length ≤ M)
    (Wm : Int) (hWm : 0 ≤ Wm) (hW : ∀ e ∈ v.g.edges, -Wm ≤ e.w ∧ e.w ≤ Wm)
    (hfit : ((v.g.nodes.length * v.nb * M + v.g.nodes.length : Nat) : Int) * Wm < B.max ∧
      B.min ≤ -(((v.g.nodes.length * v.nb * M + v.g.nodes.length : Nat) : Int) * Wm))
    (st : SP) (h : spfa B v s = some (some st)) :
    (∀ x y, tget st.d x = some y → IsShortest v.g s x y ∧ y < B.max ∧ TreeWalk v.g (tget st.p) s x y) ∧
    (∀ x, tget st.d x = none ↔ ¬ ∃ c, WalkCost v.g s x c) ∧
    ¬ NegCycleReachable v.g s ∧
    (∀ x, tget st.p x = none ↔ (x = s ∨ ¬ ∃ c, WalkCost v.g s x c)) := by
  have hL : 0 ≤ (spfaLen v M : Int) * Wm := Int.mul_nonneg (Int.natCast_nonneg _) hWm
  have hB : 0 < B.max := by have := hfit.1; unfold spfaLen at hL; omega
  have hres := spfa_result_fits B v hv hwf s hs M hM Wm hWm hW hfit st h
  obtain ⟨h1, h2, h3, h4, _⟩ := spfa_ok B hB v hv s st h hres
  refine ⟨fun x y hx => ⟨(h1 x y hx).1, (h1 x y hx).2, spfa_tree B hB v hv s st h hres x y hx⟩, h2, h3, fun x => ?_⟩
  rw [h4 x, h2 x]

/-- **spfa, all clauses, Boolean hypotheses only** (`graph`-line checks + `srcB`, `nbB`,
`fitSpfaB`): the work-list loop ends within its fuel, the answer is `Err` exactly when a negative
cycle is reachable from the source, and an `Ok` result is exact with a shortest-path tree. -/
theorem C11_spfa_checked (B : Meas) (v : View) (s : Nat)
    (hv : viewArcsB v = true) (hwf : wfB v.g = true) (hs : srcB v s = true) (hnb : nbB v = true)
    (hfit : fitSpfaB B v = true) :
    spfa B v s ≠ none ∧
    (spfa B v s = some none ↔ NegCycleReachable v.g s) ∧
    ∀ st, spfa B v s = some (some st) →
      (∀ x y, tget st.d x = some y → IsShortest v.g s x y ∧ y < B.max ∧ TreeWalk v.g (tget st.p) s x y) ∧
      (∀ x, tget st.d x = none ↔ ¬ ∃ c, WalkCost v.g s x c) ∧
      (∀ x, tget st.p x = none ↔ (x = s ∨ ¬ ∃ c, WalkCost v.g s x c)) := by
  have hv' := viewArcsB_sound v hv
  have hwf' := wfB_sound _ hwf
  have hs' := srcB_sound hs
  obtain ⟨hWm, hW⟩ := C11_cost_bound_check v.g
  refine ⟨spfa_fuel B v hv' hwf' s hs',
    C11_spfa_iff B v hv' hwf' s hs' (nbB_sound hnb) _ (outOf_length_le v) _ hWm hW (fitSpfaB_sound hfit),
    fun st h => ?_⟩
  obtain ⟨h1, h2, _, h4⟩ := C11_spfa_ok_input_bound B v hv' hwf' s hs' _ (outOf_length_le v) _ hWm hW
    (fitSpfaB_sound hfit) st h
  exact ⟨h1, h2, h4⟩

/-- **floyd_warshall / floyd_warshall_path, all clauses, Boolean hypotheses only** (`wfB` +
`fitFloydB`): `Err` exactly when the graph contains a negative cycle; an `Ok` result has, for every
row, exact entries, `max()` exactly for the unreachable pairs, and `prev` entries that spell out
shortest paths. -/
theorem C11_floyd_checked (B : Meas) (v : View) (hwf : wfB v.g = true) (hfit : fitFloydB B v = true) :
    (floydWarshall B v = none ↔ NegCycle v.g) ∧
    ∀ st, floydWarshall B v = some st →
      ∀ i ∈ v.g.nodes,
        (∀ j y, tget st.d (i, j) = some y → IsShortest v.g i j y) ∧
        (∀ j, tget st.d (i, j) = none ↔ ¬ ∃ c, WalkCost v.g i j c) ∧
        (∀ j y, tget st.d (i, j) = some y →
          TreeWalk v.g (fun x => if x == i then none else tget st.p (i, x)) i j y) ∧
        (∀ j, j ≠ i →
          (tget st.p (i, j) = none ↔ ¬ ∃ c, WalkCost v.g i j c) ∧
          (∀ q, tget st.p (i, j) = some q →
            ∃ a w, IsShortest v.g i q a ∧ tget st.d (i, q) = some a ∧ (q, j, w) ∈ v.g.arcs ∧
              tget st.d (i, j) = some (a + w) ∧ IsShortest v.g i j (a + w))) := by
  have hwf' := wfB_sound _ hwf
  obtain ⟨hWm, hW⟩ := C11_cost_bound_check v.g
  exact ⟨C11_floyd_err_iff_linear B v hwf' _ hWm hW (fitFloydB_sound hfit),
    fun st h => (C11_floyd_ok_linear B v hwf' _ hWm hW (fitFloydB_sound hfit) st h).2⟩

/-- the Boolean hypotheses are satisfiable (and hold with a wide margin for the cases the harness
generates): the `okView` above, all three cost types -/
example : viewArcsB okView = true ∧ wfB okView.g = true ∧ srcB okView 0 = true ∧ nbB okView = true ∧
    fitSpfaB Meas.i32 okView = true ∧ fitSpfaB Meas.i64 okView = true ∧ fitSpfaB Meas.exactF64 okView = true ∧
    fitFloydB Meas.i32 okView = true ∧ fitBfB okView = true ∧ maxOutLen okView = 2 ∧ maxAbsW okView.g = 3 := by
  decide

/-- … and each of them can fail: a source outside the graph, `node_bound` below the node count, costs
too large for `i32` -/
example : srcB okView 7 = false ∧ nbB { okView with nb := 3 } = false ∧
    fitSpfaB Meas.i32 { okView with g := { okView.g with edges := [⟨0, 0, 1, 2⟩, ⟨1, 1, 2, -100000000⟩] } } = false ∧
    fitFloydB Meas.i32 { okView with g := { okView.g with edges := [⟨0, 0, 1, 2⟩, ⟨1, 1, 2, -300000000⟩] } } = false := by
  decide

/-! ### `f64` used as an integer type

The models compute with `Int`; the real code computes with `f64` for `bellman_ford` /
`find_negative_cycle` (FloatMeasure) and for the `f64` instances of `spfa` / `floyd_warshall`.
Integers of magnitude at most `2^53` are represented exactly and their `f64` sum is exact when it
stays in that range.  The driver checks `fitBfB` / `fitSpfaB Meas.exactF64` / `fitFloydB Meas.exactF64`
for those requests; the theorems below show that then every label the model stores and every
candidate sum `d[a] + w` it compares lies strictly inside `±2^53` — so the real `f64` computation is
the model's integer computation. -/

/-- `bellman_ford` / `find_negative_cycle` (both run `bellman_ford_initialize_relax`): labels and
candidate sums of the relaxation phase, whether the answer is `Ok` or `Err` -/
theorem C11_bellman_ford_values_exact_range (v : View) (s : Nat)
    (hv : viewArcsB v = true) (hfit : fitBfB v = true) :
    (∀ x y, tget (bfRelax v s).d x = some y → -(2^53 : Int) < y ∧ y < 2^53) ∧
    (∀ a b w, (a, b, w) ∈ v.g.arcs → ∀ x, tget (bfRelax v s).d a = some x → -(2^53 : Int) < x + w ∧ x + w < 2^53) := by
  have hv' := viewArcsB_sound v hv
  obtain ⟨hWm, hW⟩ := C11_cost_bound_check v.g
  obtain ⟨h1, h2⟩ := bfRelax_bound v hv' s _ (outOf_length_le v) _ hWm hW
  have hf := fitsB_sound hfit
  simp only [bfLenC, Meas.exactF64] at hf
  have hmono : ((((v.g.nodes.length - 1) * (v.g.nodes.length * maxOutLen v) : Nat) : Int)) * ((maxAbsW v.g : Nat) : Int)
      ≤ ((((v.g.nodes.length - 1) * (v.g.nodes.length * maxOutLen v) + 1 : Nat) : Int)) * ((maxAbsW v.g : Nat) : Int) :=
    Int.mul_le_mul_of_nonneg_right (by omega) hWm
  constructor
  · intro x y hx
    have := h1 x y hx
    omega
  · intro a b w harc x hx
    have := h2 a b w harc x hx
    omega

/-- the distances `bellman_ford` returns are those labels (`Ok(paths)` carries `bfRelax`'s tables) -/
theorem C11_bellman_ford_result_is_relax (v : View) (s : Nat) (st : BF) (h : bellmanFord v s = some st) :
    st = bfRelax v s := by
  unfold bellmanFord at h
  simp only at h
  split at h
  · cases h; rfl
  · cases h

/-- `spfa::<f64>`: labels and candidate sums of an `Ok` result -/
theorem C11_spfa_values_exact_range (B : Meas) (hB : 0 < B.max) (v : View) (s : Nat)
    (hv : viewArcsB v = true) (hwf : wfB v.g = true) (hs : srcB v s = true)
    (hfit : fitSpfaB Meas.exactF64 v = true) (st : SP) (h : spfa B v s = some (some st)) :
    (∀ x y, tget st.d x = some y → -(2^53 : Int) < y ∧ y < 2^53) ∧
    (∀ a b w, (a, b, w) ∈ v.g.arcs → ∀ x, tget st.d a = some x → -(2^53 : Int) < x + w ∧ x + w < 2^53) := by
  have hv' := viewArcsB_sound v hv
  have hwf' := wfB_sound _ hwf
  have hs' := srcB_sound hs
  obtain ⟨hWm, hW⟩ := C11_cost_bound_check v.g
  have hf := fitSpfaB_sound hfit
  simp only [Meas.exactF64] at hf
  have h1 := spfa_label_bound B hB v hv' hwf' s hs' _ (outOf_length_le v) _ hWm hW st h
  have h2 := spfa_sum_bound B hB v hv' hwf' s hs' _ (outOf_length_le v) _ hWm hW st h
  have hmono : (((v.g.nodes.length * v.nb * maxOutLen v : Nat) : Int)) * ((maxAbsW v.g : Nat) : Int)
      ≤ (((v.g.nodes.length * v.nb * maxOutLen v + v.g.nodes.length : Nat) : Int)) * ((maxAbsW v.g : Nat) : Int) :=
    Int.mul_le_mul_of_nonneg_right (by omega) hWm
  constructor
  · intro x y hx
    have := h1 x y hx
    omega
  · intro a b w harc x hx
    have := h2 a b w harc x hx
    unfold spfaLen at this
    omega

/-- `floyd_warshall::<f64>`: entries of an `Ok` result (sums of two entries stay below `2·|V|·Wm`) -/
theorem C11_floyd_values_exact_range (B : Meas) (v : View) (hwf : wfB v.g = true)
    (hfitB : fitFloydB B v = true) (hfit : fitFloydB Meas.exactF64 v = true)
    (st : FW) (h : floydWarshall B v = some st) :
    ∀ i j y, tget st.d (i, j) = some y → -(2^52 : Int) < y ∧ y < 2^52 := by
  have hwf' := wfB_sound _ hwf
  obtain ⟨hWm, hW⟩ := C11_cost_bound_check v.g
  have hb := floyd_entry_bound B v hwf' _ hWm hW (fitFloydB_sound hfitB) st h
  have hf := fitFloydB_sound hfit
  simp only [Meas.exactF64] at hf
  have hmono : (((v.g.nodes.length - 1 : Nat) : Int)) * ((maxAbsW v.g : Nat) : Int)
      ≤ ((v.g.nodes.length : Nat) : Int) * ((maxAbsW v.g : Nat) : Int) :=
    Int.mul_le_mul_of_nonneg_right (by omega) hWm
  intro i j y hy
  have := hb i j y hy
  omega

/-! ### the driver judges only inside that scope

`Proofs/C11W4Driver.lean`: the flag `ok` of the driver state is set only by a `graph` line whose
checks passed (`DInv`, an invariant of `Driver/C11.lean`'s `step` over every sequence of lines); a
request whose pre-check answers `some why` gets exactly that `SPECFAIL` verdict, and a request whose
pre-check answers `none` satisfies all Boolean hypotheses of the `…_checked` theorems. -/

/-- after any sequence of protocol lines the driver's `ok` flag implies the `graph`-line checks for
the view it holds -/
theorem C11_driver_invariant (lines : List (List String × String)) : C11W4D.DInv (C11W4D.run lines) :=
  C11W4D.run_inv lines

/-- `bf` / `fnc` requests that are judged at all lie in the scope of `C11_bellman_ford_checked`,
`C11_find_negative_cycle_checked`, `C11_bellman_ford_values_exact_range` -/
theorem C11_driver_float_scope (lines : List (List String × String)) (s : Nat)
    (h : C11.preFloat (C11W4D.run lines) s = none) :
    viewArcsB (C11W4D.run lines).v = true ∧ wfB (C11W4D.run lines).v.g = true ∧
    srcB (C11W4D.run lines).v s = true ∧ fitBfB (C11W4D.run lines).v = true :=
  C11W4D.preFloat_scope (C11W4D.run_inv lines) h

/-- `spfa <ty>` requests that are judged at all lie in the scope of `C11_spfa_checked` for
`proofMeas ty` — the model's cost type `measOf ty` itself unless `ty` is unsigned, and then its signed twin
together with `nonnegB` (scope of `C11_spfa_checked_unsigned`) — and of `C11_spfa_values_exact_range`
(`_f32`) when `ty = f64` (`f32`) -/
theorem C11_driver_spfa_scope (lines : List (List String × String)) (ty : String) (s : Nat)
    (h : C11.preSpfa (C11W4D.run lines) ty s = none) :
    viewArcsB (C11W4D.run lines).v = true ∧ wfB (C11W4D.run lines).v.g = true ∧
    srcB (C11W4D.run lines).v s = true ∧ nbB (C11W4D.run lines).v = true ∧
    fitSpfaB (C11.proofMeas ty) (C11W4D.run lines).v = true ∧
    (C11.unsignedTy ty = false → C11.proofMeas ty = C11.measOf ty) ∧
    (C11.unsignedTy ty = true → C11.proofMeas ty = (C11.measOf ty).twin ∧ nonnegB (C11W4D.run lines).v.g = true) ∧
    (ty = "f64" → fitSpfaB Meas.exactF64 (C11W4D.run lines).v = true) ∧
    (ty = "f32" → fitSpfaB Meas.exactF32 (C11W4D.run lines).v = true) := by
  obtain ⟨h1, h2, h3, h4, h5, h6, h7⟩ := C11W4D.preSpfa_scope (C11W4D.run_inv lines) h
  refine ⟨h1, h2, h3, h4, h5, C11W4D.proofMeas_signed, fun hu => ⟨by simp [C11.proofMeas, hu], ?_⟩,
    fun hty => by subst hty; rw [C11W4D.rangeOf_f64] at h6; exact h6,
    fun hty => by subst hty; rw [C11W4D.rangeOf_f32] at h6; exact h6⟩
  simpa [C11.signOk, hu] using h7

/-- `fw` / `fwp` requests that are judged at all lie in the scope of `C11_floyd_checked`
(`C11_floyd_checked_unsigned` for the unsigned cost types) -/
theorem C11_driver_floyd_scope (lines : List (List String × String)) (ty : String)
    (h : C11.preFw (C11W4D.run lines) ty = none) :
    wfB (C11W4D.run lines).v.g = true ∧ fitFloydB (C11.proofMeas ty) (C11W4D.run lines).v = true ∧
    (C11.unsignedTy ty = false → C11.proofMeas ty = C11.measOf ty) ∧
    (C11.unsignedTy ty = true → C11.proofMeas ty = (C11.measOf ty).twin ∧ nonnegB (C11W4D.run lines).v.g = true) ∧
    (ty = "f64" → fitFloydB Meas.exactF64 (C11W4D.run lines).v = true) ∧
    (ty = "f32" → fitFloydB Meas.exactF32 (C11W4D.run lines).v = true) := by
  obtain ⟨h1, h2, h3, h4⟩ := C11W4D.preFw_scope (C11W4D.run_inv lines) h
  refine ⟨h1, h2, C11W4D.proofMeas_signed, fun hu => ⟨by simp [C11.proofMeas, hu], ?_⟩,
    fun hty => by subst hty; rw [C11W4D.rangeOf_f64] at h3; exact h3,
    fun hty => by subst hty; rw [C11W4D.rangeOf_f32] at h3; exact h3⟩
  simpa [C11.signOk, hu] using h4

/-- `bf32` / `fnc32` requests (f32 edge weights) that are judged at all lie in the scope of
`C11_bellman_ford_checked`, `C11_find_negative_cycle_checked`, `C11_bellman_ford_values_exact_range_f32` -/
theorem C11_driver_float32_scope (lines : List (List String × String)) (s : Nat)
    (h : C11.preFloat32 (C11W4D.run lines) s = none) :
    viewArcsB (C11W4D.run lines).v = true ∧ wfB (C11W4D.run lines).v.g = true ∧
    srcB (C11W4D.run lines).v s = true ∧ fitBf32B (C11W4D.run lines).v = true :=
  C11W4D.preFloat32_scope (C11W4D.run_inv lines) h

/-- outside the scope nothing is judged: the failed pre-check is the verdict -/
theorem C11_driver_blocked (d : C11.DState) (ty s impl why : String) :
    (C11.preFloat d (s.toNat?.getD 0) = some why →
      (C11.step d ["bf", s] impl).2 = why ∧ (C11.step d ["fnc", s] impl).2 = why) ∧
    (C11.preSpfa d ty (s.toNat?.getD 0) = some why → (C11.step d ["spfa", ty, s] impl).2 = why) ∧
    (C11.preFw d ty = some why → (C11.step d ["fw", ty] impl).2 = why ∧ (C11.step d ["fwp", ty] impl).2 = why) :=
  ⟨fun h => ⟨C11W4D.step_bf_blocked d s impl why h, C11W4D.step_fnc_blocked d s impl why h⟩,
   C11W4D.step_spfa_blocked d ty s impl why, C11W4D.step_fw_blocked d ty impl why⟩

/-- the same for the f32 requests -/
theorem C11_driver_blocked_f32 (d : C11.DState) (s impl why : String)
    (h : C11.preFloat32 d (s.toNat?.getD 0) = some why) :
    (C11.step d ["bf32", s] impl).2 = why ∧ (C11.step d ["fnc32", s] impl).2 = why :=
  C11W4D.step_bf32_blocked d s impl why h

/-- **the KNOWN classification is narrow**: an answer that the judge rejects for the abstract graph AND for
the graph the adaptor's edge references describe (`effView`) is never classified as a known finding — the
verdict is the `SPECFAIL` of the judge (or the failed side condition of the effective view) -/
theorem C11_known_only_for_effective_graph (d : C11.DState) (judge : MGraph → Option String)
    (model : View → String) (impl why w : String)
    (h1 : judge d.v.g = some why) (h2 : judge (effView d.quirk d.v).g = some w) :
    C11.verdictQ d judge model impl = s!"SPECFAIL {why}" ∨
    C11.verdictQ d judge model impl =
      "SPECFAIL side condition ViewArcs / WellFormed does not hold for the effective view of the adaptor" := by
  unfold C11.verdictQ
  split
  · left; simp [C11.verdict, h1]
  · simp only
    split
    · right; rfl
    · left; simp [h1, h2]

set_option exponentiation.threshold 1100 in
set_option maxRecDepth 20000 in
/-- non-vacuity: on `okView` every pre-check passes (the requests are judged), and each can block -/
example : C11.preFloat { v := okView, ok := true } 0 = none ∧
    C11.preSpfa { v := okView, ok := true } "i32" 0 = none ∧ C11.preSpfa { v := okView, ok := true } "f64" 2 = none ∧
    C11.preFw { v := okView, ok := true } "i64" = none ∧
    (C11.preFloat { v := okView, ok := false } 0).isSome = true ∧
    (C11.preSpfa { v := okView, ok := true } "i32" 9).isSome = true := by
  decide

/-! ## wave 6 — the corners: every `BoundedMeasure` cost type, `f32`, the unsigned types

`Model/C11W6.lean`, `Proofs/C11W6.lean`.  The harness runs `spfa` / `floyd_warshall(_path)` with all fourteen
`BoundedMeasure` types and `bellman_ford` / `find_negative_cycle` with `f32` weights, and exercises
`BoundedMeasure::{max, min, overflowing_add}` directly (`consts`, `oadd` lines, judged against `Meas`). -/

/-- **`Meas.oadd` is `overflowing_add`**: the flag tells exactly whether the exact sum leaves
`[min(), max()]`; without overflow the value is the exact sum; on overflow it is the sum wrapped by
`max() − min() + 1` (the two's-complement result of the integer types) -/
theorem C11_oadd_spec (B : Meas) (a b : Int) :
    ((B.oadd a b).2 = true ↔ (a + b < B.min ∨ B.max < a + b)) ∧
    ((B.oadd a b).2 = false → (B.oadd a b).1 = a + b) ∧
    (B.max < a + b → (B.oadd a b).1 = a + b - (B.max - B.min + 1)) ∧
    (a + b < B.min → a + b ≤ B.max → (B.oadd a b).1 = a + b + (B.max - B.min + 1)) :=
  C11W6.oadd_spec B a b

/-- … and for operands inside the range the wrapped value is inside the range again (signed types:
`−min() ≤ max() + 1`; unsigned: `min() = 0`) -/
theorem C11_oadd_wrap_in_range (B : Meas) (a b : Int) (ha : B.min ≤ a ∧ a ≤ B.max) (hb : B.min ≤ b ∧ b ≤ B.max)
    (hneg : B.min ≤ 0) (hlt : B.min < 0 → -B.min ≤ B.max + 1) (h0 : 0 ≤ B.max) :
    B.min ≤ (B.oadd a b).1 ∧ (B.oadd a b).1 ≤ B.max :=
  C11W6.oadd_wrap_in_range B a b ha hb hneg hlt h0

/-- the constants the `consts` lines are compared with: `i8::MAX + 1` wraps to `i8::MIN`, `u8::MAX + 1` to 0,
`0u8 − …` cannot occur (costs of unsigned types are non-negative), `f32::MAX` is `(2^24−1)·2^104` -/
example : (Meas.ofBits true 8).oadd 127 1 = (-128, true) ∧ (Meas.ofBits false 8).oadd 255 1 = (0, true) ∧
    (Meas.ofBits true 8).oadd (-128) (-1) = (127, true) ∧ (Meas.ofBits true 8).oadd 100 27 = (127, false) ∧
    (Meas.ofBits true 32).max = Meas.i32.max ∧ (Meas.ofBits true 32).min = Meas.i32.min ∧
    (Meas.ofBits true 64).max = Meas.i64.max ∧ (Meas.ofBits true 64).min = Meas.i64.min := by decide

set_option exponentiation.threshold 1100 in
set_option maxRecDepth 20000 in
example : Meas.f32.max = (2^24 - 1) * 2^104 ∧ Meas.f64.max = (2^53 - 1) * 2^971 := by decide

/-- `nonnegB`: no edge has a negative cost -/
theorem C11_nonneg_check (g : MGraph) (h : nonnegB g = true) : ∀ e ∈ g.edges, 0 ≤ e.w := by
  intro e he
  have := List.all_eq_true.mp h e he
  simpa using this

/-- **spfa with non-negative costs never looks at `min()`**: two cost types with the same `max() ≥ 0` and
`min() ≤ 0` give the same run (labels are sums of non-negative costs; the underflow branch of
`overflowing_add` is dead) — for every view and source, no width hypothesis -/
theorem C11_spfa_min_irrelevant (B B' : Meas) (hm : B.max = B'.max) (h0 : 0 ≤ B.max) (hB : B.min ≤ 0)
    (hB' : B'.min ≤ 0) (v : View) (hnn : ∀ e ∈ v.g.edges, 0 ≤ e.w) (s : Nat) :
    spfa B v s = spfa B' v s :=
  C11W6.spfa_min_irrelevant hm h0 hB hB' v hnn s

/-- **floyd_warshall(_path) with non-negative costs never looks at `min()`** -/
theorem C11_floyd_min_irrelevant (B B' : Meas) (hm : B.max = B'.max) (h0 : 0 ≤ B.max) (hB : B.min ≤ 0)
    (hB' : B'.min ≤ 0) (v : View) (hnn : ∀ e ∈ v.g.edges, 0 ≤ e.w) :
    floydWarshall B v = floydWarshall B' v :=
  C11W6.floyd_min_irrelevant hm h0 hB hB' v hnn

/-- one arc `0 → 1` of cost `−1` -/
def negArcView : View :=
  { g := { directed := true, nodes := [0, 1], edges := [⟨0, 0, 1, -1⟩] },
    nb := 2, ix := [(0, 0), (1, 1)],
    out := [(0, [(1, 0)]), (1, [])],
    inn := [(0, []), (1, [(0, 0)])] }

/-- the statement is false without the sign condition: one arc of cost `−1` out of the source, `u8`
(`0 + (−1)` underflows and is skipped) against its signed twin -/
theorem C11_spfa_min_irrelevant_needs_nonneg_witness :
    spfa (Meas.ofBits false 8) negArcView 0 ≠ spfa (Meas.ofBits false 8).twin negArcView 0 := by
  intro h
  have h' : (match spfa (Meas.ofBits false 8) negArcView 0 with | some (some st) => tget st.d 1 | _ => none) =
      (match spfa (Meas.ofBits false 8).twin negArcView 0 with | some (some st) => tget st.d 1 | _ => none) := by
    rw [h]
  revert h'
  decide

/-- **spfa, all clauses, for an UNSIGNED cost type** (`min() = 0 ≤ max()`), Boolean hypotheses only: the
`graph`-line checks, `srcB`, `nbB`, `nonnegB`, and `fitSpfaB` for the signed twin (same `max()`) -/
theorem C11_spfa_checked_unsigned (B : Meas) (h0 : 0 ≤ B.max) (hmin : B.min ≤ 0) (v : View) (s : Nat)
    (hv : viewArcsB v = true) (hwf : wfB v.g = true) (hs : srcB v s = true) (hnb : nbB v = true)
    (hnn : nonnegB v.g = true) (hfit : fitSpfaB B.twin v = true) :
    spfa B v s ≠ none ∧
    (spfa B v s = some none ↔ NegCycleReachable v.g s) ∧
    ∀ st, spfa B v s = some (some st) →
      (∀ x y, tget st.d x = some y → IsShortest v.g s x y ∧ y < B.max ∧ TreeWalk v.g (tget st.p) s x y) ∧
      (∀ x, tget st.d x = none ↔ ¬ ∃ c, WalkCost v.g s x c) ∧
      (∀ x, tget st.p x = none ↔ (x = s ∨ ¬ ∃ c, WalkCost v.g s x c)) := by
  have he : spfa B v s = spfa B.twin v s :=
    C11W6.spfa_min_irrelevant (B := B) (B' := B.twin) rfl h0 hmin (by simp only [Meas.twin]; omega) v (C11_nonneg_check _ hnn) s
  rw [he]
  exact C11_spfa_checked B.twin v s hv hwf hs hnb hfit

/-- **floyd_warshall / floyd_warshall_path, all clauses, for an UNSIGNED cost type** -/
theorem C11_floyd_checked_unsigned (B : Meas) (h0 : 0 ≤ B.max) (hmin : B.min ≤ 0) (v : View)
    (hwf : wfB v.g = true) (hnn : nonnegB v.g = true) (hfit : fitFloydB B.twin v = true) :
    (floydWarshall B v = none ↔ NegCycle v.g) ∧
    ∀ st, floydWarshall B v = some st →
      ∀ i ∈ v.g.nodes,
        (∀ j y, tget st.d (i, j) = some y → IsShortest v.g i j y) ∧
        (∀ j, tget st.d (i, j) = none ↔ ¬ ∃ c, WalkCost v.g i j c) ∧
        (∀ j y, tget st.d (i, j) = some y →
          TreeWalk v.g (fun x => if x == i then none else tget st.p (i, x)) i j y) ∧
        (∀ j, j ≠ i →
          (tget st.p (i, j) = none ↔ ¬ ∃ c, WalkCost v.g i j c) ∧
          (∀ q, tget st.p (i, j) = some q →
            ∃ a w, IsShortest v.g i q a ∧ tget st.d (i, q) = some a ∧ (q, j, w) ∈ v.g.arcs ∧
              tget st.d (i, j) = some (a + w) ∧ IsShortest v.g i j (a + w))) := by
  have he : floydWarshall B v = floydWarshall B.twin v :=
    C11W6.floyd_min_irrelevant (B := B) (B' := B.twin) rfl h0 hmin (by simp only [Meas.twin]; omega) v (C11_nonneg_check _ hnn)
  rw [he]
  exact C11_floyd_checked B.twin v hwf hfit

/-- non-vacuity: `u8` on a view with non-negative costs passes every check of the two theorems above
(and `okView`, which has a negative cost, does not pass `nonnegB`) -/
example : nonnegB okView.g = false ∧
    (let v : View := { okView with g := { okView.g with edges := okView.g.edges.map fun e => { e with w := e.w.natAbs } } }
     viewArcsB v = true ∧ wfB v.g = true ∧ srcB v 0 = true ∧ nbB v = true ∧ nonnegB v.g = true ∧
     fitSpfaB (Meas.ofBits false 8).twin v = true ∧ fitFloydB (Meas.ofBits false 8).twin v = true ∧
     (spfa (Meas.ofBits false 8) v 0).isSome = true) := by
  decide

/-! ### `f32` used as an integer type (`bf32`, `fnc32`, the `f32` instances of spfa / floyd_warshall) -/

/-- a check passed for the range `±2^24` of exactly represented integers also holds for `f32` itself -/
theorem C11_fit_exact_f32_check (L Wm : Nat) (h : fitsB Meas.exactF32 L Wm = true) : fitsB Meas.f32 L Wm = true :=
  fitsB_mono (by decide) (by decide) h

/-- `bellman_ford::<f32>` / `find_negative_cycle::<f32>`: under `fitBf32B` every label and every candidate
sum of the relaxation phase lies strictly inside `±2^24`, where `f32` arithmetic on integers is exact -/
theorem C11_bellman_ford_values_exact_range_f32 (v : View) (s : Nat)
    (hv : viewArcsB v = true) (hfit : fitBf32B v = true) :
    (∀ x y, tget (bfRelax v s).d x = some y → -(2^24 : Int) < y ∧ y < 2^24) ∧
    (∀ a b w, (a, b, w) ∈ v.g.arcs → ∀ x, tget (bfRelax v s).d a = some x → -(2^24 : Int) < x + w ∧ x + w < 2^24) := by
  have hv' := viewArcsB_sound v hv
  obtain ⟨hWm, hW⟩ := C11_cost_bound_check v.g
  obtain ⟨h1, h2⟩ := bfRelax_bound v hv' s _ (outOf_length_le v) _ hWm hW
  have hf := fitsB_sound hfit
  simp only [bfLenC, Meas.exactF32] at hf
  have hmono : ((((v.g.nodes.length - 1) * (v.g.nodes.length * maxOutLen v) : Nat) : Int)) * ((maxAbsW v.g : Nat) : Int)
      ≤ ((((v.g.nodes.length - 1) * (v.g.nodes.length * maxOutLen v) + 1 : Nat) : Int)) * ((maxAbsW v.g : Nat) : Int) :=
    Int.mul_le_mul_of_nonneg_right (by omega) hWm
  constructor
  · intro x y hx
    have := h1 x y hx
    omega
  · intro a b w harc x hx
    have := h2 a b w harc x hx
    omega

/-- `spfa::<f32>`: labels and candidate sums of an `Ok` result -/
theorem C11_spfa_values_exact_range_f32 (B : Meas) (hB : 0 < B.max) (v : View) (s : Nat)
    (hv : viewArcsB v = true) (hwf : wfB v.g = true) (hs : srcB v s = true)
    (hfit : fitSpfaB Meas.exactF32 v = true) (st : SP) (h : spfa B v s = some (some st)) :
    (∀ x y, tget st.d x = some y → -(2^24 : Int) < y ∧ y < 2^24) ∧
    (∀ a b w, (a, b, w) ∈ v.g.arcs → ∀ x, tget st.d a = some x → -(2^24 : Int) < x + w ∧ x + w < 2^24) := by
  have hv' := viewArcsB_sound v hv
  have hwf' := wfB_sound _ hwf
  have hs' := srcB_sound hs
  obtain ⟨hWm, hW⟩ := C11_cost_bound_check v.g
  have hf := fitSpfaB_sound hfit
  simp only [Meas.exactF32] at hf
  have h1 := spfa_label_bound B hB v hv' hwf' s hs' _ (outOf_length_le v) _ hWm hW st h
  have h2 := spfa_sum_bound B hB v hv' hwf' s hs' _ (outOf_length_le v) _ hWm hW st h
  have hmono : (((v.g.nodes.length * v.nb * maxOutLen v : Nat) : Int)) * ((maxAbsW v.g : Nat) : Int)
      ≤ (((v.g.nodes.length * v.nb * maxOutLen v + v.g.nodes.length : Nat) : Int)) * ((maxAbsW v.g : Nat) : Int) :=
    Int.mul_le_mul_of_nonneg_right (by omega) hWm
  constructor
  · intro x y hx
    have := h1 x y hx
    omega
  · intro a b w harc x hx
    have := h2 a b w harc x hx
    unfold spfaLen at this
    omega

/-- `floyd_warshall::<f32>`: entries of an `Ok` result (sums of two entries stay below `2·|V|·Wm`) -/
theorem C11_floyd_values_exact_range_f32 (B : Meas) (v : View) (hwf : wfB v.g = true)
    (hfitB : fitFloydB B v = true) (hfit : fitFloydB Meas.exactF32 v = true)
    (st : FW) (h : floydWarshall B v = some st) :
    ∀ i j y, tget st.d (i, j) = some y → -(2^23 : Int) < y ∧ y < 2^23 := by
  have hwf' := wfB_sound _ hwf
  obtain ⟨hWm, hW⟩ := C11_cost_bound_check v.g
  have hb := floyd_entry_bound B v hwf' _ hWm hW (fitFloydB_sound hfitB) st h
  have hf := fitFloydB_sound hfit
  simp only [Meas.exactF32] at hf
  have hmono : (((v.g.nodes.length - 1 : Nat) : Int)) * ((maxAbsW v.g : Nat) : Int)
      ≤ ((v.g.nodes.length : Nat) : Int) * ((maxAbsW v.g : Nat) : Int) :=
    Int.mul_le_mul_of_nonneg_right (by omega) hWm
  intro i j y hy
  have := hb i j y hy
  omega

/-- non-vacuity: `okView` passes the `f32` checks -/
example : fitBf32B okView = true ∧ fitSpfaB Meas.exactF32 okView = true ∧ fitFloydB Meas.exactF32 okView = true := by
  decide

/-! ### effective views (open findings D23 / D6 seen through an adaptor)

`effView q v` (Model/C11W6.lean) is the directed graph that the adaptor's edge references describe.  The
driver evaluates `wfB` and `viewArcsB` for it before it runs a model on it (so `C11_view_check_sound`,
`C11_wf_check_sound` and the `…_checked` theorems apply to that run as to any other), and classifies a
rejected answer as KNOWN only if the same (sound) judge accepts it for `(effView q v).g`. -/

/-- the recorded witness shape of D23 (`b → a`, `b → c`, loop `a → a`; a = 0, b = 1, c = 2) as the
`UndirectedAdaptor` lists it -/
def d23View : View :=
  { g := { directed := false, nodes := [0, 1, 2], edges := [⟨0, 1, 0, 5⟩, ⟨1, 1, 2, 7⟩, ⟨2, 0, 0, 1⟩] },
    nb := 3, ix := [],
    out := [(0, [(1, 0), (0, 2), (0, 2)]), (1, [(0, 0), (2, 1)]), (2, [(1, 1)])],
    inn := [] }

/-- through `UndirectedAdaptor` nodes `a` and `c` see their incoming edge as a self-loop -/
example : (effView "d23" d23View).g.edges
      = [⟨0, 0, 0, 5⟩, ⟨1, 0, 0, 1⟩, ⟨2, 0, 0, 1⟩, ⟨3, 1, 0, 5⟩, ⟨4, 1, 2, 7⟩, ⟨5, 2, 2, 7⟩] ∧
    viewArcsB (effView "d23" d23View) = true ∧ wfB (effView "d23" d23View).g = true := by
  decide

/-! ## wave 4 — completeness of the judges

Wave 1 proved the judges sound.  `Proofs/C11W4Complete.lean` proves them complete wherever the
reference search is not needed, and the reference search complete on the side without a negative
cycle: `judgeOk` / `judgeFwOk` DECIDE the `Ok` clauses (they never answer "inconclusive" and accept
every right answer); `judgeErr` / `judgeFnc` / `judgeFwErr` answer "judge inconclusive" only if a
negative cycle IS reachable (resp. present) and the untrusted reference search failed to exhibit one —
in which case an `Err`/`Some` answer would have been right; the driver reports this as SPECFAIL, so
every occurrence is visible as a spec failure (none in any run). -/

/-- the certificate checker accepts exactly the exact labellings: no node listed twice, no negative
cycle reachable, every label the exact shortest-walk cost, every reachable node labelled -/
theorem C11_checkDist_iff (g : MGraph) (s : Nat) (d : List (Nat × Int)) :
    checkDist g s d = true ↔
      ((d.map (·.1)).Nodup ∧ ¬ NegCycleReachable g s ∧
       (∀ x y, labelOf d x = some y → IsShortest g s x y) ∧
       (∀ x, (∃ c, WalkCost g s x c) → ∃ y, labelOf d x = some y)) :=
  C11W4C.checkDist_iff g s d

/-- **`judgeOk` decides the `Ok` clause of bellman_ford / spfa**: it accepts exactly the answers that
list no node twice and satisfy the five conclusions of `C11_judge_ok_sound` (`OkSpec`) -/
theorem C11_judge_ok_iff (g : MGraph) (hwf : g.WellFormed) (s : Nat) (hs : s ∈ g.nodes)
    (d : List (Nat × Int)) (pred : Nat → Option Nat) :
    judgeOk g s d pred = none ↔ ((d.map (·.1)).Nodup ∧ OkSpec g s d pred) :=
  C11W4C.judgeOk_iff g hwf s hs d pred

/-- **`judgeFwOk` decides the `Ok` clause of floyd_warshall** (`FwSpec` = the three conclusions of
`C11_judge_floyd_ok_sound`) -/
theorem C11_judge_floyd_ok_iff (g : MGraph) (hwf : g.WellFormed) (entry : Nat → Nat → Option Int) :
    judgeFwOk g entry = none ↔ FwSpec g entry :=
  C11W4C.judgeFwOk_iff g hwf entry

/-- **without a reachable negative cycle the judges are conclusive**: the reference search converges,
its labelling passes `checkDist`, so `Err` is rejected with the definite reason, `find_negative_cycle
= None` (with `bellman_ford = Ok`) is accepted and `Some(_)` rejected with the definite reason -/
theorem C11_judge_conclusive_without_neg_cycle (g : MGraph) (hwf : g.WellFormed) (s : Nat) (hs : s ∈ g.nodes)
    (hno : ¬ NegCycleReachable g s) :
    negReachable g s = some false ∧
    judgeErr g s = some "NegativeCycle reported but no negative cycle is reachable from the source" ∧
    judgeFnc g s none false = .ok ∧
    ∀ seq bfErr, judgeFnc g s (some seq) bfErr = .fail "Some although no negative cycle is reachable from the source" :=
  ⟨C11W4C.negReachable_complete g hwf s hs hno, C11W4C.judgeErr_conclusive g hwf s hs hno,
   C11W4C.judgeFnc_none_complete g hwf s hs hno, C11W4C.judgeFnc_some_conclusive g hwf s hs hno⟩

theorem C11_judge_floyd_conclusive_without_neg_cycle (g : MGraph) (hwf : g.WellFormed) (hno : ¬ NegCycle g) :
    negAnywhere g = some false ∧
    judgeFwErr g = some "NegativeCycle reported but the graph has no negative cycle" :=
  ⟨C11W4C.negAnywhere_complete g hwf hno, C11W4C.judgeFwErr_conclusive g hwf hno⟩

/-- consequence: "judge inconclusive" can only be answered when a negative cycle is reachable (then
`Err` / `Some` would have been the right answer and the reference search failed to certify it) -/
theorem C11_judge_inconclusive_only_with_neg_cycle (g : MGraph) (hwf : g.WellFormed) (s : Nat) (hs : s ∈ g.nodes)
    (h : negReachable g s = none) : NegCycleReachable g s := by
  apply Classical.byContradiction
  intro hno
  rw [C11W4C.negReachable_complete g hwf s hs hno] at h
  cases h

/-- the side without a negative cycle is decided: the checked answer is `some false` exactly then -/
theorem C11_negReachable_false_iff (g : MGraph) (hwf : g.WellFormed) (s : Nat) (hs : s ∈ g.nodes) :
    negReachable g s = some false ↔ ¬ NegCycleReachable g s :=
  C11W4C.negReachable_false_iff g hwf s hs

/-- non-vacuity: a well-formed graph with a negative arc and a zero-cost cycle, no negative cycle -/
example : C11W4C.exG.WellFormed ∧ 0 ∈ C11W4C.exG.nodes ∧ ¬ NegCycleReachable C11W4C.exG 0 := by
  refine ⟨by unfold MGraph.WellFormed; decide, by decide, ?_⟩
  exact (C11_negReachable_false_iff _ (by unfold MGraph.WellFormed; decide) 0 (by decide)).1
    (by set_option maxRecDepth 100000 in decide)

end PetgraphModel.C11T
