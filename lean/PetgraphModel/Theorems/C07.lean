import PetgraphModel.Extracted.Scratch
import PetgraphModel.Proofs.Traversal
/-
C07 — generic algorithms depend only on the abstract graph, not on its representation.

Part 1 (regenerated from source on every run): the scratch-container table of `src/algo/*.rs`.
-/
namespace PetgraphModel.C07T
open PetgraphModel PetgraphModel.Extracted

/-- a scratch container is safe on graphs with vacant indices when it is sized by the bound that
`to_index` is guaranteed to stay below, or is never indexed through `to_index`, or the function
only accepts compactly indexed graphs (where count = bound) -/
def ScratchUse.safe (u : ScratchUse) : Bool :=
  u.compactOnly || !u.indexedByToIndex || u.size == .nodeBound || u.size == .edgeBound

/-- recorded open finding D12: `page_rank` enumerates `0..node_count` and maps back with `from_index` -/
def isKnownException (u : ScratchUse) : Bool := u.file == "algo/page_rank.rs" && u.fn == "page_rank"

/-- **No generic algorithm can index a scratch container out of bounds because of vacant indices**
(for the code as it is in /repo now; D12 excepted). -/
theorem C07_scratch_safe :
    extractionProblems = [] ∧ ∀ u ∈ scratchTable, ScratchUse.safe u = true ∨ isKnownException u = true := by
  decide

/-! Part 2: traversal outputs depend only on the abstract graph (corollaries of the C08 theorems). -/
open PetgraphModel.Trav PetgraphModel.TravProofs PetgraphModel.MGraph

theorem reach_congr {g1 g2 : MGraph} (h : ∀ a b, g1.Adj a b ↔ g2.Adj a b) {a b : Nat} :
    Reach g1 a b → Reach g2 a b := by
  intro hr
  induction hr with
  | refl => exact Reach.refl _
  | step _ hc ih => exact Reach.step ih ((h _ _).mp hc)

/-- Two views (any neighbour iteration order, any index assignment, any storage type) of graphs with
the same adjacency relation make `Dfs` emit the same set of nodes. -/
theorem C07_dfs_encoding_independent (v1 v2 : View) (h1 : ViewOk v1) (h2 : ViewOk v2)
    (hg : ∀ a b, v1.g.Adj a b ↔ v2.g.Adj a b) (s : Nat) (i1 o1 i2 o2 : Nat) (out1 out2 : List Nat) (d1 d2 : Dfs)
    (r1 : dfsAll v1 i1 o1 { stack := [s], disc := [] } [] = some (out1, d1))
    (r2 : dfsAll v2 i2 o2 { stack := [s], disc := [] } [] = some (out2, d2)) :
    ∀ x, x ∈ out1 ↔ x ∈ out2 := by
  intro x
  have a1 := (dfs_fresh v1 h1 s i1 o1 out1 d1 r1).2 x
  have a2 := (dfs_fresh v2 h2 s i2 o2 out2 d2 r2).2 x
  rw [a1, a2]
  exact ⟨reach_congr hg, reach_congr (fun a b => (hg a b).symm)⟩

theorem C07_bfs_encoding_independent (v1 v2 : View) (h1 : ViewOk v1) (h2 : ViewOk v2)
    (hg : ∀ a b, v1.g.Adj a b ↔ v2.g.Adj a b) (s : Nat) (f1 f2 : Nat) (out1 out2 : List Nat)
    (r1 : bfsAll v1 f1 (Bfs.new s) [] = some out1) (r2 : bfsAll v2 f2 (Bfs.new s) [] = some out2) :
    ∀ x, x ∈ out1 ↔ x ∈ out2 := by
  intro x
  have a1 := (bfs_spec v1 h1 s f1 out1 r1).2.1 x
  have a2 := (bfs_spec v2 h2 s f2 out2 r2).2.1 x
  rw [a1, a2]
  exact ⟨reach_congr hg, reach_congr (fun a b => (hg a b).symm)⟩

theorem C07_postorder_encoding_independent (v1 v2 : View) (h1 : ViewOk v1) (h2 : ViewOk v2)
    (hg : ∀ a b, v1.g.Adj a b ↔ v2.g.Adj a b) (s : Nat) (i1 o1 i2 o2 : Nat) (out1 out2 : List Nat) (d1 d2 : Post)
    (r1 : postAll v1 i1 o1 { stack := [s] } [] = some (out1, d1))
    (r2 : postAll v2 i2 o2 { stack := [s] } [] = some (out2, d2)) :
    ∀ x, x ∈ out1 ↔ x ∈ out2 := by
  intro x
  have a1 := (post_set v1 h1 s i1 o1 out1 d1 r1).2 x
  have a2 := (post_set v2 h2 s i2 o2 out2 d2 r2).2 x
  rw [a1, a2]
  exact ⟨reach_congr hg, reach_congr (fun a b => (hg a b).symm)⟩

/-- relabeling: reachability (hence every reachability-defined answer) is carried along by any
injective renaming of the nodes -/
def relabel (φ : Nat → Nat) (g : MGraph) : MGraph :=
  { g with nodes := g.nodes.map φ, edges := g.edges.map fun e => { e with src := φ e.src, tgt := φ e.tgt } }

theorem C07_reach_relabel (φ : Nat → Nat) (g : MGraph) (a b : Nat) (h : Reach g a b) :
    Reach (relabel φ g) (φ a) (φ b) := by
  induction h with
  | refl => exact Reach.refl _
  | step _ hc ih =>
    refine Reach.step ih ?_
    obtain ⟨e, he, hh⟩ := hc
    refine ⟨{ e with src := φ e.src, tgt := φ e.tgt }, List.mem_map.mpr ⟨e, he, rfl⟩, ?_⟩
    rcases hh with ⟨h1, h2⟩ | ⟨h0, h1, h2⟩
    · exact Or.inl ⟨by simp [h1], by simp [h2]⟩
    · exact Or.inr ⟨h0, by simp [h1], by simp [h2]⟩

/-! non-vacuity: the regenerated table is not empty and contains the repaired call sites -/
example : scratchTable.length ≥ 20 := by decide

end PetgraphModel.C07T
