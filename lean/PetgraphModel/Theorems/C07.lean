import PetgraphModel.Extracted.Scratch
import PetgraphModel.Proofs.Traversal
import PetgraphModel.Theorems.C13
import PetgraphModel.Theorems.C20
import PetgraphModel.Proofs.C07W2Fas
import PetgraphModel.Theorems.C08
import PetgraphModel.Theorems.C16
import PetgraphModel.Proofs.C07W2Dom
import PetgraphModel.Theorems.C15
import PetgraphModel.Proofs.C07W2Flow
import PetgraphModel.Theorems.C12
import PetgraphModel.Proofs.C07W2Mst
import PetgraphModel.Theorems.C09
import PetgraphModel.Proofs.C07W2Scc
import PetgraphModel.Theorems.C11
import PetgraphModel.Proofs.C07W2Neg
import PetgraphModel.Proofs.C07W2Base
import PetgraphModel.Proofs.C07W2Sp
import PetgraphModel.Theorems.C10
import PetgraphModel.Proofs.C07W3Bounds
import PetgraphModel.Proofs.C07W3Extra
/-
C07 — generic algorithms depend only on the abstract graph, not on its representation.

Part 1 (regenerated from source on every run): the scratch-container table of `src/algo/*.rs`
(`vec![_; E]`, `FixedBitSet::with_capacity(E)`, `resize(E, _)`, `UnionFind::new(E)`, struct-literal fields such
as the `Vf2State` vectors).  `C07_scratch_safe` is about the sizing alone; section "Wave 3" at the end of the file
(`C07_to_index_lt_bound*`, `C07_scratch_in_bounds*`) turns it into "no out-of-bounds access" on the storage tables
of C06.
-/
namespace PetgraphModel.C07T
open PetgraphModel PetgraphModel.Extracted

/-- a scratch container is safe on graphs with vacant indices when it is sized by the bound that
`to_index` is guaranteed to stay below, or is never indexed through `to_index`, or the function
only accepts compactly indexed graphs (where count = bound) -/
def ScratchUse.safe (u : ScratchUse) : Bool :=
  u.compactOnly || !u.indexedByToIndex || u.size == .nodeBound || u.size == .edgeBound

/-- recorded open finding D12: `page_rank` enumerates `0..node_count` and maps back with `from_index` -/
def isKnownException (u : ScratchUse) : Bool := u.file == "algo/page_rank.rs" && u.fn == "page_rank"

/-- **No generic algorithm can index a scratch container out of bounds because of vacant indices**
(for the code as it is in /repo now; D12 excepted). -/
theorem C07_scratch_safe :
    extractionProblems = [] ∧ ∀ u ∈ scratchTable, ScratchUse.safe u = true ∨ isKnownException u = true := by
  decide

/-! Part 2: traversal outputs depend only on the abstract graph (corollaries of the C08 theorems). -/
open PetgraphModel.Trav PetgraphModel.TravProofs PetgraphModel.MGraph

theorem reach_congr {g1 g2 : MGraph} (h : ∀ a b, g1.Adj a b ↔ g2.Adj a b) {a b : Nat} :
    Reach g1 a b → Reach g2 a b := by
  intro hr
  induction hr with
  | refl => exact Reach.refl _
  | step _ hc ih => exact Reach.step ih ((h _ _).mp hc)

/-- Two views (any neighbour iteration order, any index assignment, any storage type) of graphs with
the same adjacency relation make `Dfs` emit the same set of nodes. -/
theorem C07_dfs_encoding_independent (v1 v2 : View) (h1 : ViewOk v1) (h2 : ViewOk v2)
    (hg : ∀ a b, v1.g.Adj a b ↔ v2.g.Adj a b) (s : Nat) (i1 o1 i2 o2 : Nat) (out1 out2 : List Nat) (d1 d2 : Dfs)
    (r1 : dfsAll v1 i1 o1 { stack := [s], disc := [] } [] = some (out1, d1))
    (r2 : dfsAll v2 i2 o2 { stack := [s], disc := [] } [] = some (out2, d2)) :
    ∀ x, x ∈ out1 ↔ x ∈ out2 := by
  intro x
  have a1 := (dfs_fresh v1 h1 s i1 o1 out1 d1 r1).2 x
  have a2 := (dfs_fresh v2 h2 s i2 o2 out2 d2 r2).2 x
  rw [a1, a2]
  exact ⟨reach_congr hg, reach_congr (fun a b => (hg a b).symm)⟩

theorem C07_bfs_encoding_independent (v1 v2 : View) (h1 : ViewOk v1) (h2 : ViewOk v2)
    (hg : ∀ a b, v1.g.Adj a b ↔ v2.g.Adj a b) (s : Nat) (f1 f2 : Nat) (out1 out2 : List Nat)
    (r1 : bfsAll v1 f1 (Bfs.new s) [] = some out1) (r2 : bfsAll v2 f2 (Bfs.new s) [] = some out2) :
    ∀ x, x ∈ out1 ↔ x ∈ out2 := by
  intro x
  have a1 := (bfs_spec v1 h1 s f1 out1 r1).2.1 x
  have a2 := (bfs_spec v2 h2 s f2 out2 r2).2.1 x
  rw [a1, a2]
  exact ⟨reach_congr hg, reach_congr (fun a b => (hg a b).symm)⟩

theorem C07_postorder_encoding_independent (v1 v2 : View) (h1 : ViewOk v1) (h2 : ViewOk v2)
    (hg : ∀ a b, v1.g.Adj a b ↔ v2.g.Adj a b) (s : Nat) (i1 o1 i2 o2 : Nat) (out1 out2 : List Nat) (d1 d2 : Post)
    (r1 : postAll v1 i1 o1 { stack := [s] } [] = some (out1, d1))
    (r2 : postAll v2 i2 o2 { stack := [s] } [] = some (out2, d2)) :
    ∀ x, x ∈ out1 ↔ x ∈ out2 := by
  intro x
  have a1 := (post_set v1 h1 s i1 o1 out1 d1 r1).2 x
  have a2 := (post_set v2 h2 s i2 o2 out2 d2 r2).2 x
  rw [a1, a2]
  exact ⟨reach_congr hg, reach_congr (fun a b => (hg a b).symm)⟩

/-- relabeling: reachability (hence every reachability-defined answer) is carried along by any
injective renaming of the nodes -/
def relabel (φ : Nat → Nat) (g : MGraph) : MGraph :=
  { g with nodes := g.nodes.map φ, edges := g.edges.map fun e => { e with src := φ e.src, tgt := φ e.tgt } }

theorem C07_reach_relabel (φ : Nat → Nat) (g : MGraph) (a b : Nat) (h : Reach g a b) :
    Reach (relabel φ g) (φ a) (φ b) := by
  induction h with
  | refl => exact Reach.refl _
  | step _ hc ih =>
    refine Reach.step ih ?_
    obtain ⟨e, he, hh⟩ := hc
    refine ⟨{ e with src := φ e.src, tgt := φ e.tgt }, List.mem_map.mpr ⟨e, he, rfl⟩, ?_⟩
    rcases hh with ⟨h1, h2⟩ | ⟨h0, h1, h2⟩
    · exact Or.inl ⟨by simp [h1], by simp [h2]⟩
    · exact Or.inr ⟨h0, by simp [h1], by simp [h2]⟩

/-! non-vacuity: the regenerated table is not empty and contains the repaired call sites -/
example : scratchTable.length ≥ 20 := by decide

/-! # Wave 2 — `C07_<A>_respects_iso`

For every algorithm whose mirror model has a full correctness theorem, two corollaries:

* *encoding independence* (`C07_<A>_encoding_independent`): two views — any storage type, any
  iteration order, any `to_index` assignment, any heap tie order — of two presentations of the same
  abstract graph (same adjacency `SameAdj` / same weighted arcs `SameArcs`: order of insertion, edge
  ids and stored orientation of undirected edges are free) give the same answer where it is unique,
  and equally good valid answers otherwise;
* *isomorphism* (`C07_<A>_respects_iso`): the same when the second view presents the graph renamed
  by an injective `φ : Nat → Nat` — the answer is carried along by `φ`.

The specification-level facts (`C07_<notion>_relabel`) are stated separately. -/

theorem relabel_eq (φ : Nat → Nat) (g : MGraph) : relabel φ g = C07W2.relabel φ g := rfl

/-- an `Option`-valued answer is determined by a specification of its `some` values -/
theorem opt_eq_of_spec {α : Type} {a b : Option α} {P : α → Prop} (ha : ∀ y, a = some y ↔ P y)
    (hb : ∀ y, b = some y ↔ P y) : a = b := by
  cases h : a with
  | some y => exact ((hb y).mpr ((ha y).mp h)).symm
  | none =>
    cases h' : b with
    | none => rfl
    | some y => rw [(ha y).mpr ((hb y).mp h')] at h; cases h

/-! ## specification notions under relabeling -/

/-- `Reach` is carried along *exactly* by an injective renaming (the converse of `C07_reach_relabel`) -/
theorem C07_reach_relabel_iff (φ : Nat → Nat) (hφ : ∀ x y, φ x = φ y → x = y) (g : MGraph) (a b : Nat) :
    Reach (relabel φ g) (φ a) (φ b) ↔ Reach g a b :=
  C07W2.reach_relabel_iff g hφ

/-- … and what is reachable from an image is an image -/
theorem C07_reach_relabel_image (φ : Nat → Nat) (hφ : ∀ x y, φ x = φ y → x = y) (g : MGraph) (a y : Nat)
    (h : Reach (relabel φ g) (φ a) y) : ∃ b, y = φ b ∧ Reach g a b :=
  C07W2.reach_relabel_inv g hφ h

theorem C07_reach1_relabel (φ : Nat → Nat) (hφ : ∀ x y, φ x = φ y → x = y) (g : MGraph) (a b : Nat) :
    Reach1 (relabel φ g) (φ a) (φ b) ↔ Reach1 g a b :=
  C07W2.reach1_relabel_iff g hφ

theorem C07_walkcost_relabel (φ : Nat → Nat) (hφ : ∀ x y, φ x = φ y → x = y) (g : MGraph) (a b : Nat) (c : Int) :
    WalkCost (relabel φ g) (φ a) (φ b) c ↔ WalkCost g a b c :=
  C07W2.walkCost_relabel_iff g hφ

theorem C07_shortest_relabel (φ : Nat → Nat) (hφ : ∀ x y, φ x = φ y → x = y) (g : MGraph) (s v : Nat) (d : Int) :
    IsShortest (relabel φ g) (φ s) (φ v) d ↔ IsShortest g s v d :=
  C07W2.isShortest_relabel_iff g hφ

theorem C07_kthcost_relabel (φ : Nat → Nat) (hφ : ∀ x y, φ x = φ y → x = y) (g : MGraph) (s v k : Nat) (c : Int) :
    C10P.KthCost (relabel φ g) (φ s) (φ v) k c ↔ C10P.KthCost g s v k c :=
  C07W2.kthCost_relabel_iff hφ g s v k c

theorem C07_wellformed_relabel (φ : Nat → Nat) (hφ : ∀ x y, φ x = φ y → x = y) (g : MGraph)
    (h : g.WellFormed) : (relabel φ g).WellFormed :=
  C07W2.wellFormed_relabel g hφ h

/-- the shortest-walk cost depends only on the set of weighted arcs -/
theorem C07_shortest_presentation (g1 g2 : MGraph) (h : C07W2.SameArcs g1 g2) (s v : Nat) (d : Int) :
    IsShortest g1 s v d ↔ IsShortest g2 s v d :=
  C07W2.isShortest_congr h

/-- the k-th cheapest walk cost depends only on the multiset of weighted arcs -/
theorem C07_kthcost_presentation (g1 g2 : MGraph) (h : g1.arcs.Perm g2.arcs) (s v k : Nat) (c : Int) :
    C10P.KthCost g1 s v k c ↔ C10P.KthCost g2 s v k c :=
  C07W2.kthCost_perm h s v k c

/-! ## C10 — dijkstra, k_shortest_path, astar -/
section C10
open PetgraphModel.C10P PetgraphModel.SP PetgraphModel.C07W2

/-- **dijkstra, encoding independence**: two views of two presentations of the same weighted arcs, any
two min-heap tie orders: without goal the two maps are equal as functions (same keys, same costs);
with goal `t` the goal's entry is the same. -/
theorem C07_dijkstra_encoding_independent (pop1 pop2 : Pop) (hp1 : IsMinPop pop1) (hp2 : IsMinPop pop2)
    (v1 v2 : View) (hv1 : ViewArcs v1) (hv2 : ViewArcs v2) (hw : NonNeg v1.g)
    (hg : SameArcs v1.g v2.g) (s : Nat) (goal : Option Nat) (m1 m2 : List (Nat × Int))
    (r1 : SP.dijkstra pop1 v1 s goal = some m1) (r2 : SP.dijkstra pop2 v2 s goal = some m2) :
    (goal = none → ∀ x, amGet m1 x = amGet m2 x) ∧ (∀ t, goal = some t → amGet m1 t = amGet m2 t) := by
  have D1 := C10T.C10_dijkstra pop1 hp1 v1 hv1 hw s goal m1 r1
  have D2 := C10T.C10_dijkstra pop2 hp2 v2 hv2 (nonNeg_congr hg hw) s goal m2 r2
  refine ⟨fun hn x => ?_, fun t ht => ?_⟩
  · exact opt_eq_of_spec (fun y => (D1.2.1 hn).1 x y)
      (fun y => ((D2.2.1 hn).1 x y).trans (isShortest_congr hg).symm)
  · exact opt_eq_of_spec (fun y => (D1.2.2 t ht).1 y)
      (fun y => ((D2.2.2 t ht).1 y).trans (isShortest_congr hg).symm)

/-- **dijkstra respects isomorphism**: if the second view presents the arcs of the first graph renamed
by an injective `φ`, the map computed from `φ s` is the first map carried along by `φ` — same cost at
`φ x` as at `x`, and no key outside the image of `φ`. -/
theorem C07_dijkstra_respects_iso (φ : Nat → Nat) (hφ : ∀ x y, φ x = φ y → x = y)
    (pop1 pop2 : Pop) (hp1 : IsMinPop pop1) (hp2 : IsMinPop pop2)
    (v1 v2 : View) (hv1 : ViewArcs v1) (hv2 : ViewArcs v2) (hw : NonNeg v1.g)
    (hg : SameArcs v2.g (relabel φ v1.g)) (s : Nat) (m1 m2 : List (Nat × Int))
    (r1 : SP.dijkstra pop1 v1 s none = some m1) (r2 : SP.dijkstra pop2 v2 (φ s) none = some m2) :
    (∀ x, amGet m2 (φ x) = amGet m1 x) ∧ (∀ y c, amGet m2 y = some c → ∃ x, y = φ x) := by
  have hw2 : NonNeg v2.g := nonNeg_congr (SameArcs.symm hg) (nonNeg_relabel φ v1.g hw)
  have D1 := (C10T.C10_dijkstra pop1 hp1 v1 hv1 hw s none m1 r1).2.1 rfl
  have D2 := (C10T.C10_dijkstra pop2 hp2 v2 hv2 hw2 (φ s) none m2 r2).2.1 rfl
  refine ⟨fun x => ?_, fun y c hy => ?_⟩
  · exact opt_eq_of_spec
      (fun d => ((D2.1 (φ x) d).trans (isShortest_congr hg)).trans (isShortest_relabel_iff v1.g hφ))
      (fun d => D1.1 x d)
  · have hsh := ((D2.1 y c).mp hy).1
    obtain ⟨b, hb, _⟩ := walkCost_relabel_inv v1.g hφ ((walkCost_congr hg).mp hsh)
    exact ⟨b, hb⟩

/-- **dijkstra with a goal respects isomorphism**: the goal's entry is carried along. -/
theorem C07_dijkstra_goal_respects_iso (φ : Nat → Nat) (hφ : ∀ x y, φ x = φ y → x = y)
    (pop1 pop2 : Pop) (hp1 : IsMinPop pop1) (hp2 : IsMinPop pop2)
    (v1 v2 : View) (hv1 : ViewArcs v1) (hv2 : ViewArcs v2) (hw : NonNeg v1.g)
    (hg : SameArcs v2.g (relabel φ v1.g)) (s t : Nat) (m1 m2 : List (Nat × Int))
    (r1 : SP.dijkstra pop1 v1 s (some t) = some m1) (r2 : SP.dijkstra pop2 v2 (φ s) (some (φ t)) = some m2) :
    amGet m2 (φ t) = amGet m1 t := by
  have hw2 : NonNeg v2.g := nonNeg_congr (SameArcs.symm hg) (nonNeg_relabel φ v1.g hw)
  have D1 := (C10T.C10_dijkstra pop1 hp1 v1 hv1 hw s (some t) m1 r1).2.2 t rfl
  have D2 := (C10T.C10_dijkstra pop2 hp2 v2 hv2 hw2 (φ s) (some (φ t)) m2 r2).2.2 (φ t) rfl
  exact opt_eq_of_spec
    (fun d => ((D2.1 d).trans (isShortest_congr hg)).trans (isShortest_relabel_iff v1.g hφ))
    (fun d => D1.1 d)

/-- **k_shortest_path, encoding independence** (every `k ≥ 1`, no goal): two views (any row order
within the multiset condition `ViewArcsM`, any injective `to_index` below `node_bound`, any tie order)
of graphs with the same *multiset* of arcs (any insertion order, edge ids, stored orientation of
undirected edges) give the same map. -/
theorem C07_kshortest_encoding_independent (pop1 pop2 : Pop) (hp1 : IsMinPop pop1) (hp2 : IsMinPop pop2)
    (v1 v2 : View) (hv1 : ViewArcsM v1) (hv2 : ViewArcsM v2) (hw : NonNeg v1.g)
    (hg : v1.g.arcs.Perm v2.g.arcs) (s k : Nat) (hk : 1 ≤ k)
    (hix1 : C10P.IxOk v1 s) (hinj1 : IxInj v1 s) (hix2 : C10P.IxOk v2 s) (hinj2 : IxInj v2 s)
    (m1 m2 : List (Nat × Int))
    (r1 : kShortestPath pop1 v1 s none k = .done m1) (r2 : kShortestPath pop2 v2 s none k = .done m2) :
    ∀ x, amGet m1 x = amGet m2 x := by
  have hw2 : NonNeg v2.g := nonNeg_perm hg hw
  have K1 := C10T.C10_kshortest pop1 hp1 v1 hv1 hw s k hk hix1 hinj1 m1 r1
  have K2 := C10T.C10_kshortest pop2 hp2 v2 hv2 hw2 s k hk hix2 hinj2 m2 r2
  intro x
  exact opt_eq_of_spec (fun c => K1 x c) (fun c => (K2 x c).trans (kthCost_perm hg s x k c).symm)

/-- **k_shortest_path respects isomorphism**: the k-th cheapest walk costs are carried along by `φ`,
and the renamed run has no key outside the image of `φ`. -/
theorem C07_kshortest_respects_iso (φ : Nat → Nat) (hφ : ∀ x y, φ x = φ y → x = y)
    (pop1 pop2 : Pop) (hp1 : IsMinPop pop1) (hp2 : IsMinPop pop2)
    (v1 v2 : View) (hv1 : ViewArcsM v1) (hv2 : ViewArcsM v2) (hw : NonNeg v1.g)
    (hg : v2.g.arcs.Perm (relabel φ v1.g).arcs) (s k : Nat) (hk : 1 ≤ k)
    (hix1 : C10P.IxOk v1 s) (hinj1 : IxInj v1 s) (hix2 : C10P.IxOk v2 (φ s)) (hinj2 : IxInj v2 (φ s))
    (m1 m2 : List (Nat × Int))
    (r1 : kShortestPath pop1 v1 s none k = .done m1) (r2 : kShortestPath pop2 v2 (φ s) none k = .done m2) :
    (∀ x, amGet m2 (φ x) = amGet m1 x) ∧ (∀ y c, amGet m2 y = some c → ∃ x, y = φ x) := by
  have hw2 : NonNeg v2.g := nonNeg_perm hg.symm (nonNeg_relabel φ v1.g hw)
  have K1 := C10T.C10_kshortest pop1 hp1 v1 hv1 hw s k hk hix1 hinj1 m1 r1
  have K2 := C10T.C10_kshortest pop2 hp2 v2 hv2 hw2 (φ s) k hk hix2 hinj2 m2 r2
  refine ⟨fun x => ?_, fun y c hy => ?_⟩
  · exact opt_eq_of_spec
      (fun c => ((K2 (φ x) c).trans (kthCost_perm hg _ _ k c)).trans (kthCost_relabel_iff hφ v1.g s x k c))
      (fun c => K1 x c)
  · exact kthCost_relabel_image hφ v1.g hk ((kthCost_perm hg _ _ k c).mp ((K2 y c).mp hy))

/-- what the total-correctness theorem `C10_astar` determines of an answer: `None` iff no goal is
reachable, otherwise the cost of a cheapest walk to a goal -/
theorem astar_cost_spec (pop : Pop) (hp : IsMinPop pop) (v : View) (hv : ViewArcs v) (hw : NonNeg v.g)
    (s : Nat) (isGoal : Nat → Bool) (h : Nat → Int) (hadm : Admissible v.g isGoal h) (fuel : Nat)
    (hf : astarBound v.g s ≤ fuel) :
    (SP.astar pop v s isGoal h fuel = .notFound ∧ ∀ t, isGoal t = true → ¬ Reach v.g s t) ∨
    ∃ cost p, SP.astar pop v s isGoal h fuel = .found cost p ∧
      (∃ t, isGoal t = true ∧ WalkCost v.g s t cost) ∧
      ∀ t' c', isGoal t' = true → WalkCost v.g s t' c' → cost ≤ c' := by
  obtain ⟨h1, h2, h3⟩ := C10T.C10_astar pop hp v hv hw s isGoal h fuel hf
  rcases h2 with hn | ⟨cost, p, hc⟩
  · exact Or.inl ⟨hn, h1.mp hn⟩
  · obtain ⟨t, ht, _, _, hwc, hopt⟩ := h3 cost p hc
    exact Or.inr ⟨cost, p, hc, ⟨t, ht, hwc⟩, (hopt hadm).1⟩

/-- **astar respects isomorphism (and the encoding)**: the second view presents the arcs of the first
graph renamed by an injective `φ` (take `φ = id`-like renamings for pure re-encodings), the goal
predicate is carried along, the two heuristics may be ANY two admissible ones, the tie orders any:
both runs answer `None` or both answer `Some`, and then with the same cost (the paths may differ —
they are both optimal by `C10_astar`). -/
theorem C07_astar_respects_iso (φ : Nat → Nat) (hφ : ∀ x y, φ x = φ y → x = y)
    (pop1 pop2 : Pop) (hp1 : IsMinPop pop1) (hp2 : IsMinPop pop2)
    (v1 v2 : View) (hv1 : ViewArcs v1) (hv2 : ViewArcs v2) (hw : NonNeg v1.g)
    (hg : SameArcs v2.g (relabel φ v1.g)) (s : Nat) (goal1 goal2 : Nat → Bool)
    (hgoal : ∀ x, goal2 (φ x) = goal1 x) (h1 h2 : Nat → Int)
    (ha1 : Admissible v1.g goal1 h1) (ha2 : Admissible v2.g goal2 h2) (f1 f2 : Nat)
    (hf1 : astarBound v1.g s ≤ f1) (hf2 : astarBound v2.g (φ s) ≤ f2) :
    (SP.astar pop1 v1 s goal1 h1 f1 = .notFound ↔ SP.astar pop2 v2 (φ s) goal2 h2 f2 = .notFound) ∧
    ∀ c1 p1 c2 p2, SP.astar pop1 v1 s goal1 h1 f1 = .found c1 p1 →
      SP.astar pop2 v2 (φ s) goal2 h2 f2 = .found c2 p2 → c1 = c2 := by
  have hw2 : NonNeg v2.g := nonNeg_congr (SameArcs.symm hg) (nonNeg_relabel φ v1.g hw)
  have A1 := astar_cost_spec pop1 hp1 v1 hv1 hw s goal1 h1 ha1 f1 hf1
  have A2 := astar_cost_spec pop2 hp2 v2 hv2 hw2 (φ s) goal2 h2 ha2 f2 hf2
  -- transport of walks between the two graphs
  have fwd : ∀ t c, WalkCost v1.g s t c → WalkCost v2.g (φ s) (φ t) c :=
    fun t c hwc => (walkCost_congr hg).mpr (walkCost_relabel φ v1.g hwc)
  have bwd : ∀ y c, WalkCost v2.g (φ s) y c → ∃ t, y = φ t ∧ WalkCost v1.g s t c :=
    fun y c hwc => walkCost_relabel_inv v1.g hφ ((walkCost_congr hg).mp hwc)
  rcases A1 with ⟨e1, n1⟩ | ⟨c1, p1, e1, ⟨t1, g1, w1⟩, o1⟩ <;>
    rcases A2 with ⟨e2, n2⟩ | ⟨c2, p2, e2, ⟨t2, g2, w2⟩, o2⟩
  · refine ⟨⟨fun _ => e2, fun _ => e1⟩, ?_⟩
    intro c1 p1 c2 p2 hc; rw [e1] at hc; cases hc
  · exfalso
    obtain ⟨t, rfl, hwt⟩ := bwd t2 c2 w2
    exact n1 t (by rw [← hgoal]; exact g2) ((DistProofs.walk_iff_reach _ _ _).mp ⟨c2, hwt⟩)
  · exfalso
    exact n2 (φ t1) (by rw [hgoal]; exact g1) ((DistProofs.walk_iff_reach _ _ _).mp ⟨c1, fwd t1 c1 w1⟩)
  · refine ⟨⟨fun h => (by rw [e1] at h; cases h), fun h => (by rw [e2] at h; cases h)⟩, ?_⟩
    intro c1' p1' c2' p2' hc1 hc2
    rw [e1] at hc1; rw [e2] at hc2
    cases hc1; cases hc2
    have le1 : c2 ≤ c1 := o2 (φ t1) c1 (by rw [hgoal]; exact g1) (fwd t1 c1 w1)
    obtain ⟨t, rfl, hwt⟩ := bwd t2 c2 w2
    have le2 : c1 ≤ c2 := o1 t c2 (by rw [← hgoal]; exact g2) hwt
    omega

/-- **astar, encoding independence**: the special case of two views of the same weighted arcs. -/
theorem C07_astar_encoding_independent (pop1 pop2 : Pop) (hp1 : IsMinPop pop1) (hp2 : IsMinPop pop2)
    (v1 v2 : View) (hv1 : ViewArcs v1) (hv2 : ViewArcs v2) (hw : NonNeg v1.g)
    (hg : SameArcs v1.g v2.g) (s : Nat) (goal : Nat → Bool) (h1 h2 : Nat → Int)
    (ha1 : Admissible v1.g goal h1) (ha2 : Admissible v2.g goal h2) (f1 f2 : Nat)
    (hf1 : astarBound v1.g s ≤ f1) (hf2 : astarBound v2.g s ≤ f2) :
    (SP.astar pop1 v1 s goal h1 f1 = .notFound ↔ SP.astar pop2 v2 s goal h2 f2 = .notFound) ∧
    ∀ c1 p1 c2 p2, SP.astar pop1 v1 s goal h1 f1 = .found c1 p1 →
      SP.astar pop2 v2 s goal h2 f2 = .found c2 p2 → c1 = c2 := by
  have hw2 : NonNeg v2.g := nonNeg_congr hg hw
  have A1 := astar_cost_spec pop1 hp1 v1 hv1 hw s goal h1 ha1 f1 hf1
  have A2 := astar_cost_spec pop2 hp2 v2 hv2 hw2 s goal h2 ha2 f2 hf2
  rcases A1 with ⟨e1, n1⟩ | ⟨c1, p1, e1, ⟨t1, g1, w1⟩, o1⟩ <;>
    rcases A2 with ⟨e2, n2⟩ | ⟨c2, p2, e2, ⟨t2, g2, w2⟩, o2⟩
  · refine ⟨⟨fun _ => e2, fun _ => e1⟩, ?_⟩
    intro c1 p1 c2 p2 hc; rw [e1] at hc; cases hc
  · exfalso
    exact n1 t2 g2 ((DistProofs.walk_iff_reach _ _ _).mp ⟨c2, (walkCost_congr hg).mpr w2⟩)
  · exfalso
    exact n2 t1 g1 ((DistProofs.walk_iff_reach _ _ _).mp ⟨c1, (walkCost_congr hg).mp w1⟩)
  · refine ⟨⟨fun h => (by rw [e1] at h; cases h), fun h => (by rw [e2] at h; cases h)⟩, ?_⟩
    intro c1' p1' c2' p2' hc1 hc2
    rw [e1] at hc1; rw [e2] at hc2
    cases hc1; cases hc2
    have le1 : c2 ≤ c1 := o2 t1 c1 g1 ((walkCost_congr hg).mp w1)
    have le2 : c1 ≤ c2 := o1 t2 c2 g2 ((walkCost_congr hg).mpr w2)
    omega

end C10

/-! ## C11 — bellman_ford, spfa, floyd_warshall -/
section C11
open PetgraphModel.C11M PetgraphModel.C11MP PetgraphModel.C11P PetgraphModel.C07W2

theorem C07_negcycle_relabel (φ : Nat → Nat) (hφ : ∀ x y, φ x = φ y → x = y) (g : MGraph) (s : Nat) :
    (NegCycleReachable (relabel φ g) (φ s) ↔ NegCycleReachable g s) ∧ (NegCycle (relabel φ g) ↔ NegCycle g) :=
  ⟨negCycleReachable_relabel_iff hφ g s, negCycle_relabel_iff hφ g⟩

theorem C07_negcycle_presentation (g1 g2 : MGraph) (h : SameArcs g1 g2) (s : Nat) :
    (NegCycleReachable g1 s ↔ NegCycleReachable g2 s) ∧ (NegCycle g1 ↔ NegCycle g2) :=
  ⟨negCycleReachable_congr h s, negCycle_congr h⟩

/-- the distance table of an `Ok` result of the `bellman_ford` model is exactly the shortest-walk costs -/
theorem bellman_ford_exact (v : View) (hv : C11MP.ViewArcs v) (s : Nat) (st : BF)
    (h : bellmanFord v s = some st) : ∀ x y, tget st.d x = some y ↔ IsShortest v.g s x y :=
  let r := C11T.C11_bellman_ford_ok v hv s st h
  exact_of_sound_total (get := fun x => tget st.d x) r.1 r.2.1

/-- **bellman_ford respects isomorphism**: if the second view presents the arcs of the first graph
renamed by an injective `φ`, then both runs err or both answer `Ok` (the verdict is "a negative cycle is
reachable", a property of the abstract graph), and the `Ok` distance tables correspond under `φ`.
(The predecessor tables are each a shortest-path tree — `C11_bellman_ford_tree` — but ties between
equally short paths may be resolved differently.) -/
theorem C07_bellman_ford_respects_iso (φ : Nat → Nat) (hφ : ∀ x y, φ x = φ y → x = y)
    (v1 v2 : View) (hv1 : C11MP.ViewArcs v1) (hv2 : C11MP.ViewArcs v2)
    (hwf1 : v1.g.WellFormed) (hwf2 : v2.g.WellFormed)
    (hg : SameArcs v2.g (relabel φ v1.g)) (s : Nat) (hs1 : s ∈ v1.g.nodes) (hs2 : φ s ∈ v2.g.nodes) :
    (bellmanFord v1 s = none ↔ bellmanFord v2 (φ s) = none) ∧
    ∀ st1 st2, bellmanFord v1 s = some st1 → bellmanFord v2 (φ s) = some st2 →
      (∀ x, tget st2.d (φ x) = tget st1.d x) ∧ (∀ y c, tget st2.d y = some c → ∃ x, y = φ x) := by
  refine ⟨?_, fun st1 st2 r1 r2 => ⟨fun x => ?_, fun y c hy => ?_⟩⟩
  · rw [C11T.C11_bellman_ford_err_iff v1 hv1 hwf1 s hs1, C11T.C11_bellman_ford_err_iff v2 hv2 hwf2 (φ s) hs2]
    exact ((negCycleReachable_congr hg (φ s)).trans (negCycleReachable_relabel_iff hφ v1.g s)).symm
  · exact opt_eq_of_spec
      (fun d => ((bellman_ford_exact v2 hv2 (φ s) st2 r2 (φ x) d).trans (isShortest_congr hg)).trans
        (isShortest_relabel_iff v1.g hφ))
      (fun d => bellman_ford_exact v1 hv1 s st1 r1 x d)
  · have hsh := ((bellman_ford_exact v2 hv2 (φ s) st2 r2 y c).mp hy).1
    obtain ⟨b, hb, _⟩ := walkCost_relabel_inv v1.g hφ ((walkCost_congr hg).mp hsh)
    exact ⟨b, hb⟩

/-- **bellman_ford, encoding independence**: two views of two presentations of the same weighted arcs. -/
theorem C07_bellman_ford_encoding_independent
    (v1 v2 : View) (hv1 : C11MP.ViewArcs v1) (hv2 : C11MP.ViewArcs v2)
    (hwf1 : v1.g.WellFormed) (hwf2 : v2.g.WellFormed)
    (hg : SameArcs v1.g v2.g) (s : Nat) (hs1 : s ∈ v1.g.nodes) (hs2 : s ∈ v2.g.nodes) :
    (bellmanFord v1 s = none ↔ bellmanFord v2 s = none) ∧
    ∀ st1 st2, bellmanFord v1 s = some st1 → bellmanFord v2 s = some st2 →
      ∀ x, tget st1.d x = tget st2.d x := by
  refine ⟨?_, fun st1 st2 r1 r2 x => ?_⟩
  · rw [C11T.C11_bellman_ford_err_iff v1 hv1 hwf1 s hs1, C11T.C11_bellman_ford_err_iff v2 hv2 hwf2 s hs2,
      negCycleReachable_congr hg]
  · exact opt_eq_of_spec (fun d => bellman_ford_exact v1 hv1 s st1 r1 x d)
      (fun d => (bellman_ford_exact v2 hv2 s st2 r2 x d).trans (isShortest_congr hg).symm)

/-- **find_negative_cycle respects isomorphism** in what is determined: `None` on one side iff `None`
on the other (the shape of a returned sequence is the open finding D15). -/
theorem C07_find_negative_cycle_respects_iso (φ : Nat → Nat) (hφ : ∀ x y, φ x = φ y → x = y)
    (v1 v2 : View) (hv1 : C11MP.ViewArcs v1) (hv2 : C11MP.ViewArcs v2)
    (hwf1 : v1.g.WellFormed) (hwf2 : v2.g.WellFormed)
    (hg : SameArcs v2.g (relabel φ v1.g)) (s : Nat) (hs1 : s ∈ v1.g.nodes) (hs2 : φ s ∈ v2.g.nodes) :
    findNegativeCycle v1 s = .none ↔ findNegativeCycle v2 (φ s) = .none := by
  have h1 := C11T.C11_find_negative_cycle_some_iff v1 hv1 hwf1 s hs1
  have h2 := C11T.C11_find_negative_cycle_some_iff v2 hv2 hwf2 (φ s) hs2
  have h3 := (negCycleReachable_congr hg (φ s)).trans (negCycleReachable_relabel_iff hφ v1.g s)
  constructor
  · intro h; exact Classical.byContradiction fun hne => (h1.mpr (h3.mp (h2.mp hne))) h
  · intro h; exact Classical.byContradiction fun hne => (h2.mpr (h3.mpr (h1.mp hne))) h

/-- the distance table of an `Ok` result of the `spfa` model (under the no-overflow condition of
`C11_spfa_ok`) is exactly the shortest-walk costs -/
theorem spfa_exact (B : Meas) (hB : 0 < B.max) (v : View) (hv : C11MP.ViewArcs v) (s : Nat) (st : SP)
    (h : spfa B v s = some (some st))
    (hfit : ∀ a b w, (a, b, w) ∈ v.g.arcs → ∀ x, tget st.d a = some x → B.min ≤ x + w ∧ x + w < B.max) :
    ∀ x y, tget st.d x = some y ↔ IsShortest v.g s x y :=
  let r := C11T.C11_spfa_ok B hB v hv s st h hfit
  exact_of_sound_total (get := fun x => tget st.d x) (fun x y hx => (r.1 x y hx).1) r.2.1

/-- **spfa respects isomorphism** (any two cost types, each wide enough for its own result): the `Ok`
distance tables correspond under `φ`. -/
theorem C07_spfa_respects_iso (φ : Nat → Nat) (hφ : ∀ x y, φ x = φ y → x = y)
    (B1 B2 : Meas) (hB1 : 0 < B1.max) (hB2 : 0 < B2.max)
    (v1 v2 : View) (hv1 : C11MP.ViewArcs v1) (hv2 : C11MP.ViewArcs v2)
    (hg : SameArcs v2.g (relabel φ v1.g)) (s : Nat) (st1 st2 : SP)
    (r1 : spfa B1 v1 s = some (some st1)) (r2 : spfa B2 v2 (φ s) = some (some st2))
    (hfit1 : ∀ a b w, (a, b, w) ∈ v1.g.arcs → ∀ x, tget st1.d a = some x → B1.min ≤ x + w ∧ x + w < B1.max)
    (hfit2 : ∀ a b w, (a, b, w) ∈ v2.g.arcs → ∀ x, tget st2.d a = some x → B2.min ≤ x + w ∧ x + w < B2.max) :
    (∀ x, tget st2.d (φ x) = tget st1.d x) ∧ (∀ y c, tget st2.d y = some c → ∃ x, y = φ x) := by
  have E1 := spfa_exact B1 hB1 v1 hv1 s st1 r1 hfit1
  have E2 := spfa_exact B2 hB2 v2 hv2 (φ s) st2 r2 hfit2
  refine ⟨fun x => ?_, fun y c hy => ?_⟩
  · exact opt_eq_of_spec
      (fun d => ((E2 (φ x) d).trans (isShortest_congr hg)).trans (isShortest_relabel_iff v1.g hφ))
      (fun d => E1 x d)
  · obtain ⟨b, hb, _⟩ := walkCost_relabel_inv v1.g hφ ((walkCost_congr hg).mp ((E2 y c).mp hy).1)
    exact ⟨b, hb⟩

/-- **spfa, encoding independence** — and agreement with `bellman_ford` on any view of the same arcs. -/
theorem C07_spfa_encoding_independent
    (B1 B2 : Meas) (hB1 : 0 < B1.max) (hB2 : 0 < B2.max)
    (v1 v2 : View) (hv1 : C11MP.ViewArcs v1) (hv2 : C11MP.ViewArcs v2)
    (hg : SameArcs v1.g v2.g) (s : Nat) (st1 st2 : SP)
    (r1 : spfa B1 v1 s = some (some st1)) (r2 : spfa B2 v2 s = some (some st2))
    (hfit1 : ∀ a b w, (a, b, w) ∈ v1.g.arcs → ∀ x, tget st1.d a = some x → B1.min ≤ x + w ∧ x + w < B1.max)
    (hfit2 : ∀ a b w, (a, b, w) ∈ v2.g.arcs → ∀ x, tget st2.d a = some x → B2.min ≤ x + w ∧ x + w < B2.max) :
    (∀ x, tget st1.d x = tget st2.d x) ∧
    ∀ v3 (_ : C11MP.ViewArcs v3) (_ : SameArcs v1.g v3.g) st3, bellmanFord v3 s = some st3 →
      ∀ x, tget st1.d x = tget st3.d x := by
  have E1 := spfa_exact B1 hB1 v1 hv1 s st1 r1 hfit1
  have E2 := spfa_exact B2 hB2 v2 hv2 s st2 r2 hfit2
  refine ⟨fun x => ?_, fun v3 hv3 hg3 st3 r3 x => ?_⟩
  · exact opt_eq_of_spec (fun d => E1 x d) (fun d => (E2 x d).trans (isShortest_congr hg).symm)
  · exact opt_eq_of_spec (fun d => E1 x d)
      (fun d => (bellman_ford_exact v3 hv3 s st3 r3 x d).trans (isShortest_congr hg3).symm)

/-- **spfa's verdict respects isomorphism**: under the hypotheses of `C11_spfa_err` for the first run
and of `C11_spfa_ok` for the second, it cannot be that the first reports `NegativeCycle` while the
second answers `Ok`. -/
theorem C07_spfa_verdict_respects_iso (φ : Nat → Nat) (hφ : ∀ x y, φ x = φ y → x = y)
    (B1 B2 : Meas) (hB2 : 0 < B2.max)
    (v1 v2 : View) (hv1 : C11MP.ViewArcs v1) (hv2 : C11MP.ViewArcs v2) (hwf1 : v1.g.WellFormed)
    (hg : SameArcs v2.g (relabel φ v1.g)) (s : Nat) (hs : s ∈ v1.g.nodes) (hnb : v1.g.nodes.length ≤ v1.nb)
    (hfitw : ∀ x c j, j ≤ v1.g.nodes.length → WalkN v1.g s x c j → B1.min ≤ c ∧ c < B1.max)
    (r1 : spfa B1 v1 s = some none) (st2 : SP) (r2 : spfa B2 v2 (φ s) = some (some st2))
    (hfit2 : ∀ a b w, (a, b, w) ∈ v2.g.arcs → ∀ x, tget st2.d a = some x → B2.min ≤ x + w ∧ x + w < B2.max) :
    False := by
  have h1 := C11T.C11_spfa_err B1 v1 hv1 hwf1 s hs hnb hfitw r1
  have h2 := (C11T.C11_spfa_ok B2 hB2 v2 hv2 (φ s) st2 r2 hfit2).2.2.1
  exact h2 ((negCycleReachable_congr hg (φ s)).mpr ((negCycleReachable_relabel_iff hφ v1.g s).mpr h1))

/-- the width hypothesis of `C11_floyd_ok` / `C11_floyd_err_iff`, bundled: the cost type is wide
against `2^|V| · max |cost|` -/
def FloydWide (B : Meas) (v : View) : Prop :=
  ∃ Wm : Int, 0 ≤ Wm ∧ (∀ e ∈ v.g.edges, -Wm ≤ e.w ∧ e.w ≤ Wm) ∧
    dbl v.g.nodes.length Wm + Wm < B.max ∧ B.min ≤ -(dbl v.g.nodes.length Wm)

/-- row `i` of an `Ok` result of the `floyd_warshall` model is exactly the shortest-walk costs from `i` -/
theorem floyd_exact (B : Meas) (v : View) (hwf : v.g.WellFormed) (hwide : FloydWide B v) (st : FW)
    (h : floydWarshall B v = some st) (i : Nat) (hi : i ∈ v.g.nodes) :
    ∀ j y, tget st.d (i, j) = some y ↔ IsShortest v.g i j y := by
  obtain ⟨Wm, hWm, hW, hfit⟩ := hwide
  have r := C11T.C11_floyd_ok B v hwf Wm hWm hW hfit st h i hi
  exact exact_of_sound_total (get := fun j => tget st.d (i, j)) r.1 r.2.1

/-- **floyd_warshall respects isomorphism**: both runs err or both answer `Ok` (the verdict is "the
graph has a negative cycle"), and the `Ok` matrices correspond under `φ` on every row of a node. -/
theorem C07_floyd_warshall_respects_iso (φ : Nat → Nat) (hφ : ∀ x y, φ x = φ y → x = y)
    (B1 B2 : Meas) (v1 v2 : View) (hwf1 : v1.g.WellFormed) (hwf2 : v2.g.WellFormed)
    (hwide1 : FloydWide B1 v1) (hwide2 : FloydWide B2 v2) (hg : SameArcs v2.g (relabel φ v1.g)) :
    (floydWarshall B1 v1 = none ↔ floydWarshall B2 v2 = none) ∧
    ∀ st1 st2, floydWarshall B1 v1 = some st1 → floydWarshall B2 v2 = some st2 →
      ∀ i, i ∈ v1.g.nodes → φ i ∈ v2.g.nodes → ∀ j, tget st2.d (φ i, φ j) = tget st1.d (i, j) := by
  refine ⟨?_, fun st1 st2 r1 r2 i hi1 hi2 j => ?_⟩
  · obtain ⟨Wm1, hWm1, hW1, hfit1⟩ := hwide1
    obtain ⟨Wm2, hWm2, hW2, hfit2⟩ := hwide2
    rw [C11T.C11_floyd_err_iff B1 v1 hwf1 Wm1 hWm1 hW1 hfit1, C11T.C11_floyd_err_iff B2 v2 hwf2 Wm2 hWm2 hW2 hfit2]
    exact ((negCycle_congr hg).trans (negCycle_relabel_iff hφ v1.g)).symm
  · exact opt_eq_of_spec
      (fun d => ((floyd_exact B2 v2 hwf2 hwide2 st2 r2 (φ i) hi2 (φ j) d).trans (isShortest_congr hg)).trans
        (isShortest_relabel_iff v1.g hφ))
      (fun d => floyd_exact B1 v1 hwf1 hwide1 st1 r1 i hi1 j d)

/-- **floyd_warshall, encoding independence**. -/
theorem C07_floyd_warshall_encoding_independent
    (B1 B2 : Meas) (v1 v2 : View) (hwf1 : v1.g.WellFormed) (hwf2 : v2.g.WellFormed)
    (hwide1 : FloydWide B1 v1) (hwide2 : FloydWide B2 v2) (hg : SameArcs v1.g v2.g) :
    (floydWarshall B1 v1 = none ↔ floydWarshall B2 v2 = none) ∧
    ∀ st1 st2, floydWarshall B1 v1 = some st1 → floydWarshall B2 v2 = some st2 →
      ∀ i, i ∈ v1.g.nodes → i ∈ v2.g.nodes → ∀ j, tget st1.d (i, j) = tget st2.d (i, j) := by
  refine ⟨?_, fun st1 st2 r1 r2 i hi1 hi2 j => ?_⟩
  · obtain ⟨Wm1, hWm1, hW1, hfit1⟩ := hwide1
    obtain ⟨Wm2, hWm2, hW2, hfit2⟩ := hwide2
    rw [C11T.C11_floyd_err_iff B1 v1 hwf1 Wm1 hWm1 hW1 hfit1, C11T.C11_floyd_err_iff B2 v2 hwf2 Wm2 hWm2 hW2 hfit2,
      negCycle_congr hg]
  · exact opt_eq_of_spec (fun d => floyd_exact B1 v1 hwf1 hwide1 st1 r1 i hi1 j d)
      (fun d => (floyd_exact B2 v2 hwf2 hwide2 st2 r2 i hi2 j d).trans (isShortest_congr hg).symm)

/-- floyd_warshall's row `s` agrees with bellman_ford from `s` on any views of the same arcs -/
theorem C07_floyd_agrees_with_bellman_ford (B : Meas) (v1 v2 : View) (hwf1 : v1.g.WellFormed)
    (hwide1 : FloydWide B v1) (hv2 : C11MP.ViewArcs v2) (hg : SameArcs v1.g v2.g) (s : Nat)
    (hs : s ∈ v1.g.nodes) (st1 : FW) (st2 : BF) (r1 : floydWarshall B v1 = some st1)
    (r2 : bellmanFord v2 s = some st2) : ∀ x, tget st1.d (s, x) = tget st2.d x := by
  intro x
  exact opt_eq_of_spec (fun d => floyd_exact B v1 hwf1 hwide1 st1 r1 s hs x d)
    (fun d => (bellman_ford_exact v2 hv2 s st2 r2 x d).trans (isShortest_congr hg).symm)

end C11

/-! ## C09 — has_path_connecting, kosaraju_scc, toposort, is_cyclic_*, connected_components -/
section C09
open PetgraphModel.C09J PetgraphModel.C09M PetgraphModel.C07W2

theorem bool_eq_of_iff {b1 b2 : Bool} {P : Prop} (h1 : b1 = true ↔ P) (h2 : b2 = true ↔ P) : b1 = b2 := by
  cases b1 <;> cases b2 <;> simp_all

/-- the SCC answer of `g`, renamed, is an SCC answer of the renamed graph (classes of mutual
reachability, reverse topological order of the components) -/
theorem C07_scc_relabel (φ : Nat → Nat) (hφ : ∀ x y, φ x = φ y → x = y) (g : MGraph) (comps : List (List Nat))
    (h : SccSpec g comps) : SccSpec (relabel φ g) (comps.map (List.map φ)) :=
  sccSpec_relabel hφ h

theorem C07_topo_order_relabel (φ : Nat → Nat) (hφ : ∀ x y, φ x = φ y → x = y) (g : MGraph) (ord : List Nat)
    (h : TopoOrder g ord) : TopoOrder (relabel φ g) (ord.map φ) :=
  topoOrder_relabel hφ h

theorem C07_cyclic_relabel (φ : Nat → Nat) (hφ : ∀ x y, φ x = φ y → x = y) (g : MGraph) :
    (CyclicD (relabel φ g) ↔ CyclicD g) ∧ (CyclicU (relabel φ g) ↔ CyclicU g) :=
  ⟨cyclicD_relabel_iff hφ g, cyclicU_relabel_iff hφ g⟩

/-- `CyclicU` does not depend on the order of insertion of the edges -/
theorem C07_cyclic_undirected_insertion_order (g1 g2 : MGraph) (h : g1.edges.Perm g2.edges) :
    CyclicU g1 ↔ CyclicU g2 :=
  cyclicU_perm_iff h

theorem C07_wcc_count_relabel (φ : Nat → Nat) (hφ : ∀ x y, φ x = φ y → x = y) (g : MGraph) (k : Nat) :
    IsWccCount (relabel φ g) k ↔ IsWccCount g k :=
  isWccCount_relabel_iff hφ g k

theorem C07_two_colourable_relabel (φ : Nat → Nat) (hφ : ∀ x y, φ x = φ y → x = y) (g : MGraph) (s : Nat) :
    TwoCol (relabel φ g) (φ s) ↔ TwoCol g s :=
  twoCol_relabel_iff hφ g s

/-- **has_path_connecting respects isomorphism**: same answer for `(a, b)` on any view of `g` and for
`(φ a, φ b)` on any view of any presentation of the renamed graph. -/
theorem C07_has_path_respects_iso (φ : Nat → Nat) (hφ : ∀ x y, φ x = φ y → x = y)
    (v1 v2 : View) (hv1 : C09P.ViewOk v1) (hv2 : C09P.ViewOk v2) (hg : SameAdj v2.g (relabel φ v1.g))
    (a b : Nat) (r1 r2 : Bool) (h1 : hasPath v1 a b = some r1) (h2 : hasPath v2 (φ a) (φ b) = some r2) :
    r1 = r2 :=
  bool_eq_of_iff (C09T.C09_has_path v1 hv1 a b r1 h1)
    ((C09T.C09_has_path v2 hv2 (φ a) (φ b) r2 h2).trans ((C07W2.reach_congr hg).trans (reach_relabel_iff v1.g hφ)))

theorem C07_has_path_encoding_independent
    (v1 v2 : View) (hv1 : C09P.ViewOk v1) (hv2 : C09P.ViewOk v2) (hg : SameAdj v1.g v2.g)
    (a b : Nat) (r1 r2 : Bool) (h1 : hasPath v1 a b = some r1) (h2 : hasPath v2 a b = some r2) :
    r1 = r2 :=
  bool_eq_of_iff (C09T.C09_has_path v1 hv1 a b r1 h1)
    ((C09T.C09_has_path v2 hv2 a b r2 h2).trans (C07W2.reach_congr hg).symm)

/-- **kosaraju_scc respects isomorphism**: the first answer, renamed, is a correct answer for the second
graph, and the two answers are the same partition: `x`, `y` share a component of the first answer iff
`φ x`, `φ y` share one of the second.  (Order of the components among incomparable ones and of the
members inside a component depend on the iteration order.) -/
theorem C07_kosaraju_respects_iso (φ : Nat → Nat) (hφ : ∀ x y, φ x = φ y → x = y)
    (v1 v2 : View) (hv1 : C09P.ViewOk v1) (hv2 : C09P.ViewOk v2)
    (hp1 : ∀ a b, b ∈ v1.pred a ↔ v1.g.Adj b a) (hp2 : ∀ a b, b ∈ v2.pred a ↔ v2.g.Adj b a)
    (hwf1 : v1.g.WellFormed) (hwf2 : v2.g.WellFormed)
    (hn : SameNodes v2.g (relabel φ v1.g)) (hg : SameAdj v2.g (relabel φ v1.g))
    (comps1 comps2 : List (List Nat)) (h1 : kosaraju v1 = some comps1) (h2 : kosaraju v2 = some comps2) :
    SccSpec v2.g (comps1.map (List.map φ)) ∧
    ∀ x y, (∃ c ∈ comps1, x ∈ c ∧ y ∈ c) ↔ (∃ c ∈ comps2, φ x ∈ c ∧ φ y ∈ c) := by
  have S1 := C09T.C09_kosaraju v1 hv1 hp1 hwf1 comps1 h1
  have S2 := C09T.C09_kosaraju v2 hv2 hp2 hwf2 comps2 h2
  refine ⟨sccSpec_congr hn.symm hg.symm (sccSpec_relabel hφ S1), fun x y => ?_⟩
  rw [C09P.part_same_iff (C09P.SccSpec.toPart S1), C09P.part_same_iff (C09P.SccSpec.toPart S2)]
  have e1 : φ x ∈ v2.g.nodes ↔ x ∈ v1.g.nodes := (hn (φ x)).trans (mem_relabel_nodes v1.g hφ)
  have e2 : SC v2.g (φ x) (φ y) ↔ SC v1.g x y := (sc_congr hg).trans (sc_relabel_iff hφ v1.g)
  rw [e1, e2]

theorem C07_kosaraju_encoding_independent
    (v1 v2 : View) (hv1 : C09P.ViewOk v1) (hv2 : C09P.ViewOk v2)
    (hp1 : ∀ a b, b ∈ v1.pred a ↔ v1.g.Adj b a) (hp2 : ∀ a b, b ∈ v2.pred a ↔ v2.g.Adj b a)
    (hwf1 : v1.g.WellFormed) (hwf2 : v2.g.WellFormed)
    (hn : SameNodes v1.g v2.g) (hg : SameAdj v1.g v2.g)
    (comps1 comps2 : List (List Nat)) (h1 : kosaraju v1 = some comps1) (h2 : kosaraju v2 = some comps2) :
    SccSpec v2.g comps1 ∧
    ∀ x y, (∃ c ∈ comps1, x ∈ c ∧ y ∈ c) ↔ (∃ c ∈ comps2, x ∈ c ∧ y ∈ c) := by
  have S1 := C09T.C09_kosaraju v1 hv1 hp1 hwf1 comps1 h1
  have S2 := C09T.C09_kosaraju v2 hv2 hp2 hwf2 comps2 h2
  refine ⟨sccSpec_congr hn hg S1, fun x y => ?_⟩
  rw [C09P.part_same_iff (C09P.SccSpec.toPart S1), C09P.part_same_iff (C09P.SccSpec.toPart S2),
    hn x, sc_congr hg]

/-- `toposort` answers `Ok` exactly on acyclic graphs -/
theorem toposort_ok_iff (v : View) (hv : C09P.ViewOk v) (hp : ∀ a b, b ∈ v.pred a ↔ v.g.Adj b a)
    (hwf : v.g.WellFormed) (r : TopoRes) (h : toposort v = some r) : (∃ o, r = .ok o) ↔ ¬ CyclicD v.g := by
  have T := C09T.C09_toposort v hv hp hwf r h
  cases r with
  | ok o => exact ⟨fun _ => T.2, fun _ => ⟨o, rfl⟩⟩
  | cycle x => exact ⟨fun ⟨o, ho⟩ => (by cases ho), fun hn => absurd T.2 hn⟩

/-- **toposort respects isomorphism**: both runs accept (`Ok`) or both reject (`Err(Cycle)`), and an
accepted order of the first run, renamed, is a topological order of the second graph (as is the
second run's own order — topological orders are not unique). -/
theorem C07_toposort_respects_iso (φ : Nat → Nat) (hφ : ∀ x y, φ x = φ y → x = y)
    (v1 v2 : View) (hv1 : C09P.ViewOk v1) (hv2 : C09P.ViewOk v2)
    (hp1 : ∀ a b, b ∈ v1.pred a ↔ v1.g.Adj b a) (hp2 : ∀ a b, b ∈ v2.pred a ↔ v2.g.Adj b a)
    (hwf1 : v1.g.WellFormed) (hwf2 : v2.g.WellFormed)
    (hn : SameNodes v2.g (relabel φ v1.g)) (hg : SameAdj v2.g (relabel φ v1.g))
    (r1 r2 : TopoRes) (h1 : toposort v1 = some r1) (h2 : toposort v2 = some r2) :
    ((∃ o, r1 = .ok o) ↔ (∃ o, r2 = .ok o)) ∧
    (∀ o, r1 = .ok o → TopoOrder v2.g (o.map φ)) ∧
    (∀ x, r1 = .cycle x → Reach1 v2.g (φ x) (φ x)) := by
  refine ⟨?_, ?_, ?_⟩
  · rw [toposort_ok_iff v1 hv1 hp1 hwf1 r1 h1, toposort_ok_iff v2 hv2 hp2 hwf2 r2 h2]
    exact not_congr ((cyclicD_congr hg).trans (cyclicD_relabel_iff hφ v1.g)).symm
  · intro o ho
    subst ho
    exact topoOrder_congr hn.symm hg.symm (topoOrder_relabel hφ (C09T.C09_toposort_ok v1 hv1 hp1 hwf1 o h1).1)
  · intro x hx
    subst hx
    exact (reach1_congr hg).mpr (reach1_relabel φ v1.g (C09T.C09_toposort_cycle v1 hv1 hp1 hwf1 x h1).1)

theorem C07_toposort_encoding_independent
    (v1 v2 : View) (hv1 : C09P.ViewOk v1) (hv2 : C09P.ViewOk v2)
    (hp1 : ∀ a b, b ∈ v1.pred a ↔ v1.g.Adj b a) (hp2 : ∀ a b, b ∈ v2.pred a ↔ v2.g.Adj b a)
    (hwf1 : v1.g.WellFormed) (hwf2 : v2.g.WellFormed)
    (hn : SameNodes v1.g v2.g) (hg : SameAdj v1.g v2.g)
    (r1 r2 : TopoRes) (h1 : toposort v1 = some r1) (h2 : toposort v2 = some r2) :
    ((∃ o, r1 = .ok o) ↔ (∃ o, r2 = .ok o)) ∧ (∀ o, r1 = .ok o → TopoOrder v2.g o) := by
  refine ⟨?_, ?_⟩
  · rw [toposort_ok_iff v1 hv1 hp1 hwf1 r1 h1, toposort_ok_iff v2 hv2 hp2 hwf2 r2 h2, cyclicD_congr hg]
  · intro o ho
    subst ho
    exact topoOrder_congr hn hg (C09T.C09_toposort_ok v1 hv1 hp1 hwf1 o h1).1

/-- **is_cyclic_directed respects isomorphism** -/
theorem C07_cyclic_directed_respects_iso (φ : Nat → Nat) (hφ : ∀ x y, φ x = φ y → x = y)
    (v1 v2 : View) (hv1 : C09P.ViewOk v1) (hv2 : C09P.ViewOk v2)
    (hwf1 : v1.g.WellFormed) (hwf2 : v2.g.WellFormed) (hg : SameAdj v2.g (relabel φ v1.g))
    (b1 b2 : Bool) (h1 : cyclicDirected v1 = some b1) (h2 : cyclicDirected v2 = some b2) : b1 = b2 := by
  have C1 := C09T.C09_cyclic_directed v1 hv1 b1 h1
  have C2 := C09T.C09_cyclic_directed v2 hv2 b2 h2
  have e : CyclicD v2.g ↔ CyclicD v1.g := (cyclicD_congr hg).trans (cyclicD_relabel_iff hφ v1.g)
  have i1 : b1 = true ↔ CyclicD v1.g :=
    ⟨C1.1, fun hc => by cases hb : b1 with | true => rfl | false => exact absurd hc (C1.2 hb hwf1)⟩
  have i2 : b2 = true ↔ CyclicD v2.g :=
    ⟨C2.1, fun hc => by cases hb : b2 with | true => rfl | false => exact absurd hc (C2.2 hb hwf2)⟩
  exact bool_eq_of_iff i1 (i2.trans e)

theorem C07_cyclic_directed_encoding_independent
    (v1 v2 : View) (hv1 : C09P.ViewOk v1) (hv2 : C09P.ViewOk v2)
    (hwf1 : v1.g.WellFormed) (hwf2 : v2.g.WellFormed) (hg : SameAdj v1.g v2.g)
    (b1 b2 : Bool) (h1 : cyclicDirected v1 = some b1) (h2 : cyclicDirected v2 = some b2) : b1 = b2 := by
  have C1 := C09T.C09_cyclic_directed v1 hv1 b1 h1
  have C2 := C09T.C09_cyclic_directed v2 hv2 b2 h2
  have i1 : b1 = true ↔ CyclicD v1.g :=
    ⟨C1.1, fun hc => by cases hb : b1 with | true => rfl | false => exact absurd hc (C1.2 hb hwf1)⟩
  have i2 : b2 = true ↔ CyclicD v2.g :=
    ⟨C2.1, fun hc => by cases hb : b2 with | true => rfl | false => exact absurd hc (C2.2 hb hwf2)⟩
  exact bool_eq_of_iff i1 (i2.trans (cyclicD_congr hg).symm)

/-- **is_bipartite_undirected respects isomorphism** -/
theorem C07_bipartite_respects_iso (φ : Nat → Nat) (hφ : ∀ x y, φ x = φ y → x = y)
    (v1 v2 : View) (hv1 : C09P.ViewOk v1) (hv2 : C09P.ViewOk v2) (hg : SameAdj v2.g (relabel φ v1.g))
    (s : Nat) (b1 b2 : Bool) (h1 : bipartite v1 s = .answer b1) (h2 : bipartite v2 (φ s) = .answer b2) :
    b1 = b2 :=
  bool_eq_of_iff ((C09T.C09_bipartite v1 hv1 s).1 b1 h1)
    (((C09T.C09_bipartite v2 hv2 (φ s)).1 b2 h2).trans ((twoCol_congr hg (φ s)).trans (twoCol_relabel_iff hφ v1.g s)))

/-- **connected_components computes the number of weakly connected components of the abstract graph
through ANY compact index assignment**: if the graph the function sees through `to_index` and
`edge_references()` (`pairGraph nb pairs`: nodes `0..node_bound`, one undirected edge per reported
pair) is the abstract graph `g` renamed by an injective `ix` — same node set, same adjacency with
direction ignored — the answer is the WCC count of `g`.  (`SameNodes` forces `0..node_bound` to be
exactly the image of the nodes: no vacant index; with vacancies the real function counts every vacant
index as a component.) -/
theorem C07_connected_components_respects_iso (g : MGraph) (ix : Nat → Nat) (hix : ∀ x y, ix x = ix y → x = y)
    (nb : Nat) (pairs : List (Nat × Nat)) (hin : ∀ p ∈ pairs, p.1 < nb ∧ p.2 < nb)
    (hn : SameNodes (C09P.pairGraph nb pairs) (relabel ix g))
    (ha : SameAdj (C09P.pairGraph nb pairs) (relabel ix g).undirect)
    (k : Nat) (h : connectedComponents nb pairs = some k) : IsWccCount g k := by
  have K := C09T.C09_connected_components nb pairs k hin h
  have K2 : IsWccCount (relabel ix g).undirect k := isWccCount_congr (g2 := (relabel ix g).undirect) hn ha K
  exact isWccCount_relabel_inv hix (show IsWccCount (relabel ix g) k from K2)

/-- consequently two compact encodings (any two index assignments, any order and orientation of the
reported pairs) of the same abstract graph get the same count -/
theorem C07_connected_components_encoding_independent (g : MGraph)
    (ix1 ix2 : Nat → Nat) (hix1 : ∀ x y, ix1 x = ix1 y → x = y) (hix2 : ∀ x y, ix2 x = ix2 y → x = y)
    (nb1 nb2 : Nat) (pairs1 pairs2 : List (Nat × Nat))
    (hin1 : ∀ p ∈ pairs1, p.1 < nb1 ∧ p.2 < nb1) (hin2 : ∀ p ∈ pairs2, p.1 < nb2 ∧ p.2 < nb2)
    (hn1 : SameNodes (C09P.pairGraph nb1 pairs1) (relabel ix1 g))
    (ha1 : SameAdj (C09P.pairGraph nb1 pairs1) (relabel ix1 g).undirect)
    (hn2 : SameNodes (C09P.pairGraph nb2 pairs2) (relabel ix2 g))
    (ha2 : SameAdj (C09P.pairGraph nb2 pairs2) (relabel ix2 g).undirect)
    (k1 k2 : Nat) (h1 : connectedComponents nb1 pairs1 = some k1) (h2 : connectedComponents nb2 pairs2 = some k2) :
    k1 = k2 :=
  C09T.C09_wcc_count_unique g k1 k2
    (C07_connected_components_respects_iso g ix1 hix1 nb1 pairs1 hin1 hn1 ha1 k1 h1)
    (C07_connected_components_respects_iso g ix2 hix2 nb2 pairs2 hin2 hn2 ha2 k2 h2)

/-- **is_cyclic_undirected respects isomorphism, index width, vacancies and insertion order**: if the
pairs the second encoding reports are a rearrangement of the first encoding's pairs renamed by an
injective `φ` (the two `node_bound`s are unrelated), the answers coincide. -/
theorem C07_cyclic_undirected_respects_iso (φ : Nat → Nat) (hφ : ∀ x y, φ x = φ y → x = y)
    (nb1 nb2 : Nat) (pairs1 pairs2 : List (Nat × Nat))
    (hin1 : ∀ p ∈ pairs1, p.1 < nb1 ∧ p.2 < nb1) (hin2 : ∀ p ∈ pairs2, p.1 < nb2 ∧ p.2 < nb2)
    (hp : pairs2.Perm (pairs1.map fun p => (φ p.1, φ p.2))) (b1 b2 : Bool)
    (h1 : cyclicUndirected nb1 pairs1 (UF.new 0 nb1) = some b1)
    (h2 : cyclicUndirected nb2 pairs2 (UF.new 0 nb2) = some b2) : b1 = b2 := by
  have C1 := C09T.C09_cyclic_undirected nb1 pairs1 b1 hin1 h1
  have C2 := C09T.C09_cyclic_undirected nb2 pairs2 b2 hin2 h2
  have hperm : (C09P.pairGraph nb2 pairs2).edges.Perm (relabel φ (C09P.pairGraph nb1 pairs1)).edges := by
    have := hp.map fun p : Nat × Nat => (⟨0, p.1, p.2, 0⟩ : Edge)
    simpa [C09P.pairGraph, relabel, List.map_map, Function.comp_def] using this
  exact bool_eq_of_iff C1 (C2.trans ((cyclicU_perm_iff hperm).trans (cyclicU_relabel_iff hφ _)))

end C09

/-! ## C12 — min_spanning_tree (Kruskal), min_spanning_tree_prim -/
section C12
open PetgraphModel.MST PetgraphModel.MstModel PetgraphModel.C07W2

/-- **`MinSpanningForest` is carried along by an injective relabeling**, together with its weight -/
theorem C07_min_spanning_forest_relabel (φ : Nat → Nat) (hφ : ∀ x y, φ x = φ y → x = y) (E M : List Edge)
    (h : MinSpanningForest E M) :
    MinSpanningForest (E.map (rl φ)) (M.map (rl φ)) ∧ weight (M.map (rl φ)) = weight M :=
  ⟨minSpanningForest_map_rl hφ h, weight_map_rl φ M⟩

/-- all minimum spanning forests of the same edges weigh the same -/
theorem C07_min_spanning_forest_weight_unique (E M M' : List Edge) (h : MinSpanningForest E M)
    (h' : MinSpanningForest E M') : weight M = weight M' :=
  minSpanningForest_weight_unique h h'

/-- **bottleneck forests are unique up to weight, across presentations and relabelings**: if `E2` has
the same undirected weighted edges as `E1` renamed by an injective `φ` (ids, orientation, order,
multiplicity free), an acyclic `M1 ⊆ E1` realising every bottleneck connection of `E1` and an
acyclic `M2 ⊆ E2` doing so for `E2` have the same number of edges and the same weight. -/
theorem C07_light_forest_relabel (φ : Nat → Nat) (hφ : ∀ x y, φ x = φ y → x = y) (E1 E2 M1 M2 : List Edge)
    (hE : SameUEdges E2 (E1.map (rl φ)))
    (hac1 : Acyclic M1) (hl1 : Light E1 M1) (hf1 : FromE E1 M1)
    (hac2 : Acyclic M2) (hl2 : Light E2 M2) (hf2 : FromE E2 M2) :
    M1.length = M2.length ∧ weight M1 = weight M2 :=
  light_forests_iso hφ hE hac1 hl1 hf1 hac2 hl2 hf2

theorem res_ok_inj {n1 n2 : List Nat} {e1 e2 : List EdgeEl} (h : Res.ok n1 e1 = Res.ok n2 e2) :
    n1 = n2 ∧ e1 = e2 := by
  cases h; exact ⟨rfl, rfl⟩

/-- **min_spanning_tree respects isomorphism**: if the second graph's edges are, as undirected
weighted edges, the first graph's renamed by an injective `φ` (any ids, stored orientation, insertion
order; `er1`/`er2` any `edge_references` orders, even with repetitions as in `Csr<Undirected>`; any
two index assignments), the two emitted forests have the same number of edges and the same total
weight.  (Which of several minimum spanning forests is emitted depends on the heap's tie order.) -/
theorem C07_kruskal_respects_iso (φ : Nat → Nat) (hφ : ∀ x y, φ x = φ y → x = y)
    (v1 v2 : View) (hv1 : KView v1) (hv2 : KView v2) (hwf1 : v1.g.WellFormed) (hwf2 : v2.g.WellFormed)
    (er1 er2 : List (Nat × Nat × Nat)) (her1 : ErOk v1 er1) (her2 : ErOk v2 er2)
    (hE : SameUEdges v2.g.edges (relabel φ v1.g).edges)
    (ns1 ns2 : List Nat) (es1 es2 : List EdgeEl)
    (r1 : kruskal v1 er1 = .ok ns1 es1) (r2 : kruskal v2 er2 = .ok ns2 es2) :
    es1.length = es2.length ∧ (es1.map (·.w)).sum = (es2.map (·.w)).sum := by
  obtain ⟨A1, run1, ac1, l1, f1⟩ := kruskal_light v1 hv1 hwf1 er1 her1
  obtain ⟨A2, run2, ac2, l2, f2⟩ := kruskal_light v2 hv2 hwf2 er2 her2
  obtain ⟨-, rfl⟩ := res_ok_inj (run1.symm.trans r1)
  obtain ⟨-, rfl⟩ := res_ok_inj (run2.symm.trans r2)
  have := light_forests_iso hφ (E1 := v1.g.edges) (E2 := v2.g.edges) hE ac1 l1 f1 ac2 l2 f2
  rw [weight_items_eq v1.g.nodes, weight_items_eq v2.g.nodes] at this
  simpa using this

/-- **min_spanning_tree, encoding independence** -/
theorem C07_kruskal_encoding_independent
    (v1 v2 : View) (hv1 : KView v1) (hv2 : KView v2) (hwf1 : v1.g.WellFormed) (hwf2 : v2.g.WellFormed)
    (er1 er2 : List (Nat × Nat × Nat)) (her1 : ErOk v1 er1) (her2 : ErOk v2 er2)
    (hE : SameUEdges v1.g.edges v2.g.edges)
    (ns1 ns2 : List Nat) (es1 es2 : List EdgeEl)
    (r1 : kruskal v1 er1 = .ok ns1 es1) (r2 : kruskal v2 er2 = .ok ns2 es2) :
    es1.length = es2.length ∧ (es1.map (·.w)).sum = (es2.map (·.w)).sum := by
  obtain ⟨A1, run1, ac1, l1, f1⟩ := kruskal_light v1 hv1 hwf1 er1 her1
  obtain ⟨A2, run2, ac2, l2, f2⟩ := kruskal_light v2 hv2 hwf2 er2 her2
  obtain ⟨-, rfl⟩ := res_ok_inj (run1.symm.trans r1)
  obtain ⟨-, rfl⟩ := res_ok_inj (run2.symm.trans r2)
  have := light_forests_unique (E := v2.g.edges) ac1 ac2 (Light.congr hE l1) (FromE.congr hE f1) l2 f2
  rw [weight_items_eq v1.g.nodes, weight_items_eq v2.g.nodes] at this
  simpa using this

/-- **min_spanning_tree_prim respects isomorphism**: undirected graphs (`PView`), the first node of the
second view is the image of the first node of the first: the two emitted trees (spanning trees of the
first node's component) have the same number of edges and the same total weight. -/
theorem C07_prim_respects_iso (φ : Nat → Nat) (hφ : ∀ x y, φ x = φ y → x = y)
    (v1 v2 : View) (hv1 : PView v1) (hv2 : PView v2)
    (hE : SameUEdges v2.g.edges (relabel φ v1.g).edges)
    (s : Nat) (rest1 rest2 : List Nat) (hV1 : v1.g.nodes = s :: rest1) (hV2 : v2.g.nodes = φ s :: rest2)
    (ns1 ns2 : List Nat) (es1 es2 : List EdgeEl)
    (r1 : prim v1 = .ok ns1 es1) (r2 : prim v2 = .ok ns2 es2) :
    es1.length = es2.length ∧ (es1.map (·.w)).sum = (es2.map (·.w)).sum := by
  obtain ⟨A1, run1, ac1, h1⟩ := prim_light v1 hv1 s rest1 hV1
  obtain ⟨A2, run2, ac2, h2⟩ := prim_light v2 hv2 (φ s) rest2 hV2
  obtain ⟨-, rfl⟩ := res_ok_inj (run1.symm.trans r1)
  obtain ⟨-, rfl⟩ := res_ok_inj (run2.symm.trans r2)
  obtain ⟨_, _, T1⟩ := (C12T.C12_prim_model_correct v1 hv1).2 s rest1 hV1
  obtain ⟨_, _, T2⟩ := (C12T.C12_prim_model_correct v2 hv2).2 (φ s) rest2 hV2
  obtain ⟨comp1, _, hc1, _⟩ := T1.count
  obtain ⟨comp2, _, hc2, _⟩ := T2.count
  obtain ⟨l1, f1⟩ := h1 comp1 hc1
  obtain ⟨l2, f2⟩ := h2 comp2 hc2
  have hW := sameUEdges_within hφ (E1 := v1.g.edges) (E2 := v2.g.edges) hE hc1 hc2
  have := light_forests_iso hφ hW ac1 l1 f1 ac2 l2 f2
  rw [weight_items_eq v1.g.nodes, weight_items_eq v2.g.nodes] at this
  simpa using this

/-- **min_spanning_tree_prim, encoding independence** (same first node) -/
theorem C07_prim_encoding_independent
    (v1 v2 : View) (hv1 : PView v1) (hv2 : PView v2) (hE : SameUEdges v1.g.edges v2.g.edges)
    (s : Nat) (rest1 rest2 : List Nat) (hV1 : v1.g.nodes = s :: rest1) (hV2 : v2.g.nodes = s :: rest2)
    (ns1 ns2 : List Nat) (es1 es2 : List EdgeEl)
    (r1 : prim v1 = .ok ns1 es1) (r2 : prim v2 = .ok ns2 es2) :
    es1.length = es2.length ∧ (es1.map (·.w)).sum = (es2.map (·.w)).sum := by
  have hE' : SameUEdges v2.g.edges (relabel id v1.g).edges := by
    show SameUEdges v2.g.edges (v1.g.edges.map (rl id))
    rw [map_rl_id]; exact hE.symm
  exact C07_prim_respects_iso id (fun _ _ h => h) v1 v2 hv1 hv2 hE' s rest1 rest2 hV1 hV2 ns1 ns2 es1 es2 r1 r2

/-- Prim's tree weighs the same as ANY bottleneck forest of the edges inside the first node's
component (on every undirected view) — so its weight is a function of the abstract graph and the
first node alone. -/
theorem C07_prim_weight_is_component_msf_weight (v : View) (hv : PView v) (s : Nat) (rest : List Nat)
    (hV : v.g.nodes = s :: rest) (ns : List Nat) (es : List EdgeEl) (r : prim v = .ok ns es)
    (comp : List Nat) (hcomp : ∀ x, x ∈ comp ↔ Conn v.g.edges s x) (M : List Edge)
    (hac : Acyclic M) (hl : Light (edgesWithin comp v.g.edges) M) (hf : FromE (edgesWithin comp v.g.edges) M) :
    es.length = M.length ∧ (es.map (·.w)).sum = weight M := by
  obtain ⟨A, run, ac, h⟩ := prim_light v hv s rest hV
  obtain ⟨-, rfl⟩ := res_ok_inj (run.symm.trans r)
  obtain ⟨l, f⟩ := h comp hcomp
  have := light_forests_unique ac hac l f hl hf
  rw [weight_items_eq v.g.nodes] at this
  simpa using this

end C12

/-! ## C15 — ford_fulkerson -/
section C15
open PetgraphModel.C15 PetgraphModel.C15P PetgraphModel.C07W2

theorem C07_cut_capacity_relabel (φ : Nat → Nat) (hφ : ∀ x y, φ x = φ y → x = y) (g : MGraph) (S : List Nat) :
    cutCap (relabel φ g) (S.map φ) = cutCap g S :=
  cutCap_relabel_map hφ g S

/-- the capacity of a cut depends only on the multiset of `(src, tgt, capacity)` triples: edge ids and
insertion order are irrelevant -/
theorem C07_cut_capacity_presentation (g1 g2 : MGraph) (h : SameCaps g1 g2) (S : List Nat) :
    cutCap g1 S = cutCap g2 S :=
  cutCap_congr h S

theorem C07_min_cut_value_relabel (φ : Nat → Nat) (hφ : ∀ x y, φ x = φ y → x = y) (g : MGraph) (s t : Nat) (c : Int) :
    IsMinCutValue (relabel φ g) (φ s) (φ t) c ↔ IsMinCutValue g s t c :=
  isMinCutValue_relabel_iff hφ g s t c

theorem C07_max_flow_value_relabel (φ : Nat → Nat) (hφ : ∀ x y, φ x = φ y → x = y) (g : MGraph) (s t : Nat) (c : Int) :
    IsMaxFlowValue (relabel φ g) (φ s) (φ t) c ↔ IsMaxFlowValue g s t c :=
  isMaxFlowValue_relabel_iff hφ g s t c

theorem C07_feasible_flow_relabel (φ : Nat → Nat) (hφ : ∀ x y, φ x = φ y → x = y) (g : MGraph) (s t : Nat)
    (f : Nat → Int) :
    (Feasible (relabel φ g) (φ s) (φ t) f ↔ Feasible g s t f) ∧ excess (relabel φ g) f (φ s) = excess g f s :=
  ⟨feasible_relabel_iff hφ g s t f, excess_relabel hφ g f s⟩

/-- the value the `ford_fulkerson` model returns is the min-cut value and the max-flow value of the
abstract graph (restating `C15_flow_feasible` / `C15_flow_max` with the two specification notions) -/
theorem ford_fulkerson_value (v : View) (hv : FlowView v) (hwf : v.g.WellFormed)
    (hw : ∀ e ∈ v.g.edges, 0 ≤ e.w) (s t : Nat) (hne : s ≠ t) :
    IsMinCutValue v.g s t (C15F.fordFulkerson v s t).maxFlow ∧
    IsMaxFlowValue v.g s t (C15F.fordFulkerson v s t).maxFlow := by
  obtain ⟨⟨S, _, hS, hc⟩, hmin, hmax⟩ := C15T.C15_flow_max v hv hwf hw s t hne
  obtain ⟨_, hfeas, hval⟩ := C15T.C15_flow_feasible v hv hwf hw s t hne
  exact ⟨⟨⟨S, hS, hc⟩, hmin⟩, ⟨⟨_, hfeas, hval.symm⟩, hmax⟩⟩

/-- **ford_fulkerson respects isomorphism**: if the second network has the same multiset of capacitated
arcs as the first renamed by an injective `φ` (any edge ids, any insertion order, any index
assignment, any row order of the views), the returned maximum-flow values coincide.  (The flow
tables themselves need not correspond: maximum flows are not unique; each is feasible and maximum by
`C15_flow_feasible` / `C15_flow_max`.) -/
theorem C07_ford_fulkerson_respects_iso (φ : Nat → Nat) (hφ : ∀ x y, φ x = φ y → x = y)
    (v1 v2 : View) (hv1 : FlowView v1) (hv2 : FlowView v2) (hwf1 : v1.g.WellFormed) (hwf2 : v2.g.WellFormed)
    (hw1 : ∀ e ∈ v1.g.edges, 0 ≤ e.w) (hw2 : ∀ e ∈ v2.g.edges, 0 ≤ e.w)
    (hg : SameCaps v2.g (relabel φ v1.g)) (s t : Nat) (hne : s ≠ t) :
    (C15F.fordFulkerson v2 (φ s) (φ t)).maxFlow = (C15F.fordFulkerson v1 s t).maxFlow := by
  have V1 := (ford_fulkerson_value v1 hv1 hwf1 hw1 s t hne).1
  have V2 := (ford_fulkerson_value v2 hv2 hwf2 hw2 (φ s) (φ t) (fun h => hne (hφ _ _ h))).1
  exact isMinCutValue_unique ((isMinCutValue_relabel_iff hφ v1.g s t _).mp ((isMinCutValue_congr hg).mp V2)) V1

/-- **ford_fulkerson, encoding independence** -/
theorem C07_ford_fulkerson_encoding_independent
    (v1 v2 : View) (hv1 : FlowView v1) (hv2 : FlowView v2) (hwf1 : v1.g.WellFormed) (hwf2 : v2.g.WellFormed)
    (hw1 : ∀ e ∈ v1.g.edges, 0 ≤ e.w) (hw2 : ∀ e ∈ v2.g.edges, 0 ≤ e.w)
    (hg : SameCaps v1.g v2.g) (s t : Nat) (hne : s ≠ t) :
    (C15F.fordFulkerson v1 s t).maxFlow = (C15F.fordFulkerson v2 s t).maxFlow := by
  have V1 := (ford_fulkerson_value v1 hv1 hwf1 hw1 s t hne).1
  have V2 := (ford_fulkerson_value v2 hv2 hwf2 hw2 s t hne).1
  exact isMinCutValue_unique ((isMinCutValue_congr hg).mp V1) V2

/-- the size of a maximum matching is carried along by relabeling: matchings correspond -/
theorem C07_matching_relabel (φ : Nat → Nat) (hφ : ∀ x y, φ x = φ y → x = y) (g : MGraph) (M : List (Nat × Nat))
    (h : IsMatching g M) : IsMatching (relabel φ g) (M.map fun p => (φ p.1, φ p.2)) := by
  obtain ⟨h1, h2⟩ := h
  refine ⟨?_, ?_⟩
  · intro p' hp'
    obtain ⟨p, hp, rfl⟩ := List.mem_map.mp hp'
    obtain ⟨hne, e, he, hor⟩ := h1 p hp
    refine ⟨fun h => hne (hφ _ _ h), { e with src := φ e.src, tgt := φ e.tgt },
      (mem_relabel_edges φ g).mpr ⟨e, he, rfl⟩, ?_⟩
    rcases hor with ⟨a, b⟩ | ⟨a, b⟩
    · exact Or.inl ⟨by simp [a], by simp [b]⟩
    · exact Or.inr ⟨by simp [a], by simp [b]⟩
  · refine List.pairwise_map.mpr (h2.imp ?_)
    intro p q ⟨a, b, c, d⟩
    exact ⟨fun h => a (hφ _ _ h), fun h => b (hφ _ _ h), fun h => c (hφ _ _ h), fun h => d (hφ _ _ h)⟩

end C15

/-! ## C16 — dominators (simple_fast), articulation_points -/
section C16
open PetgraphModel.C16S PetgraphModel.C16M PetgraphModel.C16P PetgraphModel.C07W2

theorem C07_dominates_relabel (φ : Nat → Nat) (hφ : ∀ x y, φ x = φ y → x = y) (g : MGraph) (r a b : Nat) :
    (Dominates (relabel φ g) (φ r) (φ a) (φ b) ↔ Dominates g r a b) ∧
    (StrictlyDominates (relabel φ g) (φ r) (φ a) (φ b) ↔ StrictlyDominates g r a b) ∧
    (IsIdom (relabel φ g) (φ r) (φ a) (φ b) ↔ IsIdom g r a b) :=
  ⟨dominates_relabel_iff hφ g r a b, strictlyDominates_relabel_iff hφ g r a b, isIdom_relabel_iff hφ g r a b⟩

/-- dominance depends only on the adjacency relation -/
theorem C07_dominates_presentation (g1 g2 : MGraph) (h : SameAdj g1 g2) (r a b : Nat) :
    (Dominates g1 r a b ↔ Dominates g2 r a b) ∧ (IsIdom g1 r a b ↔ IsIdom g2 r a b) :=
  ⟨dominates_congr h, isIdom_congr h⟩

theorem C07_cut_vertex_relabel (φ : Nat → Nat) (hφ : ∀ x y, φ x = φ y → x = y) (g : MGraph) (x : Nat) :
    (CutVertex (relabel φ g) (φ x) ↔ CutVertex g x) ∧ numComponents (relabel φ g) = numComponents g :=
  ⟨cutVertex_relabel_iff hφ g x, numComponents_relabel hφ g⟩

/-- on undirected graphs with distinct nodes, being a cut vertex depends only on the node set and the
adjacency relation (not on the order of the node list the components are counted along) -/
theorem C07_cut_vertex_presentation (g1 g2 : MGraph) (hu1 : g1.directed = false) (hu2 : g2.directed = false)
    (hn1 : g1.nodes.Nodup) (hn2 : g2.nodes.Nodup) (hn : SameNodes g1 g2) (h : SameAdj g1 g2) (x : Nat) :
    CutVertex g1 x ↔ CutVertex g2 x :=
  cutVertex_congr hu1 hu2 hn1 hn2 hn h x

/-- **dominators::simple_fast respects isomorphism**: both runs succeed, and on the two results
`immediate_dominator` commutes with `φ`, `dominators(b)` is `None` on one side iff `dominators(φ b)` is
on the other, the dominator lists correspond (as sets, both duplicate-free), and
`immediately_dominated_by` corresponds. -/
theorem C07_simple_fast_respects_iso (φ : Nat → Nat) (hφ : ∀ x y, φ x = φ y → x = y)
    (v1 v2 : View) (hv1 : C16P.ViewOk v1) (hv2 : C16P.ViewOk v2)
    (hb1 : ∀ a, a ∈ v1.g.nodes → (v1.succ a).length ≤ (v1.g.succ a).length)
    (hb2 : ∀ a, a ∈ v2.g.nodes → (v2.succ a).length ≤ (v2.g.succ a).length)
    (root : Nat) (hr1 : root ∈ v1.g.nodes) (hr2 : φ root ∈ v2.g.nodes)
    (hwf1 : v1.g.WellFormed) (hwf2 : v2.g.WellFormed) (hg : SameAdj v2.g (relabel φ v1.g)) :
    ∃ d1 d2, simpleFast v1 root = .ok d1 ∧ simpleFast v2 (φ root) = .ok d2 ∧
      (∀ b, d2.immediateDominator (φ b) = (d1.immediateDominator b).map φ) ∧
      (∀ b, d2.dominators (φ b) = none ↔ d1.dominators b = none) ∧
      (∀ b l1 l2, d1.dominators b = some l1 → d2.dominators (φ b) = some l2 → l2.Perm (l1.map φ)) ∧
      (∀ n m, φ m ∈ d2.immediatelyDominatedBy (φ n) ↔ m ∈ d1.immediatelyDominatedBy n) := by
  obtain ⟨d1, e1, _, n1, s1⟩ := C16T.C16_simple_fast v1 root hv1 hb1 hr1 hwf1
  obtain ⟨d2, e2, _, n2, s2⟩ := C16T.C16_simple_fast v2 (φ root) hv2 hb2 hr2 hwf2
  obtain ⟨d1', e1', i1, _, _, _, b1⟩ := C16T.C16_simple_fast_accessors v1 root hv1 hb1 hr1 hwf1
  obtain ⟨d2', e2', i2, _, _, _, b2⟩ := C16T.C16_simple_fast_accessors v2 (φ root) hv2 hb2 hr2 hwf2
  have hd1 : d1' = d1 := by have := e1'.symm.trans e1; injection this
  have hd2 : d2' = d2 := by have := e2'.symm.trans e2; injection this
  subst hd1; subst hd2
  have idomT : ∀ y b, IsIdom v2.g (φ root) y (φ b) ↔ ∃ a, IsIdom v1.g root a b ∧ φ a = y := by
    intro y b
    rw [isIdom_congr hg]
    constructor
    · intro h
      obtain ⟨a, rfl⟩ := isIdom_is_image hφ v1.g h
      exact ⟨a, (isIdom_relabel_iff hφ v1.g root a b).mp h, rfl⟩
    · rintro ⟨a, h, rfl⟩
      exact (isIdom_relabel_iff hφ v1.g root a b).mpr h
  refine ⟨d1', d2', e1, e2, ?_, ?_, ?_, ?_⟩
  · intro b
    refine opt_eq_of_spec (P := fun y => IsIdom v2.g (φ root) y (φ b)) (fun y => i2 (φ b) y) ?_
    intro y
    rw [idomT, Option.map_eq_some_iff]
    exact ⟨fun ⟨a, h, e⟩ => ⟨a, (i1 b a).mp h, e⟩, fun ⟨a, h, e⟩ => ⟨a, (i1 b a).mpr h, e⟩⟩
  · intro b
    rw [n1, n2]
    exact not_congr ((C07W2.reach_congr hg).trans (reach_relabel_iff v1.g hφ))
  · intro b l1 l2 h1 h2
    obtain ⟨nd1, m1⟩ := s1 b l1 h1
    obtain ⟨nd2, m2⟩ := s2 (φ b) l2 h2
    have hreach : Reach v1.g root b := by
      have : ¬ d1'.dominators b = none := by rw [h1]; simp
      exact Classical.byContradiction fun hn => this ((n1 b).mpr hn)
    refine perm_of_nodup_mem nd2 (nodup_map_inj hφ nd1) ?_
    intro y
    rw [m2, dominates_congr hg, List.mem_map]
    constructor
    · intro h
      obtain ⟨a, rfl⟩ := dominator_is_image v1.g hreach h
      exact ⟨a, (m1 a).mpr ((dominates_relabel_iff hφ v1.g root a b).mp h), rfl⟩
    · rintro ⟨a, ha, rfl⟩
      exact (dominates_relabel_iff hφ v1.g root a b).mpr ((m1 a).mp ha)
  · intro n m
    rw [b1, b2, isIdom_congr hg]
    exact isIdom_relabel_iff hφ v1.g root n m

/-- **dominators::simple_fast, encoding independence**: the two results answer every query of
`immediate_dominator` identically, and their `dominators` lists are rearrangements of each other. -/
theorem C07_simple_fast_encoding_independent
    (v1 v2 : View) (hv1 : C16P.ViewOk v1) (hv2 : C16P.ViewOk v2)
    (hb1 : ∀ a, a ∈ v1.g.nodes → (v1.succ a).length ≤ (v1.g.succ a).length)
    (hb2 : ∀ a, a ∈ v2.g.nodes → (v2.succ a).length ≤ (v2.g.succ a).length)
    (root : Nat) (hr1 : root ∈ v1.g.nodes) (hr2 : root ∈ v2.g.nodes)
    (hwf1 : v1.g.WellFormed) (hwf2 : v2.g.WellFormed) (hg : SameAdj v1.g v2.g) :
    ∃ d1 d2, simpleFast v1 root = .ok d1 ∧ simpleFast v2 root = .ok d2 ∧
      (∀ b, d1.immediateDominator b = d2.immediateDominator b) ∧
      (∀ b, d1.dominators b = none ↔ d2.dominators b = none) ∧
      (∀ b l1 l2, d1.dominators b = some l1 → d2.dominators b = some l2 → l1.Perm l2) := by
  obtain ⟨d1, e1, _, n1, s1⟩ := C16T.C16_simple_fast v1 root hv1 hb1 hr1 hwf1
  obtain ⟨d2, e2, _, n2, s2⟩ := C16T.C16_simple_fast v2 root hv2 hb2 hr2 hwf2
  obtain ⟨d1', e1', i1, _⟩ := C16T.C16_simple_fast_accessors v1 root hv1 hb1 hr1 hwf1
  obtain ⟨d2', e2', i2, _⟩ := C16T.C16_simple_fast_accessors v2 root hv2 hb2 hr2 hwf2
  have hd1 : d1' = d1 := by have := e1'.symm.trans e1; injection this
  have hd2 : d2' = d2 := by have := e2'.symm.trans e2; injection this
  subst hd1; subst hd2
  refine ⟨d1', d2', e1, e2, ?_, ?_, ?_⟩
  · intro b
    exact opt_eq_of_spec (fun y => i1 b y) (fun y => (i2 b y).trans (isIdom_congr hg).symm)
  · intro b
    rw [n1, n2]
    exact not_congr (C07W2.reach_congr hg)
  · intro b l1 l2 h1 h2
    obtain ⟨nd1, m1⟩ := s1 b l1 h1
    obtain ⟨nd2, m2⟩ := s2 b l2 h2
    exact perm_of_nodup_mem nd1 nd2 fun y => ((m1 y).trans (dominates_congr hg)).trans (m2 y).symm

/-- **articulation_points respects isomorphism**: both runs succeed and the second answer is a
rearrangement of the first renamed by `φ`. -/
theorem C07_articulation_respects_iso (φ : Nat → Nat) (hφ : ∀ x y, φ x = φ y → x = y)
    (v1 v2 : View) (hv1 : C16P.ViewOk v1) (hv2 : C16P.ViewOk v2)
    (hb1 : ∀ a, a ∈ v1.g.nodes → (v1.succ a).length ≤ (v1.g.succ a).length)
    (hb2 : ∀ a, a ∈ v2.g.nodes → (v2.succ a).length ≤ (v2.g.succ a).length)
    (hu1 : v1.g.directed = false) (hu2 : v2.g.directed = false)
    (hwf1 : v1.g.WellFormed) (hwf2 : v2.g.WellFormed) (hi1 : IndexOk v1) (hi2 : IndexOk v2)
    (hn : SameNodes v2.g (relabel φ v1.g)) (hg : SameAdj v2.g (relabel φ v1.g)) :
    ∃ l1 l2, articulationPoints v1 = .ok l1 ∧ articulationPoints v2 = .ok l2 ∧ l2.Perm (l1.map φ) := by
  obtain ⟨l1, e1, nd1, m1⟩ := C16T.C16_articulation v1 hv1 hb1 hu1 hwf1 hi1
  obtain ⟨l2, e2, nd2, m2⟩ := C16T.C16_articulation v2 hv2 hb2 hu2 hwf2 hi2
  refine ⟨l1, l2, e1, e2, perm_of_nodup_mem nd2 (nodup_map_inj hφ nd1) ?_⟩
  intro y
  have hwfr := wellFormed_relabel v1.g hφ hwf1
  rw [m2, cutVertex_congr hu2 (show (relabel φ v1.g).directed = false from hu1) hwf2.1 hwfr.1 hn hg,
    List.mem_map]
  constructor
  · intro h
    obtain ⟨x, _, rfl⟩ := (mem_relabel_nodes_iff φ v1.g).mp h.1
    exact ⟨x, (m1 x).mpr ((cutVertex_relabel_iff hφ v1.g x).mp h), rfl⟩
  · rintro ⟨x, hx, rfl⟩
    exact (cutVertex_relabel_iff hφ v1.g x).mpr ((m1 x).mp hx)

/-- **articulation_points, encoding independence** -/
theorem C07_articulation_encoding_independent
    (v1 v2 : View) (hv1 : C16P.ViewOk v1) (hv2 : C16P.ViewOk v2)
    (hb1 : ∀ a, a ∈ v1.g.nodes → (v1.succ a).length ≤ (v1.g.succ a).length)
    (hb2 : ∀ a, a ∈ v2.g.nodes → (v2.succ a).length ≤ (v2.g.succ a).length)
    (hu1 : v1.g.directed = false) (hu2 : v2.g.directed = false)
    (hwf1 : v1.g.WellFormed) (hwf2 : v2.g.WellFormed) (hi1 : IndexOk v1) (hi2 : IndexOk v2)
    (hn : SameNodes v1.g v2.g) (hg : SameAdj v1.g v2.g) :
    ∃ l1 l2, articulationPoints v1 = .ok l1 ∧ articulationPoints v2 = .ok l2 ∧ l1.Perm l2 := by
  obtain ⟨l1, e1, nd1, m1⟩ := C16T.C16_articulation v1 hv1 hb1 hu1 hwf1 hi1
  obtain ⟨l2, e2, nd2, m2⟩ := C16T.C16_articulation v2 hv2 hb2 hu2 hwf2 hi2
  refine ⟨l1, l2, e1, e2, perm_of_nodup_mem nd1 nd2 fun y => ?_⟩
  rw [m1, m2]
  exact cutVertex_congr hu1 hu2 hwf1.1 hwf2.1 hn hg y

end C16

/-! ## C08 — traversals: Dfs / Bfs / DfsPostOrder / Topo under isomorphism -/
section C08
open PetgraphModel.C07W2

/-- **Dfs respects isomorphism**: `x` is emitted from `s` iff `φ x` is emitted from `φ s` on any view of
any presentation of the renamed graph. -/
theorem C07_dfs_respects_iso (φ : Nat → Nat) (hφ : ∀ x y, φ x = φ y → x = y)
    (v1 v2 : View) (h1 : ViewOk v1) (h2 : ViewOk v2) (hg : SameAdj v2.g (relabel φ v1.g))
    (s : Nat) (i1 o1 i2 o2 : Nat) (out1 out2 : List Nat) (d1 d2 : Dfs)
    (r1 : dfsAll v1 i1 o1 { stack := [s], disc := [] } [] = some (out1, d1))
    (r2 : dfsAll v2 i2 o2 { stack := [φ s], disc := [] } [] = some (out2, d2)) :
    (∀ x, φ x ∈ out2 ↔ x ∈ out1) ∧ ∀ y ∈ out2, ∃ x, y = φ x := by
  have a1 := (dfs_fresh v1 h1 s i1 o1 out1 d1 r1).2
  have a2 := (dfs_fresh v2 h2 (φ s) i2 o2 out2 d2 r2).2
  refine ⟨fun x => ?_, fun y hy => ?_⟩
  · rw [a1, a2]; exact (C07W2.reach_congr hg).trans (reach_relabel_iff v1.g hφ)
  · obtain ⟨x, hx, _⟩ := reach_relabel_inv v1.g hφ ((C07W2.reach_congr hg).mp ((a2 y).mp hy))
    exact ⟨x, hx⟩

theorem C07_bfs_respects_iso (φ : Nat → Nat) (hφ : ∀ x y, φ x = φ y → x = y)
    (v1 v2 : View) (h1 : ViewOk v1) (h2 : ViewOk v2) (hg : SameAdj v2.g (relabel φ v1.g))
    (s : Nat) (f1 f2 : Nat) (out1 out2 : List Nat)
    (r1 : bfsAll v1 f1 (Bfs.new s) [] = some out1) (r2 : bfsAll v2 f2 (Bfs.new (φ s)) [] = some out2) :
    (∀ x, φ x ∈ out2 ↔ x ∈ out1) ∧ ∀ y ∈ out2, ∃ x, y = φ x := by
  have a1 := (bfs_spec v1 h1 s f1 out1 r1).2.1
  have a2 := (bfs_spec v2 h2 (φ s) f2 out2 r2).2.1
  refine ⟨fun x => ?_, fun y hy => ?_⟩
  · rw [a1, a2]; exact (C07W2.reach_congr hg).trans (reach_relabel_iff v1.g hφ)
  · obtain ⟨x, hx, _⟩ := reach_relabel_inv v1.g hφ ((C07W2.reach_congr hg).mp ((a2 y).mp hy))
    exact ⟨x, hx⟩

theorem C07_postorder_respects_iso (φ : Nat → Nat) (hφ : ∀ x y, φ x = φ y → x = y)
    (v1 v2 : View) (h1 : ViewOk v1) (h2 : ViewOk v2) (hg : SameAdj v2.g (relabel φ v1.g))
    (s : Nat) (i1 o1 i2 o2 : Nat) (out1 out2 : List Nat) (d1 d2 : Post)
    (r1 : postAll v1 i1 o1 { stack := [s] } [] = some (out1, d1))
    (r2 : postAll v2 i2 o2 { stack := [φ s] } [] = some (out2, d2)) :
    (∀ x, φ x ∈ out2 ↔ x ∈ out1) ∧ ∀ y ∈ out2, ∃ x, y = φ x := by
  have a1 := (post_set v1 h1 s i1 o1 out1 d1 r1).2
  have a2 := (post_set v2 h2 (φ s) i2 o2 out2 d2 r2).2
  refine ⟨fun x => ?_, fun y hy => ?_⟩
  · rw [a1, a2]; exact (C07W2.reach_congr hg).trans (reach_relabel_iff v1.g hφ)
  · obtain ⟨x, hx, _⟩ := reach_relabel_inv v1.g hφ ((C07W2.reach_congr hg).mp ((a2 y).mp hy))
    exact ⟨x, hx⟩

/-- "neither on nor downstream of a cycle" is carried along by an injective relabeling -/
theorem C07_no_cycle_upstream_relabel (φ : Nat → Nat) (hφ : ∀ x y, φ x = φ y → x = y) (g : MGraph) (x : Nat) :
    (∀ c, Reach1 (relabel φ g) c c → ¬ Reach (relabel φ g) c (φ x)) ↔ (∀ c, Reach1 g c c → ¬ Reach g c x) :=
  noCycleUpstream_relabel_iff hφ g x

/-- **Topo respects isomorphism**: on well-formed views, a node `x` is emitted by the first run iff `φ x`
is emitted by the second (the emitted *set* — exactly the nodes neither on nor downstream of a cycle —
is a function of the abstract graph; the order is a topological order in both, `C08_topo_order`). -/
theorem C07_topo_respects_iso (φ : Nat → Nat) (hφ : ∀ x y, φ x = φ y → x = y)
    (v1 v2 : View) (hv1 : ViewOk v1) (hv2 : ViewOk v2) (hp1 : PredOk v1) (hp2 : PredOk v2)
    (hwf1 : v1.g.WellFormed) (hwf2 : v2.g.WellFormed)
    (hn : SameNodes v2.g (relabel φ v1.g)) (hg : SameAdj v2.g (relabel φ v1.g))
    (i1 o1 i2 o2 : Nat) (out1 out2 : List Nat)
    (r1 : topoAll v1 i1 o1 (Topo.new v1) [] = some out1) (r2 : topoAll v2 i2 o2 (Topo.new v2) [] = some out2)
    (x : Nat) (hx : x ∈ v1.g.nodes) : φ x ∈ out2 ↔ x ∈ out1 := by
  have hx2 : φ x ∈ v2.g.nodes := (hn (φ x)).mpr ((mem_relabel_nodes v1.g hφ).mpr hx)
  rw [C08T.C08_topo_exact v1 hv1 hp1 hwf1 i1 o1 out1 r1 x hx,
    C08T.C08_topo_exact v2 hv2 hp2 hwf2 i2 o2 out2 r2 (φ x) hx2]
  exact (noCycleUpstream_congr hg (φ x)).trans (noCycleUpstream_relabel_iff hφ v1.g x)

/-- **Topo, encoding independence** -/
theorem C07_topo_encoding_independent
    (v1 v2 : View) (hv1 : ViewOk v1) (hv2 : ViewOk v2) (hp1 : PredOk v1) (hp2 : PredOk v2)
    (hwf1 : v1.g.WellFormed) (hwf2 : v2.g.WellFormed) (hn : SameNodes v1.g v2.g) (hg : SameAdj v1.g v2.g)
    (i1 o1 i2 o2 : Nat) (out1 out2 : List Nat)
    (r1 : topoAll v1 i1 o1 (Topo.new v1) [] = some out1) (r2 : topoAll v2 i2 o2 (Topo.new v2) [] = some out2)
    (x : Nat) (hx : x ∈ v1.g.nodes) : x ∈ out1 ↔ x ∈ out2 := by
  rw [C08T.C08_topo_exact v1 hv1 hp1 hwf1 i1 o1 out1 r1 x hx,
    C08T.C08_topo_exact v2 hv2 hp2 hwf2 i2 o2 out2 r2 x ((hn x).mp hx)]
  exact noCycleUpstream_congr hg x

end C08

/-! ## C20 — page_rank, greedy_feedback_arc_set -/
section C20
open PetgraphModel.C20 PetgraphModel.C07W2

/-- **page_rank respects isomorphism** (re-export of `C20_pagerank_equivariant` for `C07T.relabel`): the
rank of `φ x` in the relabeled graph is the rank of `x`.  (Stated for the abstract graph the model is a
function of; through an encoding with vacant indices the real function is the recorded finding D12,
see `isKnownException`.) -/
theorem C07_pagerank_respects_iso (φ : Nat → Nat) (hφ : ∀ x y, φ x = φ y → x = y) (g : MGraph) (d : Rat) (k : Nat) :
    PR.pageRank (relabel φ g) d k = (PR.pageRank g d k).map (PR.relabelRanks φ) :=
  C20T.C20_pagerank_equivariant φ hφ g d k

/-- consequently every node keeps its rank -/
theorem C07_pagerank_rank_respects_iso (φ : Nat → Nat) (hφ : ∀ x y, φ x = φ y → x = y) (g : MGraph) (d : Rat)
    (k : Nat) (r : List (Nat × Rat)) (h : PR.pageRank g d k = some r) :
    ∃ r', PR.pageRank (relabel φ g) d k = some r' ∧ ∀ x, PR.rk r' (φ x) = PR.rk r x := by
  refine ⟨PR.relabelRanks φ r, ?_, fun x => PR.rk_relabel hφ r x⟩
  rw [C07_pagerank_respects_iso φ hφ g d k, h]; rfl

/-- "removing these edge ids leaves no cycle" is carried along by an injective relabeling and by any
re-presentation with the same edge records -/
theorem C07_feedback_arc_set_relabel (φ : Nat → Nat) (hφ : ∀ x y, φ x = φ y → x = y) (g1 g2 : MGraph)
    (hd : g2.directed = g1.directed) (hg : SameEdgeSet g2 (relabel φ g1)) (ids : List Nat)
    (h : ∀ x, ¬ Reach1 (removeEdges g1 ids) x x) : ∀ x, ¬ Reach1 (removeEdges g2 ids) x x :=
  fas_transport hφ hd hg ids h

/-- **greedy_feedback_arc_set respects isomorphism** in the sense in which a non-unique answer can:
run on two encodings (`order1`, `order2` = the two `edge_references()` orders) of a directed graph and
of its renaming by an injective `φ` with the same edge ids, each answer is a valid feedback arc set —
removal leaves no cycle, every self-loop is removed — of its own graph AND, transported by the edge
ids, of the other one's. -/
theorem C07_feedback_arc_set_respects_iso (φ : Nat → Nat) (hφ : ∀ x y, φ x = φ y → x = y) (g1 g2 : MGraph)
    (hd1 : g1.directed = true) (hd2 : g2.directed = true) (hg : SameEdgeSet g2 (relabel φ g1))
    (order1 order2 : List Edge) (hall1 : ∀ e ∈ g1.edges, e ∈ order1) (hall2 : ∀ e ∈ g2.edges, e ∈ order2) :
    let F1 := Fas.feedbackArcSet (order1.map fun e => (e.id, e.src, e.tgt))
    let F2 := Fas.feedbackArcSet (order2.map fun e => (e.id, e.src, e.tgt))
    (∀ x, ¬ Reach1 (removeEdges g1 F1) x x) ∧ (∀ x, ¬ Reach1 (removeEdges g2 F2) x x) ∧
    (∀ x, ¬ Reach1 (removeEdges g2 F1) x x) ∧
    (∀ e ∈ g2.edges, e.src = e.tgt → e.id ∈ F1 ∧ e.id ∈ F2) := by
  intro F1 F2
  have A1 := C20T.C20_fas_model_correct g1 hd1 order1 hall1
  have A2 := C20T.C20_fas_model_correct g2 hd2 order2 hall2
  refine ⟨A1.1, A2.1, fas_transport hφ (hd2.trans hd1.symm) hg F1 A1.1, ?_⟩
  intro e he hl
  refine ⟨?_, A2.2 e (hall2 e he) hl⟩
  obtain ⟨e1, he1, rfl⟩ := (mem_relabel_edges φ g1).mp ((hg e).mp he)
  exact A1.2 e1 (hall1 e1 he1) (hφ _ _ hl)

end C20

/-! ## C13 — the isomorphism notions themselves (re-export) -/

/-- `Iso` / `SubIso` of a matching problem are unchanged when both graphs are renamed (re-export of
`C13_relabel_invariant`; `C13.relabel` is this file's `relabel`). -/
theorem C07_iso_relabel (P : C13.Problem) (σ0 τ0 σ1 τ1 : Nat → Nat)
    (wf0 : P.g0.WellFormed) (wf1 : P.g1.WellFormed)
    (h0 : ∀ a ∈ P.g0.nodes, τ0 (σ0 a) = a) (h1 : ∀ b ∈ P.g1.nodes, τ1 (σ1 b) = b) :
    (C13.Iso (P.relabel σ0 τ0 σ1 τ1) ↔ C13.Iso P) ∧ (C13.SubIso (P.relabel σ0 τ0 σ1 τ1) ↔ C13.SubIso P) :=
  let r := C13T.C13_relabel_invariant P σ0 τ0 σ1 τ1 wf0 wf1 h0 h1
  ⟨r.1, r.2.1⟩

/-! ## the hypotheses of the wave-2 theorems are satisfiable: a concrete isomorphic pair of views -/
section Examples
open PetgraphModel.C10P PetgraphModel.SP PetgraphModel.C07W2

/-- the renaming `x ↦ 2 x + 10` -/
def exφ : Nat → Nat := fun x => 2 * x + 10

theorem exφ_inj : ∀ x y, exφ x = exφ y → x = y := by
  intro x y h; unfold exφ at h; omega

/-- `C10T.exView` (4 nodes, a zero-cost cycle, a loop, an isolated node, a vacancy in the index
assignment) renamed by `exφ`, its rows listed in another order, another index assignment and bound -/
def exView2 : View :=
  { g := relabel exφ C10T.exView.g,
    nb := 9, ix := [(10, 8), (12, 0), (14, 5), (16, 2)],
    out := [(16, []), (14, [(12, 2), (14, 4)]), (12, [(14, 3)]), (10, [(12, 0), (14, 1)])],
    inn := [] }

example : C10.viewOkB exView2 = true ∧ C10.viewOkB C10T.exView = true := by decide

/-- the isomorphism theorem applies to the pair, and says what the two concrete runs show -/
example : (∀ x, amGet ([(10, 0), (12, 1), (14, 0)] : List (Nat × Int)) (exφ x) =
    amGet ([(0, 0), (2, 0), (1, 1)] : List (Nat × Int)) x) := by
  have hv1 := C10T.C10_view_check C10T.exView (by decide)
  have hv2 := C10T.C10_view_check exView2 (by decide)
  exact (C07_dijkstra_respects_iso exφ exφ_inj popMin popMin C10T.C10_popMin_isMinPop C10T.C10_popMin_isMinPop
    C10T.exView exView2 hv1.1 hv2.1 hv1.2 (SameArcs.refl _) 0 [(0, 0), (2, 0), (1, 1)]
    [(10, 0), (12, 1), (14, 0)] (by decide) (by decide)).1

example : SP.dijkstra popMin exView2 (exφ 0) none = some [(10, 0), (12, 1), (14, 0)] := by decide

end Examples

/-! ## C09 (continued) — TarjanScc; C13 — is_isomorphic / is_isomorphic_subgraph -/
section C09b
open PetgraphModel.C09J PetgraphModel.C09M PetgraphModel.C07W2

/-- **TarjanScc::run respects isomorphism** (fresh run): the first answer, renamed, is a correct answer
for the second graph, and the two answers are the same partition. -/
theorem C07_tarjan_respects_iso (φ : Nat → Nat) (hφ : ∀ x y, φ x = φ y → x = y)
    (v1 v2 : View) (hv1 : C09P.ViewOk v1) (hv2 : C09P.ViewOk v2) (hix1 : C09T.IxOk v1) (hix2 : C09T.IxOk v2)
    (hwf1 : v1.g.WellFormed) (hwf2 : v2.g.WellFormed)
    (hs1 : 2 * v1.g.nodes.length + 1 ≤ usizeMax) (hs2 : 2 * v2.g.nodes.length + 1 ≤ usizeMax)
    (hn : SameNodes v2.g (relabel φ v1.g)) (hg : SameAdj v2.g (relabel φ v1.g))
    (t1 t2 : TJ) (h1 : tjRun v1 {} = some t1) (h2 : tjRun v2 {} = some t2) :
    SccSpec v2.g (t1.out.map (List.map φ)) ∧
    ∀ x y, (∃ c ∈ t1.out, x ∈ c ∧ y ∈ c) ↔ (∃ c ∈ t2.out, φ x ∈ c ∧ φ y ∈ c) := by
  have S1 := (C09T.C09_tarjan v1 hv1 hix1 hwf1 hs1 t1 h1).1.1
  have S2 := (C09T.C09_tarjan v2 hv2 hix2 hwf2 hs2 t2 h2).1.1
  refine ⟨sccSpec_congr hn.symm hg.symm (sccSpec_relabel hφ S1), fun x y => ?_⟩
  rw [C09P.part_same_iff (C09P.SccSpec.toPart S1), C09P.part_same_iff (C09P.SccSpec.toPart S2)]
  have e1 : φ x ∈ v2.g.nodes ↔ x ∈ v1.g.nodes := (hn (φ x)).trans (mem_relabel_nodes v1.g hφ)
  have e2 : SC v2.g (φ x) (φ y) ↔ SC v1.g x y := (sc_congr hg).trans (sc_relabel_iff hφ v1.g)
  rw [e1, e2]

/-- **tarjan_scc and kosaraju_scc return the same partition**, on any two views of any two
presentations of the same graph -/
theorem C07_tarjan_kosaraju_same_partition
    (v1 v2 : View) (hv1 : C09P.ViewOk v1) (hv2 : C09P.ViewOk v2) (hix1 : C09T.IxOk v1)
    (hp2 : ∀ a b, b ∈ v2.pred a ↔ v2.g.Adj b a)
    (hwf1 : v1.g.WellFormed) (hwf2 : v2.g.WellFormed) (hs1 : 2 * v1.g.nodes.length + 1 ≤ usizeMax)
    (hn : SameNodes v1.g v2.g) (hg : SameAdj v1.g v2.g)
    (t1 : TJ) (comps2 : List (List Nat)) (h1 : tjRun v1 {} = some t1) (h2 : kosaraju v2 = some comps2) :
    ∀ x y, (∃ c ∈ t1.out, x ∈ c ∧ y ∈ c) ↔ (∃ c ∈ comps2, x ∈ c ∧ y ∈ c) := by
  have S1 := (C09T.C09_tarjan v1 hv1 hix1 hwf1 hs1 t1 h1).1.1
  have S2 := C09T.C09_kosaraju v2 hv2 hp2 hwf2 comps2 h2
  intro x y
  rw [C09P.part_same_iff (C09P.SccSpec.toPart S1), C09P.part_same_iff (C09P.SccSpec.toPart S2),
    hn x, sc_congr hg]

end C09b

section C13b
open PetgraphModel.C13 PetgraphModel.C13.Vf2

/-- the side conditions of `C13_vf2_iso_iff` / `C13_vf2_sub_iff` (checked per case by the driver) -/
structure Vf2Side (I : Inst) (sub : Bool) : Prop where
  cg0 : cgOkB I.g0 = true
  cg1 : cgOkB I.g1 = true
  dir : I.g0.directed = I.g1.directed
  pos : 0 < I.g0.n
  e0 : ECountOk I.g0
  e1 : ECountOk I.g1
  inn : inNodupB I.g0 = true
  fuel : (isomorphisms I sub bigFuel (M.init I)).isSome = true

/-- **is_isomorphic respects isomorphism**: if the second instance's matching problem is the first one's
with both graphs renamed (node weights carried along), the two answers coincide — whatever the two
encodings' iteration orders are. -/
theorem C07_is_isomorphic_respects_iso (I1 I2 : Inst) (s1 : Vf2Side I1 false) (s2 : Vf2Side I2 false)
    (σ0 τ0 σ1 τ1 : Nat → Nat) (wf0 : I1.problem.g0.WellFormed) (wf1 : I1.problem.g1.WellFormed)
    (h0 : ∀ a ∈ I1.problem.g0.nodes, τ0 (σ0 a) = a) (h1 : ∀ b ∈ I1.problem.g1.nodes, τ1 (σ1 b) = b)
    (hP : I2.problem = I1.problem.relabel σ0 τ0 σ1 τ1) : isoModel I2 = isoModel I1 := by
  have A1 := C13T.C13_vf2_iso_iff I1 s1.cg0 s1.cg1 s1.dir s1.pos s1.e0 s1.e1 s1.inn s1.fuel
  have A2 := C13T.C13_vf2_iso_iff I2 s2.cg0 s2.cg1 s2.dir s2.pos s2.e0 s2.e1 s2.inn s2.fuel
  have R := (C13T.C13_relabel_invariant I1.problem σ0 τ0 σ1 τ1 wf0 wf1 h0 h1).1
  rw [← hP] at R
  cases hb1 : isoModel I1 <;> cases hb2 : isoModel I2 <;> simp_all

/-- **is_isomorphic_subgraph respects isomorphism** -/
theorem C07_is_isomorphic_subgraph_respects_iso (I1 I2 : Inst) (s1 : Vf2Side I1 true) (s2 : Vf2Side I2 true)
    (σ0 τ0 σ1 τ1 : Nat → Nat) (wf0 : I1.problem.g0.WellFormed) (wf1 : I1.problem.g1.WellFormed)
    (h0 : ∀ a ∈ I1.problem.g0.nodes, τ0 (σ0 a) = a) (h1 : ∀ b ∈ I1.problem.g1.nodes, τ1 (σ1 b) = b)
    (hP : I2.problem = I1.problem.relabel σ0 τ0 σ1 τ1) : subModel I2 = subModel I1 := by
  have A1 := C13T.C13_vf2_sub_iff I1 s1.cg0 s1.cg1 s1.dir s1.pos s1.e0 s1.e1 s1.inn s1.fuel
  have A2 := C13T.C13_vf2_sub_iff I2 s2.cg0 s2.cg1 s2.dir s2.pos s2.e0 s2.e1 s2.inn s2.fuel
  have R := (C13T.C13_relabel_invariant I1.problem σ0 τ0 σ1 τ1 wf0 wf1 h0 h1).2.1
  rw [← hP] at R
  cases hb1 : subModel I1 <;> cases hb2 : subModel I2 <;> simp_all

end C13b

/-! # Wave 3

## "sized by `node_bound`" ⟹ "no out-of-bounds access through `to_index`"

`C07_scratch_safe` is about the regenerated table alone: every scratch container that is indexed through
`to_index` in a function accepting graphs with vacant indices is *sized* by `node_bound`/`edge_bound`.  The
theorems below close the gap to the storage types: for the table computed from each storage model
(`Theorems/C06.lean`, `C06_consistent_<Type>`), `to_index a < node_bound` for every live `a` — the clause `indexOk`
of `TableConsistent` — and therefore an access `c[to_index a]` into a container `c` of that length is in bounds. -/
section W3Bounds
open PetgraphModel.Visit PetgraphModel.C07W3

/-- **bridging lemma**: on every consistent table `to_index a` is recorded and is below `node_bound`, for every
live node `a`. -/
theorem C07_to_index_lt_bound (qs : List Nat) (t : Table) (h : TableConsistent qs t) (ids : List Nat)
    (hids : t.ids = some ids) (a : Nat) (ha : a ∈ ids) : ∃ i, t.toIx.lookup a = some i ∧ i < t.nodeBound :=
  toIndexBelow_of_consistent h ids hids a ha

/-- … for every storage table proved consistent in `Theorems/C06.lean` (`StorageTable`: one constructor per
`C06_consistent_<Type>` theorem; the repaired tables of D6/D7 have the node fields of the unrepaired ones,
`C07W3.repair_node_fields`). -/
theorem C07_to_index_lt_bound_storage (t : Table) (h : StorageTable t) : ToIndexBelow t t.nodeBound := by
  obtain ⟨qs, hc⟩ := h.consistent
  exact toIndexBelow_of_consistent hc

/-- `Graph` (C01 invariant): `to_index(a) = a.index() < node_count = node_bound` -/
theorem C07_to_index_lt_bound_Graph (s : G.State) (h : C01T.Inv s) (a : Nat) (ha : a < s.nodes.length) :
    ∃ i, (graphTable s).toIx.lookup a = some i ∧ i < (graphTable s).nodeBound :=
  toIndexBelow_of_indexOk (g_index s h) _ rfl a (List.mem_range.mpr ha)

/-- `GraphMap` (C03 invariant): the position of the key in the node `IndexMap` -/
theorem C07_to_index_lt_bound_GraphMap (s : GM.State) (h : GMProofs.Inv s) (a : Nat) (ha : a ∈ GM.nodesOf s) :
    ∃ i, (graphMapTable s).toIx.lookup a = some i ∧ i < (graphMapTable s).nodeBound :=
  toIndexBelow_of_indexOk (gm_index s h) _ rfl a ha

/-- `Csr`, directed and undirected (node count fits the index type) -/
theorem C07_to_index_lt_bound_Csr (s : CsrM.State) (hf : C06T.CsrIxFits s) (a : Nat)
    (ha : a ∈ CsrM.nodeIdentifiers s) :
    ∃ i, (csrTable s).toIx.lookup a = some i ∧ i < (csrTable s).nodeBound :=
  toIndexBelow_of_indexOk (CsrW2.csr_indexOk hf) _ rfl a ha

/-- `adj::List` -/
theorem C07_to_index_lt_bound_List (s : AdjM.State) (h : C06T.ListWF s) (a : Nat) (ha : a ∈ AdjM.nodeIndices s) :
    ∃ i, (adjListTable s).toIx.lookup a = some i ∧ i < (adjListTable s).nodeBound :=
  toIndexBelow_of_indexOk (al_index s h) _ rfl a ha

/-- `MatrixGraph`, directed and undirected — the type with vacant indices among the C06 tables: the bound is
`upper_bound` of the id storage, not the node count -/
theorem C07_to_index_lt_bound_MatrixGraph (s : Matrix.State) (h : C04T.Inv s) (a : Nat) (ha : a ∈ s.nodes.ids) :
    ∃ i, (matrixTable s).toIx.lookup a = some i ∧ i < s.nodes.upperBound :=
  toIndexBelow_of_indexOk (MXProofs.index_ok h) _ rfl a ha

/-- `StableGraph` (no C06 table; `to_index(a) = a.index()`, `from_index(i) = NodeIndex::new(i)`): every live node
index is below `node_bound` and every live edge index below `edge_bound`, in every state. -/
theorem C07_to_index_lt_bound_StableGraph (s : SG.State) :
    (∀ a, (SG.nodeWeight s a).isSome = true → a < SG.nodeBound s) ∧
    (∀ e, (SG.edgeWeight s e).isSome = true → e < SG.edgeBound s) :=
  ⟨stable_live_lt_bound s, stable_edge_live_lt_bound s⟩

/-- **no out-of-bounds access**: for every entry of the regenerated scratch table that is indexed through
`to_index` and sized by `node_bound`, on every storage table of C06, a container `c` of the allocated length
(`scratchLen t u.size = some c.length`) has an element at `to_index a` for every live node `a`. -/
theorem C07_scratch_in_bounds :
    ∀ u ∈ scratchTable, u.indexedByToIndex = true → u.size = .nodeBound →
      ∀ t, StorageTable t → ∀ {α : Type} (c : List α), scratchLen t u.size = some c.length →
        ∀ ids, t.ids = some ids → ∀ a ∈ ids, ∃ i, t.toIx.lookup a = some i ∧ ∃ x, c[i]? = some x := by
  intro u _ _ hsz t ht α c hc
  rw [hsz] at hc
  have hlen : t.nodeBound = c.length := by simpa [scratchLen] using hc
  exact accessInBounds_of_below (hlen ▸ C07_to_index_lt_bound_storage t ht)

/-- … and the entries of compact-only functions (`compactOnly`: the signature demands `NodeCompactIndexable`),
which may be sized by `node_count`: on a compact storage table `node_count = node_bound`, so they are in bounds
too.  Together with `C07_scratch_safe` this covers every entry indexed through a node's `to_index` except the
recorded finding D12. -/
theorem C07_scratch_in_bounds_compact :
    ∀ u ∈ scratchTable, u.indexedByToIndex = true → u.compactOnly = true → (u.size = .nodeCount ∨ u.size = .nodeBound) →
      ∀ t, StorageTable t → t.compact = true → ∀ {α : Type} (c : List α), scratchLen t u.size = some c.length →
        ∀ ids, t.ids = some ids → ∀ a ∈ ids, ∃ i, t.toIx.lookup a = some i ∧ ∃ x, c[i]? = some x := by
  intro u _ _ _ hsz t ht hcomp α c hc ids hids
  obtain ⟨qs, hcons⟩ := ht.consistent
  have hlen : t.nodeBound = c.length := by
    rcases hsz with h | h
    · rw [h] at hc
      have hn : t.nodeCount = some c.length := by simpa [scratchLen] using hc
      exact (nodeCount_eq_bound_of_compact hcons hcomp ids hids _ hn).symm
    · rw [h] at hc; simpa [scratchLen] using hc
  exact accessInBounds_of_below (hlen ▸ toIndexBelow_of_consistent hcons) ids hids

/-- the entries sized by `edge_bound` (the flow table of `ford_fulkerson`, indexed by
`EdgeIndexable::to_index`): on every storage table implementing `EdgeIndexable`, in bounds for every listed edge. -/
theorem C07_scratch_in_bounds_edge :
    ∀ u ∈ scratchTable, u.size = .edgeBound →
      ∀ t, StorageTable t → ∀ {α : Type} (c : List α), scratchLen t u.size = some c.length →
        ∀ er l, t.erefs = some er → t.eix = some l → ∀ e ∈ er, ∃ x, l.lookup e.id = some x ∧ ∃ y, c[x.1]? = some y := by
  intro u _ hsz t ht α c hc er l her hl e he
  obtain ⟨qs, hcons⟩ := ht.consistent
  rw [hsz] at hc
  have heb : t.edgeBound = some c.length := by simpa [scratchLen] using hc
  obtain ⟨x, hx, hlt⟩ := edgeToIndexBelow_of_consistent hcons _ heb er l her hl e he
  exact ⟨x, hx, c[x.1], List.getElem?_eq_getElem hlt⟩

/-- the hypotheses are not vacuous: the table has entries of each of the three kinds -/
example : (scratchTable.filter fun u => u.indexedByToIndex && u.size == .nodeBound).length ≥ 15 ∧
    (scratchTable.filter fun u => u.indexedByToIndex && u.compactOnly && u.size == .nodeCount).length ≥ 5 ∧
    (scratchTable.filter fun u => u.size == .edgeBound).length ≥ 1 := by decide

end W3Bounds

/-! ## `…_total` variants: the second run answers whenever the first does

The wave-2 theorems above take "both runs answer" (`= some …`) as hypotheses.  Where a totality theorem of the
model exists (C10: `dijkstra`, `astar`, `k_shortest_path` terminate; C11: the `spfa` work list and
`find_negative_cycle` never exhaust their fuel, `bellman_ford`/`floyd_warshall` are total functions whose `none` IS
the answer `Err(NegativeCycle)`; C12: both MST models always emit) the hypotheses on the second run go away: if
run 1 answers then run 2 answers, and the answers correspond.  (`simple_fast`, `articulation_points`,
`ford_fulkerson`, `page_rank` above are already of this form.  Not covered: the C08/C09 traversal loops and VF2,
whose fuel-sufficiency theorems do not exist yet.) -/
section W3Total
open PetgraphModel.C10P PetgraphModel.SP PetgraphModel.C07W2

/-- **dijkstra, encoding independence, total**: both runs answer (any two min-heap tie orders, any two views of
the same weighted arcs) and the answers agree as in `C07_dijkstra_encoding_independent`. -/
theorem C07_dijkstra_encoding_independent_total (pop1 pop2 : Pop) (hp1 : IsMinPop pop1) (hp2 : IsMinPop pop2)
    (v1 v2 : View) (hv1 : ViewArcs v1) (hv2 : ViewArcs v2) (hw : NonNeg v1.g)
    (hg : SameArcs v1.g v2.g) (s : Nat) (goal : Option Nat) :
    ∃ m1 m2, SP.dijkstra pop1 v1 s goal = some m1 ∧ SP.dijkstra pop2 v2 s goal = some m2 ∧
      (goal = none → ∀ x, amGet m1 x = amGet m2 x) ∧ (∀ t, goal = some t → amGet m1 t = amGet m2 t) := by
  obtain ⟨m1, r1⟩ := C10T.C10_dijkstra_terminates pop1 hp1 v1 s goal
  obtain ⟨m2, r2⟩ := C10T.C10_dijkstra_terminates pop2 hp2 v2 s goal
  exact ⟨m1, m2, r1, r2, C07_dijkstra_encoding_independent pop1 pop2 hp1 hp2 v1 v2 hv1 hv2 hw hg s goal m1 m2 r1 r2⟩

/-- **dijkstra respects isomorphism, total** -/
theorem C07_dijkstra_respects_iso_total (φ : Nat → Nat) (hφ : ∀ x y, φ x = φ y → x = y)
    (pop1 pop2 : Pop) (hp1 : IsMinPop pop1) (hp2 : IsMinPop pop2)
    (v1 v2 : View) (hv1 : ViewArcs v1) (hv2 : ViewArcs v2) (hw : NonNeg v1.g)
    (hg : SameArcs v2.g (relabel φ v1.g)) (s : Nat) :
    ∃ m1 m2, SP.dijkstra pop1 v1 s none = some m1 ∧ SP.dijkstra pop2 v2 (φ s) none = some m2 ∧
      (∀ x, amGet m2 (φ x) = amGet m1 x) ∧ (∀ y c, amGet m2 y = some c → ∃ x, y = φ x) := by
  obtain ⟨m1, r1⟩ := C10T.C10_dijkstra_terminates pop1 hp1 v1 s none
  obtain ⟨m2, r2⟩ := C10T.C10_dijkstra_terminates pop2 hp2 v2 (φ s) none
  exact ⟨m1, m2, r1, r2, C07_dijkstra_respects_iso φ hφ pop1 pop2 hp1 hp2 v1 v2 hv1 hv2 hw hg s m1 m2 r1 r2⟩

/-- **dijkstra with a goal respects isomorphism, total** -/
theorem C07_dijkstra_goal_respects_iso_total (φ : Nat → Nat) (hφ : ∀ x y, φ x = φ y → x = y)
    (pop1 pop2 : Pop) (hp1 : IsMinPop pop1) (hp2 : IsMinPop pop2)
    (v1 v2 : View) (hv1 : ViewArcs v1) (hv2 : ViewArcs v2) (hw : NonNeg v1.g)
    (hg : SameArcs v2.g (relabel φ v1.g)) (s t : Nat) :
    ∃ m1 m2, SP.dijkstra pop1 v1 s (some t) = some m1 ∧ SP.dijkstra pop2 v2 (φ s) (some (φ t)) = some m2 ∧
      amGet m2 (φ t) = amGet m1 t := by
  obtain ⟨m1, r1⟩ := C10T.C10_dijkstra_terminates pop1 hp1 v1 s (some t)
  obtain ⟨m2, r2⟩ := C10T.C10_dijkstra_terminates pop2 hp2 v2 (φ s) (some (φ t))
  exact ⟨m1, m2, r1, r2, C07_dijkstra_goal_respects_iso φ hφ pop1 pop2 hp1 hp2 v1 v2 hv1 hv2 hw hg s t m1 m2 r1 r2⟩

/-- the `k_shortest_path` model answers with a map — neither "fuel exhausted" (`C10_kshortest_terminates`) nor an
out-of-bounds access of the counter (`C10_kshortest_safe`) — whenever `to_index` stays below `node_bound` -/
theorem kshortest_answers (pop : Pop) (hp : IsMinPop pop) (v : View) (hv : ViewArcs v) (s : Nat)
    (hix : C10P.IxOk v s) (goal : Option Nat) (k : Nat) : ∃ m, kShortestPath pop v s goal k = .done m := by
  have hs := C10T.C10_kshortest_safe pop hp v hv s hix goal k
  have ht := C10T.C10_kshortest_terminates pop hp v s goal k
  cases hr : kShortestPath pop v s goal k with
  | done m => exact ⟨m, rfl⟩
  | panic => rw [hr] at hs; exact hs.elim
  | fuel => exact absurd hr ht

/-- **k_shortest_path, encoding independence, total** -/
theorem C07_kshortest_encoding_independent_total (pop1 pop2 : Pop) (hp1 : IsMinPop pop1) (hp2 : IsMinPop pop2)
    (v1 v2 : View) (hv1 : ViewArcsM v1) (hv2 : ViewArcsM v2) (hw : NonNeg v1.g)
    (hg : v1.g.arcs.Perm v2.g.arcs) (s k : Nat) (hk : 1 ≤ k)
    (hix1 : C10P.IxOk v1 s) (hinj1 : IxInj v1 s) (hix2 : C10P.IxOk v2 s) (hinj2 : IxInj v2 s) :
    ∃ m1 m2, kShortestPath pop1 v1 s none k = .done m1 ∧ kShortestPath pop2 v2 s none k = .done m2 ∧
      ∀ x, amGet m1 x = amGet m2 x := by
  obtain ⟨m1, r1⟩ := kshortest_answers pop1 hp1 v1 hv1.viewArcs s hix1 none k
  obtain ⟨m2, r2⟩ := kshortest_answers pop2 hp2 v2 hv2.viewArcs s hix2 none k
  exact ⟨m1, m2, r1, r2, C07_kshortest_encoding_independent pop1 pop2 hp1 hp2 v1 v2 hv1 hv2 hw hg s k hk
    hix1 hinj1 hix2 hinj2 m1 m2 r1 r2⟩

/-- **k_shortest_path respects isomorphism, total** -/
theorem C07_kshortest_respects_iso_total (φ : Nat → Nat) (hφ : ∀ x y, φ x = φ y → x = y)
    (pop1 pop2 : Pop) (hp1 : IsMinPop pop1) (hp2 : IsMinPop pop2)
    (v1 v2 : View) (hv1 : ViewArcsM v1) (hv2 : ViewArcsM v2) (hw : NonNeg v1.g)
    (hg : v2.g.arcs.Perm (relabel φ v1.g).arcs) (s k : Nat) (hk : 1 ≤ k)
    (hix1 : C10P.IxOk v1 s) (hinj1 : IxInj v1 s) (hix2 : C10P.IxOk v2 (φ s)) (hinj2 : IxInj v2 (φ s)) :
    ∃ m1 m2, kShortestPath pop1 v1 s none k = .done m1 ∧ kShortestPath pop2 v2 (φ s) none k = .done m2 ∧
      (∀ x, amGet m2 (φ x) = amGet m1 x) ∧ (∀ y c, amGet m2 y = some c → ∃ x, y = φ x) := by
  obtain ⟨m1, r1⟩ := kshortest_answers pop1 hp1 v1 hv1.viewArcs s hix1 none k
  obtain ⟨m2, r2⟩ := kshortest_answers pop2 hp2 v2 hv2.viewArcs (φ s) hix2 none k
  exact ⟨m1, m2, r1, r2, C07_kshortest_respects_iso φ hφ pop1 pop2 hp1 hp2 v1 v2 hv1 hv2 hw hg s k hk
    hix1 hinj1 hix2 hinj2 m1 m2 r1 r2⟩

/-- **astar respects isomorphism, total**: with fuel at least `astarBound` on both sides either both runs answer
`None`, or both answer `Some` with the same cost — no third case (`fuel`) on either side. -/
theorem C07_astar_respects_iso_total (φ : Nat → Nat) (hφ : ∀ x y, φ x = φ y → x = y)
    (pop1 pop2 : Pop) (hp1 : IsMinPop pop1) (hp2 : IsMinPop pop2)
    (v1 v2 : View) (hv1 : ViewArcs v1) (hv2 : ViewArcs v2) (hw : NonNeg v1.g)
    (hg : SameArcs v2.g (relabel φ v1.g)) (s : Nat) (goal1 goal2 : Nat → Bool)
    (hgoal : ∀ x, goal2 (φ x) = goal1 x) (h1 h2 : Nat → Int)
    (ha1 : Admissible v1.g goal1 h1) (ha2 : Admissible v2.g goal2 h2) (f1 f2 : Nat)
    (hf1 : astarBound v1.g s ≤ f1) (hf2 : astarBound v2.g (φ s) ≤ f2) :
    (SP.astar pop1 v1 s goal1 h1 f1 = .notFound ∧ SP.astar pop2 v2 (φ s) goal2 h2 f2 = .notFound) ∨
    ∃ c p1 p2, SP.astar pop1 v1 s goal1 h1 f1 = .found c p1 ∧ SP.astar pop2 v2 (φ s) goal2 h2 f2 = .found c p2 := by
  have hw2 : NonNeg v2.g := nonNeg_congr (SameArcs.symm hg) (nonNeg_relabel φ v1.g hw)
  have R := C07_astar_respects_iso φ hφ pop1 pop2 hp1 hp2 v1 v2 hv1 hv2 hw hg s goal1 goal2 hgoal h1 h2 ha1 ha2
    f1 f2 hf1 hf2
  have A1 := astar_cost_spec pop1 hp1 v1 hv1 hw s goal1 h1 ha1 f1 hf1
  have A2 := astar_cost_spec pop2 hp2 v2 hv2 hw2 (φ s) goal2 h2 ha2 f2 hf2
  rcases A1 with ⟨e1, _⟩ | ⟨c1, p1, e1, _⟩
  · exact Or.inl ⟨e1, R.1.mp e1⟩
  · rcases A2 with ⟨e2, _⟩ | ⟨c2, p2, e2, _⟩
    · have := R.1.mpr e2; rw [e1] at this; cases this
    · have hc := R.2 c1 p1 c2 p2 e1 e2
      subst hc
      exact Or.inr ⟨c1, p1, p2, e1, e2⟩

end W3Total

section W3TotalC11
open PetgraphModel.C11M PetgraphModel.C11MP PetgraphModel.C11P PetgraphModel.C07W2

/-- **bellman_ford respects isomorphism, total**: the model is a total function (`none` is the answer
`Err(NegativeCycle)`); if the first run answers `Ok` so does the second, and the distance tables correspond. -/
theorem C07_bellman_ford_respects_iso_total (φ : Nat → Nat) (hφ : ∀ x y, φ x = φ y → x = y)
    (v1 v2 : View) (hv1 : C11MP.ViewArcs v1) (hv2 : C11MP.ViewArcs v2)
    (hwf1 : v1.g.WellFormed) (hwf2 : v2.g.WellFormed)
    (hg : SameArcs v2.g (relabel φ v1.g)) (s : Nat) (hs1 : s ∈ v1.g.nodes) (hs2 : φ s ∈ v2.g.nodes)
    (st1 : BF) (r1 : bellmanFord v1 s = some st1) :
    ∃ st2, bellmanFord v2 (φ s) = some st2 ∧
      (∀ x, tget st2.d (φ x) = tget st1.d x) ∧ (∀ y c, tget st2.d y = some c → ∃ x, y = φ x) := by
  have R := C07_bellman_ford_respects_iso φ hφ v1 v2 hv1 hv2 hwf1 hwf2 hg s hs1 hs2
  cases r2 : bellmanFord v2 (φ s) with
  | none => have := R.1.mpr r2; rw [r1] at this; cases this
  | some st2 => exact ⟨st2, rfl, R.2 st1 st2 r1 r2⟩

/-- … and an error of the first run is an error of the second -/
theorem C07_bellman_ford_err_respects_iso_total (φ : Nat → Nat) (hφ : ∀ x y, φ x = φ y → x = y)
    (v1 v2 : View) (hv1 : C11MP.ViewArcs v1) (hv2 : C11MP.ViewArcs v2)
    (hwf1 : v1.g.WellFormed) (hwf2 : v2.g.WellFormed)
    (hg : SameArcs v2.g (relabel φ v1.g)) (s : Nat) (hs1 : s ∈ v1.g.nodes) (hs2 : φ s ∈ v2.g.nodes)
    (r1 : bellmanFord v1 s = none) : bellmanFord v2 (φ s) = none :=
  (C07_bellman_ford_respects_iso φ hφ v1 v2 hv1 hv2 hwf1 hwf2 hg s hs1 hs2).1.mp r1

/-- **bellman_ford, encoding independence, total** -/
theorem C07_bellman_ford_encoding_independent_total
    (v1 v2 : View) (hv1 : C11MP.ViewArcs v1) (hv2 : C11MP.ViewArcs v2)
    (hwf1 : v1.g.WellFormed) (hwf2 : v2.g.WellFormed)
    (hg : SameArcs v1.g v2.g) (s : Nat) (hs1 : s ∈ v1.g.nodes) (hs2 : s ∈ v2.g.nodes)
    (st1 : BF) (r1 : bellmanFord v1 s = some st1) :
    ∃ st2, bellmanFord v2 s = some st2 ∧ ∀ x, tget st1.d x = tget st2.d x := by
  have R := C07_bellman_ford_encoding_independent v1 v2 hv1 hv2 hwf1 hwf2 hg s hs1 hs2
  cases r2 : bellmanFord v2 s with
  | none => have := R.1.mpr r2; rw [r1] at this; cases this
  | some st2 => exact ⟨st2, rfl, R.2 st1 st2 r1 r2⟩

/-- **find_negative_cycle respects isomorphism, total**: neither run exhausts the fuel of the predecessor walk,
and one returns a sequence iff the other does. -/
theorem C07_find_negative_cycle_respects_iso_total (φ : Nat → Nat) (hφ : ∀ x y, φ x = φ y → x = y)
    (v1 v2 : View) (hv1 : C11MP.ViewArcs v1) (hv2 : C11MP.ViewArcs v2)
    (hwf1 : v1.g.WellFormed) (hwf2 : v2.g.WellFormed)
    (hg : SameArcs v2.g (relabel φ v1.g)) (s : Nat) (hs1 : s ∈ v1.g.nodes) (hs2 : φ s ∈ v2.g.nodes) :
    (findNegativeCycle v1 s = .none ∧ findNegativeCycle v2 (φ s) = .none) ∨
    ∃ seq1 seq2, findNegativeCycle v1 s = .some seq1 ∧ findNegativeCycle v2 (φ s) = .some seq2 := by
  have R := C07_find_negative_cycle_respects_iso φ hφ v1 v2 hv1 hv2 hwf1 hwf2 hg s hs1 hs2
  have F1 := C11T.C11_find_negative_cycle_fuel v1 hv1 hwf1 s
  have F2 := C11T.C11_find_negative_cycle_fuel v2 hv2 hwf2 (φ s)
  cases r1 : findNegativeCycle v1 s with
  | fuel => exact absurd r1 F1
  | none => exact Or.inl ⟨rfl, R.mp r1⟩
  | some seq1 =>
    cases r2 : findNegativeCycle v2 (φ s) with
    | fuel => exact absurd r2 F2
    | none => have := R.mpr r2; rw [r1] at this; cases this
    | some seq2 => exact Or.inr ⟨seq1, seq2, rfl, rfl⟩

/-- **spfa respects isomorphism, total**: if the first run answers `Ok` (within its cost type: `hfit1`), the second
run neither exhausts its fuel (`C11_spfa_fuel`) nor reports a negative cycle (`C11_spfa_err`, under that theorem's
hypotheses on the second view: `node_bound ≥ |V|`, walk costs of at most `|V|` arcs fit the cost type) — it answers
`Ok`, and, provided its result fits its cost type (`hfit2`, the hypothesis of `C11_spfa_ok`), the distance tables
correspond. -/
theorem C07_spfa_respects_iso_total (φ : Nat → Nat) (hφ : ∀ x y, φ x = φ y → x = y)
    (B1 B2 : Meas) (hB1 : 0 < B1.max) (hB2 : 0 < B2.max)
    (v1 v2 : View) (hv1 : C11MP.ViewArcs v1) (hv2 : C11MP.ViewArcs v2) (hwf2 : v2.g.WellFormed)
    (hg : SameArcs v2.g (relabel φ v1.g)) (s : Nat) (hs2 : φ s ∈ v2.g.nodes) (hnb2 : v2.g.nodes.length ≤ v2.nb)
    (hfitw2 : ∀ x c j, j ≤ v2.g.nodes.length → WalkN v2.g (φ s) x c j → B2.min ≤ c ∧ c < B2.max)
    (st1 : SP) (r1 : spfa B1 v1 s = some (some st1))
    (hfit1 : ∀ a b w, (a, b, w) ∈ v1.g.arcs → ∀ x, tget st1.d a = some x → B1.min ≤ x + w ∧ x + w < B1.max)
    (hfit2 : ∀ st2, spfa B2 v2 (φ s) = some (some st2) →
      ∀ a b w, (a, b, w) ∈ v2.g.arcs → ∀ x, tget st2.d a = some x → B2.min ≤ x + w ∧ x + w < B2.max) :
    ∃ st2, spfa B2 v2 (φ s) = some (some st2) ∧
      (∀ x, tget st2.d (φ x) = tget st1.d x) ∧ (∀ y c, tget st2.d y = some c → ∃ x, y = φ x) := by
  have hno1 := (C11T.C11_spfa_ok B1 hB1 v1 hv1 s st1 r1 hfit1).2.2.1
  have F2 := C11T.C11_spfa_fuel B2 v2 hv2 hwf2 (φ s) hs2
  cases r2 : spfa B2 v2 (φ s) with
  | none => exact absurd r2 F2
  | some o =>
    cases o with
    | none =>
      have hneg := C11T.C11_spfa_err B2 v2 hv2 hwf2 (φ s) hs2 hnb2 hfitw2 r2
      exact absurd ((negCycleReachable_relabel_iff hφ v1.g s).mp ((negCycleReachable_congr hg (φ s)).mp hneg)) hno1
    | some st2 =>
      exact ⟨st2, rfl, C07_spfa_respects_iso φ hφ B1 B2 hB1 hB2 v1 v2 hv1 hv2 hg s st1 st2 r1 r2 hfit1 (hfit2 st2 r2)⟩

/-- **spfa, encoding independence, total** -/
theorem C07_spfa_encoding_independent_total
    (B1 B2 : Meas) (hB1 : 0 < B1.max) (hB2 : 0 < B2.max)
    (v1 v2 : View) (hv1 : C11MP.ViewArcs v1) (hv2 : C11MP.ViewArcs v2) (hwf2 : v2.g.WellFormed)
    (hg : SameArcs v1.g v2.g) (s : Nat) (hs2 : s ∈ v2.g.nodes) (hnb2 : v2.g.nodes.length ≤ v2.nb)
    (hfitw2 : ∀ x c j, j ≤ v2.g.nodes.length → WalkN v2.g s x c j → B2.min ≤ c ∧ c < B2.max)
    (st1 : SP) (r1 : spfa B1 v1 s = some (some st1))
    (hfit1 : ∀ a b w, (a, b, w) ∈ v1.g.arcs → ∀ x, tget st1.d a = some x → B1.min ≤ x + w ∧ x + w < B1.max)
    (hfit2 : ∀ st2, spfa B2 v2 s = some (some st2) →
      ∀ a b w, (a, b, w) ∈ v2.g.arcs → ∀ x, tget st2.d a = some x → B2.min ≤ x + w ∧ x + w < B2.max) :
    ∃ st2, spfa B2 v2 s = some (some st2) ∧ ∀ x, tget st1.d x = tget st2.d x := by
  have hno1 := (C11T.C11_spfa_ok B1 hB1 v1 hv1 s st1 r1 hfit1).2.2.1
  have F2 := C11T.C11_spfa_fuel B2 v2 hv2 hwf2 s hs2
  cases r2 : spfa B2 v2 s with
  | none => exact absurd r2 F2
  | some o =>
    cases o with
    | none =>
      have hneg := C11T.C11_spfa_err B2 v2 hv2 hwf2 s hs2 hnb2 hfitw2 r2
      exact absurd ((negCycleReachable_congr hg s).mpr hneg) hno1
    | some st2 =>
      exact ⟨st2, rfl, (C07_spfa_encoding_independent B1 B2 hB1 hB2 v1 v2 hv1 hv2 hg s st1 st2 r1 r2 hfit1
        (hfit2 st2 r2)).1⟩

/-- **floyd_warshall respects isomorphism, total**: the model is a total function (`none` = `Err(NegativeCycle)`);
if the first run answers `Ok` so does the second and the matrices correspond. -/
theorem C07_floyd_warshall_respects_iso_total (φ : Nat → Nat) (hφ : ∀ x y, φ x = φ y → x = y)
    (B1 B2 : Meas) (v1 v2 : View) (hwf1 : v1.g.WellFormed) (hwf2 : v2.g.WellFormed)
    (hwide1 : FloydWide B1 v1) (hwide2 : FloydWide B2 v2) (hg : SameArcs v2.g (relabel φ v1.g))
    (st1 : FW) (r1 : floydWarshall B1 v1 = some st1) :
    ∃ st2, floydWarshall B2 v2 = some st2 ∧
      ∀ i, i ∈ v1.g.nodes → φ i ∈ v2.g.nodes → ∀ j, tget st2.d (φ i, φ j) = tget st1.d (i, j) := by
  have R := C07_floyd_warshall_respects_iso φ hφ B1 B2 v1 v2 hwf1 hwf2 hwide1 hwide2 hg
  cases r2 : floydWarshall B2 v2 with
  | none => have := R.1.mpr r2; rw [r1] at this; cases this
  | some st2 => exact ⟨st2, rfl, R.2 st1 st2 r1 r2⟩

/-- **floyd_warshall, encoding independence, total** -/
theorem C07_floyd_warshall_encoding_independent_total
    (B1 B2 : Meas) (v1 v2 : View) (hwf1 : v1.g.WellFormed) (hwf2 : v2.g.WellFormed)
    (hwide1 : FloydWide B1 v1) (hwide2 : FloydWide B2 v2) (hg : SameArcs v1.g v2.g)
    (st1 : FW) (r1 : floydWarshall B1 v1 = some st1) :
    ∃ st2, floydWarshall B2 v2 = some st2 ∧
      ∀ i, i ∈ v1.g.nodes → i ∈ v2.g.nodes → ∀ j, tget st1.d (i, j) = tget st2.d (i, j) := by
  have R := C07_floyd_warshall_encoding_independent B1 B2 v1 v2 hwf1 hwf2 hwide1 hwide2 hg
  cases r2 : floydWarshall B2 v2 with
  | none => have := R.1.mpr r2; rw [r1] at this; cases this
  | some st2 => exact ⟨st2, rfl, R.2 st1 st2 r1 r2⟩

end W3TotalC11

section W3TotalC12
open PetgraphModel.MST PetgraphModel.MstModel PetgraphModel.C07W2

/-- **min_spanning_tree respects isomorphism, total**: both runs emit (the Kruskal model has no failing branch on a
`KView`), with the same number of edges and the same total weight. -/
theorem C07_kruskal_respects_iso_total (φ : Nat → Nat) (hφ : ∀ x y, φ x = φ y → x = y)
    (v1 v2 : View) (hv1 : KView v1) (hv2 : KView v2) (hwf1 : v1.g.WellFormed) (hwf2 : v2.g.WellFormed)
    (er1 er2 : List (Nat × Nat × Nat)) (her1 : ErOk v1 er1) (her2 : ErOk v2 er2)
    (hE : SameUEdges v2.g.edges (relabel φ v1.g).edges) :
    ∃ ns1 es1 ns2 es2, kruskal v1 er1 = .ok ns1 es1 ∧ kruskal v2 er2 = .ok ns2 es2 ∧
      es1.length = es2.length ∧ (es1.map (·.w)).sum = (es2.map (·.w)).sum := by
  obtain ⟨A1, run1, -⟩ := kruskal_light v1 hv1 hwf1 er1 her1
  obtain ⟨A2, run2, -⟩ := kruskal_light v2 hv2 hwf2 er2 her2
  exact ⟨_, _, _, _, run1, run2,
    C07_kruskal_respects_iso φ hφ v1 v2 hv1 hv2 hwf1 hwf2 er1 er2 her1 her2 hE _ _ _ _ run1 run2⟩

/-- **min_spanning_tree_prim respects isomorphism, total** -/
theorem C07_prim_respects_iso_total (φ : Nat → Nat) (hφ : ∀ x y, φ x = φ y → x = y)
    (v1 v2 : View) (hv1 : PView v1) (hv2 : PView v2)
    (hE : SameUEdges v2.g.edges (relabel φ v1.g).edges)
    (s : Nat) (rest1 rest2 : List Nat) (hV1 : v1.g.nodes = s :: rest1) (hV2 : v2.g.nodes = φ s :: rest2) :
    ∃ ns1 es1 ns2 es2, prim v1 = .ok ns1 es1 ∧ prim v2 = .ok ns2 es2 ∧
      es1.length = es2.length ∧ (es1.map (·.w)).sum = (es2.map (·.w)).sum := by
  obtain ⟨A1, run1, -⟩ := prim_light v1 hv1 s rest1 hV1
  obtain ⟨A2, run2, -⟩ := prim_light v2 hv2 (φ s) rest2 hV2
  exact ⟨_, _, _, _, run1, run2,
    C07_prim_respects_iso φ hφ v1 v2 hv1 hv2 hE s rest1 rest2 hV1 hV2 _ _ _ _ run1 run2⟩

end W3TotalC12

/-! ## algorithms without a C07 theorem so far: greedy_matching, maximum_matching, all_simple_paths,
dag_transitive_reduction_closure, condensation, TarjanScc reuse -/

section W3Matching
open PetgraphModel.C15 PetgraphModel.C15M PetgraphModel.C15P PetgraphModel.C07W2 PetgraphModel.C07W3

/-- `Joined` (a non-loop edge, direction ignored), matchings and the size of a maximum matching are carried along
by an injective relabeling, in both directions -/
theorem C07_matching_notions_relabel (φ : Nat → Nat) (hφ : ∀ x y, φ x = φ y → x = y) (g : MGraph) :
    (∀ a b, Joined (relabel φ g) (φ a) (φ b) ↔ Joined g a b) ∧
    (∀ M, IsMatching g M → IsMatching (relabel φ g) (mapPairs φ M)) ∧
    (∀ M', IsMatching (relabel φ g) M' → ∃ M, IsMatching g M ∧ mapPairs φ M = M') ∧
    maxMatchingSize (relabel φ g) = maxMatchingSize g :=
  ⟨fun _ _ => joined_relabel_iff hφ g, fun _ h => isMatching_relabel hφ g h, isMatching_relabel_inv φ g,
    maxMatchingSize_relabel hφ g⟩

/-- … and depend only on which pairs of nodes are joined (edge ids, weights, multiplicity, stored orientation,
insertion order are free) -/
theorem C07_matching_notions_presentation (g1 g2 : MGraph) (h : SameJoined g1 g2) :
    (∀ M, IsMatching g1 M ↔ IsMatching g2 M) ∧ maxMatchingSize g1 = maxMatchingSize g2 :=
  ⟨fun _ => isMatching_congr h, maxMatchingSize_congr h⟩

/-- **greedy_matching is valid on both encodings, and each answer is a valid answer for the other**: two views
(any storage type with `to_index` injective below `node_bound` — vacancies allowed —, any neighbour order) of a
graph and of its renaming by an injective `φ` (any presentation joining the same pairs): neither run accesses
`mate` out of bounds, each result is a matching of its own graph, the first result renamed is a matching of the
second graph, and both sizes are bounded by the same maximum.  (The greedy answer itself depends on the
iteration order: the two results need not have the same size.) -/
theorem C07_greedy_matching_respects_iso (φ : Nat → Nat) (hφ : ∀ x y, φ x = φ y → x = y)
    (v1 v2 : View) (hix1 : IxOk v1) (hix2 : IxOk v2) (hwf1 : v1.g.WellFormed) (hwf2 : v2.g.WellFormed)
    (hs1 : ViewSound v1) (hs2 : ViewSound v2) (hg : SameJoined v2.g (relabel φ v1.g)) :
    let M1 := pairsOf (mateTable v1 (greedyInner v1))
    let M2 := pairsOf (mateTable v2 (greedyInner v2))
    (greedyInner v1).fault = false ∧ (greedyInner v2).fault = false ∧
    IsMatching v1.g M1 ∧ IsMatching v2.g M2 ∧ IsMatching v2.g (mapPairs φ M1) ∧
    maxMatchingSize v2.g = maxMatchingSize v1.g ∧
    M1.length ≤ maxMatchingSize v1.g ∧ M2.length ≤ maxMatchingSize v1.g := by
  intro M1 M2
  have G1 := C15T.C15_greedy_valid v1 hix1 hwf1 hs1
  have G2 := C15T.C15_greedy_valid v2 hix2 hwf2 hs2
  have hsz : maxMatchingSize v2.g = maxMatchingSize v1.g :=
    (maxMatchingSize_congr hg).trans (maxMatchingSize_relabel hφ v1.g)
  refine ⟨G1.1, G2.1, G1.2.2.2, G2.2.2.2, (isMatching_congr hg).mpr (isMatching_relabel hφ v1.g G1.2.2.2), hsz,
    maxMatchingSize_upper _ _ G1.2.2.2, ?_⟩
  rw [← hsz]; exact maxMatchingSize_upper _ _ G2.2.2.2

/-- **greedy_matching, encoding independence** (two views of two presentations of the same graph) -/
theorem C07_greedy_matching_encoding_independent
    (v1 v2 : View) (hix1 : IxOk v1) (hix2 : IxOk v2) (hwf1 : v1.g.WellFormed) (hwf2 : v2.g.WellFormed)
    (hs1 : ViewSound v1) (hs2 : ViewSound v2) (hg : SameJoined v1.g v2.g) :
    let M1 := pairsOf (mateTable v1 (greedyInner v1))
    let M2 := pairsOf (mateTable v2 (greedyInner v2))
    (greedyInner v1).fault = false ∧ (greedyInner v2).fault = false ∧
    IsMatching v1.g M1 ∧ IsMatching v2.g M2 ∧ IsMatching v2.g M1 ∧ IsMatching v1.g M2 ∧
    maxMatchingSize v1.g = maxMatchingSize v2.g := by
  intro M1 M2
  have G1 := C15T.C15_greedy_valid v1 hix1 hwf1 hs1
  have G2 := C15T.C15_greedy_valid v2 hix2 hwf2 hs2
  exact ⟨G1.1, G2.1, G1.2.2.2, G2.2.2.2, (isMatching_congr hg).mp G1.2.2.2, (isMatching_congr hg).mpr G2.2.2.2,
    maxMatchingSize_congr hg⟩

/-- **maximum_matching is valid on both encodings** (hypotheses of `C15_maximum_valid` on each view; any two
`mode`s): no fault, each result is a matching of its own graph and — renamed — of the other, the two definitional
maxima coincide, so the per-run maximality judge `len = maxMatchingSize` asks the same of both runs: if the first
result is maximum, the second is maximum iff it has the same number of pairs.  (Maximality of the Gabow model
itself is the open statement `C15_maximum_maximum_statement`.) -/
theorem C07_maximum_matching_respects_iso (φ : Nat → Nat) (hφ : ∀ x y, φ x = φ y → x = y)
    (v1 v2 : View) (mode1 mode2 : Nat) (hix1 : IxOk v1) (hix2 : IxOk v2)
    (hwf1 : v1.g.WellFormed) (hwf2 : v2.g.WellFormed)
    (hex1 : C15T.ViewExact v1) (hex2 : C15T.ViewExact v2) (hvac1 : C15W2.VacOk v1) (hvac2 : C15W2.VacOk v2)
    (hg : SameJoined v2.g (relabel φ v1.g)) :
    let M1 := pairsOf (mateTable v1 (maximumMatching v1 mode1))
    let M2 := pairsOf (mateTable v2 (maximumMatching v2 mode2))
    (maximumMatching v1 mode1).fault = false ∧ (maximumMatching v2 mode2).fault = false ∧
    IsMatching v1.g M1 ∧ IsMatching v2.g M2 ∧ IsMatching v2.g (mapPairs φ M1) ∧
    maxMatchingSize v2.g = maxMatchingSize v1.g ∧
    (IsMaximumMatching v1.g M1 → (IsMaximumMatching v2.g M2 ↔ M2.length = M1.length)) := by
  intro M1 M2
  have V1 := C15T.C15_maximum_valid v1 mode1 hix1 hwf1 hex1 hvac1
  have V2 := C15T.C15_maximum_valid v2 mode2 hix2 hwf2 hex2 hvac2
  have m1 : IsMatching v1.g M1 := mateValid_isMatching _ _ V1.2.2
  have m2 : IsMatching v2.g M2 := mateValid_isMatching _ _ V2.2.2
  have hsz : maxMatchingSize v2.g = maxMatchingSize v1.g :=
    (maxMatchingSize_congr hg).trans (maxMatchingSize_relabel hφ v1.g)
  refine ⟨V1.1, V2.1, m1, m2, (isMatching_congr hg).mpr (isMatching_relabel hφ v1.g m1), hsz, fun hmax => ?_⟩
  rw [isMaximum_iff_size m2, hsz, ← (isMaximum_iff_size m1).mp hmax]

end W3Matching

section W3Paths
open PetgraphModel.C20 PetgraphModel.C07W2 PetgraphModel.C07W3

/-- "simple path from `a` to `b` with a number of intermediate nodes within the bounds" is carried along by an
injective relabeling, and depends only on the adjacency relation -/
theorem C07_simple_path_relabel (φ : Nat → Nat) (hφ : ∀ x y, φ x = φ y → x = y) (g : MGraph) (a b lo : Nat)
    (hi : Option Nat) (p : List Nat) :
    IsSimplePathIn (relabel φ g) (φ a) (φ b) lo hi (p.map φ) ↔ IsSimplePathIn g a b lo hi p :=
  isSimplePathIn_relabel_iff hφ g

/-- **all_simple_paths respects isomorphism**: run to exhaustion on a directed graph and on any presentation of
its renaming by an injective `φ` (another insertion order of the edges — hence another order of the successor
lists —, other edge ids), the iterator yields the same set of paths up to the renaming: `p` is yielded by the
first run iff `p.map φ` is by the second, and the second run yields nothing else.  On simple graphs each path is
yielded once by either run, so the two outputs have the same length. -/
theorem C07_all_simple_paths_respects_iso (φ : Nat → Nat) (hφ : ∀ x y, φ x = φ y → x = y) (g1 g2 : MGraph)
    (hd1 : g1.directed = true) (hd2 : g2.directed = true) (he1 : EndpointsOk g1) (he2 : EndpointsOk g2)
    (hg : SameAdj g2 (relabel φ g1)) (a b lo : Nat) (hi : Option Nat) (hab : a ≠ b)
    (ha1 : a ∈ g1.nodes) (ha2 : φ a ∈ g2.nodes) (f1 f2 : Nat) (out1 out2 : List (List Nat))
    (r1 : Paths.allSimplePaths g1.succ g1.nodes.length a b lo hi f1 = some out1)
    (r2 : Paths.allSimplePaths g2.succ g2.nodes.length (φ a) (φ b) lo hi f2 = some out2) :
    (∀ p, p.map φ ∈ out2 ↔ p ∈ out1) ∧ (∀ q ∈ out2, ∃ p ∈ out1, q = p.map φ) ∧
    (simpleB g1 = true → simpleB g2 = true → out1.length = out2.length) := by
  have E1 := C20T.C20_paths_model_exact g1 a b lo hi f1 out1 hd1 he1 hab ha1 r1
  have E2 := C20T.C20_paths_model_exact g2 (φ a) (φ b) lo hi f2 out2 hd2 he2 (fun h => hab (hφ _ _ h)) ha2 r2
  have key : ∀ p, p.map φ ∈ out2 ↔ p ∈ out1 := fun p => by
    rw [E1.1, E2.1, isSimplePathIn_congr hg]
    exact isSimplePathIn_relabel_iff hφ g1
  have img : ∀ q ∈ out2, ∃ p ∈ out1, q = p.map φ := by
    intro q hq
    obtain ⟨p, rfl⟩ := isSimplePathIn_relabel_image φ g1 ((isSimplePathIn_congr hg).mp ((E2.1 q).mp hq))
    exact ⟨p, (key p).mp hq, rfl⟩
  refine ⟨key, img, fun s1 s2 => ?_⟩
  have nd1 := E1.2 s1
  have nd2 := E2.2 s2
  have hinj : ∀ p q : List Nat, p.map φ = q.map φ → p = q :=
    fun p q h => List.map_injective_iff.mpr (fun x y h => hφ x y h) h
  have nd1' : (out1.map (List.map φ)).Nodup := by
    unfold List.Nodup
    rw [List.pairwise_map]
    exact nd1.imp fun hne e => hne (hinj _ _ e)
  have hperm : (out1.map (List.map φ)).Perm out2 := by
    refine (List.perm_ext_iff_of_nodup nd1' nd2).mpr fun q => ?_
    constructor
    · intro hq
      obtain ⟨p, hp, rfl⟩ := List.mem_map.mp hq
      exact (key p).mpr hp
    · intro hq
      obtain ⟨p, hp, rfl⟩ := img q hq
      exact List.mem_map.mpr ⟨p, hp, rfl⟩
  simpa using hperm.length_eq

/-- **all_simple_paths, encoding independence**: two presentations of the same adjacency relation (another
insertion order of the edges) yield the same set of paths. -/
theorem C07_all_simple_paths_encoding_independent (g1 g2 : MGraph)
    (hd1 : g1.directed = true) (hd2 : g2.directed = true) (he1 : EndpointsOk g1) (he2 : EndpointsOk g2)
    (hg : SameAdj g1 g2) (a b lo : Nat) (hi : Option Nat) (hab : a ≠ b)
    (ha1 : a ∈ g1.nodes) (ha2 : a ∈ g2.nodes) (f1 f2 : Nat) (out1 out2 : List (List Nat))
    (r1 : Paths.allSimplePaths g1.succ g1.nodes.length a b lo hi f1 = some out1)
    (r2 : Paths.allSimplePaths g2.succ g2.nodes.length a b lo hi f2 = some out2) :
    ∀ p, p ∈ out1 ↔ p ∈ out2 := by
  intro p
  rw [(C20T.C20_paths_model_exact g1 a b lo hi f1 out1 hd1 he1 hab ha1 r1).1,
    (C20T.C20_paths_model_exact g2 a b lo hi f2 out2 hd2 he2 hab ha2 r2).1, isSimplePathIn_congr hg]

end W3Paths

section W3Tred
open PetgraphModel.C20 PetgraphModel.C07W2 PetgraphModel.C07W3

theorem C07_covers_relabel (φ : Nat → Nat) (hφ : ∀ x y, φ x = φ y → x = y) (g : MGraph) (u v : Nat) :
    Covers (relabel φ g) (φ u) (φ v) ↔ Covers g u v :=
  covers_relabel_iff hφ g

/-- **dag_transitive_reduction_closure does not depend on which toposort renumbered the DAG**: `rows1`, `rows2`
two toposorted adjacency lists (the format `dag_to_toposorted_adjacency_list` produces, from any two toposorts of
any two encodings) presenting the same DAG up to an injective renumbering `σ` of the indices — then closure row
`σ i` of the second answer is exactly closure row `i` of the first renamed by `σ`, and the same for the reduction. -/
theorem C07_tred_respects_iso (σ : Nat → Nat) (hσ : ∀ x y, σ x = σ y → x = y) (rows1 rows2 : List (List Nat))
    (hts1 : ∀ i x, x ∈ rows1.getD i [] → i < x) (hasc1 : ∀ i, ascending (rows1.getD i []) = true)
    (hts2 : ∀ i x, x ∈ rows2.getD i [] → i < x) (hasc2 : ∀ i, ascending (rows2.getD i []) = true)
    (hg : SameAdj (Tred.rowsGraph rows2) (relabel σ (Tred.rowsGraph rows1)))
    (i : Nat) (hi1 : i < rows1.length) (hi2 : σ i < rows2.length) :
    (∀ y, σ y ∈ (Tred.reductionClosure rows2).2.getD (σ i) [] ↔ y ∈ (Tred.reductionClosure rows1).2.getD i []) ∧
    (∀ y' ∈ (Tred.reductionClosure rows2).2.getD (σ i) [], ∃ y, y' = σ y) ∧
    (∀ x, σ x ∈ (Tred.reductionClosure rows2).1.getD (σ i) [] ↔ x ∈ (Tred.reductionClosure rows1).1.getD i []) := by
  have T1 := C20T.C20_tred_model_correct rows1 hts1 hasc1 i hi1
  have T2 := C20T.C20_tred_model_correct rows2 hts2 hasc2 (σ i) hi2
  refine ⟨fun y => ?_, fun y' hy' => ?_, fun x => ?_⟩
  · rw [T1.1, T2.1, reach1_congr hg]
    exact reach1_relabel_iff _ hσ
  · obtain ⟨y, hy, _⟩ := reach1_relabel_inv _ hσ ((reach1_congr hg).mp ((T2.1 y').mp hy'))
    exact ⟨y, hy⟩
  · rw [T1.2, T2.2, covers_congr hg]
    exact covers_relabel_iff hσ _

end W3Tred

section W3Cond
open PetgraphModel.C09J PetgraphModel.C09M PetgraphModel.C07W2 PetgraphModel.C07W3

/-- the partition into classes of mutual reachability, renamed, is that of the renamed graph, and any two such
partitions of a graph have the same number of classes -/
theorem C07_partition_relabel (φ : Nat → Nat) (hφ : ∀ x y, φ x = φ y → x = y) (g : MGraph)
    (comps comps' : List (List Nat)) (h : PartSpec g comps) (h' : PartSpec (relabel φ g) comps') :
    PartSpec (relabel φ g) (comps.map (List.map φ)) ∧ comps.length = comps'.length := by
  have hr := partSpec_relabel hφ h
  exact ⟨hr, by simpa using partSpec_length_unique hr h'⟩

/-- the partition clause of both `CondSpec` and `CondAcyclicSpec` -/
theorem condensation_part (v : View) (hv : C09P.ViewOk v) (hp : ∀ a b, b ∈ v.pred a ↔ v.g.Adj b a)
    (hwf : v.g.WellFormed) (eo : List Nat) (heo : (eo.filterMap v.edge?).Perm v.g.edges) (acyc : Bool) (c : Cond)
    (h : condensation v eo acyc = some c) : PartSpec v.g c.nodes := by
  cases acyc with
  | false => exact (C09T.C09_condensation v hv hp hwf eo heo c h).part
  | true => exact (C09T.C09_condensation_acyclic v eo hv hp hwf heo c h).part

/-- **condensation respects isomorphism** (either value of `make_acyclic`, possibly different on the two sides):
the condensed graphs of a graph and of any presentation of its renaming have the same number of nodes, the node
weights (member lists) are the same partition up to `φ` — two nodes share a condensed node of the first answer iff
their images share one of the second — and the first answer's node weights, renamed, are a correct partition for
the second graph. -/
theorem C07_condensation_respects_iso (φ : Nat → Nat) (hφ : ∀ x y, φ x = φ y → x = y)
    (v1 v2 : View) (hv1 : C09P.ViewOk v1) (hv2 : C09P.ViewOk v2)
    (hp1 : ∀ a b, b ∈ v1.pred a ↔ v1.g.Adj b a) (hp2 : ∀ a b, b ∈ v2.pred a ↔ v2.g.Adj b a)
    (hwf1 : v1.g.WellFormed) (hwf2 : v2.g.WellFormed)
    (eo1 eo2 : List Nat) (heo1 : (eo1.filterMap v1.edge?).Perm v1.g.edges)
    (heo2 : (eo2.filterMap v2.edge?).Perm v2.g.edges)
    (hn : SameNodes v2.g (relabel φ v1.g)) (hg : SameAdj v2.g (relabel φ v1.g))
    (acyc1 acyc2 : Bool) (c1 c2 : Cond)
    (h1 : condensation v1 eo1 acyc1 = some c1) (h2 : condensation v2 eo2 acyc2 = some c2) :
    c1.nodes.length = c2.nodes.length ∧
    PartSpec v2.g (c1.nodes.map (List.map φ)) ∧
    ∀ x y, (∃ n ∈ c1.nodes, x ∈ n ∧ y ∈ n) ↔ (∃ n ∈ c2.nodes, φ x ∈ n ∧ φ y ∈ n) := by
  have P1 := condensation_part v1 hv1 hp1 hwf1 eo1 heo1 acyc1 c1 h1
  have P2 := condensation_part v2 hv2 hp2 hwf2 eo2 heo2 acyc2 c2 h2
  have P1' : PartSpec v2.g (c1.nodes.map (List.map φ)) := partSpec_congr hn.symm hg.symm (partSpec_relabel hφ P1)
  refine ⟨by simpa using partSpec_length_unique P1' P2, P1', fun x y => ?_⟩
  rw [C09P.part_same_iff P1, C09P.part_same_iff P2]
  have e1 : φ x ∈ v2.g.nodes ↔ x ∈ v1.g.nodes := (hn (φ x)).trans (mem_relabel_nodes v1.g hφ)
  have e2 : SC v2.g (φ x) (φ y) ↔ SC v1.g x y := (sc_congr hg).trans (sc_relabel_iff hφ v1.g)
  rw [e1, e2]

/-- … and with `make_acyclic = false` the condensed graph has one edge per original edge, so equally many on both
sides when the two edge lists are equally long (e.g. the same multiset of arcs up to `φ`) -/
theorem C07_condensation_edge_count (v1 v2 : View) (hv1 : C09P.ViewOk v1) (hv2 : C09P.ViewOk v2)
    (hp1 : ∀ a b, b ∈ v1.pred a ↔ v1.g.Adj b a) (hp2 : ∀ a b, b ∈ v2.pred a ↔ v2.g.Adj b a)
    (hwf1 : v1.g.WellFormed) (hwf2 : v2.g.WellFormed)
    (eo1 eo2 : List Nat) (heo1 : (eo1.filterMap v1.edge?).Perm v1.g.edges)
    (heo2 : (eo2.filterMap v2.edge?).Perm v2.g.edges) (hlen : v1.g.edges.length = v2.g.edges.length)
    (c1 c2 : Cond) (h1 : condensation v1 eo1 false = some c1) (h2 : condensation v2 eo2 false = some c2) :
    c1.edges.length = c2.edges.length := by
  have l1 := (C09T.C09_condensation v1 hv1 hp1 hwf1 eo1 heo1 c1 h1).edges.length_eq
  have l2 := (C09T.C09_condensation v2 hv2 hp2 hwf2 eo2 heo2 c2 h2).edges.length_eq
  simp only [List.length_map] at l1 l2
  omega

/-- **TarjanScc reuse respects isomorphism**: `run` on ANY two clean `TarjanScc` values (stack empty,
`index + |V| ≤ componentcount ≤ usize::MAX` — fresh, or left behind by any number of earlier runs on any graphs)
over two views of a graph and of its renaming: the first answer renamed is a correct answer for the second graph,
the two answers are the same partition, `node_component_index` separates the same pairs of nodes, and both values
are clean again (so the statement applies to the next reuse). -/
theorem C07_tarjan_reuse_respects_iso (φ : Nat → Nat) (hφ : ∀ x y, φ x = φ y → x = y)
    (v1 v2 : View) (hv1 : C09P.ViewOk v1) (hv2 : C09P.ViewOk v2) (hix1 : C09T.IxOk v1) (hix2 : C09T.IxOk v2)
    (hwf1 : v1.g.WellFormed) (hwf2 : v2.g.WellFormed)
    (hn : SameNodes v2.g (relabel φ v1.g)) (hg : SameAdj v2.g (relabel φ v1.g))
    (t1 t2 t1' t2' : TJ) (hst1 : t1.stack = []) (hst2 : t2.stack = [])
    (hB1 : t1.index + v1.g.nodes.length ≤ t1.cc) (hB2 : t2.index + v2.g.nodes.length ≤ t2.cc)
    (hcc1 : t1.cc ≤ usizeMax) (hcc2 : t2.cc ≤ usizeMax)
    (h1 : tjRun v1 t1 = some t1') (h2 : tjRun v2 t2 = some t2') :
    SccSpec v2.g (t1'.out.map (List.map φ)) ∧
    (∀ x y, (∃ c ∈ t1'.out, x ∈ c ∧ y ∈ c) ↔ (∃ c ∈ t2'.out, φ x ∈ c ∧ φ y ∈ c)) ∧
    (∀ x ∈ v1.g.nodes, ∀ y ∈ v1.g.nodes,
      (tjIndex v1 t1' x = tjIndex v1 t1' y ↔ tjIndex v2 t2' (φ x) = tjIndex v2 t2' (φ y))) ∧
    t1'.out.length = t2'.out.length ∧
    (t1'.stack = [] ∧ t1'.index = t1.index ∧ t1'.cc + t1'.out.length = t1.cc) ∧
    (t2'.stack = [] ∧ t2'.index = t2.index ∧ t2'.cc + t2'.out.length = t2.cc) := by
  obtain ⟨S1, I1, st1, ix1, cc1, _⟩ := C09T.C09_tarjan_run v1 hv1 hix1 hwf1 t1 t1' hst1 hB1 hcc1 h1
  obtain ⟨S2, I2, st2, ix2, cc2, _⟩ := C09T.C09_tarjan_run v2 hv2 hix2 hwf2 t2 t2' hst2 hB2 hcc2 h2
  have S1' : SccSpec v2.g (t1'.out.map (List.map φ)) := sccSpec_congr hn.symm hg.symm (sccSpec_relabel hφ S1)
  have same : ∀ x y, (∃ c ∈ t1'.out, x ∈ c ∧ y ∈ c) ↔ (∃ c ∈ t2'.out, φ x ∈ c ∧ φ y ∈ c) := by
    intro x y
    rw [C09P.part_same_iff (C09P.SccSpec.toPart S1), C09P.part_same_iff (C09P.SccSpec.toPart S2)]
    have e1 : φ x ∈ v2.g.nodes ↔ x ∈ v1.g.nodes := (hn (φ x)).trans (mem_relabel_nodes v1.g hφ)
    have e2 : SC v2.g (φ x) (φ y) ↔ SC v1.g x y := (sc_congr hg).trans (sc_relabel_iff hφ v1.g)
    rw [e1, e2]
  refine ⟨S1', same, ?_, ?_, ⟨st1, ix1, cc1⟩, ⟨st2, ix2, cc2⟩⟩
  · intro x hx y hy
    have hx2 : φ x ∈ v2.g.nodes := (hn (φ x)).mpr ((mem_relabel_nodes v1.g hφ).mpr hx)
    have hy2 : φ y ∈ v2.g.nodes := (hn (φ y)).mpr ((mem_relabel_nodes v1.g hφ).mpr hy)
    have a1 := I1.2 x _ y _ (List.mem_map.mpr ⟨x, hx, rfl⟩) (List.mem_map.mpr ⟨y, hy, rfl⟩)
    have a2 := I2.2 (φ x) _ (φ y) _ (List.mem_map.mpr ⟨φ x, hx2, rfl⟩) (List.mem_map.mpr ⟨φ y, hy2, rfl⟩)
    rw [a1, a2]; exact same x y
  · simpa using partSpec_length_unique (C09P.SccSpec.toPart S1') (C09P.SccSpec.toPart S2)

/-- in particular **a reused `TarjanScc` value answers like a fresh one**: the value left by a run on any view
`v0` of any graph, run again on a view of `g`, gives the same partition as a fresh value on another view of
(another presentation of) `g`. -/
theorem C07_tarjan_reuse_same_as_fresh
    (v0 v1 v2 : View) (hv0 : C09P.ViewOk v0) (hv1 : C09P.ViewOk v1) (hv2 : C09P.ViewOk v2)
    (hix0 : C09T.IxOk v0) (hix1 : C09T.IxOk v1) (hix2 : C09T.IxOk v2)
    (hwf0 : v0.g.WellFormed) (hwf1 : v1.g.WellFormed) (hwf2 : v2.g.WellFormed)
    (hs0 : 2 * v0.g.nodes.length + v1.g.nodes.length + 1 ≤ usizeMax) (hs2 : 2 * v2.g.nodes.length + 1 ≤ usizeMax)
    (hn : SameNodes v1.g v2.g) (hg : SameAdj v1.g v2.g)
    (t0 t1 t2 : TJ) (h0 : tjRun v0 {} = some t0) (h1 : tjRun v1 t0 = some t1) (h2 : tjRun v2 {} = some t2) :
    ∀ x y, (∃ c ∈ t1.out, x ∈ c ∧ y ∈ c) ↔ (∃ c ∈ t2.out, x ∈ c ∧ y ∈ c) := by
  obtain ⟨_, _, st0, ix0, cc0, len0⟩ := C09T.C09_tarjan_run v0 hv0 hix0 hwf0 {} t0 rfl
    (by show 1 + v0.g.nodes.length ≤ usizeMax; omega) (Nat.le_refl _) h0
  have hix : t0.index = 1 := ix0
  have hcc : t0.cc + t0.out.length = usizeMax := cc0
  have S1 := (C09T.C09_tarjan_run v1 hv1 hix1 hwf1 t0 t1 st0 (by omega) (by omega) h1).1
  have S2 := (C09T.C09_tarjan_run v2 hv2 hix2 hwf2 {} t2 rfl
    (by show 1 + v2.g.nodes.length ≤ usizeMax; omega) (Nat.le_refl _) h2).1
  intro x y
  rw [C09P.part_same_iff (C09P.SccSpec.toPart S1), C09P.part_same_iff (C09P.SccSpec.toPart S2), hn x, sc_congr hg]

end W3Cond

/-! ## the hypotheses of the wave-3 theorems are satisfiable -/
section W3Examples
open PetgraphModel.Visit PetgraphModel.C07W3 PetgraphModel.C07W2

/-- a view with a vacant index (a `MatrixGraph<Directed>` after `add_node ×3, add_edge 2 0, remove_node 1`):
live ids `0, 2`, `node_count = 2`, `node_bound = 3` -/
def exVacant : Table :=
  { directed := true, ids := some [0, 2], refs := some [(0, 11), (2, 12)], nodeCount := some 2,
    nodeBound := 3, toIx := [(0, 0), (2, 2)], fromIx := [(0, 0), (2, 2)], compact := false,
    erefs := some [⟨200, 2, 0, 7⟩], edgeCount := some 1, edgeBound := none, eix := none,
    nbrs := some [(0, []), (2, [0])], nbrsOut := some [(0, []), (2, [0])], nbrsIn := some [(0, [2]), (2, [])],
    edges := some [(0, []), (2, [⟨200, 2, 0, 7⟩])], edgesOut := some [(0, []), (2, [⟨200, 2, 0, 7⟩])],
    edgesIn := some [(0, [⟨200, 2, 0, 7⟩]), (2, [])],
    adj := some [(0, []), (2, [0])] }

/-- the bridging lemma applies to it: a container of `node_bound` elements is hit in bounds at `to_index 2 = 2` … -/
example : ∃ i, exVacant.toIx.lookup 2 = some i ∧ i < exVacant.nodeBound :=
  C07_to_index_lt_bound [0, 2] exVacant (C06T.C06_checkTable_sound _ _ (by decide)) [0, 2] rfl 2 (by decide)

/-- … while a container of `node_count` elements would not be (what `C07_scratch_safe` excludes for the functions
that accept such graphs) -/
example : exVacant.toIx.lookup 2 = some 2 ∧ scratchLen exVacant .nodeCount = some 2 ∧
    ([0, 0] : List Nat)[2]? = none := by decide

/-- a storage table of C06 in the sense of `StorageTable`: `Graph` after a history with a removal -/
example : StorageTable (graphTable (G.run (G.empty 4294967295 true)
    [.addNode 7, .addNode 8, .addNode 9, .addEdge 0 1 5, .addEdge 1 2 6, .removeNode 0]).1) :=
  .graph _ (C01T.C01_inv_all_histories _ _ _)

/-- `C15T.exampleView` with another index assignment, another bound and the rows in another order -/
def exMatchView2 : View :=
  { g := C15T.exampleView.g,
    nb := 6, ix := [(0, 5), (1, 0), (2, 3), (3, 1)],
    out := [(3, [(2, 3)]), (2, [(3, 3), (0, 2), (1, 1)]), (1, [(2, 1), (0, 0)]), (0, [(2, 2), (1, 0)])],
    inn := [(3, [(2, 3)]), (2, [(3, 3), (0, 2), (1, 1)]), (1, [(2, 1), (0, 0)]), (0, [(2, 2), (1, 0)])] }

/-- the hypotheses of `C07_greedy_matching_encoding_independent` hold for the pair -/
example : C15M.ixOkB exMatchView2 = true ∧ C15M.viewSoundB exMatchView2 = true ∧ C15M.wfB exMatchView2.g = true ∧
    C15M.ixOkB C15T.exampleView = true ∧ C15M.viewSoundB C15T.exampleView = true := by decide

example :
    C15.IsMatching C15T.exampleView.g (C15.pairsOf (C15P.mateTable exMatchView2 (C15M.greedyInner exMatchView2))) :=
  (C07_greedy_matching_encoding_independent C15T.exampleView exMatchView2
    (C15P.ixOkB_sound _ (by decide)) (C15P.ixOkB_sound _ (by decide)) (C15P.wfB_sound _ (by decide))
    (C15P.wfB_sound _ (by decide)) (C15P.viewSoundB_sound _ (by decide)) (C15P.viewSoundB_sound _ (by decide))
    (SameJoined.refl _)).2.2.2.2.2.1

/-- two toposorts (`a, b, c, d` and `a, c, b, d`) of the DAG `a → b, a → c, c → d` give two toposorted adjacency
lists related by the renumbering that swaps 1 and 2 -/
def exSwap : Nat → Nat := fun x => if x = 1 then 2 else if x = 2 then 1 else x

theorem exSwap_inj : ∀ x y, exSwap x = exSwap y → x = y := by
  intro x y h; unfold exSwap at h; split at h <;> split at h <;> (try split at h) <;> (try split at h) <;> omega

theorem exSwap_sameAdj :
    SameAdj (C20.Tred.rowsGraph [[1, 2], [3], [], []]) (relabel exSwap (C20.Tred.rowsGraph [[1, 2], [], [3], []])) := by
  intro a b
  rw [C20.Tred.rowsGraph_adj]
  constructor
  · intro h
    have key : ∀ a' b', a = exSwap a' → b = exSwap b' → b' ∈ ([[1, 2], [], [3], []] : List (List Nat)).getD a' [] →
        (relabel exSwap (C20.Tred.rowsGraph [[1, 2], [], [3], []])).Adj a b := fun a' b' ha hb hm =>
      (adj_relabel_iff exSwap _).mpr ⟨a', b', ha, hb, (C20.Tred.rowsGraph_adj _ _ _).mpr hm⟩
    rcases a with _ | _ | _ | _ | a
    · simp at h
      rcases h with rfl | rfl
      · exact key 0 2 rfl rfl (by simp)
      · exact key 0 1 rfl rfl (by simp)
    · simp at h; subst h; exact key 2 3 rfl rfl (by simp)
    · simp at h
    · simp at h
    · simp at h
  · intro h
    obtain ⟨a', b', rfl, rfl, h'⟩ := (adj_relabel_iff exSwap _).mp h
    rw [C20.Tred.rowsGraph_adj] at h'
    rcases a' with _ | _ | _ | _ | a'
    · simp at h'
      rcases h' with rfl | rfl <;> simp [exSwap]
    · simp at h'
    · simp at h'; subst h'; simp [exSwap]
    · simp at h'
    · simp at h'

theorem exRows_ok (rows : List (List Nat)) (h : rows = [[1, 2], [], [3], []] ∨ rows = [[1, 2], [3], [], []]) :
    (∀ i x, x ∈ rows.getD i [] → i < x) ∧ ∀ i, C20.ascending (rows.getD i []) = true := by
  rcases h with rfl | rfl
  · refine ⟨fun i x h => ?_, fun i => ?_⟩
    · rcases i with _ | _ | _ | _ | i <;> simp at h <;> omega
    · rcases i with _ | _ | _ | _ | i <;> simp [C20.ascending]
  · refine ⟨fun i x h => ?_, fun i => ?_⟩
    · rcases i with _ | _ | _ | _ | i <;> simp at h <;> omega
    · rcases i with _ | _ | _ | _ | i <;> simp [C20.ascending]

/-- `C07_tred_respects_iso` applies to the pair: closure and reduction rows of `a` correspond -/
example : (∀ y, exSwap y ∈ (C20.Tred.reductionClosure [[1, 2], [3], [], []]).2.getD 0 [] ↔
      y ∈ (C20.Tred.reductionClosure [[1, 2], [], [3], []]).2.getD 0 []) :=
  (C07_tred_respects_iso exSwap exSwap_inj _ _ (exRows_ok _ (Or.inl rfl)).1 (exRows_ok _ (Or.inl rfl)).2
    (exRows_ok _ (Or.inr rfl)).1 (exRows_ok _ (Or.inr rfl)).2 exSwap_sameAdj 0 (by decide) (by decide)).1

example : (C20.Tred.reductionClosure [[1, 2], [], [3], []]).2 = [[1, 2, 3], [], [3], []] ∧
    (C20.Tred.reductionClosure [[1, 2], [3], [], []]).2 = [[1, 3, 2], [3], [], []] := by decide

end W3Examples

end PetgraphModel.C07T
