import PetgraphModel.Extracted.Scratch
import PetgraphModel.Proofs.Traversal
import PetgraphModel.Theorems.C13
import PetgraphModel.Theorems.C20
import PetgraphModel.Proofs.C07W2Fas
import PetgraphModel.Theorems.C08
import PetgraphModel.Theorems.C16
import PetgraphModel.Proofs.C07W2Dom
import PetgraphModel.Theorems.C15
import PetgraphModel.Proofs.C07W2Flow
import PetgraphModel.Theorems.C12
import PetgraphModel.Proofs.C07W2Mst
import PetgraphModel.Theorems.C09
import PetgraphModel.Proofs.C07W2Scc
import PetgraphModel.Theorems.C11
import PetgraphModel.Proofs.C07W2Neg
import PetgraphModel.Proofs.C07W2Base
import PetgraphModel.Proofs.C07W2Sp
import PetgraphModel.Theorems.C10
import PetgraphModel.Proofs.C07W3Bounds
import PetgraphModel.Proofs.C07W3Extra
import PetgraphModel.Proofs.C07W5Same
import PetgraphModel.Proofs.C07W5C20
import PetgraphModel.Proofs.C07W5Width
/-
C07 — generic algorithms depend only on the abstract graph, not on its representation.

Part 1 (regenerated from source on every run): the scratch-container table of `src/algo/*.rs`
(`vec![_; E]`, `FixedBitSet::with_capacity(E)`, `resize(E, _)`, `UnionFind::new(E)`, struct-literal fields such
as the `Vf2State` vectors).  `C07_scratch_safe` is about the sizing alone; section "Wave 3" at the end of the file
(`C07_to_index_lt_bound*`, `C07_scratch_in_bounds*`) turns it into "no out-of-bounds access" on the storage tables
of C06.
-/
namespace PetgraphModel.C07T
open PetgraphModel PetgraphModel.Extracted

/-- a scratch container is safe on graphs with vacant indices when it is sized by the bound that
`to_index` is guaranteed to stay below, or is never indexed through `to_index`, or the function
only accepts compactly indexed graphs (where count = bound) -/
def ScratchUse.safe (u : ScratchUse) : Bool :=
  u.compactOnly || !u.indexedByToIndex || u.size == .nodeBound || u.size == .edgeBound

/-- recorded open finding D12: `page_rank` enumerates `0..node_count` and maps back with `from_index` -/
def isKnownException (u : ScratchUse) : Bool := u.file == "algo/page_rank.rs" && u.fn == "page_rank"

/-- **No generic algorithm can index a scratch container out of bounds because of vacant indices**
(for the code as it is in /repo now; D12 excepted). -/
theorem C07_scratch_safe :
    extractionProblems = [] ∧ ∀ u ∈ scratchTable, ScratchUse.safe u = true ∨ isKnownException u = true := by
  decide

/-! Part 2: traversal outputs depend only on the abstract graph (corollaries of the C08 theorems). -/
open PetgraphModel.Trav PetgraphModel.TravProofs PetgraphModel.MGraph

theorem reach_congr {g1 g2 : MGraph} (h : ∀ a b, g1.Adj a b ↔ g2.Adj a b) {a b : Nat} :
    Reach g1 a b → Reach g2 a b := by
  intro hr
  induction hr with
  | refl => exact Reach.refl _
  | step _ hc ih => exact Reach.step ih ((h _ _).mp hc)

/-- Two views (any neighbour iteration order, any index assignment, any storage type) of graphs with
the same adjacency relation make `Dfs` emit the same set of nodes. -/
theorem C07_dfs_encoding_independent (v1 v2 : View) (h1 : ViewOk v1) (h2 : ViewOk v2)
    (hg : ∀ a b, v1.g.Adj a b ↔ v2.g.Adj a b) (s : Nat) (i1 o1 i2 o2 : Nat) (out1 out2 : List Nat) (d1 d2 : Dfs)
    (r1 : dfsAll v1 i1 o1 { stack := [s], disc := [] } [] = some (out1, d1))
    (r2 : dfsAll v2 i2 o2 { stack := [s], disc := [] } [] = some (out2, d2)) :
    ∀ x, x ∈ out1 ↔ x ∈ out2 := by
  intro x
  have a1 := (dfs_fresh v1 h1 s i1 o1 out1 d1 r1).2 x
  have a2 := (dfs_fresh v2 h2 s i2 o2 out2 d2 r2).2 x
  rw [a1, a2]
  exact ⟨reach_congr hg, reach_congr (fun a b => (hg a b).symm)⟩

theorem C07_bfs_encoding_independent (v1 v2 : View) (h1 : ViewOk v1) (h2 : ViewOk v2)
    (hg : ∀ a b, v1.g.Adj a b ↔ v2.g.Adj a b) (s : Nat) (f1 f2 : Nat) (out1 out2 : List Nat)
    (r1 : bfsAll v1 f1 (Bfs.new s) [] = some out1) (r2 : bfsAll v2 f2 (Bfs.new s) [] = some out2) :
    ∀ x, x ∈ out1 ↔ x ∈ out2 := by
  intro x
  have a1 := (bfs_spec v1 h1 s f1 out1 r1).2.1 x
  have a2 := (bfs_spec v2 h2 s f2 out2 r2).2.1 x
  rw [a1, a2]
  exact ⟨reach_congr hg, reach_congr (fun a b => (hg a b).symm)⟩

theorem C07_postorder_encoding_independent (v1 v2 : View) (h1 : ViewOk v1) (h2 : ViewOk v2)
    (hg : ∀ a b, v1.g.Adj a b ↔ v2.g.Adj a b) (s : Nat) (i1 o1 i2 o2 : Nat) (out1 out2 : List Nat) (d1 d2 : Post)
    (r1 : postAll v1 i1 o1 { stack := [s] } [] = some (out1, d1))
    (r2 : postAll v2 i2 o2 { stack := [s] } [] = some (out2, d2)) :
    ∀ x, x ∈ out1 ↔ x ∈ out2 := by
  intro x
  have a1 := (post_set v1 h1 s i1 o1 out1 d1 r1).2 x
  have a2 := (post_set v2 h2 s i2 o2 out2 d2 r2).2 x
  rw [a1, a2]
  exact ⟨reach_congr hg, reach_congr (fun a b => (hg a b).symm)⟩

/-- relabeling: reachability (hence every reachability-defined answer) is carried along by any
injective renaming of the nodes -/
def relabel (φ : Nat → Nat) (g : MGraph) : MGraph :=
  { g with nodes := g.nodes.map φ, edges := g.edges.map fun e => { e with src := φ e.src, tgt := φ e.tgt } }

theorem C07_reach_relabel (φ : Nat → Nat) (g : MGraph) (a b : Nat) (h : Reach g a b) :
    Reach (relabel φ g) (φ a) (φ b) := by
  induction h with
  | refl => exact Reach.refl _
  | step _ hc ih =>
    refine Reach.step ih ?_
    obtain ⟨e, he, hh⟩ := hc
    refine ⟨{ e with src := φ e.src, tgt := φ e.tgt }, List.mem_map.mpr ⟨e, he, rfl⟩, ?_⟩
    rcases hh with ⟨h1, h2⟩ | ⟨h0, h1, h2⟩
    · exact Or.inl ⟨by simp [h1], by simp [h2]⟩
    · exact Or.inr ⟨h0, by simp [h1], by simp [h2]⟩

/-! non-vacuity: the regenerated table is not empty and contains the repaired call sites -/
example : scratchTable.length ≥ 20 := by decide

/-! # Wave 2 — `C07_<A>_respects_iso`

For every algorithm whose mirror model has a full correctness theorem, two corollaries:

* *encoding independence* (`C07_<A>_encoding_independent`): two views — any storage type, any
  iteration order, any `to_index` assignment, any heap tie order — of two presentations of the same
  abstract graph (same adjacency `SameAdj` / same weighted arcs `SameArcs`: order of insertion, edge
  ids and stored orientation of undirected edges are free) give the same answer where it is unique,
  and equally good valid answers otherwise;
* *isomorphism* (`C07_<A>_respects_iso`): the same when the second view presents the graph renamed
  by an injective `φ : Nat → Nat` — the answer is carried along by `φ`.

The specification-level facts (`C07_<notion>_relabel`) are stated separately. -/

theorem relabel_eq (φ : Nat → Nat) (g : MGraph) : relabel φ g = C07W2.relabel φ g := rfl

/-- an `Option`-valued answer is determined by a specification of its `some` values -/
theorem opt_eq_of_spec {α : Type} {a b : Option α} {P : α → Prop} (ha : ∀ y, a = some y ↔ P y)
    (hb : ∀ y, b = some y ↔ P y) : a = b := by
  cases h : a with
  | some y => exact ((hb y).mpr ((ha y).mp h)).symm
  | none =>
    cases h' : b with
    | none => rfl
    | some y => rw [(ha y).mpr ((hb y).mp h')] at h; cases h

/-! ## specification notions under relabeling -/

/-- `Reach` is carried along *exactly* by an injective renaming (the converse of `C07_reach_relabel`) -/
theorem C07_reach_relabel_iff (φ : Nat → Nat) (hφ : ∀ x y, φ x = φ y → x = y) (g : MGraph) (a b : Nat) :
    Reach (relabel φ g) (φ a) (φ b) ↔ Reach g a b :=
  C07W2.reach_relabel_iff g hφ

/-- … and what is reachable from an image is an image -/
theorem C07_reach_relabel_image (φ : Nat → Nat) (hφ : ∀ x y, φ x = φ y → x = y) (g : MGraph) (a y : Nat)
    (h : Reach (relabel φ g) (φ a) y) : ∃ b, y = φ b ∧ Reach g a b :=
  C07W2.reach_relabel_inv g hφ h

theorem C07_reach1_relabel (φ : Nat → Nat) (hφ : ∀ x y, φ x = φ y → x = y) (g : MGraph) (a b : Nat) :
    Reach1 (relabel φ g) (φ a) (φ b) ↔ Reach1 g a b :=
  C07W2.reach1_relabel_iff g hφ

theorem C07_walkcost_relabel (φ : Nat → Nat) (hφ : ∀ x y, φ x = φ y → x = y) (g : MGraph) (a b : Nat) (c : Int) :
    WalkCost (relabel φ g) (φ a) (φ b) c ↔ WalkCost g a b c :=
  C07W2.walkCost_relabel_iff g hφ

theorem C07_shortest_relabel (φ : Nat → Nat) (hφ : ∀ x y, φ x = φ y → x = y) (g : MGraph) (s v : Nat) (d : Int) :
    IsShortest (relabel φ g) (φ s) (φ v) d ↔ IsShortest g s v d :=
  C07W2.isShortest_relabel_iff g hφ

theorem C07_kthcost_relabel (φ : Nat → Nat) (hφ : ∀ x y, φ x = φ y → x = y) (g : MGraph) (s v k : Nat) (c : Int) :
    C10P.KthCost (relabel φ g) (φ s) (φ v) k c ↔ C10P.KthCost g s v k c :=
  C07W2.kthCost_relabel_iff hφ g s v k c

theorem C07_wellformed_relabel (φ : Nat → Nat) (hφ : ∀ x y, φ x = φ y → x = y) (g : MGraph)
    (h : g.WellFormed) : (relabel φ g).WellFormed :=
  C07W2.wellFormed_relabel g hφ h

/-- the shortest-walk cost depends only on the set of weighted arcs -/
theorem C07_shortest_presentation (g1 g2 : MGraph) (h : C07W2.SameArcs g1 g2) (s v : Nat) (d : Int) :
    IsShortest g1 s v d ↔ IsShortest g2 s v d :=
  C07W2.isShortest_congr h

/-- the k-th cheapest walk cost depends only on the multiset of weighted arcs -/
theorem C07_kthcost_presentation (g1 g2 : MGraph) (h : g1.arcs.Perm g2.arcs) (s v k : Nat) (c : Int) :
    C10P.KthCost g1 s v k c ↔ C10P.KthCost g2 s v k c :=
  C07W2.kthCost_perm h s v k c

/-! ## C10 — dijkstra, k_shortest_path, astar -/
section C10
open PetgraphModel.C10P PetgraphModel.SP PetgraphModel.C07W2

/-- **dijkstra, encoding independence**: two views of two presentations of the same weighted arcs, any
two min-heap tie orders: without goal the two maps are equal as functions (same keys, same costs);
with goal `t` the goal's entry is the same. -/
theorem C07_dijkstra_encoding_independent (pop1 pop2 : Pop) (hp1 : IsMinPop pop1) (hp2 : IsMinPop pop2)
    (v1 v2 : View) (hv1 : ViewArcs v1) (hv2 : ViewArcs v2) (hw : NonNeg v1.g)
    (hg : SameArcs v1.g v2.g) (s : Nat) (goal : Option Nat) (m1 m2 : List (Nat × Int))
    (r1 : SP.dijkstra pop1 v1 s goal = some m1) (r2 : SP.dijkstra pop2 v2 s goal = some m2) :
    (goal = none → ∀ x, amGet m1 x = amGet m2 x) ∧ (∀ t, goal = some t → amGet m1 t = amGet m2 t) := by
  have D1 := C10T.C10_dijkstra pop1 hp1 v1 hv1 hw s goal m1 r1
  have D2 := C10T.C10_dijkstra pop2 hp2 v2 hv2 (nonNeg_congr hg hw) s goal m2 r2
  refine ⟨fun hn x => ?_, fun t ht => ?_⟩
  · exact opt_eq_of_spec (fun y => (D1.2.1 hn).1 x y)
      (fun y => ((D2.2.1 hn).1 x y).trans (isShortest_congr hg).symm)
  · exact opt_eq_of_spec (fun y => (D1.2.2 t ht).1 y)
      (fun y => ((D2.2.2 t ht).1 y).trans (isShortest_congr hg).symm)

/-- **dijkstra respects isomorphism**: if the second view presents the arcs of the first graph renamed
by an injective `φ`, the map computed from `φ s` is the first map carried along by `φ` — same cost at
`φ x` as at `x`, and no key outside the image of `φ`. -/
theorem C07_dijkstra_respects_iso (φ : Nat → Nat) (hφ : ∀ x y, φ x = φ y → x = y)
    (pop1 pop2 : Pop) (hp1 : IsMinPop pop1) (hp2 : IsMinPop pop2)
    (v1 v2 : View) (hv1 : ViewArcs v1) (hv2 : ViewArcs v2) (hw : NonNeg v1.g)
    (hg : SameArcs v2.g (relabel φ v1.g)) (s : Nat) (m1 m2 : List (Nat × Int))
    (r1 : SP.dijkstra pop1 v1 s none = some m1) (r2 : SP.dijkstra pop2 v2 (φ s) none = some m2) :
    (∀ x, amGet m2 (φ x) = amGet m1 x) ∧ (∀ y c, amGet m2 y = some c → ∃ x, y = φ x) := by
  have hw2 : NonNeg v2.g := nonNeg_congr (SameArcs.symm hg) (nonNeg_relabel φ v1.g hw)
  have D1 := (C10T.C10_dijkstra pop1 hp1 v1 hv1 hw s none m1 r1).2.1 rfl
  have D2 := (C10T.C10_dijkstra pop2 hp2 v2 hv2 hw2 (φ s) none m2 r2).2.1 rfl
  refine ⟨fun x => ?_, fun y c hy => ?_⟩
  · exact opt_eq_of_spec
      (fun d => ((D2.1 (φ x) d).trans (isShortest_congr hg)).trans (isShortest_relabel_iff v1.g hφ))
      (fun d => D1.1 x d)
  · have hsh := ((D2.1 y c).mp hy).1
    obtain ⟨b, hb, _⟩ := walkCost_relabel_inv v1.g hφ ((walkCost_congr hg).mp hsh)
    exact ⟨b, hb⟩

/-- **dijkstra with a goal respects isomorphism**: the goal's entry is carried along. -/
theorem C07_dijkstra_goal_respects_iso (φ : Nat → Nat) (hφ : ∀ x y, φ x = φ y → x = y)
    (pop1 pop2 : Pop) (hp1 : IsMinPop pop1) (hp2 : IsMinPop pop2)
    (v1 v2 : View) (hv1 : ViewArcs v1) (hv2 : ViewArcs v2) (hw : NonNeg v1.g)
    (hg : SameArcs v2.g (relabel φ v1.g)) (s t : Nat) (m1 m2 : List (Nat × Int))
    (r1 : SP.dijkstra pop1 v1 s (some t) = some m1) (r2 : SP.dijkstra pop2 v2 (φ s) (some (φ t)) = some m2) :
    amGet m2 (φ t) = amGet m1 t := by
  have hw2 : NonNeg v2.g := nonNeg_congr (SameArcs.symm hg) (nonNeg_relabel φ v1.g hw)
  have D1 := (C10T.C10_dijkstra pop1 hp1 v1 hv1 hw s (some t) m1 r1).2.2 t rfl
  have D2 := (C10T.C10_dijkstra pop2 hp2 v2 hv2 hw2 (φ s) (some (φ t)) m2 r2).2.2 (φ t) rfl
  exact opt_eq_of_spec
    (fun d => ((D2.1 d).trans (isShortest_congr hg)).trans (isShortest_relabel_iff v1.g hφ))
    (fun d => D1.1 d)

/-- **k_shortest_path, encoding independence** (every `k ≥ 1`, no goal): two views (any row order
within the multiset condition `ViewArcsM`, any injective `to_index` below `node_bound`, any tie order)
of graphs with the same *multiset* of arcs (any insertion order, edge ids, stored orientation of
undirected edges) give the same map. -/
theorem C07_kshortest_encoding_independent (pop1 pop2 : Pop) (hp1 : IsMinPop pop1) (hp2 : IsMinPop pop2)
    (v1 v2 : View) (hv1 : ViewArcsM v1) (hv2 : ViewArcsM v2) (hw : NonNeg v1.g)
    (hg : v1.g.arcs.Perm v2.g.arcs) (s k : Nat) (hk : 1 ≤ k)
    (hix1 : C10P.IxOk v1 s) (hinj1 : IxInj v1 s) (hix2 : C10P.IxOk v2 s) (hinj2 : IxInj v2 s)
    (m1 m2 : List (Nat × Int))
    (r1 : kShortestPath pop1 v1 s none k = .done m1) (r2 : kShortestPath pop2 v2 s none k = .done m2) :
    ∀ x, amGet m1 x = amGet m2 x := by
  have hw2 : NonNeg v2.g := nonNeg_perm hg hw
  have K1 := C10T.C10_kshortest pop1 hp1 v1 hv1 hw s k hk hix1 hinj1 m1 r1
  have K2 := C10T.C10_kshortest pop2 hp2 v2 hv2 hw2 s k hk hix2 hinj2 m2 r2
  intro x
  exact opt_eq_of_spec (fun c => K1 x c) (fun c => (K2 x c).trans (kthCost_perm hg s x k c).symm)

/-- **k_shortest_path respects isomorphism**: the k-th cheapest walk costs are carried along by `φ`,
and the renamed run has no key outside the image of `φ`. -/
theorem C07_kshortest_respects_iso (φ : Nat → Nat) (hφ : ∀ x y, φ x = φ y → x = y)
    (pop1 pop2 : Pop) (hp1 : IsMinPop pop1) (hp2 : IsMinPop pop2)
    (v1 v2 : View) (hv1 : ViewArcsM v1) (hv2 : ViewArcsM v2) (hw : NonNeg v1.g)
    (hg : v2.g.arcs.Perm (relabel φ v1.g).arcs) (s k : Nat) (hk : 1 ≤ k)
    (hix1 : C10P.IxOk v1 s) (hinj1 : IxInj v1 s) (hix2 : C10P.IxOk v2 (φ s)) (hinj2 : IxInj v2 (φ s))
    (m1 m2 : List (Nat × Int))
    (r1 : kShortestPath pop1 v1 s none k = .done m1) (r2 : kShortestPath pop2 v2 (φ s) none k = .done m2) :
    (∀ x, amGet m2 (φ x) = amGet m1 x) ∧ (∀ y c, amGet m2 y = some c → ∃ x, y = φ x) := by
  have hw2 : NonNeg v2.g := nonNeg_perm hg.symm (nonNeg_relabel φ v1.g hw)
  have K1 := C10T.C10_kshortest pop1 hp1 v1 hv1 hw s k hk hix1 hinj1 m1 r1
  have K2 := C10T.C10_kshortest pop2 hp2 v2 hv2 hw2 (φ s) k hk hix2 hinj2 m2 r2
  refine ⟨fun x => ?_, fun y c hy => ?_⟩
  · exact opt_eq_of_spec
      (fun c => ((K2 (φ x) c).trans (kthCost_perm hg _ _ k c)).trans (kthCost_relabel_iff hφ v1.g s x k c))
      (fun c => K1 x c)
  · exact kthCost_relabel_image hφ v1.g hk ((kthCost_perm hg _ _ k c).mp ((K2 y c).mp hy))

/-- what the total-correctness theorem `C10_astar` determines of an answer: `None` iff no goal is
reachable, otherwise the cost of a cheapest walk to a goal -/
theorem astar_cost_spec (pop : Pop) (hp : IsMinPop pop) (v : View) (hv : ViewArcs v) (hw : NonNeg v.g)
    (s : Nat) (isGoal : Nat → Bool) (h : Nat → Int) (hadm : Admissible v.g isGoal h) (fuel : Nat)
    (hf : astarBound v.g s ≤ fuel) :
    (SP.astar pop v s isGoal h fuel = .notFound ∧ ∀ t, isGoal t = true → ¬ Reach v.g s t) ∨
    ∃ cost p, SP.astar pop v s isGoal h fuel = .found cost p ∧
      (∃ t, isGoal t = true ∧ WalkCost v.g s t cost) ∧
      ∀ t' c', isGoal t' = true → WalkCost v.g s t' c' → cost ≤ c' := by
  obtain ⟨h1, h2, h3⟩ := C10T.C10_astar pop hp v hv hw s isGoal h fuel hf
  rcases h2 with hn | ⟨cost, p, hc⟩
  · exact Or.inl ⟨hn, h1.mp hn⟩
  · obtain ⟨t, ht, _, _, hwc, hopt⟩ := h3 cost p hc
    exact Or.inr ⟨cost, p, hc, ⟨t, ht, hwc⟩, (hopt hadm).1⟩

/-- **astar respects isomorphism (and the encoding)**: the second view presents the arcs of the first
graph renamed by an injective `φ` (take `φ = id`-like renamings for pure re-encodings), the goal
predicate is carried along, the two heuristics may be ANY two admissible ones, the tie orders any:
both runs answer `None` or both answer `Some`, and then with the same cost (the paths may differ —
they are both optimal by `C10_astar`). -/
theorem C07_astar_respects_iso (φ : Nat → Nat) (hφ : ∀ x y, φ x = φ y → x = y)
    (pop1 pop2 : Pop) (hp1 : IsMinPop pop1) (hp2 : IsMinPop pop2)
    (v1 v2 : View) (hv1 : ViewArcs v1) (hv2 : ViewArcs v2) (hw : NonNeg v1.g)
    (hg : SameArcs v2.g (relabel φ v1.g)) (s : Nat) (goal1 goal2 : Nat → Bool)
    (hgoal : ∀ x, goal2 (φ x) = goal1 x) (h1 h2 : Nat → Int)
    (ha1 : Admissible v1.g goal1 h1) (ha2 : Admissible v2.g goal2 h2) (f1 f2 : Nat)
    (hf1 : astarBound v1.g s ≤ f1) (hf2 : astarBound v2.g (φ s) ≤ f2) :
    (SP.astar pop1 v1 s goal1 h1 f1 = .notFound ↔ SP.astar pop2 v2 (φ s) goal2 h2 f2 = .notFound) ∧
    ∀ c1 p1 c2 p2, SP.astar pop1 v1 s goal1 h1 f1 = .found c1 p1 →
      SP.astar pop2 v2 (φ s) goal2 h2 f2 = .found c2 p2 → c1 = c2 := by
  have hw2 : NonNeg v2.g := nonNeg_congr (SameArcs.symm hg) (nonNeg_relabel φ v1.g hw)
  have A1 := astar_cost_spec pop1 hp1 v1 hv1 hw s goal1 h1 ha1 f1 hf1
  have A2 := astar_cost_spec pop2 hp2 v2 hv2 hw2 (φ s) goal2 h2 ha2 f2 hf2
  -- transport of walks between the two graphs
  have fwd : ∀ t c, WalkCost v1.g s t c → WalkCost v2.g (φ s) (φ t) c :=
    fun t c hwc => (walkCost_congr hg).mpr (walkCost_relabel φ v1.g hwc)
  have bwd : ∀ y c, WalkCost v2.g (φ s) y c → ∃ t, y = φ t ∧ WalkCost v1.g s t c :=
    fun y c hwc => walkCost_relabel_inv v1.g hφ ((walkCost_congr hg).mp hwc)
  rcases A1 with ⟨e1, n1⟩ | ⟨c1, p1, e1, ⟨t1, g1, w1⟩, o1⟩ <;>
    rcases A2 with ⟨e2, n2⟩ | ⟨c2, p2, e2, ⟨t2, g2, w2⟩, o2⟩
  · refine ⟨⟨fun _ => e2, fun _ => e1⟩, ?_⟩
    intro c1 p1 c2 p2 hc; rw [e1] at hc; cases hc
  · exfalso
    obtain ⟨t, rfl, hwt⟩ := bwd t2 c2 w2
    exact n1 t (by rw [← hgoal]; exact g2) ((DistProofs.walk_iff_reach _ _ _).mp ⟨c2, hwt⟩)
  · exfalso
    exact n2 (φ t1) (by rw [hgoal]; exact g1) ((DistProofs.walk_iff_reach _ _ _).mp ⟨c1, fwd t1 c1 w1⟩)
  · refine ⟨⟨fun h => (by rw [e1] at h; cases h), fun h => (by rw [e2] at h; cases h)⟩, ?_⟩
    intro c1' p1' c2' p2' hc1 hc2
    rw [e1] at hc1; rw [e2] at hc2
    cases hc1; cases hc2
    have le1 : c2 ≤ c1 := o2 (φ t1) c1 (by rw [hgoal]; exact g1) (fwd t1 c1 w1)
    obtain ⟨t, rfl, hwt⟩ := bwd t2 c2 w2
    have le2 : c1 ≤ c2 := o1 t c2 (by rw [← hgoal]; exact g2) hwt
    omega

/-- **astar, encoding independence**: the special case of two views of the same weighted arcs. -/
theorem C07_astar_encoding_independent (pop1 pop2 : Pop) (hp1 : IsMinPop pop1) (hp2 : IsMinPop pop2)
    (v1 v2 : View) (hv1 : ViewArcs v1) (hv2 : ViewArcs v2) (hw : NonNeg v1.g)
    (hg : SameArcs v1.g v2.g) (s : Nat) (goal : Nat → Bool) (h1 h2 : Nat → Int)
    (ha1 : Admissible v1.g goal h1) (ha2 : Admissible v2.g goal h2) (f1 f2 : Nat)
    (hf1 : astarBound v1.g s ≤ f1) (hf2 : astarBound v2.g s ≤ f2) :
    (SP.astar pop1 v1 s goal h1 f1 = .notFound ↔ SP.astar pop2 v2 s goal h2 f2 = .notFound) ∧
    ∀ c1 p1 c2 p2, SP.astar pop1 v1 s goal h1 f1 = .found c1 p1 →
      SP.astar pop2 v2 s goal h2 f2 = .found c2 p2 → c1 = c2 := by
  have hw2 : NonNeg v2.g := nonNeg_congr hg hw
  have A1 := astar_cost_spec pop1 hp1 v1 hv1 hw s goal h1 ha1 f1 hf1
  have A2 := astar_cost_spec pop2 hp2 v2 hv2 hw2 s goal h2 ha2 f2 hf2
  rcases A1 with ⟨e1, n1⟩ | ⟨c1, p1, e1, ⟨t1, g1, w1⟩, o1⟩ <;>
    rcases A2 with ⟨e2, n2⟩ | ⟨c2, p2, e2, ⟨t2, g2, w2⟩, o2⟩
  · refine ⟨⟨fun _ => e2, fun _ => e1⟩, ?_⟩
    intro c1 p1 c2 p2 hc; rw [e1] at hc; cases hc
  · exfalso
    exact n1 t2 g2 ((DistProofs.walk_iff_reach _ _ _).mp ⟨c2, (walkCost_congr hg).mpr w2⟩)
  · exfalso
    exact n2 t1 g1 ((DistProofs.walk_iff_reach _ _ _).mp ⟨c1, (walkCost_congr hg).mp w1⟩)
  · refine ⟨⟨fun h => (by rw [e1] at h; cases h), fun h => (by rw [e2] at h; cases h)⟩, ?_⟩
    intro c1' p1' c2' p2' hc1 hc2
    rw [e1] at hc1; rw [e2] at hc2
    cases hc1; cases hc2
    have le1 : c2 ≤ c1 := o2 t1 c1 g1 ((walkCost_congr hg).mp w1)
    have le2 : c1 ≤ c2 := o1 t2 c2 g2 ((walkCost_congr hg).mpr w2)
    omega

end C10

/-! ## C11 — bellman_ford, spfa, floyd_warshall -/
section C11
open PetgraphModel.C11M PetgraphModel.C11MP PetgraphModel.C11P PetgraphModel.C07W2

theorem C07_negcycle_relabel (φ : Nat → Nat) (hφ : ∀ x y, φ x = φ y → x = y) (g : MGraph) (s : Nat) :
    (NegCycleReachable (relabel φ g) (φ s) ↔ NegCycleReachable g s) ∧ (NegCycle (relabel φ g) ↔ NegCycle g) :=
  ⟨negCycleReachable_relabel_iff hφ g s, negCycle_relabel_iff hφ g⟩

theorem C07_negcycle_presentation (g1 g2 : MGraph) (h : SameArcs g1 g2) (s : Nat) :
    (NegCycleReachable g1 s ↔ NegCycleReachable g2 s) ∧ (NegCycle g1 ↔ NegCycle g2) :=
  ⟨negCycleReachable_congr h s, negCycle_congr h⟩

/-- the distance table of an `Ok` result of the `bellman_ford` model is exactly the shortest-walk costs -/
theorem bellman_ford_exact (v : View) (hv : C11MP.ViewArcs v) (s : Nat) (st : BF)
    (h : bellmanFord v s = some st) : ∀ x y, tget st.d x = some y ↔ IsShortest v.g s x y :=
  let r := C11T.C11_bellman_ford_ok v hv s st h
  exact_of_sound_total (get := fun x => tget st.d x) r.1 r.2.1

/-- **bellman_ford respects isomorphism**: if the second view presents the arcs of the first graph
renamed by an injective `φ`, then both runs err or both answer `Ok` (the verdict is "a negative cycle is
reachable", a property of the abstract graph), and the `Ok` distance tables correspond under `φ`.
(The predecessor tables are each a shortest-path tree — `C11_bellman_ford_tree` — but ties between
equally short paths may be resolved differently.) -/
theorem C07_bellman_ford_respects_iso (φ : Nat → Nat) (hφ : ∀ x y, φ x = φ y → x = y)
    (v1 v2 : View) (hv1 : C11MP.ViewArcs v1) (hv2 : C11MP.ViewArcs v2)
    (hwf1 : v1.g.WellFormed) (hwf2 : v2.g.WellFormed)
    (hg : SameArcs v2.g (relabel φ v1.g)) (s : Nat) (hs1 : s ∈ v1.g.nodes) (hs2 : φ s ∈ v2.g.nodes) :
    (bellmanFord v1 s = none ↔ bellmanFord v2 (φ s) = none) ∧
    ∀ st1 st2, bellmanFord v1 s = some st1 → bellmanFord v2 (φ s) = some st2 →
      (∀ x, tget st2.d (φ x) = tget st1.d x) ∧ (∀ y c, tget st2.d y = some c → ∃ x, y = φ x) := by
  refine ⟨?_, fun st1 st2 r1 r2 => ⟨fun x => ?_, fun y c hy => ?_⟩⟩
  · rw [C11T.C11_bellman_ford_err_iff v1 hv1 hwf1 s hs1, C11T.C11_bellman_ford_err_iff v2 hv2 hwf2 (φ s) hs2]
    exact ((negCycleReachable_congr hg (φ s)).trans (negCycleReachable_relabel_iff hφ v1.g s)).symm
  · exact opt_eq_of_spec
      (fun d => ((bellman_ford_exact v2 hv2 (φ s) st2 r2 (φ x) d).trans (isShortest_congr hg)).trans
        (isShortest_relabel_iff v1.g hφ))
      (fun d => bellman_ford_exact v1 hv1 s st1 r1 x d)
  · have hsh := ((bellman_ford_exact v2 hv2 (φ s) st2 r2 y c).mp hy).1
    obtain ⟨b, hb, _⟩ := walkCost_relabel_inv v1.g hφ ((walkCost_congr hg).mp hsh)
    exact ⟨b, hb⟩

/-- **bellman_ford, encoding independence**: two views of two presentations of the same weighted arcs. -/
theorem C07_bellman_ford_encoding_independent
    (v1 v2 : View) (hv1 : C11MP.ViewArcs v1) (hv2 : C11MP.ViewArcs v2)
    (hwf1 : v1.g.WellFormed) (hwf2 : v2.g.WellFormed)
    (hg : SameArcs v1.g v2.g) (s : Nat) (hs1 : s ∈ v1.g.nodes) (hs2 : s ∈ v2.g.nodes) :
    (bellmanFord v1 s = none ↔ bellmanFord v2 s = none) ∧
    ∀ st1 st2, bellmanFord v1 s = some st1 → bellmanFord v2 s = some st2 →
      ∀ x, tget st1.d x = tget st2.d x := by
  refine ⟨?_, fun st1 st2 r1 r2 x => ?_⟩
  · rw [C11T.C11_bellman_ford_err_iff v1 hv1 hwf1 s hs1, C11T.C11_bellman_ford_err_iff v2 hv2 hwf2 s hs2,
      negCycleReachable_congr hg]
  · exact opt_eq_of_spec (fun d => bellman_ford_exact v1 hv1 s st1 r1 x d)
      (fun d => (bellman_ford_exact v2 hv2 s st2 r2 x d).trans (isShortest_congr hg).symm)

/-- **find_negative_cycle respects isomorphism** in what is determined: `None` on one side iff `None`
on the other (that a returned sequence is a closed walk of negative cost — the former finding D15, repaired in
/repo — is `C11_find_negative_cycle_closed_walk`; which closed walk is returned depends on the relaxation order). -/
theorem C07_find_negative_cycle_respects_iso (φ : Nat → Nat) (hφ : ∀ x y, φ x = φ y → x = y)
    (v1 v2 : View) (hv1 : C11MP.ViewArcs v1) (hv2 : C11MP.ViewArcs v2)
    (hwf1 : v1.g.WellFormed) (hwf2 : v2.g.WellFormed)
    (hg : SameArcs v2.g (relabel φ v1.g)) (s : Nat) (hs1 : s ∈ v1.g.nodes) (hs2 : φ s ∈ v2.g.nodes) :
    findNegativeCycle v1 s = .none ↔ findNegativeCycle v2 (φ s) = .none := by
  have h1 := C11T.C11_find_negative_cycle_some_iff v1 hv1 hwf1 s hs1
  have h2 := C11T.C11_find_negative_cycle_some_iff v2 hv2 hwf2 (φ s) hs2
  have h3 := (negCycleReachable_congr hg (φ s)).trans (negCycleReachable_relabel_iff hφ v1.g s)
  constructor
  · intro h; exact Classical.byContradiction fun hne => (h1.mpr (h3.mp (h2.mp hne))) h
  · intro h; exact Classical.byContradiction fun hne => (h2.mpr (h3.mpr (h1.mp hne))) h

/-- the distance table of an `Ok` result of the `spfa` model (under the no-overflow condition of
`C11_spfa_ok`) is exactly the shortest-walk costs -/
theorem spfa_exact (B : Meas) (hB : 0 < B.max) (v : View) (hv : C11MP.ViewArcs v) (s : Nat) (st : SP)
    (h : spfa B v s = some (some st))
    (hfit : ∀ a b w, (a, b, w) ∈ v.g.arcs → ∀ x, tget st.d a = some x → B.min ≤ x + w ∧ x + w < B.max) :
    ∀ x y, tget st.d x = some y ↔ IsShortest v.g s x y :=
  let r := C11T.C11_spfa_ok B hB v hv s st h hfit
  exact_of_sound_total (get := fun x => tget st.d x) (fun x y hx => (r.1 x y hx).1) r.2.1

/-- **spfa respects isomorphism** (any two cost types, each wide enough for its own result): the `Ok`
distance tables correspond under `φ`. -/
theorem C07_spfa_respects_iso (φ : Nat → Nat) (hφ : ∀ x y, φ x = φ y → x = y)
    (B1 B2 : Meas) (hB1 : 0 < B1.max) (hB2 : 0 < B2.max)
    (v1 v2 : View) (hv1 : C11MP.ViewArcs v1) (hv2 : C11MP.ViewArcs v2)
    (hg : SameArcs v2.g (relabel φ v1.g)) (s : Nat) (st1 st2 : SP)
    (r1 : spfa B1 v1 s = some (some st1)) (r2 : spfa B2 v2 (φ s) = some (some st2))
    (hfit1 : ∀ a b w, (a, b, w) ∈ v1.g.arcs → ∀ x, tget st1.d a = some x → B1.min ≤ x + w ∧ x + w < B1.max)
    (hfit2 : ∀ a b w, (a, b, w) ∈ v2.g.arcs → ∀ x, tget st2.d a = some x → B2.min ≤ x + w ∧ x + w < B2.max) :
    (∀ x, tget st2.d (φ x) = tget st1.d x) ∧ (∀ y c, tget st2.d y = some c → ∃ x, y = φ x) := by
  have E1 := spfa_exact B1 hB1 v1 hv1 s st1 r1 hfit1
  have E2 := spfa_exact B2 hB2 v2 hv2 (φ s) st2 r2 hfit2
  refine ⟨fun x => ?_, fun y c hy => ?_⟩
  · exact opt_eq_of_spec
      (fun d => ((E2 (φ x) d).trans (isShortest_congr hg)).trans (isShortest_relabel_iff v1.g hφ))
      (fun d => E1 x d)
  · obtain ⟨b, hb, _⟩ := walkCost_relabel_inv v1.g hφ ((walkCost_congr hg).mp ((E2 y c).mp hy).1)
    exact ⟨b, hb⟩

/-- **spfa, encoding independence** — and agreement with `bellman_ford` on any view of the same arcs. -/
theorem C07_spfa_encoding_independent
    (B1 B2 : Meas) (hB1 : 0 < B1.max) (hB2 : 0 < B2.max)
    (v1 v2 : View) (hv1 : C11MP.ViewArcs v1) (hv2 : C11MP.ViewArcs v2)
    (hg : SameArcs v1.g v2.g) (s : Nat) (st1 st2 : SP)
    (r1 : spfa B1 v1 s = some (some st1)) (r2 : spfa B2 v2 s = some (some st2))
    (hfit1 : ∀ a b w, (a, b, w) ∈ v1.g.arcs → ∀ x, tget st1.d a = some x → B1.min ≤ x + w ∧ x + w < B1.max)
    (hfit2 : ∀ a b w, (a, b, w) ∈ v2.g.arcs → ∀ x, tget st2.d a = some x → B2.min ≤ x + w ∧ x + w < B2.max) :
    (∀ x, tget st1.d x = tget st2.d x) ∧
    ∀ v3 (_ : C11MP.ViewArcs v3) (_ : SameArcs v1.g v3.g) st3, bellmanFord v3 s = some st3 →
      ∀ x, tget st1.d x = tget st3.d x := by
  have E1 := spfa_exact B1 hB1 v1 hv1 s st1 r1 hfit1
  have E2 := spfa_exact B2 hB2 v2 hv2 s st2 r2 hfit2
  refine ⟨fun x => ?_, fun v3 hv3 hg3 st3 r3 x => ?_⟩
  · exact opt_eq_of_spec (fun d => E1 x d) (fun d => (E2 x d).trans (isShortest_congr hg).symm)
  · exact opt_eq_of_spec (fun d => E1 x d)
      (fun d => (bellman_ford_exact v3 hv3 s st3 r3 x d).trans (isShortest_congr hg3).symm)

/-- **spfa's verdict respects isomorphism**: under the hypotheses of `C11_spfa_err` for the first run
and of `C11_spfa_ok` for the second, it cannot be that the first reports `NegativeCycle` while the
second answers `Ok`. -/
theorem C07_spfa_verdict_respects_iso (φ : Nat → Nat) (hφ : ∀ x y, φ x = φ y → x = y)
    (B1 B2 : Meas) (hB2 : 0 < B2.max)
    (v1 v2 : View) (hv1 : C11MP.ViewArcs v1) (hv2 : C11MP.ViewArcs v2) (hwf1 : v1.g.WellFormed)
    (hg : SameArcs v2.g (relabel φ v1.g)) (s : Nat) (hs : s ∈ v1.g.nodes) (hnb : v1.g.nodes.length ≤ v1.nb)
    (hfitw : ∀ x c j, j ≤ v1.g.nodes.length → WalkN v1.g s x c j → B1.min ≤ c ∧ c < B1.max)
    (r1 : spfa B1 v1 s = some none) (st2 : SP) (r2 : spfa B2 v2 (φ s) = some (some st2))
    (hfit2 : ∀ a b w, (a, b, w) ∈ v2.g.arcs → ∀ x, tget st2.d a = some x → B2.min ≤ x + w ∧ x + w < B2.max) :
    False := by
  have h1 := C11T.C11_spfa_err B1 v1 hv1 hwf1 s hs hnb hfitw r1
  have h2 := (C11T.C11_spfa_ok B2 hB2 v2 hv2 (φ s) st2 r2 hfit2).2.2.1
  exact h2 ((negCycleReachable_congr hg (φ s)).mpr ((negCycleReachable_relabel_iff hφ v1.g s).mpr h1))

/-- the width hypothesis of `C11_floyd_ok` / `C11_floyd_err_iff`, bundled: the cost type is wide
against `2^|V| · max |cost|` -/
def FloydWide (B : Meas) (v : View) : Prop :=
  ∃ Wm : Int, 0 ≤ Wm ∧ (∀ e ∈ v.g.edges, -Wm ≤ e.w ∧ e.w ≤ Wm) ∧
    dbl v.g.nodes.length Wm + Wm < B.max ∧ B.min ≤ -(dbl v.g.nodes.length Wm)

/-- row `i` of an `Ok` result of the `floyd_warshall` model is exactly the shortest-walk costs from `i` -/
theorem floyd_exact (B : Meas) (v : View) (hwf : v.g.WellFormed) (hwide : FloydWide B v) (st : FW)
    (h : floydWarshall B v = some st) (i : Nat) (hi : i ∈ v.g.nodes) :
    ∀ j y, tget st.d (i, j) = some y ↔ IsShortest v.g i j y := by
  obtain ⟨Wm, hWm, hW, hfit⟩ := hwide
  have r := C11T.C11_floyd_ok B v hwf Wm hWm hW hfit st h i hi
  exact exact_of_sound_total (get := fun j => tget st.d (i, j)) r.1 r.2.1

/-- **floyd_warshall respects isomorphism**: both runs err or both answer `Ok` (the verdict is "the
graph has a negative cycle"), and the `Ok` matrices correspond under `φ` on every row of a node. -/
theorem C07_floyd_warshall_respects_iso (φ : Nat → Nat) (hφ : ∀ x y, φ x = φ y → x = y)
    (B1 B2 : Meas) (v1 v2 : View) (hwf1 : v1.g.WellFormed) (hwf2 : v2.g.WellFormed)
    (hwide1 : FloydWide B1 v1) (hwide2 : FloydWide B2 v2) (hg : SameArcs v2.g (relabel φ v1.g)) :
    (floydWarshall B1 v1 = none ↔ floydWarshall B2 v2 = none) ∧
    ∀ st1 st2, floydWarshall B1 v1 = some st1 → floydWarshall B2 v2 = some st2 →
      ∀ i, i ∈ v1.g.nodes → φ i ∈ v2.g.nodes → ∀ j, tget st2.d (φ i, φ j) = tget st1.d (i, j) := by
  refine ⟨?_, fun st1 st2 r1 r2 i hi1 hi2 j => ?_⟩
  · obtain ⟨Wm1, hWm1, hW1, hfit1⟩ := hwide1
    obtain ⟨Wm2, hWm2, hW2, hfit2⟩ := hwide2
    rw [C11T.C11_floyd_err_iff B1 v1 hwf1 Wm1 hWm1 hW1 hfit1, C11T.C11_floyd_err_iff B2 v2 hwf2 Wm2 hWm2 hW2 hfit2]
    exact ((negCycle_congr hg).trans (negCycle_relabel_iff hφ v1.g)).symm
  · exact opt_eq_of_spec
      (fun d => ((floyd_exact B2 v2 hwf2 hwide2 st2 r2 (φ i) hi2 (φ j) d).trans (isShortest_congr hg)).trans
        (isShortest_relabel_iff v1.g hφ))
      (fun d => floyd_exact B1 v1 hwf1 hwide1 st1 r1 i hi1 j d)

/-- **floyd_warshall, encoding independence**. -/
theorem C07_floyd_warshall_encoding_independent
    (B1 B2 : Meas) (v1 v2 : View) (hwf1 : v1.g.WellFormed) (hwf2 : v2.g.WellFormed)
    (hwide1 : FloydWide B1 v1) (hwide2 : FloydWide B2 v2) (hg : SameArcs v1.g v2.g) :
    (floydWarshall B1 v1 = none ↔ floydWarshall B2 v2 = none) ∧
    ∀ st1 st2, floydWarshall B1 v1 = some st1 → floydWarshall B2 v2 = some st2 →
      ∀ i, i ∈ v1.g.nodes → i ∈ v2.g.nodes → ∀ j, tget st1.d (i, j) = tget st2.d (i, j) := by
  refine ⟨?_, fun st1 st2 r1 r2 i hi1 hi2 j => ?_⟩
  · obtain ⟨Wm1, hWm1, hW1, hfit1⟩ := hwide1
    obtain ⟨Wm2, hWm2, hW2, hfit2⟩ := hwide2
    rw [C11T.C11_floyd_err_iff B1 v1 hwf1 Wm1 hWm1 hW1 hfit1, C11T.C11_floyd_err_iff B2 v2 hwf2 Wm2 hWm2 hW2 hfit2,
      negCycle_congr hg]
  · exact opt_eq_of_spec (fun d => floyd_exact B1 v1 hwf1 hwide1 st1 r1 i hi1 j d)
      (fun d => (floyd_exact B2 v2 hwf2 hwide2 st2 r2 i hi2 j d).trans (isShortest_congr hg).symm)

/-- floyd_warshall's row `s` agrees with bellman_ford from `s` on any views of the same arcs -/
theorem C07_floyd_agrees_with_bellman_ford (B : Meas) (v1 v2 : View) (hwf1 : v1.g.WellFormed)
    (hwide1 : FloydWide B v1) (hv2 : C11MP.ViewArcs v2) (hg : SameArcs v1.g v2.g) (s : Nat)
    (hs : s ∈ v1.g.nodes) (st1 : FW) (st2 : BF) (r1 : floydWarshall B v1 = some st1)
    (r2 : bellmanFord v2 s = some st2) : ∀ x, tget st1.d (s, x) = tget st2.d x := by
  intro x
  exact opt_eq_of_spec (fun d => floyd_exact B v1 hwf1 hwide1 st1 r1 s hs x d)
    (fun d => (bellman_ford_exact v2 hv2 s st2 r2 x d).trans (isShortest_congr hg).symm)

end C11

/-! ## C09 — has_path_connecting, kosaraju_scc, toposort, is_cyclic_*, connected_components -/
section C09
open PetgraphModel.C09J PetgraphModel.C09M PetgraphModel.C07W2

theorem bool_eq_of_iff {b1 b2 : Bool} {P : Prop} (h1 : b1 = true ↔ P) (h2 : b2 = true ↔ P) : b1 = b2 := by
  cases b1 <;> cases b2 <;> simp_all

/-- the SCC answer of `g`, renamed, is an SCC answer of the renamed graph (classes of mutual
reachability, reverse topological order of the components) -/
theorem C07_scc_relabel (φ : Nat → Nat) (hφ : ∀ x y, φ x = φ y → x = y) (g : MGraph) (comps : List (List Nat))
    (h : SccSpec g comps) : SccSpec (relabel φ g) (comps.map (List.map φ)) :=
  sccSpec_relabel hφ h

theorem C07_topo_order_relabel (φ : Nat → Nat) (hφ : ∀ x y, φ x = φ y → x = y) (g : MGraph) (ord : List Nat)
    (h : TopoOrder g ord) : TopoOrder (relabel φ g) (ord.map φ) :=
  topoOrder_relabel hφ h

theorem C07_cyclic_relabel (φ : Nat → Nat) (hφ : ∀ x y, φ x = φ y → x = y) (g : MGraph) :
    (CyclicD (relabel φ g) ↔ CyclicD g) ∧ (CyclicU (relabel φ g) ↔ CyclicU g) :=
  ⟨cyclicD_relabel_iff hφ g, cyclicU_relabel_iff hφ g⟩

/-- `CyclicU` does not depend on the order of insertion of the edges -/
theorem C07_cyclic_undirected_insertion_order (g1 g2 : MGraph) (h : g1.edges.Perm g2.edges) :
    CyclicU g1 ↔ CyclicU g2 :=
  cyclicU_perm_iff h

theorem C07_wcc_count_relabel (φ : Nat → Nat) (hφ : ∀ x y, φ x = φ y → x = y) (g : MGraph) (k : Nat) :
    IsWccCount (relabel φ g) k ↔ IsWccCount g k :=
  isWccCount_relabel_iff hφ g k

theorem C07_two_colourable_relabel (φ : Nat → Nat) (hφ : ∀ x y, φ x = φ y → x = y) (g : MGraph) (s : Nat) :
    TwoCol (relabel φ g) (φ s) ↔ TwoCol g s :=
  twoCol_relabel_iff hφ g s

/-- **has_path_connecting respects isomorphism**: same answer for `(a, b)` on any view of `g` and for
`(φ a, φ b)` on any view of any presentation of the renamed graph. -/
theorem C07_has_path_respects_iso (φ : Nat → Nat) (hφ : ∀ x y, φ x = φ y → x = y)
    (v1 v2 : View) (hv1 : C09P.ViewOk v1) (hv2 : C09P.ViewOk v2) (hg : SameAdj v2.g (relabel φ v1.g))
    (a b : Nat) (r1 r2 : Bool) (h1 : hasPath v1 a b = some r1) (h2 : hasPath v2 (φ a) (φ b) = some r2) :
    r1 = r2 :=
  bool_eq_of_iff (C09T.C09_has_path v1 hv1 a b r1 h1)
    ((C09T.C09_has_path v2 hv2 (φ a) (φ b) r2 h2).trans ((C07W2.reach_congr hg).trans (reach_relabel_iff v1.g hφ)))

theorem C07_has_path_encoding_independent
    (v1 v2 : View) (hv1 : C09P.ViewOk v1) (hv2 : C09P.ViewOk v2) (hg : SameAdj v1.g v2.g)
    (a b : Nat) (r1 r2 : Bool) (h1 : hasPath v1 a b = some r1) (h2 : hasPath v2 a b = some r2) :
    r1 = r2 :=
  bool_eq_of_iff (C09T.C09_has_path v1 hv1 a b r1 h1)
    ((C09T.C09_has_path v2 hv2 a b r2 h2).trans (C07W2.reach_congr hg).symm)

/-- **kosaraju_scc respects isomorphism**: the first answer, renamed, is a correct answer for the second
graph, and the two answers are the same partition: `x`, `y` share a component of the first answer iff
`φ x`, `φ y` share one of the second.  (Order of the components among incomparable ones and of the
members inside a component depend on the iteration order.) -/
theorem C07_kosaraju_respects_iso (φ : Nat → Nat) (hφ : ∀ x y, φ x = φ y → x = y)
    (v1 v2 : View) (hv1 : C09P.ViewOk v1) (hv2 : C09P.ViewOk v2)
    (hp1 : ∀ a b, b ∈ v1.pred a ↔ v1.g.Adj b a) (hp2 : ∀ a b, b ∈ v2.pred a ↔ v2.g.Adj b a)
    (hwf1 : v1.g.WellFormed) (hwf2 : v2.g.WellFormed)
    (hn : SameNodes v2.g (relabel φ v1.g)) (hg : SameAdj v2.g (relabel φ v1.g))
    (comps1 comps2 : List (List Nat)) (h1 : kosaraju v1 = some comps1) (h2 : kosaraju v2 = some comps2) :
    SccSpec v2.g (comps1.map (List.map φ)) ∧
    ∀ x y, (∃ c ∈ comps1, x ∈ c ∧ y ∈ c) ↔ (∃ c ∈ comps2, φ x ∈ c ∧ φ y ∈ c) := by
  have S1 := C09T.C09_kosaraju v1 hv1 hp1 hwf1 comps1 h1
  have S2 := C09T.C09_kosaraju v2 hv2 hp2 hwf2 comps2 h2
  refine ⟨sccSpec_congr hn.symm hg.symm (sccSpec_relabel hφ S1), fun x y => ?_⟩
  rw [C09P.part_same_iff (C09P.SccSpec.toPart S1), C09P.part_same_iff (C09P.SccSpec.toPart S2)]
  have e1 : φ x ∈ v2.g.nodes ↔ x ∈ v1.g.nodes := (hn (φ x)).trans (mem_relabel_nodes v1.g hφ)
  have e2 : SC v2.g (φ x) (φ y) ↔ SC v1.g x y := (sc_congr hg).trans (sc_relabel_iff hφ v1.g)
  rw [e1, e2]

theorem C07_kosaraju_encoding_independent
    (v1 v2 : View) (hv1 : C09P.ViewOk v1) (hv2 : C09P.ViewOk v2)
    (hp1 : ∀ a b, b ∈ v1.pred a ↔ v1.g.Adj b a) (hp2 : ∀ a b, b ∈ v2.pred a ↔ v2.g.Adj b a)
    (hwf1 : v1.g.WellFormed) (hwf2 : v2.g.WellFormed)
    (hn : SameNodes v1.g v2.g) (hg : SameAdj v1.g v2.g)
    (comps1 comps2 : List (List Nat)) (h1 : kosaraju v1 = some comps1) (h2 : kosaraju v2 = some comps2) :
    SccSpec v2.g comps1 ∧
    ∀ x y, (∃ c ∈ comps1, x ∈ c ∧ y ∈ c) ↔ (∃ c ∈ comps2, x ∈ c ∧ y ∈ c) := by
  have S1 := C09T.C09_kosaraju v1 hv1 hp1 hwf1 comps1 h1
  have S2 := C09T.C09_kosaraju v2 hv2 hp2 hwf2 comps2 h2
  refine ⟨sccSpec_congr hn hg S1, fun x y => ?_⟩
  rw [C09P.part_same_iff (C09P.SccSpec.toPart S1), C09P.part_same_iff (C09P.SccSpec.toPart S2),
    hn x, sc_congr hg]

/-- `toposort` answers `Ok` exactly on acyclic graphs -/
theorem toposort_ok_iff (v : View) (hv : C09P.ViewOk v) (hp : ∀ a b, b ∈ v.pred a ↔ v.g.Adj b a)
    (hwf : v.g.WellFormed) (r : TopoRes) (h : toposort v = some r) : (∃ o, r = .ok o) ↔ ¬ CyclicD v.g := by
  have T := C09T.C09_toposort v hv hp hwf r h
  cases r with
  | ok o => exact ⟨fun _ => T.2, fun _ => ⟨o, rfl⟩⟩
  | cycle x => exact ⟨fun ⟨o, ho⟩ => (by cases ho), fun hn => absurd T.2 hn⟩

/-- **toposort respects isomorphism**: both runs accept (`Ok`) or both reject (`Err(Cycle)`), and an
accepted order of the first run, renamed, is a topological order of the second graph (as is the
second run's own order — topological orders are not unique). -/
theorem C07_toposort_respects_iso (φ : Nat → Nat) (hφ : ∀ x y, φ x = φ y → x = y)
    (v1 v2 : View) (hv1 : C09P.ViewOk v1) (hv2 : C09P.ViewOk v2)
    (hp1 : ∀ a b, b ∈ v1.pred a ↔ v1.g.Adj b a) (hp2 : ∀ a b, b ∈ v2.pred a ↔ v2.g.Adj b a)
    (hwf1 : v1.g.WellFormed) (hwf2 : v2.g.WellFormed)
    (hn : SameNodes v2.g (relabel φ v1.g)) (hg : SameAdj v2.g (relabel φ v1.g))
    (r1 r2 : TopoRes) (h1 : toposort v1 = some r1) (h2 : toposort v2 = some r2) :
    ((∃ o, r1 = .ok o) ↔ (∃ o, r2 = .ok o)) ∧
    (∀ o, r1 = .ok o → TopoOrder v2.g (o.map φ)) ∧
    (∀ x, r1 = .cycle x → Reach1 v2.g (φ x) (φ x)) := by
  refine ⟨?_, ?_, ?_⟩
  · rw [toposort_ok_iff v1 hv1 hp1 hwf1 r1 h1, toposort_ok_iff v2 hv2 hp2 hwf2 r2 h2]
    exact not_congr ((cyclicD_congr hg).trans (cyclicD_relabel_iff hφ v1.g)).symm
  · intro o ho
    subst ho
    exact topoOrder_congr hn.symm hg.symm (topoOrder_relabel hφ (C09T.C09_toposort_ok v1 hv1 hp1 hwf1 o h1).1)
  · intro x hx
    subst hx
    exact (reach1_congr hg).mpr (reach1_relabel φ v1.g (C09T.C09_toposort_cycle v1 hv1 hp1 hwf1 x h1).1)

theorem C07_toposort_encoding_independent
    (v1 v2 : View) (hv1 : C09P.ViewOk v1) (hv2 : C09P.ViewOk v2)
    (hp1 : ∀ a b, b ∈ v1.pred a ↔ v1.g.Adj b a) (hp2 : ∀ a b, b ∈ v2.pred a ↔ v2.g.Adj b a)
    (hwf1 : v1.g.WellFormed) (hwf2 : v2.g.WellFormed)
    (hn : SameNodes v1.g v2.g) (hg : SameAdj v1.g v2.g)
    (r1 r2 : TopoRes) (h1 : toposort v1 = some r1) (h2 : toposort v2 = some r2) :
    ((∃ o, r1 = .ok o) ↔ (∃ o, r2 = .ok o)) ∧ (∀ o, r1 = .ok o → TopoOrder v2.g o) := by
  refine ⟨?_, ?_⟩
  · rw [toposort_ok_iff v1 hv1 hp1 hwf1 r1 h1, toposort_ok_iff v2 hv2 hp2 hwf2 r2 h2, cyclicD_congr hg]
  · intro o ho
    subst ho
    exact topoOrder_congr hn hg (C09T.C09_toposort_ok v1 hv1 hp1 hwf1 o h1).1

/-- **is_cyclic_directed respects isomorphism** -/
theorem C07_cyclic_directed_respects_iso (φ : Nat → Nat) (hφ : ∀ x y, φ x = φ y → x = y)
    (v1 v2 : View) (hv1 : C09P.ViewOk v1) (hv2 : C09P.ViewOk v2)
    (hwf1 : v1.g.WellFormed) (hwf2 : v2.g.WellFormed) (hg : SameAdj v2.g (relabel φ v1.g))
    (b1 b2 : Bool) (h1 : cyclicDirected v1 = some b1) (h2 : cyclicDirected v2 = some b2) : b1 = b2 := by
  have C1 := C09T.C09_cyclic_directed v1 hv1 b1 h1
  have C2 := C09T.C09_cyclic_directed v2 hv2 b2 h2
  have e : CyclicD v2.g ↔ CyclicD v1.g := (cyclicD_congr hg).trans (cyclicD_relabel_iff hφ v1.g)
  have i1 : b1 = true ↔ CyclicD v1.g :=
    ⟨C1.1, fun hc => by cases hb : b1 with | true => rfl | false => exact absurd hc (C1.2 hb hwf1)⟩
  have i2 : b2 = true ↔ CyclicD v2.g :=
    ⟨C2.1, fun hc => by cases hb : b2 with | true => rfl | false => exact absurd hc (C2.2 hb hwf2)⟩
  exact bool_eq_of_iff i1 (i2.trans e)

theorem C07_cyclic_directed_encoding_independent
    (v1 v2 : View) (hv1 : C09P.ViewOk v1) (hv2 : C09P.ViewOk v2)
    (hwf1 : v1.g.WellFormed) (hwf2 : v2.g.WellFormed) (hg : SameAdj v1.g v2.g)
    (b1 b2 : Bool) (h1 : cyclicDirected v1 = some b1) (h2 : cyclicDirected v2 = some b2) : b1 = b2 := by
  have C1 := C09T.C09_cyclic_directed v1 hv1 b1 h1
  have C2 := C09T.C09_cyclic_directed v2 hv2 b2 h2
  have i1 : b1 = true ↔ CyclicD v1.g :=
    ⟨C1.1, fun hc => by cases hb : b1 with | true => rfl | false => exact absurd hc (C1.2 hb hwf1)⟩
  have i2 : b2 = true ↔ CyclicD v2.g :=
    ⟨C2.1, fun hc => by cases hb : b2 with | true => rfl | false => exact absurd hc (C2.2 hb hwf2)⟩
  exact bool_eq_of_iff i1 (i2.trans (cyclicD_congr hg).symm)

/-- **is_bipartite_undirected respects isomorphism** -/
theorem C07_bipartite_respects_iso (φ : Nat → Nat) (hφ : ∀ x y, φ x = φ y → x = y)
    (v1 v2 : View) (hv1 : C09P.ViewOk v1) (hv2 : C09P.ViewOk v2) (hg : SameAdj v2.g (relabel φ v1.g))
    (s : Nat) (b1 b2 : Bool) (h1 : bipartite v1 s = .answer b1) (h2 : bipartite v2 (φ s) = .answer b2) :
    b1 = b2 :=
  bool_eq_of_iff ((C09T.C09_bipartite v1 hv1 s).1 b1 h1)
    (((C09T.C09_bipartite v2 hv2 (φ s)).1 b2 h2).trans ((twoCol_congr hg (φ s)).trans (twoCol_relabel_iff hφ v1.g s)))

/-- **connected_components computes the number of weakly connected components of the abstract graph
through ANY compact index assignment**: if the graph the function sees through `to_index` and
`edge_references()` (`pairGraph nb pairs`: nodes `0..node_bound`, one undirected edge per reported
pair) is the abstract graph `g` renamed by an injective `ix` — same node set, same adjacency with
direction ignored — the answer is the WCC count of `g`.  (`SameNodes` forces `0..node_bound` to be
exactly the image of the nodes: no vacant index; with vacancies the real function counts every vacant
index as a component.) -/
theorem C07_connected_components_respects_iso (g : MGraph) (ix : Nat → Nat) (hix : ∀ x y, ix x = ix y → x = y)
    (nb : Nat) (pairs : List (Nat × Nat)) (hin : ∀ p ∈ pairs, p.1 < nb ∧ p.2 < nb)
    (hn : SameNodes (C09P.pairGraph nb pairs) (relabel ix g))
    (ha : SameAdj (C09P.pairGraph nb pairs) (relabel ix g).undirect)
    (k : Nat) (h : connectedComponents nb pairs = some k) : IsWccCount g k := by
  have K := C09T.C09_connected_components nb pairs k hin h
  have K2 : IsWccCount (relabel ix g).undirect k := isWccCount_congr (g2 := (relabel ix g).undirect) hn ha K
  exact isWccCount_relabel_inv hix (show IsWccCount (relabel ix g) k from K2)

/-- consequently two compact encodings (any two index assignments, any order and orientation of the
reported pairs) of the same abstract graph get the same count -/
theorem C07_connected_components_encoding_independent (g : MGraph)
    (ix1 ix2 : Nat → Nat) (hix1 : ∀ x y, ix1 x = ix1 y → x = y) (hix2 : ∀ x y, ix2 x = ix2 y → x = y)
    (nb1 nb2 : Nat) (pairs1 pairs2 : List (Nat × Nat))
    (hin1 : ∀ p ∈ pairs1, p.1 < nb1 ∧ p.2 < nb1) (hin2 : ∀ p ∈ pairs2, p.1 < nb2 ∧ p.2 < nb2)
    (hn1 : SameNodes (C09P.pairGraph nb1 pairs1) (relabel ix1 g))
    (ha1 : SameAdj (C09P.pairGraph nb1 pairs1) (relabel ix1 g).undirect)
    (hn2 : SameNodes (C09P.pairGraph nb2 pairs2) (relabel ix2 g))
    (ha2 : SameAdj (C09P.pairGraph nb2 pairs2) (relabel ix2 g).undirect)
    (k1 k2 : Nat) (h1 : connectedComponents nb1 pairs1 = some k1) (h2 : connectedComponents nb2 pairs2 = some k2) :
    k1 = k2 :=
  C09T.C09_wcc_count_unique g k1 k2
    (C07_connected_components_respects_iso g ix1 hix1 nb1 pairs1 hin1 hn1 ha1 k1 h1)
    (C07_connected_components_respects_iso g ix2 hix2 nb2 pairs2 hin2 hn2 ha2 k2 h2)

/-- **is_cyclic_undirected respects isomorphism, index width, vacancies and insertion order**: if the
pairs the second encoding reports are a rearrangement of the first encoding's pairs renamed by an
injective `φ` (the two `node_bound`s are unrelated), the answers coincide. -/
theorem C07_cyclic_undirected_respects_iso (φ : Nat → Nat) (hφ : ∀ x y, φ x = φ y → x = y)
    (nb1 nb2 : Nat) (pairs1 pairs2 : List (Nat × Nat))
    (hin1 : ∀ p ∈ pairs1, p.1 < nb1 ∧ p.2 < nb1) (hin2 : ∀ p ∈ pairs2, p.1 < nb2 ∧ p.2 < nb2)
    (hp : pairs2.Perm (pairs1.map fun p => (φ p.1, φ p.2))) (b1 b2 : Bool)
    (h1 : cyclicUndirected nb1 pairs1 (UF.new 0 nb1) = some b1)
    (h2 : cyclicUndirected nb2 pairs2 (UF.new 0 nb2) = some b2) : b1 = b2 := by
  have C1 := C09T.C09_cyclic_undirected nb1 pairs1 b1 hin1 h1
  have C2 := C09T.C09_cyclic_undirected nb2 pairs2 b2 hin2 h2
  have hperm : (C09P.pairGraph nb2 pairs2).edges.Perm (relabel φ (C09P.pairGraph nb1 pairs1)).edges := by
    have := hp.map fun p : Nat × Nat => (⟨0, p.1, p.2, 0⟩ : Edge)
    simpa [C09P.pairGraph, relabel, List.map_map, Function.comp_def] using this
  exact bool_eq_of_iff C1 (C2.trans ((cyclicU_perm_iff hperm).trans (cyclicU_relabel_iff hφ _)))

end C09

/-! ## C12 — min_spanning_tree (Kruskal), min_spanning_tree_prim -/
section C12
open PetgraphModel.MST PetgraphModel.MstModel PetgraphModel.C07W2

/-- **`MinSpanningForest` is carried along by an injective relabeling**, together with its weight -/
theorem C07_min_spanning_forest_relabel (φ : Nat → Nat) (hφ : ∀ x y, φ x = φ y → x = y) (E M : List Edge)
    (h : MinSpanningForest E M) :
    MinSpanningForest (E.map (rl φ)) (M.map (rl φ)) ∧ weight (M.map (rl φ)) = weight M :=
  ⟨minSpanningForest_map_rl hφ h, weight_map_rl φ M⟩

/-- all minimum spanning forests of the same edges weigh the same -/
theorem C07_min_spanning_forest_weight_unique (E M M' : List Edge) (h : MinSpanningForest E M)
    (h' : MinSpanningForest E M') : weight M = weight M' :=
  minSpanningForest_weight_unique h h'

/-- **bottleneck forests are unique up to weight, across presentations and relabelings**: if `E2` has
the same undirected weighted edges as `E1` renamed by an injective `φ` (ids, orientation, order,
multiplicity free), an acyclic `M1 ⊆ E1` realising every bottleneck connection of `E1` and an
acyclic `M2 ⊆ E2` doing so for `E2` have the same number of edges and the same weight. -/
theorem C07_light_forest_relabel (φ : Nat → Nat) (hφ : ∀ x y, φ x = φ y → x = y) (E1 E2 M1 M2 : List Edge)
    (hE : SameUEdges E2 (E1.map (rl φ)))
    (hac1 : Acyclic M1) (hl1 : Light E1 M1) (hf1 : FromE E1 M1)
    (hac2 : Acyclic M2) (hl2 : Light E2 M2) (hf2 : FromE E2 M2) :
    M1.length = M2.length ∧ weight M1 = weight M2 :=
  light_forests_iso hφ hE hac1 hl1 hf1 hac2 hl2 hf2

theorem res_ok_inj {n1 n2 : List Nat} {e1 e2 : List EdgeEl} (h : Res.ok n1 e1 = Res.ok n2 e2) :
    n1 = n2 ∧ e1 = e2 := by
  cases h; exact ⟨rfl, rfl⟩

/-- **min_spanning_tree respects isomorphism**: if the second graph's edges are, as undirected
weighted edges, the first graph's renamed by an injective `φ` (any ids, stored orientation, insertion
order; `er1`/`er2` any `edge_references` orders, even with repetitions as in `Csr<Undirected>`; any
two index assignments), the two emitted forests have the same number of edges and the same total
weight.  (Which of several minimum spanning forests is emitted depends on the heap's tie order.) -/
theorem C07_kruskal_respects_iso (φ : Nat → Nat) (hφ : ∀ x y, φ x = φ y → x = y)
    (v1 v2 : View) (hv1 : KView v1) (hv2 : KView v2) (hwf1 : v1.g.WellFormed) (hwf2 : v2.g.WellFormed)
    (er1 er2 : List (Nat × Nat × Nat)) (her1 : ErOk v1 er1) (her2 : ErOk v2 er2)
    (hE : SameUEdges v2.g.edges (relabel φ v1.g).edges)
    (ns1 ns2 : List Nat) (es1 es2 : List EdgeEl)
    (r1 : kruskal v1 er1 = .ok ns1 es1) (r2 : kruskal v2 er2 = .ok ns2 es2) :
    es1.length = es2.length ∧ (es1.map (·.w)).sum = (es2.map (·.w)).sum := by
  obtain ⟨A1, run1, ac1, l1, f1⟩ := kruskal_light v1 hv1 hwf1 er1 her1
  obtain ⟨A2, run2, ac2, l2, f2⟩ := kruskal_light v2 hv2 hwf2 er2 her2
  obtain ⟨-, rfl⟩ := res_ok_inj (run1.symm.trans r1)
  obtain ⟨-, rfl⟩ := res_ok_inj (run2.symm.trans r2)
  have := light_forests_iso hφ (E1 := v1.g.edges) (E2 := v2.g.edges) hE ac1 l1 f1 ac2 l2 f2
  rw [weight_items_eq v1.g.nodes, weight_items_eq v2.g.nodes] at this
  simpa using this

/-- **min_spanning_tree, encoding independence** -/
theorem C07_kruskal_encoding_independent
    (v1 v2 : View) (hv1 : KView v1) (hv2 : KView v2) (hwf1 : v1.g.WellFormed) (hwf2 : v2.g.WellFormed)
    (er1 er2 : List (Nat × Nat × Nat)) (her1 : ErOk v1 er1) (her2 : ErOk v2 er2)
    (hE : SameUEdges v1.g.edges v2.g.edges)
    (ns1 ns2 : List Nat) (es1 es2 : List EdgeEl)
    (r1 : kruskal v1 er1 = .ok ns1 es1) (r2 : kruskal v2 er2 = .ok ns2 es2) :
    es1.length = es2.length ∧ (es1.map (·.w)).sum = (es2.map (·.w)).sum := by
  obtain ⟨A1, run1, ac1, l1, f1⟩ := kruskal_light v1 hv1 hwf1 er1 her1
  obtain ⟨A2, run2, ac2, l2, f2⟩ := kruskal_light v2 hv2 hwf2 er2 her2
  obtain ⟨-, rfl⟩ := res_ok_inj (run1.symm.trans r1)
  obtain ⟨-, rfl⟩ := res_ok_inj (run2.symm.trans r2)
  have := light_forests_unique (E := v2.g.edges) ac1 ac2 (Light.congr hE l1) (FromE.congr hE f1) l2 f2
  rw [weight_items_eq v1.g.nodes, weight_items_eq v2.g.nodes] at this
  simpa using this

/-- **min_spanning_tree_prim respects isomorphism**: undirected graphs (`PView`), the first node of the
second view is the image of the first node of the first: the two emitted trees (spanning trees of the
first node's component) have the same number of edges and the same total weight. -/
theorem C07_prim_respects_iso (φ : Nat → Nat) (hφ : ∀ x y, φ x = φ y → x = y)
    (v1 v2 : View) (hv1 : PView v1) (hv2 : PView v2)
    (hE : SameUEdges v2.g.edges (relabel φ v1.g).edges)
    (s : Nat) (rest1 rest2 : List Nat) (hV1 : v1.g.nodes = s :: rest1) (hV2 : v2.g.nodes = φ s :: rest2)
    (ns1 ns2 : List Nat) (es1 es2 : List EdgeEl)
    (r1 : prim v1 = .ok ns1 es1) (r2 : prim v2 = .ok ns2 es2) :
    es1.length = es2.length ∧ (es1.map (·.w)).sum = (es2.map (·.w)).sum := by
  obtain ⟨A1, run1, ac1, h1⟩ := prim_light v1 hv1 s rest1 hV1
  obtain ⟨A2, run2, ac2, h2⟩ := prim_light v2 hv2 (φ s) rest2 hV2
  obtain ⟨-, rfl⟩ := res_ok_inj (run1.symm.trans r1)
  obtain ⟨-, rfl⟩ := res_ok_inj (run2.symm.trans r2)
  obtain ⟨_, _, T1⟩ := (C12T.C12_prim_model_correct v1 hv1).2 s rest1 hV1
  obtain ⟨_, _, T2⟩ := (C12T.C12_prim_model_correct v2 hv2).2 (φ s) rest2 hV2
  obtain ⟨comp1, _, hc1, _⟩ := T1.count
  obtain ⟨comp2, _, hc2, _⟩ := T2.count
  obtain ⟨l1, f1⟩ := h1 comp1 hc1
  obtain ⟨l2, f2⟩ := h2 comp2 hc2
  have hW := sameUEdges_within hφ (E1 := v1.g.edges) (E2 := v2.g.edges) hE hc1 hc2
  have := light_forests_iso hφ hW ac1 l1 f1 ac2 l2 f2
  rw [weight_items_eq v1.g.nodes, weight_items_eq v2.g.nodes] at this
  simpa using this

/-- **min_spanning_tree_prim, encoding independence** (same first node) -/
theorem C07_prim_encoding_independent
    (v1 v2 : View) (hv1 : PView v1) (hv2 : PView v2) (hE : SameUEdges v1.g.edges v2.g.edges)
    (s : Nat) (rest1 rest2 : List Nat) (hV1 : v1.g.nodes = s :: rest1) (hV2 : v2.g.nodes = s :: rest2)
    (ns1 ns2 : List Nat) (es1 es2 : List EdgeEl)
    (r1 : prim v1 = .ok ns1 es1) (r2 : prim v2 = .ok ns2 es2) :
    es1.length = es2.length ∧ (es1.map (·.w)).sum = (es2.map (·.w)).sum := by
  have hE' : SameUEdges v2.g.edges (relabel id v1.g).edges := by
    show SameUEdges v2.g.edges (v1.g.edges.map (rl id))
    rw [map_rl_id]; exact hE.symm
  exact C07_prim_respects_iso id (fun _ _ h => h) v1 v2 hv1 hv2 hE' s rest1 rest2 hV1 hV2 ns1 ns2 es1 es2 r1 r2

/-- Prim's tree weighs the same as ANY bottleneck forest of the edges inside the first node's
component (on every undirected view) — so its weight is a function of the abstract graph and the
first node alone. -/
theorem C07_prim_weight_is_component_msf_weight (v : View) (hv : PView v) (s : Nat) (rest : List Nat)
    (hV : v.g.nodes = s :: rest) (ns : List Nat) (es : List EdgeEl) (r : prim v = .ok ns es)
    (comp : List Nat) (hcomp : ∀ x, x ∈ comp ↔ Conn v.g.edges s x) (M : List Edge)
    (hac : Acyclic M) (hl : Light (edgesWithin comp v.g.edges) M) (hf : FromE (edgesWithin comp v.g.edges) M) :
    es.length = M.length ∧ (es.map (·.w)).sum = weight M := by
  obtain ⟨A, run, ac, h⟩ := prim_light v hv s rest hV
  obtain ⟨-, rfl⟩ := res_ok_inj (run.symm.trans r)
  obtain ⟨l, f⟩ := h comp hcomp
  have := light_forests_unique ac hac l f hl hf
  rw [weight_items_eq v.g.nodes] at this
  simpa using this

end C12

/-! ## C15 — ford_fulkerson -/
section C15
open PetgraphModel.C15 PetgraphModel.C15P PetgraphModel.C07W2

theorem C07_cut_capacity_relabel (φ : Nat → Nat) (hφ : ∀ x y, φ x = φ y → x = y) (g : MGraph) (S : List Nat) :
    cutCap (relabel φ g) (S.map φ) = cutCap g S :=
  cutCap_relabel_map hφ g S

/-- the capacity of a cut depends only on the multiset of `(src, tgt, capacity)` triples: edge ids and
insertion order are irrelevant -/
theorem C07_cut_capacity_presentation (g1 g2 : MGraph) (h : SameCaps g1 g2) (S : List Nat) :
    cutCap g1 S = cutCap g2 S :=
  cutCap_congr h S

theorem C07_min_cut_value_relabel (φ : Nat → Nat) (hφ : ∀ x y, φ x = φ y → x = y) (g : MGraph) (s t : Nat) (c : Int) :
    IsMinCutValue (relabel φ g) (φ s) (φ t) c ↔ IsMinCutValue g s t c :=
  isMinCutValue_relabel_iff hφ g s t c

theorem C07_max_flow_value_relabel (φ : Nat → Nat) (hφ : ∀ x y, φ x = φ y → x = y) (g : MGraph) (s t : Nat) (c : Int) :
    IsMaxFlowValue (relabel φ g) (φ s) (φ t) c ↔ IsMaxFlowValue g s t c :=
  isMaxFlowValue_relabel_iff hφ g s t c

theorem C07_feasible_flow_relabel (φ : Nat → Nat) (hφ : ∀ x y, φ x = φ y → x = y) (g : MGraph) (s t : Nat)
    (f : Nat → Int) :
    (Feasible (relabel φ g) (φ s) (φ t) f ↔ Feasible g s t f) ∧ excess (relabel φ g) f (φ s) = excess g f s :=
  ⟨feasible_relabel_iff hφ g s t f, excess_relabel hφ g f s⟩

/-- the value the `ford_fulkerson` model returns is the min-cut value and the max-flow value of the
abstract graph (restating `C15_flow_feasible` / `C15_flow_max` with the two specification notions) -/
theorem ford_fulkerson_value (v : View) (hv : FlowView v) (hwf : v.g.WellFormed)
    (hw : ∀ e ∈ v.g.edges, 0 ≤ e.w) (s t : Nat) (hne : s ≠ t) :
    IsMinCutValue v.g s t (C15F.fordFulkerson v s t).maxFlow ∧
    IsMaxFlowValue v.g s t (C15F.fordFulkerson v s t).maxFlow := by
  obtain ⟨⟨S, _, hS, hc⟩, hmin, hmax⟩ := C15T.C15_flow_max v hv hwf hw s t hne
  obtain ⟨_, hfeas, hval⟩ := C15T.C15_flow_feasible v hv hwf hw s t hne
  exact ⟨⟨⟨S, hS, hc⟩, hmin⟩, ⟨⟨_, hfeas, hval.symm⟩, hmax⟩⟩

/-- **ford_fulkerson respects isomorphism**: if the second network has the same multiset of capacitated
arcs as the first renamed by an injective `φ` (any edge ids, any insertion order, any index
assignment, any row order of the views), the returned maximum-flow values coincide.  (The flow
tables themselves need not correspond: maximum flows are not unique; each is feasible and maximum by
`C15_flow_feasible` / `C15_flow_max`.) -/
theorem C07_ford_fulkerson_respects_iso (φ : Nat → Nat) (hφ : ∀ x y, φ x = φ y → x = y)
    (v1 v2 : View) (hv1 : FlowView v1) (hv2 : FlowView v2) (hwf1 : v1.g.WellFormed) (hwf2 : v2.g.WellFormed)
    (hw1 : ∀ e ∈ v1.g.edges, 0 ≤ e.w) (hw2 : ∀ e ∈ v2.g.edges, 0 ≤ e.w)
    (hg : SameCaps v2.g (relabel φ v1.g)) (s t : Nat) (hne : s ≠ t) :
    (C15F.fordFulkerson v2 (φ s) (φ t)).maxFlow = (C15F.fordFulkerson v1 s t).maxFlow := by
  have V1 := (ford_fulkerson_value v1 hv1 hwf1 hw1 s t hne).1
  have V2 := (ford_fulkerson_value v2 hv2 hwf2 hw2 (φ s) (φ t) (fun h => hne (hφ _ _ h))).1
  exact isMinCutValue_unique ((isMinCutValue_relabel_iff hφ v1.g s t _).mp ((isMinCutValue_congr hg).mp V2)) V1

/-- **ford_fulkerson, encoding independence** -/
theorem C07_ford_fulkerson_encoding_independent
    (v1 v2 : View) (hv1 : FlowView v1) (hv2 : FlowView v2) (hwf1 : v1.g.WellFormed) (hwf2 : v2.g.WellFormed)
    (hw1 : ∀ e ∈ v1.g.edges, 0 ≤ e.w) (hw2 : ∀ e ∈ v2.g.edges, 0 ≤ e.w)
    (hg : SameCaps v1.g v2.g) (s t : Nat) (hne : s ≠ t) :
    (C15F.fordFulkerson v1 s t).maxFlow = (C15F.fordFulkerson v2 s t).maxFlow := by
  have V1 := (ford_fulkerson_value v1 hv1 hwf1 hw1 s t hne).1
  have V2 := (ford_fulkerson_value v2 hv2 hwf2 hw2 s t hne).1
  exact isMinCutValue_unique ((isMinCutValue_congr hg).mp V1) V2

/-- the size of a maximum matching is carried along by relabeling: matchings correspond -/
theorem C07_matching_relabel (φ : Nat → Nat) (hφ : ∀ x y, φ x = φ y → x = y) (g : MGraph) (M : List (Nat × Nat))
    (h : IsMatching g M) : IsMatching (relabel φ g) (M.map fun p => (φ p.1, φ p.2)) := by
  obtain ⟨h1, h2⟩ := h
  refine ⟨?_, ?_⟩
  · intro p' hp'
    obtain ⟨p, hp, rfl⟩ := List.mem_map.mp hp'
    obtain ⟨hne, e, he, hor⟩ := h1 p hp
    refine ⟨fun h => hne (hφ _ _ h), { e with src := φ e.src, tgt := φ e.tgt },
      (mem_relabel_edges φ g).mpr ⟨e, he, rfl⟩, ?_⟩
    rcases hor with ⟨a, b⟩ | ⟨a, b⟩
    · exact Or.inl ⟨by simp [a], by simp [b]⟩
    · exact Or.inr ⟨by simp [a], by simp [b]⟩
  · refine List.pairwise_map.mpr (h2.imp ?_)
    intro p q ⟨a, b, c, d⟩
    exact ⟨fun h => a (hφ _ _ h), fun h => b (hφ _ _ h), fun h => c (hφ _ _ h), fun h => d (hφ _ _ h)⟩

end C15

/-! ## C16 — dominators (simple_fast), articulation_points -/
section C16
open PetgraphModel.C16S PetgraphModel.C16M PetgraphModel.C16P PetgraphModel.C07W2

theorem C07_dominates_relabel (φ : Nat → Nat) (hφ : ∀ x y, φ x = φ y → x = y) (g : MGraph) (r a b : Nat) :
    (Dominates (relabel φ g) (φ r) (φ a) (φ b) ↔ Dominates g r a b) ∧
    (StrictlyDominates (relabel φ g) (φ r) (φ a) (φ b) ↔ StrictlyDominates g r a b) ∧
    (IsIdom (relabel φ g) (φ r) (φ a) (φ b) ↔ IsIdom g r a b) :=
  ⟨dominates_relabel_iff hφ g r a b, strictlyDominates_relabel_iff hφ g r a b, isIdom_relabel_iff hφ g r a b⟩

/-- dominance depends only on the adjacency relation -/
theorem C07_dominates_presentation (g1 g2 : MGraph) (h : SameAdj g1 g2) (r a b : Nat) :
    (Dominates g1 r a b ↔ Dominates g2 r a b) ∧ (IsIdom g1 r a b ↔ IsIdom g2 r a b) :=
  ⟨dominates_congr h, isIdom_congr h⟩

theorem C07_cut_vertex_relabel (φ : Nat → Nat) (hφ : ∀ x y, φ x = φ y → x = y) (g : MGraph) (x : Nat) :
    (CutVertex (relabel φ g) (φ x) ↔ CutVertex g x) ∧ numComponents (relabel φ g) = numComponents g :=
  ⟨cutVertex_relabel_iff hφ g x, numComponents_relabel hφ g⟩

/-- on undirected graphs with distinct nodes, being a cut vertex depends only on the node set and the
adjacency relation (not on the order of the node list the components are counted along) -/
theorem C07_cut_vertex_presentation (g1 g2 : MGraph) (hu1 : g1.directed = false) (hu2 : g2.directed = false)
    (hn1 : g1.nodes.Nodup) (hn2 : g2.nodes.Nodup) (hn : SameNodes g1 g2) (h : SameAdj g1 g2) (x : Nat) :
    CutVertex g1 x ↔ CutVertex g2 x :=
  cutVertex_congr hu1 hu2 hn1 hn2 hn h x

/-- **dominators::simple_fast respects isomorphism**: both runs succeed, and on the two results
`immediate_dominator` commutes with `φ`, `dominators(b)` is `None` on one side iff `dominators(φ b)` is
on the other, the dominator lists correspond (as sets, both duplicate-free), and
`immediately_dominated_by` corresponds. -/
theorem C07_simple_fast_respects_iso (φ : Nat → Nat) (hφ : ∀ x y, φ x = φ y → x = y)
    (v1 v2 : View) (hv1 : C16P.ViewOk v1) (hv2 : C16P.ViewOk v2)
    (hb1 : ∀ a, a ∈ v1.g.nodes → (v1.succ a).length ≤ (v1.g.succ a).length)
    (hb2 : ∀ a, a ∈ v2.g.nodes → (v2.succ a).length ≤ (v2.g.succ a).length)
    (root : Nat) (hr1 : root ∈ v1.g.nodes) (hr2 : φ root ∈ v2.g.nodes)
    (hwf1 : v1.g.WellFormed) (hwf2 : v2.g.WellFormed) (hg : SameAdj v2.g (relabel φ v1.g)) :
    ∃ d1 d2, simpleFast v1 root = .ok d1 ∧ simpleFast v2 (φ root) = .ok d2 ∧
      (∀ b, d2.immediateDominator (φ b) = (d1.immediateDominator b).map φ) ∧
      (∀ b, d2.dominators (φ b) = none ↔ d1.dominators b = none) ∧
      (∀ b l1 l2, d1.dominators b = some l1 → d2.dominators (φ b) = some l2 → l2.Perm (l1.map φ)) ∧
      (∀ n m, φ m ∈ d2.immediatelyDominatedBy (φ n) ↔ m ∈ d1.immediatelyDominatedBy n) := by
  obtain ⟨d1, e1, _, n1, s1⟩ := C16T.C16_simple_fast v1 root hv1 hb1 hr1 hwf1
  obtain ⟨d2, e2, _, n2, s2⟩ := C16T.C16_simple_fast v2 (φ root) hv2 hb2 hr2 hwf2
  obtain ⟨d1', e1', i1, _, _, _, b1⟩ := C16T.C16_simple_fast_accessors v1 root hv1 hb1 hr1 hwf1
  obtain ⟨d2', e2', i2, _, _, _, b2⟩ := C16T.C16_simple_fast_accessors v2 (φ root) hv2 hb2 hr2 hwf2
  have hd1 : d1' = d1 := by have := e1'.symm.trans e1; injection this
  have hd2 : d2' = d2 := by have := e2'.symm.trans e2; injection this
  subst hd1; subst hd2
  have idomT : ∀ y b, IsIdom v2.g (φ root) y (φ b) ↔ ∃ a, IsIdom v1.g root a b ∧ φ a = y := by
    intro y b
    rw [isIdom_congr hg]
    constructor
    · intro h
      obtain ⟨a, rfl⟩ := isIdom_is_image hφ v1.g h
      exact ⟨a, (isIdom_relabel_iff hφ v1.g root a b).mp h, rfl⟩
    · rintro ⟨a, h, rfl⟩
      exact (isIdom_relabel_iff hφ v1.g root a b).mpr h
  refine ⟨d1', d2', e1, e2, ?_, ?_, ?_, ?_⟩
  · intro b
    refine opt_eq_of_spec (P := fun y => IsIdom v2.g (φ root) y (φ b)) (fun y => i2 (φ b) y) ?_
    intro y
    rw [idomT, Option.map_eq_some_iff]
    exact ⟨fun ⟨a, h, e⟩ => ⟨a, (i1 b a).mp h, e⟩, fun ⟨a, h, e⟩ => ⟨a, (i1 b a).mpr h, e⟩⟩
  · intro b
    rw [n1, n2]
    exact not_congr ((C07W2.reach_congr hg).trans (reach_relabel_iff v1.g hφ))
  · intro b l1 l2 h1 h2
    obtain ⟨nd1, m1⟩ := s1 b l1 h1
    obtain ⟨nd2, m2⟩ := s2 (φ b) l2 h2
    have hreach : Reach v1.g root b := by
      have : ¬ d1'.dominators b = none := by rw [h1]; simp
      exact Classical.byContradiction fun hn => this ((n1 b).mpr hn)
    refine perm_of_nodup_mem nd2 (nodup_map_inj hφ nd1) ?_
    intro y
    rw [m2, dominates_congr hg, List.mem_map]
    constructor
    · intro h
      obtain ⟨a, rfl⟩ := dominator_is_image v1.g hreach h
      exact ⟨a, (m1 a).mpr ((dominates_relabel_iff hφ v1.g root a b).mp h), rfl⟩
    · rintro ⟨a, ha, rfl⟩
      exact (dominates_relabel_iff hφ v1.g root a b).mpr ((m1 a).mp ha)
  · intro n m
    rw [b1, b2, isIdom_congr hg]
    exact isIdom_relabel_iff hφ v1.g root n m

/-- **dominators::simple_fast, encoding independence**: the two results answer every query of
`immediate_dominator` identically, and their `dominators` lists are rearrangements of each other. -/
theorem C07_simple_fast_encoding_independent
    (v1 v2 : View) (hv1 : C16P.ViewOk v1) (hv2 : C16P.ViewOk v2)
    (hb1 : ∀ a, a ∈ v1.g.nodes → (v1.succ a).length ≤ (v1.g.succ a).length)
    (hb2 : ∀ a, a ∈ v2.g.nodes → (v2.succ a).length ≤ (v2.g.succ a).length)
    (root : Nat) (hr1 : root ∈ v1.g.nodes) (hr2 : root ∈ v2.g.nodes)
    (hwf1 : v1.g.WellFormed) (hwf2 : v2.g.WellFormed) (hg : SameAdj v1.g v2.g) :
    ∃ d1 d2, simpleFast v1 root = .ok d1 ∧ simpleFast v2 root = .ok d2 ∧
      (∀ b, d1.immediateDominator b = d2.immediateDominator b) ∧
      (∀ b, d1.dominators b = none ↔ d2.dominators b = none) ∧
      (∀ b l1 l2, d1.dominators b = some l1 → d2.dominators b = some l2 → l1.Perm l2) := by
  obtain ⟨d1, e1, _, n1, s1⟩ := C16T.C16_simple_fast v1 root hv1 hb1 hr1 hwf1
  obtain ⟨d2, e2, _, n2, s2⟩ := C16T.C16_simple_fast v2 root hv2 hb2 hr2 hwf2
  obtain ⟨d1', e1', i1, _⟩ := C16T.C16_simple_fast_accessors v1 root hv1 hb1 hr1 hwf1
  obtain ⟨d2', e2', i2, _⟩ := C16T.C16_simple_fast_accessors v2 root hv2 hb2 hr2 hwf2
  have hd1 : d1' = d1 := by have := e1'.symm.trans e1; injection this
  have hd2 : d2' = d2 := by have := e2'.symm.trans e2; injection this
  subst hd1; subst hd2
  refine ⟨d1', d2', e1, e2, ?_, ?_, ?_⟩
  · intro b
    exact opt_eq_of_spec (fun y => i1 b y) (fun y => (i2 b y).trans (isIdom_congr hg).symm)
  · intro b
    rw [n1, n2]
    exact not_congr (C07W2.reach_congr hg)
  · intro b l1 l2 h1 h2
    obtain ⟨nd1, m1⟩ := s1 b l1 h1
    obtain ⟨nd2, m2⟩ := s2 b l2 h2
    exact perm_of_nodup_mem nd1 nd2 fun y => ((m1 y).trans (dominates_congr hg)).trans (m2 y).symm

/-- **articulation_points respects isomorphism**: both runs succeed and the second answer is a
rearrangement of the first renamed by `φ`. -/
theorem C07_articulation_respects_iso (φ : Nat → Nat) (hφ : ∀ x y, φ x = φ y → x = y)
    (v1 v2 : View) (hv1 : C16P.ViewOk v1) (hv2 : C16P.ViewOk v2)
    (hb1 : ∀ a, a ∈ v1.g.nodes → (v1.succ a).length ≤ (v1.g.succ a).length)
    (hb2 : ∀ a, a ∈ v2.g.nodes → (v2.succ a).length ≤ (v2.g.succ a).length)
    (hu1 : v1.g.directed = false) (hu2 : v2.g.directed = false)
    (hwf1 : v1.g.WellFormed) (hwf2 : v2.g.WellFormed) (hi1 : IndexOk v1) (hi2 : IndexOk v2)
    (hn : SameNodes v2.g (relabel φ v1.g)) (hg : SameAdj v2.g (relabel φ v1.g)) :
    ∃ l1 l2, articulationPoints v1 = .ok l1 ∧ articulationPoints v2 = .ok l2 ∧ l2.Perm (l1.map φ) := by
  obtain ⟨l1, e1, nd1, m1⟩ := C16T.C16_articulation v1 hv1 hb1 hu1 hwf1 hi1
  obtain ⟨l2, e2, nd2, m2⟩ := C16T.C16_articulation v2 hv2 hb2 hu2 hwf2 hi2
  refine ⟨l1, l2, e1, e2, perm_of_nodup_mem nd2 (nodup_map_inj hφ nd1) ?_⟩
  intro y
  have hwfr := wellFormed_relabel v1.g hφ hwf1
  rw [m2, cutVertex_congr hu2 (show (relabel φ v1.g).directed = false from hu1) hwf2.1 hwfr.1 hn hg,
    List.mem_map]
  constructor
  · intro h
    obtain ⟨x, _, rfl⟩ := (mem_relabel_nodes_iff φ v1.g).mp h.1
    exact ⟨x, (m1 x).mpr ((cutVertex_relabel_iff hφ v1.g x).mp h), rfl⟩
  · rintro ⟨x, hx, rfl⟩
    exact (cutVertex_relabel_iff hφ v1.g x).mpr ((m1 x).mp hx)

/-- **articulation_points, encoding independence** -/
theorem C07_articulation_encoding_independent
    (v1 v2 : View) (hv1 : C16P.ViewOk v1) (hv2 : C16P.ViewOk v2)
    (hb1 : ∀ a, a ∈ v1.g.nodes → (v1.succ a).length ≤ (v1.g.succ a).length)
    (hb2 : ∀ a, a ∈ v2.g.nodes → (v2.succ a).length ≤ (v2.g.succ a).length)
    (hu1 : v1.g.directed = false) (hu2 : v2.g.directed = false)
    (hwf1 : v1.g.WellFormed) (hwf2 : v2.g.WellFormed) (hi1 : IndexOk v1) (hi2 : IndexOk v2)
    (hn : SameNodes v1.g v2.g) (hg : SameAdj v1.g v2.g) :
    ∃ l1 l2, articulationPoints v1 = .ok l1 ∧ articulationPoints v2 = .ok l2 ∧ l1.Perm l2 := by
  obtain ⟨l1, e1, nd1, m1⟩ := C16T.C16_articulation v1 hv1 hb1 hu1 hwf1 hi1
  obtain ⟨l2, e2, nd2, m2⟩ := C16T.C16_articulation v2 hv2 hb2 hu2 hwf2 hi2
  refine ⟨l1, l2, e1, e2, perm_of_nodup_mem nd1 nd2 fun y => ?_⟩
  rw [m1, m2]
  exact cutVertex_congr hu1 hu2 hwf1.1 hwf2.1 hn hg y

end C16

/-! ## C08 — traversals: Dfs / Bfs / DfsPostOrder / Topo under isomorphism -/
section C08
open PetgraphModel.C07W2

/-- **Dfs respects isomorphism**: `x` is emitted from `s` iff `φ x` is emitted from `φ s` on any view of
any presentation of the renamed graph. -/
theorem C07_dfs_respects_iso (φ : Nat → Nat) (hφ : ∀ x y, φ x = φ y → x = y)
    (v1 v2 : View) (h1 : ViewOk v1) (h2 : ViewOk v2) (hg : SameAdj v2.g (relabel φ v1.g))
    (s : Nat) (i1 o1 i2 o2 : Nat) (out1 out2 : List Nat) (d1 d2 : Dfs)
    (r1 : dfsAll v1 i1 o1 { stack := [s], disc := [] } [] = some (out1, d1))
    (r2 : dfsAll v2 i2 o2 { stack := [φ s], disc := [] } [] = some (out2, d2)) :
    (∀ x, φ x ∈ out2 ↔ x ∈ out1) ∧ ∀ y ∈ out2, ∃ x, y = φ x := by
  have a1 := (dfs_fresh v1 h1 s i1 o1 out1 d1 r1).2
  have a2 := (dfs_fresh v2 h2 (φ s) i2 o2 out2 d2 r2).2
  refine ⟨fun x => ?_, fun y hy => ?_⟩
  · rw [a1, a2]; exact (C07W2.reach_congr hg).trans (reach_relabel_iff v1.g hφ)
  · obtain ⟨x, hx, _⟩ := reach_relabel_inv v1.g hφ ((C07W2.reach_congr hg).mp ((a2 y).mp hy))
    exact ⟨x, hx⟩

theorem C07_bfs_respects_iso (φ : Nat → Nat) (hφ : ∀ x y, φ x = φ y → x = y)
    (v1 v2 : View) (h1 : ViewOk v1) (h2 : ViewOk v2) (hg : SameAdj v2.g (relabel φ v1.g))
    (s : Nat) (f1 f2 : Nat) (out1 out2 : List Nat)
    (r1 : bfsAll v1 f1 (Bfs.new s) [] = some out1) (r2 : bfsAll v2 f2 (Bfs.new (φ s)) [] = some out2) :
    (∀ x, φ x ∈ out2 ↔ x ∈ out1) ∧ ∀ y ∈ out2, ∃ x, y = φ x := by
  have a1 := (bfs_spec v1 h1 s f1 out1 r1).2.1
  have a2 := (bfs_spec v2 h2 (φ s) f2 out2 r2).2.1
  refine ⟨fun x => ?_, fun y hy => ?_⟩
  · rw [a1, a2]; exact (C07W2.reach_congr hg).trans (reach_relabel_iff v1.g hφ)
  · obtain ⟨x, hx, _⟩ := reach_relabel_inv v1.g hφ ((C07W2.reach_congr hg).mp ((a2 y).mp hy))
    exact ⟨x, hx⟩

theorem C07_postorder_respects_iso (φ : Nat → Nat) (hφ : ∀ x y, φ x = φ y → x = y)
    (v1 v2 : View) (h1 : ViewOk v1) (h2 : ViewOk v2) (hg : SameAdj v2.g (relabel φ v1.g))
    (s : Nat) (i1 o1 i2 o2 : Nat) (out1 out2 : List Nat) (d1 d2 : Post)
    (r1 : postAll v1 i1 o1 { stack := [s] } [] = some (out1, d1))
    (r2 : postAll v2 i2 o2 { stack := [φ s] } [] = some (out2, d2)) :
    (∀ x, φ x ∈ out2 ↔ x ∈ out1) ∧ ∀ y ∈ out2, ∃ x, y = φ x := by
  have a1 := (post_set v1 h1 s i1 o1 out1 d1 r1).2
  have a2 := (post_set v2 h2 (φ s) i2 o2 out2 d2 r2).2
  refine ⟨fun x => ?_, fun y hy => ?_⟩
  · rw [a1, a2]; exact (C07W2.reach_congr hg).trans (reach_relabel_iff v1.g hφ)
  · obtain ⟨x, hx, _⟩ := reach_relabel_inv v1.g hφ ((C07W2.reach_congr hg).mp ((a2 y).mp hy))
    exact ⟨x, hx⟩

/-- "neither on nor downstream of a cycle" is carried along by an injective relabeling -/
theorem C07_no_cycle_upstream_relabel (φ : Nat → Nat) (hφ : ∀ x y, φ x = φ y → x = y) (g : MGraph) (x : Nat) :
    (∀ c, Reach1 (relabel φ g) c c → ¬ Reach (relabel φ g) c (φ x)) ↔ (∀ c, Reach1 g c c → ¬ Reach g c x) :=
  noCycleUpstream_relabel_iff hφ g x

/-- **Topo respects isomorphism**: on well-formed views, a node `x` is emitted by the first run iff `φ x`
is emitted by the second (the emitted *set* — exactly the nodes neither on nor downstream of a cycle —
is a function of the abstract graph; the order is a topological order in both, `C08_topo_order`). -/
theorem C07_topo_respects_iso (φ : Nat → Nat) (hφ : ∀ x y, φ x = φ y → x = y)
    (v1 v2 : View) (hv1 : ViewOk v1) (hv2 : ViewOk v2) (hp1 : PredOk v1) (hp2 : PredOk v2)
    (hwf1 : v1.g.WellFormed) (hwf2 : v2.g.WellFormed)
    (hn : SameNodes v2.g (relabel φ v1.g)) (hg : SameAdj v2.g (relabel φ v1.g))
    (i1 o1 i2 o2 : Nat) (out1 out2 : List Nat)
    (r1 : topoAll v1 i1 o1 (Topo.new v1) [] = some out1) (r2 : topoAll v2 i2 o2 (Topo.new v2) [] = some out2)
    (x : Nat) (hx : x ∈ v1.g.nodes) : φ x ∈ out2 ↔ x ∈ out1 := by
  have hx2 : φ x ∈ v2.g.nodes := (hn (φ x)).mpr ((mem_relabel_nodes v1.g hφ).mpr hx)
  rw [C08T.C08_topo_exact v1 hv1 hp1 hwf1 i1 o1 out1 r1 x hx,
    C08T.C08_topo_exact v2 hv2 hp2 hwf2 i2 o2 out2 r2 (φ x) hx2]
  exact (noCycleUpstream_congr hg (φ x)).trans (noCycleUpstream_relabel_iff hφ v1.g x)

/-- **Topo, encoding independence** -/
theorem C07_topo_encoding_independent
    (v1 v2 : View) (hv1 : ViewOk v1) (hv2 : ViewOk v2) (hp1 : PredOk v1) (hp2 : PredOk v2)
    (hwf1 : v1.g.WellFormed) (hwf2 : v2.g.WellFormed) (hn : SameNodes v1.g v2.g) (hg : SameAdj v1.g v2.g)
    (i1 o1 i2 o2 : Nat) (out1 out2 : List Nat)
    (r1 : topoAll v1 i1 o1 (Topo.new v1) [] = some out1) (r2 : topoAll v2 i2 o2 (Topo.new v2) [] = some out2)
    (x : Nat) (hx : x ∈ v1.g.nodes) : x ∈ out1 ↔ x ∈ out2 := by
  rw [C08T.C08_topo_exact v1 hv1 hp1 hwf1 i1 o1 out1 r1 x hx,
    C08T.C08_topo_exact v2 hv2 hp2 hwf2 i2 o2 out2 r2 x ((hn x).mp hx)]
  exact noCycleUpstream_congr hg x

end C08

/-! ## C20 — page_rank, greedy_feedback_arc_set -/
section C20
open PetgraphModel.C20 PetgraphModel.C07W2

/-- **page_rank respects isomorphism** (re-export of `C20_pagerank_equivariant` for `C07T.relabel`): the
rank of `φ x` in the relabeled graph is the rank of `x`.  (Stated for the abstract graph the model is a
function of; through an encoding with vacant indices the real function is the recorded finding D12,
see `isKnownException`.) -/
theorem C07_pagerank_respects_iso (φ : Nat → Nat) (hφ : ∀ x y, φ x = φ y → x = y) (g : MGraph) (d : Rat) (k : Nat) :
    PR.pageRank (relabel φ g) d k = (PR.pageRank g d k).map (PR.relabelRanks φ) :=
  C20T.C20_pagerank_equivariant φ hφ g d k

/-- consequently every node keeps its rank -/
theorem C07_pagerank_rank_respects_iso (φ : Nat → Nat) (hφ : ∀ x y, φ x = φ y → x = y) (g : MGraph) (d : Rat)
    (k : Nat) (r : List (Nat × Rat)) (h : PR.pageRank g d k = some r) :
    ∃ r', PR.pageRank (relabel φ g) d k = some r' ∧ ∀ x, PR.rk r' (φ x) = PR.rk r x := by
  refine ⟨PR.relabelRanks φ r, ?_, fun x => PR.rk_relabel hφ r x⟩
  rw [C07_pagerank_respects_iso φ hφ g d k, h]; rfl

/-- "removing these edge ids leaves no cycle" is carried along by an injective relabeling and by any
re-presentation with the same edge records -/
theorem C07_feedback_arc_set_relabel (φ : Nat → Nat) (hφ : ∀ x y, φ x = φ y → x = y) (g1 g2 : MGraph)
    (hd : g2.directed = g1.directed) (hg : SameEdgeSet g2 (relabel φ g1)) (ids : List Nat)
    (h : ∀ x, ¬ Reach1 (removeEdges g1 ids) x x) : ∀ x, ¬ Reach1 (removeEdges g2 ids) x x :=
  fas_transport hφ hd hg ids h

/-- **greedy_feedback_arc_set respects isomorphism** in the sense in which a non-unique answer can:
run on two encodings (`order1`, `order2` = the two `edge_references()` orders) of a directed graph and
of its renaming by an injective `φ` with the same edge ids, each answer is a valid feedback arc set —
removal leaves no cycle, every self-loop is removed — of its own graph AND, transported by the edge
ids, of the other one's. -/
theorem C07_feedback_arc_set_respects_iso (φ : Nat → Nat) (hφ : ∀ x y, φ x = φ y → x = y) (g1 g2 : MGraph)
    (hd1 : g1.directed = true) (hd2 : g2.directed = true) (hg : SameEdgeSet g2 (relabel φ g1))
    (order1 order2 : List Edge) (hall1 : ∀ e ∈ g1.edges, e ∈ order1) (hall2 : ∀ e ∈ g2.edges, e ∈ order2) :
    let F1 := Fas.feedbackArcSet (order1.map fun e => (e.id, e.src, e.tgt))
    let F2 := Fas.feedbackArcSet (order2.map fun e => (e.id, e.src, e.tgt))
    (∀ x, ¬ Reach1 (removeEdges g1 F1) x x) ∧ (∀ x, ¬ Reach1 (removeEdges g2 F2) x x) ∧
    (∀ x, ¬ Reach1 (removeEdges g2 F1) x x) ∧
    (∀ e ∈ g2.edges, e.src = e.tgt → e.id ∈ F1 ∧ e.id ∈ F2) := by
  intro F1 F2
  have A1 := C20T.C20_fas_model_correct g1 hd1 order1 hall1
  have A2 := C20T.C20_fas_model_correct g2 hd2 order2 hall2
  refine ⟨A1.1, A2.1, fas_transport hφ (hd2.trans hd1.symm) hg F1 A1.1, ?_⟩
  intro e he hl
  refine ⟨?_, A2.2 e (hall2 e he) hl⟩
  obtain ⟨e1, he1, rfl⟩ := (mem_relabel_edges φ g1).mp ((hg e).mp he)
  exact A1.2 e1 (hall1 e1 he1) (hφ _ _ hl)

end C20

/-! ## C13 — the isomorphism notions themselves (re-export) -/

/-- `Iso` / `SubIso` of a matching problem are unchanged when both graphs are renamed (re-export of
`C13_relabel_invariant`; `C13.relabel` is this file's `relabel`). -/
theorem C07_iso_relabel (P : C13.Problem) (σ0 τ0 σ1 τ1 : Nat → Nat)
    (wf0 : P.g0.WellFormed) (wf1 : P.g1.WellFormed)
    (h0 : ∀ a ∈ P.g0.nodes, τ0 (σ0 a) = a) (h1 : ∀ b ∈ P.g1.nodes, τ1 (σ1 b) = b) :
    (C13.Iso (P.relabel σ0 τ0 σ1 τ1) ↔ C13.Iso P) ∧ (C13.SubIso (P.relabel σ0 τ0 σ1 τ1) ↔ C13.SubIso P) :=
  let r := C13T.C13_relabel_invariant P σ0 τ0 σ1 τ1 wf0 wf1 h0 h1
  ⟨r.1, r.2.1⟩

/-! ## the hypotheses of the wave-2 theorems are satisfiable: a concrete isomorphic pair of views -/
section Examples
open PetgraphModel.C10P PetgraphModel.SP PetgraphModel.C07W2

/-- the renaming `x ↦ 2 x + 10` -/
def exφ : Nat → Nat := fun x => 2 * x + 10

theorem exφ_inj : ∀ x y, exφ x = exφ y → x = y := by
  intro x y h; unfold exφ at h; omega

/-- `C10T.exView` (4 nodes, a zero-cost cycle, a loop, an isolated node, a vacancy in the index
assignment) renamed by `exφ`, its rows listed in another order, another index assignment and bound -/
def exView2 : View :=
  { g := relabel exφ C10T.exView.g,
    nb := 9, ix := [(10, 8), (12, 0), (14, 5), (16, 2)],
    out := [(16, []), (14, [(12, 2), (14, 4)]), (12, [(14, 3)]), (10, [(12, 0), (14, 1)])],
    inn := [] }

example : C10.viewOkB exView2 = true ∧ C10.viewOkB C10T.exView = true := by decide

/-- the isomorphism theorem applies to the pair, and says what the two concrete runs show -/
example : (∀ x, amGet ([(10, 0), (12, 1), (14, 0)] : List (Nat × Int)) (exφ x) =
    amGet ([(0, 0), (2, 0), (1, 1)] : List (Nat × Int)) x) := by
  have hv1 := C10T.C10_view_check C10T.exView (by decide)
  have hv2 := C10T.C10_view_check exView2 (by decide)
  exact (C07_dijkstra_respects_iso exφ exφ_inj popMin popMin C10T.C10_popMin_isMinPop C10T.C10_popMin_isMinPop
    C10T.exView exView2 hv1.1 hv2.1 hv1.2 (SameArcs.refl _) 0 [(0, 0), (2, 0), (1, 1)]
    [(10, 0), (12, 1), (14, 0)] (by decide) (by decide)).1

example : SP.dijkstra popMin exView2 (exφ 0) none = some [(10, 0), (12, 1), (14, 0)] := by decide

end Examples

/-! ## C09 (continued) — TarjanScc; C13 — is_isomorphic / is_isomorphic_subgraph -/
section C09b
open PetgraphModel.C09J PetgraphModel.C09M PetgraphModel.C07W2

/-- **TarjanScc::run respects isomorphism** (fresh run): the first answer, renamed, is a correct answer
for the second graph, and the two answers are the same partition. -/
theorem C07_tarjan_respects_iso (φ : Nat → Nat) (hφ : ∀ x y, φ x = φ y → x = y)
    (v1 v2 : View) (hv1 : C09P.ViewOk v1) (hv2 : C09P.ViewOk v2) (hix1 : C09T.IxOk v1) (hix2 : C09T.IxOk v2)
    (hwf1 : v1.g.WellFormed) (hwf2 : v2.g.WellFormed)
    (hs1 : 2 * v1.g.nodes.length + 1 ≤ usizeMax) (hs2 : 2 * v2.g.nodes.length + 1 ≤ usizeMax)
    (hn : SameNodes v2.g (relabel φ v1.g)) (hg : SameAdj v2.g (relabel φ v1.g))
    (t1 t2 : TJ) (h1 : tjRun v1 {} = some t1) (h2 : tjRun v2 {} = some t2) :
    SccSpec v2.g (t1.out.map (List.map φ)) ∧
    ∀ x y, (∃ c ∈ t1.out, x ∈ c ∧ y ∈ c) ↔ (∃ c ∈ t2.out, φ x ∈ c ∧ φ y ∈ c) := by
  have S1 := (C09T.C09_tarjan v1 hv1 hix1 hwf1 hs1 t1 h1).1.1
  have S2 := (C09T.C09_tarjan v2 hv2 hix2 hwf2 hs2 t2 h2).1.1
  refine ⟨sccSpec_congr hn.symm hg.symm (sccSpec_relabel hφ S1), fun x y => ?_⟩
  rw [C09P.part_same_iff (C09P.SccSpec.toPart S1), C09P.part_same_iff (C09P.SccSpec.toPart S2)]
  have e1 : φ x ∈ v2.g.nodes ↔ x ∈ v1.g.nodes := (hn (φ x)).trans (mem_relabel_nodes v1.g hφ)
  have e2 : SC v2.g (φ x) (φ y) ↔ SC v1.g x y := (sc_congr hg).trans (sc_relabel_iff hφ v1.g)
  rw [e1, e2]

/-- **tarjan_scc and kosaraju_scc return the same partition**, on any two views of any two
presentations of the same graph -/
theorem C07_tarjan_kosaraju_same_partition
    (v1 v2 : View) (hv1 : C09P.ViewOk v1) (hv2 : C09P.ViewOk v2) (hix1 : C09T.IxOk v1)
    (hp2 : ∀ a b, b ∈ v2.pred a ↔ v2.g.Adj b a)
    (hwf1 : v1.g.WellFormed) (hwf2 : v2.g.WellFormed) (hs1 : 2 * v1.g.nodes.length + 1 ≤ usizeMax)
    (hn : SameNodes v1.g v2.g) (hg : SameAdj v1.g v2.g)
    (t1 : TJ) (comps2 : List (List Nat)) (h1 : tjRun v1 {} = some t1) (h2 : kosaraju v2 = some comps2) :
    ∀ x y, (∃ c ∈ t1.out, x ∈ c ∧ y ∈ c) ↔ (∃ c ∈ comps2, x ∈ c ∧ y ∈ c) := by
  have S1 := (C09T.C09_tarjan v1 hv1 hix1 hwf1 hs1 t1 h1).1.1
  have S2 := C09T.C09_kosaraju v2 hv2 hp2 hwf2 comps2 h2
  intro x y
  rw [C09P.part_same_iff (C09P.SccSpec.toPart S1), C09P.part_same_iff (C09P.SccSpec.toPart S2),
    hn x, sc_congr hg]

end C09b

section C13b
open PetgraphModel.C13 PetgraphModel.C13.Vf2

/-- the side conditions of `C13_vf2_iso_iff` / `C13_vf2_sub_iff` (checked per case by the driver) -/
structure Vf2Side (I : Inst) (sub : Bool) : Prop where
  cg0 : cgOkB I.g0 = true
  cg1 : cgOkB I.g1 = true
  dir : I.g0.directed = I.g1.directed
  pos : 0 < I.g0.n
  e0 : ECountOk I.g0
  e1 : ECountOk I.g1
  inn : inNodupB I.g0 = true
  fuel : (isomorphisms I sub bigFuel (M.init I)).isSome = true

/-- **is_isomorphic respects isomorphism**: if the second instance's matching problem is the first one's
with both graphs renamed (node weights carried along), the two answers coincide — whatever the two
encodings' iteration orders are. -/
theorem C07_is_isomorphic_respects_iso (I1 I2 : Inst) (s1 : Vf2Side I1 false) (s2 : Vf2Side I2 false)
    (σ0 τ0 σ1 τ1 : Nat → Nat) (wf0 : I1.problem.g0.WellFormed) (wf1 : I1.problem.g1.WellFormed)
    (h0 : ∀ a ∈ I1.problem.g0.nodes, τ0 (σ0 a) = a) (h1 : ∀ b ∈ I1.problem.g1.nodes, τ1 (σ1 b) = b)
    (hP : I2.problem = I1.problem.relabel σ0 τ0 σ1 τ1) : isoModel I2 = isoModel I1 := by
  have A1 := C13T.C13_vf2_iso_iff I1 s1.cg0 s1.cg1 s1.dir s1.pos s1.e0 s1.e1 s1.inn s1.fuel
  have A2 := C13T.C13_vf2_iso_iff I2 s2.cg0 s2.cg1 s2.dir s2.pos s2.e0 s2.e1 s2.inn s2.fuel
  have R := (C13T.C13_relabel_invariant I1.problem σ0 τ0 σ1 τ1 wf0 wf1 h0 h1).1
  rw [← hP] at R
  cases hb1 : isoModel I1 <;> cases hb2 : isoModel I2 <;> simp_all

/-- **is_isomorphic_subgraph respects isomorphism** -/
theorem C07_is_isomorphic_subgraph_respects_iso (I1 I2 : Inst) (s1 : Vf2Side I1 true) (s2 : Vf2Side I2 true)
    (σ0 τ0 σ1 τ1 : Nat → Nat) (wf0 : I1.problem.g0.WellFormed) (wf1 : I1.problem.g1.WellFormed)
    (h0 : ∀ a ∈ I1.problem.g0.nodes, τ0 (σ0 a) = a) (h1 : ∀ b ∈ I1.problem.g1.nodes, τ1 (σ1 b) = b)
    (hP : I2.problem = I1.problem.relabel σ0 τ0 σ1 τ1) : subModel I2 = subModel I1 := by
  have A1 := C13T.C13_vf2_sub_iff I1 s1.cg0 s1.cg1 s1.dir s1.pos s1.e0 s1.e1 s1.inn s1.fuel
  have A2 := C13T.C13_vf2_sub_iff I2 s2.cg0 s2.cg1 s2.dir s2.pos s2.e0 s2.e1 s2.inn s2.fuel
  have R := (C13T.C13_relabel_invariant I1.problem σ0 τ0 σ1 τ1 wf0 wf1 h0 h1).2.1
  rw [← hP] at R
  cases hb1 : subModel I1 <;> cases hb2 : subModel I2 <;> simp_all

end C13b

/-! # Wave 3

## "sized by `node_bound`" ⟹ "no out-of-bounds access through `to_index`"

`C07_scratch_safe` is about the regenerated table alone: every scratch container that is indexed through
`to_index` in a function accepting graphs with vacant indices is *sized* by `node_bound`/`edge_bound`.  The
theorems below close the gap to the storage types: for the table computed from each storage model
(`Theorems/C06.lean`, `C06_consistent_<Type>`), `to_index a < node_bound` for every live `a` — the clause `indexOk`
of `TableConsistent` — and therefore an access `c[to_index a]` into a container `c` of that length is in bounds. -/
section W3Bounds
open PetgraphModel.Visit PetgraphModel.C07W3

/-- **bridging lemma**: on every consistent table `to_index a` is recorded and is below `node_bound`, for every
live node `a`. -/
theorem C07_to_index_lt_bound (qs : List Nat) (t : Table) (h : TableConsistent qs t) (ids : List Nat)
    (hids : t.ids = some ids) (a : Nat) (ha : a ∈ ids) : ∃ i, t.toIx.lookup a = some i ∧ i < t.nodeBound :=
  toIndexBelow_of_consistent h ids hids a ha

/-- … for every storage table proved consistent in `Theorems/C06.lean` (`StorageTable`: one constructor per
`C06_consistent_<Type>` theorem; the repaired tables of D6/D7 have the node fields of the unrepaired ones,
`C07W3.repair_node_fields`). -/
theorem C07_to_index_lt_bound_storage (t : Table) (h : StorageTable t) : ToIndexBelow t t.nodeBound := by
  obtain ⟨qs, hc⟩ := h.consistent
  exact toIndexBelow_of_consistent hc

/-- `Graph` (C01 invariant): `to_index(a) = a.index() < node_count = node_bound` -/
theorem C07_to_index_lt_bound_Graph (s : G.State) (h : C01T.Inv s) (a : Nat) (ha : a < s.nodes.length) :
    ∃ i, (graphTable s).toIx.lookup a = some i ∧ i < (graphTable s).nodeBound :=
  toIndexBelow_of_indexOk (g_index s h) _ rfl a (List.mem_range.mpr ha)

/-- `GraphMap` (C03 invariant): the position of the key in the node `IndexMap` -/
theorem C07_to_index_lt_bound_GraphMap (s : GM.State) (h : GMProofs.Inv s) (a : Nat) (ha : a ∈ GM.nodesOf s) :
    ∃ i, (graphMapTable s).toIx.lookup a = some i ∧ i < (graphMapTable s).nodeBound :=
  toIndexBelow_of_indexOk (gm_index s h) _ rfl a ha

/-- `Csr`, directed and undirected (node count fits the index type) -/
theorem C07_to_index_lt_bound_Csr (s : CsrM.State) (hf : C06T.CsrIxFits s) (a : Nat)
    (ha : a ∈ CsrM.nodeIdentifiers s) :
    ∃ i, (csrTable s).toIx.lookup a = some i ∧ i < (csrTable s).nodeBound :=
  toIndexBelow_of_indexOk (CsrW2.csr_indexOk hf) _ rfl a ha

/-- `adj::List` -/
theorem C07_to_index_lt_bound_List (s : AdjM.State) (h : C06T.ListWF s) (a : Nat) (ha : a ∈ AdjM.nodeIndices s) :
    ∃ i, (adjListTable s).toIx.lookup a = some i ∧ i < (adjListTable s).nodeBound :=
  toIndexBelow_of_indexOk (al_index s h) _ rfl a ha

/-- `MatrixGraph`, directed and undirected — the type with vacant indices among the C06 tables: the bound is
`upper_bound` of the id storage, not the node count -/
theorem C07_to_index_lt_bound_MatrixGraph (s : Matrix.State) (h : C04T.Inv s) (a : Nat) (ha : a ∈ s.nodes.ids) :
    ∃ i, (matrixTable s).toIx.lookup a = some i ∧ i < s.nodes.upperBound :=
  toIndexBelow_of_indexOk (MXProofs.index_ok h) _ rfl a ha

/-- `StableGraph` (no C06 table; `to_index(a) = a.index()`, `from_index(i) = NodeIndex::new(i)`): every live node
index is below `node_bound` and every live edge index below `edge_bound`, in every state. -/
theorem C07_to_index_lt_bound_StableGraph (s : SG.State) :
    (∀ a, (SG.nodeWeight s a).isSome = true → a < SG.nodeBound s) ∧
    (∀ e, (SG.edgeWeight s e).isSome = true → e < SG.edgeBound s) :=
  ⟨stable_live_lt_bound s, stable_edge_live_lt_bound s⟩

/-- **no out-of-bounds access**: for every entry of the regenerated scratch table that is indexed through
`to_index` and sized by `node_bound`, on every storage table of C06, a container `c` of the allocated length
(`scratchLen t u.size = some c.length`) has an element at `to_index a` for every live node `a`. -/
theorem C07_scratch_in_bounds :
    ∀ u ∈ scratchTable, u.indexedByToIndex = true → u.size = .nodeBound →
      ∀ t, StorageTable t → ∀ {α : Type} (c : List α), scratchLen t u.size = some c.length →
        ∀ ids, t.ids = some ids → ∀ a ∈ ids, ∃ i, t.toIx.lookup a = some i ∧ ∃ x, c[i]? = some x := by
  intro u _ _ hsz t ht α c hc
  rw [hsz] at hc
  have hlen : t.nodeBound = c.length := by simpa [scratchLen] using hc
  exact accessInBounds_of_below (hlen ▸ C07_to_index_lt_bound_storage t ht)

/-- … and the entries of compact-only functions (`compactOnly`: the signature demands `NodeCompactIndexable`),
which may be sized by `node_count`: on a compact storage table `node_count = node_bound`, so they are in bounds
too.  Together with `C07_scratch_safe` this covers every entry indexed through a node's `to_index` except the
recorded finding D12. -/
theorem C07_scratch_in_bounds_compact :
    ∀ u ∈ scratchTable, u.indexedByToIndex = true → u.compactOnly = true → (u.size = .nodeCount ∨ u.size = .nodeBound) →
      ∀ t, StorageTable t → t.compact = true → ∀ {α : Type} (c : List α), scratchLen t u.size = some c.length →
        ∀ ids, t.ids = some ids → ∀ a ∈ ids, ∃ i, t.toIx.lookup a = some i ∧ ∃ x, c[i]? = some x := by
  intro u _ _ _ hsz t ht hcomp α c hc ids hids
  obtain ⟨qs, hcons⟩ := ht.consistent
  have hlen : t.nodeBound = c.length := by
    rcases hsz with h | h
    · rw [h] at hc
      have hn : t.nodeCount = some c.length := by simpa [scratchLen] using hc
      exact (nodeCount_eq_bound_of_compact hcons hcomp ids hids _ hn).symm
    · rw [h] at hc; simpa [scratchLen] using hc
  exact accessInBounds_of_below (hlen ▸ toIndexBelow_of_consistent hcons) ids hids

/-- the entries sized by `edge_bound` (the flow table of `ford_fulkerson`, indexed by
`EdgeIndexable::to_index`): on every storage table implementing `EdgeIndexable`, in bounds for every listed edge. -/
theorem C07_scratch_in_bounds_edge :
    ∀ u ∈ scratchTable, u.size = .edgeBound →
      ∀ t, StorageTable t → ∀ {α : Type} (c : List α), scratchLen t u.size = some c.length →
        ∀ er l, t.erefs = some er → t.eix = some l → ∀ e ∈ er, ∃ x, l.lookup e.id = some x ∧ ∃ y, c[x.1]? = some y := by
  intro u _ hsz t ht α c hc er l her hl e he
  obtain ⟨qs, hcons⟩ := ht.consistent
  rw [hsz] at hc
  have heb : t.edgeBound = some c.length := by simpa [scratchLen] using hc
  obtain ⟨x, hx, hlt⟩ := edgeToIndexBelow_of_consistent hcons _ heb er l her hl e he
  exact ⟨x, hx, c[x.1], List.getElem?_eq_getElem hlt⟩

/-- the hypotheses are not vacuous: the table has entries of each of the three kinds -/
example : (scratchTable.filter fun u => u.indexedByToIndex && u.size == .nodeBound).length ≥ 15 ∧
    (scratchTable.filter fun u => u.indexedByToIndex && u.compactOnly && u.size == .nodeCount).length ≥ 5 ∧
    (scratchTable.filter fun u => u.size == .edgeBound).length ≥ 1 := by decide

end W3Bounds

/-! ## `…_total` variants: the second run answers whenever the first does

The wave-2 theorems above take "both runs answer" (`= some …`) as hypotheses.  Where a totality theorem of the
model exists (C10: `dijkstra`, `astar`, `k_shortest_path` terminate; C11: the `spfa` work list and
`find_negative_cycle` never exhaust their fuel, `bellman_ford`/`floyd_warshall` are total functions whose `none` IS
the answer `Err(NegativeCycle)`; C12: both MST models always emit) the hypotheses on the second run go away: if
run 1 answers then run 2 answers, and the answers correspond.  (`simple_fast`, `articulation_points`,
`ford_fulkerson`, `page_rank` above are already of this form.  Not covered: the C08/C09 traversal loops and VF2,
whose fuel-sufficiency theorems do not exist yet.) -/
section W3Total
open PetgraphModel.C10P PetgraphModel.SP PetgraphModel.C07W2

/-- **dijkstra, encoding independence, total**: both runs answer (any two min-heap tie orders, any two views of
the same weighted arcs) and the answers agree as in `C07_dijkstra_encoding_independent`. -/
theorem C07_dijkstra_encoding_independent_total (pop1 pop2 : Pop) (hp1 : IsMinPop pop1) (hp2 : IsMinPop pop2)
    (v1 v2 : View) (hv1 : ViewArcs v1) (hv2 : ViewArcs v2) (hw : NonNeg v1.g)
    (hg : SameArcs v1.g v2.g) (s : Nat) (goal : Option Nat) :
    ∃ m1 m2, SP.dijkstra pop1 v1 s goal = some m1 ∧ SP.dijkstra pop2 v2 s goal = some m2 ∧
      (goal = none → ∀ x, amGet m1 x = amGet m2 x) ∧ (∀ t, goal = some t → amGet m1 t = amGet m2 t) := by
  obtain ⟨m1, r1⟩ := C10T.C10_dijkstra_terminates pop1 hp1 v1 s goal
  obtain ⟨m2, r2⟩ := C10T.C10_dijkstra_terminates pop2 hp2 v2 s goal
  exact ⟨m1, m2, r1, r2, C07_dijkstra_encoding_independent pop1 pop2 hp1 hp2 v1 v2 hv1 hv2 hw hg s goal m1 m2 r1 r2⟩

/-- **dijkstra respects isomorphism, total** -/
theorem C07_dijkstra_respects_iso_total (φ : Nat → Nat) (hφ : ∀ x y, φ x = φ y → x = y)
    (pop1 pop2 : Pop) (hp1 : IsMinPop pop1) (hp2 : IsMinPop pop2)
    (v1 v2 : View) (hv1 : ViewArcs v1) (hv2 : ViewArcs v2) (hw : NonNeg v1.g)
    (hg : SameArcs v2.g (relabel φ v1.g)) (s : Nat) :
    ∃ m1 m2, SP.dijkstra pop1 v1 s none = some m1 ∧ SP.dijkstra pop2 v2 (φ s) none = some m2 ∧
      (∀ x, amGet m2 (φ x) = amGet m1 x) ∧ (∀ y c, amGet m2 y = some c → ∃ x, y = φ x) := by
  obtain ⟨m1, r1⟩ := C10T.C10_dijkstra_terminates pop1 hp1 v1 s none
  obtain ⟨m2, r2⟩ := C10T.C10_dijkstra_terminates pop2 hp2 v2 (φ s) none
  exact ⟨m1, m2, r1, r2, C07_dijkstra_respects_iso φ hφ pop1 pop2 hp1 hp2 v1 v2 hv1 hv2 hw hg s m1 m2 r1 r2⟩

/-- **dijkstra with a goal respects isomorphism, total** -/
theorem C07_dijkstra_goal_respects_iso_total (φ : Nat → Nat) (hφ : ∀ x y, φ x = φ y → x = y)
    (pop1 pop2 : Pop) (hp1 : IsMinPop pop1) (hp2 : IsMinPop pop2)
    (v1 v2 : View) (hv1 : ViewArcs v1) (hv2 : ViewArcs v2) (hw : NonNeg v1.g)
    (hg : SameArcs v2.g (relabel φ v1.g)) (s t : Nat) :
    ∃ m1 m2, SP.dijkstra pop1 v1 s (some t) = some m1 ∧ SP.dijkstra pop2 v2 (φ s) (some (φ t)) = some m2 ∧
      amGet m2 (φ t) = amGet m1 t := by
  obtain ⟨m1, r1⟩ := C10T.C10_dijkstra_terminates pop1 hp1 v1 s (some t)
  obtain ⟨m2, r2⟩ := C10T.C10_dijkstra_terminates pop2 hp2 v2 (φ s) (some (φ t))
  exact ⟨m1, m2, r1, r2, C07_dijkstra_goal_respects_iso φ hφ pop1 pop2 hp1 hp2 v1 v2 hv1 hv2 hw hg s t m1 m2 r1 r2⟩

/-- the `k_shortest_path` model answers with a map — neither "fuel exhausted" (`C10_kshortest_terminates`) nor an
out-of-bounds access of the counter (`C10_kshortest_safe`) — whenever `to_index` stays below `node_bound` -/
theorem kshortest_answers (pop : Pop) (hp : IsMinPop pop) (v : View) (hv : ViewArcs v) (s : Nat)
    (hix : C10P.IxOk v s) (goal : Option Nat) (k : Nat) : ∃ m, kShortestPath pop v s goal k = .done m := by
  have hs := C10T.C10_kshortest_safe pop hp v hv s hix goal k
  have ht := C10T.C10_kshortest_terminates pop hp v s goal k
  cases hr : kShortestPath pop v s goal k with
  | done m => exact ⟨m, rfl⟩
  | panic => rw [hr] at hs; exact hs.elim
  | fuel => exact absurd hr ht

/-- **k_shortest_path, encoding independence, total** -/
theorem C07_kshortest_encoding_independent_total (pop1 pop2 : Pop) (hp1 : IsMinPop pop1) (hp2 : IsMinPop pop2)
    (v1 v2 : View) (hv1 : ViewArcsM v1) (hv2 : ViewArcsM v2) (hw : NonNeg v1.g)
    (hg : v1.g.arcs.Perm v2.g.arcs) (s k : Nat) (hk : 1 ≤ k)
    (hix1 : C10P.IxOk v1 s) (hinj1 : IxInj v1 s) (hix2 : C10P.IxOk v2 s) (hinj2 : IxInj v2 s) :
    ∃ m1 m2, kShortestPath pop1 v1 s none k = .done m1 ∧ kShortestPath pop2 v2 s none k = .done m2 ∧
      ∀ x, amGet m1 x = amGet m2 x := by
  obtain ⟨m1, r1⟩ := kshortest_answers pop1 hp1 v1 hv1.viewArcs s hix1 none k
  obtain ⟨m2, r2⟩ := kshortest_answers pop2 hp2 v2 hv2.viewArcs s hix2 none k
  exact ⟨m1, m2, r1, r2, C07_kshortest_encoding_independent pop1 pop2 hp1 hp2 v1 v2 hv1 hv2 hw hg s k hk
    hix1 hinj1 hix2 hinj2 m1 m2 r1 r2⟩

/-- **k_shortest_path respects isomorphism, total** -/
theorem C07_kshortest_respects_iso_total (φ : Nat → Nat) (hφ : ∀ x y, φ x = φ y → x = y)
    (pop1 pop2 : Pop) (hp1 : IsMinPop pop1) (hp2 : IsMinPop pop2)
    (v1 v2 : View) (hv1 : ViewArcsM v1) (hv2 : ViewArcsM v2) (hw : NonNeg v1.g)
    (hg : v2.g.arcs.Perm (relabel φ v1.g).arcs) (s k : Nat) (hk : 1 ≤ k)
    (hix1 : C10P.IxOk v1 s) (hinj1 : IxInj v1 s) (hix2 : C10P.IxOk v2 (φ s)) (hinj2 : IxInj v2 (φ s)) :
    ∃ m1 m2, kShortestPath pop1 v1 s none k = .done m1 ∧ kShortestPath pop2 v2 (φ s) none k = .done m2 ∧
      (∀ x, amGet m2 (φ x) = amGet m1 x) ∧ (∀ y c, amGet m2 y = some c → ∃ x, y = φ x) := by
  obtain ⟨m1, r1⟩ := kshortest_answers pop1 hp1 v1 hv1.viewArcs s hix1 none k
  obtain ⟨m2, r2⟩ := kshortest_answers pop2 hp2 v2 hv2.viewArcs (φ s) hix2 none k
  exact ⟨m1, m2, r1, r2, C07_kshortest_respects_iso φ hφ pop1 pop2 hp1 hp2 v1 v2 hv1 hv2 hw hg s k hk
    hix1 hinj1 hix2 hinj2 m1 m2 r1 r2⟩

/-- **astar respects isomorphism, total**: with fuel at least `astarBound` on both sides either both runs answer
`None`, or both answer `Some` with the same cost — no third case (`fuel`) on either side. -/
theorem C07_astar_respects_iso_total (φ : Nat → Nat) (hφ : ∀ x y, φ x = φ y → x = y)
    (pop1 pop2 : Pop) (hp1 : IsMinPop pop1) (hp2 : IsMinPop pop2)
    (v1 v2 : View) (hv1 : ViewArcs v1) (hv2 : ViewArcs v2) (hw : NonNeg v1.g)
    (hg : SameArcs v2.g (relabel φ v1.g)) (s : Nat) (goal1 goal2 : Nat → Bool)
    (hgoal : ∀ x, goal2 (φ x) = goal1 x) (h1 h2 : Nat → Int)
    (ha1 : Admissible v1.g goal1 h1) (ha2 : Admissible v2.g goal2 h2) (f1 f2 : Nat)
    (hf1 : astarBound v1.g s ≤ f1) (hf2 : astarBound v2.g (φ s) ≤ f2) :
    (SP.astar pop1 v1 s goal1 h1 f1 = .notFound ∧ SP.astar pop2 v2 (φ s) goal2 h2 f2 = .notFound) ∨
    ∃ c p1 p2, SP.astar pop1 v1 s goal1 h1 f1 = .found c p1 ∧ SP.astar pop2 v2 (φ s) goal2 h2 f2 = .found c p2 := by
  have hw2 : NonNeg v2.g := nonNeg_congr (SameArcs.symm hg) (nonNeg_relabel φ v1.g hw)
  have R := C07_astar_respects_iso φ hφ pop1 pop2 hp1 hp2 v1 v2 hv1 hv2 hw hg s goal1 goal2 hgoal h1 h2 ha1 ha2
    f1 f2 hf1 hf2
  have A1 := astar_cost_spec pop1 hp1 v1 hv1 hw s goal1 h1 ha1 f1 hf1
  have A2 := astar_cost_spec pop2 hp2 v2 hv2 hw2 (φ s) goal2 h2 ha2 f2 hf2
  rcases A1 with ⟨e1, _⟩ | ⟨c1, p1, e1, _⟩
  · exact Or.inl ⟨e1, R.1.mp e1⟩
  · rcases A2 with ⟨e2, _⟩ | ⟨c2, p2, e2, _⟩
    · have := R.1.mpr e2; rw [e1] at this; cases this
    · have hc := R.2 c1 p1 c2 p2 e1 e2
      subst hc
      exact Or.inr ⟨c1, p1, p2, e1, e2⟩

end W3Total

section W3TotalC11
open PetgraphModel.C11M PetgraphModel.C11MP PetgraphModel.C11P PetgraphModel.C07W2

/-- **bellman_ford respects isomorphism, total**: the model is a total function (`none` is the answer
`Err(NegativeCycle)`); if the first run answers `Ok` so does the second, and the distance tables correspond. -/
theorem C07_bellman_ford_respects_iso_total (φ : Nat → Nat) (hφ : ∀ x y, φ x = φ y → x = y)
    (v1 v2 : View) (hv1 : C11MP.ViewArcs v1) (hv2 : C11MP.ViewArcs v2)
    (hwf1 : v1.g.WellFormed) (hwf2 : v2.g.WellFormed)
    (hg : SameArcs v2.g (relabel φ v1.g)) (s : Nat) (hs1 : s ∈ v1.g.nodes) (hs2 : φ s ∈ v2.g.nodes)
    (st1 : BF) (r1 : bellmanFord v1 s = some st1) :
    ∃ st2, bellmanFord v2 (φ s) = some st2 ∧
      (∀ x, tget st2.d (φ x) = tget st1.d x) ∧ (∀ y c, tget st2.d y = some c → ∃ x, y = φ x) := by
  have R := C07_bellman_ford_respects_iso φ hφ v1 v2 hv1 hv2 hwf1 hwf2 hg s hs1 hs2
  cases r2 : bellmanFord v2 (φ s) with
  | none => have := R.1.mpr r2; rw [r1] at this; cases this
  | some st2 => exact ⟨st2, rfl, R.2 st1 st2 r1 r2⟩

/-- … and an error of the first run is an error of the second -/
theorem C07_bellman_ford_err_respects_iso_total (φ : Nat → Nat) (hφ : ∀ x y, φ x = φ y → x = y)
    (v1 v2 : View) (hv1 : C11MP.ViewArcs v1) (hv2 : C11MP.ViewArcs v2)
    (hwf1 : v1.g.WellFormed) (hwf2 : v2.g.WellFormed)
    (hg : SameArcs v2.g (relabel φ v1.g)) (s : Nat) (hs1 : s ∈ v1.g.nodes) (hs2 : φ s ∈ v2.g.nodes)
    (r1 : bellmanFord v1 s = none) : bellmanFord v2 (φ s) = none :=
  (C07_bellman_ford_respects_iso φ hφ v1 v2 hv1 hv2 hwf1 hwf2 hg s hs1 hs2).1.mp r1

/-- **bellman_ford, encoding independence, total** -/
theorem C07_bellman_ford_encoding_independent_total
    (v1 v2 : View) (hv1 : C11MP.ViewArcs v1) (hv2 : C11MP.ViewArcs v2)
    (hwf1 : v1.g.WellFormed) (hwf2 : v2.g.WellFormed)
    (hg : SameArcs v1.g v2.g) (s : Nat) (hs1 : s ∈ v1.g.nodes) (hs2 : s ∈ v2.g.nodes)
    (st1 : BF) (r1 : bellmanFord v1 s = some st1) :
    ∃ st2, bellmanFord v2 s = some st2 ∧ ∀ x, tget st1.d x = tget st2.d x := by
  have R := C07_bellman_ford_encoding_independent v1 v2 hv1 hv2 hwf1 hwf2 hg s hs1 hs2
  cases r2 : bellmanFord v2 s with
  | none => have := R.1.mpr r2; rw [r1] at this; cases this
  | some st2 => exact ⟨st2, rfl, R.2 st1 st2 r1 r2⟩

/-- **find_negative_cycle respects isomorphism, total**: neither run exhausts the fuel of the predecessor walk,
and one returns a sequence iff the other does. -/
theorem C07_find_negative_cycle_respects_iso_total (φ : Nat → Nat) (hφ : ∀ x y, φ x = φ y → x = y)
    (v1 v2 : View) (hv1 : C11MP.ViewArcs v1) (hv2 : C11MP.ViewArcs v2)
    (hwf1 : v1.g.WellFormed) (hwf2 : v2.g.WellFormed)
    (hg : SameArcs v2.g (relabel φ v1.g)) (s : Nat) (hs1 : s ∈ v1.g.nodes) (hs2 : φ s ∈ v2.g.nodes) :
    (findNegativeCycle v1 s = .none ∧ findNegativeCycle v2 (φ s) = .none) ∨
    ∃ seq1 seq2, findNegativeCycle v1 s = .some seq1 ∧ findNegativeCycle v2 (φ s) = .some seq2 := by
  have R := C07_find_negative_cycle_respects_iso φ hφ v1 v2 hv1 hv2 hwf1 hwf2 hg s hs1 hs2
  have F1 := C11T.C11_find_negative_cycle_fuel v1 hv1 hwf1 s
  have F2 := C11T.C11_find_negative_cycle_fuel v2 hv2 hwf2 (φ s)
  cases r1 : findNegativeCycle v1 s with
  | fuel => exact absurd r1 F1
  | none => exact Or.inl ⟨rfl, R.mp r1⟩
  | some seq1 =>
    cases r2 : findNegativeCycle v2 (φ s) with
    | fuel => exact absurd r2 F2
    | none => have := R.mpr r2; rw [r1] at this; cases this
    | some seq2 => exact Or.inr ⟨seq1, seq2, rfl, rfl⟩

/-- **spfa respects isomorphism, total**: if the first run answers `Ok` (within its cost type: `hfit1`), the second
run neither exhausts its fuel (`C11_spfa_fuel`) nor reports a negative cycle (`C11_spfa_err`, under that theorem's
hypotheses on the second view: `node_bound ≥ |V|`, walk costs of at most `|V|` arcs fit the cost type) — it answers
`Ok`, and, provided its result fits its cost type (`hfit2`, the hypothesis of `C11_spfa_ok`), the distance tables
correspond. -/
theorem C07_spfa_respects_iso_total (φ : Nat → Nat) (hφ : ∀ x y, φ x = φ y → x = y)
    (B1 B2 : Meas) (hB1 : 0 < B1.max) (hB2 : 0 < B2.max)
    (v1 v2 : View) (hv1 : C11MP.ViewArcs v1) (hv2 : C11MP.ViewArcs v2) (hwf2 : v2.g.WellFormed)
    (hg : SameArcs v2.g (relabel φ v1.g)) (s : Nat) (hs2 : φ s ∈ v2.g.nodes) (hnb2 : v2.g.nodes.length ≤ v2.nb)
    (hfitw2 : ∀ x c j, j ≤ v2.g.nodes.length → WalkN v2.g (φ s) x c j → B2.min ≤ c ∧ c < B2.max)
    (st1 : SP) (r1 : spfa B1 v1 s = some (some st1))
    (hfit1 : ∀ a b w, (a, b, w) ∈ v1.g.arcs → ∀ x, tget st1.d a = some x → B1.min ≤ x + w ∧ x + w < B1.max)
    (hfit2 : ∀ st2, spfa B2 v2 (φ s) = some (some st2) →
      ∀ a b w, (a, b, w) ∈ v2.g.arcs → ∀ x, tget st2.d a = some x → B2.min ≤ x + w ∧ x + w < B2.max) :
    ∃ st2, spfa B2 v2 (φ s) = some (some st2) ∧
      (∀ x, tget st2.d (φ x) = tget st1.d x) ∧ (∀ y c, tget st2.d y = some c → ∃ x, y = φ x) := by
  have hno1 := (C11T.C11_spfa_ok B1 hB1 v1 hv1 s st1 r1 hfit1).2.2.1
  have F2 := C11T.C11_spfa_fuel B2 v2 hv2 hwf2 (φ s) hs2
  cases r2 : spfa B2 v2 (φ s) with
  | none => exact absurd r2 F2
  | some o =>
    cases o with
    | none =>
      have hneg := C11T.C11_spfa_err B2 v2 hv2 hwf2 (φ s) hs2 hnb2 hfitw2 r2
      exact absurd ((negCycleReachable_relabel_iff hφ v1.g s).mp ((negCycleReachable_congr hg (φ s)).mp hneg)) hno1
    | some st2 =>
      exact ⟨st2, rfl, C07_spfa_respects_iso φ hφ B1 B2 hB1 hB2 v1 v2 hv1 hv2 hg s st1 st2 r1 r2 hfit1 (hfit2 st2 r2)⟩

/-- **spfa, encoding independence, total** -/
theorem C07_spfa_encoding_independent_total
    (B1 B2 : Meas) (hB1 : 0 < B1.max) (hB2 : 0 < B2.max)
    (v1 v2 : View) (hv1 : C11MP.ViewArcs v1) (hv2 : C11MP.ViewArcs v2) (hwf2 : v2.g.WellFormed)
    (hg : SameArcs v1.g v2.g) (s : Nat) (hs2 : s ∈ v2.g.nodes) (hnb2 : v2.g.nodes.length ≤ v2.nb)
    (hfitw2 : ∀ x c j, j ≤ v2.g.nodes.length → WalkN v2.g s x c j → B2.min ≤ c ∧ c < B2.max)
    (st1 : SP) (r1 : spfa B1 v1 s = some (some st1))
    (hfit1 : ∀ a b w, (a, b, w) ∈ v1.g.arcs → ∀ x, tget st1.d a = some x → B1.min ≤ x + w ∧ x + w < B1.max)
    (hfit2 : ∀ st2, spfa B2 v2 s = some (some st2) →
      ∀ a b w, (a, b, w) ∈ v2.g.arcs → ∀ x, tget st2.d a = some x → B2.min ≤ x + w ∧ x + w < B2.max) :
    ∃ st2, spfa B2 v2 s = some (some st2) ∧ ∀ x, tget st1.d x = tget st2.d x := by
  have hno1 := (C11T.C11_spfa_ok B1 hB1 v1 hv1 s st1 r1 hfit1).2.2.1
  have F2 := C11T.C11_spfa_fuel B2 v2 hv2 hwf2 s hs2
  cases r2 : spfa B2 v2 s with
  | none => exact absurd r2 F2
  | some o =>
    cases o with
    | none =>
      have hneg := C11T.C11_spfa_err B2 v2 hv2 hwf2 s hs2 hnb2 hfitw2 r2
      exact absurd ((negCycleReachable_congr hg s).mpr hneg) hno1
    | some st2 =>
      exact ⟨st2, rfl, (C07_spfa_encoding_independent B1 B2 hB1 hB2 v1 v2 hv1 hv2 hg s st1 st2 r1 r2 hfit1
        (hfit2 st2 r2)).1⟩

/-- **floyd_warshall respects isomorphism, total**: the model is a total function (`none` = `Err(NegativeCycle)`);
if the first run answers `Ok` so does the second and the matrices correspond. -/
theorem C07_floyd_warshall_respects_iso_total (φ : Nat → Nat) (hφ : ∀ x y, φ x = φ y → x = y)
    (B1 B2 : Meas) (v1 v2 : View) (hwf1 : v1.g.WellFormed) (hwf2 : v2.g.WellFormed)
    (hwide1 : FloydWide B1 v1) (hwide2 : FloydWide B2 v2) (hg : SameArcs v2.g (relabel φ v1.g))
    (st1 : FW) (r1 : floydWarshall B1 v1 = some st1) :
    ∃ st2, floydWarshall B2 v2 = some st2 ∧
      ∀ i, i ∈ v1.g.nodes → φ i ∈ v2.g.nodes → ∀ j, tget st2.d (φ i, φ j) = tget st1.d (i, j) := by
  have R := C07_floyd_warshall_respects_iso φ hφ B1 B2 v1 v2 hwf1 hwf2 hwide1 hwide2 hg
  cases r2 : floydWarshall B2 v2 with
  | none => have := R.1.mpr r2; rw [r1] at this; cases this
  | some st2 => exact ⟨st2, rfl, R.2 st1 st2 r1 r2⟩

/-- **floyd_warshall, encoding independence, total** -/
theorem C07_floyd_warshall_encoding_independent_total
    (B1 B2 : Meas) (v1 v2 : View) (hwf1 : v1.g.WellFormed) (hwf2 : v2.g.WellFormed)
    (hwide1 : FloydWide B1 v1) (hwide2 : FloydWide B2 v2) (hg : SameArcs v1.g v2.g)
    (st1 : FW) (r1 : floydWarshall B1 v1 = some st1) :
    ∃ st2, floydWarshall B2 v2 = some st2 ∧
      ∀ i, i ∈ v1.g.nodes → i ∈ v2.g.nodes → ∀ j, tget st1.d (i, j) = tget st2.d (i, j) := by
  have R := C07_floyd_warshall_encoding_independent B1 B2 v1 v2 hwf1 hwf2 hwide1 hwide2 hg
  cases r2 : floydWarshall B2 v2 with
  | none => have := R.1.mpr r2; rw [r1] at this; cases this
  | some st2 => exact ⟨st2, rfl, R.2 st1 st2 r1 r2⟩

end W3TotalC11

section W3TotalC12
open PetgraphModel.MST PetgraphModel.MstModel PetgraphModel.C07W2

/-- **min_spanning_tree respects isomorphism, total**: both runs emit (the Kruskal model has no failing branch on a
`KView`), with the same number of edges and the same total weight. -/
theorem C07_kruskal_respects_iso_total (φ : Nat → Nat) (hφ : ∀ x y, φ x = φ y → x = y)
    (v1 v2 : View) (hv1 : KView v1) (hv2 : KView v2) (hwf1 : v1.g.WellFormed) (hwf2 : v2.g.WellFormed)
    (er1 er2 : List (Nat × Nat × Nat)) (her1 : ErOk v1 er1) (her2 : ErOk v2 er2)
    (hE : SameUEdges v2.g.edges (relabel φ v1.g).edges) :
    ∃ ns1 es1 ns2 es2, kruskal v1 er1 = .ok ns1 es1 ∧ kruskal v2 er2 = .ok ns2 es2 ∧
      es1.length = es2.length ∧ (es1.map (·.w)).sum = (es2.map (·.w)).sum := by
  obtain ⟨A1, run1, -⟩ := kruskal_light v1 hv1 hwf1 er1 her1
  obtain ⟨A2, run2, -⟩ := kruskal_light v2 hv2 hwf2 er2 her2
  exact ⟨_, _, _, _, run1, run2,
    C07_kruskal_respects_iso φ hφ v1 v2 hv1 hv2 hwf1 hwf2 er1 er2 her1 her2 hE _ _ _ _ run1 run2⟩

/-- **min_spanning_tree_prim respects isomorphism, total** -/
theorem C07_prim_respects_iso_total (φ : Nat → Nat) (hφ : ∀ x y, φ x = φ y → x = y)
    (v1 v2 : View) (hv1 : PView v1) (hv2 : PView v2)
    (hE : SameUEdges v2.g.edges (relabel φ v1.g).edges)
    (s : Nat) (rest1 rest2 : List Nat) (hV1 : v1.g.nodes = s :: rest1) (hV2 : v2.g.nodes = φ s :: rest2) :
    ∃ ns1 es1 ns2 es2, prim v1 = .ok ns1 es1 ∧ prim v2 = .ok ns2 es2 ∧
      es1.length = es2.length ∧ (es1.map (·.w)).sum = (es2.map (·.w)).sum := by
  obtain ⟨A1, run1, -⟩ := prim_light v1 hv1 s rest1 hV1
  obtain ⟨A2, run2, -⟩ := prim_light v2 hv2 (φ s) rest2 hV2
  exact ⟨_, _, _, _, run1, run2,
    C07_prim_respects_iso φ hφ v1 v2 hv1 hv2 hE s rest1 rest2 hV1 hV2 _ _ _ _ run1 run2⟩

end W3TotalC12

/-! ## algorithms without a C07 theorem so far: greedy_matching, maximum_matching, all_simple_paths,
dag_transitive_reduction_closure, condensation, TarjanScc reuse -/

section W3Matching
open PetgraphModel.C15 PetgraphModel.C15M PetgraphModel.C15P PetgraphModel.C07W2 PetgraphModel.C07W3

/-- `Joined` (a non-loop edge, direction ignored), matchings and the size of a maximum matching are carried along
by an injective relabeling, in both directions -/
theorem C07_matching_notions_relabel (φ : Nat → Nat) (hφ : ∀ x y, φ x = φ y → x = y) (g : MGraph) :
    (∀ a b, Joined (relabel φ g) (φ a) (φ b) ↔ Joined g a b) ∧
    (∀ M, IsMatching g M → IsMatching (relabel φ g) (mapPairs φ M)) ∧
    (∀ M', IsMatching (relabel φ g) M' → ∃ M, IsMatching g M ∧ mapPairs φ M = M') ∧
    maxMatchingSize (relabel φ g) = maxMatchingSize g :=
  ⟨fun _ _ => joined_relabel_iff hφ g, fun _ h => isMatching_relabel hφ g h, isMatching_relabel_inv φ g,
    maxMatchingSize_relabel hφ g⟩

/-- … and depend only on which pairs of nodes are joined (edge ids, weights, multiplicity, stored orientation,
insertion order are free) -/
theorem C07_matching_notions_presentation (g1 g2 : MGraph) (h : SameJoined g1 g2) :
    (∀ M, IsMatching g1 M ↔ IsMatching g2 M) ∧ maxMatchingSize g1 = maxMatchingSize g2 :=
  ⟨fun _ => isMatching_congr h, maxMatchingSize_congr h⟩

/-- **greedy_matching is valid on both encodings, and each answer is a valid answer for the other**: two views
(any storage type with `to_index` injective below `node_bound` — vacancies allowed —, any neighbour order) of a
graph and of its renaming by an injective `φ` (any presentation joining the same pairs): neither run accesses
`mate` out of bounds, each result is a matching of its own graph, the first result renamed is a matching of the
second graph, and both sizes are bounded by the same maximum.  (The greedy answer itself depends on the
iteration order: the two results need not have the same size.) -/
theorem C07_greedy_matching_respects_iso (φ : Nat → Nat) (hφ : ∀ x y, φ x = φ y → x = y)
    (v1 v2 : View) (hix1 : IxOk v1) (hix2 : IxOk v2) (hwf1 : v1.g.WellFormed) (hwf2 : v2.g.WellFormed)
    (hs1 : ViewSound v1) (hs2 : ViewSound v2) (hg : SameJoined v2.g (relabel φ v1.g)) :
    let M1 := pairsOf (mateTable v1 (greedyInner v1))
    let M2 := pairsOf (mateTable v2 (greedyInner v2))
    (greedyInner v1).fault = false ∧ (greedyInner v2).fault = false ∧
    IsMatching v1.g M1 ∧ IsMatching v2.g M2 ∧ IsMatching v2.g (mapPairs φ M1) ∧
    maxMatchingSize v2.g = maxMatchingSize v1.g ∧
    M1.length ≤ maxMatchingSize v1.g ∧ M2.length ≤ maxMatchingSize v1.g := by
  intro M1 M2
  have G1 := C15T.C15_greedy_valid v1 hix1 hwf1 hs1
  have G2 := C15T.C15_greedy_valid v2 hix2 hwf2 hs2
  have hsz : maxMatchingSize v2.g = maxMatchingSize v1.g :=
    (maxMatchingSize_congr hg).trans (maxMatchingSize_relabel hφ v1.g)
  refine ⟨G1.1, G2.1, G1.2.2.2, G2.2.2.2, (isMatching_congr hg).mpr (isMatching_relabel hφ v1.g G1.2.2.2), hsz,
    maxMatchingSize_upper _ _ G1.2.2.2, ?_⟩
  rw [← hsz]; exact maxMatchingSize_upper _ _ G2.2.2.2

/-- **greedy_matching, encoding independence** (two views of two presentations of the same graph) -/
theorem C07_greedy_matching_encoding_independent
    (v1 v2 : View) (hix1 : IxOk v1) (hix2 : IxOk v2) (hwf1 : v1.g.WellFormed) (hwf2 : v2.g.WellFormed)
    (hs1 : ViewSound v1) (hs2 : ViewSound v2) (hg : SameJoined v1.g v2.g) :
    let M1 := pairsOf (mateTable v1 (greedyInner v1))
    let M2 := pairsOf (mateTable v2 (greedyInner v2))
    (greedyInner v1).fault = false ∧ (greedyInner v2).fault = false ∧
    IsMatching v1.g M1 ∧ IsMatching v2.g M2 ∧ IsMatching v2.g M1 ∧ IsMatching v1.g M2 ∧
    maxMatchingSize v1.g = maxMatchingSize v2.g := by
  intro M1 M2
  have G1 := C15T.C15_greedy_valid v1 hix1 hwf1 hs1
  have G2 := C15T.C15_greedy_valid v2 hix2 hwf2 hs2
  exact ⟨G1.1, G2.1, G1.2.2.2, G2.2.2.2, (isMatching_congr hg).mp G1.2.2.2, (isMatching_congr hg).mpr G2.2.2.2,
    maxMatchingSize_congr hg⟩

/-- **maximum_matching is valid on both encodings** (hypotheses of `C15_maximum_valid` on each view; any two
`mode`s): no fault, each result is a matching of its own graph and — renamed — of the other, the two definitional
maxima coincide, so the per-run maximality judge `len = maxMatchingSize` asks the same of both runs: if the first
result is maximum, the second is maximum iff it has the same number of pairs.  (Maximality of the Gabow model
itself is the open statement `C15_maximum_maximum_statement`.) -/
theorem C07_maximum_matching_respects_iso (φ : Nat → Nat) (hφ : ∀ x y, φ x = φ y → x = y)
    (v1 v2 : View) (mode1 mode2 : Nat) (hix1 : IxOk v1) (hix2 : IxOk v2)
    (hwf1 : v1.g.WellFormed) (hwf2 : v2.g.WellFormed)
    (hex1 : C15T.ViewExact v1) (hex2 : C15T.ViewExact v2) (hvac1 : C15W2.VacOk v1) (hvac2 : C15W2.VacOk v2)
    (hg : SameJoined v2.g (relabel φ v1.g)) :
    let M1 := pairsOf (mateTable v1 (maximumMatching v1 mode1))
    let M2 := pairsOf (mateTable v2 (maximumMatching v2 mode2))
    (maximumMatching v1 mode1).fault = false ∧ (maximumMatching v2 mode2).fault = false ∧
    IsMatching v1.g M1 ∧ IsMatching v2.g M2 ∧ IsMatching v2.g (mapPairs φ M1) ∧
    maxMatchingSize v2.g = maxMatchingSize v1.g ∧
    (IsMaximumMatching v1.g M1 → (IsMaximumMatching v2.g M2 ↔ M2.length = M1.length)) := by
  intro M1 M2
  have V1 := C15T.C15_maximum_valid v1 mode1 hix1 hwf1 hex1 hvac1
  have V2 := C15T.C15_maximum_valid v2 mode2 hix2 hwf2 hex2 hvac2
  have m1 : IsMatching v1.g M1 := mateValid_isMatching _ _ V1.2.2
  have m2 : IsMatching v2.g M2 := mateValid_isMatching _ _ V2.2.2
  have hsz : maxMatchingSize v2.g = maxMatchingSize v1.g :=
    (maxMatchingSize_congr hg).trans (maxMatchingSize_relabel hφ v1.g)
  refine ⟨V1.1, V2.1, m1, m2, (isMatching_congr hg).mpr (isMatching_relabel hφ v1.g m1), hsz, fun hmax => ?_⟩
  rw [isMaximum_iff_size m2, hsz, ← (isMaximum_iff_size m1).mp hmax]

end W3Matching

section W3Paths
open PetgraphModel.C20 PetgraphModel.C07W2 PetgraphModel.C07W3

/-- "simple path from `a` to `b` with a number of intermediate nodes within the bounds" is carried along by an
injective relabeling, and depends only on the adjacency relation -/
theorem C07_simple_path_relabel (φ : Nat → Nat) (hφ : ∀ x y, φ x = φ y → x = y) (g : MGraph) (a b lo : Nat)
    (hi : Option Nat) (p : List Nat) :
    IsSimplePathIn (relabel φ g) (φ a) (φ b) lo hi (p.map φ) ↔ IsSimplePathIn g a b lo hi p :=
  isSimplePathIn_relabel_iff hφ g

/-- **all_simple_paths respects isomorphism**: run to exhaustion on a directed graph and on any presentation of
its renaming by an injective `φ` (another insertion order of the edges — hence another order of the successor
lists —, other edge ids), the iterator yields the same set of paths up to the renaming: `p` is yielded by the
first run iff `p.map φ` is by the second, and the second run yields nothing else.  On simple graphs each path is
yielded once by either run, so the two outputs have the same length. -/
theorem C07_all_simple_paths_respects_iso (φ : Nat → Nat) (hφ : ∀ x y, φ x = φ y → x = y) (g1 g2 : MGraph)
    (hd1 : g1.directed = true) (hd2 : g2.directed = true) (he1 : EndpointsOk g1) (he2 : EndpointsOk g2)
    (hg : SameAdj g2 (relabel φ g1)) (a b lo : Nat) (hi : Option Nat) (hab : a ≠ b)
    (ha1 : a ∈ g1.nodes) (ha2 : φ a ∈ g2.nodes) (f1 f2 : Nat) (out1 out2 : List (List Nat))
    (r1 : Paths.allSimplePaths g1.succ g1.nodes.length a b lo hi f1 = some out1)
    (r2 : Paths.allSimplePaths g2.succ g2.nodes.length (φ a) (φ b) lo hi f2 = some out2) :
    (∀ p, p.map φ ∈ out2 ↔ p ∈ out1) ∧ (∀ q ∈ out2, ∃ p ∈ out1, q = p.map φ) ∧
    (simpleB g1 = true → simpleB g2 = true → out1.length = out2.length) := by
  have E1 := C20T.C20_paths_model_exact g1 a b lo hi f1 out1 hd1 he1 hab ha1 r1
  have E2 := C20T.C20_paths_model_exact g2 (φ a) (φ b) lo hi f2 out2 hd2 he2 (fun h => hab (hφ _ _ h)) ha2 r2
  have key : ∀ p, p.map φ ∈ out2 ↔ p ∈ out1 := fun p => by
    rw [E1.1, E2.1, isSimplePathIn_congr hg]
    exact isSimplePathIn_relabel_iff hφ g1
  have img : ∀ q ∈ out2, ∃ p ∈ out1, q = p.map φ := by
    intro q hq
    obtain ⟨p, rfl⟩ := isSimplePathIn_relabel_image φ g1 ((isSimplePathIn_congr hg).mp ((E2.1 q).mp hq))
    exact ⟨p, (key p).mp hq, rfl⟩
  refine ⟨key, img, fun s1 s2 => ?_⟩
  have nd1 := E1.2 s1
  have nd2 := E2.2 s2
  have hinj : ∀ p q : List Nat, p.map φ = q.map φ → p = q :=
    fun p q h => List.map_injective_iff.mpr (fun x y h => hφ x y h) h
  have nd1' : (out1.map (List.map φ)).Nodup := by
    unfold List.Nodup
    rw [List.pairwise_map]
    exact nd1.imp fun hne e => hne (hinj _ _ e)
  have hperm : (out1.map (List.map φ)).Perm out2 := by
    refine (List.perm_ext_iff_of_nodup nd1' nd2).mpr fun q => ?_
    constructor
    · intro hq
      obtain ⟨p, hp, rfl⟩ := List.mem_map.mp hq
      exact (key p).mpr hp
    · intro hq
      obtain ⟨p, hp, rfl⟩ := img q hq
      exact List.mem_map.mpr ⟨p, hp, rfl⟩
  simpa using hperm.length_eq

/-- **all_simple_paths, encoding independence**: two presentations of the same adjacency relation (another
insertion order of the edges) yield the same set of paths. -/
theorem C07_all_simple_paths_encoding_independent (g1 g2 : MGraph)
    (hd1 : g1.directed = true) (hd2 : g2.directed = true) (he1 : EndpointsOk g1) (he2 : EndpointsOk g2)
    (hg : SameAdj g1 g2) (a b lo : Nat) (hi : Option Nat) (hab : a ≠ b)
    (ha1 : a ∈ g1.nodes) (ha2 : a ∈ g2.nodes) (f1 f2 : Nat) (out1 out2 : List (List Nat))
    (r1 : Paths.allSimplePaths g1.succ g1.nodes.length a b lo hi f1 = some out1)
    (r2 : Paths.allSimplePaths g2.succ g2.nodes.length a b lo hi f2 = some out2) :
    ∀ p, p ∈ out1 ↔ p ∈ out2 := by
  intro p
  rw [(C20T.C20_paths_model_exact g1 a b lo hi f1 out1 hd1 he1 hab ha1 r1).1,
    (C20T.C20_paths_model_exact g2 a b lo hi f2 out2 hd2 he2 hab ha2 r2).1, isSimplePathIn_congr hg]

end W3Paths

section W3Tred
open PetgraphModel.C20 PetgraphModel.C07W2 PetgraphModel.C07W3

theorem C07_covers_relabel (φ : Nat → Nat) (hφ : ∀ x y, φ x = φ y → x = y) (g : MGraph) (u v : Nat) :
    Covers (relabel φ g) (φ u) (φ v) ↔ Covers g u v :=
  covers_relabel_iff hφ g

/-- **dag_transitive_reduction_closure does not depend on which toposort renumbered the DAG**: `rows1`, `rows2`
two toposorted adjacency lists (the format `dag_to_toposorted_adjacency_list` produces, from any two toposorts of
any two encodings) presenting the same DAG up to an injective renumbering `σ` of the indices — then closure row
`σ i` of the second answer is exactly closure row `i` of the first renamed by `σ`, and the same for the reduction. -/
theorem C07_tred_respects_iso (σ : Nat → Nat) (hσ : ∀ x y, σ x = σ y → x = y) (rows1 rows2 : List (List Nat))
    (hts1 : ∀ i x, x ∈ rows1.getD i [] → i < x) (hasc1 : ∀ i, ascending (rows1.getD i []) = true)
    (hts2 : ∀ i x, x ∈ rows2.getD i [] → i < x) (hasc2 : ∀ i, ascending (rows2.getD i []) = true)
    (hg : SameAdj (Tred.rowsGraph rows2) (relabel σ (Tred.rowsGraph rows1)))
    (i : Nat) (hi1 : i < rows1.length) (hi2 : σ i < rows2.length) :
    (∀ y, σ y ∈ (Tred.reductionClosure rows2).2.getD (σ i) [] ↔ y ∈ (Tred.reductionClosure rows1).2.getD i []) ∧
    (∀ y' ∈ (Tred.reductionClosure rows2).2.getD (σ i) [], ∃ y, y' = σ y) ∧
    (∀ x, σ x ∈ (Tred.reductionClosure rows2).1.getD (σ i) [] ↔ x ∈ (Tred.reductionClosure rows1).1.getD i []) := by
  have T1 := C20T.C20_tred_model_correct rows1 hts1 hasc1 i hi1
  have T2 := C20T.C20_tred_model_correct rows2 hts2 hasc2 (σ i) hi2
  refine ⟨fun y => ?_, fun y' hy' => ?_, fun x => ?_⟩
  · rw [T1.1, T2.1, reach1_congr hg]
    exact reach1_relabel_iff _ hσ
  · obtain ⟨y, hy, _⟩ := reach1_relabel_inv _ hσ ((reach1_congr hg).mp ((T2.1 y').mp hy'))
    exact ⟨y, hy⟩
  · rw [T1.2, T2.2, covers_congr hg]
    exact covers_relabel_iff hσ _

end W3Tred

section W3Cond
open PetgraphModel.C09J PetgraphModel.C09M PetgraphModel.C07W2 PetgraphModel.C07W3

/-- the partition into classes of mutual reachability, renamed, is that of the renamed graph, and any two such
partitions of a graph have the same number of classes -/
theorem C07_partition_relabel (φ : Nat → Nat) (hφ : ∀ x y, φ x = φ y → x = y) (g : MGraph)
    (comps comps' : List (List Nat)) (h : PartSpec g comps) (h' : PartSpec (relabel φ g) comps') :
    PartSpec (relabel φ g) (comps.map (List.map φ)) ∧ comps.length = comps'.length := by
  have hr := partSpec_relabel hφ h
  exact ⟨hr, by simpa using partSpec_length_unique hr h'⟩

/-- the partition clause of both `CondSpec` and `CondAcyclicSpec` -/
theorem condensation_part (v : View) (hv : C09P.ViewOk v) (hp : ∀ a b, b ∈ v.pred a ↔ v.g.Adj b a)
    (hwf : v.g.WellFormed) (eo : List Nat) (heo : (eo.filterMap v.edge?).Perm v.g.edges) (acyc : Bool) (c : Cond)
    (h : condensation v eo acyc = some c) : PartSpec v.g c.nodes := by
  cases acyc with
  | false => exact (C09T.C09_condensation v hv hp hwf eo heo c h).part
  | true => exact (C09T.C09_condensation_acyclic v eo hv hp hwf heo c h).part

/-- **condensation respects isomorphism** (either value of `make_acyclic`, possibly different on the two sides):
the condensed graphs of a graph and of any presentation of its renaming have the same number of nodes, the node
weights (member lists) are the same partition up to `φ` — two nodes share a condensed node of the first answer iff
their images share one of the second — and the first answer's node weights, renamed, are a correct partition for
the second graph. -/
theorem C07_condensation_respects_iso (φ : Nat → Nat) (hφ : ∀ x y, φ x = φ y → x = y)
    (v1 v2 : View) (hv1 : C09P.ViewOk v1) (hv2 : C09P.ViewOk v2)
    (hp1 : ∀ a b, b ∈ v1.pred a ↔ v1.g.Adj b a) (hp2 : ∀ a b, b ∈ v2.pred a ↔ v2.g.Adj b a)
    (hwf1 : v1.g.WellFormed) (hwf2 : v2.g.WellFormed)
    (eo1 eo2 : List Nat) (heo1 : (eo1.filterMap v1.edge?).Perm v1.g.edges)
    (heo2 : (eo2.filterMap v2.edge?).Perm v2.g.edges)
    (hn : SameNodes v2.g (relabel φ v1.g)) (hg : SameAdj v2.g (relabel φ v1.g))
    (acyc1 acyc2 : Bool) (c1 c2 : Cond)
    (h1 : condensation v1 eo1 acyc1 = some c1) (h2 : condensation v2 eo2 acyc2 = some c2) :
    c1.nodes.length = c2.nodes.length ∧
    PartSpec v2.g (c1.nodes.map (List.map φ)) ∧
    ∀ x y, (∃ n ∈ c1.nodes, x ∈ n ∧ y ∈ n) ↔ (∃ n ∈ c2.nodes, φ x ∈ n ∧ φ y ∈ n) := by
  have P1 := condensation_part v1 hv1 hp1 hwf1 eo1 heo1 acyc1 c1 h1
  have P2 := condensation_part v2 hv2 hp2 hwf2 eo2 heo2 acyc2 c2 h2
  have P1' : PartSpec v2.g (c1.nodes.map (List.map φ)) := partSpec_congr hn.symm hg.symm (partSpec_relabel hφ P1)
  refine ⟨by simpa using partSpec_length_unique P1' P2, P1', fun x y => ?_⟩
  rw [C09P.part_same_iff P1, C09P.part_same_iff P2]
  have e1 : φ x ∈ v2.g.nodes ↔ x ∈ v1.g.nodes := (hn (φ x)).trans (mem_relabel_nodes v1.g hφ)
  have e2 : SC v2.g (φ x) (φ y) ↔ SC v1.g x y := (sc_congr hg).trans (sc_relabel_iff hφ v1.g)
  rw [e1, e2]

/-- … and with `make_acyclic = false` the condensed graph has one edge per original edge, so equally many on both
sides when the two edge lists are equally long (e.g. the same multiset of arcs up to `φ`) -/
theorem C07_condensation_edge_count (v1 v2 : View) (hv1 : C09P.ViewOk v1) (hv2 : C09P.ViewOk v2)
    (hp1 : ∀ a b, b ∈ v1.pred a ↔ v1.g.Adj b a) (hp2 : ∀ a b, b ∈ v2.pred a ↔ v2.g.Adj b a)
    (hwf1 : v1.g.WellFormed) (hwf2 : v2.g.WellFormed)
    (eo1 eo2 : List Nat) (heo1 : (eo1.filterMap v1.edge?).Perm v1.g.edges)
    (heo2 : (eo2.filterMap v2.edge?).Perm v2.g.edges) (hlen : v1.g.edges.length = v2.g.edges.length)
    (c1 c2 : Cond) (h1 : condensation v1 eo1 false = some c1) (h2 : condensation v2 eo2 false = some c2) :
    c1.edges.length = c2.edges.length := by
  have l1 := (C09T.C09_condensation v1 hv1 hp1 hwf1 eo1 heo1 c1 h1).edges.length_eq
  have l2 := (C09T.C09_condensation v2 hv2 hp2 hwf2 eo2 heo2 c2 h2).edges.length_eq
  simp only [List.length_map] at l1 l2
  omega

/-- **TarjanScc reuse respects isomorphism**: `run` on ANY two clean `TarjanScc` values (stack empty,
`index + |V| ≤ componentcount ≤ usize::MAX` — fresh, or left behind by any number of earlier runs on any graphs)
over two views of a graph and of its renaming: the first answer renamed is a correct answer for the second graph,
the two answers are the same partition, `node_component_index` separates the same pairs of nodes, and both values
are clean again (so the statement applies to the next reuse). -/
theorem C07_tarjan_reuse_respects_iso (φ : Nat → Nat) (hφ : ∀ x y, φ x = φ y → x = y)
    (v1 v2 : View) (hv1 : C09P.ViewOk v1) (hv2 : C09P.ViewOk v2) (hix1 : C09T.IxOk v1) (hix2 : C09T.IxOk v2)
    (hwf1 : v1.g.WellFormed) (hwf2 : v2.g.WellFormed)
    (hn : SameNodes v2.g (relabel φ v1.g)) (hg : SameAdj v2.g (relabel φ v1.g))
    (t1 t2 t1' t2' : TJ) (hst1 : t1.stack = []) (hst2 : t2.stack = [])
    (hB1 : t1.index + v1.g.nodes.length ≤ t1.cc) (hB2 : t2.index + v2.g.nodes.length ≤ t2.cc)
    (hcc1 : t1.cc ≤ usizeMax) (hcc2 : t2.cc ≤ usizeMax)
    (h1 : tjRun v1 t1 = some t1') (h2 : tjRun v2 t2 = some t2') :
    SccSpec v2.g (t1'.out.map (List.map φ)) ∧
    (∀ x y, (∃ c ∈ t1'.out, x ∈ c ∧ y ∈ c) ↔ (∃ c ∈ t2'.out, φ x ∈ c ∧ φ y ∈ c)) ∧
    (∀ x ∈ v1.g.nodes, ∀ y ∈ v1.g.nodes,
      (tjIndex v1 t1' x = tjIndex v1 t1' y ↔ tjIndex v2 t2' (φ x) = tjIndex v2 t2' (φ y))) ∧
    t1'.out.length = t2'.out.length ∧
    (t1'.stack = [] ∧ t1'.index = t1.index ∧ t1'.cc + t1'.out.length = t1.cc) ∧
    (t2'.stack = [] ∧ t2'.index = t2.index ∧ t2'.cc + t2'.out.length = t2.cc) := by
  obtain ⟨S1, I1, st1, ix1, cc1, _⟩ := C09T.C09_tarjan_run v1 hv1 hix1 hwf1 t1 t1' hst1 hB1 hcc1 h1
  obtain ⟨S2, I2, st2, ix2, cc2, _⟩ := C09T.C09_tarjan_run v2 hv2 hix2 hwf2 t2 t2' hst2 hB2 hcc2 h2
  have S1' : SccSpec v2.g (t1'.out.map (List.map φ)) := sccSpec_congr hn.symm hg.symm (sccSpec_relabel hφ S1)
  have same : ∀ x y, (∃ c ∈ t1'.out, x ∈ c ∧ y ∈ c) ↔ (∃ c ∈ t2'.out, φ x ∈ c ∧ φ y ∈ c) := by
    intro x y
    rw [C09P.part_same_iff (C09P.SccSpec.toPart S1), C09P.part_same_iff (C09P.SccSpec.toPart S2)]
    have e1 : φ x ∈ v2.g.nodes ↔ x ∈ v1.g.nodes := (hn (φ x)).trans (mem_relabel_nodes v1.g hφ)
    have e2 : SC v2.g (φ x) (φ y) ↔ SC v1.g x y := (sc_congr hg).trans (sc_relabel_iff hφ v1.g)
    rw [e1, e2]
  refine ⟨S1', same, ?_, ?_, ⟨st1, ix1, cc1⟩, ⟨st2, ix2, cc2⟩⟩
  · intro x hx y hy
    have hx2 : φ x ∈ v2.g.nodes := (hn (φ x)).mpr ((mem_relabel_nodes v1.g hφ).mpr hx)
    have hy2 : φ y ∈ v2.g.nodes := (hn (φ y)).mpr ((mem_relabel_nodes v1.g hφ).mpr hy)
    have a1 := I1.2 x _ y _ (List.mem_map.mpr ⟨x, hx, rfl⟩) (List.mem_map.mpr ⟨y, hy, rfl⟩)
    have a2 := I2.2 (φ x) _ (φ y) _ (List.mem_map.mpr ⟨φ x, hx2, rfl⟩) (List.mem_map.mpr ⟨φ y, hy2, rfl⟩)
    rw [a1, a2]; exact same x y
  · simpa using partSpec_length_unique (C09P.SccSpec.toPart S1') (C09P.SccSpec.toPart S2)

/-- in particular **a reused `TarjanScc` value answers like a fresh one**: the value left by a run on any view
`v0` of any graph, run again on a view of `g`, gives the same partition as a fresh value on another view of
(another presentation of) `g`. -/
theorem C07_tarjan_reuse_same_as_fresh
    (v0 v1 v2 : View) (hv0 : C09P.ViewOk v0) (hv1 : C09P.ViewOk v1) (hv2 : C09P.ViewOk v2)
    (hix0 : C09T.IxOk v0) (hix1 : C09T.IxOk v1) (hix2 : C09T.IxOk v2)
    (hwf0 : v0.g.WellFormed) (hwf1 : v1.g.WellFormed) (hwf2 : v2.g.WellFormed)
    (hs0 : 2 * v0.g.nodes.length + v1.g.nodes.length + 1 ≤ usizeMax) (hs2 : 2 * v2.g.nodes.length + 1 ≤ usizeMax)
    (hn : SameNodes v1.g v2.g) (hg : SameAdj v1.g v2.g)
    (t0 t1 t2 : TJ) (h0 : tjRun v0 {} = some t0) (h1 : tjRun v1 t0 = some t1) (h2 : tjRun v2 {} = some t2) :
    ∀ x y, (∃ c ∈ t1.out, x ∈ c ∧ y ∈ c) ↔ (∃ c ∈ t2.out, x ∈ c ∧ y ∈ c) := by
  obtain ⟨_, _, st0, ix0, cc0, len0⟩ := C09T.C09_tarjan_run v0 hv0 hix0 hwf0 {} t0 rfl
    (by show 1 + v0.g.nodes.length ≤ usizeMax; omega) (Nat.le_refl _) h0
  have hix : t0.index = 1 := ix0
  have hcc : t0.cc + t0.out.length = usizeMax := cc0
  have S1 := (C09T.C09_tarjan_run v1 hv1 hix1 hwf1 t0 t1 st0 (by omega) (by omega) h1).1
  have S2 := (C09T.C09_tarjan_run v2 hv2 hix2 hwf2 {} t2 rfl
    (by show 1 + v2.g.nodes.length ≤ usizeMax; omega) (Nat.le_refl _) h2).1
  intro x y
  rw [C09P.part_same_iff (C09P.SccSpec.toPart S1), C09P.part_same_iff (C09P.SccSpec.toPart S2), hn x, sc_congr hg]

end W3Cond

/-! ## the hypotheses of the wave-3 theorems are satisfiable -/
section W3Examples
open PetgraphModel.Visit PetgraphModel.C07W3 PetgraphModel.C07W2

/-- a view with a vacant index (a `MatrixGraph<Directed>` after `add_node ×3, add_edge 2 0, remove_node 1`):
live ids `0, 2`, `node_count = 2`, `node_bound = 3` -/
def exVacant : Table :=
  { directed := true, ids := some [0, 2], refs := some [(0, 11), (2, 12)], nodeCount := some 2,
    nodeBound := 3, toIx := [(0, 0), (2, 2)], fromIx := [(0, 0), (2, 2)], compact := false,
    erefs := some [⟨200, 2, 0, 7⟩], edgeCount := some 1, edgeBound := none, eix := none,
    nbrs := some [(0, []), (2, [0])], nbrsOut := some [(0, []), (2, [0])], nbrsIn := some [(0, [2]), (2, [])],
    edges := some [(0, []), (2, [⟨200, 2, 0, 7⟩])], edgesOut := some [(0, []), (2, [⟨200, 2, 0, 7⟩])],
    edgesIn := some [(0, [⟨200, 2, 0, 7⟩]), (2, [])],
    adj := some [(0, []), (2, [0])] }

/-- the bridging lemma applies to it: a container of `node_bound` elements is hit in bounds at `to_index 2 = 2` … -/
example : ∃ i, exVacant.toIx.lookup 2 = some i ∧ i < exVacant.nodeBound :=
  C07_to_index_lt_bound [0, 2] exVacant (C06T.C06_checkTable_sound _ _ (by decide)) [0, 2] rfl 2 (by decide)

/-- … while a container of `node_count` elements would not be (what `C07_scratch_safe` excludes for the functions
that accept such graphs) -/
example : exVacant.toIx.lookup 2 = some 2 ∧ scratchLen exVacant .nodeCount = some 2 ∧
    ([0, 0] : List Nat)[2]? = none := by decide

/-- a storage table of C06 in the sense of `StorageTable`: `Graph` after a history with a removal -/
example : StorageTable (graphTable (G.run (G.empty 4294967295 true)
    [.addNode 7, .addNode 8, .addNode 9, .addEdge 0 1 5, .addEdge 1 2 6, .removeNode 0]).1) :=
  .graph _ (C01T.C01_inv_all_histories _ _ _)

/-- `C15T.exampleView` with another index assignment, another bound and the rows in another order -/
def exMatchView2 : View :=
  { g := C15T.exampleView.g,
    nb := 6, ix := [(0, 5), (1, 0), (2, 3), (3, 1)],
    out := [(3, [(2, 3)]), (2, [(3, 3), (0, 2), (1, 1)]), (1, [(2, 1), (0, 0)]), (0, [(2, 2), (1, 0)])],
    inn := [(3, [(2, 3)]), (2, [(3, 3), (0, 2), (1, 1)]), (1, [(2, 1), (0, 0)]), (0, [(2, 2), (1, 0)])] }

/-- the hypotheses of `C07_greedy_matching_encoding_independent` hold for the pair -/
example : C15M.ixOkB exMatchView2 = true ∧ C15M.viewSoundB exMatchView2 = true ∧ C15M.wfB exMatchView2.g = true ∧
    C15M.ixOkB C15T.exampleView = true ∧ C15M.viewSoundB C15T.exampleView = true := by decide

example :
    C15.IsMatching C15T.exampleView.g (C15.pairsOf (C15P.mateTable exMatchView2 (C15M.greedyInner exMatchView2))) :=
  (C07_greedy_matching_encoding_independent C15T.exampleView exMatchView2
    (C15P.ixOkB_sound _ (by decide)) (C15P.ixOkB_sound _ (by decide)) (C15P.wfB_sound _ (by decide))
    (C15P.wfB_sound _ (by decide)) (C15P.viewSoundB_sound _ (by decide)) (C15P.viewSoundB_sound _ (by decide))
    (SameJoined.refl _)).2.2.2.2.2.1

/-- two toposorts (`a, b, c, d` and `a, c, b, d`) of the DAG `a → b, a → c, c → d` give two toposorted adjacency
lists related by the renumbering that swaps 1 and 2 -/
def exSwap : Nat → Nat := fun x => if x = 1 then 2 else if x = 2 then 1 else x

theorem exSwap_inj : ∀ x y, exSwap x = exSwap y → x = y := by
  intro x y h; unfold exSwap at h; split at h <;> split at h <;> (try split at h) <;> (try split at h) <;> omega

theorem exSwap_sameAdj :
    SameAdj (C20.Tred.rowsGraph [[1, 2], [3], [], []]) (relabel exSwap (C20.Tred.rowsGraph [[1, 2], [], [3], []])) := by
  intro a b
  rw [C20.Tred.rowsGraph_adj]
  constructor
  · intro h
    have key : ∀ a' b', a = exSwap a' → b = exSwap b' → b' ∈ ([[1, 2], [], [3], []] : List (List Nat)).getD a' [] →
        (relabel exSwap (C20.Tred.rowsGraph [[1, 2], [], [3], []])).Adj a b := fun a' b' ha hb hm =>
      (adj_relabel_iff exSwap _).mpr ⟨a', b', ha, hb, (C20.Tred.rowsGraph_adj _ _ _).mpr hm⟩
    rcases a with _ | _ | _ | _ | a
    · simp at h
      rcases h with rfl | rfl
      · exact key 0 2 rfl rfl (by simp)
      · exact key 0 1 rfl rfl (by simp)
    · simp at h; subst h; exact key 2 3 rfl rfl (by simp)
    · simp at h
    · simp at h
    · simp at h
  · intro h
    obtain ⟨a', b', rfl, rfl, h'⟩ := (adj_relabel_iff exSwap _).mp h
    rw [C20.Tred.rowsGraph_adj] at h'
    rcases a' with _ | _ | _ | _ | a'
    · simp at h'
      rcases h' with rfl | rfl <;> simp [exSwap]
    · simp at h'
    · simp at h'; subst h'; simp [exSwap]
    · simp at h'
    · simp at h'

theorem exRows_ok (rows : List (List Nat)) (h : rows = [[1, 2], [], [3], []] ∨ rows = [[1, 2], [3], [], []]) :
    (∀ i x, x ∈ rows.getD i [] → i < x) ∧ ∀ i, C20.ascending (rows.getD i []) = true := by
  rcases h with rfl | rfl
  · refine ⟨fun i x h => ?_, fun i => ?_⟩
    · rcases i with _ | _ | _ | _ | i <;> simp at h <;> omega
    · rcases i with _ | _ | _ | _ | i <;> simp [C20.ascending]
  · refine ⟨fun i x h => ?_, fun i => ?_⟩
    · rcases i with _ | _ | _ | _ | i <;> simp at h <;> omega
    · rcases i with _ | _ | _ | _ | i <;> simp [C20.ascending]

/-- `C07_tred_respects_iso` applies to the pair: closure and reduction rows of `a` correspond -/
example : (∀ y, exSwap y ∈ (C20.Tred.reductionClosure [[1, 2], [3], [], []]).2.getD 0 [] ↔
      y ∈ (C20.Tred.reductionClosure [[1, 2], [], [3], []]).2.getD 0 []) :=
  (C07_tred_respects_iso exSwap exSwap_inj _ _ (exRows_ok _ (Or.inl rfl)).1 (exRows_ok _ (Or.inl rfl)).2
    (exRows_ok _ (Or.inr rfl)).1 (exRows_ok _ (Or.inr rfl)).2 exSwap_sameAdj 0 (by decide) (by decide)).1

example : (C20.Tred.reductionClosure [[1, 2], [], [3], []]).2 = [[1, 2, 3], [], [3], []] ∧
    (C20.Tred.reductionClosure [[1, 2], [3], [], []]).2 = [[1, 3, 2], [3], [], []] := by decide

end W3Examples


/-! # Wave 5

* **run-time checks of the hypotheses** (G-A): `Driver/C07.lean` evaluates, for every cross-encoding comparison it
  makes, the Boolean of `Driver/C07Checks.lean` that belongs to the algorithm on the two `view` lines the harness
  printed for the two encodings; section "run-time checks" proves `…B = true →` both MODEL runs answer and agree in what
  the property determines (`C07_<A>_checked`).  With the driver's `ok` ("the two implementations agree") every
  compared pair is provably inside the scope of the theorems.
* **goal 2**: theorems for the answers that had none — `maximal_cliques`, `dsatur_coloring`, `page_rank` across node
  orders, the predecessor tables of `bellman_ford` and `floyd_warshall_path`, the `astar` path, `k_shortest_path` with a
  goal, `depth_first_search` event streams, `steiner_tree`.
* **goal 3**: `_total` variants for the walkers, the SCC family and VF2 (fuel-sufficiency theorems of C08/C09/C13).
* **goal 4**: index width (`C07_index_width_*`). -/
section W5
open PetgraphModel.C07W2 PetgraphModel.C07W5

/-! ## two abstract graphs in several real encodings (transcribed from `pgharness C07 --seed 1`, cases 40 and 69):
undirected `1–2 (4), 2–3 (0), 1–3 (2)` + isolated `0`; directed `3→0 (0), 0→1 (4), 1→2 (2), 2→3 (2), 3→1 (4)` -/

/-- `view enc=graph0` -/
def exU1 : C07.EV :=
  { v := { g := { directed := false, nodes := [2, 3, 0, 1],
                  edges := [⟨0, 1, 2, 4⟩, ⟨1, 2, 3, 0⟩, ⟨2, 1, 3, 2⟩] },
           nb := 4, ix := [(2, 0), (3, 1), (0, 2), (1, 3)],
           out := [(2, [(3, 1), (1, 0)]), (3, [(1, 2), (2, 1)]), (0, []), (1, [(3, 2), (2, 0)])],
           inn := [(2, [(3, 1), (1, 0)]), (3, [(1, 2), (2, 1)]), (0, []), (1, [(3, 2), (2, 0)])] },
    er := [(2, 3, 1), (1, 2, 0), (1, 3, 2)] }

/-- `view enc=stable0+holes` -/
def exU2 : C07.EV :=
  { v := { g := { directed := false, nodes := [2, 3, 0, 1],
                  edges := [⟨0, 1, 2, 4⟩, ⟨1, 2, 3, 0⟩, ⟨2, 1, 3, 2⟩] },
           nb := 8, ix := [(2, 3), (3, 5), (0, 6), (1, 7)],
           out := [(2, [(3, 1), (1, 0)]), (3, [(1, 2), (2, 1)]), (0, []), (1, [(3, 2), (2, 0)])],
           inn := [(2, [(3, 1), (1, 0)]), (3, [(1, 2), (2, 1)]), (0, []), (1, [(3, 2), (2, 0)])] },
    er := [(2, 3, 1), (1, 2, 0), (1, 3, 2)] }

/-- `view enc=matrix+holes` -/
def exU3 : C07.EV :=
  { v := { g := { directed := false, nodes := [3, 1, 0, 2],
                  edges := [⟨0, 1, 2, 4⟩, ⟨1, 2, 3, 0⟩, ⟨2, 1, 3, 2⟩] },
           nb := 6, ix := [(3, 0), (1, 2), (0, 3), (2, 5)],
           out := [(3, [(1, 2), (2, 1)]), (1, [(3, 2), (2, 0)]), (0, []), (2, [(3, 1), (1, 0)])],
           inn := [(3, [(2, 1), (1, 2)]), (1, [(2, 0), (3, 2)]), (0, []), (2, [(1, 0), (3, 1)])] },
    er := [(1, 3, 2), (2, 3, 1), (2, 1, 0)] }

/-- `view enc=graph0` -/
def exD1 : C07.EV :=
  { v := { g := { directed := true, nodes := [3, 2, 1, 0],
                  edges := [⟨0, 3, 0, 0⟩, ⟨1, 0, 1, 4⟩, ⟨2, 1, 2, 2⟩, ⟨3, 2, 3, 2⟩, ⟨4, 3, 1, 4⟩] },
           nb := 4, ix := [(3, 0), (2, 1), (1, 2), (0, 3)],
           out := [(3, [(0, 0), (1, 4)]), (2, [(3, 3)]), (1, [(2, 2)]), (0, [(1, 1)])],
           inn := [(3, [(2, 3)]), (2, [(1, 2)]), (1, [(3, 4), (0, 1)]), (0, [(3, 0)])] },
    er := [(0, 1, 1), (1, 2, 2), (3, 1, 4), (3, 0, 0), (2, 3, 3)] }

/-- `view enc=stable1+holes` -/
def exD2 : C07.EV :=
  { v := { g := { directed := true, nodes := [3, 1, 0, 2],
                  edges := [⟨0, 3, 0, 0⟩, ⟨1, 0, 1, 4⟩, ⟨2, 1, 2, 2⟩, ⟨3, 2, 3, 2⟩, ⟨4, 3, 1, 4⟩] },
           nb := 8, ix := [(3, 1), (1, 3), (0, 5), (2, 7)],
           out := [(3, [(0, 0), (1, 4)]), (1, [(2, 2)]), (0, [(1, 1)]), (2, [(3, 3)])],
           inn := [(3, [(2, 3)]), (1, [(3, 4), (0, 1)]), (0, [(3, 0)]), (2, [(1, 2)])] },
    er := [(1, 2, 2), (2, 3, 3), (0, 1, 1), (3, 1, 4), (3, 0, 0)] }

/-- `view enc=csr` -/
def exD3 : C07.EV :=
  { v := { g := { directed := true, nodes := [1, 3, 2, 0],
                  edges := [⟨0, 3, 0, 0⟩, ⟨1, 0, 1, 4⟩, ⟨2, 1, 2, 2⟩, ⟨3, 2, 3, 2⟩, ⟨4, 3, 1, 4⟩] },
           nb := 4, ix := [(1, 0), (3, 1), (2, 2), (0, 3)],
           out := [(1, [(2, 2)]), (3, [(1, 4), (0, 0)]), (2, [(3, 3)]), (0, [(1, 1)])],
           inn := [(1, [(0, 1), (3, 4)]), (3, [(2, 3)]), (2, [(1, 2)]), (0, [(3, 0)])] },
    er := [(1, 2, 2), (3, 1, 4), (3, 0, 0), (2, 3, 3), (0, 1, 1)] }

/-- `view enc=fas-stable+holes` -/
def exD4 : C07.EV :=
  { v := { g := { directed := true, nodes := [3, 0, 2, 1],
                  edges := [⟨0, 3, 0, 0⟩, ⟨1, 0, 1, 4⟩, ⟨2, 1, 2, 2⟩, ⟨3, 2, 3, 2⟩, ⟨4, 3, 1, 4⟩] },
           nb := 8, ix := [(3, 0), (0, 1), (2, 3), (1, 7)],
           out := [(3, [(0, 0), (1, 4)]), (0, [(1, 1)]), (2, [(3, 3)]), (1, [(2, 2)])],
           inn := [(3, [(2, 3)]), (0, [(3, 0)]), (2, [(1, 2)]), (1, [(3, 4), (0, 1)])] },
    er := [(0, 1, 1), (3, 1, 4), (3, 0, 0), (2, 3, 3), (1, 2, 2)] }


set_option maxRecDepth 4000

/-! ## wave 5, goal 3 — `_total` variants for the SCC family and VF2

The C09 models run the C08 walkers with the fuel `C09M.fuel v`; `C09_*_total` (wave 3/4) show that it suffices
under the neighbour-list length bounds `SuccBound` / `PredBound` (decided by `C09.viewOkB`).  So the "both runs
answer" hypotheses of the wave-2 theorems go away. -/
section W5TotalC09
open PetgraphModel.C09J PetgraphModel.C09M

theorem C07_has_path_respects_iso_total (φ : Nat → Nat) (hφ : ∀ x y, φ x = φ y → x = y)
    (v1 v2 : View) (hv1 : C09P.ViewOk v1) (hv2 : C09P.ViewOk v2) (hwf1 : v1.g.WellFormed) (hwf2 : v2.g.WellFormed)
    (hb1 : C09T.SuccBound v1) (hb2 : C09T.SuccBound v2) (hg : SameAdj v2.g (relabel φ v1.g))
    (a b : Nat) (ha1 : a ∈ v1.g.nodes) (ha2 : φ a ∈ v2.g.nodes) :
    ∃ r, hasPath v1 a b = some r ∧ hasPath v2 (φ a) (φ b) = some r := by
  obtain ⟨r1, e1, _⟩ := C09T.C09_has_path_total v1 hv1 hwf1 hb1 a b ha1
  obtain ⟨r2, e2, _⟩ := C09T.C09_has_path_total v2 hv2 hwf2 hb2 (φ a) (φ b) ha2
  have := C07_has_path_respects_iso φ hφ v1 v2 hv1 hv2 hg a b r1 r2 e1 e2
  subst this
  exact ⟨r1, e1, e2⟩

theorem C07_has_path_encoding_independent_total
    (v1 v2 : View) (hv1 : C09P.ViewOk v1) (hv2 : C09P.ViewOk v2) (hwf1 : v1.g.WellFormed) (hwf2 : v2.g.WellFormed)
    (hb1 : C09T.SuccBound v1) (hb2 : C09T.SuccBound v2) (hg : SameAdj v1.g v2.g)
    (a b : Nat) (ha1 : a ∈ v1.g.nodes) (ha2 : a ∈ v2.g.nodes) :
    ∃ r, hasPath v1 a b = some r ∧ hasPath v2 a b = some r := by
  obtain ⟨r1, e1, _⟩ := C09T.C09_has_path_total v1 hv1 hwf1 hb1 a b ha1
  obtain ⟨r2, e2, _⟩ := C09T.C09_has_path_total v2 hv2 hwf2 hb2 a b ha2
  have := C07_has_path_encoding_independent v1 v2 hv1 hv2 hg a b r1 r2 e1 e2
  subst this
  exact ⟨r1, e1, e2⟩

theorem C07_kosaraju_respects_iso_total (φ : Nat → Nat) (hφ : ∀ x y, φ x = φ y → x = y)
    (v1 v2 : View) (hv1 : C09P.ViewOk v1) (hv2 : C09P.ViewOk v2)
    (hp1 : C09T.PredOk v1) (hp2 : C09T.PredOk v2)
    (hwf1 : v1.g.WellFormed) (hwf2 : v2.g.WellFormed)
    (hb1 : C09T.SuccBound v1) (hb2 : C09T.SuccBound v2) (hbp1 : C09T.PredBound v1) (hbp2 : C09T.PredBound v2)
    (hn : SameNodes v2.g (relabel φ v1.g)) (hg : SameAdj v2.g (relabel φ v1.g)) :
    ∃ comps1 comps2, kosaraju v1 = some comps1 ∧ kosaraju v2 = some comps2 ∧
      SccSpec v2.g (comps1.map (List.map φ)) ∧
      ∀ x y, (∃ c ∈ comps1, x ∈ c ∧ y ∈ c) ↔ (∃ c ∈ comps2, φ x ∈ c ∧ φ y ∈ c) := by
  obtain ⟨k1, e1, _⟩ := C09T.C09_kosaraju_total v1 hv1 hp1 hwf1 hb1 hbp1
  obtain ⟨k2, e2, _⟩ := C09T.C09_kosaraju_total v2 hv2 hp2 hwf2 hb2 hbp2
  exact ⟨k1, k2, e1, e2, C07_kosaraju_respects_iso φ hφ v1 v2 hv1 hv2 hp1 hp2 hwf1 hwf2 hn hg k1 k2 e1 e2⟩

theorem C07_tarjan_respects_iso_total (φ : Nat → Nat) (hφ : ∀ x y, φ x = φ y → x = y)
    (v1 v2 : View) (hv1 : C09P.ViewOk v1) (hv2 : C09P.ViewOk v2) (hix1 : C09T.IxOk v1) (hix2 : C09T.IxOk v2)
    (hwf1 : v1.g.WellFormed) (hwf2 : v2.g.WellFormed) (hb1 : C09T.SuccBound v1) (hb2 : C09T.SuccBound v2)
    (hs1 : 2 * v1.g.nodes.length + 1 ≤ usizeMax) (hs2 : 2 * v2.g.nodes.length + 1 ≤ usizeMax)
    (hn : SameNodes v2.g (relabel φ v1.g)) (hg : SameAdj v2.g (relabel φ v1.g)) :
    ∃ t1 t2, tjRun v1 {} = some t1 ∧ tjRun v2 {} = some t2 ∧
      SccSpec v2.g (t1.out.map (List.map φ)) ∧
      ∀ x y, (∃ c ∈ t1.out, x ∈ c ∧ y ∈ c) ↔ (∃ c ∈ t2.out, φ x ∈ c ∧ φ y ∈ c) := by
  obtain ⟨t1, e1⟩ := C09T.C09_tarjan_total v1 hv1 hwf1 hb1 {}
  obtain ⟨t2, e2⟩ := C09T.C09_tarjan_total v2 hv2 hwf2 hb2 {}
  exact ⟨t1, t2, e1, e2, C07_tarjan_respects_iso φ hφ v1 v2 hv1 hv2 hix1 hix2 hwf1 hwf2 hs1 hs2 hn hg t1 t2 e1 e2⟩

theorem C07_toposort_respects_iso_total (φ : Nat → Nat) (hφ : ∀ x y, φ x = φ y → x = y)
    (v1 v2 : View) (hv1 : C09P.ViewOk v1) (hv2 : C09P.ViewOk v2)
    (hp1 : C09T.PredOk v1) (hp2 : C09T.PredOk v2)
    (hwf1 : v1.g.WellFormed) (hwf2 : v2.g.WellFormed)
    (hb1 : C09T.SuccBound v1) (hb2 : C09T.SuccBound v2) (hbp1 : C09T.PredBound v1) (hbp2 : C09T.PredBound v2)
    (hn : SameNodes v2.g (relabel φ v1.g)) (hg : SameAdj v2.g (relabel φ v1.g)) :
    ∃ r1 r2, toposort v1 = some r1 ∧ toposort v2 = some r2 ∧
      ((∃ o, r1 = .ok o) ↔ (∃ o, r2 = .ok o)) ∧
      (∀ o, r1 = .ok o → TopoOrder v2.g (o.map φ)) ∧
      (∀ x, r1 = .cycle x → Reach1 v2.g (φ x) (φ x)) := by
  obtain ⟨r1, e1⟩ := C09T.C09_toposort_total v1 hv1 hp1 hwf1 hb1 hbp1
  obtain ⟨r2, e2⟩ := C09T.C09_toposort_total v2 hv2 hp2 hwf2 hb2 hbp2
  exact ⟨r1, r2, e1, e2, C07_toposort_respects_iso φ hφ v1 v2 hv1 hv2 hp1 hp2 hwf1 hwf2 hn hg r1 r2 e1 e2⟩

theorem C07_cyclic_directed_respects_iso_total (φ : Nat → Nat) (hφ : ∀ x y, φ x = φ y → x = y)
    (v1 v2 : View) (hv1 : C09P.ViewOk v1) (hv2 : C09P.ViewOk v2)
    (hwf1 : v1.g.WellFormed) (hwf2 : v2.g.WellFormed) (hb1 : C09T.SuccBound v1) (hb2 : C09T.SuccBound v2)
    (hg : SameAdj v2.g (relabel φ v1.g)) :
    ∃ b, cyclicDirected v1 = some b ∧ cyclicDirected v2 = some b := by
  obtain ⟨b1, e1, _⟩ := C09T.C09_cyclic_directed_total v1 hv1 hwf1 hb1
  obtain ⟨b2, e2, _⟩ := C09T.C09_cyclic_directed_total v2 hv2 hwf2 hb2
  have := C07_cyclic_directed_respects_iso φ hφ v1 v2 hv1 hv2 hwf1 hwf2 hg b1 b2 e1 e2
  subst this
  exact ⟨b1, e1, e2⟩

theorem C07_bipartite_respects_iso_total (φ : Nat → Nat) (hφ : ∀ x y, φ x = φ y → x = y)
    (v1 v2 : View) (hv1 : C09P.ViewOk v1) (hv2 : C09P.ViewOk v2) (hwf1 : v1.g.WellFormed) (hwf2 : v2.g.WellFormed)
    (hg : SameAdj v2.g (relabel φ v1.g)) (s : Nat) (hs1 : s ∈ v1.g.nodes) (hs2 : φ s ∈ v2.g.nodes) :
    ∃ b, bipartite v1 s = .answer b ∧ bipartite v2 (φ s) = .answer b := by
  obtain ⟨b1, e1, _⟩ := C09T.C09_bipartite_total v1 hv1 hwf1 s hs1
  obtain ⟨b2, e2, _⟩ := C09T.C09_bipartite_total v2 hv2 hwf2 (φ s) hs2
  have := C07_bipartite_respects_iso φ hφ v1 v2 hv1 hv2 hg s b1 b2 e1 e2
  subst this
  exact ⟨b1, e1, e2⟩

theorem C07_condensation_respects_iso_total (φ : Nat → Nat) (hφ : ∀ x y, φ x = φ y → x = y)
    (v1 v2 : View) (hv1 : C09P.ViewOk v1) (hv2 : C09P.ViewOk v2)
    (hp1 : C09T.PredOk v1) (hp2 : C09T.PredOk v2)
    (hwf1 : v1.g.WellFormed) (hwf2 : v2.g.WellFormed)
    (hb1 : C09T.SuccBound v1) (hb2 : C09T.SuccBound v2) (hbp1 : C09T.PredBound v1) (hbp2 : C09T.PredBound v2)
    (eo1 eo2 : List Nat) (heo1 : (eo1.filterMap v1.edge?).Perm v1.g.edges)
    (heo2 : (eo2.filterMap v2.edge?).Perm v2.g.edges)
    (hn : SameNodes v2.g (relabel φ v1.g)) (hg : SameAdj v2.g (relabel φ v1.g)) (acyc1 acyc2 : Bool) :
    ∃ c1 c2, condensation v1 eo1 acyc1 = some c1 ∧ condensation v2 eo2 acyc2 = some c2 ∧
      c1.nodes.length = c2.nodes.length ∧ PartSpec v2.g (c1.nodes.map (List.map φ)) ∧
      ∀ x y, (∃ n ∈ c1.nodes, x ∈ n ∧ y ∈ n) ↔ (∃ n ∈ c2.nodes, φ x ∈ n ∧ φ y ∈ n) := by
  have T1 := C09T.C09_condensation_total v1 hv1 hp1 hwf1 hb1 hbp1 eo1 heo1
  have T2 := C09T.C09_condensation_total v2 hv2 hp2 hwf2 hb2 hbp2 eo2 heo2
  have A1 : ∃ c1, condensation v1 eo1 acyc1 = some c1 := by
    cases acyc1
    · obtain ⟨c, h, _⟩ := T1.1; exact ⟨c, h⟩
    · obtain ⟨c, h, _⟩ := T1.2; exact ⟨c, h⟩
  have A2 : ∃ c2, condensation v2 eo2 acyc2 = some c2 := by
    cases acyc2
    · obtain ⟨c, h, _⟩ := T2.1; exact ⟨c, h⟩
    · obtain ⟨c, h, _⟩ := T2.2; exact ⟨c, h⟩
  obtain ⟨c1, e1⟩ := A1
  obtain ⟨c2, e2⟩ := A2
  exact ⟨c1, c2, e1, e2, C07_condensation_respects_iso φ hφ v1 v2 hv1 hv2 hp1 hp2 hwf1 hwf2 eo1 eo2 heo1 heo2 hn hg
    acyc1 acyc2 c1 c2 e1 e2⟩

end W5TotalC09

/-! ### VF2: every call the C13 driver compares returns (`C13_vf2_fuel_never_reported`) and is relabeling-invariant
(`C13_vf2_relabel_invariant_checked`); here in the `_total` form of this file. -/
section W5TotalC13
open PetgraphModel.C13 PetgraphModel.C13.Vf2

theorem C07_vf2_respects_iso_total (I I' : Inst) (hs : sideFail I = none) (hs' : sideFail I' = none)
    (σ0 τ0 σ1 τ1 : Nat → Nat) (r : Relabeled I I' σ0 τ0 σ1 τ1) (fuel fuel' : Nat)
    (hf : explicitBound I ≤ fuel) (hf' : explicitBound I' ≤ fuel') :
    (∃ b, isoModelR I fuel = some b ∧ isoModelR I' fuel' = some b ∧ (b = true ↔ Iso I.problem)) ∧
    (∃ b, subModelR I fuel = some b ∧ subModelR I' fuel' = some b ∧ (b = true ↔ SubIso I.problem)) ∧
    (∃ res res', iterModelR I fuel = some res ∧ iterModelR I' fuel' = some res' ∧ (res' = none ↔ res = none) ∧
      ∀ vs fin vs' fin', res = some (vs, fin) → res' = some (vs', fin') → vs'.Perm vs ∧ fin = true ∧ fin' = true) := by
  obtain ⟨ok, _, _⟩ := C13T.C13_sideFail_check I hs
  obtain ⟨ok', _, _⟩ := C13T.C13_sideFail_check I' hs'
  obtain ⟨i1, s1, t1⟩ := (C13T.C13_vf2_fuel_never_reported I ok.h0 ok.h1 ok.hd).1 fuel hf
  obtain ⟨i2, s2, t2⟩ := (C13T.C13_vf2_fuel_never_reported I' ok'.h0 ok'.h1 ok'.hd).1 fuel' hf'
  obtain ⟨R1, R2, R3⟩ := C13T.C13_vf2_relabel_invariant_checked I I' hs hs' σ0 τ0 σ1 τ1 r fuel fuel'
  obtain ⟨b1, e1⟩ := Option.isSome_iff_exists.mp i1
  obtain ⟨b2, e2⟩ := Option.isSome_iff_exists.mp i2
  obtain ⟨c1, f1⟩ := Option.isSome_iff_exists.mp s1
  obtain ⟨c2, f2⟩ := Option.isSome_iff_exists.mp s2
  obtain ⟨d1, g1⟩ := Option.isSome_iff_exists.mp t1
  obtain ⟨d2, g2⟩ := Option.isSome_iff_exists.mp t2
  have hb := R2 b1 b2 e1 e2
  have hc := R1 c1 c2 f1 f2
  subst hb; subst hc
  exact ⟨⟨b2, e1, e2, C13T.C13_vf2_iso_checked I hs fuel b2 e1⟩, ⟨c2, f1, f2, C13T.C13_vf2_sub_checked I hs fuel c2 f1⟩,
    ⟨d1, d2, g1, g2, R3 d1 d2 g1 g2⟩⟩

end W5TotalC13

/-! ## wave 5, goal 2 — the parts of the answers that had no theorem: predecessor tables, paths, goal-directed runs -/
section W5Paths
open PetgraphModel.C11M PetgraphModel.C11MP PetgraphModel.C11P PetgraphModel.C10P PetgraphModel.SP

/-- a predecessor tree depends only on the set of weighted arcs -/
theorem treeWalk_congr {g1 g2 : MGraph} (h : SameArcs g1 g2) {p : Nat → Option Nat} {s x : Nat} {c : Int}
    (hw : TreeWalk g1 p s x c) : TreeWalk g2 p s x c := by
  induction hw with
  | root => exact TreeWalk.root
  | step _ hp harc ih => exact TreeWalk.step ih hp ((h _ _ _).mp harc)

/-- … and is carried along by a relabeling: if `p'` answers `φ u` at `φ v` whenever `p` answers `u` at `v` -/
theorem treeWalk_relabel (φ : Nat → Nat) (g : MGraph) {p p' : Nat → Option Nat}
    (hp' : ∀ v u, p v = some u → p' (φ v) = some (φ u)) {s x : Nat} {c : Int}
    (hw : TreeWalk g p s x c) : TreeWalk (relabel φ g) p' (φ s) (φ x) c := by
  induction hw with
  | root => exact TreeWalk.root
  | step _ hp harc ih =>
    refine TreeWalk.step ih (hp' _ _ hp) ?_
    rw [relabel_eq]
    exact (mem_arcs_relabel φ g).mpr ⟨_, _, rfl, rfl, harc⟩

/-- **bellman_ford, the predecessor table** (goal 2; ties between equally short paths may be broken differently, so
the tables need not correspond entry by entry): on two views of a graph and of its renaming, in `Ok` results
* each table is a shortest-path tree of ITS graph: following it from any node with a distance leads back to the
  source along arcs at exactly that (shortest) distance;
* the first table, carried along by `φ` (any `p'` with `p' (φ v) = φ (p v)`), is a shortest-path tree of the SECOND
  graph for the second run's distances;
* a node has no predecessor in the first table iff its image has none in the second (the source and the
  unreachable nodes). -/
theorem C07_bellman_ford_predecessors_respects_iso (φ : Nat → Nat) (hφ : ∀ x y, φ x = φ y → x = y)
    (v1 v2 : View) (hv1 : C11MP.ViewArcs v1) (hv2 : C11MP.ViewArcs v2)
    (hg : SameArcs v2.g (relabel φ v1.g)) (s : Nat) (st1 st2 : BF)
    (r1 : bellmanFord v1 s = some st1) (r2 : bellmanFord v2 (φ s) = some st2) :
    (∀ x y, tget st1.d x = some y → TreeWalk v1.g (tget st1.p) s x y) ∧
    (∀ x y, tget st2.d x = some y → TreeWalk v2.g (tget st2.p) (φ s) x y) ∧
    (∀ p' : Nat → Option Nat, (∀ v u, tget st1.p v = some u → p' (φ v) = some (φ u)) →
      ∀ x y, tget st2.d (φ x) = some y → TreeWalk v2.g p' (φ s) (φ x) y) ∧
    (∀ x, tget st2.p (φ x) = none ↔ tget st1.p x = none) := by
  have T1 := C11T.C11_bellman_ford_tree v1 hv1 s st1 r1
  have T2 := C11T.C11_bellman_ford_tree v2 hv2 (φ s) st2 r2
  have E1 := bellman_ford_exact v1 hv1 s st1 r1
  have E2 := bellman_ford_exact v2 hv2 (φ s) st2 r2
  obtain ⟨_, n1, _, q1, _⟩ := C11MP.bellmanFord_ok v1 hv1 s st1 r1
  obtain ⟨_, n2, _, q2, _⟩ := C11MP.bellmanFord_ok v2 hv2 (φ s) st2 r2
  refine ⟨T1, T2, fun p' hp' x y hy => ?_, fun x => ?_⟩
  · have hd : tget st1.d x = some y :=
      (E1 x y).mpr ((isShortest_relabel_iff v1.g hφ).mp ((isShortest_congr hg).mp ((E2 (φ x) y).mp hy)))
    exact treeWalk_congr (SameArcs.symm hg) (treeWalk_relabel φ v1.g hp' (T1 x y hd))
  · rw [q1 x, q2 (φ x), n1 x, n2 (φ x)]
    have hw : (∃ c, WalkCost v2.g (φ s) (φ x) c) ↔ ∃ c, WalkCost v1.g s x c :=
      ⟨fun ⟨c, h⟩ => ⟨c, (walkCost_relabel_iff v1.g hφ).mp ((walkCost_congr hg).mp h)⟩,
       fun ⟨c, h⟩ => ⟨c, (walkCost_congr hg).mpr ((walkCost_relabel_iff v1.g hφ).mpr h)⟩⟩
    constructor
    · rintro (h | h)
      · exact Or.inl (hφ _ _ h)
      · exact Or.inr (fun h' => h (hw.mpr h'))
    · rintro (h | h)
      · exact Or.inl (by rw [h])
      · exact Or.inr (fun h' => h (hw.mp h'))

/-- **bellman_ford predecessors, encoding independence**: two views of the same weighted arcs — each table is a
shortest-path tree of BOTH graphs (for the common distances), with no entry at the same nodes -/
theorem C07_bellman_ford_predecessors_encoding_independent
    (v1 v2 : View) (hv1 : C11MP.ViewArcs v1) (hv2 : C11MP.ViewArcs v2)
    (hg : SameArcs v1.g v2.g) (s : Nat) (st1 st2 : BF)
    (r1 : bellmanFord v1 s = some st1) (r2 : bellmanFord v2 s = some st2) :
    (∀ x y, tget st1.d x = some y → TreeWalk v1.g (tget st1.p) s x y ∧ TreeWalk v2.g (tget st1.p) s x y) ∧
    (∀ x y, tget st2.d x = some y → TreeWalk v2.g (tget st2.p) s x y ∧ TreeWalk v1.g (tget st2.p) s x y) ∧
    (∀ x, tget st1.p x = none ↔ tget st2.p x = none) := by
  have T1 := C11T.C11_bellman_ford_tree v1 hv1 s st1 r1
  have T2 := C11T.C11_bellman_ford_tree v2 hv2 s st2 r2
  obtain ⟨_, n1, _, q1, _⟩ := C11MP.bellmanFord_ok v1 hv1 s st1 r1
  obtain ⟨_, n2, _, q2, _⟩ := C11MP.bellmanFord_ok v2 hv2 s st2 r2
  refine ⟨fun x y h => ⟨T1 x y h, treeWalk_congr hg (T1 x y h)⟩,
    fun x y h => ⟨T2 x y h, treeWalk_congr (SameArcs.symm hg) (T2 x y h)⟩, fun x => ?_⟩
  rw [q1 x, q2 x, n1 x, n2 x]
  have hw : (∃ c, WalkCost v1.g s x c) ↔ ∃ c, WalkCost v2.g s x c :=
    ⟨fun ⟨c, h⟩ => ⟨c, (walkCost_congr hg).mp h⟩, fun ⟨c, h⟩ => ⟨c, (walkCost_congr hg).mpr h⟩⟩
  rw [hw]

/-- **floyd_warshall_path, the `prev` matrix** (goal 2): on two views of the same weighted arcs (cost types wide
enough, `FloydWide`), in `Ok` results every row `i` of either `prev` matrix is a shortest-path tree of BOTH graphs
rooted at `i` (following `prev[i][·]` from `j` leads back to `i` along arcs at exactly `dist[i][j]`), and
`prev[i][j]` is absent in one iff it is in the other (`j = i` or no walk). -/
theorem C07_floyd_warshall_path_encoding_independent
    (B1 B2 : Meas) (v1 v2 : View) (hwf1 : v1.g.WellFormed) (hwf2 : v2.g.WellFormed)
    (hwide1 : FloydWide B1 v1) (hwide2 : FloydWide B2 v2) (hg : SameArcs v1.g v2.g) (st1 st2 : FW)
    (r1 : floydWarshall B1 v1 = some st1) (r2 : floydWarshall B2 v2 = some st2)
    (i : Nat) (hi1 : i ∈ v1.g.nodes) (hi2 : i ∈ v2.g.nodes) :
    (∀ j y, tget st1.d (i, j) = some y →
      TreeWalk v1.g (fun x => if x == i then none else tget st1.p (i, x)) i j y ∧
      TreeWalk v2.g (fun x => if x == i then none else tget st1.p (i, x)) i j y) ∧
    (∀ j y, tget st2.d (i, j) = some y →
      TreeWalk v2.g (fun x => if x == i then none else tget st2.p (i, x)) i j y ∧
      TreeWalk v1.g (fun x => if x == i then none else tget st2.p (i, x)) i j y) ∧
    (∀ j, j ≠ i → (tget st1.p (i, j) = none ↔ tget st2.p (i, j) = none)) := by
  obtain ⟨W1, a1, b1, c1⟩ := hwide1
  obtain ⟨W2, a2, b2, c2⟩ := hwide2
  have P1 := C11T.C11_floyd_prev_all B1 v1 hwf1 W1 a1 b1 c1 st1 r1 i hi1
  have P2 := C11T.C11_floyd_prev_all B2 v2 hwf2 W2 a2 b2 c2 st2 r2 i hi2
  have Q1 := C11T.C11_floyd_prev_penultimate B1 v1 hwf1 W1 a1 b1 c1 st1 r1 i hi1
  have Q2 := C11T.C11_floyd_prev_penultimate B2 v2 hwf2 W2 a2 b2 c2 st2 r2 i hi2
  refine ⟨fun j y h => ⟨P1 j y h, treeWalk_congr hg (P1 j y h)⟩,
    fun j y h => ⟨P2 j y h, treeWalk_congr (SameArcs.symm hg) (P2 j y h)⟩, fun j hj => ?_⟩
  rw [(Q1 j hj).1, (Q2 j hj).1]
  have hw : (∃ c, WalkCost v1.g i j c) ↔ ∃ c, WalkCost v2.g i j c :=
    ⟨fun ⟨c, h⟩ => ⟨c, (walkCost_congr hg).mp h⟩, fun ⟨c, h⟩ => ⟨c, (walkCost_congr hg).mpr h⟩⟩
  rw [hw]

/-- a path with its cost is carried along by a relabeling, and depends only on the set of weighted arcs -/
theorem pathCost_relabel (φ : Nat → Nat) (g : MGraph) {p : List Nat} {c : Int} (h : PathCost g p c) :
    PathCost (relabel φ g) (p.map φ) c := by
  induction h with
  | single a => exact PathCost.single _
  | cons harc _ ih =>
    simp only [List.map_cons] at ih ⊢
    exact PathCost.cons (by rw [relabel_eq]; exact (mem_arcs_relabel φ g).mpr ⟨_, _, rfl, rfl, harc⟩) ih

theorem pathCost_congr {g1 g2 : MGraph} (hg : SameArcs g1 g2) {p : List Nat} {c : Int} (h : PathCost g1 p c) :
    PathCost g2 p c := by
  induction h with
  | single a => exact PathCost.single _
  | cons harc _ ih => exact PathCost.cons ((hg _ _ _).mp harc) ih

/-- **astar, the returned path** (goal 2; the optimal path is not unique): on two views of a graph and of its renaming,
with admissible heuristics and enough fuel, when both runs answer `Some((cost, path))` the costs are equal
(`C07_astar_respects_iso`), each path runs from the start to a goal of ITS run along arcs of ITS graph with costs
summing to `cost`, and the first path renamed by `φ` is such a path in the SECOND graph — an equally good answer. -/
theorem C07_astar_path_respects_iso (φ : Nat → Nat) (hφ : ∀ x y, φ x = φ y → x = y)
    (pop1 pop2 : Pop) (hp1 : IsMinPop pop1) (hp2 : IsMinPop pop2)
    (v1 v2 : View) (hv1 : C10P.ViewArcs v1) (hv2 : C10P.ViewArcs v2) (hw : NonNeg v1.g)
    (hg : SameArcs v2.g (relabel φ v1.g)) (s : Nat) (goal1 goal2 : Nat → Bool)
    (hgoal : ∀ x, goal2 (φ x) = goal1 x) (h1 h2 : Nat → Int)
    (ha1 : Admissible v1.g goal1 h1) (ha2 : Admissible v2.g goal2 h2) (f1 f2 : Nat)
    (hf1 : astarBound v1.g s ≤ f1) (hf2 : astarBound v2.g (φ s) ≤ f2)
    (c1 c2 : Int) (p1 p2 : List Nat) (r1 : SP.astar pop1 v1 s goal1 h1 f1 = .found c1 p1)
    (r2 : SP.astar pop2 v2 (φ s) goal2 h2 f2 = .found c2 p2) :
    c1 = c2 ∧
    (∃ t, goal1 t = true ∧ p1.head? = some s ∧ p1.getLast? = some t ∧ PathCost v1.g p1 c1) ∧
    (∃ t, goal2 t = true ∧ p2.head? = some (φ s) ∧ p2.getLast? = some t ∧ PathCost v2.g p2 c2) ∧
    (∃ t, goal2 t = true ∧ (p1.map φ).head? = some (φ s) ∧ (p1.map φ).getLast? = some t ∧
      PathCost v2.g (p1.map φ) c2) := by
  have hw2 : NonNeg v2.g := nonNeg_congr (SameArcs.symm hg) (nonNeg_relabel φ v1.g hw)
  have hc := (C07_astar_respects_iso φ hφ pop1 pop2 hp1 hp2 v1 v2 hv1 hv2 hw hg s goal1 goal2 hgoal h1 h2 ha1 ha2
    f1 f2 hf1 hf2).2 c1 p1 c2 p2 r1 r2
  obtain ⟨t1, g1, hd1, l1, _, k1⟩ := (C10T.C10_astar pop1 hp1 v1 hv1 hw s goal1 h1 f1 hf1).2.2 c1 p1 r1
  obtain ⟨t2, g2, hd2, l2, _, k2⟩ := (C10T.C10_astar pop2 hp2 v2 hv2 hw2 (φ s) goal2 h2 f2 hf2).2.2 c2 p2 r2
  refine ⟨hc, ⟨t1, g1, hd1, l1, (k1 ha1).2⟩, ⟨t2, g2, hd2, l2, (k2 ha2).2⟩, φ t1, by rw [hgoal]; exact g1, ?_, ?_, ?_⟩
  · rw [List.head?_map, hd1]; rfl
  · rw [List.getLast?_map, l1]; rfl
  · rw [← hc]
    exact pathCost_congr (SameArcs.symm hg) (pathCost_relabel φ v1.g (k1 ha1).2)

/-- **k_shortest_path with a goal** (goal 2): on two views of a graph and of its renaming (multiset of arcs), for every
`k ≥ 1` and goal `t`: the goal's entry is carried along (present in one run iff in the other, with the same k-th
cheapest walk cost), and every entry of either map is the exact k-th cost of its node. -/
theorem C07_kshortest_goal_respects_iso (φ : Nat → Nat) (hφ : ∀ x y, φ x = φ y → x = y)
    (pop1 pop2 : Pop) (hp1 : IsMinPop pop1) (hp2 : IsMinPop pop2)
    (v1 v2 : View) (hv1 : ViewArcsM v1) (hv2 : ViewArcsM v2) (hw : NonNeg v1.g)
    (hg : v2.g.arcs.Perm (relabel φ v1.g).arcs) (s k : Nat) (hk : 1 ≤ k)
    (hix1 : C10P.IxOk v1 s) (hinj1 : IxInj v1 s) (hix2 : C10P.IxOk v2 (φ s)) (hinj2 : IxInj v2 (φ s))
    (t : Nat) (m1 m2 : List (Nat × Int))
    (r1 : kShortestPath pop1 v1 s (some t) k = .done m1) (r2 : kShortestPath pop2 v2 (φ s) (some (φ t)) k = .done m2) :
    amGet m2 (φ t) = amGet m1 t ∧
    (∀ x c, amGet m1 x = some c → KthCost v1.g s x k c) ∧
    (∀ x c, amGet m2 (φ x) = some c → KthCost v1.g s x k c) := by
  have hw2 : NonNeg v2.g := nonNeg_perm hg.symm (nonNeg_relabel φ v1.g hw)
  obtain ⟨e1, _, g1⟩ := C10T.C10_kshortest_goal pop1 hp1 v1 hv1 hw s k hk hix1 hinj1 (some t) m1 r1
  obtain ⟨e2, _, g2⟩ := C10T.C10_kshortest_goal pop2 hp2 v2 hv2 hw2 (φ s) k hk hix2 hinj2 (some (φ t)) m2 r2
  have tr : ∀ x c, KthCost v2.g (φ s) (φ x) k c ↔ KthCost v1.g s x k c := fun x c =>
    (kthCost_perm hg _ _ k c).trans (kthCost_relabel_iff hφ v1.g s x k c)
  refine ⟨opt_eq_of_spec (fun c => ((g2 (φ t) rfl).1 c).trans (tr t c)) (fun c => (g1 t rfl).1 c), e1,
    fun x c h => (tr x c).mp (e2 (φ x) c h)⟩

/-- **k_shortest_path with a goal, total**: both runs answer (`C10_kshortest_terminates`, `C10_kshortest_safe`) -/
theorem C07_kshortest_goal_respects_iso_total (φ : Nat → Nat) (hφ : ∀ x y, φ x = φ y → x = y)
    (pop1 pop2 : Pop) (hp1 : IsMinPop pop1) (hp2 : IsMinPop pop2)
    (v1 v2 : View) (hv1 : ViewArcsM v1) (hv2 : ViewArcsM v2) (hw : NonNeg v1.g)
    (hg : v2.g.arcs.Perm (relabel φ v1.g).arcs) (s k : Nat) (hk : 1 ≤ k)
    (hix1 : C10P.IxOk v1 s) (hinj1 : IxInj v1 s) (hix2 : C10P.IxOk v2 (φ s)) (hinj2 : IxInj v2 (φ s)) (t : Nat) :
    ∃ m1 m2, kShortestPath pop1 v1 s (some t) k = .done m1 ∧ kShortestPath pop2 v2 (φ s) (some (φ t)) k = .done m2 ∧
      amGet m2 (φ t) = amGet m1 t := by
  obtain ⟨m1, r1⟩ := kshortest_answers pop1 hp1 v1 hv1.viewArcs s hix1 (some t) k
  obtain ⟨m2, r2⟩ := kshortest_answers pop2 hp2 v2 hv2.viewArcs (φ s) hix2 (some (φ t)) k
  exact ⟨m1, m2, r1, r2, (C07_kshortest_goal_respects_iso φ hφ pop1 pop2 hp1 hp2 v1 v2 hv1 hv2 hw hg s k hk
    hix1 hinj1 hix2 hinj2 t m1 m2 r1 r2).1⟩

end W5Paths
/-! ### depth_first_search event streams -/
section W5Events

/-- **depth_first_search, encoding independence** (goal 2; the event stream depends on the neighbour order, so: in
what the property determines).  Two views of the same adjacency relation, the same start list and control script,
fuel at least `dfsFuel`: neither run ends by lack of fuel; when both return `Continue` both event streams are
well-parenthesised, and with an all-`Continue` visitor they discover — and finish — exactly the same nodes (those
reachable from the start nodes).  (That each stream satisfies every time-stamp / nesting / classification clause
w.r.t. its graph is `C08_accepted_clauses`.) -/
theorem C07_dfs_events_encoding_independent (v1 v2 : View) (hv1 : ViewOk v1) (hv2 : ViewOk v2)
    (hwf1 : v1.g.WellFormed) (hwf2 : v2.g.WellFormed) (hg : SameAdj v1.g v2.g)
    (script : List Ctl) (starts : List Nat) (hst1 : ∀ x, x ∈ starts → x ∈ v1.g.nodes)
    (hst2 : ∀ x, x ∈ starts → x ∈ v2.g.nodes) (f1 f2 : Nat) (hf1 : dfsFuel v1 ≤ f1) (hf2 : dfsFuel v2 ≤ f2) :
    (dfsSearch v1 script f1 starts {}).2 ≠ .fuel ∧ (dfsSearch v2 script f2 starts {}).2 ≠ .fuel ∧
    ∀ s1 s2, dfsSearch v1 script f1 starts {} = (s1, .cont) → dfsSearch v2 script f2 starts {} = (s2, .cont) →
      Balanced s1.evs.reverse ∧ Balanced s2.evs.reverse ∧
      ((∀ k, k < s1.evs.length → ctlAt script k = .cont) → (∀ k, k < s2.evs.length → ctlAt script k = .cont) →
        ∀ x, (x ∈ discOf s1.evs.reverse ↔ x ∈ discOf s2.evs.reverse) ∧
          (x ∈ finOf s1.evs.reverse ↔ x ∈ finOf s2.evs.reverse)) := by
  refine ⟨C08T.C08_dfsv_fuel v1 hv1 hwf1 script f1 starts hst1 hf1,
    C08T.C08_dfsv_fuel v2 hv2 hwf2 script f2 starts hst2 hf2, fun s1 s2 r1 r2 => ?_⟩
  refine ⟨C08T.C08_dfsv_balanced v1 script f1 starts s1 r1, C08T.C08_dfsv_balanced v2 script f2 starts s2 r2,
    fun a1 a2 x => ?_⟩
  obtain ⟨d1, e1⟩ := C08T.C08_dfsv_reach_exact v1 hv1 script f1 starts s1 r1 a1 x
  obtain ⟨d2, e2⟩ := C08T.C08_dfsv_reach_exact v2 hv2 script f2 starts s2 r2 a2 x
  have hr : (∃ s, s ∈ starts ∧ Reach v1.g s x) ↔ ∃ s, s ∈ starts ∧ Reach v2.g s x :=
    ⟨fun ⟨s, hs, h⟩ => ⟨s, hs, (C07W2.reach_congr hg).mp h⟩, fun ⟨s, hs, h⟩ => ⟨s, hs, (C07W2.reach_congr hg).mpr h⟩⟩
  exact ⟨d1.trans (hr.trans d2.symm), e1.trans (hr.trans e2.symm)⟩

end W5Events

section W5Checks

/-- `sameGraphB`: the two views present the same abstract graph, in every sense the theorems use -/
theorem C07_sameGraph_check (v1 v2 : View) (h : C07.sameGraphB v1 v2 = true) :
    v1.g.directed = v2.g.directed ∧ v1.g.edges = v2.g.edges ∧ v1.g.nodes.Perm v2.g.nodes ∧
    SameNodes v1.g v2.g ∧ SameAdj v1.g v2.g ∧ SameArcs v1.g v2.g ∧ v1.g.arcs.Perm v2.g.arcs ∧
    SameUEdges v1.g.edges v2.g.edges ∧ SameCaps v1.g v2.g ∧ C07W3.SameJoined v1.g v2.g ∧ SameEdgeSet v1.g v2.g :=
  let s := sameGraphB_sound h
  ⟨s.dir, s.edges, s.nodes, s.sameNodes, s.sameAdj, s.sameArcs, s.arcsPerm, s.sameUEdges, s.sameCaps, s.sameJoined,
    s.sameEdgeSet⟩

theorem C07_trav_view_check (v : View) (h : C07.travViewB v = true) : ViewOk v ∧ PredOk v ∧ v.g.WellFormed := by
  simp only [C07.travViewB, Bool.and_eq_true] at h
  obtain ⟨a, b, c, _⟩ := C08T.C08_viewOk_check v h.1.1 h.1.2 h.2
  exact ⟨a, b, c⟩

/-! ### goal 3: `_total` variants for the walkers -/

theorem C07_dfs_encoding_independent_total (v1 v2 : View) (h1 : ViewOk v1) (h2 : ViewOk v2)
    (hwf1 : v1.g.WellFormed) (hwf2 : v2.g.WellFormed) (hg : ∀ a b, v1.g.Adj a b ↔ v2.g.Adj a b)
    (s : Nat) (hs1 : s ∈ v1.g.nodes) (hs2 : s ∈ v2.g.nodes) (i1 o1 i2 o2 : Nat)
    (hi1 : C08T.walkFuel v1 ≤ i1) (ho1 : v1.g.nodes.length + 1 ≤ o1)
    (hi2 : C08T.walkFuel v2 ≤ i2) (ho2 : v2.g.nodes.length + 1 ≤ o2) :
    ∃ out1 d1 out2 d2, dfsAll v1 i1 o1 { stack := [s], disc := [] } [] = some (out1, d1) ∧
      dfsAll v2 i2 o2 { stack := [s], disc := [] } [] = some (out2, d2) ∧ ∀ x, x ∈ out1 ↔ x ∈ out2 := by
  obtain ⟨out1, d1, r1⟩ := C08T.C08_dfs_total v1 h1 hwf1 s hs1 [] i1 o1 hi1 ho1
  obtain ⟨out2, d2, r2⟩ := C08T.C08_dfs_total v2 h2 hwf2 s hs2 [] i2 o2 hi2 ho2
  exact ⟨out1, d1, out2, d2, r1, r2, C07_dfs_encoding_independent v1 v2 h1 h2 hg s i1 o1 i2 o2 out1 out2 d1 d2 r1 r2⟩

theorem C07_bfs_encoding_independent_total (v1 v2 : View) (h1 : ViewOk v1) (h2 : ViewOk v2)
    (hwf1 : v1.g.WellFormed) (hwf2 : v2.g.WellFormed) (hg : ∀ a b, v1.g.Adj a b ↔ v2.g.Adj a b)
    (s : Nat) (hs1 : s ∈ v1.g.nodes) (hs2 : s ∈ v2.g.nodes) (f1 f2 : Nat)
    (ho1 : v1.g.nodes.length + 1 ≤ f1) (ho2 : v2.g.nodes.length + 1 ≤ f2) :
    ∃ out1 out2, bfsAll v1 f1 (Bfs.new s) [] = some out1 ∧ bfsAll v2 f2 (Bfs.new s) [] = some out2 ∧
      ∀ x, x ∈ out1 ↔ x ∈ out2 := by
  obtain ⟨out1, r1⟩ := C08T.C08_bfs_total v1 h1 hwf1 s hs1 f1 ho1
  obtain ⟨out2, r2⟩ := C08T.C08_bfs_total v2 h2 hwf2 s hs2 f2 ho2
  exact ⟨out1, out2, r1, r2, C07_bfs_encoding_independent v1 v2 h1 h2 hg s f1 f2 out1 out2 r1 r2⟩

theorem C07_postorder_encoding_independent_total (v1 v2 : View) (h1 : ViewOk v1) (h2 : ViewOk v2)
    (hwf1 : v1.g.WellFormed) (hwf2 : v2.g.WellFormed) (hg : ∀ a b, v1.g.Adj a b ↔ v2.g.Adj a b)
    (s : Nat) (hs1 : s ∈ v1.g.nodes) (hs2 : s ∈ v2.g.nodes) (i1 o1 i2 o2 : Nat)
    (hi1 : C08T.walkFuel v1 ≤ i1) (ho1 : v1.g.nodes.length + 1 ≤ o1)
    (hi2 : C08T.walkFuel v2 ≤ i2) (ho2 : v2.g.nodes.length + 1 ≤ o2) :
    ∃ out1 d1 out2 d2, postAll v1 i1 o1 { stack := [s] } [] = some (out1, d1) ∧
      postAll v2 i2 o2 { stack := [s] } [] = some (out2, d2) ∧ ∀ x, x ∈ out1 ↔ x ∈ out2 := by
  obtain ⟨out1, d1, r1⟩ := C08T.C08_postorder_total v1 h1 hwf1 s hs1 [] [] i1 o1 hi1 ho1
  obtain ⟨out2, d2, r2⟩ := C08T.C08_postorder_total v2 h2 hwf2 s hs2 [] [] i2 o2 hi2 ho2
  exact ⟨out1, d1, out2, d2, r1, r2,
    C07_postorder_encoding_independent v1 v2 h1 h2 hg s i1 o1 i2 o2 out1 out2 d1 d2 r1 r2⟩

theorem C07_topo_encoding_independent_total
    (v1 v2 : View) (hv1 : ViewOk v1) (hv2 : ViewOk v2) (hp1 : PredOk v1) (hp2 : PredOk v2)
    (hwf1 : v1.g.WellFormed) (hwf2 : v2.g.WellFormed) (hn : SameNodes v1.g v2.g) (hg : SameAdj v1.g v2.g)
    (i1 o1 i2 o2 : Nat) (hi1 : C08T.walkFuel v1 ≤ i1) (ho1 : v1.g.nodes.length + 1 ≤ o1)
    (hi2 : C08T.walkFuel v2 ≤ i2) (ho2 : v2.g.nodes.length + 1 ≤ o2) :
    ∃ out1 out2, topoAll v1 i1 o1 (Topo.new v1) [] = some out1 ∧ topoAll v2 i2 o2 (Topo.new v2) [] = some out2 ∧
      ∀ x, x ∈ v1.g.nodes → (x ∈ out1 ↔ x ∈ out2) := by
  obtain ⟨out1, r1⟩ := C08T.C08_topo_total v1 hv1 hwf1 i1 o1 hi1 ho1
  obtain ⟨out2, r2⟩ := C08T.C08_topo_total v2 hv2 hwf2 i2 o2 hi2 ho2
  exact ⟨out1, out2, r1, r2, fun x hx =>
    C07_topo_encoding_independent v1 v2 hv1 hv2 hp1 hp2 hwf1 hwf2 hn hg i1 o1 i2 o2 out1 out2 r1 r2 x hx⟩

/-! ### run-time checks: walkers -/

theorem C07_trav_pair_check (v1 v2 : View) (starts : List Nat) (h : C07.travB v1 v2 starts = true) :
    (ViewOk v1 ∧ PredOk v1 ∧ v1.g.WellFormed) ∧ (ViewOk v2 ∧ PredOk v2 ∧ v2.g.WellFormed) ∧
    SameGraph v1.g v2.g ∧ (∀ s ∈ starts, s ∈ v1.g.nodes) ∧ (∀ s ∈ starts, s ∈ v2.g.nodes) := by
  simp only [C07.travB, Bool.and_eq_true] at h
  obtain ⟨⟨⟨⟨a, b⟩, c⟩, d⟩, e⟩ := h
  exact ⟨C07_trav_view_check v1 a, C07_trav_view_check v2 b, sameGraphB_sound c,
    fun s hs => C08T.C08_starts_check v1 starts d s hs, fun s hs => C08T.C08_starts_check v2 starts e s hs⟩

/-- **`Dfs` on every compared pair of encodings**: if the driver's check `travB` passes, both model runs answer
(with the fuel of the C08 totality theorem) and emit the same set of nodes. -/
theorem C07_dfs_checked (v1 v2 : View) (s : Nat) (h : C07.travB v1 v2 [s] = true) (i1 o1 i2 o2 : Nat)
    (hi1 : C08T.walkFuel v1 ≤ i1) (ho1 : v1.g.nodes.length + 1 ≤ o1)
    (hi2 : C08T.walkFuel v2 ≤ i2) (ho2 : v2.g.nodes.length + 1 ≤ o2) :
    ∃ out1 d1 out2 d2, dfsAll v1 i1 o1 { stack := [s], disc := [] } [] = some (out1, d1) ∧
      dfsAll v2 i2 o2 { stack := [s], disc := [] } [] = some (out2, d2) ∧ ∀ x, x ∈ out1 ↔ x ∈ out2 := by
  obtain ⟨⟨a1, _, c1⟩, ⟨a2, _, c2⟩, sg, s1, s2⟩ := C07_trav_pair_check v1 v2 [s] h
  exact C07_dfs_encoding_independent_total v1 v2 a1 a2 c1 c2 sg.sameAdj s (s1 s (by simp)) (s2 s (by simp))
    i1 o1 i2 o2 hi1 ho1 hi2 ho2

/-- non-vacuity: the check holds on two real encodings of one abstract graph (transcribed from a run of the harness) -/
example : C07.travB exD1.v exD2.v [3] = true ∧ C07.travB exU1.v exU3.v [2] = true := by decide +kernel

theorem C07_bfs_checked (v1 v2 : View) (s : Nat) (h : C07.travB v1 v2 [s] = true) (f1 f2 : Nat)
    (ho1 : v1.g.nodes.length + 1 ≤ f1) (ho2 : v2.g.nodes.length + 1 ≤ f2) :
    ∃ out1 out2, bfsAll v1 f1 (Bfs.new s) [] = some out1 ∧ bfsAll v2 f2 (Bfs.new s) [] = some out2 ∧
      ∀ x, x ∈ out1 ↔ x ∈ out2 := by
  obtain ⟨⟨a1, _, c1⟩, ⟨a2, _, c2⟩, sg, s1, s2⟩ := C07_trav_pair_check v1 v2 [s] h
  exact C07_bfs_encoding_independent_total v1 v2 a1 a2 c1 c2 sg.sameAdj s (s1 s (by simp)) (s2 s (by simp))
    f1 f2 ho1 ho2

theorem C07_postorder_checked (v1 v2 : View) (s : Nat) (h : C07.travB v1 v2 [s] = true) (i1 o1 i2 o2 : Nat)
    (hi1 : C08T.walkFuel v1 ≤ i1) (ho1 : v1.g.nodes.length + 1 ≤ o1)
    (hi2 : C08T.walkFuel v2 ≤ i2) (ho2 : v2.g.nodes.length + 1 ≤ o2) :
    ∃ out1 d1 out2 d2, postAll v1 i1 o1 { stack := [s] } [] = some (out1, d1) ∧
      postAll v2 i2 o2 { stack := [s] } [] = some (out2, d2) ∧ ∀ x, x ∈ out1 ↔ x ∈ out2 := by
  obtain ⟨⟨a1, _, c1⟩, ⟨a2, _, c2⟩, sg, s1, s2⟩ := C07_trav_pair_check v1 v2 [s] h
  exact C07_postorder_encoding_independent_total v1 v2 a1 a2 c1 c2 sg.sameAdj s (s1 s (by simp)) (s2 s (by simp))
    i1 o1 i2 o2 hi1 ho1 hi2 ho2

theorem C07_topo_checked (v1 v2 : View) (h : C07.travB v1 v2 [] = true) (i1 o1 i2 o2 : Nat)
    (hi1 : C08T.walkFuel v1 ≤ i1) (ho1 : v1.g.nodes.length + 1 ≤ o1)
    (hi2 : C08T.walkFuel v2 ≤ i2) (ho2 : v2.g.nodes.length + 1 ≤ o2) :
    ∃ out1 out2, topoAll v1 i1 o1 (Topo.new v1) [] = some out1 ∧ topoAll v2 i2 o2 (Topo.new v2) [] = some out2 ∧
      ∀ x, x ∈ v1.g.nodes → (x ∈ out1 ↔ x ∈ out2) := by
  obtain ⟨⟨a1, b1, c1⟩, ⟨a2, b2, c2⟩, sg, _, _⟩ := C07_trav_pair_check v1 v2 [] h
  exact C07_topo_encoding_independent_total v1 v2 a1 a2 b1 b2 c1 c2 sg.sameNodes sg.sameAdj i1 o1 i2 o2 hi1 ho1 hi2 ho2


/-- non-vacuity: the check holds on two real encodings of one abstract graph (transcribed from a run of the harness) -/
example : C07.travB exD1.v exD3.v [] = true := by decide +kernel

/-! ### C09 family -/
section C09
open PetgraphModel.C09J PetgraphModel.C09M

theorem C07_c09_pair_check (v1 v2 : View) (starts : List Nat) (h : C07.c09B v1 v2 starts = true) :
    C09.caseOkB v1 = true ∧ C09.caseOkB v2 = true ∧ SameGraph v1.g v2.g ∧
    (∀ s ∈ starts, nodeB v1.g s = true) ∧ (∀ s ∈ starts, nodeB v2.g s = true) := by
  simp only [C07.c09B, Bool.and_eq_true, List.all_eq_true] at h
  obtain ⟨⟨⟨a, b⟩, c⟩, d⟩ := h
  exact ⟨a, b, sameGraphB_sound c, fun s hs => (d s hs).1, fun s hs => (d s hs).2⟩

/-- **has_path_connecting on every compared pair**: both model runs answer, with the same Boolean -/
theorem C07_has_path_checked (v1 v2 : View) (a b : Nat) (h : C07.c09B v1 v2 [a] = true) :
    ∃ r, hasPath v1 a b = some r ∧ hasPath v2 a b = some r := by
  obtain ⟨c1, c2, sg, n1, n2⟩ := C07_c09_pair_check v1 v2 [a] h
  obtain ⟨r1, e1, s1⟩ := (C09T.C09_checked_case v1 c1).2.2.1 a b (n1 a (by simp))
  obtain ⟨r2, e2, s2⟩ := (C09T.C09_checked_case v2 c2).2.2.1 a b (n2 a (by simp))
  have : r1 = r2 := bool_eq_of_iff s1 (s2.trans (C07W2.reach_congr sg.sameAdj).symm)
  subst this
  exact ⟨r1, e1, e2⟩

/-- non-vacuity: the check holds on two real encodings of one abstract graph (transcribed from a run of the harness) -/
example : C07.c09B exD1.v exD2.v [3] = true ∧ C07.c09B exU1.v exU2.v [1] = true := by decide +kernel

/-- **is_bipartite_undirected on every compared pair** -/
theorem C07_bipartite_checked (v1 v2 : View) (s : Nat) (h : C07.c09B v1 v2 [s] = true) :
    ∃ b, bipartite v1 s = .answer b ∧ bipartite v2 s = .answer b := by
  obtain ⟨c1, c2, sg, n1, n2⟩ := C07_c09_pair_check v1 v2 [s] h
  obtain ⟨r1, e1, s1⟩ := (C09T.C09_checked_case v1 c1).2.2.2.2.1 s (n1 s (by simp))
  obtain ⟨r2, e2, s2⟩ := (C09T.C09_checked_case v2 c2).2.2.2.2.1 s (n2 s (by simp))
  have : r1 = r2 := bool_eq_of_iff s1 (s2.trans (twoCol_congr sg.sameAdj s).symm)
  subst this
  exact ⟨r1, e1, e2⟩

/-- **is_cyclic_directed on every compared pair** -/
theorem C07_cyclic_directed_checked (v1 v2 : View) (h : C07.c09B v1 v2 [] = true) :
    ∃ b, cyclicDirected v1 = some b ∧ cyclicDirected v2 = some b := by
  obtain ⟨c1, c2, sg, _, _⟩ := C07_c09_pair_check v1 v2 [] h
  obtain ⟨r1, e1, s1⟩ := (C09T.C09_checked_case v1 c1).2.2.2.1
  obtain ⟨r2, e2, s2⟩ := (C09T.C09_checked_case v2 c2).2.2.2.1
  have : r1 = r2 := bool_eq_of_iff s1 (s2.trans (cyclicD_congr sg.sameAdj).symm)
  subst this
  exact ⟨r1, e1, e2⟩

/-- **kosaraju_scc on every compared pair**: both model runs answer, each answer is a correct answer for BOTH
graphs, and the two answers are the same partition -/
theorem C07_kosaraju_checked (v1 v2 : View) (h : C07.c09B v1 v2 [] = true) :
    ∃ comps1 comps2, kosaraju v1 = some comps1 ∧ kosaraju v2 = some comps2 ∧
      SccSpec v2.g comps1 ∧ SccSpec v1.g comps2 ∧
      ∀ x y, (∃ c ∈ comps1, x ∈ c ∧ y ∈ c) ↔ (∃ c ∈ comps2, x ∈ c ∧ y ∈ c) := by
  obtain ⟨c1, c2, sg, _, _⟩ := C07_c09_pair_check v1 v2 [] h
  obtain ⟨k1, e1, S1⟩ := (C09T.C09_checked_case v1 c1).1
  obtain ⟨k2, e2, S2⟩ := (C09T.C09_checked_case v2 c2).1
  refine ⟨k1, k2, e1, e2, sccSpec_congr sg.sameNodes sg.sameAdj S1,
    sccSpec_congr sg.symm.sameNodes sg.symm.sameAdj S2, fun x y => ?_⟩
  rw [C09P.part_same_iff (C09P.SccSpec.toPart S1), C09P.part_same_iff (C09P.SccSpec.toPart S2),
    sg.sameNodes x, sc_congr sg.sameAdj]

/-- non-vacuity: the check holds on two real encodings of one abstract graph (transcribed from a run of the harness) -/
example : C07.c09B exD1.v exD3.v [] = true := by decide +kernel

/-- **tarjan_scc on every compared pair** (fresh `TarjanScc`) -/
theorem C07_tarjan_checked (v1 v2 : View) (h : C07.c09B v1 v2 [] = true) :
    ∃ t1 t2, tjRun v1 {} = some t1 ∧ tjRun v2 {} = some t2 ∧
      SccSpec v2.g t1.out ∧ SccSpec v1.g t2.out ∧
      ∀ x y, (∃ c ∈ t1.out, x ∈ c ∧ y ∈ c) ↔ (∃ c ∈ t2.out, x ∈ c ∧ y ∈ c) := by
  obtain ⟨c1, c2, sg, _, _⟩ := C07_c09_pair_check v1 v2 [] h
  obtain ⟨t1, _, e1, _, ⟨S1, _⟩, _⟩ := (C09T.C09_checked_case v1 c1).2.1
  obtain ⟨t2, _, e2, _, ⟨S2, _⟩, _⟩ := (C09T.C09_checked_case v2 c2).2.1
  refine ⟨t1, t2, e1, e2, sccSpec_congr sg.sameNodes sg.sameAdj S1,
    sccSpec_congr sg.symm.sameNodes sg.symm.sameAdj S2, fun x y => ?_⟩
  rw [C09P.part_same_iff (C09P.SccSpec.toPart S1), C09P.part_same_iff (C09P.SccSpec.toPart S2),
    sg.sameNodes x, sc_congr sg.sameAdj]

/-- **toposort on every compared pair**: both model runs answer; both `Ok` — with orders of the same length, each a
topological order of both graphs — or both `Err(Cycle)` -/
theorem C07_toposort_checked (v1 v2 : View) (h : C07.c09B v1 v2 [] = true) :
    (∃ o1 o2, toposort v1 = some (.ok o1) ∧ toposort v2 = some (.ok o2) ∧ TopoOrder v2.g o1 ∧ TopoOrder v1.g o2 ∧
      o1.length = o2.length) ∨
    (∃ x1 x2, toposort v1 = some (.cycle x1) ∧ toposort v2 = some (.cycle x2) ∧ Reach1 v1.g x1 x1 ∧ Reach1 v2.g x2 x2) := by
  obtain ⟨c1, c2, sg, _, _⟩ := C07_c09_pair_check v1 v2 [] h
  obtain ⟨_, a1, b1⟩ := (C09T.C09_checked_case v1 c1).2.2.2.2.2.1
  obtain ⟨_, a2, b2⟩ := (C09T.C09_checked_case v2 c2).2.2.2.2.2.1
  by_cases hc : CyclicD v1.g
  · obtain ⟨x1, e1, r1⟩ := b1 hc
    obtain ⟨x2, e2, r2⟩ := b2 ((cyclicD_congr sg.sameAdj).mp hc)
    exact Or.inr ⟨x1, x2, e1, e2, r1, r2⟩
  · obtain ⟨o1, e1, t1⟩ := a1 hc
    obtain ⟨o2, e2, t2⟩ := a2 (fun h' => hc ((cyclicD_congr sg.sameAdj).mpr h'))
    have t12 := topoOrder_congr sg.sameNodes sg.sameAdj t1
    have t21 := topoOrder_congr sg.symm.sameNodes sg.symm.sameAdj t2
    refine Or.inl ⟨o1, o2, e1, e2, t12, t21, ?_⟩
    exact ((List.perm_ext_iff_of_nodup t1.nodup t21.nodup).mpr fun x => (t1.cover x).trans (t21.cover x).symm).length_eq

/-- **connected_components on every compared pair** (`ixPairs v er`: the pairs the function reads through
`to_index`): whenever the two model runs answer, they answer the same count — the number of weakly connected
components of either abstract graph.  (`none` = a union–find access out of range, excluded for the model by
`C19`; not re-proved here.) -/
theorem C07_connected_components_checked (e1 e2 : C07.EV) (h : C07.ccB e1 e2 = true) (k1 k2 : Nat)
    (r1 : connectedComponents e1.v.nb (C09T.ixPairs e1.v e1.pairs) = some k1)
    (r2 : connectedComponents e2.v.nb (C09T.ixPairs e2.v e2.pairs) = some k2) :
    k1 = k2 ∧ IsWccCount e1.v.g k1 ∧ IsWccCount e2.v.g k1 := by
  simp only [C07.ccB, Bool.and_eq_true] at h
  obtain ⟨⟨⟨⟨a, b⟩, c⟩, d⟩, e⟩ := h
  obtain ⟨c1, c2, sg, _, _⟩ := C07_c09_pair_check e1.v e2.v [] a
  have K1 := (C09T.C09_checked_union_find e1.v c1 e1.pairs).1 b d k1 r1
  have K2 := (C09T.C09_checked_union_find e2.v c2 e2.pairs).1 c e k2 r2
  have K12 := isWccCount_congr sg.sameNodes sg.sameAdj K1
  exact ⟨C09T.C09_wcc_count_unique _ _ _ K12 K2, K1, K12⟩

/-- non-vacuity: the check holds on two real encodings of one abstract graph (transcribed from a run of the harness) -/
example : C07.ccB exD1 exD3 = true := by decide +kernel

/-- **is_cyclic_undirected on every compared pair** -/
theorem C07_cyclic_undirected_checked (e1 e2 : C07.EV) (h : C07.cycuB e1 e2 = true) (b1 b2 : Bool)
    (r1 : cyclicUndirected e1.v.nb (C09T.ixPairs e1.v e1.pairs) (UF.new 0 e1.v.nb) = some b1)
    (r2 : cyclicUndirected e2.v.nb (C09T.ixPairs e2.v e2.pairs) (UF.new 0 e2.v.nb) = some b2) :
    b1 = b2 ∧ (b1 = true ↔ CyclicU e1.v.g) := by
  simp only [C07.cycuB, Bool.and_eq_true] at h
  obtain ⟨⟨a, b⟩, c⟩ := h
  obtain ⟨c1, c2, sg, _, _⟩ := C07_c09_pair_check e1.v e2.v [] a
  have K1 := (C09T.C09_checked_union_find e1.v c1 e1.pairs).2 b b1 r1
  have K2 := (C09T.C09_checked_union_find e2.v c2 e2.pairs).2 c b2 r2
  have hp : e1.v.g.edges.Perm e2.v.g.edges := by rw [sg.edges]
  exact ⟨bool_eq_of_iff K1 (K2.trans (cyclicU_perm_iff hp).symm), K1⟩
end C09

/-- non-vacuity: the check holds on two real encodings of one abstract graph (transcribed from a run of the harness) -/
example : C07.cycuB exD1 exD2 = true ∧ C07.cycuB exU1 exU3 = true := by decide +kernel

/-! ### C10 family -/
section C10
open PetgraphModel.C10P PetgraphModel.SP

theorem C07_dij_pair_check (v1 v2 : View) (s : Nat) (h : C07.dijB v1 v2 s = true) :
    (ViewArcs v1 ∧ NonNeg v1.g) ∧ (ViewArcs v2 ∧ NonNeg v2.g) ∧ SameGraph v1.g v2.g ∧
    s ∈ v1.g.nodes ∧ s ∈ v2.g.nodes ∧ C10.viewOkB v1 = true ∧ C10.viewOkB v2 = true := by
  simp only [C07.dijB, Bool.and_eq_true] at h
  obtain ⟨⟨⟨⟨a, b⟩, c⟩, d⟩, e⟩ := h
  exact ⟨C10T.C10_view_check v1 a, C10T.C10_view_check v2 b, sameGraphB_sound c,
    C10T.C10_source_check v1 s d, C10T.C10_source_check v2 s e, a, b⟩

/-- **dijkstra on every compared pair** (any goal, any two min-heap tie orders): both model runs answer, and the maps
agree as in `C07_dijkstra_encoding_independent` -/
theorem C07_dijkstra_checked (v1 v2 : View) (s : Nat) (h : C07.dijB v1 v2 s = true)
    (pop1 pop2 : Pop) (hp1 : IsMinPop pop1) (hp2 : IsMinPop pop2) (goal : Option Nat) :
    ∃ m1 m2, SP.dijkstra pop1 v1 s goal = some m1 ∧ SP.dijkstra pop2 v2 s goal = some m2 ∧
      (goal = none → ∀ x, amGet m1 x = amGet m2 x) ∧ (∀ t, goal = some t → amGet m1 t = amGet m2 t) := by
  obtain ⟨⟨a1, w1⟩, ⟨a2, _⟩, sg, _⟩ := C07_dij_pair_check v1 v2 s h
  exact C07_dijkstra_encoding_independent_total pop1 pop2 hp1 hp2 v1 v2 a1 a2 w1 sg.sameArcs s goal

/-- non-vacuity: the check holds on two real encodings of one abstract graph (transcribed from a run of the harness) -/
example : C07.dijB exD1.v exD2.v 3 = true := by decide +kernel

/-- **astar on every compared pair** (goal = one node `t`, the zero heuristic the harness passes — or any two
admissible heuristics —, fuel at least `astarBound`): both `None`, or both `Some` with the same cost -/
theorem C07_astar_checked (v1 v2 : View) (s : Nat) (h : C07.dijB v1 v2 s = true)
    (pop1 pop2 : Pop) (hp1 : IsMinPop pop1) (hp2 : IsMinPop pop2) (goal : Nat → Bool) (h1 h2 : Nat → Int)
    (ha1 : Admissible v1.g goal h1) (ha2 : Admissible v2.g goal h2) (f1 f2 : Nat)
    (hf1 : astarBound v1.g s ≤ f1) (hf2 : astarBound v2.g s ≤ f2) :
    (SP.astar pop1 v1 s goal h1 f1 = .notFound ∧ SP.astar pop2 v2 s goal h2 f2 = .notFound) ∨
    ∃ c p1 p2, SP.astar pop1 v1 s goal h1 f1 = .found c p1 ∧ SP.astar pop2 v2 s goal h2 f2 = .found c p2 := by
  obtain ⟨⟨a1, w1⟩, ⟨a2, w2⟩, sg, _⟩ := C07_dij_pair_check v1 v2 s h
  have R := C07_astar_encoding_independent pop1 pop2 hp1 hp2 v1 v2 a1 a2 w1 sg.sameArcs s goal h1 h2 ha1 ha2 f1 f2 hf1 hf2
  have A1 := astar_cost_spec pop1 hp1 v1 a1 w1 s goal h1 ha1 f1 hf1
  have A2 := astar_cost_spec pop2 hp2 v2 a2 w2 s goal h2 ha2 f2 hf2
  rcases A1 with ⟨e1, _⟩ | ⟨c1, p1, e1, _⟩
  · exact Or.inl ⟨e1, R.1.mp e1⟩
  · rcases A2 with ⟨e2, _⟩ | ⟨c2, p2, e2, _⟩
    · have := R.1.mpr e2; rw [e1] at this; cases this
    · have hc := R.2 c1 p1 c2 p2 e1 e2
      subst hc
      exact Or.inr ⟨c1, p1, p2, e1, e2⟩

/-- **k_shortest_path on every compared pair** (no goal, `k ≥ 1`): both model runs answer with the same map -/
theorem C07_kshortest_checked (v1 v2 : View) (s k : Nat) (h : C07.kspB v1 v2 s k = true)
    (pop1 pop2 : Pop) (hp1 : IsMinPop pop1) (hp2 : IsMinPop pop2) :
    ∃ m1 m2, kShortestPath pop1 v1 s none k = .done m1 ∧ kShortestPath pop2 v2 s none k = .done m2 ∧
      ∀ x, amGet m1 x = amGet m2 x := by
  simp only [C07.kspB, Bool.and_eq_true, decide_eq_true_eq] at h
  obtain ⟨⟨⟨⟨⟨a, b⟩, c⟩, d⟩, e⟩, f⟩ := h
  obtain ⟨⟨_, w1⟩, _, sg, s1, s2, o1, o2⟩ := C07_dij_pair_check v1 v2 s a
  obtain ⟨i1, j1⟩ := C10T.C10_index_check v1 o1 d s s1
  obtain ⟨i2, j2⟩ := C10T.C10_index_check v2 o2 e s s2
  exact C07_kshortest_encoding_independent_total pop1 pop2 hp1 hp2 v1 v2
    (C10T.C10_view_check_multiset v1 o1 b) (C10T.C10_view_check_multiset v2 o2 c) w1 sg.arcsPerm s k f i1 j1 i2 j2
end C10

/-- non-vacuity: the check holds on two real encodings of one abstract graph (transcribed from a run of the harness) -/
example : C07.kspB exD1.v exD3.v 3 2 = true ∧ C07.kspB exU1.v exU2.v 3 3 = true := by decide +kernel

/-! ### C11 family (cost type `i64`, the type of the harness's weights) -/
section C11
open PetgraphModel.C11M PetgraphModel.C11MP PetgraphModel.C11P

/-- **spfa on every compared pair**: neither model run exhausts its fuel; both report `NegativeCycle`, or both
answer `Ok` with the same distance at every node -/
theorem C07_spfa_checked (v1 v2 : View) (s : Nat) (h : C07.spfaB v1 v2 s = true) :
    (spfa Meas.i64 v1 s = some none ∧ spfa Meas.i64 v2 s = some none) ∨
    ∃ st1 st2, spfa Meas.i64 v1 s = some (some st1) ∧ spfa Meas.i64 v2 s = some (some st2) ∧
      ∀ x, tget st1.d x = tget st2.d x := by
  simp only [C07.spfaB, C07.c11ViewB, Bool.and_eq_true] at h
  obtain ⟨⟨⟨⟨⟨⟨⟨⟨⟨a1, b1⟩, ⟨a2, b2⟩⟩, c⟩, d1⟩, d2⟩, e1⟩, e2⟩, f1⟩, f2⟩ := h
  have sg := sameGraphB_sound c
  obtain ⟨n1, i1, o1⟩ := C11T.C11_spfa_checked Meas.i64 v1 s a1 b1 d1 e1 f1
  obtain ⟨n2, i2, o2⟩ := C11T.C11_spfa_checked Meas.i64 v2 s a2 b2 d2 e2 f2
  have hneg := negCycleReachable_congr sg.sameArcs s
  cases r1 : spfa Meas.i64 v1 s with
  | none => exact absurd r1 n1
  | some q1 =>
    cases r2 : spfa Meas.i64 v2 s with
    | none => exact absurd r2 n2
    | some q2 =>
      cases q1 with
      | none =>
        have : spfa Meas.i64 v2 s = some none := i2.mpr (hneg.mp (i1.mp r1))
        exact Or.inl ⟨rfl, by rw [← r2, this]⟩
      | some st1 =>
        cases q2 with
        | none =>
          have : spfa Meas.i64 v1 s = some none := i1.mpr (hneg.mpr (i2.mp r2))
          rw [r1] at this; cases this
        | some st2 =>
          refine Or.inr ⟨st1, st2, rfl, rfl, fun x => ?_⟩
          obtain ⟨p1, q1, _⟩ := o1 st1 r1
          obtain ⟨p2, q2, _⟩ := o2 st2 r2
          have E1 := exact_of_sound_total (get := fun x => tget st1.d x) (fun x y hx => (p1 x y hx).1) q1
          have E2 := exact_of_sound_total (get := fun x => tget st2.d x) (fun x y hx => (p2 x y hx).1) q2
          exact opt_eq_of_spec (fun d => E1 x d) (fun d => (E2 x d).trans (isShortest_congr sg.sameArcs).symm)

/-- non-vacuity: the check holds on two real encodings of one abstract graph (transcribed from a run of the harness) -/
example : C07.spfaB exD1.v exD2.v 3 = true ∧ C07.spfaB exU1.v exU3.v 0 = true := by decide +kernel

/-- **floyd_warshall on every compared pair**: both model runs report `NegativeCycle`, or both answer `Ok` with the
same entry for every pair of nodes -/
theorem C07_floyd_warshall_checked (v1 v2 : View) (h : C07.floydB v1 v2 = true) :
    (floydWarshall Meas.i64 v1 = none ∧ floydWarshall Meas.i64 v2 = none) ∨
    ∃ st1 st2, floydWarshall Meas.i64 v1 = some st1 ∧ floydWarshall Meas.i64 v2 = some st2 ∧
      ∀ i ∈ v1.g.nodes, ∀ j, tget st1.d (i, j) = tget st2.d (i, j) := by
  simp only [C07.floydB, Bool.and_eq_true] at h
  obtain ⟨⟨⟨⟨a1, a2⟩, c⟩, f1⟩, f2⟩ := h
  have sg := sameGraphB_sound c
  obtain ⟨i1, o1⟩ := C11T.C11_floyd_checked Meas.i64 v1 a1 f1
  obtain ⟨i2, o2⟩ := C11T.C11_floyd_checked Meas.i64 v2 a2 f2
  have hneg := negCycle_congr sg.sameArcs
  cases r1 : floydWarshall Meas.i64 v1 with
  | none => exact Or.inl ⟨rfl, i2.mpr (hneg.mp (i1.mp r1))⟩
  | some st1 =>
    cases r2 : floydWarshall Meas.i64 v2 with
    | none => have := i1.mpr (hneg.mpr (i2.mp r2)); rw [r1] at this; cases this
    | some st2 =>
      refine Or.inr ⟨st1, st2, rfl, rfl, fun i hi j => ?_⟩
      obtain ⟨p1, q1, _⟩ := o1 st1 r1 i hi
      obtain ⟨p2, q2, _⟩ := o2 st2 r2 i (sg.sameNodes i |>.mp hi)
      have E1 := exact_of_sound_total (get := fun j => tget st1.d (i, j)) p1 q1
      have E2 := exact_of_sound_total (get := fun j => tget st2.d (i, j)) p2 q2
      exact opt_eq_of_spec (fun d => E1 j d) (fun d => (E2 j d).trans (isShortest_congr sg.sameArcs).symm)
end C11

/-- non-vacuity: the check holds on two real encodings of one abstract graph (transcribed from a run of the harness) -/
example : C07.floydB exD1.v exD3.v = true := by decide +kernel

/-! ### C12 — min_spanning_tree -/
section C12
open PetgraphModel.MST PetgraphModel.MstModel

/-- **min_spanning_tree on every compared pair**: both model runs emit; the node streams are the two node lists
(equally long), and the two forests have the same number of edges and the same total weight -/
theorem C07_kruskal_checked (e1 e2 : C07.EV) (h : C07.mstB e1 e2 = true) :
    ∃ es1 es2, kruskal e1.v e1.er = .ok e1.v.g.nodes es1 ∧ kruskal e2.v e2.er = .ok e2.v.g.nodes es2 ∧
      e1.v.g.nodes.length = e2.v.g.nodes.length ∧
      es1.length = es2.length ∧ (es1.map (·.w)).sum = (es2.map (·.w)).sum := by
  simp only [C07.mstB, Bool.and_eq_true, Option.isNone_iff_eq_none] at h
  obtain ⟨⟨⟨⟨a1, a2⟩, c⟩, b1⟩, b2⟩ := h
  have sg := sameGraphB_sound c
  have o1 := (C12T.C12_view_check e1.v).mp a1
  have o2 := (C12T.C12_view_check e2.v).mp a2
  obtain ⟨w1, k1, _⟩ := (C12T.C12_driver_checks_sound e1.v e1.er).1 o1
  obtain ⟨w2, k2, _⟩ := (C12T.C12_driver_checks_sound e2.v e2.er).1 o2
  have r1 := (C12T.C12_driver_checks_sound e1.v e1.er).2 b1
  have r2 := (C12T.C12_driver_checks_sound e2.v e2.er).2 b2
  obtain ⟨A1, run1, _⟩ := (C12T.C12_accepted_case e1.v e1.er o1 b1).1
  obtain ⟨A2, run2, _⟩ := (C12T.C12_accepted_case e2.v e2.er o2 b2).1
  exact ⟨_, _, run1, run2, sg.length,
    C07_kruskal_encoding_independent e1.v e2.v k1 k2 w1 w2 e1.er e2.er r1 r2 sg.sameUEdges _ _ _ _ run1 run2⟩
end C12

/-- non-vacuity: the check holds on two real encodings of one abstract graph (transcribed from a run of the harness) -/
example : C07.mstB exD1 exD2 = true ∧ C07.mstB exU1 exU2 = true := by decide +kernel

/-! ### C15 — greedy_matching, maximum_matching, ford_fulkerson -/
section C15
open PetgraphModel.C15 PetgraphModel.C15M PetgraphModel.C15P PetgraphModel.C07W3

theorem C07_match_view_check (v : View) (h : C07.matchViewB v = true) : IxOk v ∧ ViewSound v ∧ v.g.WellFormed := by
  simp only [C07.matchViewB, Bool.and_eq_true] at h
  exact C15T.C15_view_checks_sound v h.1.1 h.1.2 h.2

/-- **greedy_matching on every compared pair**: neither model run faults, each result is a matching of BOTH graphs
(the harness prints exactly this validity), and the two maxima coincide -/
theorem C07_greedy_matching_checked (v1 v2 : View) (h : C07.greedyB v1 v2 = true) :
    let M1 := pairsOf (mateTable v1 (greedyInner v1))
    let M2 := pairsOf (mateTable v2 (greedyInner v2))
    (greedyInner v1).fault = false ∧ (greedyInner v2).fault = false ∧
    IsMatching v1.g M1 ∧ IsMatching v2.g M2 ∧ IsMatching v2.g M1 ∧ IsMatching v1.g M2 ∧
    maxMatchingSize v1.g = maxMatchingSize v2.g := by
  simp only [C07.greedyB, Bool.and_eq_true] at h
  obtain ⟨⟨a, b⟩, c⟩ := h
  obtain ⟨i1, s1, w1⟩ := C07_match_view_check v1 a
  obtain ⟨i2, s2, w2⟩ := C07_match_view_check v2 b
  exact C07_greedy_matching_encoding_independent v1 v2 i1 i2 w1 w2 s1 s2 (sameGraphB_sound c).sameJoined

/-- non-vacuity: the check holds on two real encodings of one abstract graph (transcribed from a run of the harness) -/
example : C07.greedyB exU1.v exU2.v = true := by decide +kernel

/-- **maximum_matching on every compared pair** (undirected storage; directed storage is the open finding D25):
neither model run faults, both results are MAXIMUM matchings, hence of the same size — for any two ways (`mode`) of
comparing edge ids -/
theorem C07_maximum_matching_checked (v1 v2 : View) (h : C07.maxMatchB v1 v2 = true) (mode1 mode2 : Nat) :
    (maximumMatching v1 mode1).fault = false ∧ (maximumMatching v2 mode2).fault = false ∧
    IsMaximumMatching v1.g (pairsOf (mateTable v1 (maximumMatching v1 mode1))) ∧
    IsMaximumMatching v2.g (pairsOf (mateTable v2 (maximumMatching v2 mode2))) ∧
    (maximumMatching v1 mode1).len = (maximumMatching v2 mode2).len := by
  simp only [C07.maxMatchB, C07.maxMatchViewB, Bool.and_eq_true, Bool.not_eq_true'] at h
  obtain ⟨⟨⟨⟨⟨⟨a1, b1⟩, c1⟩, d1⟩, e1⟩, ⟨⟨⟨⟨a2, b2⟩, c2⟩, d2⟩, e2⟩⟩, c⟩ := h
  rw [viewExactB_eq] at c1 c2
  rw [vacOkB_eq] at d1 d2
  obtain ⟨f1, m1, l1⟩ := C15T.C15_maximum_maximum_checked v1 mode1 a1 b1 c1 d1 e1
  obtain ⟨f2, m2, l2⟩ := C15T.C15_maximum_maximum_checked v2 mode2 a2 b2 c2 d2 e2
  exact ⟨f1, f2, m1, m2, by rw [l1, l2]; exact maxMatchingSize_congr (sameGraphB_sound c).sameJoined⟩

/-- non-vacuity: the check holds on two real encodings of one abstract graph (transcribed from a run of the harness) -/
example : C07.maxMatchB exU1.v exU2.v = true := by decide +kernel

/-- **ford_fulkerson on every compared pair** (`s ≠ t`, non-negative capacities): neither model run faults and the
two maximum-flow values coincide -/
theorem C07_ford_fulkerson_checked (v1 v2 : View) (s t : Nat) (h : C07.flowB v1 v2 s t = true) :
    (C15F.fordFulkerson v1 s t).fault = false ∧ (C15F.fordFulkerson v2 s t).fault = false ∧
    (C15F.fordFulkerson v1 s t).maxFlow = (C15F.fordFulkerson v2 s t).maxFlow := by
  simp only [C07.flowB, C07.flowViewOkB, Bool.and_eq_true, bne_iff_ne] at h
  obtain ⟨⟨⟨⟨⟨a1, b1⟩, c1⟩, ⟨⟨a2, b2⟩, c2⟩⟩, c⟩, hne⟩ := h
  obtain ⟨x1, y1, z1⟩ := C15T.C15_flow_view_checks_sound v1 a1 b1 c1
  obtain ⟨x2, y2, z2⟩ := C15T.C15_flow_view_checks_sound v2 a2 b2 c2
  exact ⟨(C15T.C15_flow_feasible v1 x1 y1 z1 s t hne).1, (C15T.C15_flow_feasible v2 x2 y2 z2 s t hne).1,
    C07_ford_fulkerson_encoding_independent v1 v2 x1 x2 y1 y2 z1 z2 (sameGraphB_sound c).sameCaps s t hne⟩
end C15

/-- non-vacuity: the check holds on two real encodings of one abstract graph (transcribed from a run of the harness) -/
example : C07.flowB exD1.v exD2.v 3 2 = true := by decide +kernel

/-! ### C16 — dominators::simple_fast, articulation_points -/
section C16
open PetgraphModel.C16S PetgraphModel.C16M PetgraphModel.C16P

/-- **dominators::simple_fast on every compared pair**: both model runs succeed and answer every
`immediate_dominator` query identically -/
theorem C07_simple_fast_checked (v1 v2 : View) (r : Nat) (h : C07.domB v1 v2 r = true) :
    ∃ d1 d2, simpleFast v1 r = .ok d1 ∧ simpleFast v2 r = .ok d2 ∧
      (∀ b, d1.immediateDominator b = d2.immediateDominator b) ∧
      (∀ b, d1.dominators b = none ↔ d2.dominators b = none) ∧
      (∀ b l1 l2, d1.dominators b = some l1 → d2.dominators b = some l2 → l1.Perm l2) := by
  simp only [C07.domB, Bool.and_eq_true] at h
  obtain ⟨⟨a, b⟩, c⟩ := h
  obtain ⟨hv1, hb1, hr1, hw1⟩ := C16T.C16_sf_scope_check v1 r a
  obtain ⟨hv2, hb2, hr2, hw2⟩ := C16T.C16_sf_scope_check v2 r b
  exact C07_simple_fast_encoding_independent v1 v2 hv1 hv2 hb1 hb2 r hr1 hr2 hw1 hw2 (sameGraphB_sound c).sameAdj

/-- non-vacuity: the check holds on two real encodings of one abstract graph (transcribed from a run of the harness) -/
example : C07.domB exD1.v exD3.v 3 = true := by decide +kernel

/-- **articulation_points on every compared pair**: both model runs succeed with rearrangements of the same list -/
theorem C07_articulation_checked (v1 v2 : View) (h : C07.apB v1 v2 = true) :
    ∃ l1 l2, articulationPoints v1 = .ok l1 ∧ articulationPoints v2 = .ok l2 ∧ l1.Perm l2 := by
  simp only [C07.apB, Bool.and_eq_true] at h
  obtain ⟨⟨a, b⟩, c⟩ := h
  obtain ⟨hv1, hb1, hu1, hw1, hi1⟩ := C16T.C16_ap_scope_check v1 a
  obtain ⟨hv2, hb2, hu2, hw2, hi2⟩ := C16T.C16_ap_scope_check v2 b
  have sg := sameGraphB_sound c
  exact C07_articulation_encoding_independent v1 v2 hv1 hv2 hb1 hb2 hu1 hu2 hw1 hw2 hi1 hi2 sg.sameNodes sg.sameAdj
end C16

/-- non-vacuity: the check holds on two real encodings of one abstract graph (transcribed from a run of the harness) -/
example : C07.apB exU1.v exU2.v = true := by decide +kernel

/-! ### C20 — all_simple_paths, greedy_feedback_arc_set, dsatur_coloring, maximal_cliques, page_rank -/
section C20
open PetgraphModel.C20

theorem C07_endpoints_check (g : MGraph) (h : C20.endpointsB g = true) : EndpointsOk g := by
  simpa [C20.endpointsB] using h

/-- **all_simple_paths on every compared pair** — any `from` among the nodes, any `to` (also `to = from`), all bounds,
directed or undirected storage: the model is a function of the successor lists and of `node_count`, which the two
views share, so the two runs are the SAME computation; with the fuel of `C20_paths_model_total` they answer, with
the same list of paths (even in the same order). -/
theorem C07_all_simple_paths_checked (v1 v2 : View) (a : Nat) (h : C07.pathsB v1 v2 a = true) (b lo : Nat)
    (hi : Option Nat) (fuel : Nat) (hf : Paths.fuelBound v1.g ≤ fuel) :
    ∃ out, Paths.allSimplePaths v1.g.succ v1.g.nodes.length a b lo hi fuel = some out ∧
      Paths.allSimplePaths v2.g.succ v2.g.nodes.length a b lo hi fuel = some out := by
  simp only [C07.pathsB, Bool.and_eq_true, List.contains_eq_mem, decide_eq_true_eq] at h
  obtain ⟨⟨⟨⟨e1, _⟩, n1⟩, _⟩, c⟩ := h
  have sg := sameGraphB_sound c
  have ht := C20T.C20_paths_model_total v1.g (C07_endpoints_check _ e1) v1.g.nodes.length a b lo hi n1 fuel hf
  obtain ⟨out, ho⟩ := Option.isSome_iff_exists.mp ht
  exact ⟨out, ho, by rw [← sg.succ, ← sg.length]; exact ho⟩

/-- non-vacuity: the check holds on two real encodings of one abstract graph (transcribed from a run of the harness) -/
example : C07.pathsB exD1.v exD2.v 3 = true ∧ C07.pathsB exU1.v exU3.v 1 = true := by decide +kernel

/-- **greedy_feedback_arc_set on every compared pair** (`eorder_i` = the `edge_references()` order of encoding `i`):
each model answer is a feedback arc set of BOTH abstract graphs — removal leaves no cycle — and contains every
self-loop.  (The two answers need not be equal: the bucket order follows the edge order.) -/
theorem C07_feedback_arc_set_checked (e1 e2 : C07.EV) (h : C07.fasB e1 e2 = true) :
    let F1 := Fas.feedbackArcSet ((fasOrder e1.v.g e1.eorder).map fun e => (e.id, e.src, e.tgt))
    let F2 := Fas.feedbackArcSet ((fasOrder e2.v.g e2.eorder).map fun e => (e.id, e.src, e.tgt))
    (∀ x, ¬ Reach1 (removeEdges e1.v.g F1) x x) ∧ (∀ x, ¬ Reach1 (removeEdges e2.v.g F2) x x) ∧
    (∀ x, ¬ Reach1 (removeEdges e2.v.g F1) x x) ∧ (∀ x, ¬ Reach1 (removeEdges e1.v.g F2) x x) ∧
    (∀ e ∈ e1.v.g.edges, e.src = e.tgt → e.id ∈ F1 ∧ e.id ∈ F2) := by
  intro F1 F2
  simp only [C07.fasB, Bool.and_eq_true] at h
  obtain ⟨⟨a, b⟩, c⟩ := h
  have sg := sameGraphB_sound c
  obtain ⟨d1, l1⟩ := C20T.C20_fas_scope_check _ _ a
  obtain ⟨d2, l2⟩ := C20T.C20_fas_scope_check _ _ b
  have A1 := C20T.C20_fas_model_correct e1.v.g d1 _ l1
  have A2 := C20T.C20_fas_model_correct e2.v.g d2 _ l2
  have key : ∀ F, SameAdj (removeEdges e1.v.g F) (removeEdges e2.v.g F) := by
    intro F; rw [sg.eq]; exact fun _ _ => Iff.rfl
  refine ⟨A1.1, A2.1, fun x hx => A1.1 x ((reach1_congr (key F1)).mpr hx),
    fun x hx => A2.1 x ((reach1_congr (key F2)).mp hx), fun e he hl => ⟨A1.2 e (l1 e he) hl, ?_⟩⟩
  exact A2.2 e (l2 e (sg.edges ▸ he)) hl

/-- non-vacuity: the check holds on two real encodings of one abstract graph (transcribed from a run of the harness) -/
example : C07.fasB exD1 exD4 = true := by decide +kernel

theorem bipartite_congr {g1 g2 : MGraph} (sg : SameGraph g1 g2) : Bipartite g1 ↔ Bipartite g2 := by
  unfold Bipartite; rw [sg.edges]

theorem colouringOk_congr {g1 g2 : MGraph} (sg : SameGraph g1 g2) {col : List (Nat × Nat)} {k : Nat}
    (h : ColouringOk g1 col k) : ColouringOk g2 col k :=
  ⟨h.keysNodup, fun p hp => (sg.sameNodes _).mp (h.keysNodes p hp), fun a ha => h.total a ((sg.sameNodes a).mpr ha),
    fun e he => h.proper e (sg.edges ▸ he), h.below, h.allUsed⟩

/-- **dsatur_coloring on every compared pair** (goal 2: the answer is not unique — ties of the saturation heap —, so
"in what the property determines"): both model runs finish; each colouring is a proper colouring with colours
exactly `0 .. k−1` (`ColouringOk`) of BOTH abstract graphs; and on a bipartite graph both use at most two colours. -/
theorem C07_dsatur_checked (v1 v2 : View) (h : C07.dsaturB v1 v2 = true) :
    ∃ col1 k1 tr1 col2 k2 tr2, DsaturBin.run v1 = some (col1, k1, tr1) ∧ DsaturBin.run v2 = some (col2, k2, tr2) ∧
      (v1.g.nodes ≠ [] → ColouringOk v1.g col1 k1 ∧ ColouringOk v2.g col2 k2 ∧
        ColouringOk v2.g col1 k1 ∧ ColouringOk v1.g col2 k2) ∧
      (Bipartite v1.g ↔ Bipartite v2.g) ∧ (Bipartite v1.g → k1 ≤ 2 ∧ k2 ≤ 2) := by
  simp only [C07.dsaturB, C07.dsaturViewB, Bool.and_eq_true] at h
  obtain ⟨⟨⟨a1, b1⟩, ⟨a2, b2⟩⟩, c⟩ := h
  have sg := sameGraphB_sound c
  obtain ⟨d1, g1, n1, p1⟩ := C20T.C20_dsatur_scope_check v1 a1 b1
  obtain ⟨d2, g2, n2, p2⟩ := C20T.C20_dsatur_scope_check v2 a2 b2
  obtain ⟨col1, k1, tr1, _, r1, _, _, _, _, _, ok1, bi1⟩ := C20T.C20_dsatur_exact_mirror v1 d1 g1 n1 p1
  obtain ⟨col2, k2, tr2, _, r2, _, _, _, _, _, ok2, bi2⟩ := C20T.C20_dsatur_exact_mirror v2 d2 g2 n2 p2
  refine ⟨col1, k1, tr1, col2, k2, tr2, r1, r2, fun hne => ?_, bipartite_congr sg,
    fun hb => ⟨bi1 hb, bi2 ((bipartite_congr sg).mp hb)⟩⟩
  have hne2 : v2.g.nodes ≠ [] := fun h0 => hne (List.length_eq_zero_iff.mp (by rw [sg.length, h0]; rfl))
  exact ⟨ok1 hne, ok2 hne2, colouringOk_congr sg (ok1 hne), colouringOk_congr sg.symm (ok2 hne2)⟩

/-- non-vacuity: the check holds on two real encodings of one abstract graph (transcribed from a run of the harness) -/
example : C07.dsaturB exU1.v exU2.v = true := by decide +kernel

/-- **maximal_cliques, encoding independence** (goal 2; the answer is a set of sets, returned in hash order): two
presentations — any node order, any edge insertion order — of the same undirected graph, ANY two valid pivot /
exploration oracles: written in one node order, the two model answers are rearrangements of each other (the same
family of node sets, each once); in particular equally many cliques; and "maximal clique" means the same in both. -/
theorem C07_maximal_cliques_encoding_independent (g1 g2 : MGraph)
    (hd1 : g1.directed = false) (hd2 : g2.directed = false) (hn1 : g1.nodes.Nodup) (hn2 : g2.nodes.Nodup)
    (hn : SameNodes g1 g2) (ha : SameAdj g1 g2) (o1 o2 : Cliques.Oracle) (ho1 : o1.Valid) (ho2 : o2.Valid)
    (f1 f2 : Nat) (hf1 : g1.nodes.length < f1) (hf2 : g2.nodes.length < f2) :
    let out1 := Cliques.maximalCliques g1 o1 f1
    let out2 := Cliques.maximalCliques g2 o2 f2
    (∀ c ∈ out1, c.Nodup ∧ ∀ x ∈ c, x ∈ g2.nodes) ∧ (∀ c ∈ out2, c.Nodup ∧ ∀ x ∈ c, x ∈ g2.nodes) ∧
    (out1.map (canon g2)).Perm (out2.map (canon g2)) ∧ out1.length = out2.length ∧
    (∀ S1 S2, (∀ x, x ∈ S1 ↔ x ∈ S2) → (IsMaxClique g1 S1 ↔ IsMaxClique g2 S2)) := by
  intro out1 out2
  obtain ⟨m1, nd1, ex1⟩ := C20T.C20_cliques_model_exact_undirected g1 hd1 hn1 o1 ho1 f1 hf1
  obtain ⟨m2, nd2, ex2⟩ := C20T.C20_cliques_model_exact_undirected g2 hd2 hn2 o2 ho2 f2 hf2
  have hp := cliques_families_perm hn ha nd1 nd2 ex1 ex2
  refine ⟨fun c hc => ⟨(m1 c hc).1, fun x hx => (hn x).mp ((m1 c hc).2 x hx)⟩, m2, hp, ?_,
    fun S1 S2 hS => isMaxClique_congr hn ha hS⟩
  simpa using hp.length_eq

/-- `IsMaxClique` is carried along by an injective relabeling -/
theorem C07_maximal_clique_relabel (φ : Nat → Nat) (hφ : ∀ x y, φ x = φ y → x = y) (g : MGraph) (S : List Nat) :
    IsMaxClique (relabel φ g) (S.map φ) ↔ IsMaxClique g S := by
  have hadj : ∀ a b, (relabel φ g).Adj (φ a) (φ b) ↔ g.Adj a b := fun a b => by
    rw [relabel_eq, adj_relabel_iff]
    exact ⟨fun ⟨a', b', e1, e2, h⟩ => by rw [hφ _ _ e1, hφ _ _ e2]; exact h, fun h => ⟨a, b, rfl, rfl, h⟩⟩
  have hmem : ∀ x, φ x ∈ S.map φ ↔ x ∈ S := fun x =>
    ⟨fun h => by obtain ⟨y, hy, e⟩ := List.mem_map.mp h; rw [← hφ _ _ e]; exact hy, fun h => List.mem_map.mpr ⟨x, h, rfl⟩⟩
  have hnode : ∀ x, φ x ∈ (relabel φ g).nodes ↔ x ∈ g.nodes := fun x => by
    rw [relabel_eq]; exact mem_relabel_nodes g hφ
  constructor
  · rintro ⟨h1, h2, h3⟩
    refine ⟨fun a ha => (hnode a).mp (h1 _ ((hmem a).mpr ha)), ?_, ?_⟩
    · intro a ha b hb hab
      exact (hadj a b).mp (h2 _ ((hmem a).mpr ha) _ ((hmem b).mpr hb) (fun e => hab (hφ _ _ e)))
    · intro v hv hnot
      obtain ⟨a', ha', hna⟩ := h3 (φ v) ((hnode v).mpr hv) (fun h => hnot ((hmem v).mp h))
      obtain ⟨a, ha, rfl⟩ := List.mem_map.mp ha'
      exact ⟨a, ha, fun h => hna ((hadj v a).mpr h)⟩
  · rintro ⟨h1, h2, h3⟩
    refine ⟨?_, ?_, ?_⟩
    · intro a' ha'
      obtain ⟨a, ha, rfl⟩ := List.mem_map.mp ha'
      exact (hnode a).mpr (h1 a ha)
    · intro a' ha' b' hb' hab
      obtain ⟨a, ha, rfl⟩ := List.mem_map.mp ha'
      obtain ⟨b, hb, rfl⟩ := List.mem_map.mp hb'
      exact (hadj a b).mpr (h2 a ha b hb (fun e => hab (by rw [e])))
    · intro v' hv' hnot
      rw [relabel_eq] at hv'
      obtain ⟨v, hv, rfl⟩ := (mem_relabel_nodes_iff φ g).mp hv'
      obtain ⟨a, ha, hna⟩ := h3 v hv (fun h => hnot ((hmem v).mpr h))
      exact ⟨φ a, (hmem a).mpr ha, fun h => hna ((hadj v a).mp h)⟩

/-- **maximal_cliques on every compared pair** -/
theorem C07_maximal_cliques_checked (v1 v2 : View) (h : C07.cliquesB v1 v2 = true)
    (o1 o2 : Cliques.Oracle) (ho1 : o1.Valid) (ho2 : o2.Valid)
    (f1 f2 : Nat) (hf1 : v1.g.nodes.length < f1) (hf2 : v2.g.nodes.length < f2) :
    let out1 := Cliques.maximalCliques v1.g o1 f1
    let out2 := Cliques.maximalCliques v2.g o2 f2
    (∀ c ∈ out1, c.Nodup ∧ ∀ x ∈ c, x ∈ v2.g.nodes) ∧ (∀ c ∈ out2, c.Nodup ∧ ∀ x ∈ c, x ∈ v2.g.nodes) ∧
    (out1.map (canon v2.g)).Perm (out2.map (canon v2.g)) ∧ out1.length = out2.length := by
  simp only [C07.cliquesB, C07.cliquesViewB, Bool.and_eq_true, Bool.not_eq_true'] at h
  obtain ⟨⟨⟨d1, n1⟩, ⟨d2, n2⟩⟩, c⟩ := h
  have sg := sameGraphB_sound c
  have R := C07_maximal_cliques_encoding_independent v1.g v2.g d1 d2 (C20T.C20_cliques_scope_check _ n1)
    (C20T.C20_cliques_scope_check _ n2) sg.sameNodes sg.sameAdj o1 o2 ho1 ho2 f1 f2 hf1 hf2
  exact ⟨R.1, R.2.1, R.2.2.1, R.2.2.2.1⟩

/-- non-vacuity: the check holds on two real encodings of one abstract graph (transcribed from a run of the harness) -/
example : C07.cliquesB exU1.v exU3.v = true := by decide +kernel

/-- **page_rank, encoding independence** (the exact-rational model is a function of the abstract graph; its node LIST
only fixes the order of the output): on two presentations of the same graph — any two node orders — both runs are
undefined (zero normalising sum: `d = 0` on an edgeless graph, the open finding D22) or give every node the same rank. -/
theorem C07_pagerank_encoding_independent (g1 g2 : MGraph) (hd : g1.directed = g2.directed)
    (he : g1.edges = g2.edges) (hn : g1.nodes.Perm g2.nodes) (d : Rat) (k : Nat) :
    (PR.pageRank g1 d k = none ∧ PR.pageRank g2 d k = none) ∨
    ∃ r1 r2, PR.pageRank g1 d k = some r1 ∧ PR.pageRank g2 d k = some r2 ∧ ∀ x, PR.rk r1 x = PR.rk r2 x :=
  pageRank_sameGraph ⟨hd, he, hn⟩ d k

/-- **page_rank on every compared pair** (encodings without vacant indices — with vacancies the real function is the
open finding D12, see `isKnownException`): for a damping factor in `(0, 1]` both model runs are defined and give
every node the same rank -/
theorem C07_pagerank_checked (v1 v2 : View) (h : C07.pagerankB v1 v2 = true) (d : Rat) (h0 : 0 < d) (h1 : d ≤ 1)
    (k : Nat) :
    ∃ r1 r2, PR.pageRank v1.g d k = some r1 ∧ PR.pageRank v2.g d k = some r2 ∧ ∀ x, PR.rk r1 x = PR.rk r2 x := by
  simp only [C07.pagerankB, C07.pagerankViewB, Bool.and_eq_true, Bool.not_eq_true'] at h
  obtain ⟨⟨⟨⟨n1, e1⟩, z1⟩, _⟩, c⟩ := h
  have sg := sameGraphB_sound c
  have hne : v1.g.nodes ≠ [] := by
    intro h0; rw [h0] at z1; simp at z1
  have hnd : v1.g.nodes.Nodup := by simpa [C20.nodesNodupB] using n1
  have hdef := C20T.C20_pagerank_defined v1.g hne hnd (C07_endpoints_check _ e1) d h0 h1 k
  rcases pageRank_sameGraph sg d k with ⟨e, _⟩ | r
  · rw [e] at hdef; cases hdef
  · exact r
end C20

/-- non-vacuity: the check holds on two real encodings of one abstract graph (transcribed from a run of the harness) -/
example : C07.pagerankB exD1.v exD3.v = true := by decide +kernel

end W5Checks

section W5Steiner
open PetgraphModel.C20

/-- what `C20_steiner_model_spec` determines of an answer `(N, E)` of `steiner_tree` for the terminals `terms` in `g`:
inside the graph, all terminals, connected, only terminals as leaves (whether it is a TREE is the open finding D21) -/
def SteinerAnswer (g : MGraph) (terms N E : List Nat) : Prop :=
  (∀ x ∈ N, x ∈ g.nodes) ∧ (∀ t ∈ terms, t ∈ N) ∧
  ∃ es : List Edge, es.Sublist g.edges ∧ E = es.map (·.id) ∧ (∀ e ∈ es, e.src ∈ N ∧ e.tgt ∈ N) ∧
    Steiner.Connected (withEdges N es) ∧ (∀ x ∈ N, x ∉ terms → Steiner.single (Steiner.nbrs es x) = false)

theorem steinerAnswer_congr {g1 g2 : MGraph} (sg : SameGraph g1 g2) {terms N E : List Nat}
    (h : SteinerAnswer g1 terms N E) : SteinerAnswer g2 terms N E := by
  obtain ⟨a, b, es, c, d⟩ := h
  exact ⟨fun x hx => (sg.sameNodes x).mp (a x hx), b, es, sg.edges ▸ c, d⟩

/-- **steiner_tree, encoding independence** (goal 2; `steiner_tree` only accepts `UnGraph`, so the encodings differ in
insertion order and index width; the answer depends on the hash order — any two valid oracles — and is not unique):
on the function's domain (undirected, positive costs that fit, pairwise connected terminals) both model runs
answer, and each answer is a valid answer — inside the graph, containing every terminal, connected, with only
terminals as leaves — for BOTH presentations. -/
theorem C07_steiner_tree_encoding_independent (B1 B2 : C11M.Meas) (v1 v2 : View)
    (hwf1 : v1.g.WellFormed) (hwf2 : v2.g.WellFormed) (hv1 : C10P.ViewArcs v1) (hv2 : C10P.ViewArcs v2)
    (Wm : Int) (hWm : 0 ≤ Wm) (hW : ∀ e ∈ v1.g.edges, 0 < e.w ∧ e.w ≤ Wm)
    (hfit1 : C11W3.LinFit B1 v1.g Wm) (hfit2 : C11W3.LinFit B2 v2.g Wm)
    (hd : v1.g.directed = v2.g.directed) (he : v1.g.edges = v2.g.edges) (hn : v1.g.nodes.Perm v2.g.nodes)
    (terms : List Nat) (hterms : ∀ t ∈ terms, t ∈ v1.g.nodes) (hconn : ∀ a ∈ terms, ∀ b ∈ terms, Reach v1.g a b)
    (o1 o2 : Steiner.Oracle) (ho1 : o1.Valid) (ho2 : o2.Valid) :
    ∃ N1 E1 N2 E2, Steiner.steiner B1 v1 terms o1 = .ok N1 E1 ∧ Steiner.steiner B2 v2 terms o2 = .ok N2 E2 ∧
      SteinerAnswer v1.g terms N1 E1 ∧ SteinerAnswer v2.g terms N2 E2 ∧
      SteinerAnswer v2.g terms N1 E1 ∧ SteinerAnswer v1.g terms N2 E2 := by
  have sg : SameGraph v1.g v2.g := ⟨hd, he, hn⟩
  obtain ⟨N1, E1, r1, s1, t1, es1, x1⟩ :=
    C20T.C20_steiner_model_correct B1 v1 hwf1 hv1 Wm hWm hW hfit1 terms hterms hconn o1 ho1
  obtain ⟨N2, E2, r2, s2, t2, es2, x2⟩ :=
    C20T.C20_steiner_model_correct B2 v2 hwf2 hv2 Wm hWm (he ▸ hW) hfit2 terms
      (fun t ht => (sg.sameNodes t).mp (hterms t ht))
      (fun a ha b hb => (C07W2.reach_congr sg.sameAdj).mp (hconn a ha b hb)) o2 ho2
  have A1 : SteinerAnswer v1.g terms N1 E1 := ⟨fun x hx => s1.subset hx, t1, es1, x1⟩
  have A2 : SteinerAnswer v2.g terms N2 E2 := ⟨fun x hx => s2.subset hx, t2, es2, x2⟩
  exact ⟨N1, E1, N2, E2, r1, r2, A1, A2, steinerAnswer_congr sg A1, steinerAnswer_congr sg.symm A2⟩

end W5Steiner

section W5Iso
open PetgraphModel.C20

theorem canon_relabel (φ : Nat → Nat) (hφ : ∀ x y, φ x = φ y → x = y) (g : MGraph) (c : List Nat) :
    canon (relabel φ g) (c.map φ) = (canon g c).map φ := by
  unfold canon
  show (g.nodes.map φ).filter _ = _
  rw [List.filter_map]
  congr 1
  apply List.filter_congr
  intro x _
  simp only [Function.comp, List.contains_eq_mem, decide_eq_decide]
  exact ⟨fun h => by obtain ⟨y, hy, e⟩ := List.mem_map.mp h; rw [← hφ _ _ e]; exact hy,
    fun h => List.mem_map.mpr ⟨x, h, rfl⟩⟩

theorem map_inj_list {φ : Nat → Nat} (hφ : ∀ x y, φ x = φ y → x = y) {l1 l2 : List Nat} (h : l1.map φ = l2.map φ) :
    l1 = l2 := List.map_injective_iff.mpr (fun x y h => hφ x y h) h

/-- **maximal_cliques respects isomorphism**: the second graph presents the first renamed by an injective `φ`; the
first answer, renamed, is — as a family of node sets, each once — the second answer. -/
theorem C07_maximal_cliques_respects_iso (φ : Nat → Nat) (hφ : ∀ x y, φ x = φ y → x = y) (g1 g2 : MGraph)
    (hd1 : g1.directed = false) (hd2 : g2.directed = false) (hn1 : g1.nodes.Nodup) (hn2 : g2.nodes.Nodup)
    (hn : SameNodes (relabel φ g1) g2) (ha : SameAdj (relabel φ g1) g2)
    (o1 o2 : Cliques.Oracle) (ho1 : o1.Valid) (ho2 : o2.Valid)
    (f1 f2 : Nat) (hf1 : g1.nodes.length < f1) (hf2 : g2.nodes.length < f2) :
    let out1 := Cliques.maximalCliques g1 o1 f1
    let out2 := Cliques.maximalCliques g2 o2 f2
    ((out1.map (List.map φ)).map (canon g2)).Perm (out2.map (canon g2)) ∧ out1.length = out2.length := by
  intro out1 out2
  obtain ⟨_, nd1, ex1⟩ := C20T.C20_cliques_model_exact_undirected g1 hd1 hn1 o1 ho1 f1 hf1
  obtain ⟨_, nd2, ex2⟩ := C20T.C20_cliques_model_exact_undirected g2 hd2 hn2 o2 ho2 f2 hf2
  have e : (out1.map (List.map φ)).map (canon (relabel φ g1)) = (out1.map (canon g1)).map (List.map φ) := by
    rw [List.map_map, List.map_map]
    apply List.map_congr_left
    intro c _
    exact canon_relabel φ hφ g1 c
  have nd1' : ((out1.map (List.map φ)).map (canon (relabel φ g1))).Nodup := by
    rw [e]
    unfold List.Nodup
    rw [List.pairwise_map]
    exact nd1.imp fun hne h => hne (map_inj_list hφ h)
  have ex1' : ∀ S, S.Sublist (relabel φ g1).nodes →
      (S ∈ (out1.map (List.map φ)).map (canon (relabel φ g1)) ↔ IsMaxClique (relabel φ g1) S) := by
    intro S hS
    obtain ⟨S0, hS0, rfl⟩ := List.sublist_map_iff.mp (show S.Sublist (g1.nodes.map φ) from hS)
    rw [e, C07_maximal_clique_relabel φ hφ g1 S0, ← ex1 S0 hS0]
    exact ⟨fun h => by obtain ⟨T, hT, hTe⟩ := List.mem_map.mp h; rw [← map_inj_list hφ hTe]; exact hT,
      fun h => List.mem_map.mpr ⟨S0, h, rfl⟩⟩
  have hp := cliques_families_perm hn ha nd1' nd2 ex1' ex2
  refine ⟨hp, ?_⟩
  simpa using hp.length_eq

/-- the colour of a node in a colouring whose keys are renamed by an injective `φ` -/
theorem colourOf_map_key {φ : Nat → Nat} (hφ : ∀ x y, φ x = φ y → x = y) (col : List (Nat × Nat)) (a : Nat) :
    colourOf (col.map fun p => (φ p.1, p.2)) (φ a) = colourOf col a := by
  unfold colourOf
  induction col with
  | nil => rfl
  | cons p t ih =>
    obtain ⟨pk, pv⟩ := p
    by_cases h : a = pk
    · subst h; simp
    · have h1 : (a == pk) = false := by simpa using h
      have h2 : (φ a == φ pk) = false := by simpa using fun e => h (hφ _ _ e)
      simp only [List.map_cons, List.lookup_cons, h1, h2]
      exact ih

/-- **a proper colouring is carried along by an injective relabeling** (and by any re-presentation with the same
nodes and adjacency) -/
theorem C07_proper_colouring_relabel (φ : Nat → Nat) (hφ : ∀ x y, φ x = φ y → x = y) (g1 g2 : MGraph)
    (hn : SameNodes g2 (relabel φ g1)) (ha : SameAdj g2 (relabel φ g1))
    (col : List (Nat × Nat)) (k : Nat) (h : ColouringOk g1 col k) :
    ColouringOk g2 (col.map fun p => (φ p.1, p.2)) k := by
  have hkeys : (col.map fun p => (φ p.1, p.2)).map (·.1) = (col.map (·.1)).map φ := by
    rw [List.map_map, List.map_map]; rfl
  refine ⟨?_, ?_, ?_, ?_, ?_, ?_⟩
  · rw [hkeys]; exact nodup_map_inj hφ h.keysNodup
  · intro p hp
    obtain ⟨q, hq, rfl⟩ := List.mem_map.mp hp
    exact (hn _).mpr ((mem_relabel_nodes g1 hφ).mpr (h.keysNodes q hq))
  · intro a' ha'
    obtain ⟨a, haa, rfl⟩ := (mem_relabel_nodes_iff φ g1).mp ((hn a').mp ha')
    rw [colourOf_map_key hφ]; exact h.total a haa
  · intro e he hne
    have hadj : g2.Adj e.src e.tgt := ⟨e, he, Or.inl ⟨rfl, rfl⟩⟩
    obtain ⟨a, b, ea, eb, hab⟩ := (adj_relabel_iff φ g1).mp ((ha _ _).mp hadj)
    rw [ea, eb, colourOf_map_key hφ, colourOf_map_key hφ]
    have hne' : a ≠ b := fun h' => hne (by rw [ea, eb, h'])
    obtain ⟨e1, he1, hor⟩ := hab
    rcases hor with ⟨h1, h2⟩ | ⟨_, h1, h2⟩
    · rw [← h1, ← h2]; exact h.proper e1 he1 (by rw [h1, h2]; exact hne')
    · rw [← h1, ← h2]; exact (h.proper e1 he1 (by rw [h1, h2]; exact hne'.symm)).symm
  · intro p hp
    obtain ⟨q, hq, rfl⟩ := List.mem_map.mp hp
    exact h.below q hq
  · intro c hc
    obtain ⟨q, hq, hqc⟩ := h.allUsed c hc
    exact ⟨(φ q.1, q.2), List.mem_map.mpr ⟨q, hq, rfl⟩, hqc⟩

/-- bipartiteness (a 2-colouring of the edges' endpoints exists) is carried along by an injective relabeling -/
theorem bipartite_relabel (φ : Nat → Nat) (hφ : ∀ x y, φ x = φ y → x = y) (g : MGraph) :
    Bipartite (relabel φ g) ↔ Bipartite g := by
  constructor
  · rintro ⟨f, hf⟩
    refine ⟨fun x => f (φ x), fun e he => ?_⟩
    exact hf { e with src := φ e.src, tgt := φ e.tgt } ((mem_relabel_edges φ g).mpr ⟨e, he, rfl⟩)
  · rintro ⟨f, hf⟩
    classical
    refine ⟨fun y => if h : ∃ x, φ x = y then f h.choose else false, fun e' he' => ?_⟩
    obtain ⟨e, he, rfl⟩ := (mem_relabel_edges φ g).mp he'
    have k : ∀ x, (if h : ∃ x', φ x' = φ x then f h.choose else false) = f x := by
      intro x
      have hx : ∃ x', φ x' = φ x := ⟨x, rfl⟩
      rw [dif_pos hx, hφ _ _ hx.choose_spec]
    show (if h : ∃ x, φ x = φ e.src then f h.choose else false) ≠ (if h : ∃ x, φ x = φ e.tgt then f h.choose else false)
    rw [k, k]
    exact hf e he

theorem bipartite_iff_adj (g : MGraph) : Bipartite g ↔ ∃ f : Nat → Bool, ∀ a b, g.Adj a b → f a ≠ f b := by
  constructor
  · rintro ⟨f, hf⟩
    refine ⟨f, fun a b ⟨e, he, hor⟩ => ?_⟩
    rcases hor with ⟨h1, h2⟩ | ⟨_, h1, h2⟩
    · rw [← h1, ← h2]; exact hf e he
    · rw [← h1, ← h2]; exact (hf e he).symm
  · rintro ⟨f, hf⟩
    exact ⟨f, fun e he => hf _ _ ⟨e, he, Or.inl ⟨rfl, rfl⟩⟩⟩

theorem bipartite_congr_adj {g1 g2 : MGraph} (h : SameAdj g1 g2) : Bipartite g1 ↔ Bipartite g2 := by
  rw [bipartite_iff_adj, bipartite_iff_adj]
  exact ⟨fun ⟨f, hf⟩ => ⟨f, fun a b hab => hf a b ((h a b).mpr hab)⟩,
    fun ⟨f, hf⟩ => ⟨f, fun a b hab => hf a b ((h a b).mp hab)⟩⟩

/-- **dsatur_coloring respects isomorphism** (goal 2): the hypotheses of `C20_dsatur_exact_mirror` on two views, the
second presenting — same direction flag, same nodes and adjacency — the first graph renamed by an injective `φ`: both
model runs finish; each colouring is a proper colouring with colours `0..k−1` of its graph; the first one, carried
along by `φ`, is such a colouring of the SECOND graph; and on a bipartite graph both use at most two colours. -/
theorem C07_dsatur_respects_iso (φ : Nat → Nat) (hφ : ∀ x y, φ x = φ y → x = y) (v1 v2 : View)
    (hd1 : v1.g.directed = false) (hd2 : v2.g.directed = false) (hg1 : EndpointsOk v1.g) (hg2 : EndpointsOk v2.g)
    (hnd1 : v1.g.nodes.Nodup) (hnd2 : v2.g.nodes.Nodup)
    (hview1 : ∀ x ∈ v1.g.nodes, (v1.succ x).Perm (v1.g.succ x))
    (hview2 : ∀ x ∈ v2.g.nodes, (v2.succ x).Perm (v2.g.succ x))
    (hn : SameNodes v2.g (relabel φ v1.g)) (ha : SameAdj v2.g (relabel φ v1.g)) :
    ∃ col1 k1 tr1 col2 k2 tr2, DsaturBin.run v1 = some (col1, k1, tr1) ∧ DsaturBin.run v2 = some (col2, k2, tr2) ∧
      (v1.g.nodes ≠ [] → ColouringOk v1.g col1 k1 ∧ ColouringOk v2.g col2 k2 ∧
        ColouringOk v2.g (col1.map fun p => (φ p.1, p.2)) k1) ∧
      (Bipartite v1.g → k1 ≤ 2 ∧ k2 ≤ 2) := by
  obtain ⟨col1, k1, tr1, _, r1, _, _, _, _, _, ok1, bi1⟩ := C20T.C20_dsatur_exact_mirror v1 hd1 hg1 hnd1 hview1
  obtain ⟨col2, k2, tr2, _, r2, _, _, _, _, _, ok2, bi2⟩ := C20T.C20_dsatur_exact_mirror v2 hd2 hg2 hnd2 hview2
  refine ⟨col1, k1, tr1, col2, k2, tr2, r1, r2, fun hne => ?_,
    fun hbip => ⟨bi1 hbip, bi2 ((bipartite_congr_adj ha).mpr ((bipartite_relabel φ hφ v1.g).mpr hbip))⟩⟩
  have hne2 : v2.g.nodes ≠ [] := by
    intro h0
    obtain ⟨x, hx⟩ := List.exists_mem_of_ne_nil _ hne
    have := (hn (φ x)).mpr ((mem_relabel_nodes v1.g hφ).mpr hx)
    rw [h0] at this; cases this
  exact ⟨ok1 hne, ok2 hne2, C07_proper_colouring_relabel φ hφ v1.g v2.g hn ha col1 k1 (ok1 hne)⟩

end W5Iso

section W5Checks2
open PetgraphModel.C11M PetgraphModel.C11MP PetgraphModel.C11P PetgraphModel.C10P PetgraphModel.SP

/-- **bellman_ford on every compared pair**: both model runs report `NegativeCycle`, or both answer `Ok` with the same
distance at every node, each predecessor table being a shortest-path tree of BOTH graphs, with no entry at the same
nodes (the harness prints the distances and that defining property of the table) -/
theorem C07_bellman_ford_checked (v1 v2 : View) (s : Nat) (h : C07.bfB v1 v2 s = true) :
    (bellmanFord v1 s = none ∧ bellmanFord v2 s = none) ∨
    ∃ st1 st2, bellmanFord v1 s = some st1 ∧ bellmanFord v2 s = some st2 ∧
      (∀ x, tget st1.d x = tget st2.d x) ∧
      (∀ x y, tget st1.d x = some y → TreeWalk v1.g (tget st1.p) s x y ∧ TreeWalk v2.g (tget st1.p) s x y) ∧
      (∀ x y, tget st2.d x = some y → TreeWalk v2.g (tget st2.p) s x y ∧ TreeWalk v1.g (tget st2.p) s x y) ∧
      (∀ x, tget st1.p x = none ↔ tget st2.p x = none) := by
  simp only [C07.bfB, C07.c11ViewB, Bool.and_eq_true] at h
  obtain ⟨⟨⟨⟨⟨⟨⟨a1, b1⟩, ⟨a2, b2⟩⟩, c⟩, d1⟩, d2⟩, _⟩, _⟩ := h
  have sg := sameGraphB_sound c
  have hv1 := C11T.C11_view_check_sound v1 a1
  have hv2 := C11T.C11_view_check_sound v2 a2
  have R := C07_bellman_ford_encoding_independent v1 v2 hv1 hv2 (C11T.C11_wf_check_sound _ b1)
    (C11T.C11_wf_check_sound _ b2) sg.sameArcs s (C11T.C11_src_check v1 s d1) (C11T.C11_src_check v2 s d2)
  cases r1 : bellmanFord v1 s with
  | none => exact Or.inl ⟨rfl, R.1.mp r1⟩
  | some st1 =>
    cases r2 : bellmanFord v2 s with
    | none => have := R.1.mpr r2; rw [r1] at this; cases this
    | some st2 =>
      have P := C07_bellman_ford_predecessors_encoding_independent v1 v2 hv1 hv2 sg.sameArcs s st1 st2 r1 r2
      exact Or.inr ⟨st1, st2, rfl, rfl, R.2 st1 st2 r1 r2, P.1, P.2.1, P.2.2⟩

example : C07.bfB exD1.v exD2.v 3 = true ∧ C07.bfB exU1.v exU2.v 1 = true := by decide +kernel

/-- **floyd_warshall_path on every compared pair**: in `Ok` results (see `C07_floyd_warshall_checked` for the verdict and
the distances) every row `i` of either `prev` matrix is a shortest-path tree of BOTH graphs rooted at `i`, and off the
diagonal `prev[i][j]` is absent in one iff in the other — the defining property the harness prints -/
theorem C07_floyd_warshall_path_checked (v1 v2 : View) (h : C07.floydB v1 v2 = true) (st1 st2 : FW)
    (r1 : floydWarshall Meas.i64 v1 = some st1) (r2 : floydWarshall Meas.i64 v2 = some st2)
    (i : Nat) (hi : i ∈ v1.g.nodes) :
    (∀ j y, tget st1.d (i, j) = some y →
      TreeWalk v1.g (fun x => if x == i then none else tget st1.p (i, x)) i j y ∧
      TreeWalk v2.g (fun x => if x == i then none else tget st1.p (i, x)) i j y) ∧
    (∀ j y, tget st2.d (i, j) = some y →
      TreeWalk v2.g (fun x => if x == i then none else tget st2.p (i, x)) i j y ∧
      TreeWalk v1.g (fun x => if x == i then none else tget st2.p (i, x)) i j y) ∧
    (∀ j, j ≠ i → (tget st1.p (i, j) = none ↔ tget st2.p (i, j) = none)) := by
  simp only [C07.floydB, Bool.and_eq_true] at h
  obtain ⟨⟨⟨⟨a1, a2⟩, c⟩, f1⟩, f2⟩ := h
  have sg := sameGraphB_sound c
  obtain ⟨_, _, t1, q1⟩ := (C11T.C11_floyd_checked Meas.i64 v1 a1 f1).2 st1 r1 i hi
  obtain ⟨_, _, t2, q2⟩ := (C11T.C11_floyd_checked Meas.i64 v2 a2 f2).2 st2 r2 i ((sg.sameNodes i).mp hi)
  refine ⟨fun j y hy => ⟨t1 j y hy, treeWalk_congr sg.sameArcs (t1 j y hy)⟩,
    fun j y hy => ⟨t2 j y hy, treeWalk_congr (SameArcs.symm sg.sameArcs) (t2 j y hy)⟩, fun j hj => ?_⟩
  rw [(q1 j hj).1, (q2 j hj).1]
  have hw : (∃ c, WalkCost v1.g i j c) ↔ ∃ c, WalkCost v2.g i j c :=
    ⟨fun ⟨c, h⟩ => ⟨c, (walkCost_congr sg.sameArcs).mp h⟩, fun ⟨c, h⟩ => ⟨c, (walkCost_congr sg.sameArcs).mpr h⟩⟩
  rw [hw]

example : C07.floydB exU1.v exU3.v = true := by decide +kernel

/-- **k_shortest_path with a goal on every compared pair**: both model runs answer, with the same entry (or none) for the
goal — the only entry a goal-directed run determines -/
theorem C07_kshortest_goal_checked (v1 v2 : View) (s t k : Nat) (h : C07.kspB v1 v2 s k = true)
    (pop1 pop2 : Pop) (hp1 : IsMinPop pop1) (hp2 : IsMinPop pop2) :
    ∃ m1 m2, kShortestPath pop1 v1 s (some t) k = .done m1 ∧ kShortestPath pop2 v2 s (some t) k = .done m2 ∧
      amGet m1 t = amGet m2 t := by
  simp only [C07.kspB, Bool.and_eq_true, decide_eq_true_eq] at h
  obtain ⟨⟨⟨⟨⟨a, b⟩, c⟩, d⟩, e⟩, f⟩ := h
  obtain ⟨⟨_, w1⟩, ⟨_, w2⟩, sg, s1, s2, o1, o2⟩ := C07_dij_pair_check v1 v2 s a
  obtain ⟨i1, j1⟩ := C10T.C10_index_check v1 o1 d s s1
  obtain ⟨i2, j2⟩ := C10T.C10_index_check v2 o2 e s s2
  have m1v := C10T.C10_view_check_multiset v1 o1 b
  have m2v := C10T.C10_view_check_multiset v2 o2 c
  obtain ⟨m1, r1⟩ := kshortest_answers pop1 hp1 v1 m1v.viewArcs s i1 (some t) k
  obtain ⟨m2, r2⟩ := kshortest_answers pop2 hp2 v2 m2v.viewArcs s i2 (some t) k
  obtain ⟨_, _, g1⟩ := C10T.C10_kshortest_goal pop1 hp1 v1 m1v w1 s k f i1 j1 (some t) m1 r1
  obtain ⟨_, _, g2⟩ := C10T.C10_kshortest_goal pop2 hp2 v2 m2v w2 s k f i2 j2 (some t) m2 r2
  exact ⟨m1, m2, r1, r2, opt_eq_of_spec (fun c => (g1 t rfl).1 c)
    (fun c => ((g2 t rfl).1 c).trans (kthCost_perm sg.arcsPerm s t k c).symm)⟩

example : C07.kspB exD1.v exD3.v 3 2 = true := by decide +kernel

/-- **the astar path on every compared pair** (complements `C07_astar_checked`): when both model runs answer
`Some((cost, path))`, each path starts at `s`, ends at a goal and runs along arcs — of EITHER graph — whose costs sum
to the common cost (the harness prints exactly this) -/
theorem C07_astar_path_checked (v1 v2 : View) (s : Nat) (h : C07.dijB v1 v2 s = true)
    (pop1 pop2 : Pop) (hp1 : IsMinPop pop1) (hp2 : IsMinPop pop2) (goal : Nat → Bool) (h1 h2 : Nat → Int)
    (ha1 : Admissible v1.g goal h1) (ha2 : Admissible v2.g goal h2) (f1 f2 : Nat)
    (hf1 : astarBound v1.g s ≤ f1) (hf2 : astarBound v2.g s ≤ f2) (c1 c2 : Int) (p1 p2 : List Nat)
    (r1 : SP.astar pop1 v1 s goal h1 f1 = .found c1 p1) (r2 : SP.astar pop2 v2 s goal h2 f2 = .found c2 p2) :
    c1 = c2 ∧ p1.head? = some s ∧ p2.head? = some s ∧
    (∃ t, goal t = true ∧ p1.getLast? = some t) ∧ (∃ t, goal t = true ∧ p2.getLast? = some t) ∧
    PathCost v1.g p1 c1 ∧ PathCost v2.g p1 c1 ∧ PathCost v2.g p2 c1 ∧ PathCost v1.g p2 c1 := by
  obtain ⟨⟨a1, w1⟩, ⟨a2, w2⟩, sg, _⟩ := C07_dij_pair_check v1 v2 s h
  have hc := (C07_astar_encoding_independent pop1 pop2 hp1 hp2 v1 v2 a1 a2 w1 sg.sameArcs s goal h1 h2 ha1 ha2
    f1 f2 hf1 hf2).2 c1 p1 c2 p2 r1 r2
  obtain ⟨t1, g1, hd1, l1, _, k1⟩ := (C10T.C10_astar pop1 hp1 v1 a1 w1 s goal h1 f1 hf1).2.2 c1 p1 r1
  obtain ⟨t2, g2, hd2, l2, _, k2⟩ := (C10T.C10_astar pop2 hp2 v2 a2 w2 s goal h2 f2 hf2).2.2 c2 p2 r2
  subst hc
  exact ⟨rfl, hd1, hd2, ⟨t1, g1, l1⟩, ⟨t2, g2, l2⟩, (k1 ha1).2, pathCost_congr sg.sameArcs (k1 ha1).2, (k2 ha2).2,
    pathCost_congr (SameArcs.symm sg.sameArcs) (k2 ha2).2⟩

end W5Checks2


/-! ### the two union–find models are total on in-range pairs (C19: `tryUnion_good`, `intoLabeling_spec`), so the
"whenever both runs answer" of `C07_connected_components_checked` / `C07_cyclic_undirected_checked` goes away -/
section W5UnionFind
open PetgraphModel.C09J PetgraphModel.C09M PetgraphModel.UF PetgraphModel.UFProofs

/-- the union loop of `connected_components` is total on in-range pairs -/
theorem foldUnions_total : ∀ (pairs : List (Nat × Nat)) (s : UF.State), Inv s →
    (∀ p ∈ pairs, p.1 < s.len ∧ p.2 < s.len) → ∃ s', pairs.foldlM unionStep s = some s' ∧ Inv s' ∧ s'.len = s.len
  | [], s, h, _ => ⟨s, rfl, h, rfl⟩
  | p :: ps, s, h, hin => by
    have hp := hin p (List.mem_cons_self ..)
    have step1 : ∃ s1, unionStep s p = some s1 ∧ Inv s1 ∧ s1.len = s.len := by
      by_cases hxy : p.1 = p.2
      · refine ⟨s, ?_, h, rfl⟩
        unfold unionStep; rw [hxy, tryUnion_same]
      · obtain ⟨s1, e, i1, l1, _⟩ := tryUnion_good h hxy hp.1 hp.2
        refine ⟨s1, ?_, i1, l1⟩
        unfold unionStep; rw [e]
    obtain ⟨s1, e1, i1, l1⟩ := step1
    obtain ⟨s', e', i', l'⟩ := foldUnions_total ps s1 i1 (fun q hq => by
      have := hin q (List.mem_cons_of_mem _ hq); rw [l1]; exact this)
    exact ⟨s', by simp only [List.foldlM_cons, e1]; exact e', i', l'.trans l1⟩

theorem new_len (nb : Nat) : (UF.new 0 nb).len = nb := by simp [UF.new, State.len]

/-- **the `connected_components` model is total** on pairs below `node_bound` -/
theorem connectedComponents_total (nb : Nat) (pairs : List (Nat × Nat)) (hin : ∀ p ∈ pairs, p.1 < nb ∧ p.2 < nb) :
    ∃ k, connectedComponents nb pairs = some k := by
  obtain ⟨s', e, i, _⟩ := foldUnions_total pairs (UF.new 0 nb) (inv_new 0 nb (Or.inl rfl))
    (fun p hp => by rw [new_len]; exact hin p hp)
  unfold connectedComponents
  rw [e]
  simp only [intoLabeling_spec i]
  exact ⟨_, rfl⟩

/-- **the `is_cyclic_undirected` model is total** on pairs below `node_bound` -/
theorem cyclicUndirected_total (nb : Nat) : ∀ (pairs : List (Nat × Nat)) (s : UF.State), Inv s →
    (∀ p ∈ pairs, p.1 < s.len ∧ p.2 < s.len) → ∃ b, cyclicUndirected nb pairs s = some b
  | [], _, _, _ => ⟨false, rfl⟩
  | p :: ps, s, h, hin => by
    have hp := hin p (List.mem_cons_self ..)
    by_cases hxy : p.1 = p.2
    · refine ⟨true, ?_⟩
      unfold cyclicUndirected; rw [hxy, tryUnion_same]
    · obtain ⟨s1, e, i1, l1, _⟩ := tryUnion_good h hxy hp.1 hp.2
      cases hb : (!(rootOf s p.1 == rootOf s p.2)) with
      | false => exact ⟨true, by unfold cyclicUndirected; rw [e, hb]⟩
      | true =>
        obtain ⟨b, eb⟩ := cyclicUndirected_total nb ps s1 i1 (fun q hq => by
          have := hin q (List.mem_cons_of_mem _ hq); unfold State.len at *; rw [l1]; exact this)
        exact ⟨b, by unfold cyclicUndirected; rw [e, hb]; exact eb⟩

/-- **connected_components on every compared pair, total**: both model runs answer, with the same count — the number of
weakly connected components of the abstract graph -/
theorem C07_connected_components_checked_total (e1 e2 : C07.EV) (h : C07.ccB e1 e2 = true) :
    ∃ k, connectedComponents e1.v.nb (C09T.ixPairs e1.v e1.pairs) = some k ∧
      connectedComponents e2.v.nb (C09T.ixPairs e2.v e2.pairs) = some k ∧ IsWccCount e1.v.g k := by
  have h' := h
  simp only [C07.ccB, Bool.and_eq_true] at h'
  obtain ⟨⟨⟨⟨a, b⟩, c⟩, _⟩, _⟩ := h'
  obtain ⟨c1, c2, _, _, _⟩ := C07_c09_pair_check e1.v e2.v [] a
  obtain ⟨_, _, _, _, w1, i1, _⟩ := (C09T.C09_case_check e1.v).2 c1
  obtain ⟨_, _, _, _, w2, i2, _⟩ := (C09T.C09_case_check e2.v).2 c2
  obtain ⟨k1, r1⟩ := connectedComponents_total e1.v.nb _
    (C09P.ixPairs_in_range e1.v e1.pairs w1 i1.1 (C09T.C09_erset_check _ _ b))
  obtain ⟨k2, r2⟩ := connectedComponents_total e2.v.nb _
    (C09P.ixPairs_in_range e2.v e2.pairs w2 i2.1 (C09T.C09_erset_check _ _ c))
  obtain ⟨hk, K1, _⟩ := C07_connected_components_checked e1 e2 h k1 k2 r1 r2
  subst hk
  exact ⟨k1, r1, r2, K1⟩

/-- **is_cyclic_undirected on every compared pair, total** -/
theorem C07_cyclic_undirected_checked_total (e1 e2 : C07.EV) (h : C07.cycuB e1 e2 = true) :
    ∃ b, cyclicUndirected e1.v.nb (C09T.ixPairs e1.v e1.pairs) (UF.new 0 e1.v.nb) = some b ∧
      cyclicUndirected e2.v.nb (C09T.ixPairs e2.v e2.pairs) (UF.new 0 e2.v.nb) = some b ∧ (b = true ↔ CyclicU e1.v.g) := by
  have h' := h
  simp only [C07.cycuB, Bool.and_eq_true] at h'
  obtain ⟨⟨a, b⟩, c⟩ := h'
  obtain ⟨c1, c2, _, _, _⟩ := C07_c09_pair_check e1.v e2.v [] a
  obtain ⟨_, _, _, _, w1, i1, _⟩ := (C09T.C09_case_check e1.v).2 c1
  obtain ⟨_, _, _, _, w2, i2, _⟩ := (C09T.C09_case_check e2.v).2 c2
  have in1 := C09P.ixPairs_in_range e1.v e1.pairs w1 i1.1 (C09P.erSet_of_erOk (C09T.C09_er_check _ _ b))
  have in2 := C09P.ixPairs_in_range e2.v e2.pairs w2 i2.1 (C09P.erSet_of_erOk (C09T.C09_er_check _ _ c))
  obtain ⟨b1, r1⟩ := cyclicUndirected_total e1.v.nb _ (UF.new 0 e1.v.nb) (inv_new 0 _ (Or.inl rfl))
    (fun p hp => by rw [new_len]; exact in1 p hp)
  obtain ⟨b2, r2⟩ := cyclicUndirected_total e2.v.nb _ (UF.new 0 e2.v.nb) (inv_new 0 _ (Or.inl rfl))
    (fun p hp => by rw [new_len]; exact in2 p hp)
  obtain ⟨hb, K1⟩ := C07_cyclic_undirected_checked e1 e2 h b1 b2 r1 r2
  subst hb
  exact ⟨b1, r1, r2, K1⟩

end W5UnionFind

/-! ## goal 4 — the width of the index type

No algorithm model has an index width: every model is a function of a `View`, whose node ids, `to_index` values and
`node_bound` are natural numbers; a width constrains a view only through "the indices fit", and every
`C07_<A>_encoding_independent` / `_checked` theorem above holds for ANY two `to_index` assignments and bounds — in
particular for the views of a `Graph<_, _, _, u8>` and a `Graph<_, _, _, u32>` (the harness compares `graph-u8` with the
`u32` encodings like any other pair).  Where the width IS a model parameter — the storage model of `Graph`, whose
`endv = Ix::max()` is the `end` marker of the adjacency lists and the capacity limit — it is irrelevant as long as the
indices fit: -/
section W5Width

/-- **the models' answers do not depend on the index width as long as the indices fit**: the same construction history
(`add_node` / `add_edge` calls only — what the encoders perform) run on the `Graph` storage model with two index widths
(`endv = Ix::max()`), neither exhausted (`ops.length ≤ endv`), answers every call identically and ends in states with the
same node weights and the same `(source, target, weight)` at every edge index — hence (C01: the adjacency order is the
reverse insertion order, `C01_adjacency_order`) presenting the same `View` to every algorithm. -/
theorem C07_index_width_irrelevant (endv1 endv2 : Nat) (directed : Bool) (ops : List G.Op)
    (hb : ∀ op ∈ ops, C07W5.isBuild op = true) (h1 : ops.length ≤ endv1) (h2 : ops.length ≤ endv2) :
    (G.run (G.empty endv1 directed) ops).2 = (G.run (G.empty endv2 directed) ops).2 ∧
    (G.run (G.empty endv1 directed) ops).1.nodes.map (·.weight) =
      (G.run (G.empty endv2 directed) ops).1.nodes.map (·.weight) ∧
    (G.run (G.empty endv1 directed) ops).1.edges.map (fun e => (e.src, e.tgt, e.weight)) =
      (G.run (G.empty endv2 directed) ops).1.edges.map (fun e => (e.src, e.tgt, e.weight)) :=
  C07W5.width_irrelevant endv1 endv2 directed ops hb h1 h2

/-- non-vacuity: `u8` (`endv = 255`) and `u32` on a history with a rejected call (`add_edge 0 5`: no node 5) -/
example : (G.run (G.empty 255 true) [.addNode 7, .addNode 8, .addEdge 0 1 5, .addEdge 1 0 6]).1.edges.map
      (fun e => (e.src, e.tgt, e.weight)) =
    (G.run (G.empty 4294967295 true) [.addNode 7, .addNode 8, .addEdge 0 1 5, .addEdge 1 0 6]).1.edges.map
      (fun e => (e.src, e.tgt, e.weight)) :=
  (C07_index_width_irrelevant 255 4294967295 true [.addNode 7, .addNode 8, .addEdge 0 1 5, .addEdge 1 0 6]
    (by decide) (by decide) (by decide)).2.2

/-- … and the bound is needed: with `endv = 1` the second `add_node` is refused (the real code panics) -/
example : (G.run (G.empty 1 true) [.addNode 7, .addNode 8]).1.nodes.map (·.weight) = [7] ∧
    (G.run (G.empty 255 true) [.addNode 7, .addNode 8]).1.nodes.map (·.weight) = [7, 8] := by decide

end W5Width

/-! ## non-vacuity of the wave-5 hypothesis-level theorems: instances on the transcribed encodings -/
section W5Examples

/-- the walkers' `_total` theorems apply to the pair `exD1`, `exD2` … -/
example : ∃ out1 d1 out2 d2,
    dfsAll exD1.v (C08T.walkFuel exD1.v) 5 { stack := [3], disc := [] } [] = some (out1, d1) ∧
    dfsAll exD2.v (C08T.walkFuel exD2.v) 5 { stack := [3], disc := [] } [] = some (out2, d2) ∧ ∀ x, x ∈ out1 ↔ x ∈ out2 :=
  C07_dfs_checked exD1.v exD2.v 3 (by decide +kernel) _ 5 _ 5 (Nat.le_refl _) (by decide) (Nat.le_refl _) (by decide)

/-- … the SCC `_total` theorems (through `C09_case_check`) … -/
example : ∃ r, C09M.hasPath exD1.v 3 2 = some r ∧ C09M.hasPath exD2.v 3 2 = some r := by
  obtain ⟨hv1, _, hb1, _, hw1, _⟩ := (C09T.C09_case_check exD1.v).2 (by decide +kernel)
  obtain ⟨hv2, _, hb2, _, hw2, _⟩ := (C09T.C09_case_check exD2.v).2 (by decide +kernel)
  exact C07_has_path_encoding_independent_total exD1.v exD2.v hv1 hv2 hw1 hw2 hb1 hb2
    (sameGraphB_sound (v1 := exD1.v) (v2 := exD2.v) (by decide +kernel)).sameAdj 3 2 (by decide) (by decide)

/-- … the predecessor-table theorems: `bellman_ford` answers `Ok` on both encodings of the directed example … -/
example : ∃ st1 st2, C11M.bellmanFord exD1.v 3 = some st1 ∧ C11M.bellmanFord exD2.v 3 = some st2 ∧
    ∀ x, C11M.tget st1.p x = none ↔ C11M.tget st2.p x = none := by
  have h1 : (C11M.bellmanFord exD1.v 3).isSome = true := by decide +kernel
  have h2 : (C11M.bellmanFord exD2.v 3).isSome = true := by decide +kernel
  obtain ⟨st1, r1⟩ := Option.isSome_iff_exists.mp h1
  obtain ⟨st2, r2⟩ := Option.isSome_iff_exists.mp h2
  exact ⟨st1, st2, r1, r2, (C07_bellman_ford_predecessors_encoding_independent exD1.v exD2.v
    (C11T.C11_view_check_sound _ (by decide +kernel)) (C11T.C11_view_check_sound _ (by decide +kernel))
    (sameGraphB_sound (v1 := exD1.v) (v2 := exD2.v) (by decide +kernel)).sameArcs 3 st1 st2 r1 r2).2.2⟩

/-- … `depth_first_search`: neither run on the two encodings ends by lack of fuel … -/
example : (dfsSearch exD1.v [] (dfsFuel exD1.v) [3] {}).2 ≠ .fuel ∧ (dfsSearch exD2.v [] (dfsFuel exD2.v) [3] {}).2 ≠ .fuel := by
  obtain ⟨hv1, _, hw1⟩ := C07_trav_view_check exD1.v (by decide +kernel)
  obtain ⟨hv2, _, hw2⟩ := C07_trav_view_check exD2.v (by decide +kernel)
  have R := C07_dfs_events_encoding_independent exD1.v exD2.v hv1 hv2 hw1 hw2
    (sameGraphB_sound (v1 := exD1.v) (v2 := exD2.v) (by decide +kernel)).sameAdj [] [3]
    (by decide) (by decide) _ _ (Nat.le_refl _) (Nat.le_refl _)
  exact ⟨R.1, R.2.1⟩

/-- … and the undirected example is in the domain of `dsatur_coloring`, `maximal_cliques` (three cliques: `{0}`, and
the triangle) and of `steiner_tree` once its zero weight is made positive. -/
example : (C20.Cliques.maximalCliques exU1.v.g (C20.Cliques.firstOracle exU1.v.g) 5).length =
    (C20.Cliques.maximalCliques exU3.v.g (C20.Cliques.firstOracle exU3.v.g) 5).length :=
  (C07_maximal_cliques_checked exU1.v exU3.v (by decide +kernel) _ _ (C20T.C20_cliques_oracle_exists _)
    (C20T.C20_cliques_oracle_exists _) 5 5 (by decide) (by decide)).2.2.2

end W5Examples

end W5

end PetgraphModel.C07T
