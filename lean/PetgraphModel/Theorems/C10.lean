import PetgraphModel.Proofs.C10Judge
import PetgraphModel.Proofs.C10MinScored
import PetgraphModel.Proofs.C10KWalks
import PetgraphModel.Proofs.C10Dijkstra
import PetgraphModel.Proofs.C10Astar
import PetgraphModel.Proofs.C10AstarTerm
import PetgraphModel.Proofs.C10Ksp
import PetgraphModel.Proofs.C10KspOne
import PetgraphModel.Proofs.C10KspFull
import PetgraphModel.Proofs.C10KspTerm
/-
C10 — `dijkstra`, `astar`, `k_shortest_path` return true shortest costs and real paths; `MinScored`
is the reversed order with NaN last.

Part 1: soundness of the per-run judges (`Oracle/C10Judge.lean`): an accepted implementation answer
satisfies the clauses of the property statement against the abstract multigraph — for ALL graphs
and ALL answers.  Distances are `MGraph.IsShortest` (minimum of `WalkCost` over all walks), stated
for arbitrary integer weights; the proofs rest on the shared certificate theorems of
`Proofs/Dist.lean`.
Part 2: the dijkstra mirror model is correct for every heap tie order.
Part 3: the astar model (no panic, real paths, `None` iff unreachable, termination, optimal cost for every
admissible heuristic) and the k_shortest_path model (no out-of-bounds, real walk costs; exactly the
k-th cheapest walk costs for every `k`; `k = 1` = dijkstra).
Part 4: `MinScored::cmp` (mirrored branch by branch).
-/
namespace PetgraphModel.C10T
open PetgraphModel PetgraphModel.MGraph PetgraphModel.Oracle PetgraphModel.C10 PetgraphModel.C10P PetgraphModel.SP

/-! ## Part 1 — judges -/

/-- `dijkstra(g, s, None, ..)` judge: an accepted map has distinct keys, its entries are exactly the
pairs (node, true shortest-walk cost), and its key set is exactly the set reachable from `s`. -/
theorem C10_judge_dijkstra_all (g : MGraph) (s : Nat) (m : List (Nat × Int)) (h : okDijAll g s m = true) :
    (m.map (·.1)).Nodup ∧ (∀ v y, (v, y) ∈ m ↔ IsShortest g s v y) ∧
    (∀ v, (∃ y, (v, y) ∈ m) ↔ Reach g s v) :=
  dijAll_sound g s m h

/-- `dijkstra(g, s, Some(t), ..)` judge: the goal's entry is exact and absent iff `t` is unreachable;
every entry belongs to a reachable node and is an upper bound of its true distance; every node
strictly closer than the goal (every reachable node when the goal is unreachable) has its exact entry. -/
theorem C10_judge_dijkstra_goal (g : MGraph) (s t : Nat) (m : List (Nat × Int)) (h : okDijGoal g s t m = true) :
    (m.map (·.1)).Nodup ∧
    (∀ y, (t, y) ∈ m ↔ IsShortest g s t y) ∧
    ((∀ y, (t, y) ∉ m) ↔ ¬ Reach g s t) ∧
    (∀ v c, (v, c) ∈ m → ∃ y, IsShortest g s v y ∧ y ≤ c) ∧
    (∀ v y, IsShortest g s v y → (∀ yt, IsShortest g s t yt → y < yt) → (v, y) ∈ m) :=
  dijGoal_sound g s t m h

/-- `astar` judge, answer `None`: no goal is reachable. -/
theorem C10_judge_astar_none (g : MGraph) (s : Nat) (goals : List Nat) (h : okAstar g s goals none = true) :
    ∀ t ∈ goals, ¬ Reach g s t :=
  astar_none_sound g s goals h

/-- `astar` judge, answer `Some((c, p))`: `p` starts at `s`, follows existing arcs whose costs sum to
`c` (`PathCost`), ends at a goal (so a goal is reachable, by a walk of cost `c`), and no walk to any
goal is cheaper: `c` is the distance to the nearest goal. -/
theorem C10_judge_astar_some (g : MGraph) (s : Nat) (goals : List Nat) (c : Int) (p : List Nat)
    (h : okAstar g s goals (some (c, p)) = true) :
    p.head? = some s ∧ PathCost g p c ∧
    (∃ t, p.getLast? = some t ∧ t ∈ goals ∧ WalkCost g s t c) ∧
    (∀ t' ∈ goals, ∀ c', WalkCost g s t' c' → c ≤ c') :=
  astar_some_sound g s goals c p h

/-- the k-th-cheapest-walk oracle behind the `k_shortest_path` judge: whenever the dynamic programme
reaches its fixed point, entry `k` of a node's row is the cost of the k-th cheapest walk from `s`
(`KthCost`: there are `k` distinct walks — lists of arc indices, so parallel arcs, repeated
vertices and the empty walk all count — of cost `≤ c`, but not `k` of cost `< c`), and the entry is
absent iff there are fewer than `k` walks. -/
theorem C10_oracle_kth_walk (g : MGraph) (s k : Nat) (T : KTable) (h : kWalks g s k = some T) (hk : 1 ≤ k)
    (v : Nat) (c : Int) : (kRow T v)[k - 1]? = some c ↔ KthCost g s v k c :=
  kWalks_kth h hk v c

/-- `k_shortest_path` judge: an accepted map has `k ≥ 1`, distinct keys, every entry is the k-th
cheapest walk cost of its node; without goal every node that has a k-th cheapest walk has its entry
(so the map is exactly `{v ↦ KthCost}`); with goal `t`, `t` has an entry iff it has `k` walks; and for
`k = 1` without goal the map is exactly dijkstra's specification. -/
theorem C10_judge_k_shortest_path (g : MGraph) (s : Nat) (goal : Option Nat) (k : Nat) (m : List (Nat × Int))
    (h : okKsp g s goal k m = true) :
    1 ≤ k ∧ (m.map (·.1)).Nodup ∧
    (∀ v c, (v, c) ∈ m → KthCost g s v k c) ∧
    (goal = none → ∀ v c, KthCost g s v k c → (v, c) ∈ m) ∧
    (∀ t, goal = some t → ((∃ c, (t, c) ∈ m) ↔ ∃ c, KthCost g s t k c)) ∧
    (k = 1 → goal = none → ∀ v c, (v, c) ∈ m ↔ IsShortest g s v c) :=
  okKsp_sound g s goal k m h

/-- the cheapest walk (`k = 1`) is dijkstra's shortest walk: the two specifications coincide. -/
theorem C10_kth_one_is_shortest (g : MGraph) (s v : Nat) (c : Int) : KthCost g s v 1 c ↔ IsShortest g s v c :=
  kthCost_one_iff g s v c

/-! ## Part 2 — the dijkstra mirror model, for every heap tie order -/

/-- the per-case check of the driver establishes the hypotheses of the model theorems: the view's
`edges(a)` rows are exactly the arcs of the abstract graph, and all weights are non-negative. -/
theorem C10_view_check (v : View) (h : viewOkB v = true) : ViewArcs v ∧ NonNeg v.g :=
  viewOkB_sound v h

/-- … and `to_index` of the source and of every arc target is below `node_bound`, injectively. -/
theorem C10_index_check (v : View) (h1 : viewOkB v = true) (h2 : ixOkB v = true) (s : Nat) (hs : s ∈ v.g.nodes) :
    IxOk v s ∧ IxInj v s :=
  ⟨ixOkB_sound v h1 h2 s hs, ixInjB_sound v h1 h2 s hs⟩

/-- **dijkstra** (model of `src/algo/dijkstra.rs`: lazy-deletion heap, visited map, score map), for
EVERY `pop` that returns some entry of minimal score (any order among equal keys): the returned map
contains only costs of real walks; without goal it is exactly `{v ↦ distance | v reachable}`; with
goal `t` the goal's entry is exact and absent iff `t` is unreachable, and every node strictly closer
than the goal has its exact entry. -/
theorem C10_dijkstra (pop : Pop) (hp : IsMinPop pop) (v : View) (hv : ViewArcs v) (hw : NonNeg v.g)
    (s : Nat) (goal : Option Nat) (m : List (Nat × Int)) (h : SP.dijkstra pop v s goal = some m) :
    (∀ x y, amGet m x = some y → WalkCost v.g s x y) ∧
    (goal = none → (∀ x y, amGet m x = some y ↔ IsShortest v.g s x y) ∧ (∀ x, amGet m x = none ↔ ¬ Reach v.g s x)) ∧
    (∀ t, goal = some t →
      (∀ y, amGet m t = some y ↔ IsShortest v.g s t y) ∧ (amGet m t = none ↔ ¬ Reach v.g s t) ∧
      (∀ x y, IsShortest v.g s x y → (∀ yt, IsShortest v.g s t yt → y < yt) → amGet m x = some y)) := by
  have D := dijkstra_correct hp hv hw s goal m h
  exact ⟨D.real, D.all, fun t ht => ⟨(D.goalExact t ht).1, (D.goalExact t ht).2, D.closer t ht⟩⟩

/-- the model's fuel (`#edges(a) entries + 2`) always suffices: `dijkstra` never returns `none`. -/
theorem C10_dijkstra_terminates (pop : Pop) (hp : IsMinPop pop) (v : View) (s : Nat) (goal : Option Nat) :
    ∃ m, SP.dijkstra pop v s goal = some m :=
  dijkstra_terminates hp v s goal

/-- the executable heap discipline of the driver (oldest minimal entry first) is such a `pop`. -/
theorem C10_popMin_isMinPop : IsMinPop popMin := popMin_isMinPop

/-! ## Part 3 — the astar and k_shortest_path mirror models -/

/-- **astar** (model of `src/algo/astar.rs`: g-scores, f-scores with re-expansion when a lower
estimate arrives, `PathTracker`), for EVERY min-`pop` and ANY heuristic `h`, whatever the fuel:
the unchecked `scores[&node]` never misses (no panic); `None` is returned only if no goal node is
reachable; a returned `(cost, path)` has `path` starting at `s`, ending at a goal node, following
existing arcs whose costs sum to at most `cost`, and `cost` is the cost of a real walk to that goal;
and for an admissible non-negative `h` — consistent or not — `cost` is at most the cost of every walk
to every goal, i.e. the distance to the nearest goal (whence the arc costs along `path` sum to exactly
`cost`).  This holds for any fuel; `C10_astar` adds termination. -/
theorem C10_astar_any_fuel (pop : Pop) (hp : IsMinPop pop) (v : View) (hv : ViewArcs v) (hw : NonNeg v.g)
    (s : Nat) (isGoal : Nat → Bool) (h : Nat → Int) (fuel : Nat) :
    match SP.astar pop v s isGoal h fuel with
    | .notFound => ∀ t, isGoal t = true → ¬ Reach v.g s t
    | .found cost p =>
        ∃ t, isGoal t = true ∧ p.head? = some s ∧ p.getLast? = some t ∧ WalkCost v.g s t cost ∧
          (∃ c', PathCost v.g p c' ∧ c' ≤ cost) ∧
          (Admissible v.g isGoal h →
            (∀ t' c', isGoal t' = true → WalkCost v.g s t' c' → cost ≤ c') ∧ PathCost v.g p cost)
    | .panic => False
    | .fuel => True := by
  have A := astar_partial hp hv hw s isGoal h fuel
  cases hr : SP.astar pop v s isGoal h fuel with
  | notFound => rw [hr] at A; exact A
  | panic => rw [hr] at A; exact A
  | fuel => trivial
  | found cost p =>
    rw [hr] at A
    obtain ⟨t, ht, h1, h2, h3, ⟨c', hc', hle⟩, hopt⟩ := A
    refine ⟨t, ht, h1, h2, h3, ⟨c', hc', hle⟩, ?_⟩
    intro hadm
    have ho := hopt hadm
    refine ⟨ho, ?_⟩
    have : cost ≤ c' := ho t c' ht (hc'.walk s t h1 h2)
    have : c' = cost := by omega
    rw [← this]; exact hc'

/-- the astar model terminates: with the explicit fuel `astarBound` (or more) it never reports `fuel`
— every push strictly lowers a non-negative integer score bounded by `#nodes · total weight`, and
`reconstruct_path_to` terminates because `came_from` is acyclic (along each link the pair (score,
time of last update) strictly decreases).  Any heuristic, any min-`pop`. -/
theorem C10_astar_terminates (pop : Pop) (hp : IsMinPop pop) (v : View) (hv : ViewArcs v) (hw : NonNeg v.g)
    (s : Nat) (isGoal : Nat → Bool) (h : Nat → Int) (fuel : Nat) (hf : astarBound v.g s ≤ fuel) :
    SP.astar pop v s isGoal h fuel ≠ .fuel :=
  astar_terminates hp hv hw s isGoal h fuel hf

/-- **astar, total correctness**: with fuel at least `astarBound` the model returns `None` exactly when
no goal node is reachable, and otherwise `(cost, path)` with `path` from `s` to a goal node along
existing arcs, `cost` the cost of a real walk to that goal and — for every admissible non-negative
heuristic, consistent or not — the distance to the nearest goal and the exact sum of the path's arc
costs. -/
theorem C10_astar (pop : Pop) (hp : IsMinPop pop) (v : View) (hv : ViewArcs v) (hw : NonNeg v.g)
    (s : Nat) (isGoal : Nat → Bool) (h : Nat → Int) (fuel : Nat) (hf : astarBound v.g s ≤ fuel) :
    (SP.astar pop v s isGoal h fuel = .notFound ↔ ∀ t, isGoal t = true → ¬ Reach v.g s t) ∧
    (SP.astar pop v s isGoal h fuel = .notFound ∨ ∃ cost p, SP.astar pop v s isGoal h fuel = .found cost p) ∧
    ∀ cost p, SP.astar pop v s isGoal h fuel = .found cost p →
      ∃ t, isGoal t = true ∧ p.head? = some s ∧ p.getLast? = some t ∧ WalkCost v.g s t cost ∧
        (Admissible v.g isGoal h →
          (∀ t' c', isGoal t' = true → WalkCost v.g s t' c' → cost ≤ c') ∧ PathCost v.g p cost) := by
  have P := C10_astar_any_fuel pop hp v hv hw s isGoal h fuel
  have T := C10_astar_terminates pop hp v hv hw s isGoal h fuel hf
  cases hr : SP.astar pop v s isGoal h fuel with
  | fuel => exact absurd hr T
  | panic => rw [hr] at P; exact absurd P id
  | notFound =>
    rw [hr] at P
    refine ⟨⟨fun _ => P, fun _ => rfl⟩, Or.inl rfl, ?_⟩
    intro cost p hcp; cases hcp
  | found cost p =>
    rw [hr] at P
    obtain ⟨t, ht, h1, h2, h3, h4, h5⟩ := P
    refine ⟨⟨fun hcp => (by cases hcp), ?_⟩, Or.inr ⟨cost, p, rfl⟩, ?_⟩
    · intro hno
      exact absurd ((DistProofs.walk_iff_reach v.g s t).mp ⟨cost, h3⟩) (hno t ht)
    · intro cost' p' hcp
      cases hcp
      exact ⟨t, ht, h1, h2, h3, h5⟩

/-- **k_shortest_path** (model of `src/algo/k_shortest_path.rs`: per-node pop counter indexed by
`to_index`, score recorded at the k-th pop), for every min-`pop`, whatever the fuel: when `to_index`
of `s` and of every arc target is below `node_bound` the counter access is never out of bounds (the
fixed defect D9 was a violation of exactly this), and every recorded score is the cost of a real walk. -/
theorem C10_kshortest_safe (pop : Pop) (hp : IsMinPop pop) (v : View) (hv : ViewArcs v) (s : Nat)
    (hix : IxOk v s) (goal : Option Nat) (k : Nat) :
    match kShortestPath pop v s goal k with
    | .done m => ∀ x c, amGet m x = some c → WalkCost v.g s x c
    | .panic => False
    | .fuel => True := by
  have K := ksp_partial hp hv s hix goal k
  cases hr : kShortestPath pop v s goal k with
  | done m => rw [hr] at K; exact K
  | panic => rw [hr] at K; exact K
  | fuel => trivial

/-- **k = 1 coincides with dijkstra** (model level): `k_shortest_path(g, s, None, 1, ..)` returns exactly
`{v ↦ shortest-walk cost | v reachable from s}` — for every min-`pop`, non-negative weights, and a
`to_index` that is injective on `s` and the arc targets. -/
theorem C10_kshortest_k1 (pop : Pop) (hp : IsMinPop pop) (v : View) (hv : ViewArcs v) (hw : NonNeg v.g)
    (s : Nat) (hix : IxOk v s) (hinj : IxInj v s) (m : List (Nat × Int))
    (h : kShortestPath pop v s none 1 = .done m) :
    (∀ x c, amGet m x = some c ↔ IsShortest v.g s x c) ∧ (∀ x, amGet m x = none ↔ ¬ Reach v.g s x) :=
  ksp_one_correct hp hv hw s hix hinj m h

/-- **k_shortest_path, every `k ≥ 1`, no goal** (model level), for every min-`pop`: the returned map is
exactly `{v ↦ cost of the k-th cheapest walk from s}` — walks with repeated vertices, parallel arcs
and the empty walk all count (`KthCost`).  Hypotheses: non-negative weights; the view's rows are the
arcs out of each node as multisets (`ViewArcsM`, checked per case by `viewOkMB`); `to_index` below
`node_bound` and injective. -/
theorem C10_kshortest (pop : Pop) (hp : IsMinPop pop) (v : View) (hvm : ViewArcsM v) (hw : NonNeg v.g)
    (s k : Nat) (hk : 1 ≤ k) (hix : IxOk v s) (hinj : IxInj v s) (m : List (Nat × Int))
    (h : kShortestPath pop v s none k = .done m) :
    ∀ x c, amGet m x = some c ↔ KthCost v.g s x k c :=
  ksp_full hp hvm hw s k hk hix hinj m h

/-- the driver's per-case checks establish the multiset view hypothesis. -/
theorem C10_view_check_multiset (v : View) (h1 : viewOkB v = true) (h2 : viewOkMB v = true) : ViewArcsM v :=
  viewOkMB_sound v h1 h2

/-- the k_shortest_path model never runs out of its fuel `k * (#edges(a) entries) + 2`: for every
min-`pop`, view, goal and `k` the loop ends with a map (or the `panic` excluded by `C10_kshortest_safe`). -/
theorem C10_kshortest_terminates (pop : Pop) (hp : IsMinPop pop) (v : View) (s : Nat) (goal : Option Nat) (k : Nat) :
    kShortestPath pop v s goal k ≠ .fuel :=
  ksp_terminates hp v s goal k

/-! ## Part 4 — `MinScored` -/

/-- `MinScored::cmp` over any float-like score type (`eq`/`lt` a strict total order on the non-NaN
elements, `false` whenever a NaN is involved): reverse of `<` on comparable scores, NaN last,
antisymmetric, `≥` transitive (a total preorder), `Equal` reflexive and transitive. -/
theorem C10_minscored_order {α : Type} (eq lt : α → α → Bool) (nan : α → Bool) (F : FloatLike eq lt nan) :
    (∀ a b, nan a = false → nan b = false →
      (minScoredCmp eq lt a b = .greater ↔ lt a b = true) ∧
      (minScoredCmp eq lt a b = .less ↔ lt b a = true) ∧
      (minScoredCmp eq lt a b = .equal ↔ eq a b = true)) ∧
    (∀ a b, nan a = true →
      (nan b = false → minScoredCmp eq lt a b = .less ∧ minScoredCmp eq lt b a = .greater) ∧
      (nan b = true → minScoredCmp eq lt a b = .equal)) ∧
    (∀ a b, minScoredCmp eq lt b a = (minScoredCmp eq lt a b).flip) ∧
    (∀ a b c, minScoredCmp eq lt a b ≠ .less → minScoredCmp eq lt b c ≠ .less → minScoredCmp eq lt a c ≠ .less) ∧
    (∀ a, minScoredCmp eq lt a a = .equal) ∧
    (∀ a b c, minScoredCmp eq lt a b = .equal → minScoredCmp eq lt b c = .equal → minScoredCmp eq lt a c = .equal) :=
  ⟨cmp_comparable F, cmp_nan F, cmp_antisymm F, cmp_trans F, cmp_refl F, cmp_equal_trans F⟩

/-- the driver's score type (integers, ±∞, NaN) is float-like, and on it the mirrored `cmp` is the
specification the judge checks the real `MinScored` against. -/
theorem C10_minscored_scores : FloatLike Score.eq Score.lt Score.isNan ∧ ∀ a b, scoreCmp a b = specCmp a b :=
  ⟨score_floatLike, scoreCmp_eq_spec⟩

example : scoreCmp .nan (.fin 3) = .less ∧ scoreCmp (.fin 1) (.fin 3) = .greater ∧ scoreCmp .nan .nan = .equal := by
  decide

/-! ## the hypotheses are satisfiable: a concrete non-trivial view -/

/-- a directed view on 4 nodes: 0→1 (2), 0→2 (0), 2→1 (1), 1→2 (0) — a zero-cost arc closing a
cycle —, a zero-cost loop 2→2, node 3 isolated; `to_index` shifted by a vacancy at position 0 -/
def exView : View :=
  { g := { directed := true, nodes := [0, 1, 2, 3],
           edges := [⟨0, 0, 1, 2⟩, ⟨1, 0, 2, 0⟩, ⟨2, 2, 1, 1⟩, ⟨3, 1, 2, 0⟩, ⟨4, 2, 2, 0⟩] },
    nb := 5, ix := [(0, 1), (1, 2), (2, 3), (3, 4)],
    out := [(0, [(2, 1), (1, 0)]), (1, [(2, 3)]), (2, [(2, 4), (1, 2)]), (3, [])],
    inn := [] }

example : viewOkB exView = true ∧ viewOkMB exView = true ∧ ixOkB exView = true := by decide
example : SP.dijkstra popMin exView 0 none = some [(0, 0), (2, 0), (1, 1)] := by decide
example : okDijAll exView.g 0 [(0, 0), (2, 0), (1, 1)] = true := by decide
example : SP.astar popMin exView 0 (fun x => x == 1) (fun _ => 0) 100 = .found 1 [0, 2, 1] := by decide
example : okAstar exView.g 0 [1] (some (1, [0, 2, 1])) = true := by decide
example : kShortestPath popMin exView 0 none 2 = .done [(2, 0), (1, 1)] := by decide
example : okKsp exView.g 0 none 2 [(2, 0), (1, 1)] = true := by decide

end PetgraphModel.C10T
