import PetgraphModel.Proofs.C10Judge
import PetgraphModel.Proofs.C10MinScored
import PetgraphModel.Proofs.C10KWalks
import PetgraphModel.Proofs.C10Dijkstra
import PetgraphModel.Proofs.C10Astar
import PetgraphModel.Proofs.C10AstarTerm
import PetgraphModel.Proofs.C10Ksp
import PetgraphModel.Proofs.C10KspOne
import PetgraphModel.Proofs.C10KspFull
import PetgraphModel.Proofs.C10KspTerm
import PetgraphModel.Proofs.C10W4KspGoal
import PetgraphModel.Proofs.C10W4Oracle
import PetgraphModel.Proofs.C10W4Complete
import PetgraphModel.Proofs.C10W4RefDist
import PetgraphModel.Proofs.C10W4Bounded
import PetgraphModel.Proofs.C10W4Driver
import PetgraphModel.Proofs.C10W4KspFits
import PetgraphModel.Proofs.C10W4AstarFits
import PetgraphModel.Proofs.C10W6Inf
/-
C10 — `dijkstra`, `astar`, `k_shortest_path` return true shortest costs and real paths; `MinScored`
is the reversed order with NaN last.

Part 1: soundness of the per-run judges (`Oracle/C10Judge.lean`): an accepted implementation answer
satisfies the clauses of the property statement against the abstract multigraph — for ALL graphs
and ALL answers.  Distances are `MGraph.IsShortest` (minimum of `WalkCost` over all walks), stated
for arbitrary integer weights; the proofs rest on the shared certificate theorems of
`Proofs/Dist.lean`.
Part 2: the dijkstra mirror model is correct for every heap tie order.
Part 3: the astar model (no panic, real paths, `None` iff unreachable, termination, optimal cost for every
admissible heuristic) and the k_shortest_path model (no out-of-bounds, real walk costs; exactly the
k-th cheapest walk costs for every `k`; `k = 1` = dijkstra).
Part 4: `MinScored::cmp` (mirrored branch by branch).
Part 5 (wave 4): `k_shortest_path` WITH a goal is exact; the judges are complete (they decide their
clause sets) and their oracles total; bounded cost types; the run-time checks of the hypotheses; and
the driver-level theorems: every theorem instantiated once for the concrete heap discipline `popMin`,
the overflow-checked addition and the Boolean checks the driver evaluates on every case it judges.
Part 6 (wave 6, the corners): float costs with `+∞` (sentinel judges, sound by reduction to the judges of Part 1);
what the two view classifiers of the open findings D23 / D6 pin down.
-/
namespace PetgraphModel.C10T
open PetgraphModel PetgraphModel.MGraph PetgraphModel.Oracle PetgraphModel.C10 PetgraphModel.C10P PetgraphModel.SP

/-! ## Part 1 — judges -/

/-- `dijkstra(g, s, None, ..)` judge: an accepted map has distinct keys, its entries are exactly the
pairs (node, true shortest-walk cost), and its key set is exactly the set reachable from `s`. -/
theorem C10_judge_dijkstra_all (g : MGraph) (s : Nat) (m : List (Nat × Int)) (h : okDijAll g s m = true) :
    (m.map (·.1)).Nodup ∧ (∀ v y, (v, y) ∈ m ↔ IsShortest g s v y) ∧
    (∀ v, (∃ y, (v, y) ∈ m) ↔ Reach g s v) :=
  dijAll_sound g s m h

/-- `dijkstra(g, s, Some(t), ..)` judge: the goal's entry is exact and absent iff `t` is unreachable;
every entry belongs to a reachable node and is an upper bound of its true distance; every node
strictly closer than the goal (every reachable node when the goal is unreachable) has its exact entry. -/
theorem C10_judge_dijkstra_goal (g : MGraph) (s t : Nat) (m : List (Nat × Int)) (h : okDijGoal g s t m = true) :
    (m.map (·.1)).Nodup ∧
    (∀ y, (t, y) ∈ m ↔ IsShortest g s t y) ∧
    ((∀ y, (t, y) ∉ m) ↔ ¬ Reach g s t) ∧
    (∀ v c, (v, c) ∈ m → ∃ y, IsShortest g s v y ∧ y ≤ c) ∧
    (∀ v y, IsShortest g s v y → (∀ yt, IsShortest g s t yt → y < yt) → (v, y) ∈ m) :=
  dijGoal_sound g s t m h

/-- `astar` judge, answer `None`: no goal is reachable. -/
theorem C10_judge_astar_none (g : MGraph) (s : Nat) (goals : List Nat) (h : okAstar g s goals none = true) :
    ∀ t ∈ goals, ¬ Reach g s t :=
  astar_none_sound g s goals h

/-- `astar` judge, answer `Some((c, p))`: `p` starts at `s`, follows existing arcs whose costs sum to
`c` (`PathCost`), ends at a goal (so a goal is reachable, by a walk of cost `c`), and no walk to any
goal is cheaper: `c` is the distance to the nearest goal. -/
theorem C10_judge_astar_some (g : MGraph) (s : Nat) (goals : List Nat) (c : Int) (p : List Nat)
    (h : okAstar g s goals (some (c, p)) = true) :
    p.head? = some s ∧ PathCost g p c ∧
    (∃ t, p.getLast? = some t ∧ t ∈ goals ∧ WalkCost g s t c) ∧
    (∀ t' ∈ goals, ∀ c', WalkCost g s t' c' → c ≤ c') :=
  astar_some_sound g s goals c p h

/-- the k-th-cheapest-walk oracle behind the `k_shortest_path` judge: whenever the dynamic programme
reaches its fixed point, entry `k` of a node's row is the cost of the k-th cheapest walk from `s`
(`KthCost`: there are `k` distinct walks — lists of arc indices, so parallel arcs, repeated
vertices and the empty walk all count — of cost `≤ c`, but not `k` of cost `< c`), and the entry is
absent iff there are fewer than `k` walks. -/
theorem C10_oracle_kth_walk (g : MGraph) (s k : Nat) (T : KTable) (h : kWalks g s k = some T) (hk : 1 ≤ k)
    (v : Nat) (c : Int) : (kRow T v)[k - 1]? = some c ↔ KthCost g s v k c :=
  kWalks_kth h hk v c

/-- `k_shortest_path` judge: an accepted map has `k ≥ 1`, distinct keys, every entry is the k-th
cheapest walk cost of its node; without goal every node that has a k-th cheapest walk has its entry
(so the map is exactly `{v ↦ KthCost}`); with goal `t`, `t` has an entry iff it has `k` walks; and for
`k = 1` without goal the map is exactly dijkstra's specification. -/
theorem C10_judge_k_shortest_path (g : MGraph) (s : Nat) (goal : Option Nat) (k : Nat) (m : List (Nat × Int))
    (h : okKsp g s goal k m = true) :
    1 ≤ k ∧ (m.map (·.1)).Nodup ∧
    (∀ v c, (v, c) ∈ m → KthCost g s v k c) ∧
    (goal = none → ∀ v c, KthCost g s v k c → (v, c) ∈ m) ∧
    (∀ t, goal = some t → ((∃ c, (t, c) ∈ m) ↔ ∃ c, KthCost g s t k c)) ∧
    (k = 1 → goal = none → ∀ v c, (v, c) ∈ m ↔ IsShortest g s v c) :=
  okKsp_sound g s goal k m h

/-- the cheapest walk (`k = 1`) is dijkstra's shortest walk: the two specifications coincide. -/
theorem C10_kth_one_is_shortest (g : MGraph) (s v : Nat) (c : Int) : KthCost g s v 1 c ↔ IsShortest g s v c :=
  kthCost_one_iff g s v c

/-! ## Part 2 — the dijkstra mirror model, for every heap tie order -/

/-- the per-case check of the driver establishes the hypotheses of the model theorems: the view's
`edges(a)` rows are exactly the arcs of the abstract graph, and all weights are non-negative. -/
theorem C10_view_check (v : View) (h : viewOkB v = true) : ViewArcs v ∧ NonNeg v.g :=
  viewOkB_sound v h

/-- … and `to_index` of the source and of every arc target is below `node_bound`, injectively. -/
theorem C10_index_check (v : View) (h1 : viewOkB v = true) (h2 : ixOkB v = true) (s : Nat) (hs : s ∈ v.g.nodes) :
    IxOk v s ∧ IxInj v s :=
  ⟨ixOkB_sound v h1 h2 s hs, ixInjB_sound v h1 h2 s hs⟩

/-- **dijkstra** (model of `src/algo/dijkstra.rs`: lazy-deletion heap, visited map, score map), for
EVERY `pop` that returns some entry of minimal score (any order among equal keys): the returned map
contains only costs of real walks; without goal it is exactly `{v ↦ distance | v reachable}`; with
goal `t` the goal's entry is exact and absent iff `t` is unreachable, and every node strictly closer
than the goal has its exact entry. -/
theorem C10_dijkstra (pop : Pop) (hp : IsMinPop pop) (v : View) (hv : ViewArcs v) (hw : NonNeg v.g)
    (s : Nat) (goal : Option Nat) (m : List (Nat × Int)) (h : SP.dijkstra pop v s goal = some m) :
    (∀ x y, amGet m x = some y → WalkCost v.g s x y) ∧
    (goal = none → (∀ x y, amGet m x = some y ↔ IsShortest v.g s x y) ∧ (∀ x, amGet m x = none ↔ ¬ Reach v.g s x)) ∧
    (∀ t, goal = some t →
      (∀ y, amGet m t = some y ↔ IsShortest v.g s t y) ∧ (amGet m t = none ↔ ¬ Reach v.g s t) ∧
      (∀ x y, IsShortest v.g s x y → (∀ yt, IsShortest v.g s t yt → y < yt) → amGet m x = some y)) := by
  have D := dijkstra_correct hp hv hw s goal m h
  exact ⟨D.real, D.all, fun t ht => ⟨(D.goalExact t ht).1, (D.goalExact t ht).2, D.closer t ht⟩⟩

/-- the model's fuel (`#edges(a) entries + 2`) always suffices: `dijkstra` never returns `none`. -/
theorem C10_dijkstra_terminates (pop : Pop) (hp : IsMinPop pop) (v : View) (s : Nat) (goal : Option Nat) :
    ∃ m, SP.dijkstra pop v s goal = some m :=
  dijkstra_terminates hp v s goal

/-- the executable heap discipline of the driver (oldest minimal entry first) is such a `pop`. -/
theorem C10_popMin_isMinPop : IsMinPop popMin := popMin_isMinPop

/-! ## Part 3 — the astar and k_shortest_path mirror models -/

/-- **astar** (model of `src/algo/astar.rs`: g-scores, f-scores with re-expansion when a lower
estimate arrives, `PathTracker`), for EVERY min-`pop` and ANY heuristic `h`, whatever the fuel:
the unchecked `scores[&node]` never misses (no panic); `None` is returned only if no goal node is
reachable; a returned `(cost, path)` has `path` starting at `s`, ending at a goal node, following
existing arcs whose costs sum to at most `cost`, and `cost` is the cost of a real walk to that goal;
and for an admissible non-negative `h` — consistent or not — `cost` is at most the cost of every walk
to every goal, i.e. the distance to the nearest goal (whence the arc costs along `path` sum to exactly
`cost`).  This holds for any fuel; `C10_astar` adds termination. -/
theorem C10_astar_any_fuel (pop : Pop) (hp : IsMinPop pop) (v : View) (hv : ViewArcs v) (hw : NonNeg v.g)
    (s : Nat) (isGoal : Nat → Bool) (h : Nat → Int) (fuel : Nat) :
    match SP.astar pop v s isGoal h fuel with
    | .notFound => ∀ t, isGoal t = true → ¬ Reach v.g s t
    | .found cost p =>
        ∃ t, isGoal t = true ∧ p.head? = some s ∧ p.getLast? = some t ∧ WalkCost v.g s t cost ∧
          (∃ c', PathCost v.g p c' ∧ c' ≤ cost) ∧
          (Admissible v.g isGoal h →
            (∀ t' c', isGoal t' = true → WalkCost v.g s t' c' → cost ≤ c') ∧ PathCost v.g p cost)
    | .panic => False
    | .fuel => True := by
  have A := astar_partial hp hv hw s isGoal h fuel
  cases hr : SP.astar pop v s isGoal h fuel with
  | notFound => rw [hr] at A; exact A
  | panic => rw [hr] at A; exact A
  | fuel => trivial
  | found cost p =>
    rw [hr] at A
    obtain ⟨t, ht, h1, h2, h3, ⟨c', hc', hle⟩, hopt⟩ := A
    refine ⟨t, ht, h1, h2, h3, ⟨c', hc', hle⟩, ?_⟩
    intro hadm
    have ho := hopt hadm
    refine ⟨ho, ?_⟩
    have : cost ≤ c' := ho t c' ht (hc'.walk s t h1 h2)
    have : c' = cost := by omega
    rw [← this]; exact hc'

/-- the astar model terminates: with the explicit fuel `astarBound` (or more) it never reports `fuel`
— every push strictly lowers a non-negative integer score bounded by `#nodes · total weight`, and
`reconstruct_path_to` terminates because `came_from` is acyclic (along each link the pair (score,
time of last update) strictly decreases).  Any heuristic, any min-`pop`. -/
theorem C10_astar_terminates (pop : Pop) (hp : IsMinPop pop) (v : View) (hv : ViewArcs v) (hw : NonNeg v.g)
    (s : Nat) (isGoal : Nat → Bool) (h : Nat → Int) (fuel : Nat) (hf : astarBound v.g s ≤ fuel) :
    SP.astar pop v s isGoal h fuel ≠ .fuel :=
  astar_terminates hp hv hw s isGoal h fuel hf

/-- **astar, total correctness**: with fuel at least `astarBound` the model returns `None` exactly when
no goal node is reachable, and otherwise `(cost, path)` with `path` from `s` to a goal node along
existing arcs, `cost` the cost of a real walk to that goal and — for every admissible non-negative
heuristic, consistent or not — the distance to the nearest goal and the exact sum of the path's arc
costs. -/
theorem C10_astar (pop : Pop) (hp : IsMinPop pop) (v : View) (hv : ViewArcs v) (hw : NonNeg v.g)
    (s : Nat) (isGoal : Nat → Bool) (h : Nat → Int) (fuel : Nat) (hf : astarBound v.g s ≤ fuel) :
    (SP.astar pop v s isGoal h fuel = .notFound ↔ ∀ t, isGoal t = true → ¬ Reach v.g s t) ∧
    (SP.astar pop v s isGoal h fuel = .notFound ∨ ∃ cost p, SP.astar pop v s isGoal h fuel = .found cost p) ∧
    ∀ cost p, SP.astar pop v s isGoal h fuel = .found cost p →
      ∃ t, isGoal t = true ∧ p.head? = some s ∧ p.getLast? = some t ∧ WalkCost v.g s t cost ∧
        (Admissible v.g isGoal h →
          (∀ t' c', isGoal t' = true → WalkCost v.g s t' c' → cost ≤ c') ∧ PathCost v.g p cost) := by
  have P := C10_astar_any_fuel pop hp v hv hw s isGoal h fuel
  have T := C10_astar_terminates pop hp v hv hw s isGoal h fuel hf
  cases hr : SP.astar pop v s isGoal h fuel with
  | fuel => exact absurd hr T
  | panic => rw [hr] at P; exact absurd P id
  | notFound =>
    rw [hr] at P
    refine ⟨⟨fun _ => P, fun _ => rfl⟩, Or.inl rfl, ?_⟩
    intro cost p hcp; cases hcp
  | found cost p =>
    rw [hr] at P
    obtain ⟨t, ht, h1, h2, h3, h4, h5⟩ := P
    refine ⟨⟨fun hcp => (by cases hcp), ?_⟩, Or.inr ⟨cost, p, rfl⟩, ?_⟩
    · intro hno
      exact absurd ((DistProofs.walk_iff_reach v.g s t).mp ⟨cost, h3⟩) (hno t ht)
    · intro cost' p' hcp
      cases hcp
      exact ⟨t, ht, h1, h2, h3, h5⟩

/-- **k_shortest_path** (model of `src/algo/k_shortest_path.rs`: per-node pop counter indexed by
`to_index`, score recorded at the k-th pop), for every min-`pop`, whatever the fuel: when `to_index`
of `s` and of every arc target is below `node_bound` the counter access is never out of bounds (the
fixed defect D9 was a violation of exactly this), and every recorded score is the cost of a real walk. -/
theorem C10_kshortest_safe (pop : Pop) (hp : IsMinPop pop) (v : View) (hv : ViewArcs v) (s : Nat)
    (hix : IxOk v s) (goal : Option Nat) (k : Nat) :
    match kShortestPath pop v s goal k with
    | .done m => ∀ x c, amGet m x = some c → WalkCost v.g s x c
    | .panic => False
    | .fuel => True := by
  have K := ksp_partial hp hv s hix goal k
  cases hr : kShortestPath pop v s goal k with
  | done m => rw [hr] at K; exact K
  | panic => rw [hr] at K; exact K
  | fuel => trivial

/-- **k = 1 coincides with dijkstra** (model level): `k_shortest_path(g, s, None, 1, ..)` returns exactly
`{v ↦ shortest-walk cost | v reachable from s}` — for every min-`pop`, non-negative weights, and a
`to_index` that is injective on `s` and the arc targets. -/
theorem C10_kshortest_k1 (pop : Pop) (hp : IsMinPop pop) (v : View) (hv : ViewArcs v) (hw : NonNeg v.g)
    (s : Nat) (hix : IxOk v s) (hinj : IxInj v s) (m : List (Nat × Int))
    (h : kShortestPath pop v s none 1 = .done m) :
    (∀ x c, amGet m x = some c ↔ IsShortest v.g s x c) ∧ (∀ x, amGet m x = none ↔ ¬ Reach v.g s x) :=
  ksp_one_correct hp hv hw s hix hinj m h

/-- **k_shortest_path, every `k ≥ 1`, no goal** (model level), for every min-`pop`: the returned map is
exactly `{v ↦ cost of the k-th cheapest walk from s}` — walks with repeated vertices, parallel arcs
and the empty walk all count (`KthCost`).  Hypotheses: non-negative weights; the view's rows are the
arcs out of each node as multisets (`ViewArcsM`, checked per case by `viewOkMB`); `to_index` below
`node_bound` and injective. -/
theorem C10_kshortest (pop : Pop) (hp : IsMinPop pop) (v : View) (hvm : ViewArcsM v) (hw : NonNeg v.g)
    (s k : Nat) (hk : 1 ≤ k) (hix : IxOk v s) (hinj : IxInj v s) (m : List (Nat × Int))
    (h : kShortestPath pop v s none k = .done m) :
    ∀ x c, amGet m x = some c ↔ KthCost v.g s x k c :=
  ksp_full hp hvm hw s k hk hix hinj m h

/-- the driver's per-case checks establish the multiset view hypothesis. -/
theorem C10_view_check_multiset (v : View) (h1 : viewOkB v = true) (h2 : viewOkMB v = true) : ViewArcsM v :=
  viewOkMB_sound v h1 h2

/-- the k_shortest_path model never runs out of its fuel `k * (#edges(a) entries) + 2`: for every
min-`pop`, view, goal and `k` the loop ends with a map (or the `panic` excluded by `C10_kshortest_safe`). -/
theorem C10_kshortest_terminates (pop : Pop) (hp : IsMinPop pop) (v : View) (s : Nat) (goal : Option Nat) (k : Nat) :
    kShortestPath pop v s goal k ≠ .fuel :=
  ksp_terminates hp v s goal k

/-! ## Part 4 — `MinScored` -/

/-- `MinScored::cmp` over any float-like score type (`eq`/`lt` a strict total order on the non-NaN
elements, `false` whenever a NaN is involved): reverse of `<` on comparable scores, NaN last,
antisymmetric, `≥` transitive (a total preorder), `Equal` reflexive and transitive. -/
theorem C10_minscored_order {α : Type} (eq lt : α → α → Bool) (nan : α → Bool) (F : FloatLike eq lt nan) :
    (∀ a b, nan a = false → nan b = false →
      (minScoredCmp eq lt a b = .greater ↔ lt a b = true) ∧
      (minScoredCmp eq lt a b = .less ↔ lt b a = true) ∧
      (minScoredCmp eq lt a b = .equal ↔ eq a b = true)) ∧
    (∀ a b, nan a = true →
      (nan b = false → minScoredCmp eq lt a b = .less ∧ minScoredCmp eq lt b a = .greater) ∧
      (nan b = true → minScoredCmp eq lt a b = .equal)) ∧
    (∀ a b, minScoredCmp eq lt b a = (minScoredCmp eq lt a b).flip) ∧
    (∀ a b c, minScoredCmp eq lt a b ≠ .less → minScoredCmp eq lt b c ≠ .less → minScoredCmp eq lt a c ≠ .less) ∧
    (∀ a, minScoredCmp eq lt a a = .equal) ∧
    (∀ a b c, minScoredCmp eq lt a b = .equal → minScoredCmp eq lt b c = .equal → minScoredCmp eq lt a c = .equal) :=
  ⟨cmp_comparable F, cmp_nan F, cmp_antisymm F, cmp_trans F, cmp_refl F, cmp_equal_trans F⟩

/-- the driver's score type (integers, ±∞, NaN) is float-like, and on it the mirrored `cmp` is the
specification the judge checks the real `MinScored` against. -/
theorem C10_minscored_scores : FloatLike Score.eq Score.lt Score.isNan ∧ ∀ a b, scoreCmp a b = specCmp a b :=
  ⟨score_floatLike, scoreCmp_eq_spec⟩

example : scoreCmp .nan (.fin 3) = .less ∧ scoreCmp (.fin 1) (.fin 3) = .greater ∧ scoreCmp .nan .nan = .equal := by
  decide

/-! ## a concrete non-trivial view (used by the non-vacuity examples) -/

/-- a directed view on 4 nodes: 0→1 (2), 0→2 (0), 2→1 (1), 1→2 (0) — a zero-cost arc closing a
cycle —, a zero-cost loop 2→2, node 3 isolated; `to_index` shifted by a vacancy at position 0 -/
def exView : View :=
  { g := { directed := true, nodes := [0, 1, 2, 3],
           edges := [⟨0, 0, 1, 2⟩, ⟨1, 0, 2, 0⟩, ⟨2, 2, 1, 1⟩, ⟨3, 1, 2, 0⟩, ⟨4, 2, 2, 0⟩] },
    nb := 5, ix := [(0, 1), (1, 2), (2, 3), (3, 4)],
    out := [(0, [(2, 1), (1, 0)]), (1, [(2, 3)]), (2, [(2, 4), (1, 2)]), (3, [])],
    inn := [] }

/-! ## Part 5 — wave 4 -/

/-! ### `k_shortest_path` with a goal -/

/-- **k_shortest_path, every `k ≥ 1`, ANY goal** (model level), for every min-`pop`.  Hypotheses as in
`C10_kshortest`.  Whatever map the loop returns:
* EVERY entry is the cost of the k-th cheapest walk to its node (entries are recorded only at a k-th
  pop, so the entries of the nodes other than the goal are exact too, not merely costs of real walks);
* without goal the map is complete (`C10_kshortest`);
* with goal `t`: `t` has an entry iff it has `k` walks, and then the entry is their k-th cost (the loop
  stops at the goal's k-th pop); every node whose k-th cheapest walk is strictly cheaper than the
  goal's — every node with `k` walks when the goal has fewer — has its entry. -/
theorem C10_kshortest_goal (pop : Pop) (hp : IsMinPop pop) (v : View) (hvm : ViewArcsM v) (hw : NonNeg v.g)
    (s k : Nat) (hk : 1 ≤ k) (hix : IxOk v s) (hinj : IxInj v s) (goal : Option Nat) (m : List (Nat × Int))
    (h : kShortestPath pop v s goal k = .done m) :
    (∀ x c, amGet m x = some c → KthCost v.g s x k c) ∧
    (goal = none → ∀ x c, KthCost v.g s x k c → amGet m x = some c) ∧
    (∀ t, goal = some t →
      (∀ c, amGet m t = some c ↔ KthCost v.g s t k c) ∧
      (∀ x c, KthCost v.g s x k c → (∀ ct, KthCost v.g s t k ct → c < ct) → amGet m x = some c)) := by
  have K := ksp_goal_spec hp hvm hw s k hk hix hinj goal m h
  exact ⟨K.exact, K.all, fun t ht => ⟨K.goalEntry t ht, K.closer t ht⟩⟩

/-- non-vacuity: a goal-directed run that stops early (node 1, the farthest, has no entry) -/
example : kShortestPath popMin exView 0 (some 2) 2 = .done [(2, 0)] := by decide

/-! ### the judges are complete -/

/-- **the no-goal dijkstra judge decides its clause set**: accepted iff the map has distinct keys, holds
exactly the pairs (node, shortest-walk cost) and its key set is the reachable set. -/
theorem C10_judge_dijkstra_all_iff (g : MGraph) (s : Nat) (m : List (Nat × Int)) :
    okDijAll g s m = true ↔
      (m.map (·.1)).Nodup ∧ (∀ v y, (v, y) ∈ m ↔ IsShortest g s v y) ∧ (∀ v, (∃ y, (v, y) ∈ m) ↔ Reach g s v) :=
  ⟨dijAll_sound g s m, fun ⟨h1, h2, h3⟩ => dijAll_complete g s m h1 h2 h3⟩

/-- the reference labelling of the goal-directed judges is always certified: for non-negative weights
and arcs between nodes (both decided by `viewOkB`) `certDist` never answers `none`. -/
theorem C10_reference_total (g : MGraph) (hw : NonNeg g) (hin : ArcsIn g) (s : Nat) : ∃ d, certDist g s = some d :=
  certDist_total hw hin s

/-- **the goal-directed dijkstra judge decides its clause set** (non-negative weights, arcs between
nodes). -/
theorem C10_judge_dijkstra_goal_iff (g : MGraph) (hw : NonNeg g) (hin : ArcsIn g) (s t : Nat) (m : List (Nat × Int)) :
    okDijGoal g s t m = true ↔
      (m.map (·.1)).Nodup ∧
      (∀ y, (t, y) ∈ m ↔ IsShortest g s t y) ∧
      ((∀ y, (t, y) ∉ m) ↔ ¬ Reach g s t) ∧
      (∀ v c, (v, c) ∈ m → ∃ y, IsShortest g s v y ∧ y ≤ c) ∧
      (∀ v y, IsShortest g s v y → (∀ yt, IsShortest g s t yt → y < yt) → (v, y) ∈ m) := by
  constructor
  · exact dijGoal_sound g s t m
  · rintro ⟨h1, h2, _, h4, h5⟩
    obtain ⟨d, hd⟩ := certDist_total hw hin s
    exact dijGoal_complete g s t m d hd h1 h2 h4 h5

/-- **the astar judge decides its clause sets** (non-negative weights, arcs between nodes): `None` is
accepted iff no goal is reachable; `Some((c, p))` iff `p` starts at `s`, follows arcs whose costs sum to
`c`, ends at a goal, and no walk to any goal is cheaper than `c`. -/
theorem C10_judge_astar_iff (g : MGraph) (hw : NonNeg g) (hin : ArcsIn g) (s : Nat) (goals : List Nat) :
    (okAstar g s goals none = true ↔ ∀ t ∈ goals, ¬ Reach g s t) ∧
    (∀ c p, okAstar g s goals (some (c, p)) = true ↔
      p.head? = some s ∧ PathCost g p c ∧
      (∃ t, p.getLast? = some t ∧ t ∈ goals ∧ WalkCost g s t c) ∧
      (∀ t' ∈ goals, ∀ c', WalkCost g s t' c' → c ≤ c')) := by
  obtain ⟨d, hd⟩ := certDist_total hw hin s
  refine ⟨⟨astar_none_sound g s goals, astar_none_complete g s goals d hd⟩, ?_⟩
  intro c p
  constructor
  · exact astar_some_sound g s goals c p
  · rintro ⟨h1, h2, ⟨t, ht, htg, _⟩, h4⟩
    exact astar_some_complete g s goals c p d hd h1 h2 ⟨t, ht, htg⟩ h4

/-- **the k-walk oracle is total on every checked view**: with the fuel the driver gives it
(`oracleFuel v k ≥ kspFuel v k + 1`) the dynamic programme reaches its fixed point — the no-goal run of
the mirror model, which terminates within `kspFuel v k` pops, bounds the number of arcs after which the
`k` cheapest walk costs no longer change.  With `C10_oracle_kth_walkF` the table is then exact. -/
theorem C10_oracle_total (v : View) (hvm : ViewArcsM v) (hw : NonNeg v.g) (s k : Nat) (hk : 1 ≤ k)
    (hix : IxOk v s) (hinj : IxInj v s) (fuel : Nat) (hf : kspFuel v k + 1 ≤ fuel) :
    ∃ T, kWalksF fuel v.g s k = some T :=
  kWalksF_total hvm hw s k hk hix hinj fuel hf

/-- `C10_oracle_kth_walk` for any fuel -/
theorem C10_oracle_kth_walkF (fuel : Nat) (g : MGraph) (s k : Nat) (T : KTable) (h : kWalksF fuel g s k = some T)
    (hk : 1 ≤ k) (v : Nat) (c : Int) : (kRow T v)[k - 1]? = some c ↔ KthCost g s v k c :=
  kWalksF_kth h hk v c

/-- `C10_judge_k_shortest_path` for any fuel of the oracle (the driver uses `oracleFuel v k`): soundness
of the judge for ALL graphs, all answers, all fuels. -/
theorem C10_judge_k_shortest_pathF (fuel : Nat) (g : MGraph) (s : Nat) (goal : Option Nat) (k : Nat)
    (m : List (Nat × Int)) (h : okKspF fuel g s goal k m = true) :
    1 ≤ k ∧ (m.map (·.1)).Nodup ∧
    (∀ v c, (v, c) ∈ m → KthCost g s v k c) ∧
    (goal = none → ∀ v c, KthCost g s v k c → (v, c) ∈ m) ∧
    (∀ t, goal = some t → ((∃ c, (t, c) ∈ m) ↔ ∃ c, KthCost g s t k c)) ∧
    (k = 1 → goal = none → ∀ v c, (v, c) ∈ m ↔ IsShortest g s v c) :=
  okKspF_sound fuel g s goal k m h

/-- **the k_shortest_path judge decides its clause set** on every checked view, with any fuel above
`kspFuel v k` (soundness alone holds for every graph and every fuel: `C10_judge_k_shortest_path`). -/
theorem C10_judge_k_shortest_path_iff (v : View) (hvm : ViewArcsM v) (hw : NonNeg v.g) (s : Nat)
    (hix : IxOk v s) (hinj : IxInj v s) (goal : Option Nat) (k : Nat) (fuel : Nat) (hf : kspFuel v k + 1 ≤ fuel)
    (m : List (Nat × Int)) :
    okKspF fuel v.g s goal k m = true ↔
      1 ≤ k ∧ (m.map (·.1)).Nodup ∧
      (∀ x c, (x, c) ∈ m → KthCost v.g s x k c) ∧
      (goal = none → ∀ x c, KthCost v.g s x k c → (x, c) ∈ m) ∧
      (∀ t, goal = some t → ((∃ c, (t, c) ∈ m) ↔ ∃ c, KthCost v.g s t k c)) ∧
      (k = 1 → goal = none → ∀ x c, (x, c) ∈ m ↔ IsShortest v.g s x c) := by
  constructor
  · exact okKspF_sound fuel v.g s goal k m
  · rintro ⟨hk, h2, h3, h4, h5, _⟩
    obtain ⟨T, hT⟩ := kWalksF_total hvm hw s k hk hix hinj fuel hf
    exact okKspF_complete fuel v.g hw s goal k m T hT hk h2 h3 h4 h5

/-! ### bounded cost types -/

/-- **unsigned bounded costs** (`u32`, `u64`; floats within their exact range): the run of the model whose
every `+` is the overflow-checked addition `addB M` (defined iff `0 ≤ a + b ≤ M`; debug builds panic
otherwise), if it does not abort, returns exactly the result of the `Int` model — to which all
theorems above apply — and exactly the result of the run with wrapping addition `addW M` (release
builds).  For every `pop`, view, and request.  "No computed cost exceeds `M`" is the statement that the
`addB M` run does not abort; the driver evaluates it on every call (`C10_driver_*`). -/
theorem C10_bounded_costs (M : Int) (pop : Pop) (v : View) (s : Nat) :
    (∀ goal r, dijkstraG (addB M) pop v s goal = some r →
      r = SP.dijkstra pop v s goal ∧ dijkstraG (addW M) pop v s goal = some r) ∧
    (∀ isGoal h fuel r, astarG (addB M) pop v s isGoal h fuel = some r →
      r = SP.astar pop v s isGoal h fuel ∧ astarG (addW M) pop v s isGoal h fuel = some r) ∧
    (∀ goal k r, kShortestPathG (addB M) pop v s goal k = some r →
      r = kShortestPath pop v s goal k ∧ kShortestPathG (addW M) pop v s goal k = some r) := by
  refine ⟨?_, ?_, ?_⟩
  · intro goal r h
    have h1 := dijkstraG_mono (addB_le_addInt M) pop v s goal r h
    rw [dijkstraG_int] at h1
    exact ⟨(Option.some.inj h1).symm, dijkstraG_mono (addB_le_addW M) pop v s goal r h⟩
  · intro isGoal hh fuel r h
    have h1 := astarG_mono (addB_le_addInt M) pop v s isGoal hh fuel r h
    rw [astarG_int] at h1
    exact ⟨(Option.some.inj h1).symm, astarG_mono (addB_le_addW M) pop v s isGoal hh fuel r h⟩
  · intro goal k r h
    have h1 := kShortestPathG_mono (addB_le_addInt M) pop v s goal k r h
    rw [kShortestPathG_int] at h1
    exact ⟨(Option.some.inj h1).symm, kShortestPathG_mono (addB_le_addW M) pop v s goal k r h⟩

/-- a larger type never aborts where a smaller one does not -/
theorem C10_bounded_mono (M M' : Int) (hM : M ≤ M') (pop : Pop) (v : View) (s : Nat) (goal : Option Nat)
    (r : Option (List (Nat × Int))) (h : dijkstraG (addB M) pop v s goal = some r) :
    dijkstraG (addB M') pop v s goal = some r :=
  dijkstraG_mono (addB_mono hM) pop v s goal r h

/-- **"no path cost exceeds max" ⇒ the bounded run is the `Int` run** (dijkstra): if no shortest-walk cost
from `s`, extended by one more arc, exceeds `M` (`DijFits`; every sum dijkstra computes is of this
form), then for every min-`pop` the overflow-checked model does not abort, so it — and the wrapping
model — return exactly what the `Int` model returns. -/
theorem C10_bounded_dijkstra_fits (pop : Pop) (hp : IsMinPop pop) (v : View) (hv : ViewArcs v) (hw : NonNeg v.g)
    (s : Nat) (M : Int) (hfit : DijFits v.g s M) (goal : Option Nat) :
    dijkstraG (addB M) pop v s goal = some (SP.dijkstra pop v s goal) ∧
    dijkstraG (addW M) pop v s goal = some (SP.dijkstra pop v s goal) := by
  have h := dijkstraG_fits hp hv hw s M hfit goal
  exact ⟨h, dijkstraG_mono (addB_le_addW M) pop v s goal _ h⟩

/-- **"no path cost exceeds max" ⇒ the bounded run is the `Int` run** (k_shortest_path, any goal): if no
cost of a j-th cheapest walk from `s` (`1 ≤ j ≤ k`), extended by one more arc, exceeds `M` (`KspFits`;
every sum the algorithm computes is of this form: the j-th pop of a node carries the cost of its j-th
cheapest walk), the overflow-checked model does not abort. -/
theorem C10_bounded_kshortest_fits (pop : Pop) (hp : IsMinPop pop) (v : View) (hvm : ViewArcsM v) (hw : NonNeg v.g)
    (s k : Nat) (hk : 1 ≤ k) (hix : IxOk v s) (hinj : IxInj v s) (M : Int) (hfit : KspFits v.g s k M)
    (goal : Option Nat) :
    kShortestPathG (addB M) pop v s goal k = some (kShortestPath pop v s goal k) ∧
    kShortestPathG (addW M) pop v s goal k = some (kShortestPath pop v s goal k) := by
  have h := kShortestPathG_fits hp hvm hw s k hk hix hinj M hfit goal
  exact ⟨h, kShortestPathG_mono (addB_le_addW M) pop v s goal k _ h⟩

/-- `KspFits` is decided from the k-walk oracle -/
theorem C10_kshortest_fits_check (fuel : Nat) (g : MGraph) (s k : Nat) (M : Int) (h : kspFitsB fuel g s k M = true) :
    KspFits g s k M :=
  kspFitsB_sound fuel g s k M h

example : kspFitsB 20 exView.g 0 2 3 = true := by decide

/-- … and **astar**, by a static bound: a heuristic with values in `0..H` and `#adom · totalW + H ≤ M`
(`AstarFits`; every g-score is at most `(#adom − 1) · totalW`) never aborts the overflow-checked model.
Any `pop`, any fuel. -/
theorem C10_bounded_astar_fits (pop : Pop) (v : View) (hv : ViewArcs v) (hw : NonNeg v.g)
    (s : Nat) (isGoal : Nat → Bool) (h : Nat → Int) (M : Int) (hfit : AstarFits v.g s h M) (fuel : Nat) :
    astarG (addB M) pop v s isGoal h fuel = some (SP.astar pop v s isGoal h fuel) ∧
    astarG (addW M) pop v s isGoal h fuel = some (SP.astar pop v s isGoal h fuel) := by
  have hh := astarG_fits (pop := pop) hv hw s isGoal h M hfit fuel
  exact ⟨hh, astarG_mono (addB_le_addW M) pop v s isGoal h fuel _ hh⟩

/-- non-vacuity of `AstarFits`: `exView` (`#adom` = source + 5 arc targets = 6, total weight 3), `h = 0`, `M = 18` -/
example : AstarFits exView.g 0 (fun _ => 0) 18 := ⟨0, fun _ => ⟨Int.le_refl _, Int.le_refl _⟩, by decide⟩

/-- `DijFits` is decided from the certified distances -/
theorem C10_dijkstra_fits_check (g : MGraph) (s : Nat) (M : Int) (h : dijFitsB g s M = true) : DijFits g s M :=
  dijFitsB_sound g s M h

example : dijFitsB exView.g 0 2 = true ∧ dijFitsB exView.g 0 1 = false := by decide

/-- non-vacuity: the run on `exView` fits in a type with largest value 2 (the largest sum is
0 + 2), and aborts in a type with largest value 1 -/
example : dijkstraG (addB 2) popMin exView 0 none = some (some [(0, 0), (2, 0), (1, 1)]) ∧
    dijkstraG (addB 1) popMin exView 0 none = none := by decide

/-! ### run-time checks of the hypotheses

Every hypothesis of the model theorems that concerns the concrete case is an executable Boolean the
driver evaluates before it judges a call (`Driver/C10.lean`); here: Boolean ⇒ hypothesis.
`C10_view_check`, `C10_view_check_multiset`, `C10_index_check` and `C10_popMin_isMinPop` above belong to
this list. -/

/-- `nonNegB` (also part of `viewOkB`): the property's precondition -/
theorem C10_nonneg_check (g : MGraph) (h : nonNegB g = true) : NonNeg g := nonNegB_sound g h

/-- `viewOkB`: arcs join nodes (needed by the totality of the reference labelling) -/
theorem C10_arcs_check (v : View) (h : viewOkB v = true) : ArcsIn v.g := viewOkB_arcsIn v h

/-- `srcOkB`: the source of the request is a node (hypothesis of `C10_index_check`) -/
theorem C10_source_check (v : View) (s : Nat) (h : srcOkB v s = true) : s ∈ v.g.nodes := srcOkB_sound v s h

/-- `admissibleB`: the heuristic table of an astar request, as the function `hFun` the model is run with,
is admissible and non-negative -/
theorem C10_admissible_check (g : MGraph) (hw : NonNeg g) (goals : List Nat) (hl : List (Nat × Int))
    (h : admissibleB g goals hl = true) : Admissible g (fun x => goals.contains x) (hFun hl) :=
  admissibleB_sound g hw goals hl h

/-- … and `admissibleB` rejects only heuristics that are really inadmissible or negative: the reference
labellings of the reversed graph it consults are always certified on a checked view -/
theorem C10_admissible_reference_total (v : View) (h : viewOkB v = true) (t : Nat) :
    ∃ d, certDist v.g.reverse t = some d :=
  certDist_reverse_total v h t

/-- the fuel the driver gives the k-walk oracle is above the proved bound -/
theorem C10_oracle_fuel_check (v : View) (k : Nat) : kspFuel v k + 1 ≤ oracleFuel v k := oracleFuel_ge v k

/-- **instantiation for the driver's heap discipline**: whatever is proved for every `pop` that returns
some entry of minimal score holds for `popMin` (oldest minimal entry first), the `pop` the driver's
mirror models run with.  `C10_driver_dijkstra`, `C10_driver_astar` and `C10_driver_k_shortest_path` below
are the instances of all model theorems, with the Boolean run-time checks as hypotheses. -/
theorem C10_popMin_instance {P : Pop → Prop} (h : ∀ pop, IsMinPop pop → P pop) : P popMin :=
  h popMin popMin_isMinPop

/-! ### the driver-level theorems: everything instantiated once

For the concrete heap discipline `popMin` of the driver, the overflow-checked addition of the
request's cost type, and the Boolean checks as the only hypotheses: every call the driver judges is
inside the scope of the model theorems. -/

/-- **dijkstra, as the driver runs it.**  If the per-case checks pass and the overflow-checked run does
not abort, it returns a map `m`, `m` is also what the `Int` model and the wrapping run return, and `m`
satisfies every clause of the property. -/
theorem C10_driver_dijkstra (v : View) (hv : viewOkB v = true) (M : Int) (s : Nat) (goal : Option Nat)
    (r : Option (List (Nat × Int))) (h : dijkstraG (addB M) popMin v s goal = some r) :
    ∃ m, r = some m ∧ SP.dijkstra popMin v s goal = some m ∧ dijkstraG (addW M) popMin v s goal = some (some m) ∧
      (∀ x y, amGet m x = some y → WalkCost v.g s x y) ∧
      (goal = none → (∀ x y, amGet m x = some y ↔ IsShortest v.g s x y) ∧ (∀ x, amGet m x = none ↔ ¬ Reach v.g s x)) ∧
      (∀ t, goal = some t →
        (∀ y, amGet m t = some y ↔ IsShortest v.g s t y) ∧ (amGet m t = none ↔ ¬ Reach v.g s t) ∧
        (∀ x y, IsShortest v.g s x y → (∀ yt, IsShortest v.g s t yt → y < yt) → amGet m x = some y)) := by
  obtain ⟨hva, hw⟩ := C10_view_check v hv
  obtain ⟨hr, hwrap⟩ := (C10_bounded_costs M popMin v s).1 goal r h
  obtain ⟨m, hm⟩ := C10_dijkstra_terminates popMin popMin_isMinPop v s goal
  have hrm : r = some m := by rw [hr, hm]
  subst hrm
  exact ⟨m, rfl, hm, hwrap, C10_dijkstra popMin popMin_isMinPop v hva hw s goal m hm⟩

/-- **astar, as the driver runs it** (fuel `astarBound`, heuristic table checked by `admissibleB`): never
aborts with `panic` or `fuel`; `None` iff no goal is reachable; a returned `(cost, path)` is a path from
`s` to a goal along existing arcs whose costs sum to `cost`, the distance to the nearest goal. -/
theorem C10_driver_astar (v : View) (hv : viewOkB v = true) (M : Int) (s : Nat) (goals : List Nat)
    (hl : List (Nat × Int)) (hadm : admissibleB v.g goals hl = true) (r : AResult)
    (h : astarG (addB M) popMin v s (fun x => goals.contains x) (hFun hl) (astarBound v.g s) = some r) :
    r = SP.astar popMin v s (fun x => goals.contains x) (hFun hl) (astarBound v.g s) ∧
    astarG (addW M) popMin v s (fun x => goals.contains x) (hFun hl) (astarBound v.g s) = some r ∧
    (r = .notFound ↔ ∀ t ∈ goals, ¬ Reach v.g s t) ∧
    (r = .notFound ∨ ∃ cost p, r = .found cost p) ∧
    (∀ cost p, r = .found cost p →
      ∃ t ∈ goals, p.head? = some s ∧ p.getLast? = some t ∧ WalkCost v.g s t cost ∧ PathCost v.g p cost ∧
        ∀ t' ∈ goals, ∀ c', WalkCost v.g s t' c' → cost ≤ c') := by
  obtain ⟨hva, hw⟩ := C10_view_check v hv
  obtain ⟨hr, hwrap⟩ := (C10_bounded_costs M popMin v s).2.1 _ _ _ r h
  have A := C10_astar popMin popMin_isMinPop v hva hw s (fun x => goals.contains x) (hFun hl) (astarBound v.g s)
    (Nat.le_refl _)
  have hA := C10_admissible_check v.g hw goals hl hadm
  rw [← hr] at A
  obtain ⟨A1, A2, A3⟩ := A
  refine ⟨hr, hwrap, ?_, A2, ?_⟩
  · rw [A1]
    constructor
    · intro hh t ht; exact hh t (by simpa using ht)
    · intro hh t ht; exact hh t (by simpa using ht)
  · intro cost p hcp
    obtain ⟨t, ht, h1, h2, h3, h4⟩ := A3 cost p hcp
    obtain ⟨hopt, hpc⟩ := h4 hA
    refine ⟨t, by simpa using ht, h1, h2, h3, hpc, ?_⟩
    intro t' ht' c' hc'
    exact hopt t' c' (by simpa using ht') hc'

/-- **k_shortest_path, as the driver runs it** (any goal, `k ≥ 1`; checks `viewOkB`, `viewOkMB`, `ixOkB`,
`srcOkB`): never `panic`, never `fuel`; the returned map satisfies every clause of
`C10_kshortest_goal`; and the k-walk oracle the judge uses is total and exact. -/
theorem C10_driver_k_shortest_path (v : View) (hv : viewOkB v = true) (hvm : viewOkMB v = true)
    (hix : ixOkB v = true) (M : Int) (s : Nat) (hs : srcOkB v s = true) (goal : Option Nat) (k : Nat) (hk : 1 ≤ k)
    (r : KResult) (h : kShortestPathG (addB M) popMin v s goal k = some r) :
    ∃ m, r = .done m ∧ kShortestPath popMin v s goal k = .done m ∧
      kShortestPathG (addW M) popMin v s goal k = some (.done m) ∧
      (∀ x c, amGet m x = some c → KthCost v.g s x k c) ∧
      (goal = none → ∀ x c, amGet m x = some c ↔ KthCost v.g s x k c) ∧
      (∀ t, goal = some t →
        (∀ c, amGet m t = some c ↔ KthCost v.g s t k c) ∧
        (∀ x c, KthCost v.g s x k c → (∀ ct, KthCost v.g s t k ct → c < ct) → amGet m x = some c)) ∧
      (∃ T, kWalksF (oracleFuel v k) v.g s k = some T ∧
        ∀ x c, (kRow T x)[k - 1]? = some c ↔ KthCost v.g s x k c) := by
  obtain ⟨hva, hw⟩ := C10_view_check v hv
  have hM := C10_view_check_multiset v hv hvm
  obtain ⟨hio, hii⟩ := C10_index_check v hv hix s (C10_source_check v s hs)
  obtain ⟨hr, hwrap⟩ := (C10_bounded_costs M popMin v s).2.2 goal k r h
  have hsafe := C10_kshortest_safe popMin popMin_isMinPop v hva s hio goal k
  have hterm := C10_kshortest_terminates popMin popMin_isMinPop v s goal k
  rw [← hr] at hsafe hterm
  cases r with
  | fuel => exact absurd rfl hterm
  | panic => exact absurd hsafe id
  | done m =>
    have G := C10_kshortest_goal popMin popMin_isMinPop v hM hw s k hk hio hii goal m hr.symm
    obtain ⟨T, hT⟩ := C10_oracle_total v hM hw s k hk hio hii (oracleFuel v k) (C10_oracle_fuel_check v k)
    refine ⟨m, rfl, hr.symm, hwrap, G.1, ?_, G.2.2, T, hT, C10_oracle_kth_walkF _ v.g s k T hT hk⟩
    intro hg x c
    exact ⟨G.1 x c, G.2.1 hg x c⟩

/-! ## Part 6 — wave 6: `+∞` costs and the classified views -/

/-- an inf-costing graph for the examples: 0→1 (3), 1→2 (`S` = +∞), 0→3 (`S`), S = 100 -/
def exInf : MGraph := { directed := true, nodes := [0, 1, 2, 3], edges := [⟨0, 0, 1, 3⟩, ⟨1, 1, 2, 100⟩, ⟨2, 0, 3, 100⟩] }

/-- `dijkstra(g, s, None, ..)` with `+∞` costs (`f64inf` requests; `S` is the sentinel that stands for `+∞`, answers
`inf` are read as `S`): an accepted map has distinct keys, its key set is exactly the reachable set, and its entries
are exactly the true shortest-walk costs with everything `≥ S` collapsed to `S`. -/
theorem C10_judge_dijkstra_inf (S : Int) (g : MGraph) (s : Nat) (m : List (Nat × Int)) (h : okDijInf S g s m = true) :
    (m.map (·.1)).Nodup ∧
    (∀ v c, (v, c) ∈ m ↔ ∃ y, IsShortest g s v y ∧ c = canonInf S y) ∧
    (∀ v, (∃ c, (v, c) ∈ m) ↔ Reach g s v) :=
  dijInf_sound S g s m h

example : okDijInf 100 exInf 0 [(0, 0), (1, 3), (2, 100), (3, 100)] = true := by decide
example : okDijInf 100 exInf 0 [(0, 0), (1, 3), (2, 103), (3, 100)] = false := by decide
example : okDijInf 100 exInf 0 [(0, 0), (1, 3), (3, 100)] = false := by decide

/-- what the collapsed value says: an entry is `+∞` iff EVERY walk to the node costs at least the sentinel, and a
finite entry is the exact shortest-walk cost. -/
theorem C10_inf_meaning (S : Int) (g : MGraph) (s v : Nat) (y : Int) (h : IsShortest g s v y) :
    (canonInf S y = S ↔ ∀ c, WalkCost g s v c → S ≤ c) ∧ (canonInf S y ≠ S → canonInf S y = y) := by
  constructor
  · constructor
    · intro hc c hw
      have hy : S ≤ y := by
        by_cases hy : S ≤ y
        · exact hy
        · rw [canonInf_of_lt (by omega)] at hc; omega
      exact Int.le_trans hy (h.2 c hw)
    · intro hall
      exact canonInf_of_le (hall y h.1)
  · intro hne
    by_cases hy : S ≤ y
    · exact absurd (canonInf_of_le hy) hne
    · exact canonInf_of_lt (by omega)

/-- a map without `+∞` entries is judged exactly as by the ordinary judge -/
theorem C10_judge_inf_finite (S : Int) (g : MGraph) (s : Nat) (m : List (Nat × Int)) (h : okDijInf S g s m = true)
    (hfin : ∀ v c, (v, c) ∈ m → c < S) : ∀ v c, (v, c) ∈ m ↔ IsShortest g s v c := by
  have hs := (C10_judge_dijkstra_inf S g s m h).2.1
  intro v c
  constructor
  · intro hm
    obtain ⟨y, hy, hc⟩ := (hs v c).mp hm
    have hlt := hfin v c hm
    have : y < S := by
      by_cases hy' : S ≤ y
      · rw [canonInf_of_le hy'] at hc; omega
      · omega
    rw [canonInf_of_lt this] at hc
    subst hc; exact hy
  · intro hy
    by_cases hc : S ≤ c
    · have hm := (hs v S).mpr ⟨c, hy, (canonInf_of_le hc).symm⟩
      exact absurd (hfin v S hm) (by omega)
    · exact (hs v c).mpr ⟨c, hy, (canonInf_of_lt (by omega)).symm⟩

/-- `k_shortest_path(g, s, None, k, ..)` with `+∞` costs: `k ≥ 1`, distinct keys, and the entries are exactly the
k-th cheapest walk costs collapsed at the sentinel (so exactly the nodes with `k` walks have an entry). -/
theorem C10_judge_k_shortest_path_inf (S : Int) (fuel : Nat) (g : MGraph) (s k : Nat) (m : List (Nat × Int))
    (h : okKspInfF S fuel g s k m = true) :
    1 ≤ k ∧ (m.map (·.1)).Nodup ∧
    (∀ v c, (v, c) ∈ m ↔ ∃ y, KthCost g s v k y ∧ c = canonInf S y) :=
  kspInf_sound S fuel g s k m h

example : okKspInfF 100 20 exInf 0 1 [(0, 0), (1, 3), (2, 100), (3, 100)] = true := by decide
example : okKspInfF 100 20 exInf 0 2 [] = true := by decide

/-- `astar` with `+∞` costs, answer `None`: no goal is reachable. -/
theorem C10_judge_astar_inf_none (S : Int) (g : MGraph) (s : Nat) (goals : List Nat) (h : okAstarInf S g s goals none = true) :
    ∀ t ∈ goals, ¬ Reach g s t :=
  astarInf_none_sound S g s goals h

/-- `astar` with `+∞` costs, answer `Some((c, p))`: `p` is a real path from `s` to a goal; its arc costs sum to some
`pc`, the reported cost is `pc` collapsed at the sentinel (`inf` iff `pc ≥ S`), and no walk to any goal is cheaper
after collapsing: a finite `c` is the exact nearest-goal distance, `c = S` (`inf`) says every walk to every goal
costs at least `S` (all paths through a `+∞` arc are equally good, the implementation may return any of them). -/
theorem C10_judge_astar_inf_some (S : Int) (g : MGraph) (s : Nat) (goals : List Nat) (c : Int) (p : List Nat)
    (h : okAstarInf S g s goals (some (c, p)) = true) :
    ∃ pc, c = canonInf S pc ∧ p.head? = some s ∧ PathCost g p pc ∧
      (∃ t, p.getLast? = some t ∧ t ∈ goals ∧ WalkCost g s t pc) ∧
      (∀ t' ∈ goals, ∀ c', WalkCost g s t' c' → c ≤ canonInf S c') ∧
      (c < S → ∀ t' ∈ goals, ∀ c', WalkCost g s t' c' → c ≤ c') :=
  astarInf_some_sound S g s goals c p h

example : okAstarInf 100 exInf 0 [2] (some (100, [0, 1, 2])) = true := by decide
example : okAstarInf 100 exInf 0 [1, 2] (some (3, [0, 1])) = true := by decide
example : okAstarInf 100 exInf 0 [2] (some (103, [0, 1, 2])) = false := by decide
example : okAstarInf 100 exInf 0 [1, 2] (some (100, [0, 1, 2])) = false := by decide

/-- collapsing is monotone, idempotent and the identity below the sentinel (so the exact comparison of a collapsed
model answer with the implementation's is meaningful) -/
theorem C10_canonInf_laws (S a b : Int) :
    (a ≤ b → canonInf S a ≤ canonInf S b) ∧ canonInf S (canonInf S a) = canonInf S a ∧ (a < S → canonInf S a = a) ∧
    canonInf S a ≤ S :=
  ⟨canonInf_mono, canonInf_idem S a, canonInf_of_lt, canonInf_le S a⟩

/-- the classifier of the open finding D23 (consulted by the driver only for a view that failed `viewOkB`/`viewOkMB`
under an `ua(..)` encoding) pins every row: the row of `a` has one entry per edge out of `a` plus one per edge INTO
`a` — a loop therefore counts twice. -/
theorem C10_known_d23_shape (g : MGraph) (rows : List (Nat × List (Nat × Nat))) (h : d23Shape g rows = true)
    (a : Nat) (ha : a ∈ g.nodes) :
    ∃ r, rows.lookup a = some r ∧
      r.length = (g.edges.filter (·.src == a)).length + (g.edges.filter (·.tgt == a)).length :=
  d23Shape_row_length g rows h a ha

/-- the classifier of the open finding D6 under `Reversed(&MatrixGraph)`: every entry of every row has `target = a`. -/
theorem C10_known_d6_shape (g : MGraph) (rows : List (Nat × List (Nat × Nat))) (h : d6Shape g rows = true)
    (a : Nat) (ha : a ∈ g.nodes) :
    ∃ r, rows.lookup a = some r ∧ r.length = (g.edges.filter (·.src == a)).length ∧ ∀ x ∈ r, x.1 = a :=
  d6Shape_rows_self g rows h a ha

-- digraph 1→0 (5), 1→2 (7), loop 0→0 (1) declared undirected: the rows `UndirectedAdaptor` produces today
example : d23Shape { directed := false, nodes := [0, 1, 2], edges := [⟨0, 1, 0, 5⟩, ⟨1, 1, 2, 7⟩, ⟨2, 0, 0, 1⟩] }
    [(0, [(0, 5), (0, 1), (0, 1)]), (1, [(0, 5), (2, 7)]), (2, [(2, 7)])] = true := by decide
-- … and a correct symmetric view is not of that shape
example : d23Shape { directed := false, nodes := [0, 1, 2], edges := [⟨0, 1, 0, 5⟩, ⟨1, 1, 2, 7⟩] }
    [(0, [(1, 5)]), (1, [(0, 5), (2, 7)]), (2, [(1, 7)])] = false := by decide
example : d6Shape { directed := true, nodes := [0, 1], edges := [⟨0, 0, 1, 5⟩] } [(0, [(0, 5)]), (1, [])] = true := by decide
example : d6Shape { directed := true, nodes := [0, 1], edges := [⟨0, 0, 1, 5⟩] } [(0, [(1, 5)]), (1, [])] = false := by decide

/-! ## the hypotheses are satisfiable: a concrete non-trivial view -/

example : viewOkB exView = true ∧ viewOkMB exView = true ∧ ixOkB exView = true := by decide
example : srcOkB exView 0 = true ∧ nonNegB exView.g = true ∧ admissibleB exView.g [1] [(0, 1), (2, 1)] = true := by decide
example : okKspF (oracleFuel exView 2) exView.g 0 (some 2) 2 [(2, 0)] = true := by decide
example : SP.dijkstra popMin exView 0 none = some [(0, 0), (2, 0), (1, 1)] := by decide
example : okDijAll exView.g 0 [(0, 0), (2, 0), (1, 1)] = true := by decide
example : SP.astar popMin exView 0 (fun x => x == 1) (fun _ => 0) 100 = .found 1 [0, 2, 1] := by decide
example : okAstar exView.g 0 [1] (some (1, [0, 2, 1])) = true := by decide
example : kShortestPath popMin exView 0 none 2 = .done [(2, 0), (1, 1)] := by decide
example : okKsp exView.g 0 none 2 [(2, 0), (1, 1)] = true := by decide

end PetgraphModel.C10T
