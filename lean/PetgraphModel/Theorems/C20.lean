import PetgraphModel.Proofs.C20Base
import PetgraphModel.Proofs.C20Fas
import PetgraphModel.Proofs.C20Tred
import PetgraphModel.Proofs.C20Paths
import PetgraphModel.Proofs.C20Steiner
import PetgraphModel.Proofs.C20PageRank
import PetgraphModel.Proofs.C20Dsatur
import PetgraphModel.Proofs.C20PathsModel
import PetgraphModel.Proofs.C20TredModel
import PetgraphModel.Proofs.C20W2Fas
import PetgraphModel.Proofs.C20W2Dsatur
import PetgraphModel.Proofs.C20W2Tred
import PetgraphModel.Proofs.C20W2Paths
import PetgraphModel.Proofs.C20W3Tred
import PetgraphModel.Proofs.C20W3TredNodup
import PetgraphModel.Proofs.C20W3Cliques
import PetgraphModel.Proofs.C20W3Dsatur
import PetgraphModel.Proofs.C20W3DsaturLag
import PetgraphModel.Proofs.C20W3Oracles
import PetgraphModel.Proofs.C20W3PathsTotal
import PetgraphModel.Proofs.C20W3PathsCycle
import PetgraphModel.Proofs.C20W4Steiner
import PetgraphModel.Proofs.C20W4SteinerConn
import PetgraphModel.Proofs.C20W4SteinerTop
import PetgraphModel.Proofs.C20W4SteinerTotal
import PetgraphModel.Proofs.C20W4Cycles
import PetgraphModel.Proofs.C20W4Scope
import PetgraphModel.Proofs.C20W4DsaturBin
import PetgraphModel.Proofs.C20W4DsaturBinTotal
import PetgraphModel.Proofs.C20W4CliquesRun
import PetgraphModel.Proofs.C20W6Corners
/-
C20 — cliques, colouring, feedback arcs, reduction/closure, simple paths, Steiner tree, PageRank.

Two kinds of theorems:

* **verified checkers** — for every judge of `Oracle/C20Judge.lean` that `./check C20` runs on the
  implementation's answers: *accepted ⇒ the clause of the property holds*, for ALL graphs and ALL
  answers (no size bound; the bounds of the harness apply to the search only).  The judges are built
  from decidable clauses, the proved reachability oracle (`Oracle/Reach.lean`) and the definitional
  enumerators `subsets` / `seqs`, whose completeness is proved here too.
* **model theorems** — about the mirror models of `Model/C20.lean`, which the correspondence run ties
  to /repo exactly: the feedback-arc argument for ANY node sequence, correctness of the mirrored
  `greedy_feedback_arc_set` for every input, and the rational PageRank model (non-negative, sums to
  1, equivariant under relabelling).

What is proved about the ALGORITHM (a mirror model), per function (wave 3 closed the gaps an
independent audit listed; section "wave 3" at the end of this file):

| function                                   | theorem about the algorithm                                        |
|--------------------------------------------|--------------------------------------------------------------------|
| greedy_feedback_arc_set                    | `C20_fas_model_correct`, `C20_fas_total`                           |
| dsatur_coloring                            | `C20_dsatur_heap_model` (the heap with lazy deletion, any tie-breaking), `C20_dsatur_exact_mirror` (wave 4: the mirror with std's `BinaryHeap` that the driver compares exactly); `C20_dsatur_any_order` / `C20_dsatur_bipartite` are about a caller-supplied pop order |
| dag_to_toposorted_adjacency_list           | `C20_tred_toposorted` (rows), `C20_tred_revmap` (revmap)           |
| dag_transitive_reduction_closure           | `C20_tred_model_correct`; composed: `C20_tred_end_to_end`          |
| maximal_cliques                            | `C20_cliques_model_exact` (Bron–Kerbosch with pivoting, any pivot in P ∪ X, any exploration order) |
| all_simple_paths                           | `C20_paths_model_exact` (from ≠ to), `C20_paths_from_eq_to`, `C20_paths_model_total` |
| steiner_tree                               | `C20_steiner_model_spec` (wave 4: every hash order — inside the graph, every terminal, connected, only terminals as leaves), `C20_steiner_model_D21` (a run with a cycle: D21 is open); the 2-approximation is `C20_steiner_two_approx_statement` (judged per run) |
| page_rank                                  | `C20_pagerank_sum`, `C20_pagerank_equivariant`, `C20_pagerank_defined` (exact rationals) |
-/
namespace PetgraphModel.C20T
open PetgraphModel PetgraphModel.MGraph PetgraphModel.C20

/-! ## enumerators (definitional oracles are complete) -/

/-- `subsets l` lists exactly the sublists of `l` (every subset of a duplicate-free node/edge list). -/
theorem C20_subsets_complete {α : Type} (s l : List α) : s ∈ subsets l ↔ s.Sublist l := mem_subsets

/-- `seqs f pool` contains every duplicate-free sequence over `pool` once the fuel covers the pool. -/
theorem C20_seqs_complete (f : Nat) (pool s : List Nat) (hn : s.Nodup) (hs : ∀ x ∈ s, x ∈ pool)
    (hl : pool.length ≤ f) : s ∈ seqs f pool := mem_seqs_of_nodup f pool s hn hs hl

/-- the `Reach1` oracle (a walk with ≥ 1 edge) is exact whenever it answers. -/
theorem C20_reach1B_spec (g : MGraph) (u v : Nat) (r : Bool) (h : reach1B g u v = some r) :
    r = true ↔ Reach1 g u v := reach1B_spec h

/-! ## (1) greedy_feedback_arc_set -/

/-- **For ANY node sequence** `seq` (positions), the arcs kept — those with `seq src < seq tgt` — admit
no cycle; the arcs removed (`seq src ≥ seq tgt`) include every self-loop.  So the bucket machinery of
`good_node_sequence` cannot break the property, whatever order it produces. -/
theorem C20_fas_acyclic (g : MGraph) (hd : g.directed = true) (seq : Nat → Nat) :
    (∀ x, ¬ Reach1 (keepForward g seq) x x) ∧
    (∀ e ∈ g.edges, e.src = e.tgt → e ∉ (keepForward g seq).edges) := by
  refine ⟨fas_acyclic g hd seq, ?_⟩
  intro e _ hl hmem
  simp only [keepForward, List.mem_filter, decide_eq_true_eq] at hmem
  rw [hl] at hmem
  exact Nat.lt_irrefl _ hmem.2

/-- **Correctness of the mirrored `greedy_feedback_arc_set` for every input**: with `order` = the
graph's edges in `edge_references()` order, removing the returned arcs leaves an acyclic graph and
every self-loop is among them. -/
theorem C20_fas_model_correct (g : MGraph) (hd : g.directed = true) (order : List Edge)
    (hall : ∀ e ∈ g.edges, e ∈ order) :
    (∀ x, ¬ Reach1 (removeEdges g (Fas.feedbackArcSet (order.map fun e => (e.id, e.src, e.tgt)))) x x) ∧
    (∀ e ∈ order, e.src = e.tgt → e.id ∈ Fas.feedbackArcSet (order.map fun e => (e.id, e.src, e.tgt))) :=
  ⟨fas_model_acyclic g hd order hall, fun e he hl => fas_model_loops order e he hl⟩

/-- totality of the real code's `node_seq[&…]` look-ups: every endpoint gets a position (the model
totalises a missing key as "position = length"; the real code would panic).  Kept as a statement. -/
def C20_fas_total_statement : Prop :=
  ∀ (edges : List (Nat × Nat)), ∀ e ∈ edges, e.1 ∈ Fas.goodSequence edges ∧ e.2 ∈ Fas.goodSequence edges

/-- proved part: on the empty edge list there is nothing to look up (and the sequence is empty). -/
theorem C20_fas_total_partial : Fas.goodSequence [] = [] := by decide

/-- **`good_node_sequence` is total** (wave 2): every endpoint of every edge gets a position, so the
`node_seq[&…]` look-ups of `greedy_feedback_arc_set` never miss.  Proof (`Proofs/C20W2Fas*.lean`): the
buckets stay consistent with the nodes' flags and degrees (`Fas.Inv`), so popping the head of a bucket
really removes it; the number of flagged nodes is the fuel measure of the drains and of the main loop;
the loop stops only when every bucket is empty, i.e. when no node is flagged, and every unflagged node
has been written to the sequence. -/
theorem C20_fas_total : C20_fas_total_statement := fun edges => Fas.goodSequence_total edges

/-- soundness of the per-run judge: an accepted answer consists of distinct edges of the (directed)
graph, contains every self-loop, and the remaining graph has no closed walk. -/
theorem C20_fas_judge_sound (g : MGraph) (removed : List Nat) (h : judgeFas g removed = none) :
    g.directed = true ∧ (∀ i ∈ removed, ∃ e ∈ g.edges, e.id = i) ∧ removed.Nodup ∧
    (∀ e ∈ g.edges, e.src = e.tgt → e.id ∈ removed) ∧
    ∀ x, ¬ Reach1 (removeEdges g removed) x x := judgeFas_sound g removed h

example : judgeFas ⟨true, [0, 1, 2], [⟨0, 0, 1, 1⟩, ⟨1, 1, 2, 1⟩, ⟨2, 2, 0, 1⟩, ⟨3, 1, 1, 1⟩]⟩ [2, 3] = none := by decide

/-! ## (2) dsatur_coloring -/

/-- soundness of the judge on non-empty graphs: every node has exactly one colour, adjacent nodes
differ, the colours used are exactly `0..k-1`, and on a bipartite graph `k ≤ 2`.
(`Bipartite` is the mathematical notion: some 2-colouring exists.) -/
theorem C20_dsatur_judge_sound (g : MGraph) (col : List (Nat × Nat)) (k : Nat)
    (h : judgeDsatur g col k = none) (hne : g.nodes ≠ []) :
    ColouringOk g col k ∧ (Bipartite g → k ≤ 2) := judgeDsatur_sound g col k h hne

/-- completeness of the bipartiteness search used by the judge. -/
theorem C20_bipartite_search_complete (g : MGraph) (hg : EndpointsOk g) (hb : Bipartite g) :
    bipartiteB g = true := bipartiteB_complete g hg hb

/-- **DSatur for ANY pop order of the heap** (the pop order is SUPPLIED BY THE CALLER here; that the real
mechanism — heap with lazy deletion — produces such an order is `C20_dsatur_heap_model`, wave 3):
colouring the nodes one by one in an arbitrary duplicate-free order, each with the least colour not
used by an already coloured neighbour, colours every node of the order exactly once, gives adjacent
nodes different colours, and uses exactly the colours `0 .. count-1` (`count` = `max_color + 1`). -/
theorem C20_dsatur_any_order (g : MGraph) (hd : g.directed = false) (order : List Nat) (hnd : order.Nodup) :
    let col := Dsatur.greedy g order
    col.map (·.1) = order.reverse ∧
    (∀ u v cu cv, col.lookup u = some cu → col.lookup v = some cv → g.Adj u v → u ≠ v → cu ≠ cv) ∧
    (∀ p ∈ col, p.2 < Dsatur.count col) ∧
    (order ≠ [] → ∀ c, c < Dsatur.count col → ∃ p ∈ col, p.2 = c) :=
  Dsatur.greedy_spec g hd order hnd

/-- `k ≤ 2` on bipartite graphs needs the saturation order (not any order); kept as a statement over
the abstract model with a saturation-respecting order, judged per run (`C20_dsatur_judge_sound`). -/
def C20_dsatur_bipartite_statement : Prop :=
  ∀ (g : MGraph) (order : List Nat), g.directed = false → Bipartite g → order.Nodup →
    -- every node is picked while no uncoloured node has more distinct neighbour colours
    (∀ i (_ : i < order.length), ∀ j (_ : j < order.length), i ≤ j →
      ((Dsatur.adjColours g (Dsatur.greedy g (order.take i)) order[j]).eraseDups.length ≤
       (Dsatur.adjColours g (Dsatur.greedy g (order.take i)) order[i]).eraseDups.length)) →
    Dsatur.count (Dsatur.greedy g order) ≤ 2

/-- **DSatur is exact on bipartite graphs, whatever the heap's tie-breaking** (wave 2; the order is a
hypothesis here — `C20_dsatur_heap_model` shows that the heap produces an order satisfying it): with ANY pop
order that respects the saturation rule (the picked node has the most distinct neighbour colours among
the nodes still to come) a bipartite graph gets at most two colours.  The order need not even cover all
nodes.  Proof (`Proofs/C20W2Dsatur.lean`): the colouring always equals the bipartition up to a swap bit
that is constant on the components of the subgraph induced by the order; the saturation rule makes a
node picked with saturation 0 start a fresh component. -/
theorem C20_dsatur_bipartite : C20_dsatur_bipartite_statement :=
  fun g order hd hb hnd hsat => Dsatur.greedy_bipartite g order hd hb hnd hsat

theorem C20_dsatur_bipartite_partial :
    Dsatur.count (Dsatur.greedy ⟨false, [0, 1, 2, 3], [⟨0, 0, 1, 1⟩, ⟨1, 1, 2, 1⟩, ⟨2, 2, 3, 1⟩]⟩ [1, 0, 2, 3]) = 2 := by
  decide

example : judgeDsatur ⟨false, [0, 1, 2, 3], [⟨0, 0, 1, 1⟩, ⟨1, 1, 2, 1⟩, ⟨2, 2, 3, 1⟩, ⟨3, 3, 0, 1⟩]⟩
    [(0, 0), (1, 1), (2, 0), (3, 1)] 2 = none := by decide

/-! ## (3) dag_to_toposorted_adjacency_list + dag_transitive_reduction_closure -/

/-- soundness of the judge: mapped back through the toposort, the returned closure is exactly
`Reach1` (reachable by ≥ 1 edge), the returned reduction is exactly the covering relation
(`u` reaches `v` and no node lies strictly between), each pair once on a simple DAG. -/
theorem C20_tred_judge_sound (g : MGraph) (topo : List Nat) (a : TredAnswer) (h : judgeTred g topo a = none) :
    (∀ u v, (u, v) ∈ cloPairs topo a ↔ Reach1 g u v) ∧
    (∀ u v, (u, v) ∈ redPairs topo a ↔ Covers g u v) ∧
    (simpleB g = true → (cloPairs topo a).Nodup ∧ (redPairs topo a).Nodup) := judgeTred_sound g topo a h

/-- **correctness of the mirrored `dag_transitive_reduction_closure` for every toposorted adjacency
list** (the format `dag_to_toposorted_adjacency_list` produces: every edge goes to a larger index,
neighbour lists ascending; parallel edges allowed): closure row `i` lists exactly the nodes reachable
from `i` by ≥ 1 edge, reduction row `i` exactly the nodes covering `i` (reachable with no node
strictly between). -/
theorem C20_tred_model_correct (rows : List (List Nat))
    (hts : ∀ i x, x ∈ rows.getD i [] → i < x) (hasc : ∀ i, ascending (rows.getD i []) = true)
    (i : Nat) (hi : i < rows.length) :
    (∀ y, y ∈ (Tred.reductionClosure rows).2.getD i [] ↔ Reach1 (Tred.rowsGraph rows) i y) ∧
    (∀ x, x ∈ (Tred.reductionClosure rows).1.getD i [] ↔ Covers (Tred.rowsGraph rows) i x) :=
  Tred.reductionClosure_correct rows hts hasc i hi

/-- `dag_to_toposorted_adjacency_list` renumbers the graph by the given toposort (rows ascending, edges
to larger indices, `revmap` the inverse of the toposort).  Kept as a statement; its three clauses are
judged per run (`judgeTred`: revmap, renumbered edge multiset, ascending rows) and the mirror is
compared exactly. -/
def C20_tred_toposorted_statement : Prop :=
  ∀ (v : View) (topo : List Nat), v.g.directed = true → topo.Nodup → (∀ x, x ∈ topo ↔ x ∈ v.g.nodes) →
    (∀ a, sameSet (v.pred a) (v.g.pred a) = true) → (∀ e ∈ v.g.edges, topo.idxOf e.src < topo.idxOf e.tgt) →
    (∀ x ∈ v.g.nodes, x < v.g.nodes.length) →
    let rows := (Tred.toposorted v.pred id v.g.nodes.length topo).1
    rows.length = topo.length ∧ (∀ i, ascending (rows.getD i []) = true) ∧
    ∀ i x, (rows.getD i []).count x = (v.g.edges.filter fun e => topo.idxOf e.src = i ∧ topo.idxOf e.tgt = x).length

/-- the statement above is FALSE as written: nothing in it forces the edges to end at listed nodes.
Witness: the single node `0` with an edge `0 → 5`; the toposort `[0]` satisfies every hypothesis
(`idxOf 0 = 0 < 1 = idxOf 5`), the only row is empty, but the edge count for `(i, x) = (0, 1)` is 1.
(The real function is only ever handed the graph's own toposort; the harness' graphs have no dangling
edges, so this is a gap of the statement, not of petgraph.) -/
theorem C20_tred_toposorted_statement_false_witness : ¬ C20_tred_toposorted_statement := by
  intro h
  have h1 := h { g := ⟨true, [0], [⟨0, 0, 5, 1⟩]⟩, nb := 1, ix := [], out := [], inn := [(5, [(0, 0)])] } [0]
    rfl (by decide) (fun _ => Iff.rfl)
    (by
      intro a
      by_cases h5 : a = 5
      · subst h5; decide
      · have h5' : (a == 5) = false := by simpa using h5
        have h5'' : ¬ 5 = a := fun e => h5 e.symm
        simp [View.pred, View.innOf, List.lookup, h5', MGraph.pred, h5'']
        decide)
    (by decide) (by decide)
  have h2 := h1.2.2 0 1
  revert h2
  decide

/-- **`dag_to_toposorted_adjacency_list` is the input graph renumbered by the toposort** (wave 2; the
statement above with the missing hypothesis added: every edge ends at a listed node): one row per node,
every row ascending, row `i` lists `x` exactly once per edge from the `i`-th to the `x`-th node of the
toposort (parallel edges counted).  Proof: `Proofs/C20W2Tred.lean`. -/
theorem C20_tred_toposorted (v : View) (topo : List Nat) (hd : v.g.directed = true) (hnd : topo.Nodup)
    (hmem : ∀ x, x ∈ topo ↔ x ∈ v.g.nodes) (hpred : ∀ a, sameSet (v.pred a) (v.g.pred a) = true)
    (hfwd : ∀ e ∈ v.g.edges, topo.idxOf e.src < topo.idxOf e.tgt)
    (hsmall : ∀ x ∈ v.g.nodes, x < v.g.nodes.length)
    (htgt : ∀ e ∈ v.g.edges, e.tgt ∈ v.g.nodes) :
    let rows := (Tred.toposorted v.pred id v.g.nodes.length topo).1
    rows.length = topo.length ∧ (∀ i, ascending (rows.getD i []) = true) ∧
    ∀ i x, (rows.getD i []).count x = (v.g.edges.filter fun e => topo.idxOf e.src = i ∧ topo.idxOf e.tgt = x).length :=
  Tred.toposorted_correct v topo hd hnd hmem hpred hfwd hsmall htgt

theorem C20_tred_toposorted_partial :
    Tred.toposorted (fun a => if a = 2 then [0, 1] else if a = 1 then [0] else []) id 3 [0, 1, 2] =
      ([[1, 2], [2], []], [0, 1, 2]) := by decide

/-! ## (4) maximal_cliques -/

/-- (about the JUDGE; the algorithm is `C20_cliques_model_exact`, wave 3) soundness of the judge: written in the order of the node list, the returned sets are pairwise
different and are EXACTLY the maximal cliques: for every sublist `S` of the node list (= every set of
nodes), `S` is returned iff it is a maximal clique. -/
theorem C20_cliques_judge_sound (g : MGraph) (out : List (List Nat)) (h : judgeCliques g out = none) :
    (∀ c ∈ out, c.Nodup ∧ ∀ x ∈ c, x ∈ g.nodes) ∧ (out.map (canon g)).Nodup ∧
    ∀ S, S.Sublist g.nodes → (S ∈ out.map (canon g) ↔ IsMaxClique g S) := judgeCliques_sound g out h

/-- the definitional oracle lists exactly the maximal cliques (as sublists of the node list). -/
theorem C20_maxCliques_exact (g : MGraph) (S : List Nat) :
    S ∈ maxCliques g ↔ S.Sublist g.nodes ∧ IsMaxClique g S := by
  simp [maxCliques, List.mem_filter, mem_subsets]

example : judgeCliques ⟨false, [0, 1, 2, 3], [⟨0, 0, 1, 1⟩, ⟨1, 1, 2, 1⟩, ⟨2, 0, 2, 1⟩, ⟨3, 2, 3, 1⟩]⟩
    [[0, 1, 2], [2, 3]] = none := by decide

/-! ## (5) all_simple_paths -/

/-- soundness of the judge (`from ≠ to`): the yielded sequences are EXACTLY the duplicate-free walks
from `a` to `b` whose number of intermediate nodes is within `[lo, hi]`, each once on a simple graph. -/
theorem C20_paths_judge_sound (g : MGraph) (a b lo : Nat) (hi : Option Nat) (out : List (List Nat))
    (h : judgePaths g a b lo hi out = none) :
    (∀ p, p ∈ out ↔ IsSimplePathIn g a b lo hi p) ∧ (simpleB g = true → out.Nodup) :=
  judgePaths_sound g a b lo hi out h

/-- completeness of the definitional enumeration behind the judge. -/
theorem C20_simplePaths_complete (g : MGraph) (hg : EndpointsOk g) (a b lo : Nat) (hi : Option Nat)
    (p : List Nat) (hp : IsSimplePathIn g a b lo hi p) : p ∈ simplePaths g a b lo hi :=
  simplePaths_complete g hg a b lo hi p hp

/-- **soundness of the mirrored iterator, for every graph**: whatever the explicit-stack iterator
yields is a simple path from `a` to `b` whose number of intermediate nodes is within the bounds. -/
theorem C20_paths_model_sound (g : MGraph) (a b lo : Nat) (hi : Option Nat) (hab : a ≠ b) (count fuel : Nat)
    (out : List (List Nat)) (h : Paths.allSimplePaths g.succ count a b lo hi fuel = some out) :
    ∀ p ∈ out, IsSimplePathIn g a b lo hi p :=
  Paths.allSimplePaths_sound g a b lo hi hab count fuel out h

/-- completeness of the mirrored iterator: every simple path within the bounds is yielded, once on
a simple graph.  Kept as a statement; the mirror is compared exactly (iterator order) with the
implementation, whose answer is judged complete per run (`C20_paths_judge_sound`). -/
def C20_paths_model_complete_statement : Prop :=
  ∀ (g : MGraph) (a b lo : Nat) (hi : Option Nat) (fuel : Nat) (out : List (List Nat)),
    g.directed = true → EndpointsOk g → g.nodes.Nodup → a ≠ b → a ∈ g.nodes → b ∈ g.nodes →
    Paths.allSimplePaths g.succ g.nodes.length a b lo hi fuel = some out →
    (∀ p, IsSimplePathIn g a b lo hi p → p ∈ out) ∧ (simpleB g = true → out.Nodup)

/-- **completeness of the mirrored iterator** (wave 2): run to exhaustion it yields every simple path
within the bounds, and on a simple graph every path once.  Proof (`Proofs/C20W2Paths.lean`): every
call of `next` keeps "yielded or still pending" for every specified path (`Paths.Pend`), an exhausted
iterator has an empty stack where nothing is pending; pending-ness only shrinks, and a yielded path
is not pending afterwards because the remaining children of a level are duplicate-free on a simple
graph and never contain the child that was descended into. -/
theorem C20_paths_model_complete : C20_paths_model_complete_statement :=
  fun g a b lo hi fuel out hd hg _ hab ha _ h => Paths.allSimplePaths_complete g a b lo hi fuel out hd hg hab ha h

/-- soundness and completeness together: the mirrored iterator yields EXACTLY the specified paths. -/
theorem C20_paths_model_exact (g : MGraph) (a b lo : Nat) (hi : Option Nat) (fuel : Nat) (out : List (List Nat))
    (hd : g.directed = true) (hg : EndpointsOk g) (hab : a ≠ b) (ha : a ∈ g.nodes)
    (h : Paths.allSimplePaths g.succ g.nodes.length a b lo hi fuel = some out) :
    (∀ p, p ∈ out ↔ IsSimplePathIn g a b lo hi p) ∧ (simpleB g = true → out.Nodup) :=
  ⟨fun p => ⟨Paths.allSimplePaths_sound g a b lo hi hab _ fuel out h p,
      (Paths.allSimplePaths_complete g a b lo hi fuel out hd hg hab ha h).1 p⟩,
    (Paths.allSimplePaths_complete g a b lo hi fuel out hd hg hab ha h).2⟩

theorem C20_paths_model_complete_partial :
    Paths.allSimplePaths (MGraph.succ ⟨true, [0, 1, 2], [⟨0, 0, 1, 1⟩, ⟨1, 1, 2, 1⟩, ⟨2, 0, 2, 1⟩]⟩) 3 0 2 0 none 100
      = some [[0, 1, 2], [0, 2]] := by decide

/-! ## (6) steiner_tree — the per-run judge

The three theorems below are about the judge that `./check C20` runs on the implementation's answers
(accepted ⇒ the specification holds) and about the classifier of the OPEN finding D21 (the unchanged
crate can return a subgraph with a cycle when expanded shortest paths tie, so "the result is a tree" is
false for the algorithm as it stands; `C20_steiner_D21_counterexample` is its recorded witness).  The
theorems about the ALGORITHM (its mirror model, wave 4) are in section (6') below. -/

/-- (about the JUDGE, not the algorithm) soundness of the judge: an accepted result is a subgraph of `g` that contains every terminal, is
connected with exactly `|V| - 1` edges (a tree), has only terminals as leaves, and weighs at most
twice ANY edge set of `g` that connects the terminals (hence at most twice the optimum). -/
theorem C20_steiner_judge_sound (g : MGraph) (terms N E : List Nat)
    (h : judgeSteiner g terms N E = SteinerVerdict.ok) : SteinerOk g terms N E :=
  judgeSteiner_sound g terms N E h

/-- (about the JUDGE, not the algorithm) the classifier of the open finding D21 fires only when every clause except tree-ness holds and
the (connected, non-empty) result has at least as many edges as nodes, i.e. contains a cycle. -/
theorem C20_steiner_D21_classifier (g : MGraph) (terms N E : List Nat) (why : String)
    (h : judgeSteiner g terms N E = SteinerVerdict.cycleOnly why) :
    firstFail (steinerClauses g terms N E) = none ∧ N ≠ [] ∧ N.length ≤ (resultEdges g E).length :=
  judgeSteiner_cycleOnly g terms N E why h

/-- (about the JUDGE on a recorded answer of the implementation; D21 is OPEN) D21 on its recorded witness: the 6-node graph of DESIGN §5 with terminals 2,3,5,4 — the result
nodes {1,2,3,4,5} with the five edges 1-2, 1-3, 1-4, 1-5, 3-5 (one of the outcomes the unchanged
crate produces) satisfies every clause except tree-ness. -/
theorem C20_steiner_D21_counterexample :
    (match judgeSteiner ⟨false, [0, 1, 2, 3, 4, 5],
        [⟨0, 0, 1, 2⟩, ⟨1, 0, 3, 1⟩, ⟨2, 1, 2, 2⟩, ⟨3, 1, 3, 2⟩, ⟨4, 1, 4, 2⟩, ⟨5, 1, 5, 2⟩, ⟨6, 3, 5, 1⟩]⟩
        [2, 3, 5, 4] [1, 2, 3, 4, 5] [2, 3, 4, 5, 6] with
      | .cycleOnly _ => true | _ => false) = true := by decide +kernel

/-! ## (7) page_rank (exact rational model)

REMARK on the tie to the `f64` code (wave 4; NOT a theorem — IEEE-754 rounding is not modelled): the
driver accepts the implementation's ranks when they are within 1e-9 of the rational model's.  Informal
forward-error estimate for the harness' range (`n ≤ 8` nodes, `nb_iter ≤ 7`, damping factors that are
binary fractions or 17/20): by `C20_pagerank_sum` every exact rank lies in `[0, 1]`; one iteration
evaluates, per entry, `n` products/quotients and `n − 1` additions of non-negative terms and one division
by the normalising sum `s` (`s ≥ min(d, 1 − d) / n` when `0 < d < 1`, `s = 1` for `d = 1`), each with
relative error `≤ 2⁻⁵³`; no cancellation occurs (all terms are `≥ 0`), so the relative error grows by at
most about `(2n + 3) · 2⁻⁵³` per iteration on top of the inherited one, i.e. `≲ 7 · 19 · 2⁻⁵³ · (1 + n/min(d,1−d)) ≈ 10⁻¹²`
after 7 iterations — three orders of magnitude inside the 1e-9 tolerance, and far below the differences a
semantic change of the code produces (a dropped term changes a rank by `≥ 1/(n·deg)`).  A proof would need
a floating-point model of `D: UnitMeasure`; the property's clauses themselves (non-negative, sum 1,
equivariant) are judged on the printed values with the same tolerance and proved for the exact model. -/

/-- for a damping factor in `[0,1]`, whenever the normalising sums are non-zero (the model returns
`some`), `page_rank` yields one rank per node, every rank non-negative, summing to exactly 1. -/
theorem C20_pagerank_sum (g : MGraph) (hne : g.nodes ≠ []) (d : Rat) (h0 : 0 ≤ d) (h1 : d ≤ 1) (k : Nat)
    (r : List (Nat × Rat)) (h : PR.pageRank g d k = some r) :
    r.map (·.1) = g.nodes ∧ (∀ p ∈ r, 0 ≤ p.2) ∧ (r.map (·.2)).sum = 1 :=
  PR.pageRank_spec g hne h0 h1 k r h

/-- relabelling the nodes by any injective renaming commutes with the computation: the rank of `f x`
in the relabelled graph is the rank of `x` (so symmetric nodes get equal rank). -/
theorem C20_pagerank_equivariant (f : Nat → Nat) (hf : ∀ x y, f x = f y → x = y) (g : MGraph) (d : Rat) (k : Nat) :
    PR.pageRank (PR.relabel f g) d k = (PR.pageRank g d k).map (PR.relabelRanks f) :=
  PR.pageRank_relabel hf g d k

/-- D22: with damping factor 0 on a graph without edges the normalising sum is zero (the
implementation divides 0 by 0 and returns NaN). -/
theorem C20_pagerank_D22_counterexample : PR.pageRank ⟨true, [0, 1], []⟩ 0 1 = none := by decide +kernel

/-- **no NaN for a positive damping factor**: on a non-empty graph with distinct nodes whose edges
join listed nodes, the normalising sum is never zero for `0 < d ≤ 1`, whatever the number of
iterations — so D22 is confined to `d = 0`. -/
theorem C20_pagerank_defined (g : MGraph) (hne : g.nodes ≠ []) (hnd : g.nodes.Nodup)
    (hg : ∀ e ∈ g.edges, e.src ∈ g.nodes ∧ e.tgt ∈ g.nodes) (d : Rat) (h0 : 0 < d) (h1 : d ≤ 1) (k : Nat) :
    (PR.pageRank g d k).isSome := PR.pageRank_defined g hne hnd hg h0 h1 k

/-! ## wave 3 — theorems about the ALGORITHMS that had only judge theorems

An independent audit found that `maximal_cliques`, `dsatur_coloring` (its heap) and the composition
`dag_to_toposorted_adjacency_list` ∘ `dag_transitive_reduction_closure` had no theorem about the
algorithm itself, and that the `all_simple_paths` model lacked totality and the `from = to` case. -/

/-! ### (4') maximal_cliques: Bron–Kerbosch with pivoting -/

/-- **the mirrored `bron_kerbosch_pivot` returns EXACTLY the maximal cliques, each once — for every
pivot choice and every exploration order** (`Model/C20Cliques.lean`; the real code takes both from
`HashSet` iteration, the model from an arbitrary `Oracle`: any pivot in `P ∪ X`, any permutation of
`todo`).  On a graph with symmetric adjacency (every undirected graph) and a duplicate-free node list;
self-loops are allowed.  Same conclusion as the judge's (`C20_cliques_judge_sound`): written in the
order of the node list the returned sets are pairwise different, and a set of nodes is returned iff it
is a maximal clique.  The fuel bounds the recursion depth only; any value above the node count gives
this same answer.  Proof (`Proofs/C20W3Cliques.lean`): the standard invariant — `R` is a clique,
`P ∪ X` = the common neighbours of `R`, and a call reports every maximal clique between `R` and
`R ∪ P` exactly once. -/
theorem C20_cliques_model_exact (g : MGraph) (hsym : ∀ a b, g.Adj a b → g.Adj b a) (hnd : g.nodes.Nodup)
    (o : Cliques.Oracle) (ho : o.Valid) (fuel : Nat) (hf : g.nodes.length < fuel) :
    (∀ c ∈ Cliques.maximalCliques g o fuel, c.Nodup ∧ ∀ x ∈ c, x ∈ g.nodes) ∧
    ((Cliques.maximalCliques g o fuel).map (canon g)).Nodup ∧
    ∀ S, S.Sublist g.nodes → (S ∈ (Cliques.maximalCliques g o fuel).map (canon g) ↔ IsMaxClique g S) :=
  Cliques.maximalCliques_exact g hsym hnd o ho fuel hf

/-- the same for an undirected graph (its adjacency is symmetric) -/
theorem C20_cliques_model_exact_undirected (g : MGraph) (hd : g.directed = false) (hnd : g.nodes.Nodup)
    (o : Cliques.Oracle) (ho : o.Valid) (fuel : Nat) (hf : g.nodes.length < fuel) :
    (∀ c ∈ Cliques.maximalCliques g o fuel, c.Nodup ∧ ∀ x ∈ c, x ∈ g.nodes) ∧
    ((Cliques.maximalCliques g o fuel).map (canon g)).Nodup ∧
    ∀ S, S.Sublist g.nodes → (S ∈ (Cliques.maximalCliques g o fuel).map (canon g) ↔ IsMaxClique g S) :=
  Cliques.maximalCliques_exact g (fun _ _ h => adj_symm_undirected hd h) hnd o ho fuel hf

/-- the model's answer passes the judge (the judge's clauses are decidable versions of the above) on
the example of the crate's documentation, for the run that takes the first vertex of maximal degree -/
example : judgeCliques ⟨false, [0, 1, 2, 3, 4], [⟨0, 0, 1, 1⟩, ⟨1, 0, 2, 1⟩, ⟨2, 1, 2, 1⟩, ⟨3, 2, 3, 1⟩]⟩
    (Cliques.maximalCliques ⟨false, [0, 1, 2, 3, 4], [⟨0, 0, 1, 1⟩, ⟨1, 0, 2, 1⟩, ⟨2, 1, 2, 1⟩, ⟨3, 2, 3, 1⟩]⟩
      (Cliques.firstOracle ⟨false, [0, 1, 2, 3, 4], [⟨0, 0, 1, 1⟩, ⟨1, 0, 2, 1⟩, ⟨2, 1, 2, 1⟩, ⟨3, 2, 3, 1⟩]⟩) 6) = none := by
  decide

/-- the oracle hypothesis of `C20_cliques_model_exact` is satisfiable: the run that takes the first
vertex of maximal degree of `P` as the pivot (the real code's choice up to the hash order) is valid -/
theorem C20_cliques_oracle_exists (g : MGraph) : (Cliques.firstOracle g).Valid := Cliques.firstOracle_valid g

/-! ### (2') dsatur_coloring: the heap with lazy deletion -/

/-- **the real mechanism of `dsatur_coloring`, for every tie-breaking of the heap**
(`Model/C20DsaturHeap.lean`: a max-heap of `(saturation, degree, node)` entries, stale entries skipped
through `seen`, `pop` = SOME entry of maximal score).  On an undirected graph without dangling edges,
with the explicit fuel `DsaturHeap.fuelBound g` (= number of entries ever pushed + 1; it is tight) the
run finishes and there is a pop order `order` — the nodes in the order in which they were popped
unseen — such that
* `order` is duplicate-free and lists exactly the nodes: every node is coloured exactly once;
* the returned colouring IS `Dsatur.greedy g order`, the returned count is `Dsatur.count` of it — so
  `C20_dsatur_any_order` applies: proper, colours exactly `0..k−1` (`ColouringOk`, the judge's clauses);
* the order RESPECTS THE SATURATION RULE (`DsaturHeap.SatRespecting`, verbatim the hypothesis of
  `C20_dsatur_bipartite`): each node is popped while no unseen node has more distinct neighbour colours
  (CURRENT saturation, not the stale key);
* hence `k ≤ 2` on every bipartite graph.
Proof (`Proofs/C20W3Dsatur*.lean`): heap invariant — every entry understates the current saturation of
its node, and every unseen node has an entry with its current saturation (the colour is inserted
BEFORE the neighbour is queued); potential `|heap| + Σ_{unseen} degree` drops by 1 per iteration. -/
theorem C20_dsatur_heap_model (g : MGraph) (hd : g.directed = false) (hg : EndpointsOk g) (hnd : g.nodes.Nodup)
    (o : DsaturHeap.Oracle) (ho : o.Valid) (fuel : Nat) (hf : DsaturHeap.fuelBound g ≤ fuel) :
    ∃ col k order, DsaturHeap.dsatur g o fuel = some (col, k) ∧
      order.Nodup ∧ (∀ x, x ∈ order ↔ x ∈ g.nodes) ∧
      col = Dsatur.greedy g order ∧ k = Dsatur.count col ∧ DsaturHeap.SatRespecting g order ∧
      (g.nodes ≠ [] → ColouringOk g col k) ∧ (Bipartite g → k ≤ 2) :=
  DsaturHeap.dsatur_heap_model g hd hg hnd o ho fuel hf

/-- the part of the above that does not mention the pop order: what `dsatur_coloring` returns passes
every clause of the judge, whatever the heap does with ties -/
theorem C20_dsatur_heap_model_ok (g : MGraph) (hd : g.directed = false) (hg : EndpointsOk g) (hnd : g.nodes.Nodup)
    (hne : g.nodes ≠ []) (o : DsaturHeap.Oracle) (ho : o.Valid) :
    ∃ col k, DsaturHeap.dsatur g o (DsaturHeap.fuelBound g) = some (col, k) ∧
      ColouringOk g col k ∧ (Bipartite g → k ≤ 2) := by
  obtain ⟨col, k, _, h1, _, _, _, _, _, h2, h3⟩ :=
    DsaturHeap.dsatur_heap_model g hd hg hnd o ho _ (Nat.le_refl _)
  exact ⟨col, k, h1, h2 hne, h3⟩

/-- the oracle hypothesis is satisfiable: "the first entry of maximal score" and "the last entry of
maximal score" are valid heaps -/
theorem C20_dsatur_oracle_exists : DsaturHeap.firstMax.Valid ∧ DsaturHeap.lastMax.Valid :=
  ⟨DsaturHeap.firstMax_valid, DsaturHeap.lastMax_valid⟩

/-- **the saturation clause is sensitive to the seeded change** `C20-dsatur-saturation-lags` (queue the
neighbour BEFORE inserting the colour): the model with those two lines swapped
(`DsaturHeap.dsaturLag`) uses 3 colours on a tree (the double broom of the seeded change's demo) for
both shipped heaps, the model as it mirrors the real code uses 2 — so `C20_dsatur_heap_model` could not
be proved of the swapped code. -/
theorem C20_dsatur_lag_sanity :
    ((DsaturHeap.dsaturLag DsaturHeap.doubleBroom DsaturHeap.firstMax (DsaturHeap.fuelBound DsaturHeap.doubleBroom)).map (·.2) = some 3) ∧
    ((DsaturHeap.dsaturLag DsaturHeap.doubleBroom DsaturHeap.lastMax (DsaturHeap.fuelBound DsaturHeap.doubleBroom)).map (·.2) = some 3) ∧
    ((DsaturHeap.dsatur DsaturHeap.doubleBroom DsaturHeap.firstMax (DsaturHeap.fuelBound DsaturHeap.doubleBroom)).map (·.2) = some 2) ∧
    ((DsaturHeap.dsatur DsaturHeap.doubleBroom DsaturHeap.lastMax (DsaturHeap.fuelBound DsaturHeap.doubleBroom)).map (·.2) = some 2) :=
  DsaturHeap.lag_uses_three_colours

/-! ### (3') tred: the `revmap` clause and the composition -/

/-- **the `revmap` clause of `dag_to_toposorted_adjacency_list`** (the third clause of
`C20_tred_toposorted_statement`'s docstring, so far judged per run only): under the hypotheses of
`C20_tred_toposorted` (collected in `Tred.DagInput`) the returned `revmap` has `node_bound()` entries,
sends every node to its rank in the toposort, and the toposort inverts it both ways. -/
theorem C20_tred_revmap (v : View) (topo : List Nat) (h : Tred.DagInput v topo) :
    let revmap := (Tred.toposorted v.pred id v.g.nodes.length topo).2
    revmap.length = v.g.nodes.length ∧
    (∀ x ∈ v.g.nodes, revmap.getD x 0 = topo.idxOf x ∧ unrank topo (revmap.getD x 0) = x) ∧
    (∀ i, i < topo.length → revmap.getD (unrank topo i) 0 = i) :=
  Tred.toposorted_revmap v topo h

/-- **end to end**: for a DAG view (directed, `Incoming` iteration describing the abstract graph, a
toposort of its nodes handed in, ids below `node_bound()`, no dangling edges),
`dag_to_toposorted_adjacency_list` followed by `dag_transitive_reduction_closure`, mapped back through
the `revmap` the first function returned, IS the abstract graph's `Reach1` (closure) and covering
relation (reduction): `w` is listed in the closure row of `u` iff `u` reaches `w` by ≥ 1 edge, in the
reduction row iff moreover no node lies strictly between. -/
theorem C20_tred_end_to_end (v : View) (topo : List Nat) (h : Tred.DagInput v topo) :
    let tr := Tred.toposorted v.pred id v.g.nodes.length topo
    let rc := Tred.reductionClosure tr.1
    (∀ u w, Reach1 v.g u w ↔
      u ∈ v.g.nodes ∧ w ∈ v.g.nodes ∧ tr.2.getD w 0 ∈ rc.2.getD (tr.2.getD u 0) []) ∧
    (∀ u w, Covers v.g u w ↔
      u ∈ v.g.nodes ∧ w ∈ v.g.nodes ∧ tr.2.getD w 0 ∈ rc.1.getD (tr.2.getD u 0) []) :=
  Tred.end_to_end_revmap v topo h

/-- end to end in the judge's vocabulary: the answer of the two mirrored functions run one after the
other (`Tred.modelAnswer`: the model's rows with their indices, in the judge's `TredAnswer` format) satisfies exactly what
`C20_tred_judge_sound` concludes for an accepted answer of the implementation — `revmap` inverse to the
toposort; closure pairs = `Reach1`; reduction pairs = the covering relation; each pair once on a
simple DAG. -/
theorem C20_tred_end_to_end_pairs (v : View) (topo : List Nat) (h : Tred.DagInput v topo) :
    (∀ x ∈ v.g.nodes, colourOf (Tred.modelAnswer v topo).revmap x = some (topo.idxOf x)) ∧
    (∀ u w, (u, w) ∈ cloPairs topo (Tred.modelAnswer v topo) ↔ Reach1 v.g u w) ∧
    (∀ u w, (u, w) ∈ redPairs topo (Tred.modelAnswer v topo) ↔ Covers v.g u w) ∧
    (simpleB v.g = true →
      (cloPairs topo (Tred.modelAnswer v topo)).Nodup ∧ (redPairs topo (Tred.modelAnswer v topo)).Nodup) :=
  ⟨(Tred.end_to_end_pairs v topo h).1, (Tred.end_to_end_pairs v topo h).2.1, (Tred.end_to_end_pairs v topo h).2.2,
    Tred.end_to_end_nodup v topo h⟩

/-! ### (5') all_simple_paths: totality and `from = to` -/

/-- **the mirrored iterator is total**: the explicit fuel `Paths.fuelBound g`
(`E · W(n−1) + 2` with `W(0) = 1`, `W(m+1) = 2 + E · W(m)`, `E` = number of edges, `n` = number of
nodes) suffices for the run to exhaustion — for every `from` among the nodes, every `to` (also
`to = from`, also a `to` that is not a node), all bounds, any `count`.  So the hypotheses
`… = some out` of `C20_paths_model_exact` and `C20_paths_from_eq_to` are satisfiable for every input.
Proof (`Proofs/C20W3PathsTotal.lean`): the potential `Σ levels (|children| · W(unvisited) + 1)` drops in
every step of `next`. -/
theorem C20_paths_model_total (g : MGraph) (hg : EndpointsOk g) (count a b lo : Nat) (hi : Option Nat)
    (ha : a ∈ g.nodes) (fuel : Nat) (hf : Paths.fuelBound g ≤ fuel) :
    (Paths.allSimplePaths g.succ count a b lo hi fuel).isSome :=
  Paths.allSimplePaths_total_gen g hg count a b lo hi ha fuel hf

/-- **what the code yields for `from = to = a`** (the case `C20_paths_model_exact` and the judge
exclude): `child == to` is tested before the visited test, so the iterator yields EXACTLY the simple
cycles through `a`, written `a, mid…, a` with `a :: mid` duplicate-free (a self-loop gives `[a, a]`),
with `lo ≤ |mid| ≤ hi`, each once on a simple graph.  WITHOUT an upper bound the depth limit
`node_count() − 1` allows at most `n − 2` intermediate nodes, so a Hamiltonian cycle (`n − 1`
intermediate nodes) is never yielded — e.g. nothing at all on a directed triangle — while `[a, a]` is
yielded even for `n = 1` (`Paths.IsSimpleCycleIn`: `|mid| + 2 ≤ max n 2`). -/
theorem C20_paths_from_eq_to (g : MGraph) (a lo : Nat) (hi : Option Nat) (fuel : Nat) (out : List (List Nat))
    (hd : g.directed = true) (hg : EndpointsOk g) (ha : a ∈ g.nodes)
    (h : Paths.allSimplePaths g.succ g.nodes.length a a lo hi fuel = some out) :
    (∀ p, p ∈ out ↔ Paths.IsSimpleCycleIn g a lo hi p) ∧ (simpleB g = true → out.Nodup) :=
  Paths.allSimplePaths_cycle_exact g a lo hi fuel out hd hg ha h

/-- the statement of the `from = to` case, kept as a `Prop` next to its proof for the record -/
def C20_paths_from_eq_to_statement : Prop :=
  ∀ (g : MGraph) (a lo : Nat) (hi : Option Nat) (fuel : Nat) (out : List (List Nat)),
    g.directed = true → EndpointsOk g → a ∈ g.nodes →
    Paths.allSimplePaths g.succ g.nodes.length a a lo hi fuel = some out →
    (∀ p, p ∈ out ↔ Paths.IsSimpleCycleIn g a lo hi p) ∧ (simpleB g = true → out.Nodup)

theorem C20_paths_from_eq_to_holds : C20_paths_from_eq_to_statement :=
  fun g a lo hi fuel out hd hg ha h => C20_paths_from_eq_to g a lo hi fuel out hd hg ha h

/-- the directed triangle: with no upper bound nothing is yielded for `from = to` (the only cycle is
Hamiltonian); with an isolated fourth node it is -/
example : Paths.allSimplePaths (MGraph.succ ⟨true, [0, 1, 2], [⟨0, 0, 1, 1⟩, ⟨1, 1, 2, 1⟩, ⟨2, 2, 0, 1⟩]⟩) 3 0 0 0 none 100
    = some [] := by decide
example : Paths.allSimplePaths (MGraph.succ ⟨true, [0, 1, 2, 3], [⟨0, 0, 1, 1⟩, ⟨1, 1, 2, 1⟩, ⟨2, 2, 0, 1⟩]⟩) 4 0 0 0 none 100
    = some [[0, 1, 2, 0]] := by decide

/-! ## wave 4

### (6') steiner_tree: the mirror model (`Model/C20Steiner.lean`)

The model composes the mirrors of `dijkstra` (C10), `floyd_warshall_path` (C11) and the exact `BinaryHeap`
of `min_spanning_tree` (C12) with the expansion, retention and leaf-pruning code of `steiner_tree`; the
one thing the hash order decides — the iteration order of the metric-closure `HashMap`, hence the order
of the pushes into Kruskal's heap — is an `Oracle` (`Valid` = some rearrangement). -/

/-- **inside the graph — every hash order, no hypothesis on the graph at all**: the nodes of the answer
are a sub-list of the graph's nodes, the edges are `Edge` records of the graph (so with their weights),
in the graph's order, and each joins two nodes of the answer. -/
theorem C20_steiner_model_inside (B : C11M.Meas) (v : View) (terms : List Nat) (o : Steiner.Oracle)
    (N E : List Nat) (h : Steiner.steiner B v terms o = .ok N E) :
    N.Sublist v.g.nodes ∧
    ∃ es : List Edge, es.Sublist v.g.edges ∧ E = es.map (·.id) ∧ ∀ e ∈ es, e.src ∈ N ∧ e.tgt ∈ N := by
  unfold Steiner.steiner at h
  split at h
  · cases h
  · exact Steiner.steinerFrom_inside h

/-- **every terminal is in the answer — every hash order, no hypothesis on the graph** -/
theorem C20_steiner_model_terminals (B : C11M.Meas) (v : View) (terms : List Nat) (o : Steiner.Oracle)
    (N E : List Nat) (h : Steiner.steiner B v terms o = .ok N E) :
    ∀ t ∈ terms, t ∈ v.g.nodes → t ∈ N := by
  unfold Steiner.steiner at h
  split at h
  · cases h
  · exact Steiner.steinerFrom_terminals h

/-- **`steiner_tree`, every hash order** (`o.Valid`: the closure's entries come out of the `HashMap` in
SOME order): on a well-formed graph whose costs fit the cost type (`|w| ≤ Wm`, `2·|V|·Wm < max()` — the
hypothesis of `C11_floyd_ok_linear`) with the terminals among its nodes, an answer of the mirror model
* lies inside the graph (nodes a sub-list of the nodes; the edges `es` are edges of the graph, with
  their weights, each between two nodes of the answer),
* contains every terminal,
* is CONNECTED (`Steiner.Connected (withEdges N es)`: any two of its nodes are joined by a walk of
  its edges) — whenever the code returns at all the terminals were connected in the graph
  (`dijkstra(..)[&target]` panics otherwise),
* and no node that is not a terminal has exactly one (distinct) neighbour in it: only terminals are leaves.
Whether the answer is a TREE is not among the conclusions, and cannot be: `C20_steiner_model_D21`. -/
theorem C20_steiner_model_spec (B : C11M.Meas) (v : View) (hwf : v.g.WellFormed) (Wm : Int) (hWm : 0 ≤ Wm)
    (hW : ∀ e ∈ v.g.edges, -Wm ≤ e.w ∧ e.w ≤ Wm) (hfit : C11W3.LinFit B v.g Wm)
    (terms : List Nat) (hterms : ∀ t ∈ terms, t ∈ v.g.nodes) (o : Steiner.Oracle) (ho : o.Valid)
    (N E : List Nat) (h : Steiner.steiner B v terms o = .ok N E) :
    N.Sublist v.g.nodes ∧ (∀ t ∈ terms, t ∈ N) ∧
    ∃ es : List Edge, es.Sublist v.g.edges ∧ E = es.map (·.id) ∧ (∀ e ∈ es, e.src ∈ N ∧ e.tgt ∈ N) ∧
      Steiner.Connected (withEdges N es) ∧
      (∀ x ∈ N, x ∉ terms → Steiner.single (Steiner.nbrs es x) = false) :=
  Steiner.steiner_spec B v hwf Wm hWm hW hfit hterms o ho h

/-- the same in the judge's vocabulary: the clauses `nodesOk`, `edgesOk`, `inside`, `terminals` and
`connected` of `SteinerOk` (what `C20_steiner_judge_sound` concludes for an accepted answer of the
implementation) hold for every answer of the mirror model, every hash order -/
theorem C20_steiner_model_spec_judge (B : C11M.Meas) (v : View) (hwf : v.g.WellFormed)
    (hid : (v.g.edges.map (·.id)).Nodup) (Wm : Int) (hWm : 0 ≤ Wm)
    (hW : ∀ e ∈ v.g.edges, -Wm ≤ e.w ∧ e.w ≤ Wm) (hfit : C11W3.LinFit B v.g Wm)
    (terms : List Nat) (hterms : ∀ t ∈ terms, t ∈ v.g.nodes) (o : Steiner.Oracle) (ho : o.Valid)
    (N E : List Nat) (h : Steiner.steiner B v terms o = .ok N E) :
    (N.Nodup ∧ ∀ x ∈ N, x ∈ v.g.nodes) ∧
    (E.Nodup ∧ ∀ i ∈ E, ∃ e ∈ v.g.edges, e.id = i) ∧
    (∀ e ∈ v.g.edges, e.id ∈ E → e.src ∈ N ∧ e.tgt ∈ N) ∧
    (∀ t ∈ terms, t ∈ N) ∧
    (∀ x ∈ N, ∀ y ∈ N, Reach (withEdges N (resultEdges v.g E)) x y) :=
  Steiner.steiner_spec_judge B v hwf hid Wm hWm hW hfit hterms o ho h

/-- the same for ANY order in which Kruskal's loop sees the closure (`pops` only has to hold an entry for
every pair of distinct terminals, between terminals) — the form the driver uses: it enumerates the
minimum spanning trees of the closure as pop orders (`Steiner.mstCandidates`) and checks the two facts
about `pops` at run time (`C20_steiner_pops_check`) -/
theorem C20_steiner_model_spec_pops (B : C11M.Meas) (v : View) (hwf : v.g.WellFormed) (Wm : Int) (hWm : 0 ≤ Wm)
    (hW : ∀ e ∈ v.g.edges, -Wm ≤ e.w ∧ e.w ≤ Wm) (hfit : C11W3.LinFit B v.g Wm)
    (terms : List Nat) (hterms : ∀ t ∈ terms, t ∈ v.g.nodes) (pops : List Steiner.Item)
    (hall : ∀ a ∈ terms, ∀ b ∈ terms, a ≠ b → Steiner.ILink pops a b)
    (hends : ∀ it ∈ pops, it.a ∈ terms ∧ it.b ∈ terms)
    (N E : List Nat) (h : Steiner.steinerFrom B v terms pops = .ok N E) :
    N.Sublist v.g.nodes ∧ (∀ t ∈ terms, t ∈ N) ∧
    ∃ es : List Edge, es.Sublist v.g.edges ∧ E = es.map (·.id) ∧ (∀ e ∈ es, e.src ∈ N ∧ e.tgt ∈ N) ∧
      Steiner.Connected (withEdges N es) ∧
      (∀ x ∈ N, x ∉ terms → Steiner.single (Steiner.nbrs es x) = false) :=
  Steiner.steinerFrom_spec B v hwf Wm hWm hW hfit hterms hall hends h

/-- what the real run's heap hands to Kruskal's loop is a rearrangement of the closure, so every run of
`steiner` is a run of `steinerFrom` whose `pops` satisfy the two hypotheses above -/
theorem C20_steiner_pops_of_oracle (v : View) (terms : List Nat) (c : List Steiner.Item)
    (hc : Steiner.closure v terms = some c) (o : Steiner.Oracle) (ho : o.Valid) :
    (Steiner.popOrder (o.hashOrder c)).Perm c ∧
    (∀ a ∈ terms, ∀ b ∈ terms, a ≠ b → Steiner.ILink (Steiner.popOrder (o.hashOrder c)) a b) ∧
    (∀ it ∈ Steiner.popOrder (o.hashOrder c), it.a ∈ terms ∧ it.b ∈ terms) :=
  ⟨(Steiner.popOrder_perm _).trans (ho c), Steiner.pops_of_oracle hc o ho⟩

/-- **`steiner_tree` is TOTAL on its domain, every hash order**: on a well-formed graph whose `edges()`
describe it, with positive costs that fit the cost type, and terminals that are nodes and pairwise
connected, the mirror model answers `ok` — the index `dijkstra(..)[&target]` never panics, Floyd–Warshall
does not err, the `while current != source` walks terminate (the distance from the source strictly
drops along `prev[source][·]`, so `|V| + 1` steps suffice) and the rounds of `non_terminal_leaves` end.
Together with `C20_steiner_model_spec`: "on connected terminals the result is a connected subgraph of
the graph that contains every terminal and has only terminals as leaves". -/
theorem C20_steiner_model_total (B : C11M.Meas) (v : View) (hwf : v.g.WellFormed) (hv : C10P.ViewArcs v)
    (Wm : Int) (hWm : 0 ≤ Wm) (hW : ∀ e ∈ v.g.edges, 0 < e.w ∧ e.w ≤ Wm) (hfit : C11W3.LinFit B v.g Wm)
    (terms : List Nat) (hterms : ∀ t ∈ terms, t ∈ v.g.nodes)
    (hconn : ∀ a ∈ terms, ∀ b ∈ terms, Reach v.g a b) (o : Steiner.Oracle) (ho : o.Valid) :
    ∃ N E, Steiner.steiner B v terms o = .ok N E :=
  Steiner.steiner_total B v hwf hv Wm hWm hW hfit hterms hconn o ho

/-- totality and specification in one statement -/
theorem C20_steiner_model_correct (B : C11M.Meas) (v : View) (hwf : v.g.WellFormed) (hv : C10P.ViewArcs v)
    (Wm : Int) (hWm : 0 ≤ Wm) (hW : ∀ e ∈ v.g.edges, 0 < e.w ∧ e.w ≤ Wm) (hfit : C11W3.LinFit B v.g Wm)
    (terms : List Nat) (hterms : ∀ t ∈ terms, t ∈ v.g.nodes)
    (hconn : ∀ a ∈ terms, ∀ b ∈ terms, Reach v.g a b) (o : Steiner.Oracle) (ho : o.Valid) :
    ∃ N E, Steiner.steiner B v terms o = .ok N E ∧
      N.Sublist v.g.nodes ∧ (∀ t ∈ terms, t ∈ N) ∧
      ∃ es : List Edge, es.Sublist v.g.edges ∧ E = es.map (·.id) ∧ (∀ e ∈ es, e.src ∈ N ∧ e.tgt ∈ N) ∧
        Steiner.Connected (withEdges N es) ∧
        (∀ x ∈ N, x ∉ terms → Steiner.single (Steiner.nbrs es x) = false) := by
  obtain ⟨N, E, h⟩ := Steiner.steiner_total B v hwf hv Wm hWm hW hfit hterms hconn o ho
  have hW' : ∀ e ∈ v.g.edges, -Wm ≤ e.w ∧ e.w ≤ Wm := fun e he => ⟨by have := hW e he; omega, (hW e he).2⟩
  exact ⟨N, E, h, Steiner.steiner_spec B v hwf Wm hWm hW' hfit hterms o ho h⟩

/-- the D21 witness graph of DESIGN §5 -/
def d21Graph : MGraph := ⟨false, [0, 1, 2, 3, 4, 5],
  [⟨0, 0, 1, 2⟩, ⟨1, 0, 3, 1⟩, ⟨2, 1, 2, 2⟩, ⟨3, 1, 3, 2⟩, ⟨4, 1, 4, 2⟩, ⟨5, 1, 5, 2⟩, ⟨6, 3, 5, 1⟩]⟩

/-- **D21 at model level** (D21 is OPEN): on the witness graph with terminals 2, 3, 5, 4 the run whose
hash order hands out the closure in reverse insertion order (a valid oracle) returns the nodes
{1,2,3,4,5} with the FIVE edges 1-2, 1-3, 1-4, 1-5, 3-5 — a connected subgraph with a cycle (1-3-5-1),
the very answer recorded from the unchanged crate (`C20_steiner_D21_counterexample`); the run with the
identity hash order returns a tree.  So "the result is a tree" cannot be proved of the algorithm: the code
expands every closure edge along the shortest-path tree of ITS OWN source and never re-runs a spanning
tree on the union (step 4 of Kou's algorithm is missing). -/
theorem C20_steiner_model_D21 :
    (Steiner.Oracle.Valid ⟨List.reverse⟩) ∧
    Steiner.steiner C11M.Meas.i64 (Steiner.viewOf d21Graph) [2, 3, 5, 4] ⟨List.reverse⟩ = .ok [1, 2, 3, 4, 5] [2, 3, 4, 5, 6] ∧
    Steiner.steiner C11M.Meas.i64 (Steiner.viewOf d21Graph) [2, 3, 5, 4] Steiner.idOracle = .ok [1, 2, 3, 4, 5] [2, 4, 5, 6] :=
  ⟨fun l => List.reverse_perm l, by decide +kernel, by decide +kernel⟩

/-- non-vacuity of `C20_steiner_model_spec`: its hypotheses hold on the witness graph (checked by the
driver's own Boolean, `C20_steiner_scope_check`) and the model answers `ok` there -/
example : Steiner.scopeB (Steiner.viewOf d21Graph) [2, 3, 5, 4] = true ∧
    Steiner.domainB (Steiner.viewOf d21Graph) [2, 3, 5, 4] = true := by decide +kernel

/-- **the 2-approximation** ("weighs at most twice the optimum"; it does NOT need the answer to be a
tree): kept as a statement — judged per run by brute force over all edge subsets
(`C20_steiner_judge_sound`, clause `weight`).  What is missing for a proof: (a) the answer's weight is at
most the weight of the closure's spanning tree (every retained edge lies on an expanded shortest path —
`C20_steiner_two_approx_partial` is that part), and (b) the doubling argument (a closed walk around an
optimal tree visits the terminals at cost `2·OPT`, so the closure has a spanning tree that cheap, and
Kruskal on sorted pops returns a minimum one — `C12_kruskal_model_min`). -/
def C20_steiner_two_approx_statement : Prop :=
  ∀ (v : View) (Wm : Int) (terms : List Nat) (o : Steiner.Oracle) (N E : List Nat),
    v.g.WellFormed → v.g.directed = false → (v.g.edges.map (·.id)).Nodup → C11M.viewArcsB v = true →
    simpleB v.g = true → 0 ≤ Wm → (∀ e ∈ v.g.edges, 0 < e.w ∧ e.w ≤ Wm) → C11W3.LinFit C11M.Meas.i64 v.g Wm →
    (∀ t ∈ terms, t ∈ v.g.nodes) → o.Valid →
    Steiner.steiner C11M.Meas.i64 v terms o = .ok N E →
    ∀ S, S.Sublist v.g.edges → (∀ t ∈ terms, ∀ t' ∈ terms, Reach (withEdges v.g.nodes S) t t') →
      weightOf (resultEdges v.g E) ≤ 2 * weightOf S



/-- proved part of `C20_steiner_two_approx_statement` (first step of (a)): for every hash order, every
edge of the answer joins a node `c` to its predecessor `p` on a SHORTEST path from some terminal `s`
(`dist(s,c) = dist(s,p) + w` for an arc `p → c` of cost `w`): the answer is a union of shortest paths
between terminals, one per edge of the closure's spanning tree.  Missing: summing these up without
double counting, and the doubling argument (b). -/
theorem C20_steiner_two_approx_partial (B : C11M.Meas) (v : View) (hwf : v.g.WellFormed) (Wm : Int) (hWm : 0 ≤ Wm)
    (hW : ∀ e ∈ v.g.edges, -Wm ≤ e.w ∧ e.w ≤ Wm) (hfit : C11W3.LinFit B v.g Wm)
    (terms : List Nat) (hterms : ∀ t ∈ terms, t ∈ v.g.nodes) (o : Steiner.Oracle) (ho : o.Valid)
    (N E : List Nat) (h : Steiner.steiner B v terms o = .ok N E) :
    ∃ es : List Edge, es.Sublist v.g.edges ∧ E = es.map (·.id) ∧
      ∀ e ∈ es, ∃ s ∈ terms, ∃ (p c : Nat) (a w : Int),
        ((e.src = p ∧ e.tgt = c) ∨ (e.src = c ∧ e.tgt = p)) ∧
        IsShortest v.g s p a ∧ (p, c, w) ∈ v.g.arcs ∧ IsShortest v.g s c (a + w) := by
  unfold Steiner.steiner at h
  split at h
  · cases h
  · rename_i c hc
    exact Steiner.steinerFrom_edges_tight B v hwf Wm hWm hW hfit hterms (Steiner.pops_of_oracle hc o ho).2 h

/-! ### (5'') all_simple_paths with `from = to`: the judge -/

/-- soundness of the judge the driver runs on the `from = to` cases: the yielded sequences are EXACTLY
the simple cycles through `a` in the sense of `C20_paths_from_eq_to` (`Paths.IsSimpleCycleIn`: `a, mid…, a`
with `a :: mid` duplicate-free, `lo ≤ |mid| ≤ hi`, without an upper bound `|mid| + 2 ≤ max n 2`), each
once on a simple graph; the judge also establishes the hypotheses of `C20_paths_from_eq_to` -/
theorem C20_cycles_judge_sound (g : MGraph) (a lo : Nat) (hi : Option Nat) (out : List (List Nat))
    (h : judgeCycles g a lo hi out = none) :
    (g.directed = true ∧ EndpointsOk g ∧ g.nodes.Nodup ∧ a ∈ g.nodes) ∧
    (∀ p, p ∈ out ↔ Paths.IsSimpleCycleIn g a lo hi p) ∧ (simpleB g = true → out.Nodup) :=
  judgeCycles_sound g a lo hi out h

/-- judge and mirror model agree on `from = to`: an output accepted by the judge is, as a set, what the
mirrored iterator yields (both are exactly the simple cycles) -/
theorem C20_cycles_judge_model (g : MGraph) (a lo : Nat) (hi : Option Nat) (fuel : Nat) (out mout : List (List Nat))
    (h : judgeCycles g a lo hi out = none)
    (hm : Paths.allSimplePaths g.succ g.nodes.length a a lo hi fuel = some mout) :
    ∀ p, p ∈ out ↔ p ∈ mout := by
  obtain ⟨⟨hd, hg, _, ha⟩, hout, _⟩ := judgeCycles_sound g a lo hi out h
  have := (C20_paths_from_eq_to g a lo hi fuel mout hd hg ha hm).1
  intro p; rw [hout p, this p]

example : judgeCycles ⟨true, [0, 1, 2, 3], [⟨0, 0, 1, 1⟩, ⟨1, 1, 2, 1⟩, ⟨2, 2, 0, 1⟩]⟩ 0 0 none [[0, 1, 2, 0]] = none := by
  decide +kernel

/-! ### (2'') dsatur_coloring: the mirror the driver compares exactly -/

/-- **the exact mirror of `dsatur_coloring`** (`Model/C20W4DsaturBin.lean`: the code line by line on the
view, with std's `BinaryHeap` — `push` = sift-up, `pop` = swap with the last, sift-down-to-bottom,
sift-up — so every tie is decided as the real heap decides it; this is the function whose answer the
driver compares with /repo token by token).  On an undirected graph without dangling edges and with a
duplicate-free node list, for every view whose neighbour lists are rearrangements of the abstract
successor lists, it returns the greedy colouring along a duplicate-free, saturation-respecting order of
all nodes; the judge's clauses hold and `k ≤ 2` on bipartite graphs.  (Proof: the binary heap's `pop`
returns an entry of maximal score, so the run is an instance of the oracle model of
`C20_dsatur_heap_model`, in lockstep.) -/
theorem C20_dsatur_exact_mirror (v : View) (hd : v.g.directed = false) (hg : EndpointsOk v.g) (hnd : v.g.nodes.Nodup)
    (hview : ∀ x ∈ v.g.nodes, (v.succ x).Perm (v.g.succ x)) :
    ∃ col k trace order, DsaturBin.run v = some (col, k, trace) ∧
      order.Nodup ∧ (∀ x, x ∈ order ↔ x ∈ v.g.nodes) ∧
      col = Dsatur.greedy v.g order ∧ k = Dsatur.count col ∧ DsaturHeap.SatRespecting v.g order ∧
      (v.g.nodes ≠ [] → ColouringOk v.g col k) ∧ (Bipartite v.g → k ≤ 2) :=
  DsaturBin.run_model v hd hg hnd hview

/-! ### (4'') maximal_cliques: the existential differential run -/

/-- the pivot rule of the code: the pivot is a vertex of `P` whose degree is maximal among `P` -/
abbrev CliquesConcrete := CliquesRun.Concrete

/-- **soundness of the driver's exact check for `maximal_cliques`**: if `CliquesRun.check g out` accepts
the implementation's `Vec` (cliques in the order returned, each sorted), there is a run of the proved
Bron–Kerbosch model — a VALID oracle that moreover follows the code's CONCRETE pivot rule — whose
report, clique by clique, is exactly that `Vec` -/
theorem C20_cliques_run_check (g : MGraph) (out : List (List Nat)) (h : CliquesRun.check g out = none) :
    ∃ o : Cliques.Oracle, o.Valid ∧ CliquesRun.Concrete g o ∧
      (Cliques.maximalCliques g o (g.nodes.length + 1)).map sortNats = out :=
  CliquesRun.check_sound_concrete g out h

/-- … hence (through `C20_cliques_model_exact`) exactly the maximal cliques, each once -/
theorem C20_cliques_run_exact (g : MGraph) (hd : g.directed = false) (hnd : g.nodes.Nodup)
    (out : List (List Nat)) (h : CliquesRun.check g out = none) :
    (∀ c ∈ out, c.Nodup ∧ ∀ x ∈ c, x ∈ g.nodes) ∧ (out.map (canon g)).Nodup ∧
    ∀ S, S.Sublist g.nodes → (S ∈ out.map (canon g) ↔ IsMaxClique g S) :=
  CliquesRun.check_exact_undirected g hd hnd out h

/-! ## wave 6 — the corners of the property

The wave-6 correspondence run drives the algorithms at the corners of their documented domains (and on
every adaptor / index type / weight type the trait bounds admit).  Where the corner has a statement of its
own it is proved here: a target that is not a node of the graph (an index beyond the bound, the stale id
of a removed node), a lower bound above the upper bound, the damping factor at the upper end of its range.
The harness-side `law …` lines (iterator contracts, independence of `TargetColl` / hasher / output index
type / float width, capacity of `u8` indices) are checks of the implementation against itself and have no
Lean counterpart. -/

/-- **absent target — the judge**: if `b` is not a node of the graph the only accepted answer is the empty
one, whatever the bounds. -/
theorem C20_paths_absent_target (g : MGraph) (hg : EndpointsOk g) (a b lo : Nat) (hi : Option Nat)
    (hb : b ∉ g.nodes) (out : List (List Nat)) (h : judgePaths g a b lo hi out = none) : out = [] :=
  eq_nil_of_forall_not out _ (fun p hp => ((C20_paths_judge_sound g a b lo hi out h).1 p).1 hp)
    (no_simplePath_to_absent g hg a b lo hi hb)

/-- **absent target — the mirrored iterator** yields nothing (for every fuel that suffices). -/
theorem C20_paths_absent_target_model (g : MGraph) (hg : EndpointsOk g) (a b lo : Nat) (hi : Option Nat)
    (hab : a ≠ b) (hb : b ∉ g.nodes) (count fuel : Nat) (out : List (List Nat))
    (h : Paths.allSimplePaths g.succ count a b lo hi fuel = some out) : out = [] :=
  eq_nil_of_forall_not out _ (C20_paths_model_sound g a b lo hi hab count fuel out h)
    (no_simplePath_to_absent g hg a b lo hi hb)

/-- **`min > max` — the judge**: with an upper bound below the lower bound nothing qualifies. -/
theorem C20_paths_empty_bounds (g : MGraph) (a b lo hmax : Nat) (hlt : hmax < lo) (out : List (List Nat))
    (h : judgePaths g a b lo (some hmax) out = none) : out = [] :=
  eq_nil_of_forall_not out _ (fun p hp => ((C20_paths_judge_sound g a b lo (some hmax) out h).1 p).1 hp)
    (no_simplePath_empty_bounds g a b lo hmax hlt)

/-- **`min > max` — the mirrored iterator** yields nothing. -/
theorem C20_paths_empty_bounds_model (g : MGraph) (a b lo hmax : Nat) (hab : a ≠ b) (hlt : hmax < lo)
    (count fuel : Nat) (out : List (List Nat))
    (h : Paths.allSimplePaths g.succ count a b lo (some hmax) fuel = some out) : out = [] :=
  eq_nil_of_forall_not out _ (C20_paths_model_sound g a b lo (some hmax) hab count fuel out h)
    (no_simplePath_empty_bounds g a b lo hmax hlt)

-- non-vacuity: the hypotheses are satisfiable in both corners (the `Decidable` instance of `IsSimplePathIn`
-- is built by `simp` and does not reduce in the kernel, so the judge's own verdicts on these inputs —
-- `none` for `[]`, `some _` for `[[0, 1, 2]]` — are `#eval`-checked, not `decide`d; the run-time driver
-- evaluates exactly these calls)
example : EndpointsOk ⟨true, [0, 1, 2], [⟨0, 0, 1, 1⟩, ⟨1, 1, 2, 1⟩]⟩ ∧ 7 ∉ [0, 1, 2] := by decide
example : Paths.allSimplePaths (MGraph.succ ⟨true, [0, 1, 2], [⟨0, 0, 1, 1⟩, ⟨1, 1, 2, 1⟩]⟩) 3 0 7 0 none 100 = some [] := by
  decide
example : Paths.allSimplePaths (MGraph.succ ⟨true, [0, 1, 2], [⟨0, 0, 1, 1⟩, ⟨1, 1, 2, 1⟩, ⟨2, 0, 2, 1⟩]⟩) 3 0 2 2 (some 1) 100 = some [] := by
  decide

/-- **damping factor 1** (the upper end of the documented range, "0 and 1 included"): on a non-empty
well-formed graph the rational model is defined after any number of iterations, and returns one rank per
node, every rank non-negative, summing to exactly 1. -/
theorem C20_pagerank_damping_one (g : MGraph) (hne : g.nodes ≠ []) (hnd : g.nodes.Nodup)
    (hg : ∀ e ∈ g.edges, e.src ∈ g.nodes ∧ e.tgt ∈ g.nodes) (k : Nat) :
    ∃ r, PR.pageRank g 1 k = some r ∧ r.map (·.1) = g.nodes ∧ (∀ p ∈ r, 0 ≤ p.2) ∧ (r.map (·.2)).sum = 1 := by
  have hd := C20_pagerank_defined g hne hnd hg 1 (by decide) (by decide) k
  obtain ⟨r, hr⟩ := Option.isSome_iff_exists.mp hd
  exact ⟨r, hr, C20_pagerank_sum g hne 1 (by decide) (by decide) k r hr⟩

example : (PR.pageRank ⟨true, [0, 1, 2], [⟨0, 0, 1, 1⟩, ⟨1, 1, 2, 1⟩, ⟨2, 2, 0, 1⟩]⟩ 1 3).isSome = true := by decide +kernel

/-! ## run-time checks of the hypotheses

Every hypothesis of the theorems above that concerns the concrete case is evaluated by `Driver/C20.lean`
on every case it judges, as one of the Booleans below (`Model/C20W4Scope.lean`, `Steiner.scopeB`,
`DsaturBin.hypsB` …); a case whose check fails is answered `SPECFAIL side condition …` / `SPECFAIL generator
left the proved range …` and nothing else is concluded about it. -/

/-- `graph` line: the encoding's neighbour iteration describes the abstract graph (as multisets) -/
theorem C20_view_check (v : View) (h : viewOkB v = true) :
    ∀ a ∈ v.g.nodes, sameSet (v.succ a) (v.g.succ a) = true ∧ sameSet (v.pred a) (v.g.pred a) = true :=
  viewOkB_sound h

/-- `fas`: the hypotheses of `C20_fas_model_correct` for the edge list the driver hands to the model -/
theorem C20_fas_scope_check (g : MGraph) (eorder : List Nat) (h : fasScopeB g eorder = true) :
    g.directed = true ∧ ∀ e ∈ g.edges, e ∈ fasOrder g eorder := fasScopeB_sound h

/-- `dsatur`: the hypotheses of `C20_dsatur_heap_model` / `C20_dsatur_exact_mirror` -/
theorem C20_dsatur_scope_check (v : View) (h1 : DsaturBin.hypsB v.g = true) (h2 : DsaturBin.viewPermB v = true) :
    v.g.directed = false ∧ EndpointsOk v.g ∧ v.g.nodes.Nodup ∧ ∀ x ∈ v.g.nodes, (v.succ x).Perm (v.g.succ x) := by
  obtain ⟨a, b, c⟩ := DsaturBin.hypsB_sound v.g h1
  refine ⟨a, b, c, fun x hx => ?_⟩
  simp only [DsaturBin.viewPermB, List.all_eq_true] at h2
  exact List.isPerm_iff.mp (h2 x hx)

/-- `dsatur`: under those checks the concrete heap run IS a run of the oracle model (with the oracle
that replays the heap's pops, which is valid) -/
theorem C20_dsatur_run_check (v : View) (h1 : DsaturBin.hypsB v.g = true) (h2 : DsaturBin.viewPermB v = true) :
    ∃ col k trace, DsaturBin.run v = some (col, k, trace) ∧ (DsaturBin.traceOracle trace).Valid ∧
      DsaturHeap.dsatur v.g (DsaturBin.traceOracle trace) (DsaturHeap.fuelBound v.g) = some (col, k) :=
  DsaturBin.checkB_sound v (DsaturBin.checkB_complete_of_B v h1 h2)

/-- `tred`: `Tred.DagInput`, the hypothesis of `C20_tred_end_to_end`, `C20_tred_revmap`, `C20_tred_toposorted` -/
theorem C20_tred_scope_check (v : View) (topo : List Nat) (h : dagInputB v topo = true) : Tred.DagInput v topo :=
  dagInputB_sound h

/-- `cliques`: the hypotheses of `C20_cliques_model_exact_undirected` / `C20_cliques_run_exact` -/
theorem C20_cliques_scope_check (g : MGraph) (h : CliquesRun.nodupB g.nodes = true) : g.nodes.Nodup :=
  CliquesRun.nodupB_sound h

/-- `paths`: the hypotheses of `C20_paths_model_exact` / `C20_paths_from_eq_to` (`a ≠ b` is the case
split of the driver; `… = some out` is the model run itself) -/
theorem C20_paths_scope_check (g : MGraph) (a : Nat) (h : pathsScopeB g a = true) :
    g.directed = true ∧ EndpointsOk g ∧ a ∈ g.nodes := pathsScopeB_sound h

/-- `steiner`: the hypotheses of `C20_steiner_model_spec` with `Wm = Steiner.costBound = 2^32`, `B = i64` -/
theorem C20_steiner_scope_check (v : View) (terms : List Nat) (h : Steiner.scopeB v terms = true) :
    v.g.WellFormed ∧ (∀ e ∈ v.g.edges, -Steiner.costBound ≤ e.w ∧ e.w ≤ Steiner.costBound) ∧
      C11W3.LinFit C11M.Meas.i64 v.g Steiner.costBound ∧ ∀ t ∈ terms, t ∈ v.g.nodes :=
  Steiner.scopeB_sound h

/-- `steiner`: the domain hypotheses of `C20_steiner_model_total` (an undirected graph, `edges()`
describing its arcs, positive costs, pairwise connected terminals) -/
theorem C20_steiner_domain_check (v : View) (terms : List Nat) (h : Steiner.domainB v terms = true) :
    v.g.directed = false ∧ C10P.ViewArcs v ∧ (∀ e ∈ v.g.edges, 0 < e.w) ∧
      ∀ a ∈ terms, ∀ b ∈ terms, Reach v.g a b := Steiner.domainB_sound h

/-- `steiner`: a case that passes both checks is in the scope of `C20_steiner_model_correct`: for every
hash order the mirror model returns a connected subgraph with all terminals and terminal leaves -/
theorem C20_steiner_checked_case (v : View) (terms : List Nat) (h1 : Steiner.scopeB v terms = true)
    (h2 : Steiner.domainB v terms = true) (o : Steiner.Oracle) (ho : o.Valid) :
    ∃ N E, Steiner.steiner C11M.Meas.i64 v terms o = .ok N E ∧
      N.Sublist v.g.nodes ∧ (∀ t ∈ terms, t ∈ N) ∧
      ∃ es : List Edge, es.Sublist v.g.edges ∧ E = es.map (·.id) ∧ (∀ e ∈ es, e.src ∈ N ∧ e.tgt ∈ N) ∧
        Steiner.Connected (withEdges N es) ∧
        (∀ x ∈ N, x ∉ terms → Steiner.single (Steiner.nbrs es x) = false) := by
  obtain ⟨a, b, c, d⟩ := Steiner.scopeB_sound h1
  obtain ⟨_, e, f, g⟩ := Steiner.domainB_sound h2
  exact C20_steiner_model_correct _ v a e Steiner.costBound (by decide) (fun x hx => ⟨f x hx, (b x hx).2⟩) c terms d g o ho

/-- `steiner`: the two facts about a candidate pop order that `C20_steiner_model_spec_pops` assumes -/
theorem C20_steiner_pops_check (terms : List Nat) (pops : List Steiner.Item) (h : Steiner.popsOkB terms pops = true) :
    (∀ a ∈ terms, ∀ b ∈ terms, a ≠ b → Steiner.ILink pops a b) ∧ (∀ it ∈ pops, it.a ∈ terms ∧ it.b ∈ terms) :=
  Steiner.popsOkB_sound h

/-- `steiner`: a case the driver answers `ok` on its exact part — the checks passed and some candidate
pop order reproduces the implementation's answer — is inside `C20_steiner_model_spec_pops`: that answer
lies inside the graph, contains the terminals, is connected and has only terminals as leaves -/
theorem C20_steiner_accepted_case (v : View) (terms : List Nat) (pops : List Steiner.Item) (N E : List Nat)
    (h1 : Steiner.scopeB v terms = true) (h2 : Steiner.popsOkB terms pops = true)
    (h : Steiner.steinerFrom C11M.Meas.i64 v terms pops = .ok N E) :
    N.Sublist v.g.nodes ∧ (∀ t ∈ terms, t ∈ N) ∧
    ∃ es : List Edge, es.Sublist v.g.edges ∧ E = es.map (·.id) ∧ (∀ e ∈ es, e.src ∈ N ∧ e.tgt ∈ N) ∧
      Steiner.Connected (withEdges N es) ∧
      (∀ x ∈ N, x ∉ terms → Steiner.single (Steiner.nbrs es x) = false) := by
  obtain ⟨a, b, c, d⟩ := Steiner.scopeB_sound h1
  obtain ⟨e, f⟩ := Steiner.popsOkB_sound h2
  exact Steiner.steinerFrom_spec _ v a Steiner.costBound (by decide) b c d e f h

/-- `pagerank`: the hypotheses of `C20_pagerank_sum`, `C20_pagerank_defined`, `C20_pagerank_equivariant`
(`nodes ≠ []` is the case split of the driver) -/
theorem C20_pagerank_scope_check (g : MGraph) (d : Rat) (perm : List Nat) (h : pagerankScopeB g d perm = true) :
    g.nodes.Nodup ∧ (∀ e ∈ g.edges, e.src ∈ g.nodes ∧ e.tgt ∈ g.nodes) ∧ 0 ≤ d ∧ d ≤ 1 ∧
      ∀ x y, applyPerm perm x = applyPerm perm y → x = y := pagerankScopeB_sound h

/-- the checks are satisfiable by non-trivial cases (a DAG with its toposort, a cyclic digraph with its
edge list, a relabelling) -/
example :
    dagInputB (Steiner.viewOf ⟨true, [0, 1, 2], [⟨0, 0, 1, 1⟩, ⟨1, 1, 2, 1⟩, ⟨2, 0, 2, 1⟩]⟩) [0, 1, 2] = true ∧
    fasScopeB ⟨true, [0, 1, 2], [⟨0, 0, 1, 1⟩, ⟨1, 1, 2, 1⟩, ⟨2, 2, 0, 1⟩, ⟨3, 1, 1, 1⟩]⟩ [3, 1, 0, 2] = true ∧
    pathsScopeB ⟨true, [0, 1, 2], [⟨0, 0, 1, 1⟩, ⟨1, 1, 2, 1⟩, ⟨2, 2, 0, 1⟩]⟩ 1 = true ∧
    pagerankScopeB ⟨true, [0, 1, 2], [⟨0, 0, 1, 1⟩, ⟨1, 1, 2, 1⟩]⟩ (17 / 20) [2, 0, 1] = true ∧
    viewOkB (Steiner.viewOf d21Graph) = true := by decide +kernel

end PetgraphModel.C20T
